#!/bin/bash
# tools/seed_confirm.sh <outdir> <demo-file> <pkg-dir-relative> <run-regexp> "<pkgs to test>"
# Confirms a seeded change: builds, runs the touched packages' existing tests, and runs the demo with and without the change.
set -u
out="$1"; demo="$2"; pkgdir="$3"; run="$4"; pkgs="$5"
export GOFLAGS=-mod=mod GOPROXY=off GOSUMDB=off GOTOOLCHAIN=local
wt="/var/tmp/sc-$$"
git -C /repo worktree add -q "$wt" HEAD || exit 9
trap 'git -C /repo worktree remove --force "$wt" 2>/dev/null' EXIT
if [ -d "$demo" ]; then for f in "$demo"/*_test.go; do cp "$f" "$wt/$pkgdir/zz_seed_$(basename "$f")"; done; else cp "$demo" "$wt/$pkgdir/zz_seed_demo_test.go"; fi
echo "== demo WITHOUT change (must pass)"
(cd "$wt" && go test -count=1 -vet=off -run "$run" "./$pkgdir/" 2>&1 | tail -3)
git -C "$wt" apply "$out/patch.diff" || { echo "patch does not apply"; exit 8; }
echo "== build with change"
(cd "$wt" && go build $(go list ./... | grep -v consensus/snowman) 2>&1 | tail -3; echo "build(all but snowman, which does not build on the unchanged tree either) rc=${PIPESTATUS[0]}")
echo "== demo WITH change (must fail)"
(cd "$wt" && go test -count=1 -vet=off -run "$run" "./$pkgdir/" 2>&1 | tail -4)
rm -f "$wt/$pkgdir"/zz_seed_*
echo "== existing tests with change (must pass): $pkgs"
(cd "$wt" && go test -count=1 -vet=off $pkgs 2>&1 | tail -6)
