#!/bin/bash
# tools/run_thorough.sh C11 C12 ...   runs the thorough tier of the given checks one after another and prints a summary line each
for p in "$@"; do
  s=$(date +%s)
  out=$(VERIF_OUT=${VERIF_OUT:-/var/tmp/thorough-out} ./check $p thorough 2>&1 | grep "^HELD\|^INCONCLUSIVE\|^VIOLATION\|^KNOWN" | cut -c1-240 | head -14)
  echo "== $p rc-lines after $(( $(date +%s) - s )) s"; echo "$out"
done
