#!/usr/bin/env python3
"""Record confirmed seeded changes from /var/tmp/seed/out-Cxx into /verif/seeded/Cxx-1/ (patch.diff, demo/, notes.md, meta.json)."""
import json, os, shutil, glob, sys
meta = json.load(open(os.path.join(os.path.dirname(__file__), 'seed_meta.json')))
for key, m in meta.items():
    pid, _, rnd = key.partition('-')
    rnd = rnd or '1'
    src = '/var/tmp/seed/out' + ('' if rnd == '1' else rnd) + '-' + pid
    if not os.path.exists(src + '/patch.diff'):
        continue
    dst = '/verif/seeded/' + pid + '-' + rnd
    os.makedirs(dst + '/demo', exist_ok=True)
    shutil.copy(src + '/patch.diff', dst + '/patch.diff')
    for f in glob.glob(src + '/demo/*'):
        if os.path.isfile(f):
            shutil.copy(f, dst + '/demo/')
    if os.path.exists(src + '/notes.md'):
        shutil.copy(src + '/notes.md', dst + '/notes.md')
    conf = ''
    p = '/var/tmp/seed/confirm%s-%s.log' % ('' if rnd == '1' else rnd, pid)
    if os.path.exists(p):
        conf = ''.join(l for l in open(p) if 'no non-test Go files' not in l)[-1800:]
    elif os.path.exists(dst + '/meta.json'):
        conf = json.load(open(dst + '/meta.json')).get('confirm_log_tail', '')
    json.dump({"id": pid + '-' + rnd, "property": pid, "change": m['change'], "needs_to_manifest": m['needs'],
               "author": "independent sub-agent given only the property text and a scratch worktree of /repo",
               "confirmed_by_me": "tools/seed_confirm.sh on a scratch worktree of /repo HEAD: demo passes without the change and fails with it; all packages except consensus/snowman (which does not build on the unchanged tree either) build; the existing tests of the touched packages pass with the change",
               "confirm_log_tail": conf, "check_result": m['result'], "check_strengthened_because_of_it": m.get('strengthened', False),
               "evaluated_with": "tools/seed_eval.sh /verif/seeded/%s-%s/patch.diff %s quick" % (pid, rnd, m.get('check', pid))},
              open(dst + '/meta.json', 'w'), indent=1)
print(sorted(os.listdir('/verif/seeded')))
