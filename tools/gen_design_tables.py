#!/usr/bin/env python3
"""Regenerates the generated sections of DESIGN.md (between <!-- GEN:x --> markers) from known_findings.json and tools/seed_meta.json."""
import json, os, re
root = os.path.dirname(os.path.dirname(os.path.abspath(__file__)))
d = open(os.path.join(root, 'DESIGN.md')).read()
kf = json.load(open(os.path.join(root, 'known_findings.json')))['findings']
sm = json.load(open(os.path.join(root, 'tools', 'seed_meta.json')))
def section(name, body):
    global d
    a, b = '<!-- GEN:%s -->' % name, '<!-- /GEN:%s -->' % name
    block = a + '\n' + body + '\n' + b
    if a in d:
        d = re.sub(re.escape(a) + '.*?' + re.escape(b), lambda m: block, d, flags=re.S)
    else:
        d += '\n' + block + '\n'
rows = ['| id | property | status | commit | what fails |', '|---|---|---|---|---|']
for f in kf:
    what = (f.get('record') or f.get('description') or '').replace('|', '\\|').replace('\n', ' ')
    rows.append('| %s | %s | %s | %s | %s |' % (f['id'], f['property'], f['status'], f.get('commit', ''), what[:420]))
section('findings', '\n'.join(rows))
rows = ['| seeded change | what was changed | needs to manifest | result |', '|---|---|---|---|']
for pid in sorted(sm):
    m = sm[pid]
    rows.append('| %s | %s | %s | %s |' % (pid if '-' in pid else pid + '-1', m['change'].replace('|', '\\|'), m['needs'].replace('|', '\\|'), m['result'].replace('|', '\\|')))
section('seeded', '\n'.join(rows))
open(os.path.join(root, 'DESIGN.md'), 'w').write(d)
print('ok')
