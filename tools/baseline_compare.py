#!/usr/bin/env python3
"""Compare a `go test -json` log with /root/.vp/BASELINE.json stable_pass."""
import json, sys
base = set(json.load(open('/root/.vp/BASELINE.json'))['stable_pass'])
res = {}
for l in open(sys.argv[1], errors='replace'):
    try:
        e = json.loads(l)
    except Exception:
        continue
    t = e.get('Test')
    if not t or e.get('Action') not in ('pass', 'fail', 'skip'):
        continue
    res[e['Package'] + '::' + t] = e['Action']
missing = sorted(k for k in base if res.get(k) != 'pass')
print('baseline tests:', len(base), 'passing now:', len(base) - len(missing))
for k in missing[:40]:
    print('  NOT PASSING:', k, res.get(k))
