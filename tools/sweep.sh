#!/bin/bash
# tools/sweep.sh <tier> <seed> [checks...]  — run the given (default: all) checks one after another; print result lines and exit codes
tier="$1"; seed="$2"; shift 2
ids="$@"; [ -z "$ids" ] && ids=$(python3 -c "import json; print(' '.join(c['property_id'] for c in json.load(open('/verif/MANIFEST.json'))['checks']))")
cd /verif
for p in $ids; do
  s=$(date +%s)
  VERIF_SEED=$seed ./check $p $tier > /var/tmp/sweep-$p.log 2>&1; rc=$?
  echo "$p seed=$seed rc=$rc $(( $(date +%s) - s ))s $(grep -c '^KNOWN-FINDING' /var/tmp/sweep-$p.log) known | $(grep '^HELD\|^VIOLATION\|^INCONCLUSIVE' /var/tmp/sweep-$p.log | head -2 | cut -c1-150 | tr '\n' ' ')"
done
