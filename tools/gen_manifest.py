#!/usr/bin/env python3
"""Regenerates /verif/MANIFEST.json from tools/checks.json (per-property metadata) and the props present."""
import json, os, subprocess, sys
root = os.path.dirname(os.path.dirname(os.path.abspath(__file__)))
meta = json.load(open(os.path.join(root, 'tools', 'checks.json')))
props = [json.loads(l) for l in open(os.path.join(root, 'properties.jsonl'))]
checks, na = [], []
for p in props:
    pid = p['id']
    m = meta.get(pid)
    have = os.path.isdir(os.path.join(root, 'harness', 'props', pid.lower()))
    if m and have and not m.get('not_applicable'):
        checks.append({
            "property_id": pid,
            "quick_cmd": f"./check {pid} quick",
            "thorough_cmd": f"./check {pid} thorough",
            "evidence_file": f"/verif/evidence/{pid}.json",
            "replay_cmd_template": f"./check {pid} --replay {{path}}",
            "engine": "harness",
            "level_claimed": {"category": m.get('level', 'exploration'), "text": m['text'], "design_ref": f"DESIGN.md §2 {pid}"},
            "level_note": m['note'],
            "technique": m['technique'],
        })
    else:
        na.append({"property_id": pid, "reason": (m or {}).get('not_applicable') or "check not built yet in this session (planned: see DESIGN.md §2); not claimed"})
hooks_commits = []
try:
    out = subprocess.run(['git', '-C', '/repo', 'log', '--format=%H %s'], capture_output=True, text=True).stdout
    hooks_commits = [l.split()[0] for l in out.splitlines() if l.split(' ', 1)[1].startswith('verif-hook:')]
except Exception:
    pass
man = {
    "version": 1,
    "setup_cmd": "./check --setup",
    "hooks": {
        "guard": "verif",
        "enable": "go build -tags verif (the ./check script builds every property binary of /verif/harness against /repo with -tags verif; race variants with -race -tags verif)",
        "baseline_off_cmd": "cd /repo && export GOFLAGS=-mod=mod GOPROXY=off GOSUMDB=off && go test -json -vet=off -count=1 -timeout 25m ./...",
        "source_commits": hooks_commits,
        "add_only": True,
    },
    "engines": [{"name": "harness", "path": "/verif/harness", "serves_properties": [c['property_id'] for c in checks],
                 "kind_free_text": "Go module of runtime monitors: one binary per property drives the real chain33 packages under generated workloads (child process per batch/config/crash point), with reference-model oracles, structural invariant hooks, the Go race detector and porcupine"}],
    "checks": checks,
    "not_applicable": na,
    "notes": "Runtime monitoring and sanitizers only. Exit codes: 0 held, 1 VIOLATION, 2 INCONCLUSIVE (watchdog/too few events), 3 build failure. Known findings: /verif/known_findings.json.",
}
json.dump(man, open(os.path.join(root, 'MANIFEST.json'), 'w'), indent=1)
print(f"{len(checks)} checks, {len(na)} not claimed")
