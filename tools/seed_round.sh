#!/bin/bash
# tools/seed_round.sh <round> <Cxx> <demo-file> <pkgdir> <run-regexp> "<pkgs to test>"  — confirm a round-N seeded change and evaluate the check against it
r="$1"; p="$2"
out=/var/tmp/seed/out$r-$p
/verif/tools/seed_confirm.sh $out "$3" "$4" "$5" "$6" > /var/tmp/seed/confirm$r-$p.log 2>&1
grep -v "no non-test\|no test files" /var/tmp/seed/confirm$r-$p.log | grep "^==\|^ok\|^FAIL\|^---\|build failed\|rc=\|does not apply" | head -12
/verif/tools/seed_eval.sh $out/patch.diff $p
