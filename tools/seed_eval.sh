#!/bin/bash
# tools/seed_eval.sh <patch.diff> <Cxx> [tier]  — apply a seeded change on a scratch worktree of /repo HEAD and run the check against it
set -u
patch="$1"; prop="$2"; tier="${3:-quick}"
wt="/var/tmp/sw-$prop-$$"
git -C /repo worktree add -q "$wt" HEAD || exit 9
cleanup() { git -C /repo worktree remove --force "$wt" 2>/dev/null; tag="$(echo "$wt" | tr '/' '_')"; rm -rf "/var/tmp/verif-out$tag" "/verif/harness/bin/$tag" /verif/harness/.mods/$tag.*; }
trap cleanup EXIT
if ! git -C "$wt" apply "$patch"; then echo "SEED-EVAL: patch does not apply"; exit 8; fi
VERIF_REPO="$wt" /verif/check "$prop" "$tier" > "/var/tmp/seed-eval-$prop.log" 2>&1
rc=$?
grep -c "^VIOLATION" "/var/tmp/seed-eval-$prop.log" | sed "s/^/SEED-EVAL $prop rc=$rc violations=/"
grep "^violation" "/var/tmp/seed-eval-$prop.log" | head -3 | cut -c1-400
grep "^HELD\|^INCONCLUSIVE" "/var/tmp/seed-eval-$prop.log" | head -3 | cut -c1-300
exit 0
