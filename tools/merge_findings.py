#!/usr/bin/env python3
"""Merge /verif/known_findings.d/*.json (written by build agents) into /verif/known_findings.json (idempotent)."""
import json, glob, os
root = os.path.dirname(os.path.dirname(os.path.abspath(__file__)))
p = os.path.join(root, 'known_findings.json')
d = json.load(open(p))
ids = {f['id']: f for f in d['findings']}
for f in sorted(glob.glob(os.path.join(root, 'known_findings.d', '*.json'))):
    try:
        for x in json.load(open(f)).get('findings', []):
            ids[x['id']] = x
    except Exception as e:
        print('skip', f, e)
d['findings'] = sorted(ids.values(), key=lambda x: (x['property'], x['id']))
json.dump(d, open(p, 'w'), indent=1, ensure_ascii=False)
print(len(d['findings']), 'findings')
