package mpenv

import (
	"github.com/33cn/chain33/common/skiplist"
	"github.com/33cn/chain33/system/mempool"
	"github.com/33cn/chain33/types"
)

// ScoreQueue plugs the repository's score-ordered skiplist.Queue into the pool as QueueCache, the way the
// price/score mempool plugins do: score = fee per byte, equal scores ordered by arrival, a full queue evicts
// its lowest entry when the newcomer is strictly better.
type ScoreQueue struct {
	q         *skiplist.Queue
	properFee int64
	seq       int64
}

type scoreItem struct {
	*mempool.Item
	seq int64 // arrival number: earlier is "bigger" among equal scores (no wall clock involved)
}

// Score is the ordering key used by the adapter (and by the monitors' model).
func Score(tx *types.Transaction) int64 {
	return tx.Fee * 1000 / int64(types.Size(tx))
}

func (s *scoreItem) GetScore() int64 { return Score(s.Value) }
func (s *scoreItem) Hash() []byte    { return s.Value.Hash() }
func (s *scoreItem) ByteSize() int64 { return int64(types.Size(s.Value)) }
func (s *scoreItem) Compare(o skiplist.Scorer) int {
	os := o.(*scoreItem)
	switch {
	case s.seq < os.seq:
		return skiplist.Big
	case s.seq > os.seq:
		return skiplist.Small
	}
	return skiplist.Equal
}

// NewScoreQueue creates the adapter.
func NewScoreQueue(size, properFee int64) *ScoreQueue {
	return &ScoreQueue{q: skiplist.NewQueue(size), properFee: properFee}
}

func (c *ScoreQueue) Exist(hash string) bool { return c.q.Exist(hash) }
func (c *ScoreQueue) GetItem(hash string) (*mempool.Item, error) {
	it, err := c.q.GetItem(hash)
	if err != nil {
		return nil, err
	}
	return it.(*scoreItem).Item, nil
}
func (c *ScoreQueue) Push(tx *mempool.Item) error {
	c.seq++ // always called under the pool lock
	return c.q.Push(&scoreItem{Item: tx, seq: c.seq})
}
func (c *ScoreQueue) Remove(hash string) error { return c.q.Remove(hash) }
func (c *ScoreQueue) Size() int                { return c.q.Size() }
func (c *ScoreQueue) Walk(count int, cb func(tx *mempool.Item) bool) {
	c.q.Walk(count, func(v skiplist.Scorer) bool { return cb(v.(*scoreItem).Item) })
}
func (c *ScoreQueue) GetProperFee() int64  { return c.properFee }
func (c *ScoreQueue) GetCacheBytes() int64 { return c.q.GetCacheBytes() }
