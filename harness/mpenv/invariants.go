package mpenv

import (
	"fmt"
	"sort"

	"github.com/33cn/chain33/system/mempool"
	"github.com/33cn/chain33/types"
)

// Issue is one broken bookkeeping invariant.
type Issue struct {
	Shape string // canonical class, e.g. "fee-total"
	Msg   string
}

// CheckSnap evaluates the structural invariants of C21 on one snapshot (taken under the pool lock):
// no duplicate hash, size <= capacity, per-sender limit, and agreement of per-sender index, latest-tx list,
// short-hash lookup, byte counter and fee total with the queue contents.
func CheckSnap(s *mempool.VerifSnap, capacity int64) []Issue {
	var out []Issue
	add := func(shape, f string, a ...interface{}) { out = append(out, Issue{shape, fmt.Sprintf(f, a...)}) }
	content := map[string]*mempool.VerifItem{}
	perFrom := map[string][]string{}
	var bytes, fee int64
	for i := range s.Queue {
		it := &s.Queue[i]
		if _, dup := content[it.Hash]; dup {
			add("dup-hash", "queue holds hash %s twice", Hex8(it.Hash))
			continue
		}
		content[it.Hash] = it
		perFrom[it.From] = append(perFrom[it.From], it.Hash)
		bytes += it.Bytes
		fee += it.Fee
		if !it.ExistOK || !it.GetItemOK {
			add("queue-lookup", "queue walk yields %s but Exist=%v GetItem-same=%v", Hex8(it.Hash), it.ExistOK, it.GetItemOK)
		}
	}
	if s.QueueSize != len(s.Queue) {
		add("queue-size", "queue Size()=%d but walk yields %d entries", s.QueueSize, len(s.Queue))
	}
	if int64(len(s.Queue)) > capacity || int64(s.QueueSize) > capacity {
		add("over-capacity", "pool holds %d (Size()=%d) > capacity %d", len(s.Queue), s.QueueSize, capacity)
	}
	for from, hs := range perFrom {
		if len(hs) > s.MaxPerAcc {
			add("over-sender-limit", "sender %s has %d txs in the pool > limit %d", from, len(hs), s.MaxPerAcc)
		}
	}
	// per-sender index
	for addr, list := range s.Acc {
		if len(list) == 0 {
			add("acc-empty-entry", "per-sender index keeps an entry for %s which has no tx in the pool", addr)
		}
		if s.AccSize[addr] != len(list) {
			add("acc-listmap", "per-sender list of %s: Size()=%d, walk=%d", addr, s.AccSize[addr], len(list))
		}
		seen := map[string]bool{}
		for _, e := range list {
			it := content[e.Hash]
			switch {
			case seen[e.Hash]:
				add("acc-dup", "per-sender index of %s lists %s twice", addr, Hex8(e.Hash))
			case it == nil:
				add("acc-stale", "per-sender index of %s lists %s which is not in the pool", addr, Hex8(e.Hash))
			case it.From != addr:
				add("acc-wrong-sender", "per-sender index of %s lists %s sent by %s", addr, Hex8(e.Hash), it.From)
			case !e.KeyOK:
				add("acc-key", "per-sender index of %s: %s not reachable under its hash", addr, Hex8(e.Hash))
			}
			seen[e.Hash] = true
		}
	}
	for from, hs := range perFrom {
		have := map[string]bool{}
		for _, e := range s.Acc[from] {
			have[e.Hash] = true
		}
		for _, h := range hs {
			if !have[h] {
				add("acc-missing", "tx %s of sender %s is in the pool but not in the per-sender index", Hex8(h), from)
			}
		}
	}
	// latest list
	if len(s.Last) > s.LastMax || s.LastSize > s.LastMax {
		add("last-over", "latest-tx list holds %d (Size()=%d) > %d", len(s.Last), s.LastSize, s.LastMax)
	}
	if s.LastSize != len(s.Last) {
		add("last-listmap", "latest-tx list: Size()=%d, walk=%d", s.LastSize, len(s.Last))
	}
	seenLast := map[string]bool{}
	for _, e := range s.Last {
		if content[e.Hash] == nil {
			add("last-stale", "latest-tx list holds %s which is not in the pool", Hex8(e.Hash))
		} else if !e.KeyOK {
			add("last-key", "latest-tx list: %s not reachable under its hash", Hex8(e.Hash))
		}
		if seenLast[e.Hash] {
			add("last-dup", "latest-tx list holds %s twice", Hex8(e.Hash))
		}
		seenLast[e.Hash] = true
	}
	// short-hash lookup
	if s.SHashSize != len(s.SHash) {
		add("shash-listmap", "short-hash map: Size()=%d, walk=%d", s.SHashSize, len(s.SHash))
	}
	byShort := map[string]string{}
	for i, e := range s.SHash {
		if content[e.Hash] == nil {
			add("shash-stale", "short-hash map holds %s which is not in the pool", Hex8(e.Hash))
		} else if !e.KeyOK {
			add("shash-key", "short-hash map: %s not reachable under its short hash", Hex8(e.Hash))
		}
		byShort[s.SHashKeys[i]] = e.Hash
	}
	// two pool transactions may share a short hash (5 bytes): the lookup can then only know one of them, but it
	// must answer every short hash that occurs in the pool with a pool transaction carrying that short hash
	shortsInPool := map[string][]string{}
	for h := range content {
		k := types.CalcTxShortHash([]byte(h))
		shortsInPool[k] = append(shortsInPool[k], h)
	}
	for k, hs := range shortsInPool {
		got, ok := byShort[k]
		if !ok {
			add("shash-missing", "tx %s is in the pool but the short-hash lookup has no entry for its short hash %s", Hex8(hs[0]), k)
			continue
		}
		found := false
		for _, h := range hs {
			found = found || h == got
		}
		if !found {
			add("shash-other", "short hash %s of pool tx %s answers with tx %s", k, Hex8(hs[0]), Hex8(got))
		}
	}
	if s.QueueBytes != bytes {
		add("byte-counter", "byte counter %d, contents sum to %d", s.QueueBytes, bytes)
	}
	if s.TotalFee != fee {
		add("fee-total", "fee total %d, contents sum to %d", s.TotalFee, fee)
	}
	sort.Slice(out, func(i, j int) bool { return out[i].Shape+out[i].Msg < out[j].Shape+out[j].Msg })
	return out
}

// Fingerprint of the abstract pool state of a snapshot (sizes per structure; used to count distinct states).
func StateKey(s *mempool.VerifSnap) string {
	per := []int{}
	for _, l := range s.Acc {
		per = append(per, len(l))
	}
	sort.Ints(per)
	return fmt.Sprintf("q%d/acc%v/last%d/sh%d/h%d", len(s.Queue), per, len(s.Last), len(s.SHash), s.Height)
}
