// Package mpenv runs the REAL chain33 mempool module (system/mempool) on a real queue, with every other
// topic (blockchain, execs, rpc, p2p) answered by responders that read a model chain owned by the harness.
// Chain state (last header, on-chain hashes, exec verdicts, eth nonces) thereby becomes a generated input.
package mpenv

import (
	"fmt"
	"strings"
	"sync"
	"sync/atomic"
	"time"

	clog "github.com/33cn/chain33/common/log"
	"github.com/33cn/chain33/queue"
	_ "github.com/33cn/chain33/system/address" // btc + eth address drivers
	_ "github.com/33cn/chain33/system/crypto/init"
	_ "github.com/33cn/chain33/system/dapp/init"
	"github.com/33cn/chain33/system/mempool"
	"github.com/33cn/chain33/types"
)

// Opts configures one pool instance.
type Opts struct {
	PoolSize    int64  // capacity of the queue (and of the short-hash map)
	MaxPerAcc   int64  // per-sender limit
	MaxLast     int64  // latest-tx list size
	Queue       string // "simple" (timeline) | "score" (skiplist, price style)
	LevelFee    bool   // tiered fee
	MaxTxNumber int64  // mver.consensus.maxTxNumber (tiered-fee thresholds are /10 and /2 of it); 0 = default 10000
	NoExecCheck bool
	Height      int64 // initial model header
	BlockTime   int64
}

// Chain is the model chain the responders answer from. All fields guarded by Mu.
type Chain struct {
	Mu      sync.Mutex
	Header  types.Header
	OnChain map[string]bool   // tx hash -> on chain (visible to the dup check)
	ExecErr map[string]string // tx hash -> error text returned by the executor check
	Nonce   map[string]int64  // eth address -> current nonce
	// observed requests
	NHeader, NIsSync, NHashList, NCheckTx, NNonce, NBroadcast int64
	Broadcast                                                 map[string]int // tx hash -> times handed to p2p
}

// Env is one running pool with its responders.
type Env struct {
	Opts  Opts
	Cfg   *types.Chain33Config
	Q     queue.Queue
	Mem   *mempool.Mempool
	Cli   queue.Client
	Chain *Chain
	wg    sync.WaitGroup
	done  int32
}

var logOnce sync.Once

// CfgString returns the node configuration used for all mempool checks: the repository's built-in default
// ("local" title: every fork active from height 0 except the MaxHeight ones, TxHeight enabled).
func CfgString(o Opts) string {
	s := types.GetDefaultCfgstring()
	if o.MaxTxNumber > 0 {
		s = strings.Replace(s, "[mver.consensus]\nfundKeyAddr = \"1BQXS6TxaYYG5mADaWij4AxhZZUTpw95a5\"\npowLimitBits = \"0x1f00ffff\"\nmaxTxNumber = 10000",
			fmt.Sprintf("[mver.consensus]\nfundKeyAddr = \"1BQXS6TxaYYG5mADaWij4AxhZZUTpw95a5\"\npowLimitBits = \"0x1f00ffff\"\nmaxTxNumber = %d", o.MaxTxNumber), 1)
		s = strings.Replace(s, "[mver.consensus.ForkChainParamV1]\nmaxTxNumber = 10000",
			fmt.Sprintf("[mver.consensus.ForkChainParamV1]\nmaxTxNumber = %d", o.MaxTxNumber), 1)
	}
	return s
}

// New builds the pool exactly like system/mempool/timeline.New (or with the score queue) and starts it.
func New(o Opts) *Env {
	logOnce.Do(func() {
		queue.DisableLog()
		clog.SetLogLevel("crit")
	})
	if o.PoolSize == 0 {
		o.PoolSize = 10240
	}
	if o.MaxPerAcc == 0 {
		o.MaxPerAcc = 100
	}
	if o.MaxLast == 0 {
		o.MaxLast = 10
	}
	if o.Queue == "" {
		o.Queue = "simple"
	}
	cfg := types.NewChain33Config(CfgString(o))
	if o.MaxTxNumber > 0 && cfg.GetP(0).MaxTxNumber != o.MaxTxNumber {
		panic("mpenv: maxTxNumber substitution failed")
	}
	mcfg := cfg.GetModuleConfig().Mempool
	mcfg.PoolCacheSize = o.PoolSize
	mcfg.MaxTxNumPerAccount = o.MaxPerAcc
	mcfg.MaxTxLast = o.MaxLast
	mcfg.IsLevelFee = o.LevelFee
	mcfg.DisableExecCheck = o.NoExecCheck
	e := &Env{Opts: o, Cfg: cfg}
	e.Chain = &Chain{OnChain: map[string]bool{}, ExecErr: map[string]string{}, Nonce: map[string]int64{}, Broadcast: map[string]int{}}
	e.Chain.Header.Height, e.Chain.Header.BlockTime, e.Chain.Header.StateHash = o.Height, o.BlockTime, []byte("verif-state")
	e.Q = queue.New("channel")
	e.Q.SetConfig(cfg)
	e.startResponders()
	mem := mempool.NewMempool(mcfg)
	sub := mempool.SubConfig{PoolCacheSize: o.PoolSize, ProperFee: mcfg.MinTxFeeRate}
	switch o.Queue {
	case "simple":
		mem.SetQueueCache(mempool.NewSimpleQueue(sub))
	case "score":
		mem.SetQueueCache(NewScoreQueue(o.PoolSize, mcfg.MinTxFeeRate))
	default:
		panic("mpenv: unknown queue " + o.Queue)
	}
	mem.SetQueueClient(e.Q.Client())
	mem.Wait()
	mem.VerifStopTicker() // the one-minute sweep is triggered by the harness (VerifRemoveExpired) instead
	e.Mem = mem
	e.Cli = e.Q.Client()
	return e
}

// Close stops the pool and the queue.
func (e *Env) Close() {
	if !atomic.CompareAndSwapInt32(&e.done, 0, 1) {
		return
	}
	e.Mem.Close()
	e.Q.Close()
}

func (e *Env) startResponders() {
	serve := func(topic string, h func(cli queue.Client, msg *queue.Message)) {
		cli := e.Q.Client()
		cli.Sub(topic)
		go func() {
			for msg := range cli.Recv() {
				h(cli, msg)
			}
		}()
	}
	c := e.Chain
	serve("blockchain", func(cli queue.Client, msg *queue.Message) {
		switch msg.Ty {
		case types.EventGetLastHeader:
			c.Mu.Lock()
			h := &types.Header{Height: c.Header.Height, BlockTime: c.Header.BlockTime, StateHash: c.Header.StateHash, Difficulty: c.Header.Difficulty}
			c.NHeader++
			c.Mu.Unlock()
			msg.Reply(cli.NewMessage("", types.EventHeader, h))
		case types.EventIsSync:
			atomic.AddInt64(&c.NIsSync, 1)
			msg.Reply(cli.NewMessage("", types.EventReplyIsSync, &types.IsCaughtUp{Iscaughtup: true}))
		case types.EventTxHashList:
			req := msg.Data.(*types.TxHashList)
			var dup [][]byte
			c.Mu.Lock()
			c.NHashList++
			for _, h := range req.Hashes {
				if c.OnChain[string(h)] {
					dup = append(dup, h)
				}
			}
			c.Mu.Unlock()
			msg.Reply(cli.NewMessage("", types.EventTxHashListReply, &types.TxHashList{Hashes: dup}))
		}
	})
	serve("execs", func(cli queue.Client, msg *queue.Message) {
		if msg.Ty != types.EventCheckTx {
			return
		}
		req := msg.GetData().(*types.ExecTxList)
		res := &types.ReceiptCheckTxList{}
		c.Mu.Lock()
		c.NCheckTx++
		for _, tx := range req.Txs {
			res.Errs = append(res.Errs, c.ExecErr[string(tx.Hash())])
		}
		c.Mu.Unlock()
		msg.Reply(cli.NewMessage("", types.EventReceiptCheckTx, res))
	})
	serve("rpc", func(cli queue.Client, msg *queue.Message) {
		if msg.Ty != types.EventGetEvmNonce {
			return
		}
		req := msg.GetData().(*types.ReqEvmAccountNonce)
		c.Mu.Lock()
		c.NNonce++
		n := c.Nonce[req.Addr]
		c.Mu.Unlock()
		msg.Reply(cli.NewMessage("", types.EventGetEvmNonce, &types.EvmAccountNonce{Addr: req.Addr, Nonce: n}))
	})
	serve("p2p", func(cli queue.Client, msg *queue.Message) {
		if msg.Ty == types.EventTxBroadcast {
			if tx, ok := msg.GetData().(*types.Transaction); ok {
				h := string(tx.Hash())
				c.Mu.Lock()
				c.NBroadcast++
				c.Broadcast[h]++
				c.Mu.Unlock()
			}
		}
	})
}

// ---------------------------------------------------------------------------------------------
// typed client calls (all on the high-priority channel so that they are processed in send order)

const callTimeout = 60 * time.Second

// ErrTimeout is returned when the pool did not answer within the watchdog.
var ErrTimeout = fmt.Errorf("mpenv: no reply from mempool (watchdog)")

func (e *Env) call(ty int64, data interface{}) (*queue.Message, error) {
	msg := e.Cli.NewMessage("mempool", ty, data)
	if err := e.Cli.Send(msg, true); err != nil {
		return nil, err
	}
	r, err := e.Cli.WaitTimeout(msg, callTimeout)
	if err == queue.ErrQueueTimeout {
		return nil, ErrTimeout
	}
	return r, err
}

// SendTx submits a transaction (EventTx). ok = the pool's reply; text = its error text.
func (e *Env) SendTx(tx *types.Transaction) (ok bool, text string, err error) {
	r, err := e.call(types.EventTx, tx)
	if err == ErrTimeout {
		return false, "", err
	}
	if r == nil {
		return false, "", err
	}
	if rep, isRep := r.Data.(*types.Reply); isRep {
		return rep.IsOk, string(rep.Msg), nil
	}
	if er, isErr := r.Data.(error); isErr {
		return false, er.Error(), nil
	}
	return false, fmt.Sprintf("unexpected reply %T", r.Data), nil
}

// TxList asks for up to count transactions excluding the given hashes (EventTxList).
func (e *Env) TxList(count int64, exclude [][]byte) ([]*types.Transaction, string, error) {
	r, err := e.call(types.EventTxList, &types.TxHashList{Count: count, Hashes: exclude})
	if err == ErrTimeout {
		return nil, "", err
	}
	if r == nil {
		return nil, "", err
	}
	if l, ok := r.Data.(*types.ReplyTxList); ok {
		return l.Txs, "", nil
	}
	if er, ok := r.Data.(error); ok {
		return nil, er.Error(), nil
	}
	return nil, fmt.Sprintf("unexpected reply %T", r.Data), nil
}

// GetMempool returns EventGetMempool's list.
func (e *Env) GetMempool(all bool) ([]*types.Transaction, error) {
	var data interface{}
	if all {
		data = &types.ReqGetMempool{IsAll: true}
	}
	r, err := e.call(types.EventGetMempool, data)
	if err != nil {
		return nil, err
	}
	return r.Data.(*types.ReplyTxList).Txs, nil
}

// Size returns EventGetMempoolSize's answer; it doubles as an ordering barrier for reply-less events.
func (e *Env) Size() (int64, error) {
	r, err := e.call(types.EventGetMempoolSize, nil)
	if err != nil {
		return 0, err
	}
	return r.Data.(*types.MempoolSize).Size, nil
}

// LastTxs returns EventGetLastMempool's list.
func (e *Env) LastTxs() ([]*types.Transaction, error) {
	r, err := e.call(types.EventGetLastMempool, nil)
	if err != nil {
		return nil, err
	}
	return r.Data.(*types.ReplyTxList).Txs, nil
}

// AddrTxs returns EventGetAddrTxs' answer.
func (e *Env) AddrTxs(addrs []string) (*types.TransactionDetails, error) {
	r, err := e.call(types.EventGetAddrTxs, &types.ReqAddrs{Addrs: addrs})
	if err != nil {
		return nil, err
	}
	return r.Data.(*types.TransactionDetails), nil
}

// ByHash returns EventTxListByHash's answer (one entry per requested hash, nil when absent).
func (e *Env) ByHash(hashes []string, short bool) ([]*types.Transaction, error) {
	r, err := e.call(types.EventTxListByHash, &types.ReqTxHashList{Hashes: hashes, IsShortHash: short})
	if err != nil {
		return nil, err
	}
	return r.Data.(*types.ReplyTxList).Txs, nil
}

// Exists returns EventCheckTxsExist's flags.
func (e *Env) Exists(hashes [][]byte) ([]bool, error) {
	r, err := e.call(types.EventCheckTxsExist, &types.ReqCheckTxsExist{TxHashes: hashes})
	if err != nil {
		return nil, err
	}
	return r.Data.(*types.ReplyCheckTxsExist).ExistFlags, nil
}

// ProperFee returns EventGetProperFee's answer.
func (e *Env) ProperFee(req *types.ReqProperFee) (int64, error) {
	r, err := e.call(types.EventGetProperFee, req)
	if err != nil {
		return 0, err
	}
	return r.Data.(*types.ReplyProperFee).ProperFee, nil
}

// DelTxList sends EventDelTxList.
func (e *Env) DelTxList(hashes [][]byte) (bool, string, error) {
	r, err := e.call(types.EventDelTxList, &types.TxHashList{Hashes: hashes})
	if err == ErrTimeout {
		return false, "", err
	}
	if r == nil {
		return false, "", err
	}
	rep := r.Data.(*types.Reply)
	return rep.IsOk, string(rep.Msg), nil
}

// SetHeader changes the model chain's last header (what EventGetLastHeader answers).
func (e *Env) SetHeader(height, blockTime int64) {
	e.Chain.Mu.Lock()
	e.Chain.Header.Height = height
	e.Chain.Header.BlockTime = blockTime
	e.Chain.Mu.Unlock()
}

// AddBlock marks the block's transactions as on chain, moves the model header to the block and delivers
// EventAddBlock. The event has no reply; barrier=true waits until the pool has processed it.
func (e *Env) AddBlock(b *types.Block, barrier bool) error {
	e.Chain.Mu.Lock()
	for _, tx := range b.Txs {
		e.Chain.OnChain[string(tx.Hash())] = true
	}
	e.Chain.Header.Height = b.Height
	e.Chain.Header.BlockTime = b.BlockTime
	e.Chain.Mu.Unlock()
	msg := e.Cli.NewMessage("mempool", types.EventAddBlock, &types.BlockDetail{Block: b})
	if err := e.Cli.Send(msg, true); err != nil {
		return err
	}
	if barrier {
		_, err := e.Size()
		return err
	}
	return nil
}

// DelBlock rolls the model chain back to (parentHeight, parentTime), un-marks the block's transactions and
// delivers EventDelBlock.
func (e *Env) DelBlock(b *types.Block, parentHeight, parentTime int64, barrier bool) error {
	e.Chain.Mu.Lock()
	for _, tx := range b.Txs {
		delete(e.Chain.OnChain, string(tx.Hash()))
	}
	e.Chain.Header.Height = parentHeight
	e.Chain.Header.BlockTime = parentTime
	e.Chain.Mu.Unlock()
	msg := e.Cli.NewMessage("mempool", types.EventDelBlock, &types.BlockDetail{Block: b})
	if err := e.Cli.Send(msg, true); err != nil {
		return err
	}
	if barrier {
		_, err := e.Size()
		return err
	}
	return nil
}

// Event delivers a reply-less event (EventAddBlock / EventDelBlock) without touching the model chain.
func (e *Env) Event(ty int64, data interface{}, barrier bool) error {
	msg := e.Cli.NewMessage("mempool", ty, data)
	if err := e.Cli.Send(msg, true); err != nil {
		return err
	}
	if barrier {
		_, err := e.Size()
		return err
	}
	return nil
}
