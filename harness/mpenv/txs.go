package mpenv

import (
	"crypto/sha256"
	"fmt"

	"github.com/33cn/chain33/common/address"
	"github.com/33cn/chain33/common/crypto"
	ethaddr "github.com/33cn/chain33/system/address/eth"
	"github.com/33cn/chain33/system/crypto/secp256k1eth"
	cty "github.com/33cn/chain33/system/dapp/coins/types"
	"github.com/33cn/chain33/types"
)

// Key is a deterministic account.
type Key struct {
	Name string
	Priv crypto.PrivKey
	Addr string // sender address as the pool computes it (tx.From())
	Eth  bool   // signs with secp256k1eth + eth address format (nonce-ordered sender)
	Ty   int32  // signature type id
}

// NewKey derives account number i of a namespace; eth selects the eth signature type.
func NewKey(ns string, i int, eth bool) *Key {
	seed := sha256.Sum256([]byte(fmt.Sprintf("verif-mempool-key|%s|%d|%v", ns, i, eth)))
	name := types.GetSignName("", types.SECP256K1)
	ty := int32(types.SECP256K1)
	if eth {
		name = types.GetSignName("", types.SECP256K1ETH)
		ty = types.EncodeSignID(secp256k1eth.ID, ethaddr.ID)
	}
	c, err := crypto.Load(name, -1)
	if err != nil {
		panic(err)
	}
	priv, err := c.PrivKeyFromBytes(seed[:])
	if err != nil {
		panic(err)
	}
	k := &Key{Name: fmt.Sprintf("%s%d", ns, i), Priv: priv, Eth: eth, Ty: ty}
	k.Addr = address.PubKeyToAddr(types.ExtractAddressID(ty), priv.PubKey().Bytes())
	if eth {
		k.Name += "e"
	}
	return k
}

// Sign signs tx with the key's signature type.
func (k *Key) Sign(tx *types.Transaction) { tx.Sign(k.Ty, k.Priv) }

// ChainID of the configuration used by New.
const ChainID = 33

// MinFee returns the minimum fee of a signed transaction at the given rate, computed independently of
// Transaction.GetRealFee: one rate unit per started 1000 bytes... precisely (size/1000+1)*rate.
func MinFee(tx *types.Transaction, rate int64) int64 {
	return (int64(types.Size(tx))/1000 + 1) * rate
}

// Transfer builds an unsigned coins transfer.
func Transfer(to string, amount, fee, expire, nonce int64) *types.Transaction {
	v := &cty.CoinsAction_Transfer{Transfer: &types.AssetsTransfer{Amount: amount}}
	act := &cty.CoinsAction{Value: v, Ty: cty.CoinsActionTransfer}
	return &types.Transaction{Execer: []byte("coins"), Payload: types.Encode(act), Fee: fee, Expire: expire, Nonce: nonce, To: to, ChainID: ChainID}
}

// Blob builds an unsigned user.write transaction with a payload of n bytes (used to reach the byte thresholds of
// the tiered fee).
func Blob(to string, n int, fee, expire, nonce int64) *types.Transaction {
	p := make([]byte, n)
	for i := range p {
		p[i] = byte(nonce>>uint(8*(i%8))) ^ byte(i)
	}
	return &types.Transaction{Execer: []byte("user.write"), Payload: p, Fee: fee, Expire: expire, Nonce: nonce, To: to, ChainID: ChainID}
}

// MakeGroup links the member transactions into a group whose head pays headFee, signs member i with keys[i] and
// returns the group plus the transaction form that is submitted to the pool (head copy carrying the group).
func MakeGroup(members []*types.Transaction, keys []*Key, headFee int64) (*types.Transactions, *types.Transaction) {
	g := &types.Transactions{Txs: members}
	for i, tx := range members {
		tx.GroupCount = int32(len(members))
		tx.Signature = nil
		tx.Header, tx.Next = nil, nil
		if i == 0 {
			tx.Fee = headFee
		} else {
			tx.Fee = 0
		}
	}
	g.RebuiltGroup()
	for i, tx := range members {
		keys[i].Sign(tx)
	}
	return g, g.Tx()
}

// GroupMinFee is the minimum head fee of a group at the given rate: the sum of the members' minimum fees.
func GroupMinFee(g *types.Transactions, rate int64) int64 {
	var s int64
	for _, tx := range g.Txs {
		s += MinFee(tx, rate)
	}
	return s
}

// H returns the hash of tx as a string key.
func H(tx *types.Transaction) string { return string(tx.Hash()) }

// Hex8 is a short printable id of a hash.
func Hex8(h string) string {
	if len(h) > 4 {
		h = h[:4]
	}
	return fmt.Sprintf("%x", h)
}

// Copy returns a deep copy of tx (CloneTx shares the signature and the byte slices).
func Copy(tx *types.Transaction) *types.Transaction {
	var c types.Transaction
	if err := types.Decode(types.Encode(tx), &c); err != nil {
		panic(err)
	}
	return &c
}
