// Package txmut: helpers shared by the transaction properties (C16, C17): deterministic keys for every
// registered crypto driver, transaction generators and a protobuf-reflection driven field mutator.
package txmut

import (
	"fmt"
	"sort"

	"github.com/33cn/chain33/common/crypto"
	"github.com/33cn/chain33/types"
	"google.golang.org/protobuf/proto"
	"google.golang.org/protobuf/reflect/protoreflect"
	"verifharness/lib"
)

// Signer is a deterministic key pair of one crypto driver.
type Signer struct {
	Name     string
	CryptoID int32
	Priv     crypto.PrivKey
	Drv      crypto.Crypto
}

// KeyedDrivers lists the registered crypto drivers that can produce a key from 32 seed bytes (sorted by name).
func KeyedDrivers() []string {
	names, _ := crypto.GetCryptoList()
	var out []string
	for _, n := range names {
		d, err := crypto.Load(n, -1)
		if err != nil {
			continue
		}
		func() {
			defer func() { recover() }()
			seed := make([]byte, 32)
			seed[31] = 7
			p, err := d.PrivKeyFromBytes(seed)
			if err == nil && p != nil && p.PubKey() != nil {
				out = append(out, n)
			}
		}()
	}
	sort.Strings(out)
	return out
}

// NewSigner derives a key of driver name from the PRNG (no crypto/rand involved).
func NewSigner(r *lib.Rng, name string) *Signer {
	d, err := crypto.Load(name, -1)
	if err != nil {
		panic(fmt.Sprintf("crypto driver %s: %v", name, err))
	}
	for {
		seed := r.Bytes(32)
		seed[0] &= 0x7f // below every curve order
		if seed[0] == 0 && seed[1] == 0 {
			seed[1] = 1
		}
		p, err := d.PrivKeyFromBytes(seed)
		if err != nil || p == nil || p.PubKey() == nil {
			continue
		}
		return &Signer{Name: name, CryptoID: int32(crypto.GetType(name)), Priv: p, Drv: d}
	}
}

// Ty is the signature type id for this driver and address format.
func (s *Signer) Ty(addressID int32) int32 { return types.EncodeSignID(s.CryptoID, addressID) }

// CloneTx is an independent deep copy (proto.Clone, not the hand-written clone under test).
func CloneTx(tx *types.Transaction) *types.Transaction {
	return proto.Clone(tx).(*types.Transaction)
}

// ---------------------------------------------------------------------------------------------
// reflection-driven field mutations

// Mut is one mutation of one (possibly nested) field of a Transaction.
type Mut struct {
	Path  string // e.g. "payload", "signature.pubkey"
	Kind  string // flip-bit, append, truncate, clear, set, inc, dec, negate, zero, drop-message ...
	apply func(m protoreflect.Message)
	path  []protoreflect.FieldDescriptor
}

// Apply returns a mutated deep copy of tx (tx itself is untouched).
func (mu Mut) Apply(tx *types.Transaction) *types.Transaction {
	c := CloneTx(tx)
	m := c.ProtoReflect()
	for _, fd := range mu.path {
		m = m.Mutable(fd).Message()
	}
	mu.apply(m)
	return c
}

func (mu Mut) String() string { return mu.Path + ":" + mu.Kind }

// FieldMutations enumerates, from the message DESCRIPTOR, mutations of every field of tx (recursing into
// message fields). Every mutation changes the proto value of exactly one field. r chooses positions/values.
func FieldMutations(r *lib.Rng, tx *types.Transaction) []Mut {
	var out []Mut
	collect(r, tx.ProtoReflect(), "", nil, &out)
	return out
}

func collect(r *lib.Rng, m protoreflect.Message, prefix string, path []protoreflect.FieldDescriptor, out *[]Mut) {
	fds := m.Descriptor().Fields()
	for i := 0; i < fds.Len(); i++ {
		fd := fds.Get(i)
		name := prefix + string(fd.Name())
		add := func(kind string, f func(m protoreflect.Message)) {
			*out = append(*out, Mut{Path: name, Kind: kind, apply: f, path: append([]protoreflect.FieldDescriptor(nil), path...)})
		}
		if fd.IsList() || fd.IsMap() {
			panic("txmut: repeated/map field " + name + " needs a mutator") // a new field kind must not be skipped silently
		}
		switch fd.Kind() {
		case protoreflect.BytesKind:
			cur := append([]byte(nil), m.Get(fd).Bytes()...)
			if len(cur) > 0 {
				pos, bit := r.Intn(len(cur)), byte(1)<<uint(r.Intn(8))
				fk := "flip-bit"
				if pos == 0 {
					fk = "flip-bit-byte0"
				}
				add(fk, func(m protoreflect.Message) {
					b := append([]byte(nil), cur...)
					b[pos] ^= bit
					m.Set(fd, protoreflect.ValueOfBytes(b))
				})
				add("flip-first-bit", func(m protoreflect.Message) {
					b := append([]byte(nil), cur...)
					b[0] ^= 0x80
					m.Set(fd, protoreflect.ValueOfBytes(b))
				})
				add("flip-last-bit", func(m protoreflect.Message) {
					b := append([]byte(nil), cur...)
					b[len(b)-1] ^= 0x01
					m.Set(fd, protoreflect.ValueOfBytes(b))
				})
				tk := "truncate"
				if cur[len(cur)-1] == 0 {
					tk = "truncate-trailing-zero"
				}
				add(tk, func(m protoreflect.Message) { m.Set(fd, protoreflect.ValueOfBytes(cur[:len(cur)-1])) })
				if len(cur) > 1 {
					add("clear", func(m protoreflect.Message) { m.Clear(fd) })
				}
			} else {
				nb := r.Bytes(r.Range(1, 32))
				add("set", func(m protoreflect.Message) { m.Set(fd, protoreflect.ValueOfBytes(nb)) })
			}
			ext := byte(r.Intn(256))
			add("append", func(m protoreflect.Message) {
				m.Set(fd, protoreflect.ValueOfBytes(append(append([]byte(nil), cur...), ext)))
			})
			add("append-zero", func(m protoreflect.Message) {
				m.Set(fd, protoreflect.ValueOfBytes(append(append([]byte(nil), cur...), 0)))
			})
		case protoreflect.StringKind:
			cur := m.Get(fd).String()
			if len(cur) > 0 {
				pos := r.Intn(len(cur))
				add("change-char", func(m protoreflect.Message) {
					b := []byte(cur)
					if b[pos] == 'x' {
						b[pos] = 'y'
					} else {
						b[pos] = 'x'
					}
					m.Set(fd, protoreflect.ValueOfString(string(b)))
				})
				add("truncate", func(m protoreflect.Message) { m.Set(fd, protoreflect.ValueOfString(cur[:len(cur)-1])) })
				if len(cur) > 1 {
					add("clear", func(m protoreflect.Message) { m.Clear(fd) })
				}
			} else {
				add("set", func(m protoreflect.Message) { m.Set(fd, protoreflect.ValueOfString("1CbEVT9RnM5oZhWMj4fxUrJX94VtRotzvs")) })
			}
			add("append", func(m protoreflect.Message) { m.Set(fd, protoreflect.ValueOfString(cur+"1")) })
		case protoreflect.Int64Kind, protoreflect.Sint64Kind, protoreflect.Sfixed64Kind:
			cur := m.Get(fd).Int()
			set := func(kind string, v int64) {
				if v != cur {
					add(kind, func(m protoreflect.Message) { m.Set(fd, protoreflect.ValueOfInt64(v)) })
				}
			}
			set("inc", cur+1)
			set("dec", cur-1)
			set("negate", -cur)
			set("zero", 0)
			set("random", int64(r.U64()>>1))
			set("flip-bit40", cur^(1<<40))
		case protoreflect.Int32Kind, protoreflect.Sint32Kind, protoreflect.Sfixed32Kind:
			cur := int32(m.Get(fd).Int())
			set := func(kind string, v int32) {
				if v != cur {
					add(kind, func(m protoreflect.Message) { m.Set(fd, protoreflect.ValueOfInt32(v)) })
				}
			}
			set("inc", cur+1)
			set("dec", cur-1)
			set("negate", -cur)
			set("zero", 0)
			set("random", int32(r.U64()>>40))
		case protoreflect.Uint64Kind, protoreflect.Fixed64Kind:
			cur := m.Get(fd).Uint()
			add("inc", func(m protoreflect.Message) { m.Set(fd, protoreflect.ValueOfUint64(cur+1)) })
			add("random", func(m protoreflect.Message) { m.Set(fd, protoreflect.ValueOfUint64(cur^(r.U64()|1))) })
		case protoreflect.Uint32Kind, protoreflect.Fixed32Kind:
			cur := uint32(m.Get(fd).Uint())
			add("inc", func(m protoreflect.Message) { m.Set(fd, protoreflect.ValueOfUint32(cur+1)) })
		case protoreflect.BoolKind:
			cur := m.Get(fd).Bool()
			add("toggle", func(m protoreflect.Message) { m.Set(fd, protoreflect.ValueOfBool(!cur)) })
		case protoreflect.EnumKind:
			cur := m.Get(fd).Enum()
			add("inc", func(m protoreflect.Message) { m.Set(fd, protoreflect.ValueOfEnum(cur+1)) })
		case protoreflect.MessageKind:
			if m.Has(fd) {
				add("drop-message", func(m protoreflect.Message) { m.Clear(fd) })
				collect(r, m.Get(fd).Message(), name+".", append(append([]protoreflect.FieldDescriptor(nil), path...), fd), out)
			} else {
				add("set-empty-message", func(m protoreflect.Message) { m.Mutable(fd) })
			}
		case protoreflect.DoubleKind, protoreflect.FloatKind:
			cur := m.Get(fd).Float()
			add("inc", func(m protoreflect.Message) { m.Set(fd, protoreflect.ValueOfFloat64(cur+1)) })
		default:
			panic("txmut: field kind without a mutator: " + name)
		}
	}
}

// TopLevelFields returns the names of the top-level fields of Transaction (from the descriptor).
func TopLevelFields() []string {
	fds := (&types.Transaction{}).ProtoReflect().Descriptor().Fields()
	var out []string
	for i := 0; i < fds.Len(); i++ {
		out = append(out, string(fds.Get(i).Name()))
	}
	return out
}
