// Package execenv: a real node (executor + store + blockchain) with the synthetic vexec drivers
// registered and a funded base state, plus helpers to run EventExecTxList against that state.
package execenv

import (
	"fmt"

	"github.com/33cn/chain33/common/address"
	"github.com/33cn/chain33/common/crypto"
	"github.com/33cn/chain33/types"
	"github.com/33cn/chain33/util"
	"verifharness/node"
	"verifharness/vexec"
)

type Env struct {
	N    *node.Node
	Cfg  *types.Chain33Config
	Tip  *types.Block
	Keys []crypto.PrivKey // funded: genesis, TestPrivkeyList[0], [2], [3]
}

// ExtraRegister, when set, registers additional executors before the node starts.
var ExtraRegister func(cfg *types.Chain33Config)

func AddrOf(k crypto.PrivKey) string {
	return address.PubKeyToAddr(address.DefaultID, k.PubKey().Bytes())
}

// New starts a node in dir, registers vexec and connects one funding block.
func New(dir string, opt func(o *node.Options)) (*Env, error) {
	o := node.Options{DataDir: dir}
	if opt != nil {
		opt(&o)
	}
	cfg := node.NewConfig(o)
	vexec.Register(cfg)
	if ExtraRegister != nil {
		ExtraRegister(cfg)
	}
	n := node.NewWithConfig(cfg, o)
	e := &Env{N: n, Cfg: cfg}
	l := util.TestPrivkeyList
	e.Keys = []crypto.PrivKey{node.GenesisKey(), l[0], l[2], l[3]}
	if n.Chain.GetBlockHeight() == 0 {
		var txs []*types.Transaction
		for _, k := range e.Keys[1:] {
			txs = append(txs, util.CreateCoinsTx(cfg, node.GenesisKey(), AddrOf(k), 10000*types.DefaultCoinPrecision))
		}
		d, err := n.Build(n.LastBlock(), txs, 0x1f00ffff, 0)
		if err != nil {
			return nil, err
		}
		if err := n.Deliver(d.Block, true, "p"); err != nil {
			return nil, fmt.Errorf("funding block: %v", err)
		}
	}
	e.Tip = n.LastBlock()
	return e, nil
}

func (e *Env) Close() { e.N.Close() }

// ExecList sends the transaction list to the real executor on top of the tip state.
func (e *Env) ExecList(txs []*types.Transaction) (*types.Receipts, error) {
	return e.ExecListAt(txs, e.Tip.StateHash, e.Tip.Height+1, e.Tip.BlockTime+1)
}

func (e *Env) ExecListAt(txs []*types.Transaction, stateHash []byte, height, blockTime int64) (*types.Receipts, error) {
	list := &types.ExecTxList{
		StateHash:  stateHash,
		ParentHash: e.Tip.Hash(e.Cfg),
		Txs:        txs,
		BlockTime:  blockTime,
		Height:     height,
		Difficulty: uint64(e.Tip.Difficulty),
	}
	msg := e.N.Client.NewMessage("execs", types.EventExecTxList, list)
	if err := e.N.Client.Send(msg, true); err != nil {
		return nil, err
	}
	resp, err := e.N.Client.Wait(msg)
	if err != nil {
		return nil, err
	}
	switch v := resp.GetData().(type) {
	case *types.Receipts:
		return v, nil
	case error:
		return nil, v
	default:
		return nil, fmt.Errorf("unexpected reply %T", v)
	}
}
