package chainenv

import (
	"encoding/hex"
	"encoding/json"
	"fmt"
	"os"
	"path/filepath"
	"sort"
	"strings"
	"verifharness/vexec"

	"github.com/33cn/chain33/common/address"
	"github.com/33cn/chain33/common/crypto"
	"github.com/33cn/chain33/types"
	"github.com/33cn/chain33/util"
	"verifharness/lib"
	"verifharness/node"
)

// C14: local indexes are exactly undone when a block is removed.

func c14Opts(dir string) node.Options {
	return node.Options{DataDir: dir, Cfg: func(c *types.Config) {
		// the executor's mvcc plugin cannot run from genesis on this tree: version 0 is stored as an empty value, which the
		// local database reads as "not found", so StateDB.enableMVCC panics at height 1 ("must be synchronized from 0 height")
		c.Exec.EnableMVCC = os.Getenv("VERIF_C14_MVCC") != ""
		c.Exec.EnableStat = false
		c.Exec.EnableAddrFeeIndex = true
	}, ChainCfg: func(c *types.Chain33Config) { vexec.Register(c) }}
}

type txGen struct {
	cfg  *types.Chain33Config
	r    *lib.Rng
	keys []crypto.PrivKey // funded senders
	pool []string         // recurring receiver addresses
	seq  int
}

func (g *txGen) coins(from crypto.PrivKey, to string, amt int64) *types.Transaction {
	return util.CreateCoinsTx(g.cfg, from, to, amt)
}

func (g *txGen) toExec(from crypto.PrivKey, execName string, amt int64, withdraw bool) *types.Transaction {
	exec := types.LoadExecutorType(g.cfg.GetCoinExec())
	tx, err := exec.AssertCreate(&types.CreateTx{To: address.ExecAddress(execName), Amount: amt, ExecName: execName, IsWithdraw: withdraw})
	if err != nil {
		panic(err)
	}
	tx.To = address.ExecAddress(execName)
	tx, err = types.FormatTx(g.cfg, g.cfg.GetCoinExec(), tx)
	if err != nil {
		panic(err)
	}
	tx.Sign(types.SECP256K1, from)
	return tx
}

func (g *txGen) group(n int) []*types.Transaction {
	var txs []*types.Transaction
	from := lib.Pick(g.r, g.keys)
	for i := 0; i < n; i++ {
		txs = append(txs, util.CreateCoinsTx(g.cfg, nil, lib.Pick(g.r, g.pool), int64(g.r.Range(1, 30))*1e5))
	}
	grp, err := types.CreateTxGroup(txs, g.cfg.GetMinTxFeeRate())
	if err != nil {
		panic(err)
	}
	for i := range grp.Txs {
		if err := grp.SignN(i, types.SECP256K1, from); err != nil {
			panic(err)
		}
	}
	return grp.GetTxs()
}

// block returns a generated transaction list and the set of kinds used.
func (g *txGen) block() (txs []*types.Transaction, kinds []string) {
	r := g.r
	n := r.Range(1, 7)
	use := map[string]bool{}
	for i := 0; i < n; i++ {
		from := lib.Pick(r, g.keys)
		fromAddr := address.PubKeyToAddr(address.DefaultID, from.PubKey().Bytes())
		k := r.Intn(100)
		if f := os.Getenv("VERIF_C14_KIND"); f != "" {
			fmt.Sscanf(f, "%d", &k)
		}
		switch {
		case k < 25:
			txs = append(txs, g.coins(from, lib.Pick(r, g.pool), int64(r.Range(1, 50))*1e5))
			use["transfer-to-recurring-address"] = true
		case k < 35:
			txs = append(txs, g.coins(from, freshTo(), int64(r.Range(1, 50))*1e5))
			use["transfer-to-fresh-address"] = true
		case k < 47:
			txs = append(txs, g.coins(from, fromAddr, int64(r.Range(1, 50))*1e5))
			use["self-transfer"] = true
		case k < 57:
			txs = append(txs, g.coins(from, lib.Pick(r, g.pool), 1e17)) // more than any balance: fails with ExecPack, fee only
			use["failing-transfer"] = true
		case k < 67:
			to := lib.Pick(r, g.pool)
			txs = append(txs, g.coins(from, to, 3e5), g.coins(from, to, 4e5))
			use["two-transfers-same-receiver"] = true
		case k < 77:
			txs = append(txs, g.toExec(from, "none", int64(r.Range(1, 9))*1e6, false))
			use["transfer-to-exec"] = true
		case k < 84:
			txs = append(txs, g.toExec(from, "none", int64(r.Range(1, 3))*1e5, true))
			use["withdraw"] = true
		case k < 89:
			txs = append(txs, util.CreateNoneTx(g.cfg, from))
			use["none-tx"] = true
		case k < 94:
			// two or three transactions of the synthetic executor overwriting the SAME local row, each remembering the value
			// it replaced: exact undo needs the per-transaction removal to run in reverse order
			row := vexec.LocalKey("vexec", fmt.Sprintf("row%d", r.Intn(3)))
			for j := 0; j < r.Range(2, 3); j++ {
				g.seq++
				p := &vexec.Program{Nonce: int64(r.U64() >> 2), Local: []vexec.Op{{Op: "lchain", K: row, V: fmt.Sprintf("c%d", g.seq)}}}
				txs = append(txs, vexec.NewTx(g.cfg, "vexec", p, from, 0))
			}
			use["chained-local-rows"] = true
		default:
			txs = append(txs, g.group(r.Range(2, 4))...)
			use["group"] = true
		}
	}
	for k := range use {
		kinds = append(kinds, k)
	}
	sort.Strings(kinds)
	return
}

func dumpDB(n *node.Node) map[string]string {
	m := map[string]string{}
	it := n.Chain.GetDB().Iterator(nil, types.EmptyValue, false)
	for it.Rewind(); it.Valid(); it.Next() {
		m[string(it.Key())] = string(it.Value())
	}
	it.Close()
	return m
}

type idxDiff struct {
	Kind  string `json:"kind"` // added | removed | changed
	Class string `json:"class"`
	Key   string `json:"key"`
	Was   string `json:"was,omitempty"`
	Now   string `json:"now,omitempty"`
}

func showVal(v string) string {
	if len(v) > 24 {
		return hex.EncodeToString([]byte(v[:24])) + "…"
	}
	return hex.EncodeToString([]byte(v))
}

func diffDumps(a, b map[string]string, skip func(k string) bool) (d []idxDiff) {
	for _, k := range SortedKeys(b) {
		if skip != nil && skip(k) {
			continue
		}
		if v, ok := a[k]; !ok {
			d = append(d, idxDiff{Kind: "added", Class: KeyClass([]byte(k)), Key: printable([]byte(k)), Now: showVal(b[k])})
		} else if v != b[k] {
			d = append(d, idxDiff{Kind: "changed", Class: KeyClass([]byte(k)), Key: printable([]byte(k)), Was: showVal(v), Now: showVal(b[k])})
		}
	}
	for _, k := range SortedKeys(a) {
		if skip != nil && skip(k) {
			continue
		}
		if _, ok := b[k]; !ok {
			d = append(d, idxDiff{Kind: "removed", Class: KeyClass([]byte(k)), Key: printable([]byte(k)), Was: showVal(a[k])})
		}
	}
	return
}

type querySnap map[string]string

// queries reads the chain-level local query surface for the given transactions and addresses.
func queries(n *node.Node, txs [][]byte, addrs []string) querySnap {
	q := querySnap{}
	for _, h := range txs {
		d, err := n.Chain.ProcQueryTxMsg(h)
		if err != nil || d == nil {
			q["tx:"+hex.EncodeToString(h[:6])] = "absent"
		} else {
			q["tx:"+hex.EncodeToString(h[:6])] = sha(types.Encode(d))
		}
	}
	for _, a := range addrs {
		ov, err := n.Chain.ProcGetAddrOverview(&types.ReqAddr{Addr: a})
		if err != nil {
			q["overview:"+a] = "err:" + err.Error()
		} else {
			q["overview:"+a] = fmt.Sprintf("recv=%d count=%d", ov.Reciver, ov.TxCount)
		}
		for _, dir := range []int32{0, 1} {
			for _, flag := range []int32{0, 1, 2} {
				l, err := n.Chain.ProcGetTransactionByAddr(&types.ReqAddr{Addr: a, Flag: flag, Count: 50, Direction: dir, Height: -1})
				key := fmt.Sprintf("addrtx:%s/f%d/d%d", a, flag, dir)
				if err != nil {
					q[key] = "err:" + err.Error()
				} else {
					q[key] = sha(types.Encode(l)) + fmt.Sprintf("/%d", len(l.TxInfos))
				}
			}
		}
	}
	return q
}

type c14Case struct {
	Index   int       `json:"index"`
	Kinds   []string  `json:"kinds"`
	NTx     int       `json:"ntx"`
	Changed int       `json:"records_changed_by_add"` // measured: how many raw records the add touched
	Diffs   []idxDiff `json:"diffs,omitempty"`        // raw differences after add+del
	QDiffs  []string  `json:"query_diffs,omitempty"`  // query-level differences after add+del
	Err     string    `json:"err,omitempty"`
}

func runC14(seed uint64, nBlocks int, dir string) ([]c14Case, error) {
	r := lib.NewRng(seed)
	n := node.New(c14Opts(dir))
	defer n.Close()
	cfg := n.Cfg
	keys := Keys()
	g := &txGen{cfg: cfg, r: r, keys: []crypto.PrivKey{node.GenesisKey(), keys[0], keys[2]}}
	for i := 0; i < 5; i++ {
		g.pool = append(g.pool, freshTo())
	}
	g.pool = append(g.pool, addrOf(keys[0]), addrOf(keys[2]), node.GenesisAddr(), addrOf(keys[3]))
	// prior chain
	parent := n.LastBlock()
	first := []*types.Transaction{g.coins(node.GenesisKey(), addrOf(keys[0]), 1000*types.DefaultCoinPrecision), g.coins(node.GenesisKey(), addrOf(keys[2]), 1000*types.DefaultCoinPrecision),
		g.toExec(node.GenesisKey(), "none", 50*types.DefaultCoinPrecision, false)}
	prior := r.Range(3, 9)
	for i := 0; i < prior; i++ {
		var txs []*types.Transaction
		if i == 0 {
			txs = first
		} else if i == 1 {
			txs = []*types.Transaction{g.toExec(keys[0], "none", 20*types.DefaultCoinPrecision, false), g.toExec(keys[2], "none", 20*types.DefaultCoinPrecision, false)}
		} else {
			txs, _ = g.block()
		}
		d, err := n.Build(parent, txs, diffChoices[0], 0)
		if err != nil {
			return nil, err
		}
		if err := n.Deliver(d.Block, true, "p"); err != nil {
			return nil, fmt.Errorf("prior block %d: %v", i, err)
		}
		parent = n.LastBlock()
	}
	bs := n.Chain.GetStore()
	var out []c14Case
	for i := 0; i < nBlocks; i++ {
		txs, kinds := g.block()
		cs := c14Case{Index: i, Kinds: kinds}
		d, err := n.Build(parent, txs, diffChoices[0], 0)
		if err != nil {
			cs.Err = "build: " + err.Error()
			out = append(out, cs)
			continue
		}
		cs.NTx = len(d.Block.Txs)
		var hashes [][]byte
		for _, tx := range d.Block.Txs {
			hashes = append(hashes, tx.Hash())
		}
		addrs := Addrs([]*types.Block{d.Block})
		s0 := dumpDB(n)
		q0 := queries(n, hashes, addrs)
		b1 := bs.NewBatch(true)
		if err := bs.AddTxs(b1, d); err != nil {
			cs.Err = "AddTxs: " + err.Error()
			out = append(out, cs)
			continue
		}
		if err := b1.Write(); err != nil {
			return nil, err
		}
		s1 := dumpDB(n)
		cs.Changed = len(diffDumps(s0, s1, nil))
		b2 := bs.NewBatch(true)
		if err := bs.DelTxs(b2, d); err != nil {
			cs.Err = "DelTxs: " + err.Error()
			out = append(out, cs)
			continue
		}
		if err := b2.Write(); err != nil {
			return nil, err
		}
		s2 := dumpDB(n)
		q2 := queries(n, hashes, addrs)
		cs.Diffs = diffDumps(s0, s2, nil)
		for _, k := range SortedKeys(q0) {
			if q0[k] != q2[k] {
				cs.QDiffs = append(cs.QDiffs, fmt.Sprintf("%s: %s -> %s", k, q0[k], q2[k]))
			}
		}
		out = append(out, cs)
		if len(cs.Diffs) > 0 && os.Getenv("VERIF_DEBUG") != "" {
			for j, tx := range d.Block.Txs {
				fmt.Fprintf(dbgOut(), "DBG case %d tx %d from=%s to=%s ty=%d group=%d\n", i, j, tx.From(), tx.GetRealToAddr(), d.Receipts[j].Ty, tx.GroupCount)
			}
			for _, df := range cs.Diffs {
				fmt.Fprintf(dbgOut(), "DBG   diff %+v\n", df)
			}
			for _, ev := range []int64{types.EventAddBlock, types.EventDelBlock} {
				msg := n.Client.NewMessage("execs", ev, d)
				n.Client.Send(msg, true)
				resp, _ := n.Client.Wait(msg)
				if set, ok := resp.GetData().(*types.LocalDBSet); ok {
					for _, kv := range set.KV {
						if strings.HasPrefix(string(kv.Key), "LODB") {
							fmt.Fprintf(dbgOut(), "DBG   ev%d %q = %x\n", ev, kv.Key, kv.Value)
						}
					}
				}
			}
		}
		if len(cs.Diffs) > 0 {
			// restore exactly, so that later cases start from a clean state: write back s0
			fix := bs.NewBatch(true)
			for k := range s2 {
				if _, ok := s0[k]; !ok {
					fix.Delete([]byte(k))
				}
			}
			for k, v := range s0 {
				if s2[k] != v {
					fix.Set([]byte(k), []byte(v))
				}
			}
			fix.Write()
		}
		// every third case: really connect the block so that the chain (and the indexes) grow
		if i%3 == 2 {
			if err := n.Deliver(d.Block, true, "p"); err == nil {
				parent = n.LastBlock()
			}
		}
	}
	return out, nil
}

// ---- real reorganisation variant: node fed trunk+B then heavier Y, compared with a node fed trunk+Y only.

type c14ReorgRes struct {
	Diffs   []idxDiff `json:"diffs,omitempty"`
	Removed int       `json:"blocks_removed"`
	Kinds   []string  `json:"kinds"`
	Err     string    `json:"err,omitempty"`
}

func runC14Reorg(seed uint64, dir string) (*c14ReorgRes, error) {
	r := lib.NewRng(seed)
	res := &c14ReorgRes{}
	bn := node.New(c14Opts(filepath.Join(dir, "b")))
	cfg := bn.Cfg
	keys := Keys()
	g := &txGen{cfg: cfg, r: r, keys: []crypto.PrivKey{node.GenesisKey(), keys[0], keys[2]}}
	for i := 0; i < 4; i++ {
		g.pool = append(g.pool, freshTo())
	}
	g.pool = append(g.pool, addrOf(keys[0]), addrOf(keys[2]), node.GenesisAddr())
	parent := bn.Block(0).Block
	var trunk, bb, yy []*types.Block
	for i := 0; i < 12; i++ {
		var txs []*types.Transaction
		switch i {
		case 0:
			txs = []*types.Transaction{g.coins(node.GenesisKey(), addrOf(keys[0]), 1000*types.DefaultCoinPrecision), g.coins(node.GenesisKey(), addrOf(keys[2]), 1000*types.DefaultCoinPrecision), g.toExec(node.GenesisKey(), "none", 50*types.DefaultCoinPrecision, false)}
		case 1:
			txs = []*types.Transaction{g.toExec(keys[0], "none", 20*types.DefaultCoinPrecision, false), g.toExec(keys[2], "none", 20*types.DefaultCoinPrecision, false)}
		default:
			txs, _ = g.block()
		}
		d, err := bn.Build(parent, txs, diffChoices[0], 0)
		if err != nil {
			return nil, err
		}
		trunk = append(trunk, d.Block)
		parent = d.Block
	}
	use := map[string]bool{}
	p := parent
	for i := 0; i < r.Range(1, 3); i++ {
		txs, kinds := g.block()
		for _, k := range kinds {
			use[k] = true
		}
		d, err := bn.Build(p, txs, diffChoices[0], 0)
		if err != nil {
			return nil, err
		}
		bb = append(bb, d.Block)
		p = d.Block
	}
	p = parent
	for i := 0; i < len(bb)+1; i++ {
		txs, _ := g.block()
		diff := diffChoices[0]
		if i == len(bb) {
			diff = 0x1e00ffff
		}
		d, err := bn.Build(p, txs, diff, 0)
		if err != nil {
			return nil, err
		}
		yy = append(yy, d.Block)
		p = d.Block
	}
	bn.Close()
	for k := range use {
		res.Kinds = append(res.Kinds, k)
	}
	sort.Strings(res.Kinds)
	side := map[string]bool{}
	for _, b := range bb {
		side[string(b.Hash(cfg))] = true
	}
	feed := func(sub string, lists ...[]*types.Block) (map[string]string, int64, error) {
		n := node.New(c14Opts(filepath.Join(dir, sub)))
		defer n.Close()
		for _, l := range lists {
			for _, b := range l {
				if err := n.Deliver(b, true, "p"); err != nil {
					return nil, 0, fmt.Errorf("%s: deliver h=%d: %v", sub, b.Height, err)
				}
			}
		}
		if string(n.LastBlock().Hash(cfg)) != string(yy[len(yy)-1].Hash(cfg)) {
			return nil, 0, fmt.Errorf("%s: tip is not the heavier branch", sub)
		}
		seq, _ := n.Chain.GetStore().LoadBlockLastSequence()
		return dumpDB(n), seq, nil
	}
	d1, seq1, err := feed("n1", trunk, bb, yy)
	if err != nil {
		return nil, err
	}
	d2, seq2, err := feed("n2", trunk, yy)
	if err != nil {
		return nil, err
	}
	res.Removed = int(seq1-seq2) / 2
	skip := func(k string) bool {
		cls := KeyClass([]byte(k))
		if seqClass(cls) {
			return true
		}
		for h := range side {
			if strings.Contains(k, h) {
				return true
			}
		}
		return false
	}
	res.Diffs = diffDumps(d2, d1, skip)
	return res, nil
}

func RegisterC14Children() {
	lib.RegisterChild("c14", func(in []byte) (any, error) {
		var q struct {
			Seed uint64 `json:"seed"`
			N    int    `json:"n"`
		}
		json.Unmarshal(in, &q)
		dir := filepath.Join(tmpDir(), "n")
		defer os.RemoveAll(dir)
		return runC14(q.Seed, q.N, dir)
	})
	lib.RegisterChild("c14reorg", func(in []byte) (any, error) {
		var seed uint64
		json.Unmarshal(in, &seed)
		dir := filepath.Join(tmpDir(), "r")
		defer os.RemoveAll(dir)
		return runC14Reorg(seed, dir)
	})
}

func dbgOut() *os.File {
	f, err := os.OpenFile("/var/tmp/dbg/c14dbg.log", os.O_CREATE|os.O_APPEND|os.O_WRONLY, 0o644)
	if err != nil {
		return os.Stderr
	}
	return f
}
