package chainenv

import (
	"bytes"
	"encoding/hex"
	"encoding/json"
	"fmt"
	"os"
	"path/filepath"
	"strings"

	"github.com/33cn/chain33/common/merkle"
	"github.com/33cn/chain33/types"
	"github.com/33cn/chain33/util"
	"verifharness/lib"
	"verifharness/node"
)

// C27: invalid blocks are rejected without side effects or poisoning.

// Mutation kinds. All are invalid by construction under the statement's validity checks.
var MutKinds = []string{
	"hdr-statehash", "hdr-txhash", "hdr-height", "hdr-parent-unknown",
	"body-drop", "body-add", "body-reorder", "body-dup-append", "body-dup-tail-keeps-root",
	"body-alter-field", "body-alter-txsig", "body-swap-other-block", "body-onchain-dup-rehash", "blocksig-garbage",
}

type InvCase struct {
	Kind      string `json:"kind"`
	Pos       string `json:"pos"` // "tip" (extends the best chain) | "reorg" (heavier side block that would trigger a reorganisation)
	Broadcast bool   `json:"broadcast"`
	Download  bool   `json:"download,omitempty"` // deliver the mutant the way the fast-download path does (pid "download", not broadcast)
	Seed      uint64 `json:"seed"`
	Index     int    `json:"index"`
}

type InvReq struct {
	Tree  *Tree     `json:"tree"`
	Cases []InvCase `json:"cases"`
}

type InvRes struct {
	Case        InvCase  `json:"case"`
	SameHash    bool     `json:"same_hash"` // mutant keeps the genuine block's hash
	DeliverErr  string   `json:"deliver_err"`
	SideEffects []string `json:"side_effects,omitempty"` // clause (i)
	Poison      []string `json:"poison,omitempty"`       // clause (ii)
	Skipped     string   `json:"skipped,omitempty"`
	MutantHash  string   `json:"mutant_hash"`
	GenuineErr  string   `json:"genuine_err,omitempty"`
	TipAfter    string   `json:"tip_after"`              // after the mutant: unchanged | forkpoint | mutant | other
	SeqProblems []string `json:"seq_problems,omitempty"` // C26: the sequence log after the whole case (rejected mutant, genuine block, child)
	SeqDeletes  int      `json:"seq_deletes"`
	Grown       int      `json:"grown,omitempty"` // blocks connected after the genuine block\'s child
}

// InvTreeSpec: trunk of 14 (heights 1..14), heavy side branch A13,A14 forking at height 12.
func InvTreeSpec(r *lib.Rng) TreeSpec {
	t := TreeSpec{Trunk: 14}
	for i := 0; i < 14; i++ {
		t.Blocks = append(t.Blocks, BlockSpec{Parent: i - 1, Diff: diffChoices[0], NTx: r.Range(2, 4), Height: int64(i + 1)})
	}
	t.Blocks = append(t.Blocks, BlockSpec{Parent: 11, Diff: 0x1e00ffff, NTx: r.Range(2, 4), Height: 13})
	t.Blocks = append(t.Blocks, BlockSpec{Parent: 14, Diff: 0x1e00ffff, NTx: r.Range(2, 3), Height: 14})
	return t
}

// Mutate applies kind to a clone of the genuine block. ok=false when the kind does not apply.
func Mutate(cfg *types.Chain33Config, t *Tree, target int, kind string, r *lib.Rng) (*types.Block, bool) {
	b := types.Clone(t.Block(target)).(*types.Block)
	n := len(b.Txs)
	switch kind {
	case "hdr-statehash":
		b.StateHash = r.Bytes(32)
	case "hdr-txhash":
		b.TxHash = r.Bytes(32)
	case "hdr-height":
		if r.Bool() {
			b.Height++
		} else {
			b.Height--
		}
	case "hdr-parent-unknown":
		b.ParentHash = r.Bytes(32)
	case "body-drop":
		if n < 2 {
			return nil, false
		}
		i := r.Intn(n)
		b.Txs = append(b.Txs[:i:i], b.Txs[i+1:]...)
	case "body-add":
		to, _ := util.Genaddress()
		b.Txs = append(b.Txs, util.CreateCoinsTx(cfg, node.GenesisKey(), to, 3e6))
	case "body-reorder":
		if n < 2 {
			return nil, false
		}
		i := r.Intn(n - 1)
		b.Txs[i], b.Txs[i+1] = b.Txs[i+1], b.Txs[i]
	case "body-dup-append":
		b.Txs = append(b.Txs, types.Clone(b.Txs[r.Intn(n)]).(*types.Transaction))
	case "body-dup-tail-keeps-root":
		// merkle duplicates the last leaf of an odd level: [a,b,c] and [a,b,c,c] share a root
		if n%2 == 0 {
			return nil, false
		}
		b.Txs = append(b.Txs, types.Clone(b.Txs[n-1]).(*types.Transaction))
		if !bytes.Equal(merkle.CalcMerkleRoot(cfg, b.Height, b.Txs), b.TxHash) {
			return nil, false
		}
	case "body-alter-field":
		tx := types.Clone(b.Txs[r.Intn(n)]).(*types.Transaction)
		switch r.Intn(3) {
		case 0:
			tx.Fee++
		case 1:
			tx.Nonce++
		default:
			if len(tx.Payload) > 0 {
				tx.Payload[len(tx.Payload)-1] ^= 1
			}
		}
		b.Txs[r.Intn(n)] = tx
		// make sure something changed in place
		same := true
		for i, x := range t.Block(target).Txs {
			if !bytes.Equal(x.Hash(), b.Txs[i].Hash()) {
				same = false
			}
		}
		if same {
			return nil, false
		}
	case "body-alter-txsig":
		i := r.Intn(n)
		tx := types.Clone(b.Txs[i]).(*types.Transaction)
		tx.Signature.Signature[r.Intn(len(tx.Signature.Signature))] ^= byte(1 << uint(r.Intn(8)))
		b.Txs[i] = tx
	case "body-swap-other-block":
		o := (target + 1 + r.Intn(len(t.Blocks)-1)) % len(t.Blocks)
		b.Txs = t.Block(o).Txs
	case "body-onchain-dup-rehash":
		// append a transaction that is already on the chain (from an ancestor) and recompute the tx root
		anc := t.Spec.Path(target)
		if len(anc) < 2 {
			return nil, false
		}
		a := t.Block(anc[r.Intn(len(anc)-1)])
		b.Txs = append(b.Txs, a.Txs[r.Intn(len(a.Txs))])
		b.TxHash = merkle.CalcMerkleRoot(cfg, b.Height, b.Txs)
	case "blocksig-garbage":
		b.Signature = &types.Signature{Ty: types.SECP256K1, Pubkey: node.GenesisKey().PubKey().Bytes(), Signature: r.Bytes(70)}
	default:
		return nil, false
	}
	return b, true
}

func snapDiff(a, b *Snap, ignoreHash []byte) (diffs []string) {
	add := func(f string, x ...any) { diffs = append(diffs, fmt.Sprintf(f, x...)) }
	if a.Height != b.Height || a.TipHash != b.TipHash {
		add("best chain tip changed: h=%d %s -> h=%d %s", a.Height, short(a.TipHash), b.Height, short(b.TipHash))
	}
	if a.StateHash != b.StateHash || a.LastHeader != b.LastHeader {
		add("last header/state root changed")
	}
	if fmt.Sprint(a.HashByHeight) != fmt.Sprint(b.HashByHeight) {
		add("height index changed")
	}
	if fmt.Sprint(a.Blocks) != fmt.Sprint(b.Blocks) {
		add("stored blocks changed")
	}
	if fmt.Sprint(a.TD) != fmt.Sprint(b.TD) {
		add("total difficulties changed")
	}
	for _, k := range SortedKeys(a.Tx) {
		if a.Tx[k] != b.Tx[k] {
			add("tx lookup %s changed: %s -> %s", short(k), a.Tx[k], b.Tx[k])
		}
	}
	for _, k := range SortedKeys(a.State) {
		if a.State[k] != b.State[k] {
			add("state read %s changed", k)
		}
	}
	if a.LastSeq != b.LastSeq {
		add("sequence log grew: %d -> %d", a.LastSeq, b.LastSeq)
	}
	for _, e := range b.Errors {
		add("query surface inconsistent after delivery: %s", e)
	}
	for _, k := range SortedKeys(b.DB) {
		kb, _ := hex.DecodeString(k)
		if len(ignoreHash) > 0 && bytes.Contains(kb, ignoreHash) {
			continue // pre-stored by-hash side data of the delivered block itself
		}
		if v, ok := a.DB[k]; !ok {
			add("db record added: %q", printable(kb))
		} else if v != b.DB[k] {
			add("db record changed: %q", printable(kb))
		}
	}
	for _, k := range SortedKeys(a.DB) {
		if _, ok := b.DB[k]; !ok {
			kb, _ := hex.DecodeString(k)
			add("db record removed: %q", printable(kb))
		}
	}
	if len(diffs) > 10 {
		diffs = append(diffs[:10], fmt.Sprintf("… %d more", len(diffs)-10))
	}
	return
}

func txHashes(b *types.Block) string {
	s := ""
	for _, tx := range b.Txs {
		s += hex.EncodeToString(tx.Hash()[:4]) + ","
	}
	return s
}

// RunInvalid executes one case on a fresh node.
func RunInvalid(dir string, t *Tree, cs InvCase) InvRes {
	res := InvRes{Case: cs}
	os.RemoveAll(dir)
	// every second case, and every download-path case, runs with a recent-block cache of 2 entries, so that blocks leave it within the case
	n := node.New(node.Options{DataDir: dir, Cfg: func(c *types.Config) {
		if cs.Index%2 == 1 || cs.Download {
			c.BlockChain.DefCacheSize = 2
		}
	}})
	defer func() {
		n.Close()
		os.RemoveAll(dir)
	}()
	r := lib.NewRng(cs.Seed)
	var pre []int
	var target, child int
	if cs.Pos == "tip" {
		k := 8 + r.Intn(5) // target trunk index 8..12 (height 9..13)
		if cs.Download && k > 10 {
			k -= 3 // leave room for the chain to grow past the recent-block cache after the genuine block
		}
		for i := 0; i < k; i++ {
			pre = append(pre, i)
		}
		target, child = k, k+1
	} else {
		for i := 0; i < 14; i++ {
			pre = append(pre, i)
		}
		target, child = 14, 15
	}
	mut, ok := Mutate(n.Cfg, t, target, cs.Kind, r)
	if !ok {
		res.Skipped = "mutation not applicable to this block"
		return res
	}
	genuine := t.Block(target)
	gh := genuine.Hash(n.Cfg)
	mh := mut.Hash(n.Cfg)
	res.SameHash = bytes.Equal(gh, mh)
	res.MutantHash = hex.EncodeToString(mh)
	for _, i := range pre {
		if err := n.Deliver(t.Block(i), true, "peerA"); err != nil {
			res.Skipped = "setup delivery failed: " + err.Error()
			return res
		}
	}
	txs, blocks := t.AllTx()
	for _, tx := range mut.Txs {
		txs = append(txs, tx.Hash())
	}
	addrs := Addrs(append(blocks, mut))
	s0 := TakeSnap(n, txs, addrs, true)
	pid := "peerEvil"
	bc := cs.Broadcast
	if cs.Download {
		pid, bc = "download", false
	}
	err := n.Deliver(mut, bc, pid)
	if err != nil {
		res.DeliverErr = err.Error()
	}
	s1 := TakeSnap(n, txs, addrs, true)
	res.SideEffects = snapDiff(s0, s1, mh)
	switch {
	case s1.TipHash == s0.TipHash:
		res.TipAfter = "unchanged"
	case s1.TipHash == res.MutantHash:
		res.TipAfter = "mutant"
	case cs.Pos == "reorg" && s1.TipHash == t.Hashes[11]:
		res.TipAfter = "forkpoint"
	default:
		res.TipAfter = "other"
	}
	// the rejected body must not be reachable through the query surface under that hash
	if bd, err := n.Chain.ProcGetBlockByHashMsg(mh); err == nil && bd != nil && res.SameHash {
		if txHashes(bd.Block) != txHashes(genuine) {
			res.Poison = append(res.Poison, fmt.Sprintf("after rejection, block-by-hash %s serves the rejected body (txs %s, genuine %s)", short(res.MutantHash), txHashes(bd.Block), txHashes(genuine)))
		}
	}
	// (ii) the genuine block arrives later (from another peer)
	gerr := n.Deliver(genuine, !cs.Broadcast, "peerB")
	if gerr != nil {
		res.GenuineErr = gerr.Error()
	}
	hdr, _ := n.Chain.ProcGetLastHeaderMsg()
	if hdr == nil || !bytes.Equal(hdr.Hash, gh) {
		got := "?"
		if hdr != nil {
			got = fmt.Sprintf("h=%d %x", hdr.Height, hdr.Hash[:5])
		}
		res.Poison = append(res.Poison, fmt.Sprintf("genuine block (h=%d %x) not accepted as best tip after the mutant was seen: deliver err=%q, tip is %s", genuine.Height, gh[:5], res.GenuineErr, got))
	}
	if bd, err := n.Chain.ProcGetBlockByHashMsg(gh); err != nil || bd == nil {
		res.Poison = append(res.Poison, fmt.Sprintf("genuine block not served by hash: %v", err))
	} else if txHashes(bd.Block) != txHashes(genuine) {
		res.Poison = append(res.Poison, fmt.Sprintf("block-by-hash %x serves a body that is not the genuine one (txs %s, genuine %s)", gh[:5], txHashes(bd.Block), txHashes(genuine)))
	}
	if bd, err := n.Chain.GetStore().LoadBlockByHash(gh); err == nil && bd != nil && txHashes(bd.Block) != txHashes(genuine) {
		res.Poison = append(res.Poison, fmt.Sprintf("persisted body under hash %x is not the genuine one (txs %s, genuine %s)", gh[:5], txHashes(bd.Block), txHashes(genuine)))
	}
	// then its child
	cb := t.Block(child)
	cerr := n.Deliver(cb, cs.Broadcast, "peerB")
	hdr, _ = n.Chain.ProcGetLastHeaderMsg()
	if hdr == nil || !bytes.Equal(hdr.Hash, cb.Hash(n.Cfg)) {
		res.Poison = append(res.Poison, fmt.Sprintf("child of the genuine block not accepted as best tip: err=%v", cerr))
	}
	// the chain grows further (the genuine block leaves the recent-block cache when that is small): the body served and
	// persisted under the hash must still be the genuine one
	if cs.Pos == "tip" && cerr == nil {
		grown := 0
		for i := child + 1; i < 14; i++ {
			if n.Deliver(t.Block(i), true, "peerB") == nil {
				grown++
			}
		}
		res.Grown = grown
		if bd, err := n.Chain.LoadBlockByHash(gh); err != nil || bd == nil {
			res.Poison = append(res.Poison, fmt.Sprintf("after the chain grew by %d blocks the genuine block is not loadable by hash: %v", grown, err))
		} else if txHashes(bd.Block) != txHashes(genuine) {
			res.Poison = append(res.Poison, fmt.Sprintf("after the chain grew by %d blocks LoadBlockByHash %x serves a body that is not the genuine one (txs %s, genuine %s)", grown, gh[:5], txHashes(bd.Block), txHashes(genuine)))
		}
		if bd, err := n.Chain.GetBlock(genuine.Height); err != nil || bd == nil {
			res.Poison = append(res.Poison, fmt.Sprintf("after the chain grew by %d blocks height %d is not readable: %v", grown, genuine.Height, err))
		} else if txHashes(bd.Block) != txHashes(genuine) {
			res.Poison = append(res.Poison, fmt.Sprintf("after the chain grew by %d blocks GetBlock(%d) serves a body that is not the genuine one (txs %s, genuine %s)", grown, genuine.Height, txHashes(bd.Block), txHashes(genuine)))
		}
	}
	// C26 oracle on the final state: the sequence log replays to the best chain although a block was rejected on the way
	sf := TakeSnap(n, nil, nil, false)
	res.SeqProblems, _ = seqFinal(sf)
	for _, q := range sf.Seqs {
		if strings.HasPrefix(q, "2:") {
			res.SeqDeletes++
		}
	}
	return res
}

func RegisterInvalidChildren() {
	lib.RegisterChild("invtree", func(in []byte) (any, error) {
		var seed uint64
		json.Unmarshal(in, &seed)
		r := lib.NewRng(seed)
		n := node.New(node.Options{DataDir: filepath.Join(tmpDir(), "builder")})
		defer n.Close()
		return Build(n, InvTreeSpec(r), r)
	})
	lib.RegisterChild("invalid", func(in []byte) (any, error) {
		var q InvReq
		if err := json.Unmarshal(in, &q); err != nil {
			return nil, err
		}
		var out []InvRes
		for k, cs := range q.Cases {
			// log the case before running it (a crash leaves the witness)
			b, _ := json.Marshal(cs)
			os.WriteFile(filepath.Join(tmpDir(), "current-case.json"), b, 0o644)
			out = append(out, RunInvalid(filepath.Join(tmpDir(), fmt.Sprintf("n%d", k)), q.Tree, cs))
		}
		return out, nil
	})
}
