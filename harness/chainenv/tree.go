// Package chainenv: generated block trees (built without mining on a builder node), delivery-order
// runs on fresh nodes, database dumps and comparisons. Shared by C25..C29, C32.
package chainenv

import (
	"encoding/hex"
	"fmt"
	"math/big"
	"sort"

	"github.com/33cn/chain33/common/address"
	"github.com/33cn/chain33/common/crypto"
	"github.com/33cn/chain33/common/difficulty"
	"github.com/33cn/chain33/types"
	"github.com/33cn/chain33/util"
	"verifharness/lib"
	"verifharness/node"
)

// BlockSpec describes one block of a generated tree (index = position in Tree.Specs; parent -1 = genesis).
type BlockSpec struct {
	Parent  int    `json:"parent"`
	Diff    uint32 `json:"diff"`
	NTx     int    `json:"ntx"`
	Big     int      `json:"big,omitempty"` // additional none-executor transactions with an 80 KB payload each (block data above 1 MiB)
	Shared  []int  `json:"shared,omitempty"` // ids of shared transactions also used on other branches
	Height  int64  `json:"height"`
	Comment string `json:"c,omitempty"`
}

type TreeSpec struct {
	Trunk  int         `json:"trunk"` // blocks 0..Trunk-1 form the trunk (heights 1..Trunk)
	Blocks []BlockSpec `json:"blocks"`
}

// Tree is a built tree: encoded blocks plus bookkeeping.
type Tree struct {
	Spec    TreeSpec `json:"spec"`
	Blocks  []string `json:"blocks"`  // hex(types.Encode(block)), executed (state hash filled in)
	Hashes  []string `json:"hashes"`  // hex block hash
	TD      []string `json:"td"`      // decimal total difficulty incl. genesis
	Genesis string   `json:"genesis"` // hex encoded genesis block
}

var diffChoices = []uint32{0x1f00ffff, 0x1f00fff0, 0x1f00ff00, 0x1f00f000, 0x1f00c000, 0x1f008000, 0x1e00ffff}

// GenTree generates a tree: trunk of T blocks then nb branches forking near the tip (possibly from
// other branches), each 1..maxDepth long.
func GenTree(r *lib.Rng, trunkMin, trunkMax, nbMin, nbMax, maxDepth int) TreeSpec {
	t := TreeSpec{Trunk: r.Range(trunkMin, trunkMax)}
	for i := 0; i < t.Trunk; i++ {
		t.Blocks = append(t.Blocks, BlockSpec{Parent: i - 1, Diff: diffChoices[0], NTx: r.Range(1, 3), Height: int64(i + 1)})
	}
	nb := r.Range(nbMin, nbMax)
	shared := 0
	for b := 0; b < nb; b++ {
		// fork point: any block with height >= Trunk-3 (or genesis-side if trunk short)
		var cands []int
		for i, s := range t.Blocks {
			if s.Height >= int64(t.Trunk-3) {
				cands = append(cands, i)
			}
		}
		p := lib.Pick(r, cands)
		depth := r.Range(1, maxDepth)
		for d := 0; d < depth; d++ {
			s := BlockSpec{Parent: p, Diff: lib.Pick(r, diffChoices), NTx: r.Range(1, 3), Height: t.Blocks[p].Height + 1}
			if r.Chance(35) && shared < 6 {
				// shared transaction id: reuse an existing id (other branch) or open a new one
				if shared > 0 && r.Bool() {
					s.Shared = append(s.Shared, r.Intn(shared))
				} else {
					s.Shared = append(s.Shared, shared)
					shared++
				}
			}
			t.Blocks = append(t.Blocks, s)
			p = len(t.Blocks) - 1
		}
	}
	return t
}

// AddHeavyShort appends a branch that wins by weight while being shorter than the longest branch: it forks 2..4
// blocks below the trunk tip and carries 1..2 blocks of a difficulty that outweighs everything else in the tree.
func AddHeavyShort(t *TreeSpec, r *lib.Rng) {
	back := r.Range(2, 4)
	if back >= t.Trunk {
		return
	}
	p := t.Trunk - 1 - back
	depth := r.Range(1, back-1)
	for d := 0; d < depth; d++ {
		t.Blocks = append(t.Blocks, BlockSpec{Parent: p, Diff: 0x1d00ffff, NTx: r.Range(1, 3), Height: t.Blocks[p].Height + 1})
		p = len(t.Blocks) - 1
	}
}

// Ancestors returns the path genesis-exclusive .. i inclusive.
func (t *TreeSpec) Path(i int) []int {
	var p []int
	for ; i >= 0; i = t.Blocks[i].Parent {
		p = append(p, i)
	}
	for a, b := 0, len(p)-1; a < b; a, b = a+1, b-1 {
		p[a], p[b] = p[b], p[a]
	}
	return p
}

func (t *TreeSpec) Leaves() []int {
	hasChild := map[int]bool{}
	for _, s := range t.Blocks {
		hasChild[s.Parent] = true
	}
	var l []int
	for i := range t.Blocks {
		if !hasChild[i] {
			l = append(l, i)
		}
	}
	return l
}

// Keys used by generated transactions.
func Keys() []crypto.PrivKey { return util.TestPrivkeyList }

func addrOf(k crypto.PrivKey) string {
	return address.PubKeyToAddr(address.DefaultID, k.PubKey().Bytes())
}

// Build executes the tree on a builder node and returns the encoded blocks. A shared transaction
// is dropped from a block if an ancestor already carries it (it would be a duplicate there).
func Build(n *node.Node, spec TreeSpec, r *lib.Rng) (*Tree, error) {
	cfg := n.Cfg
	gen := n.Block(0).Block
	tr := &Tree{Spec: spec, Genesis: hex.EncodeToString(types.Encode(gen))}
	blocks := make([]*types.Block, len(spec.Blocks))
	tds := make([]*big.Int, len(spec.Blocks))
	gtd := difficulty.CalcWork(gen.Difficulty)
	sharedTx := map[int]*types.Transaction{}
	onPath := func(i int, id int) bool {
		for p := spec.Blocks[i].Parent; p >= 0; p = spec.Blocks[p].Parent {
			for _, s := range spec.Blocks[p].Shared {
				if s == id {
					return true
				}
			}
		}
		return false
	}
	keys := Keys()
	for i, s := range spec.Blocks {
		parent := gen
		ptd := gtd
		if s.Parent >= 0 {
			parent = blocks[s.Parent]
			ptd = tds[s.Parent]
		}
		var txs []*types.Transaction
		ntx := s.NTx
		if i == 0 && ntx < 2 {
			ntx = 2
		}
		for k := 0; k < ntx; k++ {
			var tx *types.Transaction
			if i == 0 && k == 0 {
				// fund the other keys in the first trunk block via a group-free sequence of transfers
				tx = util.CreateCoinsTx(cfg, node.GenesisKey(), addrOf(keys[0]), 1000*types.DefaultCoinPrecision)
			} else if i == 0 && k == 1 {
				tx = util.CreateCoinsTx(cfg, node.GenesisKey(), addrOf(keys[2]), 1000*types.DefaultCoinPrecision)
			} else {
				from := node.GenesisKey()
				if i > 0 && k > 0 && r.Chance(45) {
					from = lib.Pick(r, []crypto.PrivKey{keys[0], keys[2]})
				}
				to := addrOf(lib.Pick(r, keys))
				if r.Chance(40) {
					to, _ = util.Genaddress()
				}
				tx = util.CreateCoinsTx(cfg, from, to, int64(r.Range(1, 50))*1e6)
			}
			txs = append(txs, tx)
		}
		for k := 0; k < s.Big; k++ {
			p := make([]byte, 80000)
			for j := range p {
				p[j] = byte(r.U64())
			}
			tx := &types.Transaction{Execer: []byte("none"), Payload: p, Nonce: int64(r.U64() >> 2), To: address.ExecAddress("none"), ChainID: cfg.GetChainID()}
			tx.Fee, _ = tx.GetRealFee(cfg.GetMinTxFeeRate())
			tx.Fee += 2 * cfg.GetMinTxFeeRate()
			tx.Sign(types.SECP256K1, node.GenesisKey())
			txs = append(txs, tx)
		}
		for _, id := range s.Shared {
			if onPath(i, id) {
				continue
			}
			if sharedTx[id] == nil {
				to, _ := util.Genaddress()
				sharedTx[id] = util.CreateCoinsTx(cfg, node.GenesisKey(), to, int64(7+id)*1e6)
			}
			txs = append(txs, sharedTx[id])
		}
		d, err := n.Build(parent, txs, s.Diff, 0)
		if err != nil {
			return nil, err
		}
		if len(d.Block.Txs) == 0 {
			return nil, fmt.Errorf("block %d has no transactions after execution", i)
		}
		blocks[i] = d.Block
		tds[i] = new(big.Int).Add(ptd, difficulty.CalcWork(s.Diff))
		tr.Blocks = append(tr.Blocks, hex.EncodeToString(types.Encode(d.Block)))
		tr.Hashes = append(tr.Hashes, hex.EncodeToString(d.Block.Hash(cfg)))
		tr.TD = append(tr.TD, tds[i].String())
	}
	return tr, nil
}

// Decode returns block i.
func (t *Tree) Block(i int) *types.Block {
	b, _ := hex.DecodeString(t.Blocks[i])
	var blk types.Block
	if err := types.Decode(b, &blk); err != nil {
		panic(err)
	}
	return &blk
}

func (t *Tree) TDOf(i int) *big.Int {
	v, _ := new(big.Int).SetString(t.TD[i], 10)
	return v
}

// Winner returns the unique heaviest leaf, or -1 when the maximum is shared. ok12 reports whether
// its height is at least margin (12, with nothing finalised).
func (t *Tree) Winner() (leaf int, unique bool) {
	best := -1
	unique = true
	for i := range t.Spec.Blocks {
		if best < 0 {
			best = i
			continue
		}
		c := t.TDOf(i).Cmp(t.TDOf(best))
		if c > 0 {
			best, unique = i, true
		} else if c == 0 {
			unique = false
		}
	}
	return best, unique
}

// SortedKeys helper.
func SortedKeys[V any](m map[string]V) []string {
	ks := make([]string, 0, len(m))
	for k := range m {
		ks = append(ks, k)
	}
	sort.Strings(ks)
	return ks
}
