package chainenv

import (
	"bufio"
	"encoding/hex"
	"encoding/json"
	"fmt"
	"os"
	"path/filepath"
	"strings"

	"github.com/33cn/chain33/account"
	dbm "github.com/33cn/chain33/common/db"
	"github.com/33cn/chain33/types"
	"verifharness/lib"
	"verifharness/node"
)

// C29: crash-point enumeration.

// CrashTreeSpec: trunk heights 1..14; side branch from height 11: S12,S13 light, S14 heavy, S15 light.
func CrashTreeSpec(r *lib.Rng) TreeSpec {
	t := TreeSpec{Trunk: 14}
	for i := 0; i < 14; i++ {
		t.Blocks = append(t.Blocks, BlockSpec{Parent: i - 1, Diff: diffChoices[0], NTx: r.Range(1, 3), Height: int64(i + 1)})
	}
	t.Blocks = append(t.Blocks, BlockSpec{Parent: 10, Diff: diffChoices[0], NTx: r.Range(1, 3), Height: 12}) // 14 = S12
	t.Blocks = append(t.Blocks, BlockSpec{Parent: 14, Diff: diffChoices[0], NTx: r.Range(1, 3), Height: 13, Shared: []int{0}})
	t.Blocks = append(t.Blocks, BlockSpec{Parent: 15, Diff: 0x1e00ffff, NTx: r.Range(1, 3), Height: 14})
	t.Blocks = append(t.Blocks, BlockSpec{Parent: 16, Diff: diffChoices[0], NTx: r.Range(1, 2), Height: 15})
	// a shared transaction also on the trunk side (height 13) so that the tx index entry moves between branches
	t.Blocks[12].Shared = []int{0}
	// one block of the armed part of every script carries more than 1 MiB of transaction data (a block whose index
	// entries do not fit a size-bounded write batch): trunk height 12 and side-branch height 13
	t.Blocks[11].Big = 14
	t.Blocks[15].Big = 14
	return t
}

// CrashScripts: (base delivered before arming, armed script).
func CrashScripts() map[string][2][]int {
	seq := func(a, b int) []int {
		var s []int
		for i := a; i <= b; i++ {
			s = append(s, i)
		}
		return s
	}
	return map[string][2][]int{
		"linear":        {seq(0, 8), seq(9, 13)},
		"reorg3":        {seq(0, 13), {14, 15, 16, 17}},
		"orphans+reorg": {seq(0, 9), {11, 10, 12, 13, 15, 14, 17, 16}},
	}
}

type CrashRunReq struct {
	Tree    *Tree  `json:"tree"`
	Base    []int  `json:"base"`
	Script  []int  `json:"script"`
	CrashAt int64  `json:"crash_at"`
	Dir     string `json:"dir"`
	LogPath string `json:"log_path"`
}

type CrashRunRes struct {
	Writes  int64    `json:"writes"`
	Reached []string `json:"reached"` // tip hash after base and after each armed delivery
	Final   *Snap    `json:"final"`
	Errs    []string `json:"errs,omitempty"`
}

type RecoverReq struct {
	Tree     *Tree          `json:"tree"`
	Dir      string         `json:"dir"`
	All      []int          `json:"all"`     // base + script, redelivered after the checks
	Allowed  map[string]int `json:"allowed"` // tip hash -> tree block index (-1 genesis) allowed after restart
	Final    *Snap          `json:"final"`   // uninterrupted result
	States   []map[string]string `json:"states"` // expected account values per tree block
	GenesisState map[string]string `json:"genesis_state"`
}

type RecoverRes struct {
	TipHeight int64    `json:"tip_height"`
	TipHash   string   `json:"tip_hash"`
	TipBlock  int      `json:"tip_block"`
	Problems  []string `json:"problems,omitempty"`
	Resumed   []string `json:"resume_problems,omitempty"`
}

// TreeStates reads every touched account at every block's state root on the builder node.
func TreeStates(n *node.Node, t *Tree) (states []map[string]string, genesis map[string]string, err error) {
	_, blocks := t.AllTx()
	addrs := Addrs(blocks)
	acc := account.NewCoinsAccount(n.Cfg)
	read := func(root []byte) (map[string]string, error) {
		get := &types.StoreGet{StateHash: root}
		for _, a := range addrs {
			get.Keys = append(get.Keys, acc.AccountKey(a))
		}
		vals, err := n.API.StoreGet(get)
		if err != nil {
			return nil, err
		}
		m := map[string]string{}
		for i, v := range vals.Values {
			m[addrs[i]] = hex.EncodeToString(v)
		}
		return m, nil
	}
	for i := range t.Blocks {
		m, err := read(t.Block(i).StateHash)
		if err != nil {
			return nil, nil, err
		}
		states = append(states, m)
	}
	genesis, err = read(n.Block(0).Block.StateHash)
	return
}

type CrashTree struct {
	Tree    *Tree               `json:"tree"`
	States  []map[string]string `json:"states"`
	Genesis map[string]string   `json:"genesis_state"`
}

func RegisterCrashChildren() {
	lib.RegisterChild("crashtree", func(in []byte) (any, error) {
		var seed uint64
		json.Unmarshal(in, &seed)
		r := lib.NewRng(seed)
		n := node.New(node.Options{DataDir: filepath.Join(tmpDir(), "builder")})
		defer n.Close()
		t, err := Build(n, CrashTreeSpec(r), r)
		if err != nil {
			return nil, err
		}
		st, g, err := TreeStates(n, t)
		if err != nil {
			return nil, err
		}
		return &CrashTree{Tree: t, States: st, Genesis: g}, nil
	})
	lib.RegisterChild("crashrun", func(in []byte) (any, error) {
		var q CrashRunReq
		if err := json.Unmarshal(in, &q); err != nil {
			return nil, err
		}
		os.RemoveAll(q.Dir)
		n := node.New(node.Options{DataDir: q.Dir})
		res := &CrashRunRes{}
		for _, i := range q.Base {
			if err := n.Deliver(q.Tree.Block(i), true, "peerA"); err != nil {
				res.Errs = append(res.Errs, fmt.Sprintf("base block %d: %v", i, err))
			}
		}
		tip := func() string {
			h, _ := n.Chain.ProcGetLastHeaderMsg()
			if h == nil {
				return ""
			}
			return hex.EncodeToString(h.Hash)
		}
		res.Reached = append(res.Reached, tip())
		dbm.VerifArm(q.CrashAt, q.LogPath)
		for _, i := range q.Script {
			err := n.Deliver(q.Tree.Block(i), i%2 == 0, "peerB")
			if err != nil && err != types.ErrBlockExist {
				res.Errs = append(res.Errs, fmt.Sprintf("script block %d: %v", i, err))
			}
			res.Reached = append(res.Reached, tip())
		}
		res.Writes = dbm.VerifDisarm()
		txs, blocks := q.Tree.AllTx()
		res.Final = TakeSnap(n, txs, Addrs(blocks), true)
		n.Close()
		return res, nil
	})
	lib.RegisterChild("recover", func(in []byte) (any, error) {
		var q RecoverReq
		if err := json.Unmarshal(in, &q); err != nil {
			return nil, err
		}
		res := &RecoverRes{TipBlock: -2}
		n := node.New(node.Options{DataDir: q.Dir}) // restart on the crashed data directory
		defer n.Close()
		add := func(f string, a ...any) { res.Problems = append(res.Problems, fmt.Sprintf(f, a...)) }
		t := q.Tree
		txs, blocks := t.AllTx()
		addrs := Addrs(blocks)
		s := TakeSnap(n, txs, addrs, false)
		res.TipHeight, res.TipHash = s.Height, s.TipHash
		for _, e := range s.Errors {
			add("indexes disagree after restart: %s", e)
		}
		bi, ok := q.Allowed[s.TipHash]
		if !ok {
			add("chain after restart (h=%d %s) is neither a chain the node had reached nor a prefix of the chain it was building", s.Height, short(s.TipHash))
		} else {
			res.TipBlock = bi
			// every height must be on that block's path
			path := []int{}
			if bi >= 0 {
				path = t.Spec.Path(bi)
			}
			if int64(len(path)) != s.Height {
				add("height %d does not match the tip block's depth %d", s.Height, len(path))
			}
			onChain := map[string]int64{}
			for h, b := range path {
				if h+1 < len(s.HashByHeight) && s.HashByHeight[h+1] != t.Hashes[b] {
					add("height index at %d is %s, tip's branch has %s", h+1, short(s.HashByHeight[h+1]), short(t.Hashes[b]))
				}
				blk := t.Block(b)
				for _, tx := range blk.Txs {
					onChain[hex.EncodeToString(tx.Hash())] = blk.Height
				}
				// total difficulty agrees with the tree
				if h+1 < len(s.TD) && s.TD[h+1] != t.TD[b] {
					add("total difficulty at height %d is %s, expected %s", h+1, s.TD[h+1], t.TD[b])
				}
			}
			// transaction index agrees with the chain: present exactly for the chain's transactions, at the right height
			for _, k := range SortedKeys(s.Tx) {
				want, on := onChain[k]
				got := s.Tx[k]
				if on && !strings.HasPrefix(got, fmt.Sprintf("h%d.", want)) {
					add("tx %s is on the chain at height %d but the tx index says %s", short(k), want, got)
				}
				if !on && got != "absent" {
					add("tx %s is not on the chain but the tx index says %s", short(k), got)
				}
			}
			// tip state fully readable and equal to the builder's state of that block
			want := q.GenesisState
			if bi >= 0 {
				want = q.States[bi]
			}
			for _, a := range addrs {
				if s.State[a] != want[a] {
					add("tip state: account %s reads %q, expected %q", a, short(s.State[a]), short(want[a]))
				}
			}
			if len(s.State) == 0 {
				add("tip state unreadable")
			}
		}
		// continue processing: redeliver everything, must reach the uninterrupted result
		for _, i := range q.All {
			err := n.Deliver(t.Block(i), true, "peerC")
			if err != nil && err != types.ErrBlockExist {
				res.Resumed = append(res.Resumed, fmt.Sprintf("redelivery of block %d (h=%d): %v", i, t.Spec.Blocks[i].Height, err))
			}
		}
		fin := TakeSnap(n, txs, addrs, true)
		side := map[string]bool{}
		for _, h := range t.Hashes {
			side[h] = true
		}
		for _, h := range q.Final.HashByHeight {
			delete(side, h)
		}
		pr, _ := CompareToRef(q.Final, fin, side)
		res.Resumed = append(res.Resumed, pr...)
		return res, nil
	})
}

// ReadWriteLog parses the write log of the counting run.
func ReadWriteLog(path string) (labels []string) {
	f, err := os.Open(path)
	if err != nil {
		return nil
	}
	defer f.Close()
	sc := bufio.NewScanner(f)
	for sc.Scan() {
		parts := strings.SplitN(sc.Text(), " ", 2)
		if len(parts) == 2 {
			labels = append(labels, parts[1])
		}
	}
	return
}
