package chainenv

import (
	"bytes"
	"encoding/hex"
	"encoding/json"
	"fmt"
	"os"
	"path/filepath"

	"github.com/33cn/chain33/common/crypto"
	"github.com/33cn/chain33/types"
	"github.com/33cn/chain33/util"
	"verifharness/lib"
	"verifharness/node"
)

// C28: chain holds no replayed, expired or mis-signed transactions.

const (
	packLow  = 3
	packHigh = 5
)

func c28Opts(dir string, builder bool) node.Options {
	return node.Options{DataDir: dir, Cfg: func(c *types.Config) {
		c.BlockChain.HighAllowPackHeight = packHigh
		c.BlockChain.LowAllowPackHeight = packLow
		// recent-block cache smaller than the height window (as in production: 128 < 200+600), so that the window
		// cache cannot be fed from the block cache alone after a restart
		c.BlockChain.DefCacheSize = 2
		if builder {
			c.Exec.DisableTxDupCheck = true
		}
	}}
}

// independent predicate, written from the statement
func expiredRef(tx *types.Transaction, height, blocktime int64) bool {
	e := tx.Expire
	switch {
	case e == 0:
		return false
	case e <= 1000000000:
		return height >= e
	case e > (int64(1) << 62):
		th := e - (int64(1) << 62)
		return !(th-packLow <= height && height <= th+packHigh)
	default:
		return blocktime >= e
	}
}

type chainProblem struct {
	Kind   string `json:"kind"` // replay | expired | badsig | chainid | fee
	Height int64  `json:"height"`
	Tx     string `json:"tx"`
	Class  string `json:"class,omitempty"`
	Detail string `json:"detail"`
}

// ScanChain is the offline checker over the best chain.
func ScanChain(n *node.Node, classOf map[string]string) (problems []chainProblem, ntx int) {
	cfg := n.Cfg
	seen := map[string]int64{}
	top := n.Chain.GetBlockHeight()
	for h := int64(1); h <= top; h++ {
		bd, err := n.Chain.GetBlock(h)
		if err != nil {
			problems = append(problems, chainProblem{Kind: "unreadable", Height: h, Detail: err.Error()})
			continue
		}
		b := bd.Block
		for _, tx := range b.Txs {
			ntx++
			hs := hex.EncodeToString(tx.Hash())
			cls := classOf[hs]
			if prev, ok := seen[hs]; ok {
				problems = append(problems, chainProblem{Kind: "replay", Height: h, Tx: hs, Class: cls, Detail: fmt.Sprintf("also at height %d", prev)})
			}
			seen[hs] = h
			if expiredRef(tx, b.Height, b.BlockTime) {
				problems = append(problems, chainProblem{Kind: "expired", Height: h, Tx: hs, Class: cls, Detail: fmt.Sprintf("expire=%d block height=%d time=%d", tx.Expire, b.Height, b.BlockTime)})
			}
			if !tx.CheckSign(b.Height) {
				problems = append(problems, chainProblem{Kind: "badsig", Height: h, Tx: hs, Class: cls, Detail: "signature does not verify"})
			}
			if tx.ChainID != cfg.GetChainID() {
				problems = append(problems, chainProblem{Kind: "chainid", Height: h, Tx: hs, Class: cls, Detail: fmt.Sprintf("chain id %d, chain is %d", tx.ChainID, cfg.GetChainID())})
			}
			if tx.GroupCount == 0 {
				size := int64(types.Size(tx))
				min := (size/1000 + 1) * cfg.GetMinTxFeeRate()
				if tx.Fee < min {
					problems = append(problems, chainProblem{Kind: "fee", Height: h, Tx: hs, Class: cls, Detail: fmt.Sprintf("fee %d below minimum %d", tx.Fee, min)})
				}
			}
		}
	}
	return
}

type c28Step struct {
	Step     string         `json:"step"`
	Problems []chainProblem `json:"problems,omitempty"`
	Other    []string       `json:"other,omitempty"` // bad peer block accepted etc.
	Included map[string]int `json:"included,omitempty"`
	Dropped  map[string]int `json:"dropped,omitempty"`
	ChainTx  int            `json:"chain_tx"`
	Height   int64          `json:"height"`
}

type c28Res struct {
	Steps []c28Step `json:"steps"`
}

type cand struct {
	tx    *types.Transaction
	class string
	valid bool
	grp   int // members of one transaction group carry the same non-zero id and stay consecutive
}

func freshTo() string { a, _ := util.Genaddress(); return a }

// selfProduce lets the harness act as the block producer on node n: a block with the candidate list is
// submitted through the real "self" path; transactions failing any check must be silently dropped.
func selfProduce(n *node.Node, cands []cand, classOf map[string]string, r *lib.Rng) (*types.Block, error) {
	cfg := n.Cfg
	parent := n.LastBlock()
	var txs []*types.Transaction
	for _, c := range cands {
		txs = append(txs, c.tx)
		hs := hex.EncodeToString(c.tx.Hash())
		if _, ok := classOf[hs]; !ok || c.class[0] != 'V' {
			classOf[hs] = c.class
		}
	}
	b := util.CreateNewBlock(cfg, parent, txs)
	b.Difficulty = diffChoices[0]
	d, err := n.Chain.ProcAddBlockMsg(true, &types.BlockDetail{Block: b}, "self")
	if err != nil {
		return nil, err
	}
	return d.Block, nil
}

func runC28History(seed uint64, dir string) (*c28Res, error) {
	r := lib.NewRng(seed)
	res := &c28Res{}
	classOf := map[string]string{}
	gk := node.GenesisKey()
	keys := Keys()
	// ---------------- phase 1: builder (duplicate check disabled so that replays can be crafted consistently)
	bn := node.New(c28Opts(filepath.Join(dir, "builder"), true))
	cfg := bn.Cfg
	mk := func(from crypto.PrivKey, amt int64) *types.Transaction {
		return util.CreateCoinsTx(cfg, from, freshTo(), amt)
	}
	mkTH := func(txh int64) *types.Transaction {
		return util.CreateCoinsTxWithTxHeight(cfg, gk, freshTo(), int64(r.Range(1, 9))*1e6, txh)
	}
	type built struct {
		b *types.Block
	}
	var trunk []*types.Block
	parent := bn.Block(0).Block
	var thTrunk []*types.Transaction // TxHeight txs on the trunk
	for h := int64(1); h <= 12; h++ {
		txs := []*types.Transaction{mk(gk, int64(r.Range(1, 50))*1e6)}
		if h == 1 {
			txs = append(txs, util.CreateCoinsTx(cfg, gk, addrOf(keys[0]), 1000*types.DefaultCoinPrecision), util.CreateCoinsTx(cfg, gk, addrOf(keys[2]), 1000*types.DefaultCoinPrecision))
		}
		if h >= 9 {
			t := mkTH(h + int64(r.Range(-1, 1)))
			thTrunk = append(thTrunk, t)
			txs = append(txs, t)
			classOf[hex.EncodeToString(t.Hash())] = "V-txheight-trunk"
		}
		d, err := bn.Build(parent, txs, diffChoices[0], 0)
		if err != nil {
			return nil, err
		}
		trunk = append(trunk, d.Block)
		parent = d.Block
	}
	build := func(p *types.Block, diff uint32, txs ...*types.Transaction) (*types.Block, error) {
		d, err := bn.Build(p, txs, diff, 0)
		if err != nil {
			return nil, err
		}
		return d.Block, nil
	}
	xOnly := mk(gk, 11e6)
	xTH := mkTH(14)
	x13, err := build(trunk[11], diffChoices[0], mk(gk, 2e6), xOnly)
	if err != nil {
		return nil, err
	}
	x14, err := build(x13, diffChoices[0], mk(keys[0], 3e6), xTH)
	if err != nil {
		return nil, err
	}
	both := mk(gk, 5e6) // on both branches (valid: different branches)
	yOnly := mk(gk, 13e6)
	y13, err := build(trunk[11], diffChoices[0], mk(gk, 4e6), yOnly)
	if err != nil {
		return nil, err
	}
	y14, err := build(y13, diffChoices[0], both)
	if err != nil {
		return nil, err
	}
	y15, err := build(y14, 0x1e00ffff, mk(keys[2], 6e6))
	if err != nil {
		return nil, err
	}
	// bad peer blocks on top of x14 (consistent tx root / state root thanks to the dup-disabled builder)
	dupTx := mk(gk, 7e6)
	pDupBlock, err := build(x14, diffChoices[0], dupTx, mk(gk, 8e6), types.Clone(dupTx).(*types.Transaction))
	if err != nil {
		return nil, err
	}
	pDupChain, err := build(x14, diffChoices[0], mk(gk, 9e6), trunk[r.Range(3, 7)].Txs[0])
	if err != nil {
		return nil, err
	}
	pDupTH, err := build(x14, diffChoices[0], mk(gk, 9e6), thTrunk[len(thTrunk)-1])
	if err != nil {
		return nil, err
	}
	pDupParent, err := build(x14, diffChoices[0], mk(gk, 9e6), x14.Txs[0])
	if err != nil {
		return nil, err
	}
	// a peer block carrying a transaction whose signature does not verify (roots are consistent: the signature is
	// neither part of the transaction hash nor of the state transition)
	bs := mk(gk, 1e6)
	bs.Signature.Signature[5] ^= 0x40
	classOf[hex.EncodeToString(bs.Hash())] = "B-badsig"
	pBadSig, err := build(x14, diffChoices[0], mk(gk, 9e6), bs)
	if err != nil {
		return nil, err
	}
	bn.Close()
	// ---------------- phase 2: node under test
	tdir := filepath.Join(dir, "node")
	n := node.New(c28Opts(tdir, false))
	defer func() { n.Close() }()
	scan := func(step string, st *c28Step) {
		if st == nil {
			st = &c28Step{}
		}
		st.Step = step
		st.Problems, st.ChainTx = ScanChain(n, classOf)
		st.Height = n.Chain.GetBlockHeight()
		res.Steps = append(res.Steps, *st)
	}
	for _, b := range trunk {
		if err := n.Deliver(b, true, "p"); err != nil {
			return nil, fmt.Errorf("trunk delivery: %v", err)
		}
	}
	for _, b := range []*types.Block{x13, x14} {
		if err := n.Deliver(b, false, "p"); err != nil {
			return nil, fmt.Errorf("x delivery: %v", err)
		}
	}
	scan("trunk+X", nil)
	// crafted bad peer blocks: must be rejected, chain unchanged
	for name, pb := range map[string]*types.Block{"peer-dup-in-block": pDupBlock, "peer-dup-of-old-block": pDupChain, "peer-dup-txheight-in-window": pDupTH, "peer-dup-of-parent": pDupParent, "peer-bad-signature": pBadSig} {
		st := &c28Step{}
		err := n.Deliver(pb, r.Bool(), "evil")
		tip := n.LastBlock()
		if !bytes.Equal(tip.Hash(cfg), x14.Hash(cfg)) {
			st.Other = append(st.Other, fmt.Sprintf("%s: crafted block with a replayed or mis-signed transaction changed the best chain (err=%v, tip h=%d)", name, err, tip.Height))
		}
		scan(name, st)
	}
	included := func(b *types.Block, cands []cand, st *c28Step) {
		st.Included, st.Dropped = map[string]int{}, map[string]int{}
		in := map[string]bool{}
		for _, tx := range b.Txs {
			in[string(tx.Hash())] = true
		}
		for _, c := range cands {
			if in[string(c.tx.Hash())] {
				st.Included[c.class]++
			} else {
				st.Dropped[c.class]++
			}
		}
	}
	produce := func(step string, cands []cand) {
		st := &c28Step{}
		// shuffle candidate order (a transaction group moves as one unit)
		var units [][]cand
		for i := 0; i < len(cands); {
			j := i + 1
			for cands[i].grp != 0 && j < len(cands) && cands[j].grp == cands[i].grp {
				j++
			}
			units = append(units, cands[i:j])
			i = j
		}
		var sh []cand
		for _, j := range r.Perm(len(units)) {
			sh = append(sh, units[j]...)
		}
		b, err := selfProduce(n, sh, classOf, r)
		if err != nil {
			st.Other = append(st.Other, fmt.Sprintf("self-produced block refused: %v", err))
		} else {
			included(b, sh, st)
		}
		scan(step, st)
	}
	wrongChain := func() *types.Transaction {
		t := util.CreateCoinsTx(cfg, nil, freshTo(), 1e6)
		t.ChainID = cfg.GetChainID() + 1
		t.Sign(types.SECP256K1, gk)
		return t
	}
	lowFee := func() *types.Transaction {
		t := util.CreateCoinsTx(cfg, nil, freshTo(), 1e6)
		t.Fee = 1
		t.Sign(types.SECP256K1, gk)
		return t
	}
	withExpire := func(e int64) *types.Transaction {
		t := util.CreateCoinsTx(cfg, nil, freshTo(), 1e6)
		t.Expire = e
		t.Sign(types.SECP256K1, gk)
		return t
	}
	gid := 0
	mkGroup := func(expires []int64) []*types.Transaction {
		var raw []*types.Transaction
		for _, e := range expires {
			t := util.CreateCoinsTx(cfg, nil, freshTo(), 1e6)
			t.Expire = e
			raw = append(raw, t)
		}
		g, err := types.CreateTxGroup(raw, cfg.GetMinTxFeeRate())
		if err != nil {
			panic(err)
		}
		for i := range g.Txs {
			g.SignN(i, types.SECP256K1, gk)
		}
		return g.GetTxs()
	}
	genCands := func(h int64, bt int64, replayOnChain []*types.Transaction, validAgain []*types.Transaction) []cand {
		d := mk(gk, 2e6)
		cs := []cand{
			{mk(gk, 1e6), "V-fresh", true, 0}, {mk(keys[0], 1e6), "V-fresh", true, 0},
			{d, "V-dup-in-list-first", true, 0}, {types.Clone(d).(*types.Transaction), "B-dup-in-list", false, 0},
			{wrongChain(), "B-chainid", false, 0}, {lowFee(), "B-lowfee", false, 0},
			{withExpire(h), "B-expire-height-eq", false, 0}, {withExpire(h - 1), "B-expire-height-past", false, 0}, {withExpire(h + 1), "V-expire-height-next", true, 0},
			{withExpire(bt), "B-expire-time-eq", false, 0}, {withExpire(bt - 100), "B-expire-time-past", false, 0}, {withExpire(bt + 100), "V-expire-time-future", true, 0},
			{mkTH(h - packHigh), "V-txheight-low-edge", true, 0}, {mkTH(h - packHigh - 1), "B-txheight-below-window", false, 0},
			{mkTH(h + packLow), "V-txheight-high-edge", true, 0}, {mkTH(h + packLow + 1), "B-txheight-above-window", false, 0},
			{mkTH(h), "V-txheight-now", true, 0},
		}
		// transaction groups: every member must be unexpired, not only the head
		gid++
		for _, t := range mkGroup([]int64{0, h + 2, bt + 100}) {
			cs = append(cs, cand{t, "V-group", true, gid})
		}
		gid++
		for _, t := range mkGroup(lib.Pick(r, [][]int64{{0, h - 1}, {h + 2, 0, h}, {0, bt - 100, 0}, {bt + 100, bt}})) {
			cs = append(cs, cand{t, "B-group-member-expired", false, gid})
		}
		for _, t := range replayOnChain {
			cs = append(cs, cand{t, "B-replay-onchain", false, 0})
		}
		for _, t := range validAgain {
			cs = append(cs, cand{t, "V-losing-branch-only", true, 0})
		}
		return cs
	}
	tip := n.LastBlock()
	produce("self-15-on-X", genCands(15, tip.BlockTime+1, []*types.Transaction{trunk[2].Txs[0], x13.Txs[0], xTH, thTrunk[len(thTrunk)-1], thTrunk[0]}, nil))
	s15 := n.LastBlock()
	// reorganisation to Y
	for _, b := range []*types.Block{y13, y14, y15} {
		if err := n.Deliver(b, true, "q"); err != nil {
			return nil, fmt.Errorf("y delivery: %v", err)
		}
	}
	st := &c28Step{}
	if !bytes.Equal(n.LastBlock().Hash(cfg), y15.Hash(cfg)) {
		st.Other = append(st.Other, "setup: reorganisation to the heavier branch did not happen")
	}
	scan("reorg-to-Y", st)
	var again []*types.Transaction
	again = append(again, xOnly, x13.Txs[0])
	if s15.Height == 15 {
		for _, tx := range s15.Txs {
			if tx.Expire == 0 {
				again = append(again, tx)
				break
			}
		}
	}
	tip = n.LastBlock()
	produce("self-16-on-Y", genCands(16, tip.BlockTime+1, []*types.Transaction{yOnly, both, y15.Txs[0], trunk[5].Txs[0], thTrunk[len(thTrunk)-1]}, again))
	// restart (height-window cache is rebuilt from disk)
	n.Close()
	n = node.New(c28Opts(tdir, false))
	tip = n.LastBlock()
	last := tip
	var recentTH []*types.Transaction
	for _, tx := range last.Txs {
		if tx.Expire > (int64(1) << 62) {
			recentTH = append(recentTH, tx)
		}
	}
	produce("self-after-restart", genCands(tip.Height+1, tip.BlockTime+1, append([]*types.Transaction{yOnly, trunk[1].Txs[0]}, recentTH...), nil))
	// run past the height window, replaying TxHeight transactions at both window edges
	var oldTH []*types.Transaction
	oldTH = append(oldTH, recentTH...)
	oldTH = append(oldTH, thTrunk...)
	for k := 0; k < packLow+packHigh+2; k++ {
		tip = n.LastBlock()
		var rep []*types.Transaction
		rep = append(rep, oldTH...)
		rep = append(rep, trunk[r.Range(0, 11)].Txs[0])
		cs := genCands(tip.Height+1, tip.BlockTime+1, rep, nil)
		produce(fmt.Sprintf("self-window-%d", k), cs)
		for _, tx := range n.LastBlock().Txs {
			if tx.Expire > (int64(1)<<62) && len(oldTH) < 40 {
				oldTH = append(oldTH, tx)
			}
		}
	}
	return res, nil
}

func RegisterC28Children() {
	lib.RegisterChild("c28hist", func(in []byte) (any, error) {
		var seed uint64
		json.Unmarshal(in, &seed)
		dir := filepath.Join(tmpDir(), "h")
		defer os.RemoveAll(dir)
		return runC28History(seed, dir)
	})
}
