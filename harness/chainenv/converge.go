package chainenv

import (
	"sync/atomic"
	"encoding/json"
	"fmt"
	"os"
	"path/filepath"
	"time"

	"verifharness/lib"
	"verifharness/node"
)

type treeReq struct {
	Seed   uint64 `json:"seed"`
	Small  bool   `json:"small"`  // few post-trunk blocks (exhaustive orders)
	Params [5]int `json:"params"` // trunkMin trunkMax nbMin nbMax maxDepth
	Heavy  bool   `json:"heavy"`  // add a heavier-but-shorter branch
}

type ordersReq struct {
	Tree    *Tree   `json:"tree"`
	Ref     *Snap   `json:"ref"`
	Orders  [][]int `json:"orders"`
	Winner  int     `json:"winner"`
	Precond bool    `json:"precond"` // statement precondition holds (unique heaviest, tip >= margin)
	SeqStep bool    `json:"seq_step"`
	WithDB  bool    `json:"with_db"`
	Mix     bool    `json:"mix"`
	Conc    int     `json:"conc"`
	Tail    int     `json:"tail"`
}

type orderRes struct {
	Order       []int          `json:"order"`
	Problems    []string       `json:"problems,omitempty"`
	SeqProblems []string       `json:"seq_problems,omitempty"`
	Orphans     int            `json:"orphans"`
	Reorgs      int            `json:"reorgs"`
	SeqObs      int            `json:"seq_obs"`
	Tip         string         `json:"tip"`
	NonDeciding map[string]int `json:"nondeciding,omitempty"`
	Held        int            `json:"held,omitempty"`
}

func tmpDir() string {
	d := os.Getenv("VERIF_TMP")
	if d == "" {
		d = os.TempDir()
	}
	return d
}

// RegisterChildren registers the child modes used by the convergence engine.
func RegisterChildren() {
	lib.RegisterChild("tree", func(in []byte) (any, error) {
		var q treeReq
		if err := json.Unmarshal(in, &q); err != nil {
			return nil, err
		}
		r := lib.NewRng(q.Seed)
		n := node.New(node.Options{DataDir: filepath.Join(tmpDir(), "builder")})
		defer n.Close()
		var spec TreeSpec
		for try := 0; ; try++ {
			spec = GenTree(r, q.Params[0], q.Params[1], q.Params[2], q.Params[3], q.Params[4])
			if q.Heavy {
				AddHeavyShort(&spec, r)
			}
			post := len(spec.Blocks) - spec.Trunk
			if !q.Small || post <= 6 || try > 50 {
				break
			}
		}
		return Build(n, spec, r)
	})
	lib.RegisterChild("ref", func(in []byte) (any, error) {
		var q ordersReq
		if err := json.Unmarshal(in, &q); err != nil {
			return nil, err
		}
		res := RunOrder(filepath.Join(tmpDir(), "ref"), q.Tree, q.Tree.Spec.Path(q.Winner), RunOpts{WithDB: true, Broadcast: true})
		if len(res.Errs) > 0 {
			return nil, fmt.Errorf("reference run failed: %v", res.Errs)
		}
		return res.Snap, nil
	})
	lib.RegisterChild("orders", func(in []byte) (any, error) {
		var q ordersReq
		if err := json.Unmarshal(in, &q); err != nil {
			return nil, err
		}
		side := map[string]bool{}
		onWin := map[int]bool{}
		for _, i := range q.Tree.Spec.Path(q.Winner) {
			onWin[i] = true
		}
		valid := map[string]int{}
		for i, h := range q.Tree.Hashes {
			valid[h] = i
			if !onWin[i] {
				side[h] = true
			}
		}
		var out []orderRes
		for k, ord := range q.Orders {
			res := RunOrder(filepath.Join(tmpDir(), fmt.Sprintf("n%d", k)), q.Tree, ord, RunOpts{Broadcast: true, MixFlavour: q.Mix, CheckSeqEachStep: q.SeqStep, WithDB: q.WithDB, Conc: q.Conc, ConcTail: q.Tail})
			or := orderRes{Order: ord, Orphans: res.Orphans, Reorgs: res.Reorgs, SeqProblems: res.SeqProblems, SeqObs: res.SeqObs, Tip: res.Snap.TipHash, Held: res.Held}
			for _, e := range res.Errs {
				or.Problems = append(or.Problems, "valid block rejected: "+e)
			}
			if q.Precond {
				pr, nd := CompareToRef(q.Ref, res.Snap, side)
				or.Problems = append(or.Problems, pr...)
				or.NonDeciding = nd
			} else {
				// outside the statement's precondition: only sanity — the chain is one branch of the tree
				for _, e := range res.Snap.Errors {
					or.Problems = append(or.Problems, "query surface inconsistent: "+e)
				}
				if i, ok := valid[res.Snap.TipHash]; !ok {
					or.Problems = append(or.Problems, "tip is not a block of the tree: "+res.Snap.TipHash)
				} else {
					path := q.Tree.Spec.Path(i)
					for h, bi := range path {
						if h+1 < len(res.Snap.HashByHeight) && res.Snap.HashByHeight[h+1] != q.Tree.Hashes[bi] {
							or.Problems = append(or.Problems, fmt.Sprintf("height %d is not on the tip's branch", h+1))
						}
					}
				}
			}
			// final sequence check (C26) — always
			p, _ := seqFinal(res.Snap)
			or.SeqProblems = append(or.SeqProblems, p...)
			or.SeqObs++
			out = append(out, or)
		}
		return out, nil
	})
}

func seqFinal(s *Snap) ([]string, int) {
	var problems []string
	if s.LastSeq < 0 {
		return []string{"no sequence log"}, 0
	}
	if int64(len(s.Seqs)) != s.LastSeq+1 {
		problems = append(problems, fmt.Sprintf("last sequence %d but %d records", s.LastSeq, len(s.Seqs)))
	}
	stack, p := ReplaySeqs(s.Seqs)
	problems = append(problems, p...)
	if int64(len(stack)) != s.Height+1 {
		problems = append(problems, fmt.Sprintf("replay yields %d blocks, chain height is %d", len(stack), s.Height))
	}
	for h := 0; h < len(stack) && h < len(s.HashByHeight); h++ {
		if stack[h] != s.HashByHeight[h] {
			problems = append(problems, fmt.Sprintf("replayed hash at height %d is %s, chain has %s", h, short(stack[h]), short(s.HashByHeight[h])))
		}
	}
	return problems, len(stack)
}

// GenOrders produces the delivery orders for a tree: trunk first (in order) followed by permutations of the
// post-trunk blocks (all when <= maxExh blocks and budget allows, else sampled), plus hostile variants
// (duplicates, everything shuffled incl. trunk, reversed).
func GenOrders(t *Tree, r *lib.Rng, budget int, maxExh int) (orders [][]int, exhaustive bool) {
	T := t.Spec.Trunk
	n := len(t.Spec.Blocks)
	post := n - T
	trunk := make([]int, T)
	for i := range trunk {
		trunk[i] = i
	}
	mk := func(perm []int) []int {
		o := append([]int(nil), trunk...)
		for _, p := range perm {
			o = append(o, T+p)
		}
		return o
	}
	if post <= maxExh {
		perms := Permutations(post)
		if len(perms) <= budget {
			exhaustive = true
			for _, p := range perms {
				orders = append(orders, mk(p))
			}
		}
	}
	if !exhaustive {
		seen := map[string]bool{}
		for len(orders) < budget*8/10 {
			p := r.Perm(post)
			k := fmt.Sprint(p)
			if seen[k] {
				if post <= 4 {
					break
				}
				continue
			}
			seen[k] = true
			orders = append(orders, mk(p))
		}
	}
	// hostile variants
	extra := budget / 5
	if extra < 4 {
		extra = 4
	}
	for i := 0; i < extra; i++ {
		switch i % 4 {
		case 0: // everything shuffled incl. trunk
			p := r.Perm(n)
			orders = append(orders, p)
		case 1: // duplicates sprinkled
			o := mk(r.Perm(post))
			for d := 0; d < 1+r.Intn(4); d++ {
				pos := r.Intn(len(o) + 1)
				o = append(o[:pos], append([]int{r.Intn(n)}, o[pos:]...)...)
			}
			orders = append(orders, o)
		case 2: // children strictly before parents (reverse of creation order) after half of the trunk
			h := T / 2
			o := append([]int(nil), trunk[:h]...)
			for j := n - 1; j >= h; j-- {
				o = append(o, j)
			}
			orders = append(orders, o)
		case 3: // branch by branch, deepest first, then all again (duplicates)
			o := mk(r.Perm(post))
			o = append(o, o...)
			orders = append(orders, o)
		}
	}
	return
}

// Engine runs trees × orders and reports per focus ("C25" convergence, "C26" sequence log).
func Engine(c *lib.Ctx, focus string, nTreesSmall, nTreesBig, budgetSmall, budgetBig int) {
	total := nTreesSmall + nTreesBig
	for ti := 0; ti < total; ti++ {
		if c.Skip(ti) {
			continue
		}
		small := ti < nTreesSmall
		rng := c.CaseRng("tree", ti)
		req := treeReq{Seed: rng.U64(), Small: small, Params: [5]int{12, 14, 2, 4, 4}}
		if small {
			req.Params = [5]int{12, 13, 2, 3, 3}
		}
		if rng.Chance(15) {
			// outside-precondition trees: short trunk so that the heaviest tip may stay below the margin
			req.Params[0], req.Params[1] = 7, 10
		}
		if ti%3 == 1 {
			// every third tree: the heaviest branch is shorter than the longest one (reorganisation to a lower height)
			req.Heavy = true
			if small {
				req.Params = [5]int{13, 14, 1, 2, 3}
			}
			c.Count("trees_with_heavier_shorter_branch", 1)
		}
		tr := c.Child("tree", req, lib.ChildOpts{Timeout: 5 * time.Minute})
		if tr.Died || tr.TimedOut {
			c.Inconclusive("tree %d: builder child failed: %s", ti, lib.ShortList([]string{tr.Stderr}, 1))
			continue
		}
		var tree Tree
		if err := json.Unmarshal(tr.Out, &tree); err != nil {
			c.Inconclusive("tree %d: %v", ti, err)
			continue
		}
		win, unique := tree.Winner()
		precond := unique && tree.Spec.Blocks[win].Height >= 12
		var ref Snap
		if precond {
			rr := c.Child("ref", ordersReq{Tree: &tree, Winner: win}, lib.ChildOpts{Timeout: 5 * time.Minute})
			if rr.Died || rr.TimedOut || json.Unmarshal(rr.Out, &ref) != nil {
				c.Inconclusive("tree %d: reference child failed: %.300s", ti, rr.Stderr)
				continue
			}
			c.Extra("reference_db_key_classes", KeyHistogram(ref.DB))
		}
		budget := budgetBig
		if small {
			budget = budgetSmall
		}
		orders, exh := GenOrders(&tree, rng, budget, 6)
		if exh {
			c.Count("trees_with_all_orders", 1)
		}
		c.Count("trees", 1)
		if precond {
			c.Count("trees_in_precondition", 1)
		} else {
			c.Count("trees_outside_precondition", 1)
		}
		workers := 16
		chunks := make([][][]int, workers+1)
		for i, o := range orders {
			chunks[i%workers] = append(chunks[i%workers], o)
		}
		// orphan-drain schedules (chunk `workers`): everything except the first block and one block b of the winning
		// branch is delivered first (all of it waits in the orphan pool), then the first block and b start together:
		// b arrives while the first block's delivery is draining the pool towards b's parent
		wpath := tree.Spec.Path(win)
		for _, pos := range []int{len(wpath) / 2, len(wpath) * 3 / 4, len(wpath) - 1} {
			if pos < 2 || pos >= len(wpath) {
				continue
			}
			hold := wpath[pos]
			var o []int
			for i := 1; i < len(tree.Spec.Blocks); i++ {
				if i != hold {
					o = append(o, i)
				}
			}
			o = append(o, 0, hold)
			chunks[workers] = append(chunks[workers], o)
		}
		c.Count("orphan_drain_schedules", int64(len(chunks[workers])))
		results := make([][]orderRes, workers+1)
		var concOrders atomic.Int64
		lib.Parallel(workers+1, workers, func(w int) {
			if len(chunks[w]) == 0 {
				return
			}
			q := ordersReq{Tree: &tree, Ref: &ref, Orders: chunks[w], Winner: win, Precond: precond, SeqStep: focus == "C26", WithDB: focus == "C25", Mix: w%2 == 1}
			if w == workers {
				q.Tail, q.Mix = 2, false
			} else if w%4 >= 2 {
				// concurrent delivery stratum: the same order dealt to 2 or 3 goroutines delivering at once
				q.Conc = w%4
				concOrders.Add(int64(len(chunks[w])))
			}
			cr := c.Child("orders", q, lib.ChildOpts{Timeout: 15 * time.Minute})
			if cr.TimedOut {
				c.Inconclusive("tree %d chunk %d: watchdog fired", ti, w)
				return
			}
			if cr.Died {
				// a node crash while processing valid blocks is a violation of the convergence property
				c.Violation(ti, "node-crash", map[string]any{"tree": tree.Spec, "orders": chunks[w], "stderr": cr.Stderr},
					"node process died while delivering valid blocks (tree %d): %.600s", ti, cr.Stderr)
				return
			}
			var rs []orderRes
			if err := json.Unmarshal(cr.Out, &rs); err != nil {
				c.Inconclusive("tree %d chunk %d: %v", ti, w, err)
				return
			}
			results[w] = rs
		})
		c.Count("orders_delivered_concurrently", concOrders.Load())
		for _, rs := range results {
			for _, r := range rs {
				fp := lib.Fingerprint([]any{tree.Hashes, r.Order})
				c.Count("deliveries", int64(len(r.Order)))
				c.Count("orphans_observed", int64(r.Orphans))
				c.Count("reorg_block_removals", int64(r.Reorgs))
				c.Count("seq_observations", int64(r.SeqObs))
				c.Count("deliveries_held_before_orphan_pool", int64(r.Held))
				c.Seen("final_tips", r.Tip)
				for cls, k := range r.NonDeciding {
					c.Count("nondeciding_db_diff["+cls+"]", int64(k))
				}
				sample := map[string]any{"trunk": tree.Spec.Trunk, "blocks": len(tree.Spec.Blocks), "order": r.Order, "orphans": r.Orphans, "block_removals": r.Reorgs, "precondition": precond}
				if focus == "C25" {
					c.Case(fp, precond && (r.Reorgs > 0 || r.Orphans > 0), sample)
					if len(r.Problems) > 0 {
						c.Violation(ti, "convergence", map[string]any{"tree": tree.Spec, "order": r.Order, "problems": r.Problems, "precondition": precond},
							"tree %d order %v: %s", ti, r.Order, lib.ShortList(r.Problems, 4))
					}
				} else {
					c.Case(fp, r.Reorgs > 0, sample)
					if len(r.SeqProblems) > 0 {
						c.Violation(ti, "sequence-log", map[string]any{"tree": tree.Spec, "order": r.Order, "problems": r.SeqProblems},
							"tree %d order %v: %s", ti, r.Order, lib.ShortList(r.SeqProblems, 4))
					}
				}
			}
		}
	}
}
