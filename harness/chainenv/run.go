package chainenv

import (
	"bytes"
	"encoding/hex"
	"fmt"
	"github.com/33cn/chain33/blockchain"
	"os"
	"runtime"
	"sort"
	"strings"
	"sync"
	"sync/atomic"
	"time"

	"github.com/33cn/chain33/types"
	"verifharness/node"
)

// RunResult is what one delivery-order run observed.
type RunResult struct {
	Held        int      // deliveries held at the orphan delay point
	Order       []int    `json:"order"`
	Snap        *Snap    `json:"-"`
	Orphans     int      `json:"orphans"`
	Reorgs      int      `json:"reorgs"` // number of delete records in the sequence log
	Errs        []string `json:"deliver_errs,omitempty"`
	Problems    []string `json:"problems,omitempty"`     // C25-type problems
	SeqProblems []string `json:"seq_problems,omitempty"` // C26-type problems
	SeqObs      int      `json:"seq_observations"`
}

// AllTxHashes of a tree.
func (t *Tree) AllTx() (hashes [][]byte, blocks []*types.Block) {
	seen := map[string]bool{}
	for i := range t.Blocks {
		b := t.Block(i)
		blocks = append(blocks, b)
		for _, tx := range b.Txs {
			h := tx.Hash()
			if !seen[string(h)] {
				seen[string(h)] = true
				hashes = append(hashes, h)
			}
		}
	}
	return
}

type RunOpts struct {
	Broadcast        bool // deliver as broadcast (true) or sync (false); mixed when MixFlavour
	MixFlavour       bool
	CheckSeqEachStep bool
	WithDB           bool
	Conc             int // >1: the order is dealt round-robin to Conc goroutines which deliver concurrently (as the module's per-message goroutines do)
	ConcTail         int // 2: orphan-drain schedule over the last two entries of the order (see RunOrderOn)
	NodeOpts         func(o *node.Options)
}

// RunOrder feeds the blocks (indices into tree, duplicates allowed) to a fresh node and snapshots it.
func RunOrder(dir string, t *Tree, order []int, o RunOpts) *RunResult {
	os.RemoveAll(dir)
	no := node.Options{DataDir: dir}
	if o.NodeOpts != nil {
		o.NodeOpts(&no)
	}
	n := node.New(no)
	defer func() {
		n.Close()
		os.RemoveAll(dir)
	}()
	return RunOrderOn(n, t, order, o)
}

func RunOrderOn(n *node.Node, t *Tree, order []int, o RunOpts) *RunResult {
	res := &RunResult{Order: order}
	txs, blocks := t.AllTx()
	addrs := Addrs(blocks)
	lastSeq := int64(-2)
	if o.Conc > 1 {
		var mu sync.Mutex
		var wg sync.WaitGroup
		for g := 0; g < o.Conc; g++ {
			wg.Add(1)
			go func(g int) {
				defer wg.Done()
				for k := g; k < len(order); k += o.Conc {
					i := order[k]
					b := t.Block(i)
					// injected delay (deterministic per position): lets a delivery start while another goroutine is
					// still connecting the parent or draining the orphan pool
					if j := (k*7 + i*13 + len(order)) % 5; j > 0 {
						time.Sleep(time.Duration(j) * 700 * time.Microsecond)
					}
					bc := o.Broadcast
					if o.MixFlavour {
						bc = (k+i)%2 == 0
					}
					err := n.Deliver(b, bc, fmt.Sprintf("peer%d", i%3))
					if err != nil && err != types.ErrBlockExist {
						mu.Lock()
						res.Errs = append(res.Errs, fmt.Sprintf("concurrent deliver #%d block %d (h=%d): %v", k, i, b.Height, err))
						mu.Unlock()
					}
				}
			}(g)
		}
		// online monitor while the deliveries race: the last sequence number never goes backwards and every sequence
		// up to it is readable (a sequence record is written in the same batch as the block it describes)
		stop := make(chan struct{})
		mdone := make(chan struct{})
		go func() {
			defer close(mdone)
			bs := n.Chain.GetStore()
			prev := int64(-2)
			for {
				last, err := bs.LoadBlockLastSequence()
				if err == nil {
					res.SeqObs++
					if last < prev {
						res.SeqProblems = append(res.SeqProblems, fmt.Sprintf("during concurrent delivery: last sequence went backwards %d -> %d", prev, last))
					}
					if last >= 0 {
						if it, err := bs.GetBlockSequence(last); err != nil || it == nil {
							res.SeqProblems = append(res.SeqProblems, fmt.Sprintf("during concurrent delivery: last sequence %d announced but not readable: %v", last, err))
						}
					}
					prev = last
				}
				select {
				case <-stop:
					return
				default:
					runtime.Gosched()
				}
			}
		}()
		wg.Wait()
		close(stop)
		<-mdone
		order = nil
	}
	var tail []int
	if o.ConcTail > 0 && o.ConcTail < len(order) && o.Conc <= 1 {
		tail = order[len(order)-o.ConcTail:]
		order = order[:len(order)-o.ConcTail]
	}
	for k, i := range order {
		b := t.Block(i)
		bc := o.Broadcast
		if o.MixFlavour {
			bc = (k+i)%2 == 0
		}
		err := n.Deliver(b, bc, fmt.Sprintf("peer%d", i%3))
		if err != nil && err != types.ErrBlockExist {
			res.Errs = append(res.Errs, fmt.Sprintf("deliver #%d block %d (h=%d): %v", k, i, b.Height, err))
		}
		h, _ := hex.DecodeString(t.Hashes[i])
		if n.Chain.GetOrphanPool().IsKnownOrphan(h) {
			res.Orphans++
		}
		if o.CheckSeqEachStep {
			p, ls := CheckSeqNow(n)
			res.SeqObs++
			for _, s := range p {
				res.SeqProblems = append(res.SeqProblems, fmt.Sprintf("after delivery #%d (block %d): %s", k, i, s))
			}
			if ls < lastSeq {
				res.SeqProblems = append(res.SeqProblems, fmt.Sprintf("after delivery #%d: last sequence went backwards %d -> %d", k, lastSeq, ls))
			}
			lastSeq = ls
		}
	}
	if len(tail) == 2 {
		// orphan-drain schedule: tail[1] (the held block, whose parent still waits in the orphan pool) is delivered
		// first and held at the delay point between "parent unknown" and "park in the orphan pool" until its parent
		// has been connected; tail[0] (the missing first block) is delivered meanwhile and drains the pool. The hold is
		// a scheduling delay between two critical sections, which the module's per-message goroutines can suffer.
		hold := t.Block(tail[1])
		parked := make(chan struct{})
		var once sync.Once
		var armed atomic.Bool
		armed.Store(true)
		blockchain.VerifSetDelayHook(func(point string, height int64) {
			if point != "orphan-before-add" || height != hold.Height || !armed.CompareAndSwap(true, false) {
				return
			}
			once.Do(func() { close(parked) })
			for spin := 0; spin < 20000 && n.Chain.GetBlockHeight() < hold.Height-1; spin++ {
				time.Sleep(500 * time.Microsecond)
			}
			res.Held++
		})
		done := make(chan error, 1)
		go func() { done <- n.Deliver(hold, o.Broadcast, "peer1") }()
		select {
		case <-parked:
		case err := <-done:
			done <- err
		case <-time.After(10 * time.Second):
		}
		if err := n.Deliver(t.Block(tail[0]), o.Broadcast, "peer0"); err != nil && err != types.ErrBlockExist {
			res.Errs = append(res.Errs, fmt.Sprintf("tail deliver block %d: %v", tail[0], err))
		}
		if err := <-done; err != nil && err != types.ErrBlockExist {
			res.Errs = append(res.Errs, fmt.Sprintf("held deliver block %d (h=%d): %v", tail[1], hold.Height, err))
		}
		blockchain.VerifSetDelayHook(nil)
	}
	res.Snap = TakeSnap(n, txs, addrs, o.WithDB)
	for _, s := range res.Snap.Seqs {
		if strings.HasPrefix(s, "2:") {
			res.Reorgs++
		}
	}
	return res
}

// CheckSeqNow reads the sequence log and the height index and checks the C26 statement.
func CheckSeqNow(n *node.Node) (problems []string, last int64) {
	bs := n.Chain.GetStore()
	last, err := bs.LoadBlockLastSequence()
	if err != nil {
		return []string{"LoadBlockLastSequence: " + err.Error()}, -1
	}
	var seqs []string
	for i := int64(0); i <= last; i++ {
		it, err := bs.GetBlockSequence(i)
		if err != nil || it == nil {
			seqs = append(seqs, fmt.Sprintf("missing:%v", err))
			continue
		}
		seqs = append(seqs, fmt.Sprintf("%d:%s", it.Type, hex.EncodeToString(it.Hash)))
	}
	// no record beyond last
	if it, err := bs.GetBlockSequence(last + 1); err == nil && it != nil {
		problems = append(problems, fmt.Sprintf("record exists at sequence %d beyond last sequence %d", last+1, last))
	}
	stack, p := ReplaySeqs(seqs)
	problems = append(problems, p...)
	height := n.Chain.GetBlockHeight()
	if int64(len(stack)) != height+1 {
		problems = append(problems, fmt.Sprintf("replay yields %d blocks, chain height is %d", len(stack), height))
	}
	for h := int64(0); h <= height && h < int64(len(stack)); h++ {
		hash, err := bs.GetBlockHashByHeight(h)
		if err != nil || hex.EncodeToString(hash) != stack[h] {
			problems = append(problems, fmt.Sprintf("replayed hash at height %d is %s, chain has %x (%v)", h, stack[h], hash, err))
		}
	}
	return problems, last
}

// CompareToRef checks a run's snapshot against the reference (fresh node fed only the winning branch).
// sideHashes: hex hashes of tree blocks that are not on the winning branch (their by-hash records may exist).
func CompareToRef(ref, got *Snap, sideHashes map[string]bool) (problems []string, nondeciding map[string]int) {
	nondeciding = map[string]int{}
	add := func(f string, a ...any) { problems = append(problems, fmt.Sprintf(f, a...)) }
	for _, e := range got.Errors {
		add("query surface inconsistent: %s", e)
	}
	if got.Height != ref.Height || got.TipHash != ref.TipHash {
		add("best chain tip h=%d %s, heaviest branch tip h=%d %s", got.Height, short(got.TipHash), ref.Height, short(ref.TipHash))
		return
	}
	if got.StateHash != ref.StateHash || got.LastHeader != ref.LastHeader {
		add("last header differs from reference")
	}
	for h := range ref.HashByHeight {
		if h >= len(got.HashByHeight) {
			break
		}
		if got.HashByHeight[h] != ref.HashByHeight[h] {
			add("hash at height %d: %s, reference %s", h, short(got.HashByHeight[h]), short(ref.HashByHeight[h]))
		}
		if got.Blocks[h] != ref.Blocks[h] {
			add("block detail (body/receipts) at height %d differs from reference: %s vs %s", h, got.Blocks[h], ref.Blocks[h])
		}
		if got.TD[h] != ref.TD[h] {
			add("total difficulty at height %d: %s, reference %s", h, got.TD[h], ref.TD[h])
		}
	}
	for _, k := range SortedKeys(ref.Tx) {
		if got.Tx[k] != ref.Tx[k] {
			add("tx %s lookup: %s, reference %s", short(k), got.Tx[k], ref.Tx[k])
		}
	}
	for _, k := range SortedKeys(ref.State) {
		if got.State[k] != ref.State[k] {
			add("state at tip for %s: %s, reference %s", k, got.State[k], ref.State[k])
		}
	}
	if len(ref.DB) > 0 && len(got.DB) > 0 {
		for _, k := range SortedKeys(ref.DB) {
			kb, _ := hex.DecodeString(k)
			cls := KeyClass(kb)
			if seqClass(cls) {
				continue
			}
			v, ok := got.DB[k]
			if !decidingClass(cls) {
				if !ok || v != ref.DB[k] {
					nondeciding[cls]++
				}
				continue
			}
			if !ok {
				add("db key %q (class %s) present in reference, missing here", printable(kb), cls)
			} else if v != ref.DB[k] {
				add("db key %q (class %s) value differs from reference", printable(kb), cls)
			}
		}
		for _, k := range SortedKeys(got.DB) {
			if _, ok := ref.DB[k]; ok {
				continue
			}
			kb, _ := hex.DecodeString(k)
			cls := KeyClass(kb)
			if seqClass(cls) {
				continue
			}
			// by-hash records of side-branch blocks are legitimate leftovers (pre-stored bodies/headers/TD)
			if containsSide(kb, sideHashes) {
				continue
			}
			if !decidingClass(cls) {
				nondeciding[cls]++
				continue
			}
			add("db key %q (class %s) not present in reference: stale record of a losing branch", printable(kb), cls)
		}
	}
	if len(problems) > 12 {
		problems = append(problems[:12], fmt.Sprintf("… %d more", len(problems)-12))
	}
	return
}

// decidingClass: the record classes the C25 statement names (height index, headers, bodies, transaction
// index, total difficulties, last height). Differences in other classes (address counters, fee totals,
// executor local data) are counted in the evidence but belong to C14's domain.
func decidingClass(c string) bool {
	switch c {
	case "Height:", "HH:", "Header:", "Body:", "Hash:", "TD:", "TX:", "STX:", "CHAIN-", "blockLastHeight", "Receipts:":
		return true
	}
	return false
}

func containsSide(key []byte, side map[string]bool) bool {
	for h := range side {
		raw, _ := hex.DecodeString(h)
		if len(raw) > 0 && bytes.Contains(key, raw) {
			return true
		}
	}
	return false
}

func seqClass(c string) bool {
	return c == "Seq:" || c == "HashToSeq:" || c == "LastSequence"
}

func printable(b []byte) string {
	ok := true
	for _, c := range b {
		if c < 0x20 || c > 0x7e {
			ok = false
			break
		}
	}
	if ok {
		return string(b)
	}
	// printable prefix + hex
	i := 0
	for i < len(b) && b[i] >= 0x20 && b[i] <= 0x7e {
		i++
	}
	return string(b[:i]) + "0x" + hex.EncodeToString(b[i:])
}

// KeyHistogram for debugging/evidence.
func KeyHistogram(db map[string]string) map[string]int {
	m := map[string]int{}
	for k := range db {
		kb, _ := hex.DecodeString(k)
		m[KeyClass(kb)]++
	}
	return m
}

// Permutations of n items (n small).
func Permutations(n int) [][]int {
	var res [][]int
	p := make([]int, n)
	for i := range p {
		p[i] = i
	}
	var rec func(k int)
	rec = func(k int) {
		if k == n {
			res = append(res, append([]int(nil), p...))
			return
		}
		for i := k; i < n; i++ {
			p[k], p[i] = p[i], p[k]
			rec(k + 1)
			p[k], p[i] = p[i], p[k]
		}
	}
	rec(0)
	sort.Slice(res, func(a, b int) bool {
		for i := range res[a] {
			if res[a][i] != res[b][i] {
				return res[a][i] < res[b][i]
			}
		}
		return false
	})
	return res
}
