package chainenv

import (
	"bytes"
	"crypto/sha256"
	"encoding/hex"
	"fmt"
	"os"
	"sort"
	"strings"

	"github.com/33cn/chain33/account"
	"github.com/33cn/chain33/types"
	"verifharness/node"
)

// Snap is everything observable about a node's chain: query-surface answers plus a raw DB dump.
type Snap struct {
	Height       int64             `json:"height"`
	TipHash      string            `json:"tip"`
	StateHash    string            `json:"state"`
	LastHeader   string            `json:"last_header"`
	HashByHeight []string          `json:"hash_by_height"`
	Blocks       []string          `json:"blocks"` // sha(encoded BlockDetail) per height
	TD           []string          `json:"td"`
	Tx           map[string]string `json:"tx"` // tx hash -> sha(TransactionDetail) | "absent:<err>"
	State        map[string]string `json:"state_kv"`
	DB           map[string]string `json:"db"` // hex(key) -> hex(value) (values > 64 bytes are hashed)
	LastSeq      int64             `json:"last_seq"`
	Seqs         []string          `json:"seqs"` // "<type>:<hash>"
	Errors       []string          `json:"errors,omitempty"`
}

func sha(b []byte) string {
	h := sha256.Sum256(b)
	return hex.EncodeToString(h[:12])
}

// Addrs returns every address appearing as sender or receiver in the given blocks.
func Addrs(blocks []*types.Block) []string {
	m := map[string]bool{}
	for _, b := range blocks {
		for _, tx := range b.Txs {
			m[tx.From()] = true
			m[tx.GetRealToAddr()] = true
		}
	}
	var l []string
	for a := range m {
		l = append(l, a)
	}
	sort.Strings(l)
	return l
}

// TakeSnap reads the whole query surface. txs: hashes to look up; addrs: accounts to read at the tip state.
func TakeSnap(n *node.Node, txs [][]byte, addrs []string, withDB bool) *Snap {
	s := &Snap{Tx: map[string]string{}, State: map[string]string{}, DB: map[string]string{}}
	chain := n.Chain
	bs := chain.GetStore()
	s.Height = chain.GetBlockHeight()
	hdr, err := chain.ProcGetLastHeaderMsg()
	if err != nil {
		s.Errors = append(s.Errors, "last header: "+err.Error())
	} else {
		s.LastHeader = sha(types.Encode(hdr))
		s.TipHash = hex.EncodeToString(hdr.Hash)
		s.StateHash = hex.EncodeToString(hdr.StateHash)
		if hdr.Height != s.Height {
			s.Errors = append(s.Errors, fmt.Sprintf("last header height %d != chain height %d", hdr.Height, s.Height))
		}
	}
	// nothing is indexed above the tip (a node that only ever saw the best branch has no such record)
	for h := s.Height + 1; h <= s.Height+8; h++ {
		if hash, err := bs.GetBlockHashByHeight(h); err == nil {
			s.Errors = append(s.Errors, fmt.Sprintf("height %d above the tip %d is still indexed (hash %x)", h, s.Height, hash))
		}
	}
	for h := int64(0); h <= s.Height; h++ {
		hash, err := bs.GetBlockHashByHeight(h)
		if err != nil {
			s.Errors = append(s.Errors, fmt.Sprintf("hash by height %d: %v", h, err))
			s.HashByHeight = append(s.HashByHeight, "")
			s.Blocks = append(s.Blocks, "")
			s.TD = append(s.TD, "")
			continue
		}
		s.HashByHeight = append(s.HashByHeight, hex.EncodeToString(hash))
		bd, err := chain.GetBlock(h)
		if err != nil {
			s.Errors = append(s.Errors, fmt.Sprintf("get block %d: %v", h, err))
			s.Blocks = append(s.Blocks, "")
		} else {
			if !bytes.Equal(bd.Block.Hash(n.Cfg), hash) {
				s.Errors = append(s.Errors, fmt.Sprintf("block at height %d hashes to %x, index says %x", h, bd.Block.Hash(n.Cfg), hash))
			}
			// GetBlock may answer from the recent-block cache (object as received) or from the DB (MainHash/MainHeight
			// filled in from the stored body): normalise those two fields, which carry no information on a main chain.
			nb := types.Clone(bd.Block).(*types.Block)
			nb.MainHash, nb.MainHeight = nil, 0
			entry := fmt.Sprintf("blk=%s rcpt=%s", sha(types.Encode(nb)), sha(types.Encode(&types.BlockDetail{Receipts: bd.Receipts})))
			// persisted form
			pd, err := bs.LoadBlock(h, hash)
			if err != nil || pd == nil {
				s.Errors = append(s.Errors, fmt.Sprintf("persisted block %d unreadable: %v", h, err))
			} else {
				entry += fmt.Sprintf(" stored=%s/%s", sha(types.Encode(pd.Block)), sha(types.Encode(&types.BlockDetail{Receipts: pd.Receipts})))
			}
			s.Blocks = append(s.Blocks, entry)
		}
		if os.Getenv("VERIF_DEBUG_BLOCKS") != "" && len(s.Blocks) > 0 {
			s.Blocks[len(s.Blocks)-1] += " " + hex.EncodeToString(types.Encode(bd.Block))
		}
		td, err := bs.GetTdByBlockHash(hash)
		if err != nil || td == nil {
			s.Errors = append(s.Errors, fmt.Sprintf("td of height %d: %v", h, err))
			s.TD = append(s.TD, "")
		} else {
			s.TD = append(s.TD, td.String())
		}
		// by-hash lookups agree with by-height
		bh, err := chain.ProcGetBlockByHashMsg(hash)
		if err != nil || bh == nil || bh.Block.Height != h {
			s.Errors = append(s.Errors, fmt.Sprintf("block by hash at height %d: %v", h, err))
		}
	}
	for _, th := range txs {
		d, err := chain.ProcQueryTxMsg(th)
		if err != nil || d == nil {
			s.Tx[hex.EncodeToString(th)] = "absent"
		} else {
			s.Tx[hex.EncodeToString(th)] = fmt.Sprintf("h%d.i%d.%s", d.Height, d.Index, sha(types.Encode(d)))
		}
	}
	if hdr != nil && len(addrs) > 0 {
		acc := account.NewCoinsAccount(n.Cfg)
		get := &types.StoreGet{StateHash: hdr.StateHash}
		for _, a := range addrs {
			get.Keys = append(get.Keys, acc.AccountKey(a))
		}
		vals, err := n.API.StoreGet(get)
		if err != nil {
			s.Errors = append(s.Errors, "state read at tip: "+err.Error())
		} else {
			for i, v := range vals.Values {
				s.State[addrs[i]] = hex.EncodeToString(v)
			}
		}
	}
	seq, err := bs.LoadBlockLastSequence()
	s.LastSeq = seq
	if err == nil {
		for i := int64(0); i <= seq; i++ {
			it, err := bs.GetBlockSequence(i)
			if err != nil || it == nil {
				s.Seqs = append(s.Seqs, fmt.Sprintf("missing:%v", err))
			} else {
				s.Seqs = append(s.Seqs, fmt.Sprintf("%d:%s", it.Type, hex.EncodeToString(it.Hash)))
			}
		}
	} else {
		s.LastSeq = -1
	}
	if withDB {
		it := chain.GetDB().Iterator(nil, types.EmptyValue, false)
		for it.Rewind(); it.Valid(); it.Next() {
			k, v := it.Key(), it.Value()
			val := hex.EncodeToString(v)
			if len(v) > 64 {
				val = "#" + sha(v)
			}
			s.DB[hex.EncodeToString(k)] = val
		}
		it.Close()
	}
	return s
}

// ReplaySeqs replays add/del records into a stack; returns the resulting hash list (index = height-? ) and problems.
func ReplaySeqs(seqs []string) (stack []string, problems []string) {
	for i, s := range seqs {
		parts := strings.SplitN(s, ":", 2)
		if len(parts) != 2 || parts[0] == "missing" {
			problems = append(problems, fmt.Sprintf("sequence %d missing (%s)", i, s))
			continue
		}
		switch parts[0] {
		case "1": // AddBlock
			stack = append(stack, parts[1])
		case "2": // DelBlock
			if len(stack) == 0 || stack[len(stack)-1] != parts[1] {
				problems = append(problems, fmt.Sprintf("sequence %d deletes %s which is not the replayed tip", i, parts[1]))
			} else {
				stack = stack[:len(stack)-1]
			}
		default:
			problems = append(problems, fmt.Sprintf("sequence %d has unknown type %s", i, parts[0]))
		}
	}
	return
}

// keyClass gives a coarse class for a raw DB key (for diffs and for allowed-extra rules).
func KeyClass(k []byte) string {
	s := string(k)
	for _, p := range []string{"Body:", "Header:", "HH:", "Hash:", "TD:", "Height:", "Seq:", "HashToSeq:", "LastSequence", "blockLastHeight",
		"TX:", "STX:", "LODB-", "Receipts:", "TotalFeeKey:", "TotalFee", "AddrTxsCount:", "TxAddrHash:", "TxAddrDirHash:", ".-mvcc-.", "CHAIN-", "Ver", "push2subscribe:", "lastSeqNumPrefix:"} {
		if strings.HasPrefix(s, p) {
			return p
		}
	}
	if i := strings.IndexAny(s, ":-"); i > 0 && i < 24 {
		return s[:i+1]
	}
	if len(s) > 12 {
		return "?" + hex.EncodeToString(k[:6])
	}
	return "?" + hex.EncodeToString(k)
}

func short(s string) string {
	if len(s) > 10 {
		return s[:10]
	}
	return s
}
