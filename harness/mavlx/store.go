package mavlx

import (
	"bytes"
	"crypto/sha256"
	"encoding/binary"
	"encoding/json"
	"fmt"
	"os"

	"github.com/33cn/chain33/common/log/log15"
	"github.com/33cn/chain33/system/store/mavl"
	mavldb "github.com/33cn/chain33/system/store/mavl/db"
	"github.com/33cn/chain33/types"
)

// Cfg is one combination of the mavl store's sub-options.
type Cfg struct {
	Name    string `json:"name"`
	Prefix  bool   `json:"enableMavlPrefix"`
	MVCC    bool   `json:"enableMVCC"`
	Prune   bool   `json:"enableMavlPrune"`
	PruneH  int32  `json:"pruneHeight"`
	MemTree bool   `json:"enableMemTree"`
	MemVal  bool   `json:"enableMemVal"`
	TkLen   int32  `json:"tkCloseCacheLen"`
}

var (
	CfgPlain   = Cfg{Name: "plain"}
	CfgPrefix  = Cfg{Name: "prefix", Prefix: true}
	CfgPrune   = Cfg{Name: "prefix+prune", Prefix: true, Prune: true} // pruneHeight 0: no pruning run is ever started
	CfgMem     = Cfg{Name: "memtree", MemTree: true, TkLen: 64}
	CfgMemVal  = Cfg{Name: "memtree+memval", MemTree: true, MemVal: true, TkLen: 64}
	CfgMVCC    = Cfg{Name: "mvcc", MVCC: true}
	CfgPfxMem  = Cfg{Name: "prefix+memtree+memval", Prefix: true, MemTree: true, MemVal: true, TkLen: 64}
	ConfigsC01 = []Cfg{CfgPlain, CfgPrefix, CfgPrune, CfgMemVal}
	ConfigsC02 = []Cfg{CfgPlain, CfgPrefix, CfgPrune, CfgMem, CfgMemVal, CfgMVCC}
)

func CfgByName(n string) Cfg {
	for _, c := range []Cfg{CfgPlain, CfgPrefix, CfgPrune, CfgMem, CfgMemVal, CfgMVCC, CfgPfxMem} {
		if c.Name == n {
			return c
		}
	}
	panic("unknown cfg " + n)
}

// TreeCfg mirrors what mavl.New derives from the sub-options.
func (c Cfg) TreeCfg() *mavldb.TreeConfig {
	return &mavldb.TreeConfig{EnableMavlPrefix: c.Prefix || c.Prune, EnableMVCC: c.MVCC, EnableMavlPrune: c.Prune,
		PruneHeight: c.PruneH, EnableMemTree: c.MemTree, EnableMemVal: c.MemVal, TkCloseCacheLen: c.TkLen}
}

func (c Cfg) sub() []byte {
	b, _ := json.Marshal(c)
	return b
}

// Quiet silences chain33 logging (the store logs every failed verification).
func Quiet() { log15.Root().SetHandler(log15.DiscardHandler()) }

// Open opens (or reopens) the real mavl store on a LevelDB under dir.
func Open(dir string, c Cfg) *mavl.Store {
	os.MkdirAll(dir, 0o755)
	return mavl.New(&types.Store{Name: "mavl", Driver: "leveldb", DbPath: dir, DbCache: 4}, c.sub(), nil).(*mavl.Store)
}

// EmptyRoot is the root of the empty state.
var EmptyRoot = make([]byte, 32)

func ToKV(kvs []KV) []*types.KeyValue {
	out := make([]*types.KeyValue, len(kvs))
	for i, kv := range kvs {
		out[i] = &types.KeyValue{Key: kv.K, Value: kv.V}
	}
	return out
}

// ---------------------------------------------------------------------------------------------
// independent reference: persistent AVL tree with the IAVL split-key convention (inner key = smallest
// key of the right subtree) and a hand-written encoder of the hashed records.

type RNode struct {
	Key, Value []byte
	H, Size    int32
	L, R       *RNode
	hash       []byte
}

func pbBytes(b []byte, tag byte, v []byte) []byte {
	if len(v) == 0 {
		return b
	}
	b = append(b, tag)
	b = binary.AppendUvarint(b, uint64(len(v)))
	return append(b, v...)
}

func pbInt(b []byte, tag byte, v int32) []byte {
	if v == 0 {
		return b
	}
	b = append(b, tag)
	return binary.AppendUvarint(b, uint64(int64(v)))
}

// LeafHash = sha256(proto{1:key,2:value,3:height=0,4:size=1}).
func LeafHash(k, v []byte) []byte {
	var b []byte
	b = pbBytes(b, 0x0a, k)
	b = pbBytes(b, 0x12, v)
	b = pbInt(b, 0x20, 1)
	h := sha256.Sum256(b)
	return h[:]
}

// InnerHash = sha256(proto{1:left,2:right,3:height,4:size}) over the bare 32-byte child hashes.
func InnerHash(l, r []byte, height, size int32) []byte {
	var b []byte
	b = pbBytes(b, 0x0a, l)
	b = pbBytes(b, 0x12, r)
	b = pbInt(b, 0x18, height)
	b = pbInt(b, 0x20, size)
	h := sha256.Sum256(b)
	return h[:]
}

func (n *RNode) Hash() []byte {
	if n == nil {
		return nil
	}
	if n.hash == nil {
		if n.H == 0 {
			n.hash = LeafHash(n.Key, n.Value)
		} else {
			n.hash = InnerHash(n.L.Hash(), n.R.Hash(), n.H, n.Size)
		}
	}
	return n.hash
}

func rmax(a, b int32) int32 {
	if a > b {
		return a
	}
	return b
}

func mk(key []byte, l, r *RNode) *RNode {
	return &RNode{Key: key, L: l, R: r, H: rmax(l.H, r.H) + 1, Size: l.Size + r.Size}
}

func rotR(n *RNode) *RNode { l := n.L; return mk(l.Key, l.L, mk(n.Key, l.R, n.R)) }
func rotL(n *RNode) *RNode { r := n.R; return mk(r.Key, mk(n.Key, n.L, r.L), r.R) }

func rbalance(n *RNode) *RNode {
	b := n.L.H - n.R.H
	if b > 1 {
		if n.L.L.H-n.L.R.H >= 0 {
			return rotR(n)
		}
		return rotR(mk(n.Key, rotL(n.L), n.R))
	}
	if b < -1 {
		if n.R.L.H-n.R.R.H <= 0 {
			return rotL(n)
		}
		return rotL(mk(n.Key, n.L, rotR(n.R)))
	}
	return n
}

// RefSet returns the tree after writing k=v (n may be nil); the old tree is untouched.
func RefSet(n *RNode, k, v []byte) *RNode {
	leaf := &RNode{Key: k, Value: v, Size: 1}
	if n == nil {
		return leaf
	}
	if n.H == 0 {
		switch c := bytes.Compare(k, n.Key); {
		case c < 0:
			return mk(n.Key, leaf, n)
		case c == 0:
			return leaf
		default:
			return mk(k, n, leaf)
		}
	}
	if bytes.Compare(k, n.Key) < 0 {
		return rbalance(mk(n.Key, RefSet(n.L, k, v), n.R))
	}
	return rbalance(mk(n.Key, n.L, RefSet(n.R, k, v)))
}

// RefRoot is the root hash of the reference tree (nil for the empty tree).
func RefRoot(n *RNode) []byte { return n.Hash() }

// MaxAVLHeight is the exact AVL height bound for n leaves (leaf height 0, every inner node has two
// children): a tree of height h has at least Fib(h+2) leaves (1,2,3,5,8,...).
func MaxAVLHeight(n int) int {
	if n <= 1 {
		return 0
	}
	a, b := 1, 2 // min leaves for height 0, 1
	h := 0
	for b <= n {
		a, b = b, a+b
		h++
	}
	return h
}

// Short renders a key for messages.
func Short(k []byte) string {
	if len(k) > 24 {
		return fmt.Sprintf("%x…(%d)", k[:24], len(k))
	}
	return fmt.Sprintf("%x", k)
}
