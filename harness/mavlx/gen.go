// Package mavlx holds what the mavl state-store checks (C01, C02, C03) share: sub-option
// configurations, the history generator, the versioned-map reference model, an independent
// reference AVL/Merkle hasher and helpers to open the real store.
package mavlx

import (
	"bytes"
	"encoding/binary"
	"fmt"
	"sort"

	"verifharness/lib"
)

// KV is one write.
type KV struct {
	K []byte `json:"k"`
	V []byte `json:"v"`
}

// Batch is one step of a history: a list of writes (or removals) applied to an earlier version.
type Batch struct {
	Parent int      `json:"parent"`        // version index the batch extends (0 = empty state)
	Op     string   `json:"op"`            // "set" | "memset" | "del"
	Sync   bool     `json:"sync,omitempty"`
	KV     []KV     `json:"kv,omitempty"`  // ordered writes (op set/memset)
	Del    [][]byte `json:"del,omitempty"` // keys to remove (op del)
}

// History is a generated case; version i+1 is the result of Batches[i].
type History struct {
	Alphabet string  `json:"alphabet"`
	Batches  []Batch `json:"batches"`
}

// GenParams steers GenHistory.
type GenParams struct {
	MinBatches, MaxBatches int
	MaxBatch               int  // largest batch size
	Branch                 int  // percent of batches that extend a non-latest version
	Removes                bool // include "del" batches
	Tickets                bool // allow the ticket alphabet (closed-ticket values)
	EmptyBatches           bool // allow empty write lists on a non-empty parent (C02)
	Small                  bool // tiny key space (dense overwrites, small trees)
}

var Alphabets = []string{"asc", "desc", "zigzag", "prefix", "binary", "hash", "mixed", "ticket"}

type keyGen struct {
	rng      *lib.Rng
	alphabet string
	n        int
	base     int
	pool     [][]byte // every key produced so far (distinct)
	seen     map[string]bool
}

var prefixStems = []string{"mavl-coins-bty-", "mavl-coins-bty-exec-", "mavl-", "mavl-token-", "m", "LODB-", "mavl-coins-bty-exec-1", ""}
var binAlphabet = []byte{0x00, 0x01, 0x7f, 0x80, 0xff, 'a', 'b', 0xfe}

func (g *keyGen) fresh() []byte {
	r := g.rng
	g.n++
	a := g.alphabet
	if a == "mixed" {
		a = lib.Pick(r, []string{"asc", "desc", "zigzag", "prefix", "binary", "hash", "ticket"})
	}
	switch a {
	case "asc":
		return []byte(fmt.Sprintf("k%07d", g.base+g.n))
	case "desc":
		return []byte(fmt.Sprintf("k%07d", g.base-g.n))
	case "zigzag":
		if g.n%2 == 0 {
			return []byte(fmt.Sprintf("k%07d", g.base+g.n))
		}
		return []byte(fmt.Sprintf("k%07d", g.base-g.n))
	case "prefix":
		if len(g.pool) > 0 && r.Chance(45) {
			// derive from an existing key: extension, truncation, sibling
			k := lib.Pick(r, g.pool)
			switch r.Intn(5) {
			case 0:
				return append(append([]byte{}, k...), 0x00)
			case 1:
				return append(append([]byte{}, k...), lib.Pick(r, []byte{'a', 0xff, '-', '0'}))
			case 2:
				if len(k) > 0 {
					return append([]byte{}, k[:len(k)-1]...)
				}
			case 3:
				if len(k) > 0 {
					c := append([]byte{}, k...)
					c[len(c)-1]++
					return c
				}
			case 4:
				if len(k) > 0 {
					c := append([]byte{}, k...)
					c[len(c)-1]--
					return c
				}
			}
		}
		stem := lib.Pick(r, prefixStems)
		suf := make([]byte, r.Intn(4))
		for i := range suf {
			suf[i] = lib.Pick(r, []byte("01ab-z"))
		}
		return append([]byte(stem), suf...)
	case "binary":
		k := make([]byte, r.Intn(7))
		for i := range k {
			k[i] = lib.Pick(r, binAlphabet)
		}
		return k
	case "ticket":
		return []byte(fmt.Sprintf("mavl-ticket-%s:%d:%04d", lib.Hex(r.Bytes(3)), r.Intn(4), r.Intn(10000)))
	default: // hash
		return r.Bytes(32)
	}
}

// next returns a key: mostly a new one, never nil.
func (g *keyGen) newKey() []byte {
	for try := 0; try < 20; try++ {
		k := g.fresh()
		if k == nil {
			k = []byte{}
		}
		if !g.seen[string(k)] {
			g.seen[string(k)] = true
			g.pool = append(g.pool, k)
			return k
		}
	}
	// key space exhausted for this alphabet: fall back to a unique counter key
	k := []byte(fmt.Sprintf("x%08d", g.n))
	g.seen[string(k)] = true
	g.pool = append(g.pool, k)
	return k
}

// ticketValue builds a value that the store's ticket cache path decodes (proto Ticket{ticketId=1,status=2}).
func ticketValue(r *lib.Rng, id []byte) []byte {
	status := lib.Pick(r, []int{1, 2, 3, 3, 3})
	var b []byte
	b = append(b, 0x0a, byte(len(id)))
	b = append(b, id...)
	b = append(b, 0x10, byte(status))
	if r.Bool() {
		b = append(b, 0x20)
		b = binary.AppendUvarint(b, uint64(r.Intn(1<<30)))
	}
	return b
}

func genValue(r *lib.Rng, key []byte, cur []byte, have bool) []byte {
	if bytes.HasPrefix(key, []byte("mavl-ticket-")) && len(key) < 120 && r.Chance(85) {
		return ticketValue(r, key[len("mavl-ticket-"):])
	}
	switch x := r.Intn(100); {
	case x < 6:
		return []byte{}
	case x < 12 && have:
		return append([]byte{}, cur...) // overwrite with the same value
	case x < 14:
		return r.Bytes(r.Range(300, 1500))
	case x < 30:
		return r.Bytes(r.Range(1, 3))
	default:
		return r.Bytes(r.Range(4, 40))
	}
}

func batchSize(r *lib.Rng, max int) int {
	var n int
	switch x := r.Intn(100); {
	case x < 45:
		n = r.Range(1, 8)
	case x < 78:
		n = r.Range(9, 40)
	case x < 94:
		n = r.Range(41, 120)
	default:
		n = r.Range(121, 300)
	}
	if n > max {
		n = r.Range(1, max)
	}
	return n
}

// GenHistory generates one history from rng.
func GenHistory(rng *lib.Rng, p GenParams) *History {
	alph := Alphabets
	if !p.Tickets {
		alph = Alphabets[:len(Alphabets)-1]
	}
	g := &keyGen{rng: rng, alphabet: lib.Pick(rng, alph), base: 5000000, seen: map[string]bool{}}
	h := &History{Alphabet: g.alphabet}
	nb := rng.Range(p.MinBatches, p.MaxBatches)
	// model of every version, needed to pick overwrite / delete targets that exist in the parent
	vers := []map[string][]byte{{}}
	overwritePct := rng.Range(5, 60)
	if p.Small {
		overwritePct = rng.Range(30, 80)
	}
	for i := 0; i < nb; i++ {
		parent := len(vers) - 1
		if rng.Chance(p.Branch) {
			parent = rng.Intn(len(vers))
		}
		pm := vers[parent]
		pkeys := sortedKeys(pm)
		b := Batch{Parent: parent, Op: "set"}
		if rng.Chance(45) {
			b.Op = "memset"
		}
		b.Sync = rng.Chance(5)
		if p.Removes && len(pkeys) > 0 && rng.Chance(25) {
			b.Op = "del"
			n := rng.Range(1, 1+len(pkeys)/2)
			if rng.Chance(10) {
				n = len(pkeys) // remove everything
			}
			if n > 60 && !rng.Chance(20) {
				n = rng.Range(1, 60)
			}
			nm := copyMap(pm)
			for j := 0; j < n; j++ {
				var k []byte
				switch x := rng.Intn(100); {
				case x < 84:
					k = []byte(lib.Pick(rng, pkeys))
				case x < 90: // absent key that is a proper prefix of the smallest / a random present key (or empty)
					src := pkeys[0]
					if rng.Bool() {
						src = lib.Pick(rng, pkeys)
					}
					k = []byte(src[:rng.Intn(len(src)+1)])
				case x < 94: // absent key just after a present key
					k = append([]byte(lib.Pick(rng, pkeys)), 0x00)
				default:
					k = g.newKey() // absent key
				}
				b.Del = append(b.Del, k)
				delete(nm, string(k))
			}
			h.Batches = append(h.Batches, b)
			vers = append(vers, nm)
			continue
		}
		n := batchSize(rng, p.MaxBatch)
		if p.Small {
			n = rng.Range(1, 6)
		}
		if p.EmptyBatches && len(pm) > 0 && rng.Chance(4) {
			n = 0
		}
		nm := copyMap(pm)
		for j := 0; j < n; j++ {
			var k []byte
			switch {
			case len(pkeys) > 0 && rng.Chance(overwritePct):
				k = []byte(lib.Pick(rng, pkeys)) // overwrite a key of the parent version
			case len(g.pool) > 0 && rng.Chance(15):
				k = lib.Pick(rng, g.pool) // any key ever produced (maybe of another branch)
			case len(b.KV) > 0 && rng.Chance(4):
				k = b.KV[rng.Intn(len(b.KV))].K // duplicate inside the batch
			default:
				if p.Small && len(g.pool) >= 12 {
					k = lib.Pick(rng, g.pool)
				} else {
					k = g.newKey()
				}
			}
			cur, have := nm[string(k)]
			v := genValue(rng, k, cur, have)
			b.KV = append(b.KV, KV{K: append([]byte{}, k...), V: v})
			nm[string(k)] = v
		}
		h.Batches = append(h.Batches, b)
		vers = append(vers, nm)
	}
	return h
}

func copyMap(m map[string][]byte) map[string][]byte {
	n := make(map[string][]byte, len(m)+8)
	for k, v := range m {
		n[k] = v
	}
	return n
}

func sortedKeys(m map[string][]byte) []string {
	ks := make([]string, 0, len(m))
	for k := range m {
		ks = append(ks, k)
	}
	sort.Strings(ks)
	return ks
}

// ---------------------------------------------------------------------------------------------
// versioned-map reference model

// Version is one immutable state.
type Version struct {
	M    map[string][]byte
	keys []string
}

func (v *Version) Keys() []string {
	if v.keys == nil {
		v.keys = sortedKeys(v.M)
		if v.keys == nil {
			v.keys = []string{}
		}
	}
	return v.keys
}

// Rank returns the number of keys smaller than k.
func (v *Version) Rank(k []byte) int {
	ks := v.Keys()
	return sort.SearchStrings(ks, string(k))
}

// Range returns the keys in [start,end) (or [start,end] when inclusive), nil bound = unbounded,
// in ascending or descending order.
func (v *Version) Range(start, end []byte, asc, inclusive bool) []string {
	var out []string
	for _, k := range v.Keys() {
		if start != nil && bytes.Compare([]byte(k), start) < 0 {
			continue
		}
		if end != nil {
			c := bytes.Compare([]byte(k), end)
			if c > 0 || (c == 0 && !inclusive) {
				continue
			}
		}
		out = append(out, k)
	}
	if !asc {
		for i, j := 0, len(out)-1; i < j; i, j = i+1, j-1 {
			out[i], out[j] = out[j], out[i]
		}
	}
	return out
}

// Model builds every version of h: Model(h)[0] is the empty state, [i+1] the state after batch i.
func Model(h *History) []*Version {
	vs := []*Version{{M: map[string][]byte{}}}
	for _, b := range h.Batches {
		nm := copyMap(vs[b.Parent].M)
		for _, kv := range b.KV {
			nm[string(kv.K)] = kv.V
		}
		for _, k := range b.Del {
			delete(nm, string(k))
		}
		vs = append(vs, &Version{M: nm})
	}
	return vs
}

// AllKeys returns every key mentioned anywhere in h, sorted.
func AllKeys(h *History) []string {
	m := map[string][]byte{}
	for _, b := range h.Batches {
		for _, kv := range b.KV {
			m[string(kv.K)] = nil
		}
		for _, k := range b.Del {
			m[string(k)] = nil
		}
	}
	return sortedKeys(m)
}

// Probes returns never-written keys derived from the written ones (neighbours, extensions, truncations).
func Probes(rng *lib.Rng, all []string, n int) []string {
	have := map[string]bool{}
	for _, k := range all {
		have[k] = true
	}
	out := []string{}
	add := func(k string) {
		if !have[k] {
			have[k] = true
			out = append(out, k)
		}
	}
	add("")
	add("\x00")
	add("\xff\xff\xff\xff\xff\xff\xff\xff\xff")
	for i := 0; i < n && len(all) > 0; i++ {
		k := lib.Pick(rng, all)
		switch rng.Intn(5) {
		case 0:
			add(k + "\x00")
		case 1:
			if len(k) > 0 {
				add(k[:len(k)-1])
			}
		case 2:
			if len(k) > 0 {
				b := []byte(k)
				b[len(b)-1]++
				add(string(b))
			}
		case 3:
			if len(k) > 0 {
				b := []byte(k)
				b[len(b)-1]--
				add(string(b))
			}
		case 4:
			add(string(rng.Bytes(rng.Range(1, 12))))
		}
	}
	return out
}
