module verifharness

go 1.21
