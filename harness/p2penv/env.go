// Package p2penv assembles the REAL dht p2p protocols of chain33 (system/p2p/dht/protocol/{broadcast,download,peer})
// on an in-process libp2p host on loopback, the way the repository's own tests of those packages do (protocol.P2PEnv
// with a queue, a host, pubsub, a kad routing table), together with the real mempool module and harness responders
// for the blockchain / execs / rpc topics. Other hosts of the same process play the remote peers (good, scripted or
// hostile). One node per process: the protocol event-handler table and several chain33 tables are process globals.
package p2penv

import (
	"context"
	"crypto/sha256"
	"fmt"
	"io"
	"runtime"
	"strings"
	"sync"
	"sync/atomic"
	"time"

	"github.com/33cn/chain33/client"
	clog "github.com/33cn/chain33/common/log"
	"github.com/33cn/chain33/p2p"
	"github.com/33cn/chain33/queue"
	"github.com/33cn/chain33/system/mempool"
	"github.com/33cn/chain33/system/p2p/dht/extension"
	"github.com/33cn/chain33/system/p2p/dht/manage"
	"github.com/33cn/chain33/system/p2p/dht/protocol"
	"github.com/33cn/chain33/system/p2p/dht/protocol/broadcast"
	"github.com/33cn/chain33/system/p2p/dht/protocol/download"
	peerproto "github.com/33cn/chain33/system/p2p/dht/protocol/peer"
	p2pty "github.com/33cn/chain33/system/p2p/dht/types"
	"github.com/33cn/chain33/types"
	"github.com/libp2p/go-libp2p"
	dht "github.com/libp2p/go-libp2p-kad-dht"
	"github.com/libp2p/go-libp2p/core/crypto"
	"github.com/libp2p/go-libp2p/core/host"
	"github.com/libp2p/go-libp2p/core/metrics"
	"github.com/libp2p/go-libp2p/core/peer"
	lproto "github.com/libp2p/go-libp2p/core/protocol"

	"verifharness/mpenv"
)

// Opts configures the node under test.
type Opts struct {
	LtPendTimeoutMs int64  // broadcast.ltBlockPendTimeout (0: repository default 1000 ms)
	MinLtBlockKB    int    // broadcast.minLtBlockSize (KB)
	VerLimit        string // p2p sub config verLimit
	Channel         int32
	WithPeerProto   bool // also start the peer-info protocol (periodic queries of every routing-table peer)
	WithGater       bool // install the real connection gater (blacklist enforcement) on the node's host
	Height          int64
	KeySeed         string
}

// Node is the node under test.
type Node struct {
	Opts   Opts
	Ctx    context.Context
	Cancel context.CancelFunc
	Cfg    *types.Chain33Config
	SubCfg *p2pty.P2PSubConfig
	Q      queue.Queue
	Cli    queue.Client
	API    client.QueueProtocolAPI
	Host   host.Host
	DHT    *dht.IpfsDHT
	Pubsub *extension.PubSub
	Env    *protocol.P2PEnv
	Mem    *mempool.Mempool
	Bc     *broadcast.VerifProto
	Dl     *download.Protocol
	Peers  *manage.PeerInfoManager
	Black  *manage.TimeCache
	Chain  *Chain

	evWG sync.WaitGroup
}

var logOnce sync.Once

func quiet() {
	logOnce.Do(func() {
		queue.DisableLog()
		clog.SetLogLevel("crit")
	})
}

// detReader is a deterministic byte stream for key generation.
type detReader struct {
	seed [32]byte
	n    uint64
	buf  []byte
}

func (r *detReader) Read(p []byte) (int, error) {
	for i := range p {
		if len(r.buf) == 0 {
			h := sha256.Sum256(append(r.seed[:], byte(r.n), byte(r.n>>8), byte(r.n>>16), byte(r.n>>24)))
			r.n++
			r.buf = h[:]
		}
		p[i] = r.buf[0]
		r.buf = r.buf[1:]
	}
	return len(p), nil
}

// NewKey derives a deterministic ed25519 identity.
func NewKey(name string) crypto.PrivKey {
	var rd io.Reader = &detReader{seed: sha256.Sum256([]byte("verif-p2p-key|" + name))}
	k, _, err := crypto.GenerateEd25519Key(rd)
	if err != nil {
		panic(err)
	}
	return k
}

// NewHost creates a libp2p host listening on loopback (TCP, ephemeral port).
func NewHost(name string, extra ...libp2p.Option) host.Host {
	opts := []libp2p.Option{
		libp2p.ListenAddrStrings("/ip4/127.0.0.1/tcp/0"),
		libp2p.Identity(NewKey(name)),
		libp2p.DisableRelay(),
		libp2p.Ping(false),
		libp2p.ResourceManager(nil2rm()),
	}
	opts = append(opts, extra...)
	h, err := libp2p.New(opts...)
	if err != nil {
		panic(fmt.Sprintf("p2penv: libp2p.New: %v", err))
	}
	return h
}

const dhtProtoID = "/%s-%d/kad/1.0.0"

// NewNode builds the node: host, pubsub, routing table, managers, the three protocols, mempool, responders and the
// "p2p" event dispatcher (same dispatch rule as dht.P2P.handleP2PEvent).
func NewNode(o Opts) *Node {
	quiet()
	if o.KeySeed == "" {
		o.KeySeed = "node"
	}
	cfgStr := strings.Replace(mpenv.CfgString(mpenv.Opts{}), "[p2p]\nenable=false", "[p2p]\ntypes=[\"dht\"]\nenable=true", 1)
	if !strings.Contains(cfgStr, "types=[\"dht\"]") {
		panic("p2penv: p2p.types substitution failed")
	}
	cfg := types.NewChain33Config(cfgStr)
	n := &Node{Opts: o, Cfg: cfg}
	n.Ctx, n.Cancel = context.WithCancel(context.Background())
	n.SubCfg = &p2pty.P2PSubConfig{Channel: o.Channel, VerLimit: o.VerLimit, IsFullNode: true}
	n.SubCfg.Broadcast.LtBlockPendTimeout = o.LtPendTimeoutMs
	n.SubCfg.Broadcast.MinLtBlockSize = o.MinLtBlockKB
	n.Chain = newChain(cfg, o.Height)

	n.Q = queue.New("channel")
	n.Q.SetConfig(cfg)
	n.Cli = n.Q.Client()
	n.startResponders()
	n.startMempool()

	n.Black = manage.NewTimeCache(n.Ctx, time.Minute*5)
	tracker := metrics.NewBandwidthCounter()
	hopts := []libp2p.Option{libp2p.BandwidthReporter(tracker)}
	if o.WithGater {
		hopts = append(hopts, libp2p.ConnectionGater(manage.NewConnGater(&n.Host, 0, n.Black, nil)))
	}
	n.Host = NewHost(o.KeySeed, hopts...)
	var err error
	n.Pubsub, err = extension.NewPubSub(n.Ctx, n.Host, &n.SubCfg.PubSub)
	if err != nil {
		panic(err)
	}
	n.DHT, err = dht.New(n.Ctx, n.Host, dht.V1ProtocolOverride(lproto.ID(fmt.Sprintf(dhtProtoID, cfg.GetTitle(), n.SubCfg.Channel))),
		dht.RoutingTableRefreshPeriod(time.Minute), dht.Mode(dht.ModeServer))
	if err != nil {
		panic(err)
	}
	n.Peers = manage.NewPeerInfoManager(n.Ctx, n.Host, n.Q.Client())
	mgr := p2p.NewP2PMgr(cfg)
	mgr.Client = n.Q.Client()
	mgr.SysAPI, _ = client.New(mgr.Client, nil)
	n.API = mgr.SysAPI
	n.Env = &protocol.P2PEnv{
		Ctx:             n.Ctx,
		ChainCfg:        cfg,
		SubConfig:       n.SubCfg,
		API:             mgr.SysAPI,
		QueueClient:     n.Q.Client(),
		Host:            n.Host,
		P2PManager:      mgr,
		PeerInfoManager: n.Peers,
		ConnManager:     manage.NewConnManager(n.Ctx, n.Host, n.DHT.RoutingTable(), tracker, n.SubCfg),
		ConnBlackList:   n.Black,
		Pubsub:          n.Pubsub,
		RoutingTable:    n.DHT.RoutingTable(),
	}
	protocol.ClearEventHandler()
	n.Bc = broadcast.VerifNewProtocol(n.Env)
	n.Dl = download.VerifNewProtocol(n.Env)
	if o.WithPeerProto {
		peerproto.InitProtocol(n.Env)
	}
	n.startDispatch()
	return n
}

// startDispatch serves the "p2p" topic like dht.P2P.handleP2PEvent.
func (n *Node) startDispatch() {
	cli := n.Q.Client()
	cli.Sub("p2p")
	workers := runtime.NumCPU()
	if workers < 2 {
		workers = 2
	}
	for i := 0; i < workers; i++ {
		go func() {
			for msg := range cli.Recv() {
				handler := protocol.GetEventHandler(msg.Ty)
				if handler == nil {
					continue
				}
				if handler.Inline {
					handler.CallBack(msg)
					continue
				}
				n.evWG.Add(1)
				go func(m *queue.Message) {
					defer n.evWG.Done()
					handler.CallBack(m)
				}(msg)
			}
		}()
	}
}

// P2PEvent delivers an event to the p2p topic (what blockchain / mempool / rpc do).
func (n *Node) P2PEvent(ty int64, data interface{}, wait bool) (*queue.Message, error) {
	msg := n.Cli.NewMessage("p2p", ty, data)
	if err := n.Cli.Send(msg, wait); err != nil {
		return nil, err
	}
	if !wait {
		return nil, nil
	}
	return n.Cli.WaitTimeout(msg, 60*time.Second)
}

// CallHandler runs a registered event handler synchronously on the caller's goroutine (returns when it returns).
func (n *Node) CallHandler(ty int64, data interface{}) *queue.Message {
	msg := n.Cli.NewMessage("p2p", ty, data)
	h := protocol.GetEventHandler(ty)
	if h == nil {
		panic(fmt.Sprintf("p2penv: no handler for event %d", ty))
	}
	h.CallBack(msg)
	return msg
}

// SetCurrentHeight tells the broadcast protocol the local chain height (EventAddBlock) and moves the fake chain.
func (n *Node) SetCurrentHeight(h int64) {
	n.Chain.SetHeight(h)
	n.CallHandler(types.EventAddBlock, &types.Block{Height: h})
}

func (n *Node) startMempool() {
	mcfg := n.Cfg.GetModuleConfig().Mempool
	mcfg.PoolCacheSize = 40960
	mcfg.MaxTxNumPerAccount = 100000
	mem := mempool.NewMempool(mcfg)
	mem.SetQueueCache(mempool.NewSimpleQueue(mempool.SubConfig{PoolCacheSize: mcfg.PoolCacheSize, ProperFee: mcfg.MinTxFeeRate}))
	mem.SetQueueClient(n.Q.Client())
	mem.Wait()
	mem.VerifStopTicker()
	n.Mem = mem
}

// Connect dials the node from h and waits until both sides see the connection.
func (n *Node) Connect(h host.Host) error {
	ctx, cancel := context.WithTimeout(n.Ctx, 20*time.Second)
	defer cancel()
	return h.Connect(ctx, peer.AddrInfo{ID: n.Host.ID(), Addrs: n.Host.Addrs()})
}

// AddRouting puts a peer into the node's routing table (what the kad protocol does for a dht server peer).
func (n *Node) AddRouting(id peer.ID) { _, _ = n.DHT.RoutingTable().TryAddPeer(id, true, false) }

// SetPeerHeight records the advertised height of a peer in the real PeerInfoManager (what the peer-info
// protocol does with the peer's answer).
func (n *Node) SetPeerHeight(id peer.ID, h int64) {
	n.Peers.Refresh(&types.Peer{Name: id.Pretty(), Header: &types.Header{Height: h}})
}

// Close stops everything.
func (n *Node) Close() {
	n.Cancel()
	n.Host.Close()
	n.Mem.Close()
	n.Q.Close()
}

// ---------------------------------------------------------------------------------------------
// pool access (direct, like API.SendTx)

// SendTx submits tx to the real pool and returns its verdict.
func (n *Node) SendTx(tx *types.Transaction) (bool, string) {
	msg := n.Cli.NewMessage("mempool", types.EventTx, tx)
	if err := n.Cli.Send(msg, true); err != nil {
		return false, err.Error()
	}
	r, err := n.Cli.WaitTimeout(msg, 60*time.Second)
	if err != nil {
		return false, "watchdog:" + err.Error()
	}
	if rep, ok := r.Data.(*types.Reply); ok {
		return rep.IsOk, string(rep.Msg)
	}
	if e, ok := r.Data.(error); ok {
		return false, e.Error()
	}
	return false, fmt.Sprintf("unexpected %T", r.Data)
}

// PoolHas reports which full hashes are in the pool.
func (n *Node) PoolHas(hashes [][]byte) []bool {
	msg := n.Cli.NewMessage("mempool", types.EventCheckTxsExist, &types.ReqCheckTxsExist{TxHashes: hashes})
	if err := n.Cli.Send(msg, true); err != nil {
		return make([]bool, len(hashes))
	}
	r, err := n.Cli.WaitTimeout(msg, 60*time.Second)
	if err != nil {
		return make([]bool, len(hashes))
	}
	return r.Data.(*types.ReplyCheckTxsExist).ExistFlags
}

// PoolRemove delivers EventAddBlock to the pool for the given txs (they leave the pool) and waits for it.
func (n *Node) PoolRemove(height int64, txs []*types.Transaction) {
	n.Chain.Mu.Lock()
	for _, tx := range txs {
		n.Chain.OnChain[string(tx.Hash())] = true
	}
	n.Chain.Mu.Unlock()
	msg := n.Cli.NewMessage("mempool", types.EventAddBlock, &types.BlockDetail{Block: &types.Block{Height: height, Txs: txs}})
	_ = n.Cli.Send(msg, true)
	n.PoolHas(nil)
}

// ---------------------------------------------------------------------------------------------
// fake blockchain / execs / rpc

// Posted is one block handed to the blockchain topic.
type Posted struct {
	Seq   int64
	Ty    int64 // EventBroadcastAddBlock | EventSyncBlock
	Pid   string
	Block *types.Block
	At    time.Time
}

// Chain is the harness-owned chain model behind the blockchain topic.
type Chain struct {
	Mu      sync.Mutex
	cfg     *types.Chain33Config
	Header  types.Header
	OnChain map[string]bool
	Blocks  map[int64]*types.Block // served by EventGetBlocks
	Posted  []*Posted
	seq     int64
	notify  chan struct{}
	// Verdict decides the reply to a broadcast block (nil: accept everything).
	Verdict func(pid string, b *types.Block) *types.Reply
	NGetBlocks, NHeader, NOther int64
	// Synth: every height <= the model height that has no explicit block is served as SynthBlock(h)
	Synth bool
}

// SynthBlock is the deterministic block the fake chain holds at height h when Synth is set.
func SynthBlock(h int64) *types.Block {
	return &types.Block{Height: h, BlockTime: 1700000000 + h, ParentHash: []byte(fmt.Sprintf("synth-parent-%d", h-1)),
		StateHash: []byte(fmt.Sprintf("synth-state-%d", h)), TxHash: []byte("synth-txhash"), Difficulty: 0x1f00ffff}
}

func newChain(cfg *types.Chain33Config, h int64) *Chain {
	c := &Chain{cfg: cfg, OnChain: map[string]bool{}, Blocks: map[int64]*types.Block{}, notify: make(chan struct{}, 1)}
	c.Header.Height = h
	c.Header.BlockTime = types.Now().Unix()
	c.Header.StateHash = []byte("verif-state")
	return c
}

// SetHeight moves the model header.
func (c *Chain) SetHeight(h int64) {
	c.Mu.Lock()
	c.Header.Height = h
	c.Mu.Unlock()
}

// Snapshot returns the posted blocks with Seq > after.
func (c *Chain) Snapshot(after int64) []*Posted {
	c.Mu.Lock()
	defer c.Mu.Unlock()
	var out []*Posted
	for _, p := range c.Posted {
		if p.Seq > after {
			out = append(out, p)
		}
	}
	return out
}

// WaitPosted polls until pred finds a posted block or the watchdog expires.
func (c *Chain) WaitPosted(pred func(p *Posted) bool, d time.Duration) *Posted {
	deadline := time.Now().Add(d)
	for {
		c.Mu.Lock()
		for _, p := range c.Posted {
			if pred(p) {
				c.Mu.Unlock()
				return p
			}
		}
		c.Mu.Unlock()
		if time.Now().After(deadline) {
			return nil
		}
		select {
		case <-c.notify:
		case <-time.After(20 * time.Millisecond):
		}
	}
}

func (c *Chain) record(ty int64, pid string, b *types.Block) {
	c.Mu.Lock()
	c.seq++
	c.Posted = append(c.Posted, &Posted{Seq: c.seq, Ty: ty, Pid: pid, Block: b, At: time.Now()})
	c.Mu.Unlock()
	select {
	case c.notify <- struct{}{}:
	default:
	}
}

func (n *Node) startResponders() {
	serve := func(topic string, workers int, h func(cli queue.Client, msg *queue.Message)) {
		cli := n.Q.Client()
		cli.Sub(topic)
		for i := 0; i < workers; i++ {
			go func() {
				for msg := range cli.Recv() {
					h(cli, msg)
				}
			}()
		}
	}
	c := n.Chain
	// one worker: posted blocks are recorded in arrival order
	serve("blockchain", 1, func(cli queue.Client, msg *queue.Message) {
		switch msg.Ty {
		case types.EventGetLastHeader:
			c.Mu.Lock()
			h := &types.Header{Height: c.Header.Height, BlockTime: c.Header.BlockTime, StateHash: c.Header.StateHash}
			c.Mu.Unlock()
			atomic.AddInt64(&c.NHeader, 1)
			msg.Reply(cli.NewMessage("", types.EventHeader, h))
		case types.EventIsSync:
			msg.Reply(cli.NewMessage("", types.EventReplyIsSync, &types.IsCaughtUp{Iscaughtup: true}))
		case types.EventTxHashList:
			req := msg.Data.(*types.TxHashList)
			var dup [][]byte
			c.Mu.Lock()
			for _, h := range req.Hashes {
				if c.OnChain[string(h)] {
					dup = append(dup, h)
				}
			}
			c.Mu.Unlock()
			msg.Reply(cli.NewMessage("", types.EventTxHashListReply, &types.TxHashList{Hashes: dup}))
		case types.EventSnowmanLastChoice:
			msg.Reply(cli.NewMessage("", types.EventSnowmanLastChoice, &types.SnowChoice{}))
		case types.EventBroadcastAddBlock:
			bp, _ := msg.Data.(*types.BlockPid)
			rep := &types.Reply{IsOk: true}
			if bp != nil {
				c.record(msg.Ty, bp.Pid, bp.Block)
				if c.Verdict != nil {
					if r := c.Verdict(bp.Pid, bp.Block); r != nil {
						rep = r
					}
				}
			}
			msg.Reply(cli.NewMessage("", types.EventReply, rep))
		case types.EventSyncBlock:
			if bp, _ := msg.Data.(*types.BlockPid); bp != nil {
				c.record(msg.Ty, bp.Pid, bp.Block)
			}
		case types.EventGetBlocks:
			req, _ := msg.Data.(*types.ReqBlocks)
			atomic.AddInt64(&c.NGetBlocks, 1)
			res := &types.BlockDetails{}
			c.Mu.Lock()
			cur := c.Header.Height
			if req == nil || req.Start > cur || req.End < req.Start || req.Start < 0 {
				c.Mu.Unlock()
				// like blockchain.ProcGetBlockDetailsMsg: an error value is the reply
				msg.Reply(cli.NewMessage("", types.EventBlocks, types.ErrStartBigThanEnd))
				break
			}
			end := req.End
			if end > cur {
				end = cur
			}
			if end-req.Start > 256 {
				end = req.Start + 256
			}
			for h := req.Start; h <= end; h++ {
				if b, ok := c.Blocks[h]; ok {
					res.Items = append(res.Items, &types.BlockDetail{Block: b})
				} else if c.Synth {
					res.Items = append(res.Items, &types.BlockDetail{Block: SynthBlock(h)})
				}
			}
			c.Mu.Unlock()
			msg.Reply(cli.NewMessage("", types.EventBlocks, res))
		case marker:
			if ch, ok := msg.Data.(chan struct{}); ok {
				close(ch)
			} else {
				msg.Reply(cli.NewMessage("", marker, nil))
			}
		default:
			atomic.AddInt64(&c.NOther, 1)
		}
	})
	serve("execs", 2, func(cli queue.Client, msg *queue.Message) {
		if msg.Ty != types.EventCheckTx {
			return
		}
		req := msg.GetData().(*types.ExecTxList)
		res := &types.ReceiptCheckTxList{}
		for range req.Txs {
			res.Errs = append(res.Errs, "")
		}
		msg.Reply(cli.NewMessage("", types.EventReceiptCheckTx, res))
	})
	serve("rpc", 1, func(cli queue.Client, msg *queue.Message) {
		if msg.Ty != types.EventGetEvmNonce {
			return
		}
		req := msg.GetData().(*types.ReqEvmAccountNonce)
		msg.Reply(cli.NewMessage("", types.EventGetEvmNonce, &types.EvmAccountNonce{Addr: req.Addr}))
	})
}

const marker = int64(-424242)

// Barrier returns after every message sent to the blockchain topic before the call has been handled. The queue
// serves high-priority (synchronous) messages before low-priority (asynchronous) ones, so a marker travels on each
// lane: first the high one (round trip), then a low one behind every queued EventSyncBlock.
func (n *Node) Barrier() bool {
	msg := n.Cli.NewMessage("blockchain", marker, nil)
	if err := n.Cli.Send(msg, true); err != nil {
		return false
	}
	if _, err := n.Cli.WaitTimeout(msg, 60*time.Second); err != nil {
		return false
	}
	ch := make(chan struct{})
	low := n.Cli.NewMessage("blockchain", marker, ch)
	if err := n.Cli.Send(low, false); err != nil {
		return false
	}
	select {
	case <-ch:
		return true
	case <-time.After(120 * time.Second):
		return false
	}
}
