package p2penv

import (
	"bytes"
	"context"
	"encoding/binary"
	"fmt"
	"io"
	"sync"
	"time"

	"github.com/33cn/chain33/system/p2p/dht/protocol"
	"github.com/33cn/chain33/types"
	"github.com/golang/snappy"
	"github.com/libp2p/go-libp2p"
	dht "github.com/libp2p/go-libp2p-kad-dht"
	pubsub "github.com/libp2p/go-libp2p-pubsub"
	"github.com/libp2p/go-libp2p/core/host"
	"github.com/libp2p/go-libp2p/core/network"
	"github.com/libp2p/go-libp2p/core/peer"
	lproto "github.com/libp2p/go-libp2p/core/protocol"
)

func nil2rm() network.ResourceManager { return &network.NullResourceManager{} }

// Protocol and topic names of the node (the constants are unexported in the repository packages).
const (
	ProtoDownloadOld = "/chain33/downloadBlockReq/1.0.0"
	ProtoDownload    = "/chain33/download-block/1.0.0"
	ProtoPeerInfoOld = "/chain33/peerinfoReq/1.0.0"
	ProtoPeerInfo    = "/chain33/peer-info/1.0.0"
	ProtoVersionOld  = "/chain33/peerVersion/1.0.0"
	ProtoVersion     = "/chain33/peer-version/1.0.0"
	ProtoStatistical = "/chain33/statistical/1.0.0"

	TopicTx      = "tx/v1.0.0"
	TopicBatchTx = "batchtx/v1.0"
	TopicBlock   = "block/v1.0.0"
	TopicLtBlock = "ltblk/v1.0"
	TopicPeerPfx = "peermsg/"

	BlockReqMsgID  = 1
	BlockRespMsgID = 2
)

// PeerTopic is the per-peer message topic.
func PeerTopic(id peer.ID) string { return TopicPeerPfx + id.String() }

// MsgHeader is the legacy multicodec header every stream message starts with.
var MsgHeader = func() []byte {
	path := []byte("/protobuf/msgio")
	l := len(path) + 1
	buf := make([]byte, l+1)
	buf[0] = byte(l)
	copy(buf[1:], path)
	buf[l] = '\n'
	return buf
}()

// Frame builds header + 4-byte big-endian length (msgio) + body.
func Frame(body []byte) []byte { return FrameLen(uint64(len(body)), body) }

// FrameLen builds header + an arbitrary declared length (truncated to 32 bits) + body (declared may differ from len(body)).
func FrameLen(declared uint64, body []byte) []byte {
	var b bytes.Buffer
	b.Write(MsgHeader)
	var l [4]byte
	binary.BigEndian.PutUint32(l[:], uint32(declared))
	b.Write(l[:])
	b.Write(body)
	return b.Bytes()
}

// Snap is the pubsub payload encoding: snappy(protobuf).
func Snap(msg types.Message) []byte { return snappy.Encode(nil, types.Encode(msg)) }

// SnapRaw compresses raw bytes.
func SnapRaw(b []byte) []byte { return snappy.Encode(nil, b) }

// PeerMsg is a message received on a peer's own topic.
type PeerMsg struct {
	From  peer.ID
	MsgID int32
	Body  []byte
	At    time.Time
}

// Peer is a remote peer played by the harness: a libp2p host (+ gossipsub) in the node's process.
type Peer struct {
	Name string
	Ctx  context.Context
	Host host.Host
	PS   *pubsub.PubSub
	DHT  *dht.IpfsDHT

	mu     sync.Mutex
	topics map[string]*pubsub.Topic
	inbox  []*PeerMsg
	notify chan struct{}
}

// NewPeer creates a peer; withPubsub also starts gossipsub with the node's options.
func NewPeer(ctx context.Context, name string, withPubsub bool, extra ...libp2p.Option) *Peer {
	p := &Peer{Name: name, Ctx: ctx, topics: map[string]*pubsub.Topic{}, notify: make(chan struct{}, 1)}
	p.Host = NewHost(name, extra...)
	if withPubsub {
		ps, err := pubsub.NewGossipSub(ctx, p.Host, pubsub.WithFloodPublish(true), pubsub.WithPeerOutboundQueueSize(4096),
			pubsub.WithMaxMessageSize(types.MaxBlockSize), pubsub.WithValidateQueueSize(4096))
		if err != nil {
			panic(err)
		}
		p.PS = ps
	}
	return p
}

// StartDHT makes the peer a kad server of the node's network, so that the node's routing table accepts and keeps it
// (kad-dht drops routing-table entries of peers that do not speak its protocol).
func (p *Peer) StartDHT(n *Node) error {
	d, err := dht.New(p.Ctx, p.Host, dht.V1ProtocolOverride(lproto.ID(fmt.Sprintf(dhtProtoID, n.Cfg.GetTitle(), n.SubCfg.Channel))), dht.Mode(dht.ModeServer))
	if err != nil {
		return err
	}
	p.DHT = d
	return nil
}

// ID of the peer.
func (p *Peer) ID() peer.ID { return p.Host.ID() }

// Close the peer's host.
func (p *Peer) Close() { p.Host.Close() }

func (p *Peer) topic(name string) (*pubsub.Topic, error) {
	p.mu.Lock()
	defer p.mu.Unlock()
	if t, ok := p.topics[name]; ok {
		return t, nil
	}
	t, err := p.PS.Join(name)
	if err != nil {
		return nil, err
	}
	p.topics[name] = t
	return t, nil
}

// Join joins topics (so that the peer learns who subscribes).
func (p *Peer) Join(names ...string) error {
	for _, n := range names {
		if _, err := p.topic(n); err != nil {
			return err
		}
	}
	return nil
}

// Publish publishes a raw payload.
func (p *Peer) Publish(topic string, raw []byte) error {
	t, err := p.topic(topic)
	if err != nil {
		return err
	}
	ctx, cancel := context.WithTimeout(p.Ctx, 20*time.Second)
	defer cancel()
	return t.Publish(ctx, raw)
}

// ListenOwn subscribes to the peer's own message topic and collects what arrives.
func (p *Peer) ListenOwn() error {
	t, err := p.topic(PeerTopic(p.ID()))
	if err != nil {
		return err
	}
	sub, err := t.Subscribe(pubsub.WithBufferSize(4096))
	if err != nil {
		return err
	}
	go func() {
		for {
			m, err := sub.Next(p.Ctx)
			if err != nil {
				return
			}
			if m.ReceivedFrom == p.ID() {
				continue
			}
			raw, err := snappy.Decode(nil, m.Data)
			if err != nil {
				continue
			}
			var pm types.PeerPubSubMsg
			if types.Decode(raw, &pm) != nil {
				continue
			}
			p.mu.Lock()
			p.inbox = append(p.inbox, &PeerMsg{From: m.ReceivedFrom, MsgID: pm.MsgID, Body: pm.ProtoMsg, At: time.Now()})
			p.mu.Unlock()
			select {
			case p.notify <- struct{}{}:
			default:
			}
		}
	}()
	return nil
}

// Inbox returns a copy of the received peer messages.
func (p *Peer) Inbox() []*PeerMsg {
	p.mu.Lock()
	defer p.mu.Unlock()
	return append([]*PeerMsg(nil), p.inbox...)
}

// WaitInbox polls until pred matches a received peer message.
func (p *Peer) WaitInbox(pred func(m *PeerMsg) bool, d time.Duration) *PeerMsg {
	deadline := time.Now().Add(d)
	for {
		for _, m := range p.Inbox() {
			if pred(m) {
				return m
			}
		}
		if time.Now().After(deadline) {
			return nil
		}
		select {
		case <-p.notify:
		case <-time.After(20 * time.Millisecond):
		}
	}
}

// BlockRequests returns the heights requested from this peer (blockReqMsgID messages).
func (p *Peer) BlockRequests() []int64 {
	var out []int64
	for _, m := range p.Inbox() {
		if m.MsgID == BlockReqMsgID {
			var r types.ReqInt
			if types.Decode(m.Body, &r) == nil {
				out = append(out, r.Height)
			}
		}
	}
	return out
}

// WaitTopicLink waits until the node sees the peer on topicAtPeer (if non-empty) and the peer sees the node on
// every topic of topicsAtNode (publishing is flood-publish to the known subscribers of a topic).
func WaitTopicLink(n *Node, p *Peer, topicAtPeer string, topicsAtNode []string, d time.Duration) error {
	deadline := time.Now().Add(d)
	has := func(ids []peer.ID, id peer.ID) bool {
		for _, x := range ids {
			if x == id {
				return true
			}
		}
		return false
	}
	for {
		ok := true
		if topicAtPeer != "" && !has(n.Pubsub.ListPeers(topicAtPeer), p.ID()) {
			ok = false
		}
		for _, t := range topicsAtNode {
			if !has(p.PS.ListPeers(t), n.Host.ID()) {
				ok = false
			}
		}
		if ok {
			return nil
		}
		if time.Now().After(deadline) {
			return fmt.Errorf("pubsub link between node and %s not established within %v", p.Name, d)
		}
		time.Sleep(20 * time.Millisecond)
	}
}

// OpenStream opens a stream to the node on a protocol id.
func (p *Peer) OpenStream(to peer.ID, proto string, d time.Duration) (network.Stream, error) {
	ctx, cancel := context.WithTimeout(p.Ctx, d)
	defer cancel()
	return p.Host.NewStream(ctx, to, lproto.ID(proto))
}

// Request writes a well-formed request and reads a well-formed reply.
func (p *Peer) Request(to peer.ID, proto string, req, resp types.Message, d time.Duration) error {
	s, err := p.OpenStream(to, proto, d)
	if err != nil {
		return err
	}
	defer s.Reset()
	_ = s.SetDeadline(time.Now().Add(d))
	if req != nil {
		if err := protocol.WriteStream(req, s); err != nil {
			return err
		}
	}
	_ = s.CloseWrite()
	return protocol.ReadStream(resp, s)
}

// SendRaw opens a stream, writes the bytes, optionally half-closes, then waits until the node closes/resets its
// side (or the wait expires) and returns how many reply bytes were read.
func (p *Peer) SendRaw(to peer.ID, proto string, data []byte, closeWrite bool, wait time.Duration) (int, error) {
	s, err := p.OpenStream(to, proto, 10*time.Second)
	if err != nil {
		return 0, err
	}
	defer s.Reset()
	_ = s.SetDeadline(time.Now().Add(wait))
	if len(data) > 0 {
		if _, err := s.Write(data); err != nil {
			return 0, err
		}
	}
	if closeWrite {
		_ = s.CloseWrite()
	}
	n, _ := io.Copy(io.Discard, s)
	return int(n), nil
}
