package p2penv

import (
	"bytes"
	"fmt"
	"sync/atomic"

	"github.com/33cn/chain33/common/merkle"
	"github.com/33cn/chain33/types"

	"verifharness/mpenv"
)

// TxGen produces signed, pool-acceptable transactions; every transaction has its own sender so that per-account
// limits never interfere.
type TxGen struct {
	NS   string
	Rate int64
	n    int64
}

// NewTxGen creates a generator; ns separates key namespaces (one per child / case).
func NewTxGen(cfg *types.Chain33Config, ns string) *TxGen {
	return &TxGen{NS: ns, Rate: cfg.GetModuleConfig().Mempool.MinTxFeeRate}
}

const sink = "14KEKbYtKKQm4wMthSK9J4La4nAiidGozt"

// Tx returns a fresh signed transfer.
func (g *TxGen) Tx() *types.Transaction {
	i := atomic.AddInt64(&g.n, 1)
	k := mpenv.NewKey(g.NS, int(i), false)
	tx := mpenv.Transfer(sink, i, g.Rate*2, 0, i)
	k.Sign(tx)
	return tx
}

// Group returns a fresh group of k members: the members as they appear in a block, and the pool form (head copy
// carrying the whole group).
func (g *TxGen) Group(k int) ([]*types.Transaction, *types.Transaction) {
	var ms []*types.Transaction
	var ks []*mpenv.Key
	for j := 0; j < k; j++ {
		i := atomic.AddInt64(&g.n, 1)
		ks = append(ks, mpenv.NewKey(g.NS, int(i), false))
		ms = append(ms, mpenv.Transfer(sink, i, 0, 0, i))
	}
	grp, _ := mpenv.MakeGroup(ms, ks, g.Rate*int64(k)*2)
	fee := mpenv.GroupMinFee(grp, g.Rate) * 2
	grp, ptx := mpenv.MakeGroup(ms, ks, fee)
	return grp.Txs, ptx
}

// MakeBlock builds a block over txs (txs[0] is the miner transaction) with a correct merkle root.
func MakeBlock(cfg *types.Chain33Config, height int64, parent []byte, blockTime int64, txs []*types.Transaction) *types.Block {
	b := &types.Block{Version: 0, Height: height, BlockTime: blockTime, ParentHash: parent, StateHash: []byte(fmt.Sprintf("state-%d", height)), Difficulty: 0x1f00ffff}
	b.Txs = txs
	b.TxHash = merkle.CalcMerkleRoot(cfg, height, txs)
	return b
}

// SameBlock reports whether two blocks are identical (encoding and hash) and, if not, the first difference.
func SameBlock(cfg *types.Chain33Config, got, want *types.Block) (bool, string) {
	if got == nil {
		return false, "posted block is nil"
	}
	if len(got.Txs) != len(want.Txs) {
		return false, fmt.Sprintf("tx count %d, original %d", len(got.Txs), len(want.Txs))
	}
	for i := range want.Txs {
		if got.Txs[i] == nil {
			return false, fmt.Sprintf("tx[%d] is nil", i)
		}
		if !bytes.Equal(types.Encode(got.Txs[i]), types.Encode(want.Txs[i])) {
			pos := -1
			for j := range want.Txs {
				if bytes.Equal(got.Txs[i].Hash(), want.Txs[j].Hash()) {
					pos = j
				}
			}
			return false, fmt.Sprintf("tx[%d] differs from the original (it is the original's tx[%d]; -1 = not in the block / altered)", i, pos)
		}
	}
	if !bytes.Equal(got.Hash(cfg), want.Hash(cfg)) {
		return false, "block hash differs"
	}
	if !bytes.Equal(types.Encode(got), types.Encode(want)) {
		return false, "block encoding differs (header fields)"
	}
	return true, ""
}
