// Package vexec is a synthetic executor family registered by the harness (not part of /repo): the
// transaction payload is a tiny program that writes/reads state and local data, records what it
// observed into its receipt log and fails at a chosen point. Used by C11, C12, C13, C31.
//
//	vexec   ordinary driver (local data only through ExecLocal at block-add time)
//	vexecs  ExecLocalSameTime driver (local data read in Exec, written by ExecLocal during execution)
//	vfriend driver whose IsFriend consults a table carried by the generator (friend-approved areas)
package vexec

import (
	"encoding/json"
	"errors"
	"fmt"
	"sync"

	"github.com/33cn/chain33/common/address"
	"github.com/33cn/chain33/common/crypto"
	drivers "github.com/33cn/chain33/system/dapp"
	"github.com/33cn/chain33/types"
)

// Op is one instruction.
type Op struct {
	Op string `json:"op"` // sset sget lget llist omit fail panic
	K  string `json:"k,omitempty"`
	V  string `json:"v,omitempty"`
}

// Program is the transaction payload.
type Program struct {
	Ops       []Op     `json:"ops"`             // executed in Exec
	Local     []Op     `json:"local,omitempty"` // lset ops executed in ExecLocal (k,v) ; "lsetraw" = write through localdb.Set without reporting
	FailLocal bool     `json:"fail_local,omitempty"`
	Omit      []string `json:"omit,omitempty"` // state keys written but omitted from the receipt
	Nonce     int64    `json:"nonce"`
}

// Obs is what a transaction observed, echoed in its receipt log (type LogTy).
type Obs struct {
	Op  string   `json:"op"`
	K   string   `json:"k"`
	V   string   `json:"v,omitempty"`
	Err string   `json:"err,omitempty"`
	L   []string `json:"l,omitempty"`
}

const LogTy = 9901

var ErrProgramFail = errors.New("vexec: program failed on purpose")

type driver struct {
	drivers.DriverBase
	name     string
	sameTime bool
}

// FriendTable: key prefixes of vfriend's namespace that the given foreign executor may write.
var (
	friendMu    sync.Mutex
	friendAllow = map[string]bool{} // "<writer exec>|<key>" allowed
)

func SetFriend(writer, key string, ok bool) {
	friendMu.Lock()
	friendAllow[writer+"|"+key] = ok
	friendMu.Unlock()
}

func ResetFriends() {
	friendMu.Lock()
	friendAllow = map[string]bool{}
	friendMu.Unlock()
}

var regOnce sync.Once

// Register registers the three drivers; call after every types.NewChain33Config (AllowUserExec is reset there).
func Register(cfg *types.Chain33Config) {
	for _, n := range []string{"vexec", "vexecs", "vfriend"} {
		found := false
		for _, a := range types.AllowUserExec {
			if string(a) == n {
				found = true
			}
		}
		if !found {
			types.AllowUserExec = append(types.AllowUserExec, []byte(n))
		}
	}
	regOnce.Do(func() {
		for _, n := range []string{"vexec", "vexecs", "vfriend"} {
			name := n
			drivers.Register(cfg, name, func() drivers.Driver {
				d := &driver{name: name, sameTime: name == "vexecs"}
				d.SetChild(d)
				return d
			}, 0)
		}
	})
}

var evmOnce sync.Once

// RegisterEVMStub registers a stand-in executor under the name "evm" (the real evm executor is a plugin outside this
// repository): it makes evm-shaped and proxied transactions admissible the way they are on a chain that has the
// plugin. The stand-in itself interprets nothing (an undecodable program fails with ExecPack).
func RegisterEVMStub(cfg *types.Chain33Config) {
	found := false
	for _, a := range types.AllowUserExec {
		if string(a) == "evm" {
			found = true
		}
	}
	if !found {
		types.AllowUserExec = append(types.AllowUserExec, []byte("evm"))
	}
	evmOnce.Do(func() {
		drivers.Register(cfg, "evm", func() drivers.Driver {
			d := &driver{name: "evm"}
			d.SetChild(d)
			return d
		}, 0)
	})
}

func (d *driver) GetDriverName() string { return d.name }

func (d *driver) ExecutorOrder() int64 {
	if d.sameTime {
		return drivers.ExecLocalSameTime
	}
	return 0
}

func (d *driver) CheckTx(tx *types.Transaction, index int) error { return nil }

func (d *driver) IsFriend(myexec, writekey []byte, othertx *types.Transaction) bool {
	if d.name != "vfriend" {
		return false
	}
	friendMu.Lock()
	defer friendMu.Unlock()
	return friendAllow[string(othertx.Execer)+"|"+string(writekey)]
}

func decode(tx *types.Transaction) (*Program, error) {
	var p Program
	if err := json.Unmarshal(tx.Payload, &p); err != nil {
		return nil, err
	}
	return &p, nil
}

func (d *driver) Exec(tx *types.Transaction, index int) (*types.Receipt, error) {
	p, err := decode(tx)
	if err != nil {
		return nil, err
	}
	omit := map[string]bool{}
	for _, k := range p.Omit {
		omit[k] = true
	}
	var obs []Obs
	var kvs []*types.KeyValue
	for _, op := range p.Ops {
		switch op.Op {
		case "sset":
			if err := d.GetStateDB().Set([]byte(op.K), []byte(op.V)); err != nil {
				return nil, err
			}
			if !omit[op.K] {
				kvs = append(kvs, &types.KeyValue{Key: []byte(op.K), Value: []byte(op.V)})
			}
		case "ssetreport": // report a key in the receipt without writing through the state db
			kvs = append(kvs, &types.KeyValue{Key: []byte(op.K), Value: []byte(op.V)})
		case "sget":
			v, err := d.GetStateDB().Get([]byte(op.K))
			o := Obs{Op: "sget", K: op.K, V: string(v)}
			if err != nil {
				o.Err = err.Error()
			}
			obs = append(obs, o)
		case "lget":
			v, err := d.GetLocalDB().Get([]byte(op.K))
			o := Obs{Op: "lget", K: op.K, V: string(v)}
			if err != nil {
				o.Err = err.Error()
			}
			obs = append(obs, o)
		case "llist":
			vals, err := d.GetLocalDB().List([]byte(op.K), nil, 0, 1)
			o := Obs{Op: "llist", K: op.K}
			for _, v := range vals {
				o.L = append(o.L, string(v))
			}
			if err != nil {
				o.Err = err.Error()
			}
			obs = append(obs, o)
		case "fail":
			return nil, ErrProgramFail
		case "panic":
			panic("vexec: program panic on purpose")
		}
	}
	b, _ := json.Marshal(obs)
	return &types.Receipt{Ty: types.ExecOk, KV: kvs, Logs: []*types.ReceiptLog{{Ty: LogTy, Log: b}}}, nil
}

func (d *driver) ExecLocal(tx *types.Transaction, receipt *types.ReceiptData, index int) (*types.LocalDBSet, error) {
	p, err := decode(tx)
	if err != nil {
		return &types.LocalDBSet{}, nil
	}
	if receipt.GetTy() != types.ExecOk {
		return &types.LocalDBSet{}, nil
	}
	set := &types.LocalDBSet{}
	for _, op := range p.Local {
		switch op.Op {
		case "lset":
			set.KV = append(set.KV, &types.KeyValue{Key: []byte(op.K), Value: []byte(op.V)})
		case "lsetraw":
			if err := d.GetLocalDB().Set([]byte(op.K), []byte(op.V)); err != nil {
				return nil, err
			}
		case "lchain":
			// overwrite K and remember the value it replaces under a per-transaction side key (the way the built-in
			// executors keep "previous" rows): undoing restores exactly only in reverse order of execution
			prev := []byte("\x00absent")
			if cur, err := d.GetLocalDB().Get([]byte(op.K)); err == nil && len(cur) > 0 {
				prev = cur
			}
			set.KV = append(set.KV, &types.KeyValue{Key: []byte(op.K), Value: []byte(op.V)},
				&types.KeyValue{Key: chainPrevKey(op.K, tx), Value: prev})
		}
	}
	if p.FailLocal {
		return nil, ErrProgramFail
	}
	return set, nil
}

func (d *driver) ExecDelLocal(tx *types.Transaction, receipt *types.ReceiptData, index int) (*types.LocalDBSet, error) {
	p, err := decode(tx)
	if err != nil || receipt.GetTy() != types.ExecOk {
		return &types.LocalDBSet{}, nil
	}
	set := &types.LocalDBSet{}
	for i := len(p.Local) - 1; i >= 0; i-- {
		op := p.Local[i]
		if op.Op == "lset" {
			set.KV = append(set.KV, &types.KeyValue{Key: []byte(op.K), Value: nil})
		}
		if op.Op == "lchain" {
			prev, err := d.GetLocalDB().Get(chainPrevKey(op.K, tx))
			if err != nil || string(prev) == "\x00absent" {
				prev = nil
			}
			set.KV = append(set.KV, &types.KeyValue{Key: []byte(op.K), Value: prev}, &types.KeyValue{Key: chainPrevKey(op.K, tx), Value: nil})
		}
	}
	return set, nil
}

func chainPrevKey(k string, tx *types.Transaction) []byte {
	return []byte(fmt.Sprintf("%s-prev-%x", k, tx.Hash()[:8]))
}

// NewTx builds a signed transaction for executor execName carrying program p.
func NewTx(cfg *types.Chain33Config, execName string, p *Program, priv crypto.PrivKey, fee int64) *types.Transaction {
	b, _ := json.Marshal(p)
	tx := &types.Transaction{Execer: []byte(execName), Payload: b, Fee: fee, Nonce: p.Nonce, To: address.ExecAddress(execName), ChainID: cfg.GetChainID()}
	if fee == 0 {
		tx.Fee = 1000000
	}
	if priv != nil {
		tx.Sign(types.SECP256K1, priv)
	}
	return tx
}

// ParseObs extracts the observation log of a receipt.
func ParseObs(logs []*types.ReceiptLog) ([]Obs, bool) {
	for _, l := range logs {
		if l.Ty == LogTy {
			var o []Obs
			if err := json.Unmarshal(l.Log, &o); err != nil {
				return nil, false
			}
			return o, true
		}
	}
	return nil, false
}

func StateKey(exec, name string) string { return fmt.Sprintf("mavl-%s-%s", exec, name) }
func LocalKey(exec, name string) string { return fmt.Sprintf("LODB-%s-%s", exec, name) }
