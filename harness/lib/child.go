package lib

import (
	"bufio"
	"encoding/json"
	"fmt"
	"os"
	"os/exec"
	"path/filepath"
	"regexp"
	"runtime/debug"
	"sort"
	"strings"
	"sync"
	"sync/atomic"
	"syscall"
	"time"
)

// ---------------------------------------------------------------------------------------------
// child processes: the property binary re-executes itself with VERIF_CHILD=<mode>.

type ChildFunc func(in []byte) (any, error)

var childModes = map[string]ChildFunc{}

func RegisterChild(mode string, f ChildFunc) { childModes[mode] = f }

func runChild(mode string) {
	f := childModes[mode]
	if f == nil {
		fmt.Fprintf(os.Stderr, "unknown child mode %q\n", mode)
		os.Exit(97)
	}
	in, _ := os.ReadFile(os.Getenv("VERIF_CHILD_IN"))
	if t := os.Getenv("VERIF_TMP"); t != "" {
		os.Setenv("TMPDIR", t)
		os.Setenv("TEMP", t)
	}
	debug.SetTraceback("all")
	out, err := f(in)
	if err != nil {
		fmt.Fprintf(os.Stderr, "child error: %v\n", err)
		os.Exit(96)
	}
	b, _ := json.Marshal(out)
	if err := os.WriteFile(os.Getenv("VERIF_CHILD_OUT"), b, 0o644); err != nil {
		os.Exit(95)
	}
	os.Exit(0)
}

type ChildOpts struct {
	Race    bool          // run the -race build (VERIF_RACE_BIN)
	Timeout time.Duration // watchdog; firing => TimedOut (inconclusive unless caller decides otherwise)
	Env     []string
	Dir     string // scratch dir for this child (created); default c.Tmp/child-N
	Keep    bool   // keep Dir after the call
}

type ChildResult struct {
	Out       []byte
	ExitCode  int
	Died      bool // exit code != 0 (panic, fatal error, os.Exit)
	TimedOut  bool
	Stderr    string // tail of stderr
	Dir       string
	RaceLogs  []string
	WallMs    int64
	StderrAll string // path (only valid while Dir is kept)
}

var childSeq int64

// Child runs one child process synchronously.
func (c *Ctx) Child(mode string, input any, o ChildOpts) ChildResult {
	n := atomic.AddInt64(&childSeq, 1)
	dir := o.Dir
	if dir == "" {
		dir = filepath.Join(c.Tmp, fmt.Sprintf("child-%d", n))
	}
	os.MkdirAll(dir, 0o755)
	inPath := filepath.Join(dir, "in.json")
	outPath := filepath.Join(dir, "out.json")
	errPath := filepath.Join(dir, "stderr.txt")
	os.Remove(outPath)
	var b []byte
	switch v := input.(type) {
	case []byte:
		b = v
	default:
		b, _ = json.Marshal(input)
	}
	os.WriteFile(inPath, b, 0o644)
	bin, _ := os.Executable()
	if o.Race {
		if rb := os.Getenv("VERIF_RACE_BIN"); rb != "" {
			bin = rb
		}
	}
	cmd := exec.Command(bin)
	tmp := filepath.Join(dir, "tmp")
	os.MkdirAll(tmp, 0o755)
	cmd.Env = append(os.Environ(), "VERIF_CHILD="+mode, "VERIF_CHILD_IN="+inPath, "VERIF_CHILD_OUT="+outPath,
		"VERIF_TMP="+tmp, "TMPDIR="+tmp, "TEMP="+tmp, "GOTRACEBACK=all")
	if o.Race {
		cmd.Env = append(cmd.Env, "GORACE=halt_on_error=0 log_path="+filepath.Join(dir, "race"))
	}
	cmd.Env = append(cmd.Env, o.Env...)
	ef, _ := os.Create(errPath)
	cmd.Stdout = ef
	cmd.Stderr = ef
	cmd.SysProcAttr = &syscall.SysProcAttr{Setpgid: true}
	to := o.Timeout
	if to == 0 {
		to = 5 * time.Minute
	}
	res := ChildResult{Dir: dir, StderrAll: errPath}
	t0 := time.Now()
	if err := cmd.Start(); err != nil {
		res.Died, res.ExitCode, res.Stderr = true, -1, err.Error()
		return res
	}
	done := make(chan error, 1)
	go func() { done <- cmd.Wait() }()
	var err error
	select {
	case err = <-done:
	case <-time.After(to):
		res.TimedOut = true
		cmd.Process.Signal(syscall.SIGQUIT)
		select {
		case err = <-done:
		case <-time.After(10 * time.Second):
			syscall.Kill(-cmd.Process.Pid, syscall.SIGKILL)
			err = <-done
		}
	}
	ef.Close()
	res.WallMs = time.Since(t0).Milliseconds()
	if err != nil {
		res.Died = true
		res.ExitCode = -1
		if ee, ok := err.(*exec.ExitError); ok {
			res.ExitCode = ee.ExitCode()
		}
	}
	res.Out, _ = os.ReadFile(outPath)
	if res.Out == nil && !res.Died {
		res.Died = true
	}
	res.Stderr = tailFile(errPath, 6000)
	if o.Race {
		res.RaceLogs, _ = filepath.Glob(filepath.Join(dir, "race.*"))
	}
	if !o.Keep && o.Dir == "" && !o.Race {
		os.RemoveAll(dir)
	} else {
		os.RemoveAll(tmp)
	}
	return res
}

func tailFile(path string, n int) string {
	b, err := os.ReadFile(path)
	if err != nil {
		return ""
	}
	if len(b) > n {
		// keep the head of a panic: find first "panic:" / "fatal error:" / "DATA RACE"
		s := string(b)
		for _, m := range []string{"panic:", "fatal error:", "SIGQUIT"} {
			if i := strings.Index(s, m); i >= 0 {
				e := i + n
				if e > len(s) {
					e = len(s)
				}
				return s[i:e]
			}
		}
		return s[len(s)-n:]
	}
	return string(b)
}

// Parallel runs f(i) for i in [0,n) on w workers.
func Parallel(n, w int, f func(i int)) {
	if w < 1 {
		w = 1
	}
	var wg sync.WaitGroup
	var next int64 = -1
	for k := 0; k < w; k++ {
		wg.Add(1)
		go func() {
			defer wg.Done()
			for {
				i := int(atomic.AddInt64(&next, 1))
				if i >= n {
					return
				}
				f(i)
			}
		}()
	}
	wg.Wait()
}

// ---------------------------------------------------------------------------------------------
// race-log parsing

type RaceReport struct {
	Frames [2][]string // function@file for the two conflicting accesses (innermost first)
	Files  [2][]string // file paths per stack
	Text   string
}

var frameFileRe = regexp.MustCompile(`^\s+(/\S+\.go):(\d+)`)

// ParseRaceLogs parses GORACE log files into reports.
func ParseRaceLogs(paths []string) []RaceReport {
	var out []RaceReport
	for _, p := range paths {
		f, err := os.Open(p)
		if err != nil {
			continue
		}
		sc := bufio.NewScanner(f)
		sc.Buffer(make([]byte, 1<<20), 1<<24)
		var cur *RaceReport
		stack := -1
		var lastFn string
		flush := func() {
			if cur != nil {
				out = append(out, *cur)
			}
			cur = nil
		}
		for sc.Scan() {
			line := sc.Text()
			if strings.HasPrefix(line, "WARNING: DATA RACE") {
				flush()
				cur = &RaceReport{}
				stack = -1
				continue
			}
			if cur == nil {
				continue
			}
			if strings.HasPrefix(line, "==================") {
				continue
			}
			if len(cur.Text) < 8000 {
				cur.Text += line + "\n"
			}
			t := strings.TrimSpace(line)
			switch {
			case strings.HasPrefix(t, "Read at") || strings.HasPrefix(t, "Write at") ||
				strings.HasPrefix(t, "Previous read at") || strings.HasPrefix(t, "Previous write at") ||
				strings.HasPrefix(t, "Atomic") || strings.HasPrefix(t, "Previous atomic"):
				if stack < 1 {
					stack++
				}
			case strings.HasPrefix(t, "Goroutine ") || strings.HasPrefix(t, "Mutex ") || strings.HasPrefix(t, "Location"):
				stack = 2
			case t == "":
			default:
				if stack == 0 || stack == 1 {
					if m := frameFileRe.FindStringSubmatch(line); m != nil {
						cur.Frames[stack] = append(cur.Frames[stack], lastFn+"@"+m[1])
						cur.Files[stack] = append(cur.Files[stack], m[1])
					} else {
						lastFn = strings.TrimSuffix(t, "()")
						if i := strings.Index(lastFn, "("); i > 0 && strings.HasSuffix(lastFn, ")") {
							lastFn = lastFn[:i]
						}
					}
				}
			}
		}
		flush()
		f.Close()
	}
	return out
}

// RaceVerdict classifies reports: deciding when both stacks' innermost non-runtime frame that lies
// under repoRoot is in one of the anchored path fragments. Returns deduplicated keys.
func RaceVerdict(reports []RaceReport, anchored []string) (deciding map[string]string, other map[string]int) {
	deciding = map[string]string{}
	other = map[string]int{}
	inner := func(frames []string) string {
		for _, f := range frames {
			if strings.Contains(f, "/repo/") && !strings.Contains(f, "verif_on.go") {
				return f
			}
		}
		if len(frames) > 0 {
			return frames[0]
		}
		return "?"
	}
	isAnch := func(f string) bool {
		for _, a := range anchored {
			if strings.Contains(f, a) {
				return true
			}
		}
		return false
	}
	for _, r := range reports {
		a, b := inner(r.Frames[0]), inner(r.Frames[1])
		ks := []string{a, b}
		sort.Strings(ks)
		key := ks[0] + " <-> " + ks[1]
		if isAnch(a) && isAnch(b) {
			if _, ok := deciding[key]; !ok {
				deciding[key] = r.Text
			}
		} else {
			other[key]++
		}
	}
	return
}
