// Package lib is the shared runtime of the verification harness: PRNG, case accounting,
// evidence writer, violation / known-finding reporting, child-process supervisor.
package lib

import (
	"crypto/sha256"
	"encoding/hex"
	"encoding/json"
	"fmt"
	"os"
	"path/filepath"
	"regexp"
	"sort"
	"strconv"
	"strings"
	"sync"
	"time"
)

// ---------------------------------------------------------------------------------------------
// PRNG (splitmix64): deterministic, seedable, cheap to fork per case.

type Rng struct{ s uint64 }

func NewRng(seed uint64) *Rng { return &Rng{s: seed} }

func (r *Rng) U64() uint64 {
	r.s += 0x9e3779b97f4a7c15
	z := r.s
	z = (z ^ (z >> 30)) * 0xbf58476d1ce4e5b9
	z = (z ^ (z >> 27)) * 0x94d049bb133111eb
	return z ^ (z >> 31)
}

// Intn returns a value in [0,n). n<=0 returns 0.
func (r *Rng) Intn(n int) int {
	if n <= 0 {
		return 0
	}
	return int(r.U64() % uint64(n))
}

// Range returns a value in [lo,hi].
func (r *Rng) Range(lo, hi int) int {
	if hi <= lo {
		return lo
	}
	return lo + r.Intn(hi-lo+1)
}
func (r *Rng) Bool() bool        { return r.U64()&1 == 1 }
func (r *Rng) Chance(p int) bool { return r.Intn(100) < p } // p percent
func (r *Rng) Int63() int64      { return int64(r.U64() >> 1) }
func (r *Rng) Bytes(n int) []byte {
	b := make([]byte, n)
	for i := range b {
		b[i] = byte(r.U64())
	}
	return b
}
func (r *Rng) Fork() *Rng { return NewRng(r.U64()) }
func (r *Rng) Perm(n int) []int {
	p := make([]int, n)
	for i := range p {
		p[i] = i
	}
	for i := n - 1; i > 0; i-- {
		j := r.Intn(i + 1)
		p[i], p[j] = p[j], p[i]
	}
	return p
}

// Pick returns one element of a non-empty slice.
func Pick[T any](r *Rng, xs []T) T { return xs[r.Intn(len(xs))] }

// ---------------------------------------------------------------------------------------------

// Finding is one entry of /verif/known_findings.json.
type Finding struct {
	Property    string `json:"property"`
	ID          string `json:"id"`
	Status      string `json:"status"` // "known" | "fixed"
	Shape       string `json:"shape"`  // regexp matched (anchored) against a witness shape
	Description string `json:"description"`
	Commit      string `json:"commit,omitempty"`
}

type Ctx struct {
	Prop    string
	Tier    string // quick | thorough
	Seed    int64
	Level   string
	Replay  string // path of replay file when replaying, else ""
	OnlyIdx int    // -1 or the only case index to execute (replay)
	Root    string // /verif
	Out     string // where evidence/ and replay/ are written (Root unless VERIF_OUT is set: scratch-copy runs)
	Tmp     string // scratch dir (removed at exit)

	start time.Time
	mu    sync.Mutex

	evaluations int
	distinct    map[string]struct{}
	samples     []any
	fallback    any // first sample seen (used when no non-trivial case supplied one)
	counters    map[string]int64
	sets        map[string]map[string]struct{}
	extra       map[string]any
	rule        string
	assumptions []string
	exhaustive  bool

	violations   []violation
	known        map[string]int // finding id -> count
	knownMsg     map[string]string
	inconclusive []string
	findings     []Finding
	minEvents    map[string]int64
}

type violation struct {
	Msg    string
	Replay string
}

func envInt(name string, def int64) int64 {
	if v := os.Getenv(name); v != "" {
		if n, err := strconv.ParseInt(v, 10, 64); err == nil {
			return n
		}
	}
	return def
}

// Main is the entry point of every property binary.
//
//	usage: cNN [quick|thorough] [--replay file]
//
// When VERIF_CHILD is set the process is a child: the registered child handler runs instead.
func Main(prop, level string, run func(c *Ctx)) {
	if mode := os.Getenv("VERIF_CHILD"); mode != "" {
		runChild(mode)
		return
	}
	c := &Ctx{Prop: prop, Level: level, Tier: "quick", OnlyIdx: -1,
		distinct: map[string]struct{}{}, counters: map[string]int64{}, sets: map[string]map[string]struct{}{},
		extra: map[string]any{}, known: map[string]int{}, knownMsg: map[string]string{}, minEvents: map[string]int64{},
		start: time.Now()}
	args := os.Args[1:]
	for i := 0; i < len(args); i++ {
		switch args[i] {
		case "quick", "thorough":
			c.Tier = args[i]
		case "--replay":
			if i+1 < len(args) {
				c.Replay = args[i+1]
				i++
			}
		}
	}
	if t := os.Getenv("VERIF_TIER"); t == "quick" || t == "thorough" {
		if len(args) == 0 {
			c.Tier = t
		}
	}
	c.Seed = envInt("VERIF_SEED", 1)
	c.Root = os.Getenv("VERIF_ROOT")
	if c.Root == "" {
		c.Root = "/verif"
	}
	c.Out = os.Getenv("VERIF_OUT")
	if c.Out == "" {
		c.Out = c.Root
	}
	c.Tmp = os.Getenv("VERIF_TMP")
	if c.Tmp == "" {
		c.Tmp = filepath.Join("/var/tmp", fmt.Sprintf("verif-%s-%d", prop, os.Getpid()))
	}
	os.MkdirAll(c.Tmp, 0o755)
	os.Setenv("TMPDIR", c.Tmp)
	os.Setenv("TEMP", c.Tmp)
	if c.Replay != "" {
		var rp struct {
			Seed  int64  `json:"seed"`
			Tier  string `json:"tier"`
			Index int    `json:"index"`
		}
		b, err := os.ReadFile(c.Replay)
		if err != nil || json.Unmarshal(b, &rp) != nil {
			fmt.Printf("INCONCLUSIVE property=%s cannot read replay file %s\n", prop, c.Replay)
			os.Exit(2)
		}
		c.Seed, c.OnlyIdx = rp.Seed, rp.Index
		if rp.Tier != "" {
			c.Tier = rp.Tier
		}
	}
	c.loadFindings()
	code := 0
	func() {
		defer func() {
			if os.Getenv("VERIF_KEEP_TMP") == "" {
				os.RemoveAll(c.Tmp)
			}
		}()
		run(c)
		code = c.finish()
	}()
	os.Exit(code)
}

func (c *Ctx) loadFindings() {
	b, _ := os.ReadFile(filepath.Join(c.Root, "known_findings.json"))
	c.addFindings(b)
	// per-property staging files (merged into known_findings.json by tools/merge_findings.py)
	more, _ := filepath.Glob(filepath.Join(c.Root, "known_findings.d", "*.json"))
	for _, p := range more {
		if b, err := os.ReadFile(p); err == nil {
			c.addFindings(b)
		}
	}
}

func (c *Ctx) addFindings(b []byte) {
	var all struct {
		Findings []Finding `json:"findings"`
	}
	if json.Unmarshal(b, &all) != nil {
		return
	}
	for _, f := range all.Findings {
		if f.Property == c.Prop && f.Status == "known" {
			c.findings = append(c.findings, f)
		}
	}
}

// Quick reports whether this is the quick tier.
func (c *Ctx) Quick() bool { return c.Tier != "thorough" }

// N chooses the case count for the tier (VERIF_SCALE multiplies, percent).
func (c *Ctx) N(quick, thorough int) int {
	n := quick
	if !c.Quick() {
		n = thorough
	}
	if s := envInt("VERIF_SCALE", 100); s != 100 {
		n = int(int64(n) * s / 100)
		if n < 1 {
			n = 1
		}
	}
	return n
}

// CaseRng derives the PRNG of case i of stream name from the run seed; independent of other cases.
func (c *Ctx) CaseRng(stream string, i int) *Rng {
	h := sha256.Sum256([]byte(fmt.Sprintf("%s|%s|%d|%d", c.Prop, stream, c.Seed, i)))
	var s uint64
	for k := 0; k < 8; k++ {
		s = s<<8 | uint64(h[k])
	}
	return NewRng(s)
}

// Skip reports whether case i must be skipped (only in replay mode).
func (c *Ctx) Skip(i int) bool { return c.OnlyIdx >= 0 && i != c.OnlyIdx }

func Fingerprint(v any) string {
	b, _ := json.Marshal(v)
	h := sha256.Sum256(b)
	return hex.EncodeToString(h[:8])
}

// Case accounts one executed case. fp identifies it (distinctness), nontrivial is the measured
// property-specific non-triviality verdict.
func (c *Ctx) Case(fp string, nontrivial bool, sample any) {
	c.mu.Lock()
	defer c.mu.Unlock()
	c.evaluations++
	if sample != nil && c.fallback == nil {
		c.fallback = sample
	}
	if nontrivial {
		c.distinct[fp] = struct{}{}
		if sample != nil && len(c.samples) < 3 {
			c.samples = append(c.samples, sample)
		}
	}
}

// Sample adds a sample unconditionally (bounded).
func (c *Ctx) Sample(s any) {
	c.mu.Lock()
	defer c.mu.Unlock()
	if len(c.samples) < 4 {
		c.samples = append(c.samples, s)
	}
}

func (c *Ctx) Count(name string, n int64) {
	c.mu.Lock()
	c.counters[name] += n
	c.mu.Unlock()
}

// Seen records a distinct value in a named set (e.g. interleaving fingerprints, states).
func (c *Ctx) Seen(set, val string) {
	c.mu.Lock()
	m := c.sets[set]
	if m == nil {
		m = map[string]struct{}{}
		c.sets[set] = m
	}
	m[val] = struct{}{}
	c.mu.Unlock()
}
func (c *Ctx) SeenCount(set string) int {
	c.mu.Lock()
	defer c.mu.Unlock()
	return len(c.sets[set])
}
func (c *Ctx) Counter(name string) int64 {
	c.mu.Lock()
	defer c.mu.Unlock()
	return c.counters[name]
}
func (c *Ctx) Extra(k string, v any) { c.mu.Lock(); c.extra[k] = v; c.mu.Unlock() }
func (c *Ctx) Rule(s string)         { c.rule = s }
func (c *Ctx) Assume(s ...string)    { c.assumptions = append(c.assumptions, s...) }
func (c *Ctx) Exhaustive(b bool)     { c.exhaustive = b }

// RequireEvents makes the run inconclusive when counter name ends below min (not in replay mode).
func (c *Ctx) RequireEvents(name string, min int64) { c.minEvents[name] = min }

func (c *Ctx) Inconclusive(format string, a ...any) {
	c.mu.Lock()
	c.inconclusive = append(c.inconclusive, fmt.Sprintf(format, a...))
	c.mu.Unlock()
}

// Violation reports a property violation. shape is a short canonical description of the minimal
// witness; it is matched against known_findings.json (regexp, anchored). index is the case index
// (for replay), witness is stored in the replay file.
func (c *Ctx) Violation(index int, shape string, witness any, format string, a ...any) {
	msg := fmt.Sprintf(format, a...)
	c.mu.Lock()
	defer c.mu.Unlock()
	for _, f := range c.findings {
		re, err := regexp.Compile("^(?:" + f.Shape + ")$")
		if err != nil {
			continue
		}
		if re.MatchString(shape) {
			c.known[f.ID]++
			if _, ok := c.knownMsg[f.ID]; !ok {
				c.knownMsg[f.ID] = f.Description + " [witness: " + trunc(msg, 300) + "]"
			}
			return
		}
	}
	if len(c.violations) >= 20 {
		c.violations = append(c.violations, violation{})
		return
	}
	dir := filepath.Join(c.Out, "replay", c.Prop)
	os.MkdirAll(dir, 0o755)
	path := filepath.Join(dir, fmt.Sprintf("%d-%d-%d.json", c.Seed, index, len(c.violations)))
	if c.Replay != "" {
		path = c.Replay
	} else {
		b, _ := json.MarshalIndent(map[string]any{"property": c.Prop, "seed": c.Seed, "tier": c.Tier, "index": index,
			"shape": shape, "message": msg, "witness": witness}, "", " ")
		os.WriteFile(path, b, 0o644)
	}
	c.violations = append(c.violations, violation{Msg: msg, Replay: path})
	fmt.Fprintf(os.Stderr, "violation[%s #%d] shape=%s: %s\n", c.Prop, index, shape, trunc(msg, 2000))
}

func (c *Ctx) NViolations() int { c.mu.Lock(); defer c.mu.Unlock(); return len(c.violations) }

func trunc(s string, n int) string {
	if len(s) > n {
		return s[:n] + "…"
	}
	return s
}

func (c *Ctx) finish() int {
	c.mu.Lock()
	defer c.mu.Unlock()
	if c.Replay == "" {
		for name, min := range c.minEvents {
			if c.counters[name] < min {
				c.inconclusive = append(c.inconclusive, fmt.Sprintf("monitor observed too little: %s=%d < %d", name, c.counters[name], min))
			}
		}
	}
	ids := make([]string, 0, len(c.known))
	for id := range c.known {
		ids = append(ids, id)
	}
	sort.Strings(ids)
	for _, id := range ids {
		fmt.Printf("KNOWN-FINDING: property=%s %s (%d witnesses) %s\n", c.Prop, id, c.known[id], c.knownMsg[id])
	}
	setCounts := map[string]int{}
	for k, m := range c.sets {
		setCounts[k] = len(m)
	}
	cov := map[string]any{
		"evaluations":         c.evaluations,
		"distinct_nontrivial": len(c.distinct),
		"rule":                c.rule,
		"samples":             c.samples,
		"counters":            c.counters,
		"distinct_sets":       setCounts,
		"known_findings":      c.known,
	}
	if c.exhaustive {
		cov["exhaustive"] = true
	}
	for k, v := range c.extra {
		cov[k] = v
	}
	if len(c.samples) == 0 {
		if c.fallback != nil {
			cov["samples"] = []any{c.fallback}
		} else {
			cov["samples"] = []any{}
		}
	}
	ev := map[string]any{
		"property_id": c.Prop, "tier": c.Tier, "seed": c.Seed, "level": c.Level,
		"coverage": cov, "assumptions": c.assumptions, "wall_s": time.Since(c.start).Seconds(),
		"violations": len(c.violations),
	}
	if len(c.inconclusive) > 0 {
		ev["inconclusive"] = c.inconclusive
	}
	if c.Replay == "" {
		b, _ := json.MarshalIndent(ev, "", " ")
		os.MkdirAll(filepath.Join(c.Out, "evidence"), 0o755)
		os.WriteFile(filepath.Join(c.Out, "evidence", c.Prop+".json"), b, 0o644)
	}
	if len(c.violations) > 0 {
		seen := map[string]bool{}
		for _, v := range c.violations {
			if v.Replay == "" || seen[v.Replay] {
				continue
			}
			seen[v.Replay] = true
			fmt.Printf("VIOLATION property=%s replay=%s\n", c.Prop, v.Replay)
		}
		return 1
	}
	if len(c.inconclusive) > 0 {
		for _, s := range c.inconclusive {
			fmt.Printf("INCONCLUSIVE property=%s %s\n", c.Prop, s)
		}
		return 2
	}
	fmt.Printf("HELD property=%s tier=%s seed=%d evaluations=%d distinct_nontrivial=%d wall=%.1fs\n",
		c.Prop, c.Tier, c.Seed, c.evaluations, len(c.distinct), time.Since(c.start).Seconds())
	return 0
}

// ---------------------------------------------------------------------------------------------
// helpers

func Hex(b []byte) string { return hex.EncodeToString(b) }

func JSON(v any) string {
	b, _ := json.Marshal(v)
	return string(b)
}

// ShortList joins up to n items.
func ShortList(xs []string, n int) string {
	if len(xs) > n {
		return strings.Join(xs[:n], ",") + fmt.Sprintf(",…(+%d)", len(xs)-n)
	}
	return strings.Join(xs, ",")
}

// Bulk sets evaluations to n and distinct_nontrivial to the size of the named distinct set
// (for properties whose cases are too numerous to account one by one).
func (c *Ctx) Bulk(n int, set string) {
	c.mu.Lock()
	defer c.mu.Unlock()
	c.evaluations += n
	for k := range c.sets[set] {
		c.distinct[set+":"+k] = struct{}{}
	}
}
