// C13: block execution is deterministic.
package main

import (
	"crypto/sha256"
	"encoding/hex"
	"encoding/json"
	"fmt"
	"os"
	"path/filepath"
	"time"

	"github.com/33cn/chain33/common/crypto"
	"github.com/33cn/chain33/types"
	"github.com/33cn/chain33/util"
	"verifharness/execenv"
	"verifharness/lib"
	"verifharness/node"
	"verifharness/vexec"
)

func sha(b []byte) string { h := sha256.Sum256(b); return hex.EncodeToString(h[:10]) }

type genOut struct {
	Fund   string     `json:"fund"`   // hex encoded funding block (height 1)
	Blocks [][]string `json:"blocks"` // per test block: hex encoded transactions
	Kinds  [][]string `json:"kinds"`
}

func enc(m types.Message) string { return hex.EncodeToString(types.Encode(m)) }

func genBlockTxs(env *execenv.Env, r *lib.Rng, big bool) (txs []*types.Transaction, kinds []string) {
	cfg := env.Cfg
	n := r.Range(5, 30)
	if big {
		n = r.Range(90, 160)
	}
	use := map[string]bool{}
	pool := []string{execenv.AddrOf(env.Keys[1]), execenv.AddrOf(env.Keys[2]), execenv.AddrOf(env.Keys[3])}
	for i := 0; i < 3; i++ {
		a, _ := util.Genaddress()
		pool = append(pool, a)
	}
	for len(txs) < n {
		from := lib.Pick(r, env.Keys)
		switch k := r.Intn(100); {
		case k < 30:
			txs = append(txs, util.CreateCoinsTx(cfg, from, lib.Pick(r, pool), int64(r.Range(1, 90))*1e5))
			use["coins-transfer-repeated-accounts"] = true
		case k < 38:
			txs = append(txs, util.CreateCoinsTx(cfg, from, lib.Pick(r, pool), 1e17))
			use["coins-failing"] = true
		case k < 48:
			txs = append(txs, util.CreateNoneTx(cfg, from))
			use["none"] = true
		case k < 80:
			ex := lib.Pick(r, []string{"vexec", "vexecs"})
			p := &vexec.Program{Nonce: int64(r.U64() >> 2)}
			for j := 0; j < r.Range(1, 5); j++ {
				key := vexec.StateKey(ex, fmt.Sprintf("k%d", r.Intn(4))) // few keys: repeated keys across txs (first-seen order matters)
				if r.Chance(70) {
					p.Ops = append(p.Ops, vexec.Op{Op: "sset", K: key, V: fmt.Sprintf("v%d.%d", len(txs), j)})
				} else {
					p.Ops = append(p.Ops, vexec.Op{Op: "sget", K: key})
				}
			}
			if ex == "vexecs" {
				p.Local = append(p.Local, vexec.Op{Op: "lset", K: vexec.LocalKey(ex, fmt.Sprintf("l%d", r.Intn(3))), V: fmt.Sprintf("lv%d", len(txs))})
				p.Ops = append(p.Ops, vexec.Op{Op: "llist", K: "LODB-vexecs-l"})
			} else {
				p.Local = append(p.Local, vexec.Op{Op: "lset", K: vexec.LocalKey(ex, fmt.Sprintf("l%d", r.Intn(3))), V: fmt.Sprintf("lv%d", len(txs))})
			}
			if r.Chance(15) {
				p.Ops = append(p.Ops, vexec.Op{Op: "fail"})
				use["vexec-failing"] = true
			}
			txs = append(txs, vexec.NewTx(cfg, ex, p, from, 0))
			use[ex] = true
		default:
			m := r.Range(2, 4)
			var raw []*types.Transaction
			for j := 0; j < m; j++ {
				raw = append(raw, util.CreateCoinsTx(cfg, nil, lib.Pick(r, pool), int64(r.Range(1, 9))*1e5))
			}
			g, err := types.CreateTxGroup(raw, cfg.GetMinTxFeeRate())
			if err != nil {
				continue
			}
			for j := range g.Txs {
				g.SignN(j, types.SECP256K1, from)
			}
			txs = append(txs, g.GetTxs()...)
			use["group"] = true
		}
	}
	for k := range use {
		kinds = append(kinds, k)
	}
	return
}

type execReq struct {
	Fund   string   `json:"fund"`
	Txs    []string `json:"txs"`
	Warm   []string `json:"warm,omitempty"` // another block executed first (unrelated activity)
	PreNode bool    `json:"pre_node,omitempty"` // the process first ran and closed another node (other data directory)
	Repeat int      `json:"repeat"`
}

type digest struct {
	Receipts string `json:"receipts"`
	Block    string `json:"block"`
	LocalDB  string `json:"local_db_after_connected_blocks"` // digest of the whole blockchain DB after genesis + funding block
	State    string `json:"state_root"`
	TxHash   string `json:"tx_root"`
	KV       string `json:"state_kv"`
	DetailRc string `json:"detail_receipts"`
	AddKV    string `json:"add_local_kv"`
	DelKV    string `json:"del_local_kv"`
	NTx      int    `json:"ntx"`
}

func decodeTxs(hs []string) []*types.Transaction {
	var txs []*types.Transaction
	for _, h := range hs {
		b, _ := hex.DecodeString(h)
		var tx types.Transaction
		types.Decode(b, &tx)
		txs = append(txs, &tx)
	}
	return txs
}

func kvDigest(kvs []*types.KeyValue) string {
	return sha(types.Encode(&types.LocalDBSet{KV: kvs})) + fmt.Sprintf("/%d", len(kvs))
}

func localEvent(env *execenv.Env, ev int64, d *types.BlockDetail) (string, error) {
	msg := env.N.Client.NewMessage("execs", ev, d)
	if err := env.N.Client.Send(msg, true); err != nil {
		return "", err
	}
	resp, err := env.N.Client.Wait(msg)
	if err != nil {
		return "", err
	}
	set, ok := resp.GetData().(*types.LocalDBSet)
	if !ok {
		return "", fmt.Errorf("reply %v", resp.GetData())
	}
	return kvDigest(set.KV), nil
}

func execOnce(env *execenv.Env, txh []string) (*digest, error) {
	txs := decodeTxs(txh)
	rs, err := env.ExecList(txs)
	if err != nil {
		return nil, err
	}
	dg := &digest{Receipts: sha(types.Encode(rs)), NTx: len(txs)}
	// full block path: PreExecBlock (dup check, execution, tx root, state MemSet) as a block producer would
	b := &types.Block{Height: env.Tip.Height + 1, BlockTime: env.Tip.BlockTime + 1, ParentHash: env.Tip.Hash(env.Cfg), Difficulty: env.Tip.Difficulty}
	b.Txs = decodeTxs(txh)
	d, _, err := util.PreExecBlock(env.N.Client, env.Tip.StateHash, b, false, false, false)
	if err != nil {
		return nil, fmt.Errorf("PreExecBlock: %v", err)
	}
	dg.Block, dg.State, dg.TxHash = sha(types.Encode(d.Block)), hex.EncodeToString(d.Block.StateHash), hex.EncodeToString(d.Block.TxHash)
	dg.KV = kvDigest(d.KV)
	dg.DetailRc = sha(types.Encode(&types.BlockDetail{Receipts: d.Receipts}))
	if dg.AddKV, err = localEvent(env, types.EventAddBlock, d); err != nil {
		return nil, fmt.Errorf("EventAddBlock: %v", err)
	}
	if dg.DelKV, err = localEvent(env, types.EventDelBlock, d); err != nil {
		return nil, fmt.Errorf("EventDelBlock: %v", err)
	}
	// forget the pending state so that repetitions start from the same store content
	util.ExecKVSetRollback(env.N.Client, d.Block.StateHash)
	return dg, nil
}

func c13Cfg(c *types.Config) { c.Exec.EnableStat = true }

func dumpDigest(env *execenv.Env) string {
	h := sha256.New()
	n := 0
	it := env.N.Chain.GetDB().Iterator(nil, types.EmptyValue, false)
	for it.Rewind(); it.Valid(); it.Next() {
		h.Write(it.Key())
		h.Write([]byte{0})
		h.Write(it.Value())
		h.Write([]byte{1})
		n++
	}
	it.Close()
	return fmt.Sprintf("%x/%d", h.Sum(nil)[:10], n)
}

func openEnv(fund string) (*execenv.Env, error) {
	dir := filepath.Join(os.Getenv("VERIF_TMP"), "n")
	o := node.Options{DataDir: dir, Cfg: c13Cfg}
	cfg := node.NewConfig(o)
	vexec.Register(cfg)
	n := node.NewWithConfig(cfg, o)
	fb, _ := hex.DecodeString(fund)
	var blk types.Block
	if err := types.Decode(fb, &blk); err != nil {
		return nil, err
	}
	if err := n.Deliver(&blk, true, "p"); err != nil {
		return nil, fmt.Errorf("funding block: %v", err)
	}
	l := util.TestPrivkeyList
	return &execenv.Env{N: n, Cfg: cfg, Tip: n.LastBlock(), Keys: []crypto.PrivKey{node.GenesisKey(), l[0], l[2], l[3]}}, nil
}

func init() {
	lib.RegisterChild("gen", func(in []byte) (any, error) {
		var q struct {
			Seed uint64 `json:"seed"`
			N    int    `json:"n"`
		}
		json.Unmarshal(in, &q)
		env, err := execenv.New(filepath.Join(os.Getenv("VERIF_TMP"), "g"), nil)
		if err != nil {
			return nil, err
		}
		defer env.Close()
		r := lib.NewRng(q.Seed)
		out := &genOut{Fund: enc(env.Tip)}
		for i := 0; i < q.N; i++ {
			txs, kinds := genBlockTxs(env, r, i%4 == 3)
			var hs []string
			for _, tx := range txs {
				hs = append(hs, enc(tx))
			}
			out.Blocks = append(out.Blocks, hs)
			out.Kinds = append(out.Kinds, kinds)
		}
		return out, nil
	})
	lib.RegisterChild("exec", func(in []byte) (any, error) {
		var q execReq
		if err := json.Unmarshal(in, &q); err != nil {
			return nil, err
		}
		if os.Getenv("VERIF_C13_PRENODE") != "" {
			// long-running-process condition: another node (own data directory) was started, used and closed before
			pre, err := execenv.New(filepath.Join(os.Getenv("VERIF_TMP"), "pre"), func(o *node.Options) { o.Cfg = c13Cfg })
			if err != nil {
				return nil, fmt.Errorf("pre-node: %v", err)
			}
			pre.Close()
		}
		env, err := openEnv(q.Fund)
		if err != nil {
			return nil, err
		}
		defer env.Close()
		dbDigest := dumpDigest(env)
		if len(q.Warm) > 0 {
			if _, err := execOnce(env, q.Warm); err != nil {
				return nil, fmt.Errorf("warm-up: %v", err)
			}
		}
		var out []*digest
		for i := 0; i < q.Repeat; i++ {
			d, err := execOnce(env, q.Txs)
			if err != nil {
				return nil, err
			}
			d.LocalDB = dbDigest
			out = append(out, d)
		}
		return out, nil
	})
}

func diffDigest(a, b *digest) (parts []string) {
	if a.Receipts != b.Receipts {
		parts = append(parts, "EventExecTxList receipts")
	}
	if a.State != b.State {
		parts = append(parts, "state root")
	}
	if a.TxHash != b.TxHash {
		parts = append(parts, "tx root")
	}
	if a.KV != b.KV {
		parts = append(parts, "state write set (order included)")
	}
	if a.DetailRc != b.DetailRc {
		parts = append(parts, "block receipts")
	}
	if a.LocalDB != b.LocalDB {
		parts = append(parts, "local database after connecting genesis + funding block")
	}
	if a.Block != b.Block {
		parts = append(parts, "executed block bytes")
	}
	if a.AddKV != b.AddKV {
		parts = append(parts, "EventAddBlock local KV list")
	}
	if a.DelKV != b.DelKV {
		parts = append(parts, "EventDelBlock local KV list")
	}
	return
}

func run(c *lib.Ctx) {
	c.Rule("generated blocks (coins transfers on few accounts, failing transfers, none, groups, synthetic executors writing few repeated state keys and local keys; every 4th block has 90-160 transactions so the parallel signature/merkle paths run) are produced once, " +
		"then executed on the same prior state under different conditions, each in its own process: canonical = fresh process with GOMAXPROCS=1; compared byte-for-byte: fresh process GOMAXPROCS=16, GOMAXPROCS=3, process that first executed an unrelated block (warm caches), " +
		"5 repetitions inside one process. Compared: EventExecTxList receipts, PreExecBlock block bytes / state root / tx root / state write set in order / receipts, EventAddBlock and EventDelBlock local KV lists in order. " +
		"non-trivial = block with >=2 executor kinds and >=1 failing transaction; distinct = block index")
	c.Assume("the same encoded transactions and the same funding block are given to every process", "race-detector scheduling variant not part of quick")
	nBlocks := c.N(8, 120)
	g := c.Child("gen", map[string]any{"seed": c.CaseRng("gen", 0).U64(), "n": nBlocks + 1}, lib.ChildOpts{Timeout: 10 * time.Minute})
	var gen genOut
	if g.Died || g.TimedOut || json.Unmarshal(g.Out, &gen) != nil {
		c.Inconclusive("generator child failed: %.300s", g.Stderr)
		return
	}
	type cond struct {
		name string
		env  []string
		warm bool
		rep  int
	}
	conds := []cond{
		{"fresh-gomaxprocs-1", []string{"GOMAXPROCS=1"}, false, 1},
		{"fresh-gomaxprocs-16", []string{"GOMAXPROCS=16"}, false, 1},
		{"fresh-gomaxprocs-3", []string{"GOMAXPROCS=3"}, false, 1},
		{"warm-process", []string{"GOMAXPROCS=8"}, true, 1},
		{"repeated-5x", []string{"GOMAXPROCS=8"}, false, 5},
		{"second-node-in-process", []string{"GOMAXPROCS=8", "VERIF_C13_PRENODE=1"}, false, 1},
	}
	lib.Parallel(nBlocks, 4, func(bi int) {
		if c.Skip(bi) {
			return
		}
		results := make([][]*digest, len(conds))
		errs := make([]string, len(conds))
		lib.Parallel(len(conds), len(conds), func(ci int) {
			cd := conds[ci]
			q := execReq{Fund: gen.Fund, Txs: gen.Blocks[bi], Repeat: cd.rep}
			if cd.warm {
				q.Warm = gen.Blocks[nBlocks]
			}
			cr := c.Child("exec", q, lib.ChildOpts{Timeout: 10 * time.Minute, Env: cd.env})
			if cr.TimedOut || cr.Died {
				errs[ci] = fmt.Sprintf("%.300s", cr.Stderr)
				return
			}
			json.Unmarshal(cr.Out, &results[ci])
		})
		if errs[0] != "" || len(results[0]) == 0 {
			c.Inconclusive("block %d: canonical execution failed: %s", bi, errs[0])
			return
		}
		canon := results[0][0]
		kinds := gen.Kinds[bi]
		failing := false
		for _, k := range kinds {
			if k == "coins-failing" || k == "vexec-failing" {
				failing = true
			}
		}
		c.Case(fmt.Sprint(bi), len(kinds) >= 2 && failing, map[string]any{"block": bi, "ntx": canon.NTx, "kinds": kinds, "canonical": canon})
		c.Count("transactions", int64(canon.NTx))
		for ci := 1; ci < len(conds); ci++ {
			if errs[ci] != "" {
				c.Inconclusive("block %d condition %s failed: %s", bi, conds[ci].name, errs[ci])
				continue
			}
			for rep, d := range results[ci] {
				c.Count("executions_compared", 1)
				if parts := diffDigest(canon, d); len(parts) > 0 {
					c.Violation(bi, "nondeterministic/"+conds[ci].name, map[string]any{"block": bi, "condition": conds[ci].name, "repetition": rep, "canonical": canon, "got": d, "txs": gen.Blocks[bi], "fund": gen.Fund},
						"block %d (%d txs, %v) differs under %s (repetition %d) in: %v", bi, canon.NTx, kinds, conds[ci].name, rep, parts)
				}
			}
		}
	})
	c.RequireEvents("executions_compared", 30)
}

func main() { lib.Main("C13", "exploration", run) }
