// C09: versioned (MVCC) reads return the right key at the right version.
//
// Monitor: every generated version chain is executed against the REAL common/db MVCC code
// (MVCCHelper / SimpleMVCC / MVCCIter over GoMemDB, GoLevelDB and db.LocalDB, and through the exported
// executor.AddMVCC / executor.DelMVCC wrappers) next to a model map[key][]{version,value}. After every
// AddMVCC / DelMVCC / Trash every key is read at every version 0..top+1 (and far above the top) and
// compared with the model, including not-found. DelMVCC of the top version is additionally compared
// with the read table recorded before that version was added (real-vs-real). Trash(v) is judged on
// the raw records it removed: none may be a key's newest version, none may be newer than v.
package main

import (
	"crypto/sha256"
	"fmt"
	"os"
	"path/filepath"
	"reflect"
	"runtime"
	"sort"
	"strings"
	"sync"
	"sync/atomic"
	"time"
	"unsafe"

	dbm "github.com/33cn/chain33/common/db"
	clog "github.com/33cn/chain33/common/log"
	"github.com/33cn/chain33/executor"
	"github.com/33cn/chain33/types"
	"verifharness/lib"
)

// ---------------------------------------------------------------------------------------------
// program (= one case)

type kvp struct {
	K string `json:"k"`
	V string `json:"v"` // "" = empty-value write
}

type step struct {
	Op  string `json:"op"` // add | deltop | trash
	KVs []kvp  `json:"kvs,omitempty"`
	Cut int64  `json:"cut,omitempty"` // trash: collect versions <= Cut
}

type prog struct {
	Backend string   `json:"backend"` // mem | leveldb | localdb | iter | execenv
	Flush   int      `json:"flush"`   // localdb: versions below Flush are written to the main db, the rest stay in the LocalDB cache
	Keys    []string `json:"keys"`    // keys that are read (written keys are always read too)
	Steps   []step   `json:"steps"`
	Sweep   bool     `json:"sweep"` // after the last step: Trash at every cut point on a copy of the final state
}

type failure struct {
	Kind   string `json:"kind"`
	Key    string `json:"key"`             // key that was read / key whose record was wrongly collected
	Other  string `json:"other,omitempty"` // key the returned value really belongs to
	Ver    int64  `json:"version"`
	Step   int    `json:"step"`
	Detail string `json:"detail"`
}

type stats struct {
	reads, readsOld, readsNotFound, readsShadow int64 // readsOld: expected value is an older version of a key overwritten later; readsShadow: another written key extends the read key
	adds, dels, trashes, collected, restoreCmp  int64
	iterScans, sweepCuts, stateDBReads          int64
	extPairs                                    int
	emptyWrites                                 int
}

type rec struct {
	ver int64
	val string
}

func vhash(v int64, inc int) []byte {
	h := sha256.Sum256([]byte(fmt.Sprintf("state|%d|%d", v, inc)))
	return h[:]
}

// ---------------------------------------------------------------------------------------------
// execution of one program against the real code

type env struct {
	p         *prog
	raw       dbm.DB           // main db (raw records live here, except localdb cache part)
	ldb       dbm.KVDB         // localdb backend: the LocalDB wrapper
	helper    *dbm.MVCCHelper  // mem/leveldb/execenv
	iter      *dbm.MVCCIter    // iter
	simple    *dbm.SimpleMVCC  // what GetV is called on
	model     map[string][]rec // ascending versions
	owner     map[string]string
	top       int64
	inc       map[int64]int
	snaps     map[int64]map[string]string // version t -> read table recorded before t was added
	keys      []string
	st        *stats
	stepIdx   int
	closeFn   func()
	pendingTx bool
	sdbCache  map[[2]int64]dbm.KV // StateDB objects per (version, incarnation of that version)
	kvdbRaw   dbm.KVDB
	last      map[string]string
}

func isNotFound(err error) bool { return err == types.ErrNotFound }

// execLocalList mirrors what executor.LocalDB.List (the KVDB that SimpleMVCC runs on in a node) does with the
// reply of blockchain's db.LocalDB: an empty listing becomes types.ErrNotFound.
type execLocalList struct{ dbm.KVDB }

func (l execLocalList) List(prefix, key []byte, count, direction int32) ([][]byte, error) {
	v, err := l.KVDB.List(prefix, key, count, direction)
	if err == nil && v == nil {
		return nil, types.ErrNotFound
	}
	return v, err
}

func (e *env) apply(kvs []*types.KeyValue, viaCache bool) {
	if viaCache {
		// the newest write stays in the LocalDB transaction layer while it is read; it is committed to the
		// cache layer when the next write arrives
		if e.pendingTx {
			e.ldb.Commit()
		}
		e.ldb.Begin()
		e.pendingTx = true
		for _, kv := range kvs {
			if len(kv.Value) == 0 {
				e.ldb.Set(kv.Key, nil)
			} else {
				e.ldb.Set(kv.Key, kv.Value)
			}
		}
		return
	}
	for _, kv := range kvs {
		if kv.Value == nil {
			e.raw.Delete(kv.Key) // deleting an absent record is not an error of the code under test (GoMemDB reports it, GoLevelDB does not)
		} else if err := e.raw.Set(kv.Key, kv.Value); err != nil {
			panic(err)
		}
	}
	if e.p.Backend == "localdb" {
		// a direct write to the main db happens only while no version lives in the cache layers:
		// start from a fresh LocalDB so that its read cache cannot hold copies of rewritten main-db records
		e.ldb = dbm.NewLocalDB(e.raw, false)
		e.simple = dbm.NewSimpleMVCC(execLocalList{e.ldb})
		e.pendingTx = false
	}
}

func (e *env) expected(key string, ver int64) (string, int64, bool) {
	rs := e.model[key]
	for i := len(rs) - 1; i >= 0; i-- {
		if rs[i].ver <= ver {
			return rs[i].val, rs[i].ver, true
		}
	}
	return "", -1, false
}

func (e *env) readVersions() []int64 {
	var vs []int64
	for v := int64(0); v <= e.top+1; v++ {
		vs = append(vs, v)
	}
	if e.top < 0 {
		vs = []int64{0, 1}
	}
	return append(vs, e.top+1000, 1<<40)
}

// stateDBAt builds a real executor.StateDB over kvdb whose MVCC version is v. The exported constructor is used; the
// version is what the unexported enableMVCC would store after local.GetVersion(stateHash) (that lookup is executed
// here through the same SimpleMVCC and must answer v), written into the private field.
func (e *env) stateDBAt(kvdb dbm.KVDB, v int64) dbm.KV {
	got, err := e.simple.GetVersion(vhash(v, e.inc[v]))
	if err != nil || got != v {
		return nil
	}
	ck := [2]int64{v, int64(e.inc[v])}
	if sdb, ok := e.sdbCache[ck]; ok {
		return sdb
	}
	sdb := executor.NewStateDB(nil, vhash(v, e.inc[v]), kvdb, &executor.StateDBOption{EnableMVCC: true, Height: v})
	f := reflect.ValueOf(sdb).Elem().FieldByName("version")
	if !f.IsValid() || f.Kind() != reflect.Int64 {
		return nil
	}
	reflect.NewAt(f.Type(), unsafe.Pointer(f.UnsafeAddr())).Elem().SetInt(v)
	if e.sdbCache == nil {
		e.sdbCache = map[[2]int64]dbm.KV{}
	}
	e.sdbCache[ck] = sdb
	return sdb
}

// readAll compares every (key, version) read with the model; returns the read table.
func (e *env) readAll() (map[string]string, *failure) {
	table := map[string]string{}
	sdbs := map[int64]dbm.KV{}
	if e.p.Backend != "localdb" {
		if e.kvdbRaw == nil {
			e.kvdbRaw = dbm.NewKVDB(e.raw)
		}
		for v := int64(0); v <= e.top; v++ {
			if s := e.stateDBAt(e.kvdbRaw, v); s != nil {
				sdbs[v] = s
			}
		}
	}
	for _, k := range e.keys {
		shadow := false
		for other, rs := range e.model {
			if len(rs) > 0 && other != k && strings.HasPrefix(other, k) {
				shadow = true
			}
		}
		for _, v := range e.readVersions() {
			got, err := e.simple.GetV([]byte(k), v)
			e.st.reads++
			if shadow {
				e.st.readsShadow++
			}
			if sdb := sdbs[v]; sdb != nil {
				// StateDB.Get with MVCC enabled must be the same read
				sv, serr := sdb.Get([]byte(k))
				e.st.stateDBReads++
				if serr != err || string(sv) != string(got) {
					return table, &failure{Kind: "statedb-differs-from-getv", Key: k, Ver: v, Step: e.stepIdx,
						Detail: fmt.Sprintf("StateDB(version %d).Get(%q) = %q,%v but GetV = %q,%v", v, k, sv, serr, got, err)}
				}
			}
			want, wver, ok := e.expected(k, v)
			cell := fmt.Sprintf("%s@%d", k, v)
			if err != nil {
				table[cell] = "err:" + err.Error()
			} else {
				table[cell] = "val:" + string(got)
			}
			if ok {
				rs := e.model[k]
				if wver < rs[len(rs)-1].ver {
					e.st.readsOld++
				}
			} else {
				e.st.readsNotFound++
			}
			switch {
			case ok && err != nil:
				if want == "" && isNotFound(err) { // an empty-value write may read as not-found
					continue
				}
				return table, &failure{Kind: "getv-error-" + errName(err), Key: k, Ver: v, Step: e.stepIdx,
					Detail: fmt.Sprintf("GetV(%q,%d) = error %v, model: value %q written at version %d", k, v, err, want, wver)}
			case ok && string(got) != want:
				if o, known := e.owner[string(got)]; known && o != k {
					return table, &failure{Kind: "getv-foreign-value", Key: k, Other: o, Ver: v, Step: e.stepIdx,
						Detail: fmt.Sprintf("GetV(%q,%d) = %q which was written under key %q; model: %q written at version %d", k, v, got, o, want, wver)}
				}
				return table, &failure{Kind: "getv-wrong-version", Key: k, Ver: v, Step: e.stepIdx,
					Detail: fmt.Sprintf("GetV(%q,%d) = %q, model: %q written at version %d", k, v, got, want, wver)}
			case !ok && err == nil:
				if o, known := e.owner[string(got)]; known && o != k {
					return table, &failure{Kind: "getv-foreign-value", Key: k, Other: o, Ver: v, Step: e.stepIdx,
						Detail: fmt.Sprintf("GetV(%q,%d) = %q which was written under key %q; model: not found", k, v, got, o)}
				}
				return table, &failure{Kind: "getv-value-for-absent", Key: k, Ver: v, Step: e.stepIdx,
					Detail: fmt.Sprintf("GetV(%q,%d) = %q, model: not found", k, v, got)}
			case !ok && !isNotFound(err):
				return table, &failure{Kind: "getv-error-" + errName(err), Key: k, Ver: v, Step: e.stepIdx,
					Detail: fmt.Sprintf("GetV(%q,%d) = error %v, model: not found (ErrNotFound)", k, v, err)}
			}
		}
	}
	return table, nil
}

func errName(err error) string {
	switch err {
	case types.ErrNotFound:
		return "ErrNotFound"
	case types.ErrVersion:
		return "ErrVersion"
	}
	s := err.Error()
	if len(s) > 24 {
		s = s[:24]
	}
	return strings.Map(func(r rune) rune {
		if r == ' ' || r == '/' {
			return '_'
		}
		return r
	}, s)
}

// iterCheck: MVCCIter's iterator must list exactly the newest value of every key.
func (e *env) iterCheck() *failure {
	if e.iter == nil {
		return nil
	}
	e.st.iterScans++
	got := map[string]string{}
	it := e.iter.Iterator(nil, nil, false)
	for it.Rewind(); it.Valid(); it.Next() {
		got[string(it.Key())] = string(it.Value())
	}
	it.Close()
	for k, rs := range e.model {
		if len(rs) == 0 {
			continue
		}
		want := rs[len(rs)-1].val
		g, ok := got[k]
		if !ok && want == "" {
			continue
		}
		if !ok {
			return &failure{Kind: "iter-missing-latest", Key: k, Ver: e.top, Step: e.stepIdx,
				Detail: fmt.Sprintf("MVCCIter iterator does not list key %q, model newest value %q", k, want)}
		}
		if g != want {
			o := e.owner[g]
			return &failure{Kind: "iter-wrong-latest", Key: k, Other: o, Ver: e.top, Step: e.stepIdx,
				Detail: fmt.Sprintf("MVCCIter iterator lists %q=%q, model newest value %q", k, g, want)}
		}
	}
	for k, g := range got {
		if len(e.model[k]) == 0 {
			return &failure{Kind: "iter-stale-latest", Key: k, Ver: e.top, Step: e.stepIdx,
				Detail: fmt.Sprintf("MVCCIter iterator lists %q=%q, model has no version of that key", k, g)}
		}
	}
	return nil
}

func rawData(d dbm.DB) map[string]string {
	out := map[string]string{}
	it := d.Iterator([]byte(".-mvcc-.d."), nil, false)
	for it.Rewind(); it.Valid(); it.Next() {
		out[string(it.Key())] = string(it.Value())
	}
	it.Close()
	return out
}

// trashOn runs Trash(cut) of the real code on database d (whose model is m) and judges what was removed.
// It returns the reduced model.
func trashOn(d dbm.DB, m map[string][]rec, cut int64, st *stats, stepIdx int) (map[string][]rec, *failure) {
	type id struct {
		k string
		v int64
	}
	ids := map[string]id{}
	for k, rs := range m {
		for _, r := range rs {
			rk, _ := dbm.GetKey([]byte(k), r.ver)
			ids[string(rk)] = id{k, r.ver}
		}
	}
	before := rawData(d)
	if err := dbm.NewMVCC(d).Trash(cut); err != nil {
		return m, &failure{Kind: "trash-error", Ver: cut, Step: stepIdx, Detail: "Trash returned " + err.Error()}
	}
	st.trashes++
	after := rawData(d)
	out := map[string][]rec{}
	for k, rs := range m {
		out[k] = append([]rec(nil), rs...)
	}
	var removed []string
	for rk := range before {
		if _, ok := after[rk]; !ok {
			removed = append(removed, rk)
		}
	}
	sort.Strings(removed)
	for rk, v := range after {
		if bv, ok := before[rk]; !ok || bv != v {
			return m, &failure{Kind: "trash-modified-record", Ver: cut, Step: stepIdx, Detail: fmt.Sprintf("Trash(%d) wrote record %q", cut, rk)}
		}
	}
	for _, rk := range removed {
		x, ok := ids[rk]
		if !ok {
			continue // an empty-value record that the model does not track as raw
		}
		st.collected++
		rs := m[x.k]
		newest := rs[len(rs)-1].ver
		if x.v == newest {
			return m, &failure{Kind: "trash-removed-newest", Key: x.k, Ver: x.v, Step: stepIdx,
				Detail: fmt.Sprintf("Trash(%d) deleted record %q = newest version %d of key %q (versions %v)", cut, rk, x.v, x.k, vers(rs))}
		}
		if x.v > cut {
			return m, &failure{Kind: "trash-removed-newer", Key: x.k, Ver: x.v, Step: stepIdx,
				Detail: fmt.Sprintf("Trash(%d) deleted record %q = version %d > %d of key %q", cut, rk, x.v, cut, x.k)}
		}
		var keep []rec
		for _, r := range out[x.k] {
			if r.ver != x.v {
				keep = append(keep, r)
			}
		}
		out[x.k] = keep
	}
	return out, nil
}

func vers(rs []rec) []int64 {
	var o []int64
	for _, r := range rs {
		o = append(o, r.ver)
	}
	return o
}

func cloneMem(src dbm.DB) dbm.DB {
	dst, _ := dbm.NewGoMemDB("", "", 0)
	it := src.Iterator(nil, types.EmptyValue, false)
	for it.Rewind(); it.Valid(); it.Next() {
		dst.Set(append([]byte(nil), it.Key()...), append([]byte(nil), it.Value()...))
	}
	it.Close()
	return dst
}

var dirSeq struct {
	sync.Mutex
	n int
}

func runProg(p *prog, tmp string, st *stats) (f *failure) {
	e := &env{p: p, model: map[string][]rec{}, owner: map[string]string{}, top: -1, inc: map[int64]int{},
		snaps: map[int64]map[string]string{}, st: st}
	defer func() {
		if e.closeFn != nil {
			e.closeFn()
		}
		if r := recover(); r != nil {
			f = &failure{Kind: "panic", Step: e.stepIdx, Detail: fmt.Sprintf("panic: %v", r)}
			if s := fmt.Sprint(r); strings.Contains(s, "index out of range") {
				f.Kind = "panic-index-out-of-range"
			}
		}
	}()
	switch p.Backend {
	case "leveldb":
		dirSeq.Lock()
		dirSeq.n++
		dir := filepath.Join(tmp, fmt.Sprintf("ldb-%d", dirSeq.n))
		dirSeq.Unlock()
		os.MkdirAll(dir, 0o755)
		ldb, err := dbm.NewGoLevelDB("mvcc", dir, 4)
		if err != nil {
			panic(err)
		}
		e.raw = ldb
		e.closeFn = func() { ldb.Close(); os.RemoveAll(dir) }
	default:
		e.raw, _ = dbm.NewGoMemDB("", "", 0)
	}
	switch p.Backend {
	case "localdb":
		e.ldb = dbm.NewLocalDB(e.raw, false)
		e.simple = dbm.NewSimpleMVCC(execLocalList{e.ldb})
	case "iter":
		e.iter = dbm.NewMVCCIter(e.raw)
		e.helper = e.iter.MVCCHelper
		e.simple = e.helper.SimpleMVCC
	default:
		e.helper = dbm.NewMVCC(e.raw)
		e.simple = e.helper.SimpleMVCC
	}
	// key universe
	seen := map[string]bool{}
	for _, k := range p.Keys {
		if !seen[k] {
			seen[k] = true
			e.keys = append(e.keys, k)
		}
	}
	for _, s := range p.Steps {
		for _, kv := range s.KVs {
			if !seen[kv.K] {
				seen[kv.K] = true
				e.keys = append(e.keys, kv.K)
			}
		}
	}
	sort.Strings(e.keys)
	for _, a := range e.keys {
		for _, b := range e.keys {
			if a != b && strings.HasPrefix(b, a) {
				st.extPairs++
			}
		}
	}
	for i := range p.Steps {
		s := &p.Steps[i]
		e.stepIdx = i
		switch s.Op {
		case "add":
			ver := e.top + 1
			if e.last == nil {
				e.last, _ = e.readAll()
			}
			e.snaps[ver] = e.last
			var kvs []*types.KeyValue
			dup := map[string]bool{}
			for _, kv := range s.KVs {
				if dup[kv.K] {
					continue
				}
				dup[kv.K] = true
				var val []byte
				if kv.V != "" {
					val = []byte(kv.V)
				} else {
					st.emptyWrites++
				}
				kvs = append(kvs, &types.KeyValue{Key: []byte(kv.K), Value: val})
			}
			e.inc[ver]++
			hash := vhash(ver, e.inc[ver])
			var prev []byte
			if ver > 0 {
				prev = vhash(ver-1, e.inc[ver-1])
			}
			var out []*types.KeyValue
			var err error
			switch p.Backend {
			case "iter":
				out, err = e.iter.AddMVCC(kvs, hash, prev, ver)
			case "execenv":
				out = executor.AddMVCC(dbm.NewKVDB(e.raw), &types.BlockDetail{Block: &types.Block{Height: ver, StateHash: hash}, PrevStatusHash: prev, KV: kvs})
			default:
				out, err = e.simple.AddMVCC(kvs, hash, prev, ver)
			}
			if err != nil {
				return &failure{Kind: "add-error", Ver: ver, Step: i, Detail: fmt.Sprintf("AddMVCC(version %d) = %v", ver, err)}
			}
			e.apply(out, p.Backend == "localdb" && int(ver) >= p.Flush)
			for _, kv := range kvs {
				k := string(kv.Key)
				e.model[k] = append(e.model[k], rec{ver, string(kv.Value)})
				if len(kv.Value) > 0 {
					e.owner[string(kv.Value)] = k
				}
			}
			e.top = ver
			st.adds++
		case "deltop":
			if e.top < 0 {
				continue
			}
			ver := e.top
			hash := vhash(ver, e.inc[ver])
			var out []*types.KeyValue
			var err error
			switch p.Backend {
			case "iter":
				out, err = e.iter.DelMVCC(hash, ver, true)
			case "execenv":
				out = executor.DelMVCC(dbm.NewKVDB(e.raw), &types.BlockDetail{Block: &types.Block{Height: ver, StateHash: hash}})
			default:
				out, err = e.simple.DelMVCC(hash, ver, true)
			}
			if err != nil {
				return &failure{Kind: "del-error-" + errName(err), Ver: ver, Step: i, Detail: fmt.Sprintf("DelMVCC(top version %d) = %v", ver, err)}
			}
			for _, kv := range out {
				if len(kv.Value) == 0 {
					kv.Value = nil
				}
			}
			e.apply(out, p.Backend == "localdb" && int(ver) >= p.Flush)
			for k, rs := range e.model {
				if n := len(rs); n > 0 && rs[n-1].ver == ver {
					e.model[k] = rs[:n-1]
				}
			}
			e.top = ver - 1
			st.dels++
			// real-vs-real: every read is back to what it was before version ver was added
			if snap, ok := e.snaps[ver]; ok {
				now, _ := e.readAll()
				for cell, was := range snap {
					st.restoreCmp++
					if got, ok := now[cell]; ok && got != was {
						at := strings.LastIndex(cell, "@")
						var v int64
						fmt.Sscan(cell[at+1:], &v)
						return &failure{Kind: "del-not-restored", Key: cell[:at], Ver: v, Step: i,
							Detail: fmt.Sprintf("after DelMVCC(%d) read %s = %s, before that version was added it was %s", ver, cell, got, was)}
					}
				}
			}
			delete(e.snaps, ver)
		case "trash":
			if e.helper == nil {
				continue
			}
			nm, f := trashOn(e.raw, e.model, s.Cut, st, i)
			if f != nil {
				return f
			}
			e.model = nm
			e.snaps = map[int64]map[string]string{} // reads at collected versions legitimately change
		}
		tbl, f := e.readAll()
		if f != nil {
			return f
		}
		e.last = tbl
		if f := e.iterCheck(); f != nil {
			return f
		}
	}
	if p.Sweep && e.helper != nil && e.top >= 0 {
		e.stepIdx = len(p.Steps)
		for cut := int64(-1); cut <= e.top+1; cut++ {
			cp := cloneMem(e.raw)
			nm, f := trashOn(cp, e.model, cut, st, e.stepIdx)
			if f != nil {
				f.Detail = "[sweep] " + f.Detail
				return f
			}
			st.sweepCuts++
			e2 := &env{p: p, raw: cp, model: nm, owner: e.owner, top: e.top, keys: e.keys, st: st, stepIdx: e.stepIdx}
			e2.helper = dbm.NewMVCC(cp)
			e2.simple = e2.helper.SimpleMVCC
			if _, f := e2.readAll(); f != nil {
				f.Detail = fmt.Sprintf("[after sweep Trash(%d)] ", cut) + f.Detail
				f.Kind = "after-trash-" + f.Kind
				return f
			}
		}
	}
	return nil
}

// runProgT runs a program under a watchdog (a program that makes the real code spin is abandoned, its goroutine leaks).
func runProgT(p *prog, tmp string, st *stats, d time.Duration) (f *failure, timedOut bool) {
	type res struct {
		f  *failure
		st stats
	}
	ch := make(chan res, 1)
	go func() {
		var s stats
		g := runProg(p, tmp, &s)
		ch <- res{g, s}
	}()
	select {
	case r := <-ch:
		*st = r.st
		return r.f, false
	case <-time.After(d):
		return nil, true
	}
}

// ---------------------------------------------------------------------------------------------
// generator

var stems = []string{"a", "k", "acc", "mavl-coins-bty-1Gx", "T"}

func pad20(v int) string { return fmt.Sprintf("%020d", v) }

func extPool(rng *lib.Rng) []string {
	return []string{
		".", ".b", ".-x", "!", "-x", "0", "." + pad20(1), "b", "-", "/", ".-", "./", ".0", ".1", ":", ".:", "..",
		"." + pad20(0), ".99999999999999999999", ".0000000000000000000", ".000000000000000000001", " ", "\x01", ",", "+z",
		".b." + pad20(2), "-x." + pad20(9), "0." + pad20(1), ".5", "." + pad20(rng.Intn(13)), "." + pad20(rng.Intn(13)), "." + pad20(rng.Intn(13)) + ".x",
		"1", "9", ".9", ".~", "~", "." + pad20(rng.Intn(13))[:rng.Range(1, 19)],
	}
}

// genProg: stratum "plain" = keys without prefix relations; "ext" = keys extending the stem; "empty" = ext + empty-value writes.
func genProg(rng *lib.Rng, stratum string, quick bool) *prog {
	p := &prog{}
	switch r := rng.Intn(100); {
	case r < 40:
		p.Backend = "mem"
	case r < 52:
		p.Backend = "leveldb"
	case r < 70:
		p.Backend = "localdb"
	case r < 88:
		p.Backend = "iter"
	default:
		p.Backend = "execenv"
	}
	stem := lib.Pick(rng, stems)
	var keys []string
	if stratum == "plain" {
		all := []string{"alpha", "bravo", "charlie", "delta", "echo", "zz", "k1", "q9"}
		for _, i := range rng.Perm(len(all))[:rng.Range(2, 5)] {
			keys = append(keys, all[i])
		}
	} else {
		if rng.Chance(90) {
			keys = append(keys, stem)
		}
		pool := extPool(rng)
		for _, i := range rng.Perm(len(pool))[:rng.Range(1, 5)] {
			keys = append(keys, stem+pool[i])
		}
		if rng.Chance(30) {
			keys = append(keys, "zz")
		}
		if rng.Chance(20) { // second-level extension
			keys = append(keys, keys[len(keys)-1]+lib.Pick(rng, pool))
		}
	}
	p.Keys = keys
	nSteps := rng.Range(3, 16)
	maxVer := rng.Range(1, 12)
	if rng.Chance(25) {
		maxVer = 12 // cross the one-digit/two-digit version boundary
		nSteps = rng.Range(13, 20)
	}
	top := -1
	serial := 0
	canTrash := p.Backend == "mem" || p.Backend == "leveldb" || p.Backend == "iter" || p.Backend == "execenv"
	if p.Backend == "localdb" && maxVer < 2 {
		maxVer = 2
	}
	for guard := 0; len(p.Steps) < nSteps && guard < 400; guard++ {
		r := rng.Intn(100)
		switch {
		case r < 62 || top < 0:
			if top+1 >= maxVer {
				if top >= 0 && !(p.Backend == "localdb" && top == 0) {
					p.Steps = append(p.Steps, step{Op: "deltop"})
					top--
				}
				continue
			}
			var kvs []kvp
			for _, k := range keys {
				if rng.Chance(55) {
					serial++
					v := fmt.Sprintf("v%d.%s@%d", serial, k, top+1)
					if stratum == "empty" && rng.Chance(30) {
						v = ""
					}
					kvs = append(kvs, kvp{K: k, V: v})
				}
			}
			if len(kvs) == 0 && (rng.Chance(80) || p.Backend == "localdb") {
				k := lib.Pick(rng, keys)
				serial++
				kvs = append(kvs, kvp{K: k, V: fmt.Sprintf("v%d.%s@%d", serial, k, top+1)})
			}
			p.Steps = append(p.Steps, step{Op: "add", KVs: kvs})
			top++
		case r < 82:
			if p.Backend == "localdb" && top == 0 {
				continue // see Assume: version 0 cannot be looked up by hash through a LocalDB
			}
			p.Steps = append(p.Steps, step{Op: "deltop"})
			top--
		default:
			if canTrash && top >= 0 {
				p.Steps = append(p.Steps, step{Op: "trash", Cut: int64(rng.Range(-1, top+1))})
			}
		}
	}
	p.Flush = rng.Range(0, maxVer)
	p.Sweep = canTrash
	return p
}

// ---------------------------------------------------------------------------------------------
// minimisation + shape

func cloneProg(p *prog) *prog {
	q := *p
	q.Keys = append([]string(nil), p.Keys...)
	q.Steps = nil
	for _, s := range p.Steps {
		s2 := s
		s2.KVs = append([]kvp(nil), s.KVs...)
		q.Steps = append(q.Steps, s2)
	}
	return &q
}

func kindClass(k string) string { return strings.TrimPrefix(k, "after-trash-") }

func minimise(p *prog, f *failure, tmp string) (*prog, *failure, int) {
	cur, curF := cloneProg(p), f
	runs := 0
	try := func(q *prog) bool {
		if runs > 4000 {
			return false
		}
		runs++
		var st stats
		g, _ := runProgT(cloneProg(q), tmp, &st, 5*time.Second)
		if g != nil && kindClass(g.Kind) == kindClass(f.Kind) {
			cur, curF = q, g
			return true
		}
		return false
	}
	// cheaper backend first (keeps backend-specific failures on their backend)
	if cur.Backend != "mem" {
		q := cloneProg(cur)
		q.Backend = "mem"
		try(q)
	}
	for changed := true; changed; {
		changed = false
		if cur.Sweep && len(cur.Steps) > 0 {
			q := cloneProg(cur)
			q.Sweep = false
			if try(q) {
				changed = true
			}
		}
		for i := len(cur.Steps) - 1; i >= 0; i-- {
			q := cloneProg(cur)
			q.Steps = append(q.Steps[:i], q.Steps[i+1:]...)
			if try(q) {
				changed = true
			}
		}
		for i := 0; i < len(cur.Steps); i++ {
			for j := len(cur.Steps[i].KVs) - 1; j >= 0; j-- {
				q := cloneProg(cur)
				q.Steps[i].KVs = append(q.Steps[i].KVs[:j], q.Steps[i].KVs[j+1:]...)
				if try(q) {
					changed = true
				}
			}
		}
		for i := len(cur.Keys) - 1; i >= 0; i-- {
			q := cloneProg(cur)
			q.Keys = append(q.Keys[:i], q.Keys[i+1:]...)
			if try(q) {
				changed = true
			}
		}
		// a sweep that fails at one cut point becomes one explicit trash step
		if cur.Sweep && strings.Contains(curF.Detail, "sweep") {
			top := int64(-1)
			for _, s := range cur.Steps {
				if s.Op == "add" {
					top++
				} else if s.Op == "deltop" && top >= 0 {
					top--
				}
			}
			for cut := int64(-1); cut <= top+1; cut++ {
				q := cloneProg(cur)
				q.Sweep = false
				q.Steps = append(q.Steps, step{Op: "trash", Cut: cut})
				if try(q) {
					changed = true
					break
				}
			}
		}
	}
	return cur, curF, runs
}

func extClass(s string) string {
	allDigits := func(x string) bool {
		for i := 0; i < len(x); i++ {
			if x[i] < '0' || x[i] > '9' {
				return false
			}
		}
		return len(x) > 0
	}
	c := s[0]
	switch {
	case c < '.':
		return "lt-dot"
	case c == '.':
		r := s[1:]
		switch {
		case r == "":
			return "dot"
		case allDigits(r) && len(r) == 20:
			return "dot-digits20"
		case allDigits(r):
			return "dot-digits"
		case r[0] >= '0' && r[0] <= '9':
			return "dot-digit-prefix"
		case r[0] < '0':
			return "dot-lt-digit"
		default:
			return "dot-gt-digit"
		}
	case c == '/':
		return "slash"
	case c >= '0' && c <= '9':
		return "digit"
	}
	return "gt-digit"
}

func relation(k, other string) string {
	switch {
	case other != k && strings.HasPrefix(other, k):
		return "ext:" + extClass(other[len(k):])
	case other != k && strings.HasPrefix(k, other):
		return "base:" + extClass(k[len(other):])
	}
	return "unrelated"
}

// shapeOf classifies a minimised failing program from its own facts.
func shapeOf(p *prog, f *failure) string {
	written := map[string]bool{}
	empty := false
	for _, s := range p.Steps {
		for _, kv := range s.KVs {
			written[kv.K] = true
			if kv.V == "" {
				empty = true
			}
		}
	}
	var rels []string
	if f.Other != "" {
		rels = append(rels, relation(f.Key, f.Other))
	} else {
		for k := range written {
			if k != f.Key {
				rels = append(rels, relation(f.Key, k))
			}
		}
	}
	sort.Strings(rels)
	rel := strings.Join(rels, "+")
	if rel == "" {
		rel = "single-key"
	}
	sh := f.Kind + "/" + rel
	if empty {
		sh += "/empty-value-write"
	}
	if p.Backend != "mem" {
		sh += "/backend=" + p.Backend
	}
	return sh
}

// ---------------------------------------------------------------------------------------------

func run(c *lib.Ctx) {
	clog.SetLogLevel("crit")
	c.Rule("case = version chain (AddMVCC of the next version / DelMVCC of the top / Trash(cut), then Trash at every cut point on a copy of the final state) over 2-7 keys; " +
		"stratum ext: keys are one stem plus extensions of it by '.', digits, version-like suffixes and bytes sorting around '.' and '0'; stratum plain: unrelated keys; stratum empty: ext + empty-value writes. " +
		"After every step each key is read at every version 0..top+1, top+1000 and 2^40 through the real GetV and compared with a map[key][]{version,value} model. " +
		"non-trivial = the monitor saw >=1 read answered by an older version of a key that was overwritten later AND >=1 read of a key that another written key extends")
	c.Assume("StateDB.Get with MVCC enabled is read through real executor.StateDB objects built with the exported NewStateDB; the unexported enableMVCC (version := local.GetVersion(stateHash)) is mirrored by the harness: it performs the same GetVersion lookup through SimpleMVCC and stores the answer in the private `version` field via reflect/unsafe",
		"GoMemDB/GoLevelDB iterators are trusted to order keys bytewise (decided by C06/C07)",
		"db.LocalDB is wrapped the way executor.LocalDB wraps it (empty listing => ErrNotFound); LocalDB cannot store empty values, so on that backend every version writes >=1 key (a version without writes has an empty key-list record there and DelMVCC answers ErrNotFound: return values of DelMVCC are not part of the statement; for the same reason version 0 is never removed on that backend: SetVersionKV(hash,0) encodes Int64{0} as an empty value, which LocalDB reads as deleted, so GetVersion(hash of version 0) and DelMVCC(0) answer ErrNotFound there)")
	nExt := c.N(1500, 60000)
	nPlain := c.N(200, 8000)
	nEmpty := c.N(150, 6000)
	type job struct {
		stratum string
		idx     int // global case index
		local   int
	}
	var jobs []job
	for i := 0; i < nExt; i++ {
		jobs = append(jobs, job{"ext", len(jobs), i})
	}
	for i := 0; i < nPlain; i++ {
		jobs = append(jobs, job{"plain", len(jobs), i})
	}
	for i := 0; i < nEmpty; i++ {
		jobs = append(jobs, job{"empty", len(jobs), i})
	}
	var mu sync.Mutex
	var hung int32
	reported := map[string]int{}
	lib.Parallel(len(jobs), runtime.NumCPU(), func(j int) {
		jb := jobs[j]
		if c.Skip(jb.idx) {
			return
		}
		rng := c.CaseRng("chain-"+jb.stratum, jb.local)
		p := genProg(rng, jb.stratum, c.Quick())
		if atomic.LoadInt32(&hung) >= 3 {
			c.Count("cases_skipped_after_watchdog", 1)
			return
		}
		var st stats
		f, timedOut := runProgT(cloneProg(p), c.Tmp, &st, 60*time.Second)
		if timedOut {
			atomic.AddInt32(&hung, 1)
			c.Inconclusive("watchdog: case %d (%s) did not finish within 60s: %s", jb.idx, jb.stratum, lib.JSON(p))
			return
		}
		c.Count("cases_"+jb.stratum, 1)
		c.Count("backend_"+p.Backend, 1)
		c.Count("reads", st.reads)
		c.Count("reads_old_version_of_overwritten_key", st.readsOld)
		c.Count("reads_not_found_expected", st.readsNotFound)
		c.Count("reads_of_key_extended_by_another_written_key", st.readsShadow)
		c.Count("add_mvcc", st.adds)
		c.Count("del_mvcc_top", st.dels)
		c.Count("del_restore_cells_compared", st.restoreCmp)
		c.Count("trash_calls", st.trashes)
		c.Count("trash_sweep_cut_points", st.sweepCuts)
		c.Count("trash_records_collected", st.collected)
		c.Count("mvcciter_scans", st.iterScans)
		c.Count("statedb_get_reads_with_mvcc_version", st.stateDBReads)
		c.Count("empty_value_writes", int64(st.emptyWrites))
		nontrivial := st.readsOld > 0 && st.readsShadow > 0
		if jb.stratum == "plain" {
			nontrivial = false // plain chains are the control group, they do not carry the adversarial key relation
		}
		var sample any
		if nontrivial {
			sample = map[string]any{"stratum": jb.stratum, "program": p, "reads": st.reads, "reads_old": st.readsOld}
		}
		c.Case(lib.Fingerprint(p), nontrivial, sample)
		if f == nil {
			return
		}
		c.Count("failing_cases_"+jb.stratum, 1)
		mp, mf, runs := minimise(p, f, c.Tmp)
		c.Count("minimiser_runs", int64(runs))
		sh := shapeOf(mp, mf)
		c.Seen("violation_shapes", sh)
		mu.Lock()
		reported[sh]++
		n := reported[sh]
		mu.Unlock()
		w := map[string]any{"stratum": jb.stratum, "minimal": mp, "failure": mf}
		if n <= 2 {
			w["original"], w["original_failure"] = p, f
		}
		c.Violation(jb.idx, sh, w, "[%s] %s | minimal history: %s", jb.stratum, mf.Detail, lib.JSON(mp))
	})
	if len(reported) > 0 {
		c.Extra("violation_shapes_of_minimal_witnesses", reported)
	}
	c.RequireEvents("reads", 10000)
	c.RequireEvents("trash_calls", 100)
	c.RequireEvents("del_mvcc_top", 50)
}

func main() { lib.Main("C09", "exploration", run) }
