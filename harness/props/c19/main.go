// C19: validity checks (address validity and exact error, pubkey->address, tx sender, signature validity
// at height h) depend only on (input, h, configuration) - not on what the process was asked before, on
// cache contents or on map iteration order.
//
// Oracle: differential against FRESH processes. A generated query history runs in one long-lived child
// (three passes over the history, plus a permuted order in a second child); the canonical answer of every
// distinct query comes from fresh children that are asked only that one question under the same
// configuration (R of them per query: they must agree among themselves as well). Any difference is
// minimised to a two-query history (or to "a fresh process alone is not deterministic") and classified
// by a structural shape.
package main

import (
	"encoding/hex"
	"encoding/json"
	"fmt"
	"sort"
	"strings"
	"sync"
	"time"

	"github.com/33cn/chain33/client"
	"github.com/33cn/chain33/common"
	"github.com/33cn/chain33/common/address"
	"github.com/33cn/chain33/common/crypto"
	cryptocli "github.com/33cn/chain33/common/crypto/client"
	_ "github.com/33cn/chain33/system/address" // btc, btcMultiSign, eth drivers
	"github.com/33cn/chain33/system/address/btc"
	"github.com/33cn/chain33/system/crypto/ed25519"
	_ "github.com/33cn/chain33/system/crypto/init"
	"github.com/33cn/chain33/system/crypto/secp256k1"
	"github.com/33cn/chain33/system/dapp"
	"github.com/33cn/chain33/types"
	"github.com/decred/base58"
	ethcrypto "github.com/ethereum/go-ethereum/crypto"
	"verifharness/lib"
)

// ---------------------------------------------------------------------------------------------
// configuration, queries

type conf struct {
	Name         string           `json:"name"`
	AddrEnable   map[string]int64 `json:"addr_enable"`   // address driver -> enable height (-1 = never)
	CryptoEnable map[string]int64 `json:"crypto_enable"` // crypto driver -> enable height
	Forks        map[string]int64 `json:"forks"`         // ForkMultiSignAddress, ForkBase58AddressCheck, ForkFormatAddressKey
	ExecEnable   int64            `json:"exec_enable"`   // enable height of the registered executor "vexec"
}

const (
	kAddr    = "address.CheckAddress"
	kDapp    = "dapp.CheckAddress"
	kPub     = "PubKeyToAddr"
	kFrom    = "Transaction.From"
	kSign    = "Transaction.CheckSign"
	kSignMem = "TransactionCache.CheckSign"
)

type query struct {
	Kind  string `json:"kind"`
	In    string `json:"in"`              // address string, or hex pubkey, or hex transaction
	Label string `json:"label,omitempty"` // what the input is
	ID    int32  `json:"id,omitempty"`    // address driver id (PubKeyToAddr)
	H     int64  `json:"h"`
}

func (q query) key() string  { return fmt.Sprintf("%s|%s|%d|%d", q.Kind, q.In, q.ID, q.H) }
func (q query) show() string { return fmt.Sprintf("%s(%s%s, h=%d)", q.Kind, q.Label, idStr(q), q.H) }
func idStr(q query) string {
	if q.Kind == kPub {
		return fmt.Sprintf(" as driver %d", q.ID)
	}
	return ""
}

type histIn struct {
	Conf    conf    `json:"conf"`
	Queries []query `json:"queries"`
	Passes  int     `json:"passes"`
}
type histOut struct {
	Answers [][]string `json:"answers"` // [pass][i]
}

// ---------------------------------------------------------------------------------------------
// child: configure the process like a node would, then answer the queries in order

type api struct {
	client.QueueProtocolAPI
	cfg *types.Chain33Config
}

func (a *api) GetConfig() *types.Chain33Config { return a.cfg }

func errS(e error) string {
	if e == nil {
		return "ok"
	}
	return "error:" + e.Error()
}

func childHistory(in []byte) (any, error) {
	var h histIn
	if err := json.Unmarshal(in, &h); err != nil {
		return nil, err
	}
	address.Init(&address.Config{DefaultDriver: "btc", EnableHeight: h.Conf.AddrEnable})
	empty := []byte("{}")
	crypto.Init(&crypto.Config{EnableHeight: h.Conf.CryptoEnable}, map[string][]byte{"secp256k1eth": empty, "sm2": empty, "secp256r1": empty})
	cfg := types.NewChain33Config(types.GetDefaultCfgstring())
	for k, v := range h.Conf.Forks {
		cfg.SetFork(k, v)
	}
	cryptocli.SetQueueAPI(&api{cfg: cfg})
	dapp.Register(cfg, "vexec", func() dapp.Driver { return nil }, h.Conf.ExecEnable)
	memo := map[string]*types.TransactionCache{}
	decodeTx := func(s string) (*types.Transaction, error) {
		b, err := hex.DecodeString(s)
		if err != nil {
			return nil, err
		}
		tx := &types.Transaction{}
		if err := types.Decode(b, tx); err != nil {
			return nil, err
		}
		return tx, nil
	}
	ask := func(q query) (string, error) {
		// the node's current height is the height the question is about
		cryptocli.SetCurrentBlock(q.H, 0)
		switch q.Kind {
		case kAddr:
			return errS(address.CheckAddress(q.In, q.H)), nil
		case kDapp:
			return errS(dapp.CheckAddress(cfg, q.In, q.H)), nil
		case kPub:
			b, err := hex.DecodeString(q.In)
			if err != nil {
				return "", err
			}
			return address.PubKeyToAddr(q.ID, b), nil
		case kFrom:
			tx, err := decodeTx(q.In)
			if err != nil {
				return "", err
			}
			return tx.From(), nil
		case kSign:
			tx, err := decodeTx(q.In)
			if err != nil {
				return "", err
			}
			return fmt.Sprint(tx.CheckSign(q.H)), nil
		case kSignMem:
			// the per-transaction memo object a node keeps (types.TxCacheGet) is reused for the same transaction
			tc := memo[q.In]
			if tc == nil {
				tx, err := decodeTx(q.In)
				if err != nil {
					return "", err
				}
				tc = types.NewTransactionCache(tx)
				memo[q.In] = tc
			}
			return fmt.Sprint(tc.CheckSign(q.H)), nil
		}
		return "", fmt.Errorf("unknown query kind %q", q.Kind)
	}
	out := histOut{}
	if h.Passes < 1 {
		h.Passes = 1
	}
	for p := 0; p < h.Passes; p++ {
		ans := make([]string, len(h.Queries))
		for i, q := range h.Queries {
			a, err := ask(q)
			if err != nil {
				return nil, err
			}
			ans[i] = a
		}
		out.Answers = append(out.Answers, ans)
	}
	return out, nil
}

// ---------------------------------------------------------------------------------------------
// generation

func genConf(c *lib.Ctx, ci int) conf {
	r := c.CaseRng("conf", ci)
	cf := conf{Name: fmt.Sprintf("conf%d", ci)}
	switch ci % 3 {
	case 0: // the configuration of the design note: eth addresses from height 100
		cf.AddrEnable = map[string]int64{"btc": 0, "btcMultiSign": 0, "eth": 100, "utxo": 0}
		cf.CryptoEnable = map[string]int64{"secp256k1": 0, "ed25519": 70}
		cf.Forks = map[string]int64{"ForkMultiSignAddress": 60, "ForkBase58AddressCheck": 80, address.ForkFormatAddressKey: 150}
		cf.ExecEnable = 90
	case 1: // multisig driver late, eth never (by height), format fork early
		cf.AddrEnable = map[string]int64{"btc": 0, "btcMultiSign": 40, "eth": -1, "utxo": 55}
		cf.CryptoEnable = map[string]int64{"secp256k1": 35, "ed25519": 0}
		cf.Forks = map[string]int64{"ForkMultiSignAddress": 120, "ForkBase58AddressCheck": 20, address.ForkFormatAddressKey: 30}
		cf.ExecEnable = 0
	default:
		hs := []int64{0, 25, 50, 75, 110, 160, 240}
		pick := func() int64 { return lib.Pick(r, hs) }
		cf.AddrEnable = map[string]int64{"btc": 0, "btcMultiSign": pick(), "eth": lib.Pick(r, []int64{25, 50, 110, 160}), "utxo": lib.Pick(r, []int64{0, -1, 75})}
		cf.CryptoEnable = map[string]int64{"secp256k1": pick(), "ed25519": lib.Pick(r, []int64{-1, 50, 75, 160})}
		cf.Forks = map[string]int64{"ForkMultiSignAddress": pick(), "ForkBase58AddressCheck": pick(), address.ForkFormatAddressKey: lib.Pick(r, []int64{25, 75, 160, 240})}
		cf.ExecEnable = pick()
	}
	return cf
}

// heights: -1 (no height context), 0, a far height, and both sides of every boundary of the configuration.
func (cf conf) heights() []int64 {
	set := map[int64]bool{-1: true, 0: true, 5000: true}
	add := func(b int64) {
		if b > 0 {
			set[b-1], set[b] = true, true
		}
	}
	for _, m := range []map[string]int64{cf.AddrEnable, cf.CryptoEnable, cf.Forks} {
		for _, b := range m {
			add(b)
		}
	}
	add(cf.ExecEnable)
	var hs []int64
	for h := range set {
		hs = append(hs, h)
	}
	sort.Slice(hs, func(i, j int) bool { return hs[i] < hs[j] })
	return hs
}

type input struct {
	Class string // addr | pub | tx
	In    string
	Label string
}

func b58(ver byte, payload []byte, goodSum bool) string {
	raw := append([]byte{ver}, payload...)
	sum := common.Sha2Sum(raw)[:4]
	if !goodSum {
		sum = []byte{sum[0] ^ 0x55, sum[1], sum[2], sum[3] ^ 1}
	}
	return base58.Encode(append(raw, sum...))
}

// genPool builds the inputs of one configuration: addresses of every kind the drivers distinguish, public keys,
// signed transactions (deterministic signature schemes only).
func genPool(c *lib.Ctx, ci int) (addrs, pubs, txs []input) {
	r := c.CaseRng("pool", ci)
	var secp []crypto.PrivKey
	for i := 0; i < 3; i++ {
		k, err := secp256k1.Driver{}.PrivKeyFromBytes(r.Bytes(32))
		if err != nil {
			panic(err)
		}
		secp = append(secp, k)
	}
	var eds []crypto.PrivKey
	for i := 0; i < 2; i++ {
		k, err := ed25519.Driver{}.PrivKeyFromBytes(r.Bytes(32))
		if err != nil {
			panic(err)
		}
		eds = append(eds, k)
	}
	for i, k := range secp {
		pub := k.PubKey().Bytes()
		pubs = append(pubs, input{"pub", hex.EncodeToString(pub), fmt.Sprintf("secp256k1 key %d", i)})
		addrs = append(addrs, input{"addr", btc.FormatBtcAddr(address.NormalVer, pub), fmt.Sprintf("valid btc address of key %d", i)})
		if i < 2 {
			addrs = append(addrs, input{"addr", btc.FormatBtcAddr(address.MultiSignVer, pub), fmt.Sprintf("multisig-version address of key %d", i)})
		}
		ep, err := ethcrypto.DecompressPubkey(pub)
		if err != nil {
			panic(err)
		}
		ea := ethcrypto.PubkeyToAddress(*ep).Hex()
		addrs = append(addrs, input{"addr", ea, fmt.Sprintf("eth address of key %d (checksum case)", i)})
		if i == 0 {
			addrs = append(addrs, input{"addr", strings.ToLower(ea), "eth address of key 0 (lower case)"})
		}
	}
	pubs = append(pubs, input{"pub", hex.EncodeToString(eds[0].PubKey().Bytes()), "ed25519 key 0 (not a curve point for eth)"})
	h160 := r.Bytes(20)
	addrs = append(addrs,
		input{"addr", b58(0, h160, false), "btc address with a wrong checksum"},
		input{"addr", b58(7, h160, true), "base58 address with unknown version 7"},
		input{"addr", b58(0, r.Bytes(26), true), "31-byte base58 address, version 0, good checksum"},
		input{"addr", b58(0, r.Bytes(24), false), "29-byte base58 address, version 0, wrong checksum"},
		input{"addr", b58(5, r.Bytes(24), false), "29-byte base58 address, version 5, wrong checksum"},
		input{"addr", "bad0", "string invalid for every driver: bad0"},
		input{"addr", "bad" + fmt.Sprint(2+r.Intn(7)), "string invalid for every driver (short base58)"},
		input{"addr", "0x" + hex.EncodeToString(r.Bytes(19)), "0x-string one byte short"},
		input{"addr", "l0OI-not-base58", "string with non-base58 characters"},
		input{"addr", address.ExecAddress("vexec"), "address of the registered executor vexec"},
		input{"addr", "0x" + strings.ToUpper(hex.EncodeToString(r.Bytes(20))), "random eth address (upper-case hex)"},
		input{"addr", hex.EncodeToString(r.Bytes(32)) + ":1", "utxo outpoint txhash:1"},
	)
	mkTx := func(priv crypto.PrivKey, cryptoID, addrID int32, label string, tamper bool) {
		tx := &types.Transaction{Execer: []byte("none"), Payload: r.Bytes(12), Fee: 1000000, Nonce: r.Int63(), To: addrs[0].In}
		tx.Sign(types.EncodeSignID(cryptoID, addrID), priv)
		if tamper {
			tx.Payload[0] ^= 1
		}
		txs = append(txs, input{"tx", hex.EncodeToString(types.Encode(tx)), label})
	}
	mkTx(secp[0], secp256k1.ID, 0, "tx signed secp256k1/btc-address by key 0", false)
	mkTx(secp[1], secp256k1.ID, 2, "tx signed secp256k1/eth-address by key 1", false)
	mkTx(eds[0], ed25519.ID, 0, "tx signed ed25519/btc-address", false)
	mkTx(eds[1], ed25519.ID, 2, "tx signed ed25519/eth-address", false)
	mkTx(secp[2], secp256k1.ID, 1, "tx signed secp256k1/multisig-address by key 2", false)
	mkTx(secp[0], secp256k1.ID, 0, "tx with a tampered payload (secp256k1)", true)
	return
}

// genHistory: a few inputs, each asked at several heights on both sides of the configuration's boundaries, in
// adversarial orders (high then low, low then high, repeated), interleaved.
func genHistory(r *lib.Rng, cf conf, addrs, pubs, txs []input, withMemo bool) []query {
	hs := cf.heights()
	var qs []query
	n := r.Range(14, 26)
	type topic struct {
		in input
		hs []int64
	}
	var topics []topic
	for i, k := 0, r.Range(3, 5); i < k; i++ {
		var in input
		switch x := r.Intn(10); {
		case x < 6:
			in = lib.Pick(r, addrs)
		case x < 8:
			in = lib.Pick(r, pubs)
		default:
			in = lib.Pick(r, txs)
		}
		t := topic{in: in}
		for j, m := 0, r.Range(2, 4); j < m; j++ {
			t.hs = append(t.hs, lib.Pick(r, hs))
		}
		if r.Chance(60) { // make sure two heights straddle some boundary, far apart
			t.hs = append(t.hs, hs[len(hs)-1-r.Intn(2)], hs[r.Intn(3)])
		}
		topics = append(topics, t)
	}
	for len(qs) < n {
		t := lib.Pick(r, topics)
		q := query{In: t.in.In, Label: t.in.Label, H: lib.Pick(r, t.hs)}
		switch t.in.Class {
		case "addr":
			q.Kind = lib.Pick(r, []string{kAddr, kAddr, kDapp})
		case "pub":
			q.Kind = kPub
			q.ID = lib.Pick(r, []int32{0, 1, 2, 2, 2})
		default:
			kinds := []string{kFrom, kSign, kSign}
			if withMemo {
				kinds = append(kinds, kSignMem)
			}
			q.Kind = lib.Pick(r, kinds)
		}
		qs = append(qs, q)
	}
	return qs
}

// ---------------------------------------------------------------------------------------------
// parent

type fresh struct {
	q       query
	answers []string // one per fresh process
}

func (f *fresh) unanimous() bool {
	for _, a := range f.answers[1:] {
		if a != f.answers[0] {
			return false
		}
	}
	return len(f.answers) > 0
}

type runner struct {
	c       *lib.Ctx
	mu      sync.Mutex
	reports map[string]int // pre-class -> number of minimisations done
}

func (rn *runner) child(cf conf, qs []query, passes int) (*histOut, bool) {
	res := rn.c.Child("history", histIn{Conf: cf, Queries: qs, Passes: passes}, lib.ChildOpts{Timeout: 3 * time.Minute, Env: []string{"GOMAXPROCS=2"}})
	if res.TimedOut {
		rn.c.Inconclusive("child timed out (%d queries)", len(qs))
		return nil, false
	}
	var out histOut
	if res.Died || json.Unmarshal(res.Out, &out) != nil || len(out.Answers) != passes {
		rn.c.Inconclusive("child failed (%d queries): exit %d %s", len(qs), res.ExitCode, res.Stderr)
		return nil, false
	}
	rn.c.Count("child_processes", 1)
	return &out, true
}

func diffKind(q query, a, b string) string {
	switch q.Kind {
	case kAddr, kDapp:
		if (a == "ok") != (b == "ok") {
			return "validity"
		}
		return "error-value"
	case kPub, kFrom:
		if strings.EqualFold(a, b) {
			return "address-case"
		}
		return "address"
	}
	return "validity"
}

// side: was the earlier question (at height other) about a higher or a lower height than the later one (h)?
// -1 ("no height context") counts as above every height.
func side(h, other int64) string {
	norm := func(x int64) int64 {
		if x < 0 {
			return 1 << 62
		}
		return x
	}
	switch {
	case h == other:
		return "same-height"
	case norm(other) > norm(h):
		return "asked-higher-first"
	}
	return "asked-lower-first"
}

// mismatch: query q (position pos of history hist) was answered got, a fresh process answers want.
// Minimise and report.
func (rn *runner) mismatch(idx int, cf conf, hist []query, pos int, got string, fr *fresh, how string) {
	q := hist[pos]
	want := fr.answers[0]
	pre := q.Kind + "/" + diffKind(q, got, want)
	rn.c.Count("mismatches", 1)
	rn.mu.Lock()
	rn.reports[pre]++
	k := rn.reports[pre]
	rn.mu.Unlock()
	// beyond the first two of a class a mismatch is only counted when the history contains the usual trigger (the
	// same question about the same input at another height, earlier); every other mismatch is always minimised
	trigger := false
	for i := 0; i < pos; i++ {
		if hist[i].Kind == q.Kind && hist[i].In == q.In && hist[i].ID == q.ID && hist[i].H != q.H {
			trigger = true
		}
	}
	if k > 2 && trigger {
		rn.c.Count("mismatches_beyond_minimisation_budget", 1)
		return
	}
	wit := map[string]any{"configuration": cf, "query": q, "answer_in_history": got, "answer_of_fresh_process": want, "run": how}
	// (1) is a fresh process alone deterministic on q?
	seen := map[string]int{}
	for i := 0; i < 4; i++ {
		if out, ok := rn.child(cf, []query{q}, 1); ok {
			seen[out.Answers[0][0]]++
		}
	}
	seen[want]++
	if len(seen) > 1 {
		wit["fresh_process_answers"] = seen
		rn.c.Violation(idx, "fresh-nondeterministic/"+q.Kind+"/"+diffKindSet(q, seen), wit,
			"%s under %s: fresh processes that are asked only this question give different answers %v", q.show(), cf.Name, seen)
		return
	}
	// (2) a single earlier query that flips the answer
	tried := map[string]bool{}
	var cands []query
	for i := pos - 1; i >= 0; i-- { // same input first
		if hist[i].In == q.In && !tried[hist[i].key()] && hist[i].key() != q.key() {
			tried[hist[i].key()] = true
			cands = append(cands, hist[i])
		}
	}
	for i := pos - 1; i >= 0; i-- {
		if !tried[hist[i].key()] && hist[i].key() != q.key() {
			tried[hist[i].key()] = true
			cands = append(cands, hist[i])
		}
	}
	if len(cands) > 10 {
		cands = cands[:10]
	}
	for _, p := range cands {
		out, ok := rn.child(cf, []query{p, q}, 1)
		if !ok {
			continue
		}
		if a := out.Answers[0][1]; a != want {
			// confirm: the pair must reproduce, and q alone must still give the fresh answer; otherwise the
			// difference comes from q itself not being deterministic
			again, ok2 := rn.child(cf, []query{p, q}, 1)
			alone, ok3 := rn.child(cf, []query{q}, 1)
			if ok3 && alone.Answers[0][0] != want {
				wit["fresh_process_answers"] = map[string]int{want: 1, alone.Answers[0][0]: 1}
				rn.c.Violation(idx, "fresh-nondeterministic/"+q.Kind+"/"+diffKind(q, alone.Answers[0][0], want), wit,
					"%s under %s: fresh processes that are asked only this question give different answers (%q, %q)", q.show(), cf.Name, want, alone.Answers[0][0])
				return
			}
			if ok2 && again.Answers[0][1] == want {
				continue
			}
			wit["minimal_history"] = []query{p, q}
			wit["answer_after_minimal_history"] = a
			rel := "other-input"
			if p.In == q.In {
				rel = "same-input"
			}
			if p.Kind == kPub && q.Kind == kPub && p.ID != q.ID {
				rel += "-other-driver"
			}
			shape := fmt.Sprintf("history/%s<-%s/%s/%s/%s", q.Kind, p.Kind, rel, side(q.H, p.H), diffKind(q, a, want))
			if q.Kind == kPub || q.Kind == kFrom {
				shape += fmt.Sprintf("/driver-%d", pubDriver(q))
			}
			rn.c.Violation(idx, shape, wit, "%s under %s answers %q after %s, a fresh process answers %q", q.show(), cf.Name, a, p.show(), want)
			return
		}
	}
	wit["history"] = hist[:pos+1]
	rn.c.Violation(idx, "history/unminimised/"+pre, wit, "%s under %s answers %q at position %d of the history (%s), a fresh process answers %q; no two-query history reproduces it", q.show(), cf.Name, got, pos, how, want)
}

func pubDriver(q query) int32 {
	if q.Kind == kPub {
		return q.ID
	}
	b, _ := hex.DecodeString(q.In)
	tx := &types.Transaction{}
	if types.Decode(b, tx) != nil {
		return -1
	}
	return types.ExtractAddressID(tx.GetSignature().GetTy())
}

func diffKindSet(q query, seen map[string]int) string {
	var as []string
	for a := range seen {
		as = append(as, a)
	}
	sort.Strings(as)
	worst := "error-value"
	for i := 1; i < len(as); i++ {
		if d := diffKind(q, as[0], as[i]); d != "error-value" {
			worst = d
		}
	}
	return worst
}

func run(c *lib.Ctx) {
	c.Rule("per configuration (non-zero enable heights for address drivers btcMultiSign/eth and crypto drivers secp256k1/ed25519, fork heights ForkMultiSignAddress/ForkBase58AddressCheck/ForkFormatAddressKey, one executor address with an enable height) " +
		"query histories are generated over addresses of every class (valid btc, multisig version, eth in three spellings, wrong checksum, unknown version, over-long base58, strings invalid for all drivers, executor address), public keys and signed transactions, " +
		"each asked at heights on both sides of every boundary (and -1) in adversarial orders; a history runs three passes in one process and once permuted in another; every distinct query is also put to R fresh processes. " +
		"non-trivial history = measured: it asks one input at two heights whose fresh answers differ (a boundary that matters) and the later question was answered after the earlier one in the same process")
	c.Assume("the node's current block height (crypto context) is the height the question is about", "sm2/secp256r1 signatures are randomised and therefore not part of the generated transactions")
	nConf := c.N(3, 6)
	nHist := c.N(8, 50)
	// fresh processes per distinct query: address checks (several drivers may reject one input) get more than the rest
	R := 2
	if !c.Quick() {
		R = 3
	}
	reps := func(q query) int {
		if q.Kind == kAddr || q.Kind == kDapp {
			return R
		}
		return R - 1
	}
	rn := &runner{c: c, reports: map[string]int{}}
	idxBase := 0
	for ci := 0; ci < nConf; ci++ {
		cf := genConf(c, ci)
		addrs, pubs, txs := genPool(c, ci)
		type hcase struct {
			idx  int
			qs   []query
			perm []int
		}
		var hists []hcase
		distinct := map[string]*fresh{}
		var order []string
		for hi := 0; hi < nHist; hi++ {
			idx := idxBase + hi
			if c.Skip(idx) {
				continue
			}
			r := c.CaseRng("history", idx)
			// even histories never reuse a TransactionCache memo object (clean stratum w.r.t. F-C19-4), odd ones do
			withMemo := hi%2 == 1
			qs := genHistory(r, cf, addrs, pubs, txs, withMemo)
			if withMemo {
				c.Count("histories_memo_stratum", 1)
			} else {
				c.Count("histories_clean_stratum", 1)
			}
			hists = append(hists, hcase{idx: idx, qs: qs, perm: r.Perm(len(qs))})
			for _, q := range qs {
				if distinct[q.key()] == nil {
					distinct[q.key()] = &fresh{q: q}
					order = append(order, q.key())
				}
			}
		}
		idxBase += 100000
		if len(hists) == 0 {
			continue
		}
		c.Extra("configuration_"+cf.Name, cf)
		// fresh answers
		type job struct {
			f *fresh
			i int
		}
		var jobs []job
		for _, k := range order {
			f := distinct[k]
			f.answers = make([]string, reps(f.q))
			for i := range f.answers {
				jobs = append(jobs, job{f, i})
			}
		}
		okAll := true
		var okMu sync.Mutex
		lib.Parallel(len(jobs), 16, func(j int) {
			f := jobs[j].f
			out, ok := rn.child(cf, []query{f.q}, 1)
			if !ok {
				okMu.Lock()
				okAll = false
				okMu.Unlock()
				return
			}
			f.answers[jobs[j].i] = out.Answers[0][0]
			c.Count("fresh_process_answers", 1)
		})
		if !okAll {
			continue
		}
		c.Count("distinct_queries", int64(len(order)))
		for _, k := range order {
			f := distinct[k]
			c.Seen("query_kinds", f.q.Kind)
			c.Seen("answers", f.q.Kind+"="+ansClass(f.answers[0]))
			if !f.unanimous() {
				seen := map[string]int{}
				for _, a := range f.answers {
					seen[a]++
				}
				c.Count("fresh_disagreements", 1)
				rn.mu.Lock()
				rn.reports["fresh/"+f.q.Kind]++
				n := rn.reports["fresh/"+f.q.Kind]
				rn.mu.Unlock()
				if n <= 3 {
					c.Violation(hists[0].idx, "fresh-nondeterministic/"+f.q.Kind+"/"+diffKindSet(f.q, seen), map[string]any{"configuration": cf, "query": f.q, "fresh_process_answers": seen},
						"%s under %s: fresh processes that are asked only this question give different answers %v", f.q.show(), cf.Name, seen)
				}
			}
		}
		// histories
		lib.Parallel(len(hists), 8, func(j int) {
			hc := hists[j]
			out, ok := rn.child(cf, hc.qs, 3)
			if !ok {
				return
			}
			pq := make([]query, len(hc.qs))
			for i, p := range hc.perm {
				pq[i] = hc.qs[p]
			}
			pout, ok := rn.child(cf, pq, 1)
			if !ok {
				return
			}
			c.Count("histories", 1)
			c.Count("history_queries", int64(4*len(hc.qs)))
			// measured non-triviality: same input, two heights, different fresh answers, asked in sequence
			straddles := 0
			for i, q := range hc.qs {
				for k := 0; k < i; k++ {
					p := hc.qs[k]
					if p.In == q.In && p.Kind == q.Kind && p.ID == q.ID && p.H != q.H && distinct[p.key()].answers[0] != distinct[q.key()].answers[0] {
						straddles++
						break
					}
				}
			}
			c.Count("boundary_straddling_requeries", int64(straddles))
			c.Case(lib.Fingerprint(hc.qs), straddles > 0, map[string]any{"configuration": cf.Name, "queries": len(hc.qs), "boundary_straddling_requeries": straddles, "first_queries": showN(hc.qs, 6)})
			reported := map[string]bool{}
			check := func(qs []query, ans []string, how string) {
				for i, q := range qs {
					f := distinct[q.key()]
					if !f.unanimous() || reported[q.key()] {
						continue
					}
					if ans[i] != f.answers[0] {
						reported[q.key()] = true
						rn.mismatch(hc.idx, cf, qs, i, ans[i], f, how)
					}
				}
			}
			for p := 0; p < 3; p++ {
				check(hc.qs, out.Answers[p], fmt.Sprintf("generated order, pass %d", p+1))
			}
			check(pq, pout.Answers[0], "permuted order")
		})
	}
	c.RequireEvents("histories", 10)
	c.RequireEvents("fresh_process_answers", 200)
	c.RequireEvents("boundary_straddling_requeries", 30)
}

func ansClass(a string) string {
	switch {
	case a == "ok" || a == "true" || a == "false" || strings.HasPrefix(a, "error:"):
		return a
	case strings.HasPrefix(a, "0x") && a == strings.ToLower(a):
		return "eth-lower"
	case strings.HasPrefix(a, "0x"):
		return "eth-mixed"
	}
	return "base58"
}

func showN(qs []query, n int) []string {
	var out []string
	for i := 0; i < len(qs) && i < n; i++ {
		out = append(out, qs[i].show())
	}
	return out
}

func init() { lib.RegisterChild("history", childHistory) }

func main() { lib.Main("C19", "exploration", run) }
