// C39: RPC access control holds for every request shape.
//
// One child process per generated [rpc] configuration (the ACL maps of package rpc are process globals that are only
// ever added to). The child builds the real rpc.RPC from the TOML, registers sentinel services whose invocation is
// counted, and serves the generated requests
//   - JSON-RPC: through the handler stack JSONRPCServer.Listen hands to http.Serve (verif hook accessor), with an
//     arbitrary http.Request.RemoteAddr,
//   - gRPC: through the real *grpc.Server (real interceptor) on an in-memory listener whose connections report an
//     arbitrary peer address,
//   - eth: through the real ethrpc httpServer.ServeHTTP,
//
// and reports per request which sentinels ran. The parent decides with a predicate written from the statement.
package main

import (
	"bytes"
	cgzip "compress/gzip"
	"context"
	"encoding/base64"
	"encoding/json"
	"fmt"
	"io"
	"net"
	"net/http"
	"net/http/httptest"
	"net/netip"
	"os"
	"sort"
	"strings"
	"sync"
	"sync/atomic"
	"time"

	"github.com/33cn/chain33/client"
	clog "github.com/33cn/chain33/common/log"
	"github.com/33cn/chain33/queue"
	"github.com/33cn/chain33/rpc"
	"github.com/33cn/chain33/rpc/ethrpc"
	"github.com/33cn/chain33/types"
	"google.golang.org/grpc"
	"google.golang.org/grpc/credentials/insecure"
	"google.golang.org/grpc/test/bufconn"
	"verifharness/lib"
)

// ---------------------------------------------------------------------------------------------
// shared data model (parent <-> child)

type cfgSpec struct {
	Whitelist []string `json:"whitelist"` // nil = key absent
	Whitlist  []string `json:"whitlist"`  // legacy key
	JWhite    []string `json:"jrpcFuncWhitelist"`
	JBlack    []string `json:"jrpcFuncBlacklist"`
	GWhite    []string `json:"grpcFuncWhitelist"`
	GBlack    []string `json:"grpcFuncBlacklist"`
	User      string   `json:"user"`
	Pass      string   `json:"pass"`
}

type clientTruth struct {
	Valid    bool   `json:"valid"`    // RemoteAddr is a well-formed host:port with an IP host
	IP       string `json:"ip"`       // what the generator put in as host (textual form as sent)
	Loopback bool   `json:"loopback"` // generator chose a loopback address
	Form     string `json:"form"`
}

type authTruth struct {
	Form string `json:"form"`
	OK   bool   `json:"ok"` // a well-formed Basic credential carrying exactly user:pass
}

type reqSpec struct {
	EP     string      `json:"ep"` // jrpc | grpc | eth
	Remote string      `json:"remote"`
	Client clientTruth `json:"client"`
	// http
	HTTPMethod string      `json:"http_method,omitempty"`
	Path       string      `json:"path,omitempty"`
	Headers    [][2]string `json:"headers,omitempty"`
	Body       []byte      `json:"body,omitempty"`
	Chunked    bool        `json:"chunked,omitempty"`
	Auth       authTruth   `json:"auth"`
	// grpc
	GMethod  string `json:"gmethod,omitempty"`
	PeerKind string `json:"peer_kind,omitempty"` // tcp | ipnet | unix
	PeerIP   string `json:"peer_ip,omitempty"`
	PeerZone string `json:"peer_zone,omitempty"`
	GGzip    bool   `json:"ggzip,omitempty"`
	// labels
	Dims  map[string]string `json:"dims"`
	Probe bool              `json:"probe,omitempty"` // plain request used for the address-equivalence clause
}

type outcome struct {
	Hits   map[string]int `json:"hits,omitempty"`
	Status int            `json:"status,omitempty"`
	Reply  string         `json:"reply,omitempty"`
	Err    string         `json:"err,omitempty"`
	Panic  string         `json:"panic,omitempty"`
}

type childIn struct {
	Spec cfgSpec   `json:"spec"`
	Reqs []reqSpec `json:"reqs"`
}

type childOut struct {
	Outcomes []outcome `json:"outcomes"`
	Setup    string    `json:"setup"`
}

// ---------------------------------------------------------------------------------------------
// child: real servers + sentinels

var (
	hitMu sync.Mutex
	hits  = map[string]int{}
)

func hit(name string) {
	hitMu.Lock()
	hits[name]++
	hitMu.Unlock()
}

func takeHits() map[string]int {
	hitMu.Lock()
	defer hitMu.Unlock()
	h := hits
	hits = map[string]int{}
	if len(h) == 0 {
		return nil
	}
	return h
}

// stubAPI stands behind the real Chain33 / types.chain33 / eth handlers; the three methods below are the observed ones.
type stubAPI struct {
	client.QueueProtocolAPI
	cfg *types.Chain33Config
}

func (s *stubAPI) Version() (*types.VersionInfo, error) {
	hit("api.Version")
	return &types.VersionInfo{Title: "verif", App: "verif", Chain33: "verif", LocalDb: "verif"}, nil
}
func (s *stubAPI) GetLastHeader() (*types.Header, error) {
	hit("api.GetLastHeader")
	return &types.Header{Height: 7, BlockTime: 1600000000}, nil
}
func (s *stubAPI) IsSync() (*types.Reply, error) {
	hit("api.IsSync")
	return &types.Reply{IsOk: true}, nil
}
func (s *stubAPI) GetConfig() *types.Chain33Config { return s.cfg }
func (s *stubAPI) Close()                          {}

// Token is the parameter of the JSON-RPC sentinels.
type Token struct {
	Token string `json:"token"`
}

// Verif is a JSON-RPC sentinel service registered on the real rpc.Server next to Chain33.
type Verif struct{ name string }

func (v *Verif) Ping(in *Token, out *interface{}) error {
	hit(v.name + ".Ping")
	*out = "pong"
	return nil
}
func (v *Verif) Pong(in *Token, out *interface{}) error {
	hit(v.name + ".Pong")
	*out = "ping"
	return nil
}
func (v *Verif) CloseQueue(in *Token, out *interface{}) error {
	hit(v.name + ".CloseQueue")
	*out = "closed"
	return nil
}
func (v *Verif) Version(in *Token, out *interface{}) error {
	hit(v.name + ".Version")
	*out = "v"
	return nil
}

var gSentinelMethods = []string{"Ping", "Pong", "CloseQueue", "Version"}

func sentinelDesc() *grpc.ServiceDesc {
	d := &grpc.ServiceDesc{ServiceName: "verif.Sentinel", HandlerType: (*interface{})(nil), Metadata: "verif"}
	for _, name := range gSentinelMethods {
		name := name
		d.Methods = append(d.Methods, grpc.MethodDesc{MethodName: name,
			Handler: func(srv interface{}, ctx context.Context, dec func(interface{}) error, interceptor grpc.UnaryServerInterceptor) (interface{}, error) {
				in := new(types.ReqString)
				if err := dec(in); err != nil {
					return nil, err
				}
				h := func(ctx context.Context, req interface{}) (interface{}, error) {
					hit("g:verif.Sentinel/" + name)
					return &types.Reply{IsOk: true}, nil
				}
				if interceptor == nil {
					return h(ctx, in)
				}
				// same shape as protoc-generated handlers: FullMethod is the registered name
				return interceptor(ctx, in, &grpc.UnaryServerInfo{Server: srv, FullMethod: "/verif.Sentinel/" + name}, h)
			}})
	}
	return d
}

// fakeListener hands the gRPC server in-memory connections that report a chosen peer address.
type fakeListener struct {
	*bufconn.Listener
	mu   sync.Mutex
	next net.Addr
}

type addrConn struct {
	net.Conn
	remote net.Addr
}

func (c addrConn) RemoteAddr() net.Addr { return c.remote }

func (l *fakeListener) Accept() (net.Conn, error) {
	c, err := l.Listener.Accept()
	if err != nil {
		return nil, err
	}
	l.mu.Lock()
	a := l.next
	l.mu.Unlock()
	return addrConn{Conn: c, remote: a}, nil
}

type unixAddr struct{ s string }

func (u unixAddr) Network() string { return "unix" }
func (u unixAddr) String() string  { return u.s }

func tomlList(key string, v []string) string {
	if v == nil {
		return ""
	}
	b, _ := json.Marshal(v)
	return key + "=" + string(b) + "\n"
}

func (s cfgSpec) toml() string {
	base := types.GetDefaultCfgstring()
	i := strings.Index(base, "[rpc]\n")
	j := strings.Index(base, "[rpc.parachain]")
	if i < 0 || j < i {
		panic("c39: default config lost its [rpc] section")
	}
	r := "[rpc]\njrpcBindAddr=\"localhost:0\"\ngrpcBindAddr=\"localhost:0\"\n"
	r += tomlList("whitelist", s.Whitelist) + tomlList("whitlist", s.Whitlist)
	r += tomlList("jrpcFuncWhitelist", s.JWhite) + tomlList("jrpcFuncBlacklist", s.JBlack)
	r += tomlList("grpcFuncWhitelist", s.GWhite) + tomlList("grpcFuncBlacklist", s.GBlack)
	if s.User != "" || s.Pass != "" {
		u, _ := json.Marshal(s.User)
		p, _ := json.Marshal(s.Pass)
		r += "jrpcUserName=" + string(u) + "\njrpcUserPasswd=" + string(p) + "\n"
	}
	r += "[rpc.sub.eth]\nenable=false\nhttpAddr=\"localhost:0\"\nhttpApi=[\"eth\",\"web3\",\"net\"]\nweb3CliVer=\"verif-sentinel\"\n\n"
	return base[:i] + r + base[j:]
}

func serveChild(in []byte) (any, error) {
	var ci childIn
	if err := json.Unmarshal(in, &ci); err != nil {
		return nil, err
	}
	tStart := time.Now()
	clog.SetLogLevel("crit")
	queue.DisableLog()
	cfg := types.NewChain33Config(ci.Spec.toml())
	rc := cfg.GetModuleConfig().RPC
	setup := fmt.Sprintf("whitelist=%q whitlist=%q jw=%q jb=%q gw=%q gb=%q user=%q", rc.Whitelist, rc.Whitlist, rc.JrpcFuncWhitelist, rc.JrpcFuncBlacklist,
		rc.GrpcFuncWhitelist, rc.GrpcFuncBlacklist, rc.JrpcUserName)
	q := queue.New("channel")
	q.SetConfig(cfg)
	api := &stubAPI{cfg: cfg}
	r := rpc.New(cfg)
	r.SetAPI(api)
	r.SetQueueClientNoListen(q.Client())
	for _, svc := range []string{"Verif", "Aux"} {
		if err := r.JRPC().RegisterName(svc, &Verif{name: svc}); err != nil {
			return nil, err
		}
	}
	r.GRPC().RegisterService(sentinelDesc(), struct{}{})
	r.Listen()
	jh := r.VerifJSONRPCHandler()
	if jh == nil {
		return nil, fmt.Errorf("JSON-RPC handler was not captured by Listen")
	}
	fl := &fakeListener{Listener: bufconn.Listen(1 << 20)}
	go r.GRPC().Serve(fl)
	es := ethrpc.NewHTTPServer(q.Client(), api)
	es.EnableRPC()
	eh, ok := es.(http.Handler)
	if !ok {
		return nil, fmt.Errorf("eth server is not an http.Handler")
	}

	out := childOut{Setup: setup}
	t0 := time.Now()
	spent := map[string]time.Duration{}
	defer func() {
		if os.Getenv("VERIF_DEBUG") != "" {
			fmt.Fprintf(os.Stderr, "child timing: setup %v per-endpoint %v\n", t0.Sub(tStart), spent)
		}
	}()
	for _, rq := range ci.Reqs {
		takeHits()
		var oc outcome
		t1 := time.Now()
		func() {
			defer func() {
				if p := recover(); p != nil {
					oc.Panic = fmt.Sprint(p)
				}
			}()
			switch rq.EP {
			case "jrpc":
				oc = serveHTTP(jh, rq)
			case "eth":
				oc = serveHTTP(eh, rq)
			case "grpc":
				oc = serveGRPC(fl, rq)
			}
		}()
		oc.Hits = takeHits()
		spent[rq.EP] += time.Since(t1)
		out.Outcomes = append(out.Outcomes, oc)
	}
	return out, nil
}

type chunkReader struct{ r io.Reader }

func (c chunkReader) Read(p []byte) (int, error) { return c.r.Read(p) }

func serveHTTP(h http.Handler, rq reqSpec) outcome {
	var body io.Reader = bytes.NewReader(rq.Body)
	if rq.Chunked {
		body = chunkReader{bytes.NewReader(rq.Body)} // unknown length, as with chunked transfer encoding
	}
	target := "http://rpc.example" + rq.Path
	req, err := http.NewRequest(rq.HTTPMethod, target, body)
	if err != nil {
		return outcome{Err: "build: " + err.Error()}
	}
	if rq.Path == "*" {
		req.URL.Path = "*"
	}
	req.RequestURI = rq.Path
	for _, kv := range rq.Headers {
		req.Header.Add(kv[0], kv[1])
	}
	req.RemoteAddr = rq.Remote
	w := httptest.NewRecorder()
	h.ServeHTTP(w, req)
	b := w.Body.Bytes()
	if w.Header().Get("Content-Encoding") == "gzip" {
		if zr, err := gzipReader(b); err == nil {
			b = zr
		}
	}
	s := string(b)
	if len(s) > 160 {
		s = s[:160]
	}
	return outcome{Status: w.Code, Reply: s}
}

func gzipReader(b []byte) ([]byte, error) {
	zr, err := cgzip.NewReader(bytes.NewReader(b))
	if err != nil {
		return nil, err
	}
	return io.ReadAll(zr)
}

func serveGRPC(fl *fakeListener, rq reqSpec) outcome {
	var a net.Addr
	switch rq.PeerKind {
	case "ipnet":
		ip := net.ParseIP(rq.PeerIP)
		a = &net.IPNet{IP: ip, Mask: net.CIDRMask(32, 32)}
	case "unix":
		a = unixAddr{rq.Remote}
	default:
		a = &net.TCPAddr{IP: net.ParseIP(rq.PeerIP), Port: 40000 + len(rq.Remote), Zone: rq.PeerZone}
	}
	fl.mu.Lock()
	fl.next = a
	fl.mu.Unlock()
	ctx, cancel := context.WithTimeout(context.Background(), 45*time.Second)
	defer cancel()
	conn, err := grpc.DialContext(ctx, "passthrough:///verif", grpc.WithContextDialer(func(ctx context.Context, _ string) (net.Conn, error) {
		return fl.Listener.DialContext(ctx)
	}), grpc.WithTransportCredentials(insecure.NewCredentials()), grpc.WithBlock())
	if err != nil {
		return outcome{Err: "dial: " + err.Error()}
	}
	defer conn.Close()
	var opts []grpc.CallOption
	if rq.GGzip {
		opts = append(opts, grpc.UseCompressor("gzip"))
	}
	var reply types.Reply
	var in interface{} = &types.ReqString{Data: "t"}
	var outMsg interface{} = &reply
	if strings.Contains(rq.GMethod, "chain33") {
		in = &types.ReqNil{}
		switch {
		case strings.HasSuffix(rq.GMethod, "Version"):
			outMsg = &types.VersionInfo{}
		case strings.HasSuffix(rq.GMethod, "GetLastHeader"):
			outMsg = &types.Header{}
		}
	}
	err = conn.Invoke(ctx, rq.GMethod, in, outMsg, opts...)
	if err != nil {
		s := err.Error()
		if len(s) > 160 {
			s = s[:160]
		}
		return outcome{Err: s}
	}
	return outcome{Status: 200}
}

// ---------------------------------------------------------------------------------------------
// parent: generators

var universe4 = []string{"10.1.2.3", "192.168.7.9", "8.8.8.8", "172.16.0.1", "203.0.113.77", "100.64.1.1"}
var universe6 = []string{"2001:db8::1", "fd00::5", "2001:db8:0:1::a0", "fe80::1"}

func subset(rng *lib.Rng, xs []string, min, max int) []string {
	n := rng.Range(min, max)
	p := rng.Perm(len(xs))
	var out []string
	for i := 0; i < n && i < len(xs); i++ {
		out = append(out, xs[p[i]])
	}
	return out
}

func ipList(rng *lib.Rng) []string {
	all := append(append([]string{}, universe4...), universe6...)
	l := subset(rng, all, 1, 4)
	for i := range l {
		switch rng.Intn(12) {
		case 0: // non-canonical spellings in the configuration
			if strings.Contains(l[i], ":") {
				l[i] = strings.ToUpper(l[i])
			} else {
				l[i] = "::ffff:" + l[i]
			}
		case 1:
			if l[i] == "fe80::1" {
				l[i] = "fe80::1%eth0"
			}
		}
	}
	if rng.Chance(8) {
		l = append(l, lib.Pick(rng, []string{"127.0.0.1", "*", "localhost", "10.1.2.0/24", "::1"}))
	}
	if rng.Chance(4) {
		l = append(l, "0.0.0.0")
	}
	return l
}

var jFuncs = []string{"Ping", "Pong", "CloseQueue", "Version", "GetLastHeader", "IsSync"}
var gFuncs = []string{"Ping", "Pong", "CloseQueue", "Version", "GetLastHeader", "IsSync"}

func funcLists(rng *lib.Rng, funcs []string) (white, black []string) {
	switch rng.Intn(6) {
	case 0: // absent
	case 1:
		white = []string{"*"}
	case 2:
		white = []string{}
	case 3:
		white = append(subset(rng, funcs, 1, 4), "*")
	default:
		white = subset(rng, funcs, 1, 5)
		if rng.Chance(30) {
			white = append(white, "GetPeerInfo", "ping")
		}
	}
	switch rng.Intn(5) {
	case 0:
	case 1:
		black = []string{}
	default:
		black = subset(rng, funcs, 1, 3)
		if rng.Chance(20) {
			black = append(black, "*")
		}
	}
	return
}

func genSpec(rng *lib.Rng, i int) cfgSpec {
	var s cfgSpec
	shape := i % 10
	switch shape {
	case 0: // legacy key only
		s.Whitlist = ipList(rng)
	case 1: // new key only
		s.Whitelist = ipList(rng)
	case 2: // both keys, different lists
		s.Whitelist, s.Whitlist = ipList(rng), ipList(rng)
	case 3: // both keys, legacy wildcard
		s.Whitelist, s.Whitlist = ipList(rng), []string{"*"}
	case 4:
		if rng.Bool() {
			s.Whitelist = []string{"*"}
		} else {
			s.Whitlist = []string{"*"}
		}
	case 5: // none / empty
		if rng.Bool() {
			s.Whitelist = []string{}
		}
		if rng.Bool() {
			s.Whitlist = []string{}
		}
	case 6:
		s.Whitelist, s.Whitlist = []string{"*"}, ipList(rng)
	case 7:
		s.Whitlist = ipList(rng)
		if rng.Bool() {
			s.Whitelist = []string{}
		}
	default:
		switch rng.Intn(3) {
		case 0:
			s.Whitelist = ipList(rng)
		case 1:
			s.Whitlist = ipList(rng)
		default:
			s.Whitelist, s.Whitlist = ipList(rng), ipList(rng)
		}
	}
	s.JWhite, s.JBlack = funcLists(rng, jFuncs)
	s.GWhite, s.GBlack = funcLists(rng, gFuncs)
	if rng.Chance(45) {
		s.User = lib.Pick(rng, []string{"chain33", "admin", "u s e r", "ü", ""})
		s.Pass = lib.Pick(rng, []string{"secret", "p:w", "pass word", "", "π"})
		if s.User == "" && s.Pass == "" {
			s.Pass = "only-pass"
		}
	}
	return s
}

// clients enumerates remote address forms for one configuration: every listed address in several spellings, addresses
// outside the lists, loopback forms, malformed ones.
func genClient(rng *lib.Rng, s cfgSpec) (remote string, ct clientTruth, peerZone string) {
	return genClientForm(rng, s, false)
}

// genClientForm: canonical = only textual forms a real transport reports (net.TCPAddr.String()).
func genClientForm(rng *lib.Rng, s cfgSpec, canonical bool) (remote string, ct clientTruth, peerZone string) {
	listed := append(append([]string{}, s.Whitelist...), s.Whitlist...)
	var host string
	switch k := rng.Intn(20); {
	case k < 8 && len(listed) > 0:
		host = lib.Pick(rng, listed)
		ct.Form = "listed"
	case k < 14:
		host = lib.Pick(rng, append(append([]string{}, universe4...), universe6...))
		ct.Form = "universe"
	case k < 16:
		host = lib.Pick(rng, []string{"127.0.0.1", "127.8.9.1", "::1", "::ffff:127.0.0.1", "0:0:0:0:0:0:0:1"})
		ct.Form, ct.Loopback = "loopback", true
	case k < 18:
		host = lib.Pick(rng, []string{"9.9.9.9", "2001:db8::dead", "169.254.1.1", "0.0.0.0", "255.255.255.255", "::", "::ffff:0.0.0.0", "224.0.0.1"})
		ct.Form = "foreign"
	default:
		// RemoteAddr strings no transport produces; host = the host part where the string has the host:port form
		// (entries that are not IP literals match a client only by the identical string), "\x00" = no host at all
		bad := lib.Pick(rng, [][2]string{{"", "\x00"}, {"garbage", "\x00"}, {"10.1.2.3", "\x00"}, {"10.1.2.3:80:90", "\x00"}, {":80", ""}, {"[::1", "\x00"},
			{"*:80", "*"}, {"localhost:80", "localhost"}, {"@", "\x00"}, {"10.1.2.3.:80", "10.1.2.3."}, {"0x0a010203:80", "0x0a010203"}, {"010.001.002.003:80", "010.001.002.003"},
			{"10.1.2.0/24:80", "10.1.2.0/24"}})
		return bad[0], clientTruth{Form: "malformed", IP: bad[1]}, ""
	}
	// re-spell
	a, err := netip.ParseAddr(host)
	if err != nil {
		// a listed entry that is not an IP literal ("*", "localhost", a CIDR): usable as a raw RemoteAddr host only
		return host + ":4040", clientTruth{Form: "listed-non-ip", IP: host}, ""
	}
	if canonical {
		host = a.Unmap().String()
		ct.Form += "+canonical"
	} else {
		switch rng.Intn(10) {
		case 0:
			if a.Is4() {
				host = "::ffff:" + host
				ct.Form += "+v4mapped"
			}
		case 1:
			if a.Is6() && !a.Is4In6() {
				host = a.StringExpanded()
				ct.Form += "+expanded"
			}
		case 2:
			if a.Is6() {
				host = strings.ToUpper(host)
				ct.Form += "+upper"
			}
		case 3:
			if a.Is6() && a.Zone() == "" && !a.Is4In6() {
				host = host + "%eth0"
				ct.Form += "+zone"
			}
		}
	}
	ct.IP = host
	ct.Valid = true
	// loopback is decided from the address itself (listed entries may be loopback addresses)
	if a.WithZone("").Unmap().IsLoopback() {
		ct.Loopback = true
	}
	if i := strings.Index(host, "%"); i >= 0 {
		peerZone = host[i+1:]
	}
	port := rng.Range(1024, 65535)
	if strings.Contains(host, ":") {
		return fmt.Sprintf("[%s]:%d", host, port), ct, peerZone
	}
	return fmt.Sprintf("%s:%d", host, port), ct, peerZone
}

func b64(s string) string { return base64.StdEncoding.EncodeToString([]byte(s)) }

func genAuth(rng *lib.Rng, s cfgSpec, wantOK bool) (hdrs [][2]string, at authTruth) {
	configured := s.User != "" || s.Pass != ""
	if !configured {
		at.OK = true
		if rng.Chance(10) {
			at.Form = "unconfigured+header"
			return [][2]string{{"Authorization", "Basic " + b64("x:y")}}, at
		}
		at.Form = "unconfigured"
		return nil, at
	}
	good := b64(s.User + ":" + s.Pass)
	if wantOK {
		switch rng.Intn(8) {
		case 0:
			at.Form, at.OK = "basic-lowercase-scheme", true
			return [][2]string{{"Authorization", "basic " + good}}, at
		case 1:
			at.Form, at.OK = "basic-uppercase-scheme", true
			return [][2]string{{"Authorization", "BASIC " + good}}, at
		default:
			at.Form, at.OK = "basic-ok", true
			return [][2]string{{"Authorization", "Basic " + good}}, at
		}
	}
	switch rng.Intn(14) {
	case 0:
		at.Form = "none"
		return nil, at
	case 1:
		at.Form = "wrong-pass"
		return [][2]string{{"Authorization", "Basic " + b64(s.User+":"+s.Pass+"x")}}, at
	case 2:
		at.Form = "wrong-user"
		return [][2]string{{"Authorization", "Basic " + b64("x"+s.User+":"+s.Pass)}}, at
	case 3:
		at.Form = "empty-pass"
		if s.Pass == "" {
			return [][2]string{{"Authorization", "Basic " + b64(s.User+"x:")}}, at
		}
		return [][2]string{{"Authorization", "Basic " + b64(s.User+":")}}, at
	case 4:
		at.Form = "swapped"
		if s.User == s.Pass {
			return nil, at
		}
		return [][2]string{{"Authorization", "Basic " + b64(s.Pass+":"+s.User)}}, at
	case 5:
		at.Form = "not-base64"
		return [][2]string{{"Authorization", "Basic " + s.User + ":" + s.Pass}}, at
	case 6:
		// (a wrong scheme token with the RIGHT credentials is not judged: whether "basic auth says no" to it is a
		// matter of interpretation, so the form carries wrong credentials instead)
		at.Form = "scheme-bearer-wrong-creds"
		return [][2]string{{"Authorization", "Bearer " + b64(s.User+"x:"+s.Pass)}}, at
	case 7:
		at.Form = "scheme-digest-wrong-creds"
		return [][2]string{{"Authorization", "Digest " + b64(s.User+":"+s.Pass+"x")}}, at
	case 8:
		at.Form = "no-scheme"
		return [][2]string{{"Authorization", good}}, at
	case 9:
		at.Form = "second-header-right"
		return [][2]string{{"Authorization", "Basic " + b64("a:b")}, {"Authorization", "Basic " + good}}, at
	case 10:
		at.Form = "proxy-authorization-only"
		return [][2]string{{"Proxy-Authorization", "Basic " + good}}, at
	case 11:
		at.Form = "case-changed-creds"
		alt := strings.ToUpper(s.User) + ":" + strings.ToUpper(s.Pass)
		if alt == s.User+":"+s.Pass {
			alt += "x"
		}
		return [][2]string{{"Authorization", "Basic " + b64(alt)}}, at
	case 12:
		at.Form = "extra-colon-suffix"
		return [][2]string{{"Authorization", "Basic " + b64(s.User+":"+s.Pass+":x")}}, at
	default:
		at.Form = "truncated-base64"
		g := strings.TrimRight(good, "=")
		if len(g) > 2 {
			g = g[:len(g)-2]
		}
		return [][2]string{{"Authorization", "Basic " + g}}, at
	}
}

type kv struct{ k, v string } // raw JSON key (unquoted text between quotes) and raw JSON value

func rawJSON(pairs []kv) []byte {
	var b bytes.Buffer
	b.WriteByte('{')
	for i, p := range pairs {
		if i > 0 {
			b.WriteByte(',')
		}
		b.WriteString(`"` + p.k + `":` + p.v)
	}
	b.WriteByte('}')
	return b.Bytes()
}

func jstr(s string) string { b, _ := json.Marshal(s); return string(b) }

var jSentinels = []string{"Verif.Ping", "Verif.Pong", "Verif.CloseQueue", "Verif.Version", "Aux.Ping", "Chain33.Version", "Chain33.GetLastHeader", "Chain33.IsSync"}

func funcOf(name string) string {
	i := strings.LastIndexAny(name, "./")
	return name[i+1:]
}

func genJRPC(rng *lib.Rng, s cfgSpec, plain bool) reqSpec {
	rq := reqSpec{EP: "jrpc", HTTPMethod: "POST", Path: "/", Dims: map[string]string{}}
	var zone string
	rq.Remote, rq.Client, zone = genClient(rng, s)
	_ = zone
	target := lib.Pick(rng, jSentinels)
	other := lib.Pick(rng, jSentinels)
	hdrs, at := genAuth(rng, s, plain || rng.Chance(70))
	rq.Headers, rq.Auth = hdrs, at
	rq.Dims["auth"] = at.Form
	rq.Dims["addr"] = rq.Client.Form
	name := jstr(target)
	nameForm := "exact"
	if !plain {
		switch rng.Intn(16) {
		case 0:
			name, nameForm = jstr(strings.ToLower(target)), "lower"
		case 1:
			i := strings.Index(target, ".")
			name, nameForm = jstr(target[:i+1]+strings.ToLower(target[i+1:])), "lower-method"
		case 2:
			name, nameForm = jstr(funcOf(target)), "no-service"
		case 3:
			name, nameForm = jstr("X."+target), "extra-prefix"
		case 4:
			name, nameForm = jstr(target+"."), "trailing-dot"
		case 5:
			name, nameForm = jstr(strings.Replace(target, ".", "..", 1)), "double-dot"
		case 6:
			// \u-escaped letters decode to the exact name
			f := funcOf(target)
			name, nameForm = `"`+target[:len(target)-len(f)]+fmt.Sprintf(`\u%04x`, f[0])+f[1:]+`"`, "unicode-escape"
		case 7:
			name, nameForm = jstr(target+" "), "trailing-space"
		case 8:
			name, nameForm = jstr(target+"\x00"), "trailing-nul"
		case 9:
			name, nameForm = jstr(strings.Replace(target, ".", "．", 1)), "fullwidth-dot"
		case 10:
			name, nameForm = jstr(funcOf(other)+"."+target), "func-prefix"
		case 11:
			name, nameForm = jstr(target+"."+funcOf(other)), "func-suffix"
		}
	}
	rq.Dims["name"] = nameForm
	pairs := []kv{}
	keyForm := "method"
	methodKey := "method"
	if !plain {
		switch rng.Intn(12) {
		case 0:
			methodKey, keyForm = "Method", "Method"
		case 1:
			methodKey, keyForm = "METHOD", "METHOD"
		case 2:
			methodKey, keyForm = `\u006dethod`, "escaped-key"
		case 3:
			methodKey, keyForm = "mEtHoD", "mixed"
		}
	}
	// params
	params, pForm := `[{"token":"t"}]`, "array-object"
	if !plain {
		switch rng.Intn(12) {
		case 0:
			params, pForm = `[]`, "empty-array"
		case 1:
			params, pForm = `[{}]`, "array-empty-object"
		case 2:
			params, pForm = `[null]`, "array-null"
		case 3:
			params, pForm = `[{"token":"t"},{"x":1}]`, "array-two"
		case 4:
			params, pForm = `{"token":"t"}`, "object"
		case 5:
			params, pForm = `null`, "null"
		case 6:
			params, pForm = ``, "missing"
		case 7:
			params, pForm = `[{"token":"t","Token":"u","extra":{"a":[1,2,{"b":null}]}}]`, "extra-fields"
		}
	}
	id, idForm := "1", "number"
	if !plain {
		switch rng.Intn(10) {
		case 0:
			id, idForm = `"abc"`, "string"
		case 1:
			id, idForm = `-1`, "negative"
		case 2:
			id, idForm = `1.5`, "float"
		case 3:
			id, idForm = `18446744073709551616`, "overflow"
		case 4:
			id, idForm = ``, "missing"
		case 5:
			id, idForm = `null`, "null"
		}
	}
	rq.Dims["params"], rq.Dims["id"] = pForm, idForm
	dup := ""
	if !plain {
		switch rng.Intn(10) {
		case 0: // duplicate key: other first, target last
			pairs = append(pairs, kv{methodKey, jstr(other)})
			dup = "dup-other-first"
		case 1: // duplicate key with a different spelling of the key
			pairs = append(pairs, kv{"Method", jstr(other)})
			dup = "dup-case-first"
		}
	}
	if rng.Chance(50) || plain {
		pairs = append(pairs, kv{"jsonrpc", `"2.0"`})
	}
	pairs = append(pairs, kv{methodKey, name})
	if params != "" {
		pk := "params"
		if !plain && rng.Chance(8) {
			pk = lib.Pick(rng, []string{"Params", "PARAMS", "paramſ"})
			keyForm += "+" + pk
		}
		pairs = append(pairs, kv{pk, params})
	}
	if id != "" {
		pairs = append(pairs, kv{"id", id})
	}
	if !plain {
		switch rng.Intn(10) {
		case 0:
			pairs = append(pairs, kv{methodKey, jstr(other)})
			dup = "dup-other-last"
		case 1:
			pairs = append(pairs, kv{"METHOD", jstr(other)})
			dup = "dup-case-last"
		case 2:
			pairs = append(pairs, kv{"extra", `{"method":` + jstr(other) + `}`})
			dup = "nested-method"
		}
	}
	if dup != "" {
		keyForm += "+" + dup
	}
	rq.Dims["key"] = keyForm
	body := rawJSON(pairs)
	enc := "plain"
	if !plain {
		switch rng.Intn(16) {
		case 0:
			body, enc = append([]byte("\xef\xbb\xbf"), body...), "utf8-bom"
		case 1:
			body, enc = append([]byte(" \r\n\t"), body...), "leading-ws"
		case 2:
			body, enc = append(body, '\n'), "trailing-newline"
		case 3:
			body, enc = append(body, rawJSON([]kv{{"method", jstr(other)}, {"params", "[{}]"}, {"id", "2"}})...), "two-values"
		case 4:
			var zb bytes.Buffer
			zw := cgzip.NewWriter(&zb)
			zw.Write(body)
			zw.Close()
			body, enc = zb.Bytes(), "gzip-body"
			rq.Headers = append(rq.Headers, [2]string{"Content-Encoding", "gzip"})
		case 5:
			rq.Headers = append(rq.Headers, [2]string{"Accept-Encoding", "gzip"})
			enc = "accept-gzip"
		case 6:
			rq.Chunked, enc = true, "chunked"
		case 7:
			body, enc = append([]byte("["), append(body, ']')...), "batch-array"
		case 8:
			u := make([]byte, 0, 2*len(body)+2)
			u = append(u, 0xff, 0xfe)
			for _, c := range body {
				u = append(u, c, 0)
			}
			body, enc = u, "utf16"
		}
	}
	rq.Dims["body"] = enc
	rq.Body = body
	if !plain {
		switch rng.Intn(14) {
		case 0:
			rq.HTTPMethod = "GET"
		case 1:
			rq.HTTPMethod = "PUT"
		case 2:
			rq.HTTPMethod = "OPTIONS"
		case 3:
			rq.HTTPMethod = "OPTIONS"
			rq.Headers = append(rq.Headers, [2]string{"Origin", "http://evil.example"}, [2]string{"Access-Control-Request-Method", "POST"})
		}
		switch rng.Intn(14) {
		case 0:
			rq.Path = "/?x=1"
		case 1:
			rq.Path = "//"
		case 2:
			rq.Path = "/rpc"
		case 3:
			rq.Path = "/."
		}
		if rng.Chance(10) {
			rq.Headers = append(rq.Headers, [2]string{"X-Forwarded-For", "127.0.0.1"}, [2]string{"X-Real-IP", "127.0.0.1"})
			rq.Dims["xff"] = "spoofed-loopback"
		}
	}
	rq.Dims["http"] = rq.HTTPMethod + " " + rq.Path
	rq.Probe = plain
	return rq
}

var gTargets = []string{"/verif.Sentinel/Ping", "/verif.Sentinel/Pong", "/verif.Sentinel/CloseQueue", "/verif.Sentinel/Version",
	"/types.chain33/Version", "/types.chain33/GetLastHeader", "/types.chain33/IsSync"}

func genGRPC(rng *lib.Rng, s cfgSpec, plain bool) reqSpec {
	rq := reqSpec{EP: "grpc", Dims: map[string]string{}, PeerKind: "tcp", Probe: plain}
	for {
		rq.Remote, rq.Client, rq.PeerZone = genClient(rng, s)
		if rq.Client.Valid { // a transport peer always has a parsed IP
			break
		}
	}
	rq.PeerIP = rq.Client.IP
	if i := strings.Index(rq.PeerIP, "%"); i >= 0 {
		rq.PeerIP = rq.PeerIP[:i]
	}
	rq.Auth.OK, rq.Auth.Form = true, "n/a"
	rq.GMethod = lib.Pick(rng, gTargets)
	form := "exact"
	if !plain {
		switch rng.Intn(12) {
		case 0:
			rq.GMethod, form = rq.GMethod[1:], "no-leading-slash"
		case 1:
			rq.GMethod, form = strings.ToLower(rq.GMethod), "lower"
		case 2:
			rq.GMethod, form = rq.GMethod+"/", "trailing-slash"
		case 3:
			rq.GMethod, form = "/x"+rq.GMethod, "extra-prefix"
		case 4:
			rq.GGzip, form = true, "gzip"
		case 5:
			rq.PeerKind, form = "ipnet", "peer-ipnet"
		case 6:
			rq.PeerKind, form = "unix", "peer-unix"
			rq.Client.Valid = false
			rq.Remote = "@/tmp/sock"
		}
	}
	rq.Dims["gmethod"] = form
	rq.Dims["addr"] = rq.Client.Form
	return rq
}

func genETH(rng *lib.Rng, s cfgSpec, plain bool) reqSpec {
	rq := reqSpec{EP: "eth", HTTPMethod: "POST", Path: "/", Dims: map[string]string{}, Probe: plain}
	rq.Remote, rq.Client, _ = genClient(rng, s)
	rq.Auth.OK, rq.Auth.Form = true, "n/a"
	m := lib.Pick(rng, []string{"eth_blockNumber", "eth_syncing"})
	body := fmt.Sprintf(`{"jsonrpc":"2.0","id":1,"method":%q,"params":[]}`, m)
	ct := "application/json"
	form := "single"
	if !plain {
		switch rng.Intn(8) {
		case 0:
			body, form = "["+body+","+strings.Replace(body, `"id":1`, `"id":2`, 1)+"]", "batch"
		case 1:
			ct, form = "application/json; charset=utf-8", "charset"
		case 2:
			ct, form = "application/json-rpc", "json-rpc-ct"
		case 3:
			rq.Headers = append(rq.Headers, [2]string{"X-Forwarded-For", "127.0.0.1"})
			form = "xff-loopback"
		case 4:
			rq.Headers = append(rq.Headers, [2]string{"Origin", "http://evil.example"})
			form = "origin"
		}
	}
	rq.Headers = append(rq.Headers, [2]string{"Content-Type", ct})
	rq.Body = []byte(body)
	rq.Dims["eth"] = form
	rq.Dims["addr"] = rq.Client.Form
	return rq
}

// ---------------------------------------------------------------------------------------------
// parent: ground truth (written from the statement)

type truth struct{ s cfgSpec }

func wildcardIP(l []string) bool {
	if len(l) == 1 && l[0] == "*" {
		return true
	}
	for _, e := range l {
		if e == "0.0.0.0" { // the all-addresses entry
			return true
		}
	}
	return false
}

func sameHost(entry, host string) bool {
	if entry == host {
		return true
	}
	a, e1 := netip.ParseAddr(entry)
	b, e2 := netip.ParseAddr(host)
	if e1 != nil || e2 != nil {
		return false
	}
	return a.Unmap() == b.Unmap()
}

// ipAllowed: the client address is on the IP whitelist configured under either accepted key, or that list is a wildcard.
func (t truth) ipAllowed(ct clientTruth) bool {
	if wildcardIP(t.s.Whitelist) || wildcardIP(t.s.Whitlist) {
		return true
	}
	for _, l := range [][]string{t.s.Whitelist, t.s.Whitlist} {
		for _, e := range l {
			if sameHost(e, ct.IP) {
				return true
			}
		}
	}
	return false
}

func hasWhitelist(s cfgSpec) bool { return len(s.Whitelist) > 0 || len(s.Whitlist) > 0 }

// funcAllowed: the method is whitelisted (no list configured = every method, "*" = every method) and not blacklisted.
func funcAllowed(white, black []string, fn string) (bool, string) {
	for _, b := range black {
		if b == fn {
			return false, "func-blacklisted"
		}
	}
	if len(white) == 0 {
		return true, ""
	}
	for _, w := range white {
		if w == "*" || w == fn {
			return true, ""
		}
	}
	return false, "func-not-whitelisted"
}

func (t truth) authConfigured() bool { return t.s.User != "" || t.s.Pass != "" }

// ---------------------------------------------------------------------------------------------

func cfgShape(s cfgSpec) string {
	nw, nl := len(s.Whitelist), len(s.Whitlist)
	star := func(l []string) bool { return len(l) == 1 && l[0] == "*" }
	switch {
	case nw == 0 && nl == 0:
		return "no-whitelist"
	case nw == 0 && star(s.Whitlist):
		return "legacy-only-star"
	case nw == 0:
		return "legacy-only"
	case nl == 0 && star(s.Whitelist):
		return "new-only-star"
	case nl == 0:
		return "new-only"
	case star(s.Whitlist) && !star(s.Whitelist):
		return "both-keys-legacy-star"
	case star(s.Whitelist):
		return "both-keys-new-star"
	default:
		return "both-keys"
	}
}

func run(c *lib.Ctx) {
	c.Rule("case = one generated [rpc] configuration (IP whitelist under `whitelist` / legacy `whitlist` / both / `*` / 0.0.0.0 / empty, with non-canonical spellings; " +
		"jrpc/grpc function white- and blacklists absent/empty/*/subsets; basic auth on/off) served in its own child process; per configuration ~75% generated requests " +
		"(JSON-RPC: method-key case/escape variants, duplicate keys, name forms, params/id forms, body encodings, HTTP method/path, auth header forms; gRPC: method path " +
		"spellings, gzip, peer kinds; eth: single/batch/content-types) with remote addresses drawn from listed / unlisted / loopback / re-spelled (v4-mapped, expanded, upper, zone) / malformed " +
		"forms, plus plain probe requests on all three endpoints for every probed address (equivalence clause). The monitor counts sentinel invocations per request. " +
		"Non-trivial (measured): in that configuration >=1 non-loopback request ran a sentinel AND >=1 non-loopback request that the ground truth denies ran none.")
	c.Assume("the configured IP whitelist is the union of the entries under `whitelist` and `whitlist`; it is a wildcard when either list is exactly [\"*\"] or contains the all-addresses entry 0.0.0.0; an empty/absent whitelist admits no non-loopback client",
		"addresses are compared as IP values (v4-mapped == v4, textual variants equal); entries that are not IP literals only match the identical string",
		"no function whitelist (absent/empty) means every method (documented default \"*\"); a list containing \"*\" whitelists every method; blacklist = configured entries",
		"basic authentication is configured by jrpcUserName/jrpcUserPasswd, the only authentication keys, and applies to JSON-RPC; it succeeds when the request carries Authorization: Basic (scheme case-insensitive) base64(user:pass)",
		"only the safety direction decides for JSON-RPC/gRPC (a sentinel ran => allowed); loopback clients are outside the quantifier and only counted",
		"eth clause: for configurations with a non-empty whitelist under either key, admission of each well-formed non-loopback address is compared between eth, JSON-RPC and gRPC using plain requests to a method the function lists allow, with valid credentials")

	nCfg := c.N(30, 400)
	perCfg := c.N(200, 240)
	if !c.Quick() {
		perCfg = 240
	}
	var mu sync.Mutex
	dims := map[string]map[string]int{}
	hitTotals := map[string]int{}
	shapeCount := map[string]int{}
	var unclear atomic.Int64
	lib.Parallel(nCfg, 12, func(i int) {
		if c.Skip(i) {
			return
		}
		rng := c.CaseRng("cfg", i)
		spec := genSpec(rng, i)
		t := truth{spec}
		var reqs []reqSpec
		// generated request shapes
		for k := 0; k < perCfg*3/4; k++ {
			switch k % 5 {
			case 0, 1, 2:
				reqs = append(reqs, genJRPC(rng, spec, false))
			case 3:
				reqs = append(reqs, genGRPC(rng, spec, false))
			default:
				reqs = append(reqs, genETH(rng, spec, false))
			}
		}
		// equivalence probes: the same address on all three endpoints, plain requests to an allowed method
		jProbe, gProbe := "", ""
		for _, m := range jSentinels {
			if ok, _ := funcAllowed(spec.JWhite, spec.JBlack, funcOf(m)); ok && funcOf(m) != "CloseQueue" {
				jProbe = m
				break
			}
		}
		for _, m := range gTargets {
			if ok, _ := funcAllowed(spec.GWhite, spec.GBlack, funcOf(m)); ok && funcOf(m) != "CloseQueue" {
				gProbe = m
				break
			}
		}
		nProbe := perCfg / 4 / 3
		type probe struct{ j, g, e int }
		var probes []probe
		for k := 0; k < nProbe; k++ {
			var remote string
			var ct clientTruth
			var zone string
			for {
				remote, ct, zone = genClientForm(rng, spec, true)
				if ct.Valid {
					break
				}
			}
			pj := genJRPC(rng.Fork(), spec, true)
			pj.Remote, pj.Client = remote, ct
			pj.Dims["addr"] = ct.Form
			if jProbe != "" {
				pj.Body = []byte(fmt.Sprintf(`{"jsonrpc":"2.0","method":%q,"params":[{"token":"probe"}],"id":1}`, jProbe))
			} else {
				pj.Probe = false
			}
			pg := genGRPC(rng.Fork(), spec, true)
			pg.Remote, pg.Client, pg.PeerZone = remote, ct, zone
			pg.PeerIP = ct.IP
			if x := strings.Index(pg.PeerIP, "%"); x >= 0 {
				pg.PeerIP = pg.PeerIP[:x]
			}
			pg.Dims["addr"] = ct.Form
			if gProbe != "" {
				pg.GMethod = gProbe
			} else {
				pg.Probe = false
			}
			pe := genETH(rng.Fork(), spec, true)
			pe.Remote, pe.Client = remote, ct
			pe.Dims["addr"] = ct.Form
			probes = append(probes, probe{len(reqs), len(reqs) + 1, len(reqs) + 2})
			reqs = append(reqs, pj, pg, pe)
		}

		res := c.Child("serve", childIn{Spec: spec, Reqs: reqs}, lib.ChildOpts{Timeout: 8 * time.Minute})
		c.Count("child_wall_ms", res.WallMs)
		if os.Getenv("VERIF_DEBUG") != "" {
			fmt.Fprintf(os.Stderr, "cfg %d child %dms: %s\n", i, res.WallMs, tail(res.Stderr, 300))
		}
		if res.TimedOut {
			c.Inconclusive("configuration %d: child timed out", i)
			return
		}
		var co childOut
		if res.Died || json.Unmarshal(res.Out, &co) != nil || len(co.Outcomes) != len(reqs) {
			c.Inconclusive("configuration %d: child failed (exit %d): %s", i, res.ExitCode, tail(res.Stderr, 600))
			return
		}

		sawInvoked, sawDenied := false, false
		localDims := map[string]map[string]int{}
		localHits := map[string]int{}
		cnt := map[string]int64{}
		for k, rq := range reqs {
			oc := co.Outcomes[k]
			cnt["requests_"+rq.EP]++
			for d, v := range rq.Dims {
				if localDims[rq.EP+"/"+d] == nil {
					localDims[rq.EP+"/"+d] = map[string]int{}
				}
				localDims[rq.EP+"/"+d][v]++
			}
			if oc.Panic != "" {
				cnt["handler_panics_"+rq.EP]++
			}
			nh := 0
			for h, n := range oc.Hits {
				localHits[rq.EP+":"+h] += n
				nh += n
			}
			if nh > 0 {
				cnt["requests_with_invocation_"+rq.EP]++
			}
			if rq.Client.Loopback {
				cnt["loopback_requests(not decided)"]++
				continue
			}
			ipOK := t.ipAllowed(rq.Client)
			if rq.EP == "eth" {
				if nh > 0 {
					cnt["eth_admitted"]++
				} else {
					cnt["eth_refused"]++
				}
				continue // the eth endpoint is decided by the equivalence clause below
			}
			allowedAny := false
			for h := range oc.Hits {
				fn := funcOf(h)
				var fOK bool
				var why string
				authOK := true
				if rq.EP == "jrpc" {
					fOK, why = funcAllowed(spec.JWhite, spec.JBlack, fn)
					authOK = !t.authConfigured() || rq.Auth.OK
				} else {
					fOK, why = funcAllowed(spec.GWhite, spec.GBlack, fn)
				}
				reason := ""
				switch {
				case !ipOK:
					reason = "ip-not-whitelisted"
				case !authOK:
					reason = "auth-failed:" + rq.Auth.Form
				case !fOK:
					reason = why
				}
				if reason == "" {
					allowedAny = true
					continue
				}
				shape := rq.EP + "-invoked-" + reason
				w := map[string]any{"config": spec, "config_as_loaded": co.Setup, "request": witnessReq(rq), "ran": h, "reply": oc.Reply}
				c.Violation(i, shape, w, "%s sentinel %s ran for non-loopback client %q although %s (request dims %v; config %s)", rq.EP, h, rq.Remote, reason, rq.Dims, co.Setup)
			}
			if nh > 0 {
				sawInvoked = true
				cnt["nonloopback_invoked_"+rq.EP]++
				if allowedAny {
					cnt["nonloopback_invoked_and_allowed_"+rq.EP]++
				}
			} else {
				// classify the refusal under the ground truth of the INTENDED plain target (only for evidence)
				if !ipOK || (rq.EP == "jrpc" && t.authConfigured() && !rq.Auth.OK) {
					sawDenied = true
					cnt["nonloopback_denied_by_truth_not_invoked_"+rq.EP]++
				} else {
					cnt["nonloopback_not_invoked_other_"+rq.EP]++
				}
			}
		}
		// equivalence clause
		if hasWhitelist(spec) {
			for _, p := range probes {
				rj, rg, re := reqs[p.j], reqs[p.g], reqs[p.e]
				if rj.Client.Loopback {
					continue
				}
				e := len(co.Outcomes[p.e].Hits) > 0
				cnt["equivalence_addresses_compared"]++
				if e {
					cnt["equivalence_eth_admits"]++
				} else {
					cnt["equivalence_eth_refuses"]++
				}
				type side struct {
					name string
					ok   bool
					on   bool
				}
				sides := []side{{"jrpc", len(co.Outcomes[p.j].Hits) > 0, rj.Probe}, {"grpc", len(co.Outcomes[p.g].Hits) > 0, rg.Probe}}
				if g := co.Outcomes[p.g]; rg.Probe && len(g.Hits) == 0 && !strings.Contains(g.Err, "not authorized") {
					// neither served nor refused by the gate (transport error under load): not comparable
					sides[1].on = false
					cnt["equivalence_grpc_unclear(transport)"]++
					unclear.Add(1)
				}
				for _, sd := range sides {
					if !sd.on {
						cnt["equivalence_skipped_no_allowed_method_"+sd.name]++
						continue
					}
					if sd.ok != e {
						dir := "eth-admits"
						if !e {
							dir = "eth-refuses"
						}
						shape := fmt.Sprintf("eth-ip-mismatch:%s:%s", cfgShape(spec), dir)
						w := map[string]any{"config": spec, "config_as_loaded": co.Setup, "address": rj.Remote, "eth_admits": e, sd.name + "_admits": sd.ok,
							"eth_reply": co.Outcomes[p.e].Reply, "other_reply": co.Outcomes[map[string]int{"jrpc": p.j, "grpc": p.g}[sd.name]].Reply + co.Outcomes[map[string]int{"jrpc": p.j, "grpc": p.g}[sd.name]].Err}
						c.Violation(i, shape, w, "client %q (%s): eth endpoint admits=%v but %s admits=%v under whitelist=%q whitlist=%q", rj.Remote, rj.Client.Form, e, sd.name, sd.ok, spec.Whitelist, spec.Whitlist)
					}
				}
				if sides[0].on && sides[1].on && sides[0].ok != sides[1].ok {
					c.Violation(i, "jrpc-grpc-ip-mismatch:"+cfgShape(spec), map[string]any{"config": spec, "address": rj.Remote}, "client %q: JSON-RPC admits=%v, gRPC admits=%v", rj.Remote, sides[0].ok, sides[1].ok)
				}
				_ = re
			}
		}
		nontrivial := sawInvoked && sawDenied
		var sample any
		if nontrivial {
			sample = map[string]any{"config": spec, "requests": len(reqs), "jrpc_invoked": cnt["nonloopback_invoked_jrpc"], "jrpc_denied_not_invoked": cnt["nonloopback_denied_by_truth_not_invoked_jrpc"],
				"grpc_invoked": cnt["nonloopback_invoked_grpc"], "eth_admitted": cnt["eth_admitted"], "eth_refused": cnt["eth_refused"]}
		}
		c.Case(lib.Fingerprint(spec), nontrivial, sample)
		c.Count("configurations", 1)
		for k, v := range cnt {
			c.Count(k, v)
		}
		mu.Lock()
		shapeCount[cfgShape(spec)]++
		for d, m := range localDims {
			if dims[d] == nil {
				dims[d] = map[string]int{}
			}
			for v, n := range m {
				dims[d][v] += n
			}
		}
		for h, n := range localHits {
			hitTotals[h] += n
		}
		mu.Unlock()
	})
	if n := unclear.Load(); n > 20 {
		c.Inconclusive("%d gRPC probe calls ended with a transport error instead of an answer from the gate", n)
	}
	c.Extra("requests_per_shape_dimension", dims)
	c.Extra("sentinel_invocations_observed", hitTotals)
	c.Extra("configurations_per_whitelist_shape", shapeCount)
	tot := int64(0)
	for _, n := range hitTotals {
		tot += int64(n)
	}
	c.Count("sentinel_invocations_total", tot)
	c.RequireEvents("sentinel_invocations_total", 200)
	c.RequireEvents("nonloopback_invoked_jrpc", 50)
	c.RequireEvents("nonloopback_invoked_grpc", 20)
	c.RequireEvents("nonloopback_denied_by_truth_not_invoked_jrpc", 50)
	c.RequireEvents("nonloopback_denied_by_truth_not_invoked_grpc", 20)
	c.RequireEvents("equivalence_addresses_compared", 50)
	c.RequireEvents("equivalence_eth_refuses", 10)
	c.RequireEvents("equivalence_eth_admits", 10)
}

func witnessReq(rq reqSpec) map[string]any {
	m := map[string]any{"endpoint": rq.EP, "remote": rq.Remote, "dims": rq.Dims}
	if rq.EP == "grpc" {
		m["method"], m["peer_kind"], m["gzip"] = rq.GMethod, rq.PeerKind, rq.GGzip
	} else {
		b := rq.Body
		if len(b) > 600 {
			b = b[:600]
		}
		m["http_method"], m["path"], m["headers"], m["body"] = rq.HTTPMethod, rq.Path, rq.Headers, string(b)
	}
	return m
}

func tail(s string, n int) string {
	if len(s) > n {
		return s[len(s)-n:]
	}
	return s
}

func sortedKeys(m map[string]int) []string {
	var ks []string
	for k := range m {
		ks = append(ks, k)
	}
	sort.Strings(ks)
	return ks
}

func main() {
	lib.RegisterChild("serve", serveChild)
	lib.Main("C39", "exploration", run)
}
