// C11: failed transactions leave only their fee behind.
package main

import (
	"encoding/json"
	"fmt"
	"github.com/33cn/chain33/account"
	"os"
	"path/filepath"
	"sort"
	"strings"
	"sync"
	"time"

	"github.com/33cn/chain33/common/crypto"
	"github.com/33cn/chain33/types"
	"github.com/33cn/chain33/util"
	"verifharness/execenv"
	"verifharness/lib"
	"verifharness/vexec"
)

// ---- generated block description (JSON-able, replayable)

type gTx struct {
	Exec   string        `json:"exec"`
	Sender int           `json:"sender"` // index into env keys; -1 = unfunded key
	Prog   vexec.Program `json:"prog"`
	Fail   string        `json:"fail"`  // "", fail-op, omit, faillocal, panic, lsetraw, nofee
	Group  int           `json:"group"` // 0 = single; otherwise group id (members consecutive)
}

type gBlock struct {
	Txs []gTx `json:"txs"`
}

var stateNames = []string{"k0", "k1", "k2", "k3", "k4"}
var localNames = []string{"l0", "l1", "l2", "l3"}

func genTx(r *lib.Rng, id int, allowFail bool) gTx {
	t := gTx{Exec: "vexecs", Sender: r.Intn(4)}
	if r.Chance(35) {
		t.Exec = "vexec"
	}
	n := r.Range(1, 6)
	nv := 0
	val := func() string { nv++; return fmt.Sprintf("v%d.%d", id, nv) }
	for i := 0; i < n; i++ {
		switch k := r.Intn(100); {
		case k < 40:
			t.Prog.Ops = append(t.Prog.Ops, vexec.Op{Op: "sset", K: vexec.StateKey(t.Exec, lib.Pick(r, stateNames)), V: val()})
		case k < 65:
			t.Prog.Ops = append(t.Prog.Ops, vexec.Op{Op: "sget", K: vexec.StateKey(lib.Pick(r, []string{"vexec", "vexecs"}), lib.Pick(r, stateNames))})
		case k < 80:
			if t.Exec == "vexecs" {
				t.Prog.Ops = append(t.Prog.Ops, vexec.Op{Op: "lget", K: vexec.LocalKey("vexecs", lib.Pick(r, localNames))})
			}
		default:
			if t.Exec == "vexecs" {
				t.Prog.Ops = append(t.Prog.Ops, vexec.Op{Op: "llist", K: "LODB-vexecs-l"})
			}
		}
	}
	if t.Exec == "vexecs" {
		for i := 0; i < r.Intn(3); i++ {
			t.Prog.Local = append(t.Prog.Local, vexec.Op{Op: "lset", K: vexec.LocalKey("vexecs", lib.Pick(r, localNames)), V: val()})
		}
	}
	t.Prog.Nonce = int64(r.U64() >> 2)
	if allowFail && r.Chance(38) {
		modes := []string{"fail-op", "omit", "panic", "nofee"}
		if t.Exec == "vexecs" {
			modes = append(modes, "faillocal", "lsetraw", "faillocal")
		}
		t.Fail = lib.Pick(r, modes)
		switch t.Fail {
		case "fail-op", "panic":
			op := vexec.Op{Op: "fail"}
			if t.Fail == "panic" {
				op.Op = "panic"
			}
			pos := r.Intn(len(t.Prog.Ops) + 1)
			t.Prog.Ops = append(t.Prog.Ops[:pos:pos], append([]vexec.Op{op}, t.Prog.Ops[pos:]...)...)
		case "omit":
			k := vexec.StateKey(t.Exec, lib.Pick(r, stateNames))
			t.Prog.Ops = append(t.Prog.Ops, vexec.Op{Op: "sset", K: k, V: val()})
			t.Prog.Omit = []string{k}
		case "faillocal":
			t.Prog.Local = append(t.Prog.Local, vexec.Op{Op: "lsetraw", K: vexec.LocalKey("vexecs", lib.Pick(r, localNames)), V: val()}, vexec.Op{Op: "lset", K: vexec.LocalKey("vexecs", lib.Pick(r, localNames)), V: val()})
			t.Prog.FailLocal = true
		case "lsetraw":
			t.Prog.Local = append(t.Prog.Local, vexec.Op{Op: "lsetraw", K: vexec.LocalKey("vexecs", "zz"+lib.Pick(r, localNames)), V: val()})
		case "nofee":
			t.Sender = -1
		}
	}
	return t
}

func genBlock(r *lib.Rng) gBlock {
	var b gBlock
	items := r.Range(4, 16)
	gid := 0
	id := 0
	for i := 0; i < items; i++ {
		if r.Chance(30) {
			gid++
			m := r.Range(2, 5)
			snd := r.Intn(4)
			failing := r.Chance(50)
			fi := r.Intn(m)
			for j := 0; j < m; j++ {
				id++
				t := genTx(r, id, false)
				if failing && j == fi {
					t = genTx(r, id, true)
					for t.Fail == "" || t.Fail == "nofee" {
						t = genTx(r, id, true)
					}
				}
				t.Sender = snd
				t.Group = gid
				b.Txs = append(b.Txs, t)
			}
		} else {
			id++
			b.Txs = append(b.Txs, genTx(r, id, true))
		}
	}
	return b
}

// ---- reference interpreter (semantics from the statement)

type expect struct {
	Ty     int32
	KV     []string // "k=v" of vexec-namespace keys in order
	Obs    []vexec.Obs
	HasObs bool
}

type model struct {
	s, l map[string]string
}

func (m *model) clone() *model {
	n := &model{s: map[string]string{}, l: map[string]string{}}
	for k, v := range m.s {
		n.s[k] = v
	}
	for k, v := range m.l {
		n.l[k] = v
	}
	return n
}

// runTx executes one program on m (mutating it); returns ok and the expectation when ok.
func runTx(m *model, t *gTx) (bool, expect) {
	e := expect{Ty: types.ExecOk, HasObs: true, Obs: []vexec.Obs{}}
	omit := map[string]bool{}
	for _, k := range t.Prog.Omit {
		omit[k] = true
	}
	for _, op := range t.Prog.Ops {
		switch op.Op {
		case "sset":
			m.s[op.K] = op.V
			if !omit[op.K] {
				e.KV = append(e.KV, op.K+"="+op.V)
			}
		case "sget":
			o := vexec.Obs{Op: "sget", K: op.K}
			if v, ok := m.s[op.K]; ok {
				o.V = v
			} else {
				o.Err = types.ErrNotFound.Error()
			}
			e.Obs = append(e.Obs, o)
		case "lget":
			o := vexec.Obs{Op: "lget", K: op.K}
			if v, ok := m.l[op.K]; ok {
				o.V = v
			} else {
				o.Err = types.ErrNotFound.Error()
			}
			e.Obs = append(e.Obs, o)
		case "llist":
			o := vexec.Obs{Op: "llist", K: op.K}
			var ks []string
			for k := range m.l {
				if strings.HasPrefix(k, op.K) {
					ks = append(ks, k)
				}
			}
			sort.Strings(ks)
			for _, k := range ks {
				o.L = append(o.L, m.l[k])
			}
			if len(ks) == 0 {
				o.Err = types.ErrNotFound.Error()
			}
			e.Obs = append(e.Obs, o)
		case "fail", "panic":
			return false, e
		}
	}
	if len(t.Prog.Omit) > 0 {
		return false, e
	}
	if t.Exec == "vexecs" {
		for _, op := range t.Prog.Local {
			switch op.Op {
			case "lset":
				m.l[op.K] = op.V
			case "lsetraw":
				return false, e // written through the local db but not reported
			}
		}
		if t.Prog.FailLocal {
			return false, e
		}
	}
	return true, e
}

func interpret(b *gBlock) []expect {
	m := &model{s: map[string]string{}, l: map[string]string{}}
	out := make([]expect, len(b.Txs))
	for i := 0; i < len(b.Txs); {
		t := &b.Txs[i]
		if t.Group == 0 {
			if t.Sender < 0 {
				out[i] = expect{Ty: types.ExecErr}
				i++
				continue
			}
			w := m.clone()
			ok, e := runTx(w, t)
			if ok {
				m = w
				out[i] = e
			} else {
				out[i] = expect{Ty: types.ExecPack}
			}
			i++
			continue
		}
		j := i
		for j < len(b.Txs) && b.Txs[j].Group == t.Group {
			j++
		}
		w := m.clone()
		allok := true
		es := make([]expect, j-i)
		for k := i; k < j; k++ {
			ok, e := runTx(w, &b.Txs[k])
			if !ok {
				allok = false
				break
			}
			es[k-i] = e
		}
		for k := i; k < j; k++ {
			if allok {
				out[k] = es[k-i]
			} else {
				out[k] = expect{Ty: types.ExecPack}
			}
		}
		if allok {
			m = w
		}
		i = j
	}
	return out
}

// ---- real execution

func buildTxs(env *execenv.Env, b *gBlock) ([]*types.Transaction, error) {
	var out []*types.Transaction
	key := func(i int) crypto.PrivKey {
		if i < 0 {
			_, k := util.Genaddress()
			return k
		}
		return env.Keys[i]
	}
	for i := 0; i < len(b.Txs); {
		t := &b.Txs[i]
		if t.Group == 0 {
			out = append(out, vexec.NewTx(env.Cfg, t.Exec, &t.Prog, key(t.Sender), 0))
			i++
			continue
		}
		j := i
		var raw []*types.Transaction
		for j < len(b.Txs) && b.Txs[j].Group == t.Group {
			raw = append(raw, vexec.NewTx(env.Cfg, b.Txs[j].Exec, &b.Txs[j].Prog, nil, 0))
			j++
		}
		g, err := types.CreateTxGroup(raw, env.Cfg.GetMinTxFeeRate())
		if err != nil {
			return nil, err
		}
		for k := range g.Txs {
			if err := g.SignN(k, types.SECP256K1, key(t.Sender)); err != nil {
				return nil, err
			}
		}
		out = append(out, g.GetTxs()...)
		i = j
	}
	return out, nil
}

type caseRes struct {
	Index             int      `json:"index"`
	Problems          []string `json:"problems,omitempty"`
	NTx               int      `json:"ntx"`
	Failed            int      `json:"failed_txs"`
	FeeObs            int      `json:"fee_obs"`
	ReadsAfterFailure int      `json:"reads_after_failure"` // observations made by successful txs after >=1 failed tx/group wrote the same key
	Modes             []string `json:"modes"`
	Block             *gBlock  `json:"block,omitempty"`
	Err               string   `json:"err,omitempty"`
}

func vexecKV(kvs []*types.KeyValue) []string {
	var l []string
	for _, kv := range kvs {
		if strings.HasPrefix(string(kv.Key), "mavl-vexec") || strings.HasPrefix(string(kv.Key), "LODB-") {
			l = append(l, string(kv.Key)+"="+string(kv.Value))
		}
	}
	return l
}

func checkBlock(env *execenv.Env, idx int, b *gBlock) caseRes {
	res := caseRes{Index: idx, NTx: len(b.Txs)}
	exp := interpret(b)
	txs, err := buildTxs(env, b)
	if err != nil {
		res.Err = err.Error()
		return res
	}
	rs, err := env.ExecList(txs)
	if err != nil {
		res.Err = "EventExecTxList: " + err.Error()
		res.Problems = append(res.Problems, "block execution failed as a whole: "+err.Error())
		return res
	}
	if len(rs.Receipts) != len(txs) {
		res.Problems = append(res.Problems, fmt.Sprintf("%d receipts for %d txs", len(rs.Receipts), len(txs)))
		return res
	}
	modes := map[string]bool{}
	failedWrote := map[string]bool{}
	for i, r := range rs.Receipts {
		e := exp[i]
		t := &b.Txs[i]
		if e.Ty != types.ExecOk {
			res.Failed++
			if t.Fail != "" {
				modes[t.Fail] = true
			}
			for _, op := range t.Prog.Ops {
				if op.Op == "sset" {
					failedWrote[op.K] = true
				}
			}
			for _, op := range t.Prog.Local {
				failedWrote[op.K] = true
			}
		}
		where := fmt.Sprintf("tx %d (%s, group %d, fail=%q)", i, t.Exec, t.Group, t.Fail)
		if r.Ty != e.Ty {
			res.Problems = append(res.Problems, fmt.Sprintf("%s: receipt type %d, expected %d", where, r.Ty, e.Ty))
			continue
		}
		got := vexecKV(r.KV)
		if fmt.Sprint(got) != fmt.Sprint(e.KV) {
			res.Problems = append(res.Problems, fmt.Sprintf("%s: receipt writes %v, expected %v", where, got, e.KV))
		}
		obs, has := vexec.ParseObs(r.Logs)
		if has != e.HasObs {
			res.Problems = append(res.Problems, fmt.Sprintf("%s: executor log present=%v, expected %v", where, has, e.HasObs))
			continue
		}
		if has {
			if obs == nil {
				obs = []vexec.Obs{}
			}
			a, _ := json.Marshal(obs)
			w, _ := json.Marshal(e.Obs)
			if string(a) != string(w) {
				res.Problems = append(res.Problems, fmt.Sprintf("%s: observed %s, expected %s (as if failed transactions had only paid their fee)", where, a, w))
			}
			for _, o := range e.Obs {
				if failedWrote[o.K] || (o.Op == "llist" && len(failedWrote) > 0) {
					res.ReadsAfterFailure++
				}
			}
		}
	}
	// fee conservation: fold the coins-account writes of the receipts in block order (as the store applies them). Every
	// transaction that is not rejected outright pays exactly its fee, failed ones included, so after receipt i the payer's
	// last written balance is its balance before the block minus the fees charged so far.
	acc := account.NewCoinsAccount(env.Cfg)
	folded := map[string]int64{}
	expected := map[string]int64{}
	for i, r := range rs.Receipts {
		from := txs[i].From()
		if _, ok := expected[from]; !ok {
			if b0, ok := initialBalance(env, acc, from); ok {
				expected[from] = b0
				folded[from] = b0
			}
		}
		for _, kv := range r.KV {
			for a := range expected {
				if string(kv.Key) == string(acc.AccountKey(a)) {
					var ac types.Account
					if types.Decode(kv.Value, &ac) == nil {
						folded[a] = ac.Balance
					}
				}
			}
		}
		if _, ok := expected[from]; !ok || r.Ty == types.ExecErr {
			continue
		}
		expected[from] -= txs[i].Fee
		res.FeeObs++
		if folded[from] != expected[from] {
			res.Problems = append(res.Problems, fmt.Sprintf("tx %d (group %d, fail=%q, receipt type %d): after this receipt the payer %s holds %d, expected %d (balance before the block minus every fee charged so far, %d for this transaction)",
				i, b.Txs[i].Group, b.Txs[i].Fail, r.Ty, from, folded[from], expected[from], txs[i].Fee))
			folded[from] = expected[from] // report each discrepancy once
		}
	}
	for m := range modes {
		res.Modes = append(res.Modes, m)
	}
	sort.Strings(res.Modes)
	if len(res.Problems) > 0 {
		res.Block = b
	}
	return res
}

var (
	balMu  sync.Mutex
	balMem = map[string]int64{}
)

// initialBalance reads the payer's coins balance in the state the block is executed on (cached per process).
func initialBalance(env *execenv.Env, acc *account.DB, addr string) (int64, bool) {
	balMu.Lock()
	defer balMu.Unlock()
	if v, ok := balMem[addr]; ok {
		return v, true
	}
	vals, err := env.N.API.StoreGet(&types.StoreGet{StateHash: env.Tip.StateHash, Keys: [][]byte{acc.AccountKey(addr)}})
	if err != nil || len(vals.Values) != 1 || len(vals.Values[0]) == 0 {
		return 0, false
	}
	var ac types.Account
	if types.Decode(vals.Values[0], &ac) != nil {
		return 0, false
	}
	balMem[addr] = ac.Balance
	return ac.Balance, true
}

type batchReq struct {
	Seeds []uint64 `json:"seeds"`
	Base  int      `json:"base"`
}

func init() {
	lib.RegisterChild("batch", func(in []byte) (any, error) {
		var q batchReq
		if err := json.Unmarshal(in, &q); err != nil {
			return nil, err
		}
		dir := filepath.Join(os.Getenv("VERIF_TMP"), "n")
		env, err := execenv.New(dir, nil)
		if err != nil {
			return nil, err
		}
		defer env.Close()
		var out []caseRes
		for i, s := range q.Seeds {
			b := genBlock(lib.NewRng(s))
			out = append(out, checkBlock(env, q.Base+i, &b))
		}
		return out, nil
	})
}

func run(c *lib.Ctx) {
	c.Rule("generated blocks of 4-16 items (single transactions and groups of 2-5) for the synthetic executors vexec / vexecs (ExecLocalSameTime) sharing 5 state keys and 4 local keys; failure injected at every program point " +
		"(before/after state writes, after local reads/lists, written key omitted from the receipt, ExecLocal error after raw local writes, unreported local write, panic, no fee balance); the real EventExecTxList result (receipt types, reported writes, " +
		"and what every later successful transaction OBSERVED through state get / local get / local list, echoed in its receipt log) is compared with a reference interpreter of the statement's semantics. " +
		"non-trivial = block in which a successful transaction read a key (or listed the prefix) that an earlier failed transaction or failed group had written; distinct = block fingerprint")
	c.Assume("deferred (block-add time) local execution is not part of this check (C14 covers add/remove symmetry)", "fee KV of the coins executor is ignored when comparing receipt writes")
	n := c.N(240, 48000)
	per := 20
	nb := (n + per - 1) / per
	lib.Parallel(nb, 14, func(bi int) {
		var seeds []uint64
		for k := 0; k < per && bi*per+k < n; k++ {
			idx := bi*per + k
			if c.Skip(idx) {
				continue
			}
			seeds = append(seeds, c.CaseRng("block", idx).U64())
		}
		if len(seeds) == 0 {
			return
		}
		base := bi * per
		if c.OnlyIdx >= 0 {
			base = c.OnlyIdx
		}
		cr := c.Child("batch", batchReq{Seeds: seeds, Base: base}, lib.ChildOpts{Timeout: 10 * time.Minute})
		if cr.TimedOut {
			c.Inconclusive("batch %d: watchdog", bi)
			return
		}
		if cr.Died {
			c.Violation(base, "executor-process-died", map[string]any{"seeds": seeds, "stderr": cr.Stderr}, "process died while executing generated blocks: %.500s", cr.Stderr)
			return
		}
		var rs []caseRes
		if err := json.Unmarshal(cr.Out, &rs); err != nil {
			c.Inconclusive("batch %d: %v", bi, err)
			return
		}
		for _, r := range rs {
			if r.Err != "" && len(r.Problems) == 0 {
				c.Count("harness_build_errors", 1)
				continue
			}
			c.Case(fmt.Sprintf("%d", r.Index), r.ReadsAfterFailure > 0, map[string]any{"block": r.Index, "ntx": r.NTx, "failed_txs": r.Failed, "reads_after_failure": r.ReadsAfterFailure, "failure_modes": r.Modes})
			c.Count("transactions", int64(r.NTx))
			c.Count("failed_transactions", int64(r.Failed))
			c.Count("reads_after_failure", int64(r.ReadsAfterFailure))
			c.Count("fee_balance_observations", int64(r.FeeObs))
			for _, m := range r.Modes {
				c.Seen("failure_modes", m)
			}
			if len(r.Problems) > 0 {
				shape := "other"
				for _, p := range r.Problems {
					if strings.Contains(p, "llist") && strings.Contains(p, "observed") {
						shape = "list-sees-rolled-back-local-write"
					}
				}
				c.Violation(r.Index, shape, map[string]any{"block": r.Block, "problems": r.Problems}, "block %d: %s", r.Index, lib.ShortList(r.Problems, 3))
			}
		}
	})
	c.RequireEvents("reads_after_failure", 100)
	c.RequireEvents("failed_transactions", 100)
}

func main() { lib.Main("C11", "exploration", run) }
