// C03: state proofs are complete, sound and crash-free.
//
// Worker child processes build generated trees with the REAL mavl store under plain / prefix / prefix+prune /
// memtree+memval, then for every version:
//   completeness  GetKVPairProof for every present key verifies with VerifyKVPairProof against (root, key, stored value)
//   soundness     the honest proof must be rejected for every other value, every other key and every other root
//                 (single-field mutations); structured proof mutations, transplanted proofs and fuzzed proofs are
//                 checked as an implication: whenever verification says true, the versioned-map model must hold
//                 key -> value at that root
//   crash-freedom every call is announced in a progress record on disk before it is made; panics are recovered
//                 and reported with the exact input; a dead child is reported with the announced case
package main

import (
	"bytes"
	"encoding/binary"
	"encoding/hex"
	"encoding/json"
	"fmt"
	"os"
	"path/filepath"
	"sort"
	"strings"
	"sync"
	"time"

	mavldb "github.com/33cn/chain33/system/store/mavl/db"
	"github.com/33cn/chain33/types"
	"verifharness/lib"
	mx "verifharness/mavlx"
)

type workIn struct {
	Seed    int64  `json:"seed"`
	Tier    string `json:"tier"`
	Indices []int  `json:"indices"`
	Fuzz    int    `json:"fuzz"`     // fuzz inputs per (tree, configuration)
	MutKeys int    `json:"mut_keys"` // keys per version that get the full mutation set
}

type failure struct {
	Index   int    `json:"index"`
	Shape   string `json:"shape"`
	Msg     string `json:"msg"`
	Witness any    `json:"witness"`
}

type caseOut struct {
	Index      int    `json:"index"`
	Cfg        string `json:"cfg"`
	FP         string `json:"fp"`
	Nontrivial bool   `json:"nontrivial"`
	Sample     any    `json:"sample,omitempty"`
}

type workOut struct {
	Cases    []caseOut           `json:"cases"`
	Counters map[string]int64    `json:"counters"`
	Sets     map[string][]string `json:"sets"`
	Failures []failure           `json:"failures"`
	Done     []int               `json:"done"`
}

func paramsFor(tier string, idx int) mx.GenParams {
	p := mx.GenParams{MinBatches: 1, MaxBatches: 5, MaxBatch: 60, Branch: 30, Tickets: true}
	if tier == "thorough" {
		p.MaxBatch = 200
		p.MaxBatches = 8
	}
	switch idx % 5 {
	case 0: // tiny trees: 1, 2, 3 ... leaves (a single leaf is its own root)
		p.Small = true
		p.MinBatches, p.MaxBatches = 1, 4
	case 3:
		p.MaxBatch = 300
		p.MinBatches, p.MaxBatches = 1, 2
	}
	return p
}

func genHistory(seed int64, tier string, idx int) *mx.History {
	c := &lib.Ctx{Prop: "C03", Seed: seed}
	h := mx.GenHistory(c.CaseRng("tree", idx), paramsFor(tier, idx))
	if idx%10 == 0 { // force a one-key first version
		h.Batches[0].KV = h.Batches[0].KV[:1]
		h.Batches[0].Parent = 0
	}
	return h
}

// ---------------------------------------------------------------------------------------------

type worker struct {
	in       workIn
	out      *workOut
	cnt      map[string]int64
	sets     map[string]map[string]bool
	progress *os.File
	idx      int
	cfg      mx.Cfg
	nfail    int
}

func (w *worker) seen(set, v string) {
	if w.sets[set] == nil {
		w.sets[set] = map[string]bool{}
	}
	w.sets[set][v] = true
}

// announce writes the case about to be executed to the progress file (fixed slot, no buffering).
func (w *worker) announce(stage string, n int, proof []byte) {
	rec := fmt.Sprintf("%d|%s|%s|%d|", w.idx, w.cfg.Name, stage, n)
	p := proof
	if len(p) > 3000 {
		p = p[:3000]
	}
	rec += hex.EncodeToString(p)
	b := make([]byte, 6200)
	copy(b, rec)
	for i := len(rec); i < len(b); i++ {
		b[i] = ' '
	}
	w.progress.WriteAt(b, 0)
}

func (w *worker) fail(shape, msg string, witness any) {
	w.nfail++
	if len(w.out.Failures) < 12 {
		w.out.Failures = append(w.out.Failures, failure{Index: w.idx, Shape: shape, Msg: msg, Witness: witness})
	}
}

type call struct {
	Root  []byte `json:"root"`
	Key   []byte `json:"key"`
	Value []byte `json:"value"`
	Proof []byte `json:"proof"`
	NilKV bool   `json:"nil_kv,omitempty"`
}

// verify runs the real verifier; a recovered panic is reported as a crash (exact input in the witness).
func (w *worker) verify(stage string, n int, c call) (ok bool) {
	w.announce(stage, n, c.Proof)
	defer func() {
		if r := recover(); r != nil {
			w.cnt["panics"]++
			w.fail("crash:panic:"+stage, fmt.Sprintf("VerifyKVPairProof panicked (%v) on a %d-byte proof [%s]", r, len(c.Proof), stage),
				map[string]any{"cfg": w.cfg.Name, "stage": stage, "root_hex": hex.EncodeToString(c.Root), "key_hex": hex.EncodeToString(c.Key),
					"value_hex": hex.EncodeToString(c.Value), "proof_hex": hex.EncodeToString(c.Proof), "panic": fmt.Sprint(r)})
			ok = false
		}
	}()
	w.cnt["verify_calls"]++
	var kv *types.KeyValue
	if !c.NilKV {
		kv = &types.KeyValue{Key: c.Key, Value: c.Value}
	}
	return mavldb.VerifyKVPairProof(nil, c.Root, kv, c.Proof)
}

func witnessOf(w *worker, c call, extra map[string]any) map[string]any {
	m := map[string]any{"cfg": w.cfg.Name, "root_hex": hex.EncodeToString(c.Root), "key_hex": hex.EncodeToString(c.Key),
		"value_hex": hex.EncodeToString(c.Value), "proof_hex": hex.EncodeToString(c.Proof)}
	for k, v := range extra {
		m[k] = v
	}
	return m
}

// ---- protobuf helpers for structured garbage

func pbTag(field, wire int) []byte { return binary.AppendUvarint(nil, uint64(field<<3|wire)) }
func pbLen(field int, payload []byte) []byte {
	b := pbTag(field, 2)
	b = binary.AppendUvarint(b, uint64(len(payload)))
	return append(b, payload...)
}
func pbVar(field int, v uint64) []byte { return binary.AppendUvarint(pbTag(field, 0), v) }

var oddInts = []uint64{0, 1, 2, 3, 0x7f, 0x80, 0x7fffffff, 0x80000000, 0xffffffff, 0xffffffffffffffff, 0x8000000000000000, 1 << 40}
var oddLens = []int{0, 1, 16, 31, 32, 33, 48, 64, 65, 255, 1000}

func garbageInner(r *lib.Rng) []byte {
	var b []byte
	if r.Chance(70) {
		b = append(b, pbLen(1, r.Bytes(lib.Pick(r, oddLens)))...)
	}
	if r.Chance(70) {
		b = append(b, pbLen(2, r.Bytes(lib.Pick(r, oddLens)))...)
	}
	if r.Chance(80) {
		b = append(b, pbVar(3, lib.Pick(r, oddInts))...)
	}
	if r.Chance(80) {
		b = append(b, pbVar(4, lib.Pick(r, oddInts))...)
	}
	if r.Chance(10) {
		b = append(b, pbVar(r.Range(5, 40), r.U64())...) // unknown field
	}
	return b
}

func garbageProof(r *lib.Rng, honest []byte) []byte {
	switch k := r.Intn(12); k {
	case 0: // random bytes
		return r.Bytes(r.Intn(200))
	case 1: // structured: many/odd inner nodes
		n := r.Intn(20)
		if r.Chance(3) {
			n = r.Range(1000, 6000)
		}
		var b []byte
		if r.Chance(30) {
			b = append(b, pbLen(1, r.Bytes(lib.Pick(r, oddLens)))...)
		}
		for i := 0; i < n; i++ {
			b = append(b, pbLen(2, garbageInner(r))...)
		}
		if r.Chance(30) {
			b = append(b, pbLen(3, r.Bytes(lib.Pick(r, oddLens)))...)
		}
		return b
	case 2: // wrong wire types for known fields
		var b []byte
		for i := 0; i < r.Range(1, 6); i++ {
			f := r.Range(1, 4)
			switch r.Intn(4) {
			case 0:
				b = append(b, pbVar(f, r.U64())...)
			case 1:
				b = append(append(b, pbTag(f, 1)...), r.Bytes(8)...)
			case 2:
				b = append(append(b, pbTag(f, 5)...), r.Bytes(4)...)
			case 3:
				b = append(b, pbTag(f, lib.Pick(r, []int{3, 4, 6, 7}))...)
			}
		}
		return b
	case 3: // length prefix larger than the data
		b := pbTag(2, 2)
		b = binary.AppendUvarint(b, lib.Pick(r, []uint64{5, 100, 1 << 31, 1<<63 - 1, 0xffffffffffffffff}))
		return append(b, r.Bytes(r.Intn(6))...)
	case 4: // nested inner nodes inside inner nodes
		b := garbageInner(r)
		for d := 0; d < r.Range(1, 50); d++ {
			b = pbLen(2, b)
		}
		return b
	case 5: // over-long varints
		b := pbTag(2, 2)
		return append(b, bytes.Repeat([]byte{0xff}, r.Range(9, 12))...)
	case 6: // truncated honest proof
		if len(honest) > 0 {
			return append([]byte{}, honest[:r.Intn(len(honest))]...)
		}
	case 7: // honest proof + trailing garbage
		return append(append([]byte{}, honest...), r.Bytes(r.Range(1, 40))...)
	case 8: // bit flips
		if len(honest) > 0 {
			b := append([]byte{}, honest...)
			for i := 0; i < r.Range(1, 4); i++ {
				b[r.Intn(len(b))] ^= 1 << uint(r.Intn(8))
			}
			return b
		}
	case 9: // byte splice / duplication
		if len(honest) > 2 {
			i, j := r.Intn(len(honest)), r.Intn(len(honest))
			if i > j {
				i, j = j, i
			}
			return append(append(append([]byte{}, honest[:j]...), honest[i:j]...), honest[j:]...)
		}
	case 10: // honest proof with unknown fields in front
		return append(pbVar(r.Range(4, 100), r.U64()), honest...)
	}
	return r.Bytes(r.Intn(64))
}

// ---------------------------------------------------------------------------------------------

func decodeProof(p []byte) *types.MAVLProof {
	var mp types.MAVLProof
	if types.Decode(p, &mp) != nil {
		return nil
	}
	return &mp
}

func cloneInner(in *types.InnerNode) *types.InnerNode {
	return &types.InnerNode{LeftHash: append([]byte(nil), in.LeftHash...), RightHash: append([]byte(nil), in.RightHash...), Height: in.Height, Size: in.Size}
}

// proofMutants returns structured variants of an honest proof (re-encoded).
func proofMutants(r *lib.Rng, honest []byte, n int) (out [][]byte, names []string) {
	mp := decodeProof(honest)
	if mp == nil {
		return nil, nil
	}
	for t := 0; t < n; t++ {
		c := &types.MAVLProof{}
		for _, in := range mp.InnerNodes {
			c.InnerNodes = append(c.InnerNodes, cloneInner(in))
		}
		name := ""
		k := len(c.InnerNodes)
		pick := func() *types.InnerNode { return c.InnerNodes[r.Intn(k)] }
		switch m := r.Intn(14); {
		case m == 0:
			name = "set-leafhash-field"
			c.LeafHash = r.Bytes(32)
		case m == 1:
			name = "set-roothash-field"
			c.RootHash = r.Bytes(32)
		case k == 0:
			name = "append-node"
			c.InnerNodes = append(c.InnerNodes, &types.InnerNode{RightHash: r.Bytes(32), Height: 1, Size: 2})
		case m == 2:
			name = "height+-1"
			pick().Height += int32(lib.Pick(r, []int{1, -1}))
		case m == 3:
			name = "size+-1"
			pick().Size += int32(lib.Pick(r, []int{1, -1}))
		case m == 4:
			name = "flip-sibling-hash-tail"
			in := pick()
			h := in.LeftHash
			if len(h) == 0 {
				h = in.RightHash
			}
			if len(h) > 0 {
				h[len(h)-1-r.Intn(minInt(32, len(h)))] ^= 1 << uint(r.Intn(8))
			}
		case m == 5:
			name = "swap-left-right"
			in := pick()
			in.LeftHash, in.RightHash = in.RightHash, in.LeftHash
		case m == 6:
			name = "set-both-sides"
			in := pick()
			if len(in.LeftHash) == 0 {
				in.LeftHash = r.Bytes(32)
			} else {
				in.RightHash = r.Bytes(32)
			}
		case m == 7:
			name = "clear-both-sides"
			in := pick()
			in.LeftHash, in.RightHash = nil, nil
		case m == 8:
			name = "drop-node"
			i := r.Intn(k)
			c.InnerNodes = append(c.InnerNodes[:i], c.InnerNodes[i+1:]...)
		case m == 9:
			name = "duplicate-node"
			i := r.Intn(k)
			c.InnerNodes = append(c.InnerNodes[:i+1], c.InnerNodes[i:]...)
		case m == 10:
			name = "reverse-path"
			for i, j := 0, k-1; i < j; i, j = i+1, j-1 {
				c.InnerNodes[i], c.InnerNodes[j] = c.InnerNodes[j], c.InnerNodes[i]
			}
		case m == 11:
			name = "strip-or-alter-hash-prefix" // bytes before the last 32 of a sibling hash are not hashed
			in := pick()
			h := &in.LeftHash
			if len(*h) == 0 {
				h = &in.RightHash
			}
			if len(*h) > 32 {
				if r.Bool() {
					*h = (*h)[len(*h)-32:]
				} else {
					(*h)[0] ^= 0x20
				}
			} else {
				*h = append([]byte("_mh_-0000000009-"), *h...)
			}
		case m == 12:
			name = "append-node"
			c.InnerNodes = append(c.InnerNodes, &types.InnerNode{LeftHash: r.Bytes(32), Height: c.InnerNodes[k-1].Height + 1, Size: c.InnerNodes[k-1].Size + 1})
		default:
			name = "truncate-sibling-hash"
			in := pick()
			if len(in.LeftHash) > 0 {
				in.LeftHash = in.LeftHash[:len(in.LeftHash)-1]
			} else if len(in.RightHash) > 0 {
				in.RightHash = in.RightHash[:len(in.RightHash)-1]
			}
		}
		out = append(out, types.Encode(c))
		names = append(names, name)
	}
	return
}

func flip(r *lib.Rng, b []byte) []byte {
	c := append([]byte{}, b...)
	if len(c) == 0 {
		return []byte{byte(r.Range(1, 255))}
	}
	c[r.Intn(len(c))] ^= 1 << uint(r.Intn(8))
	return c
}

type version struct {
	root []byte
	m    *mx.Version
}

func (w *worker) doTree(idx int, cfg mx.Cfg, dir string) {
	w.idx, w.cfg = idx, cfg
	ctx := &lib.Ctx{Prop: "C03", Seed: w.in.Seed}
	h := genHistory(w.in.Seed, w.in.Tier, idx)
	rng := ctx.CaseRng("mut-"+cfg.Name, idx)
	model := mx.Model(h)
	before := map[string]int64{}
	for k, v := range w.cnt {
		before[k] = v
	}
	failBefore := w.nfail
	os.RemoveAll(dir)
	mavldb.VerifClearGlobals()
	store := mx.Open(dir, cfg)
	defer func() { store.Close(); os.RemoveAll(dir) }()
	db := store.GetDB()
	tcfg := cfg.TreeCfg()
	// build
	roots := [][]byte{mx.EmptyRoot}
	depth := []int64{0}
	for i, b := range h.Batches {
		d := depth[b.Parent] + 1
		root, err := store.Set(&types.StoreSet{StateHash: roots[b.Parent], KV: mx.ToKV(b.KV), Height: d}, false)
		if err != nil || root == nil {
			w.fail("build-error", fmt.Sprintf("building tree %d batch %d under %s: root=%x err=%v", idx, i, cfg.Name, root, err), map[string]any{"history_index": idx})
			return
		}
		roots = append(roots, root)
		depth = append(depth, d)
	}
	var vers []version
	seenRoot := map[string]bool{}
	for i := 1; i < len(roots); i++ {
		if !seenRoot[string(roots[i])] {
			seenRoot[string(roots[i])] = true
			vers = append(vers, version{roots[i], model[i]})
		}
	}
	maxPath := 0
	// (i) completeness: every key of every version
	type honest struct {
		vi    int
		key   string
		proof []byte
	}
	var hs []honest
	for vi, v := range vers {
		for _, k := range v.m.Keys() {
			w.announce("getproof", vi, []byte(k))
			proof, err := mavldb.GetKVPairProof(db, v.root, []byte(k), tcfg)
			w.cnt["proofs_requested"]++
			val := v.m.M[k]
			content := func() any {
				if len(v.m.M) > 40 {
					return fmt.Sprintf("%d keys (history index %d, version root %x)", len(v.m.M), idx, v.root)
				}
				var kvs []mx.KV
				for _, kk := range v.m.Keys() {
					kvs = append(kvs, mx.KV{K: []byte(kk), V: v.m.M[kk]})
				}
				return kvs
			}
			if err != nil || proof == nil {
				w.fail("complete:no-proof", fmt.Sprintf("GetKVPairProof(root %x, key %s) under %s returned proof=%v err=%v for a present key", v.root, mx.Short([]byte(k)), cfg.Name, proof != nil, err),
					map[string]any{"cfg": cfg.Name, "root_hex": hex.EncodeToString(v.root), "key_hex": hex.EncodeToString([]byte(k)), "tree": content(), "history_index": idx})
				continue
			}
			c := call{Root: v.root, Key: []byte(k), Value: val, Proof: proof}
			if !w.verify("honest", vi, c) {
				w.fail("complete:honest-proof-rejected", fmt.Sprintf("honest proof for key %s (value %s) at root %x under %s does not verify", mx.Short([]byte(k)), mx.Short(val), v.root, cfg.Name),
					witnessOf(w, c, map[string]any{"tree": content(), "history_index": idx}))
				continue
			}
			w.cnt["honest_proofs_verified"]++
			if mp := decodeProof(proof); mp != nil {
				if len(mp.InnerNodes) > maxPath {
					maxPath = len(mp.InnerNodes)
				}
				w.seen("proof_path_lengths", fmt.Sprint(len(mp.InnerNodes)))
				for _, in := range mp.InnerNodes {
					if len(in.LeftHash) > 32 || len(in.RightHash) > 32 {
						w.cnt["honest_proofs_with_prefixed_sibling_hashes"]++
						break
					}
				}
			}
			hs = append(hs, honest{vi, k, proof})
		}
		// absent keys have no proof
		for _, p := range mx.Probes(rng, v.m.Keys(), 4) {
			w.announce("getproof-absent", vi, []byte(p))
			proof, _ := mavldb.GetKVPairProof(db, v.root, []byte(p), tcfg)
			w.cnt["absent_key_proof_requests"]++
			if proof != nil {
				c := call{Root: v.root, Key: []byte(p), Value: nil, Proof: proof}
				if w.verify("absent", vi, c) {
					w.fail("sound:absent-key-proved", fmt.Sprintf("a proof was produced and verifies for key %s which root %x does not contain", mx.Short([]byte(p)), v.root), witnessOf(w, c, nil))
				}
			}
		}
	}
	// (ii) soundness: mutations on a sample of honest proofs
	nm := w.in.MutKeys * len(vers)
	sound := func(stage string, c call, vi int, strict bool, what string) {
		ok := w.verify(stage, vi, c)
		w.cnt["mutations_"+stage]++
		if !ok {
			w.cnt["mutations_rejected"]++
			return
		}
		// verification said true: is it a true fact at that root?
		fact := false
		for _, v := range vers {
			if bytes.Equal(v.root, c.Root) {
				if val, has := v.m.M[string(c.Key)]; has && bytes.Equal(val, c.Value) {
					fact = true
				}
			}
		}
		switch {
		case strict:
			w.fail("sound:"+stage+"-accepted", fmt.Sprintf("%s: verification succeeds under %s (%s)", stage, cfg.Name, what), witnessOf(w, c, map[string]any{"mutation": what, "history_index": idx}))
		case !fact:
			w.fail("sound:"+stage+"-proves-non-fact", fmt.Sprintf("%s: verification succeeds under %s although the state at that root does not map the key to the value (%s)", stage, cfg.Name, what),
				witnessOf(w, c, map[string]any{"mutation": what, "history_index": idx}))
		default:
			w.cnt["mutated_inputs_still_verifying_a_true_fact"]++
			w.seen("still_verifying_kinds", stage+":"+what)
		}
	}
	for t := 0; t < nm && len(hs) > 0; t++ {
		hp := hs[rng.Intn(len(hs))]
		v := vers[hp.vi]
		k, val := []byte(hp.key), v.m.M[hp.key]
		base := call{Root: v.root, Key: k, Value: val, Proof: hp.proof}
		// -- other value (strict)
		for _, nv := range [][]byte{flip(rng, val), append(append([]byte{}, val...), 0x00), append(append([]byte{}, val...), byte(rng.Intn(256))), nil, rng.Bytes(rng.Range(1, 40)), k} {
			if len(val) > 0 && rng.Chance(30) {
				nv = val[:len(val)-1]
			}
			if bytes.Equal(nv, val) {
				continue
			}
			c := base
			c.Value = nv
			sound("other-value", c, hp.vi, true, "value replaced")
		}
		// -- other key (strict): neighbours, other keys of the tree with their own and with this value
		ks := v.m.Keys()
		cands := [][]byte{flip(rng, k), append(append([]byte{}, k...), 0x00), nil}
		if len(k) > 0 {
			cands = append(cands, k[:len(k)-1])
		}
		for q := 0; q < 3 && len(ks) > 1; q++ {
			cands = append(cands, []byte(lib.Pick(rng, ks)))
		}
		for _, nk := range cands {
			if bytes.Equal(nk, k) {
				continue
			}
			c := base
			c.Key = nk
			sound("other-key", c, hp.vi, true, "key replaced, value kept")
			if ov, has := v.m.M[string(nk)]; has {
				c.Value = ov
				sound("other-key", c, hp.vi, true, "proof of one key presented for another present key with that key's own value")
			}
		}
		// key/value boundary shift (both fields change, the concatenation stays): implication
		if len(k) > 0 {
			c := base
			c.Key, c.Value = k[:len(k)-1], append([]byte{k[len(k)-1]}, val...)
			sound("kv-boundary-shift", c, hp.vi, false, "last key byte moved into the value")
		}
		// -- other root (strict)
		rootCands := [][]byte{flip(rng, v.root), v.root[:31], append(append([]byte{}, v.root...), 0x00), append([]byte("_mh_-0000000001-"), v.root...), nil, mx.EmptyRoot, mx.LeafHash(k, val)}
		for _, ov := range vers {
			rootCands = append(rootCands, ov.root)
		}
		for _, nr := range rootCands {
			if bytes.Equal(nr, v.root) {
				continue
			}
			c := base
			c.Root = nr
			sound("other-root", c, hp.vi, true, "root replaced")
		}
		// -- the proof presented at another version's root with that version's value: implication
		for _, ov := range vers {
			if bytes.Equal(ov.root, v.root) {
				continue
			}
			if oval, has := ov.m.M[hp.key]; has {
				c := base
				c.Root, c.Value = ov.root, oval
				sound("transplant-to-other-root", c, hp.vi, false, "proof from one version, root and value from another")
			}
		}
		// -- structured proof mutations: with the honest (k,v,root) any answer is fine (crash monitor, counted);
		//    with a wrong value / wrong key they must never make a non-fact verify
		muts, names := proofMutants(rng, hp.proof, 10)
		for i, mp := range muts {
			c := base
			c.Proof = mp
			sound("proof-mutation", c, hp.vi, false, names[i])
			c.Value = flip(rng, val)
			sound("proof-mutation+wrong-value", c, hp.vi, false, names[i])
			if len(ks) > 1 {
				c = base
				c.Proof = mp
				c.Key = []byte(lib.Pick(rng, ks))
				c.Value = v.m.M[string(c.Key)]
				if !bytes.Equal(c.Key, k) {
					sound("proof-mutation+other-present-pair", c, hp.vi, false, names[i])
				}
			}
		}
		// empty proof
		c := base
		c.Proof = nil
		sound("empty-proof", c, hp.vi, false, "no proof bytes")
	}
	// (iii) byte fuzz
	for f := 0; f < w.in.Fuzz; f++ {
		var hp honest
		var v version
		c := call{Root: rng.Bytes(32), Key: rng.Bytes(rng.Intn(12)), Value: rng.Bytes(rng.Intn(12))}
		if len(hs) > 0 {
			hp = hs[rng.Intn(len(hs))]
			v = vers[hp.vi]
			c = call{Root: v.root, Key: []byte(hp.key), Value: v.m.M[hp.key]}
		}
		c.Proof = garbageProof(rng, hp.proof)
		switch x := rng.Intn(100); {
		case x < 45: // honest triple: any answer is a true fact
		case x < 75:
			c.Value = flip(rng, c.Value)
		case x < 85:
			c.Key = flip(rng, c.Key)
		case x < 90:
			c.Root = lib.Pick(rng, [][]byte{nil, {}, c.Root[:rng.Intn(32)], append(append([]byte{}, c.Root...), rng.Bytes(rng.Range(1, 40))...), rng.Bytes(32)})
		case x < 93:
			c.NilKV = true
			c.Key, c.Value = nil, nil
		}
		sound("fuzz", c, hp.vi, false, "fuzzed proof bytes")
		w.cnt["fuzz_inputs"]++
		if len(c.Proof) > 10000 {
			w.cnt["fuzz_inputs_over_10k_bytes"]++
		}
	}
	nk := 0
	for _, v := range vers {
		nk += len(v.m.M)
	}
	d := func(k string) int64 { return w.cnt[k] - before[k] }
	co := caseOut{Index: idx, Cfg: cfg.Name,
		Nontrivial: w.nfail == failBefore && maxPath >= 2 && d("honest_proofs_verified") > 0 && d("mutations_rejected") > 0 && d("fuzz_inputs") > 0,
		FP:         lib.Fingerprint(map[string]any{"i": idx, "cfg": cfg.Name, "roots": len(vers), "keys": nk, "alphabet": h.Alphabet})}
	if idx < 2 && cfg.Name == "prefix" {
		co.Sample = map[string]any{"tree_index": idx, "cfg": cfg.Name, "alphabet": h.Alphabet, "versions": len(vers), "keys_over_versions": nk, "longest_proof_path": maxPath,
			"honest_proofs_verified": d("honest_proofs_verified"), "mutations_rejected": d("mutations_rejected"), "fuzz_inputs": d("fuzz_inputs")}
	}
	w.out.Cases = append(w.out.Cases, co)
	w.seen("alphabets", h.Alphabet)
	if len(vers) > 0 && len(vers[0].m.M) == 1 {
		w.cnt["single_leaf_trees"]++
	}
}

func workChild(in []byte) (any, error) {
	mx.Quiet()
	var wi workIn
	if err := json.Unmarshal(in, &wi); err != nil {
		return nil, err
	}
	tmp := os.Getenv("VERIF_TMP")
	pf, err := os.OpenFile(os.Getenv("C03_PROGRESS"), os.O_CREATE|os.O_RDWR, 0o644)
	if err != nil {
		return nil, err
	}
	defer pf.Close()
	w := &worker{in: wi, out: &workOut{Counters: map[string]int64{}, Sets: map[string][]string{}}, cnt: map[string]int64{}, sets: map[string]map[string]bool{}, progress: pf}
	for _, idx := range wi.Indices {
		for ci, cfg := range mx.ConfigsC01 {
			w.doTree(idx, cfg, filepath.Join(tmp, fmt.Sprintf("t%d-%d", idx, ci)))
		}
		w.out.Done = append(w.out.Done, idx)
		// partial results survive a later crash of this worker
		w.flush()
		b, _ := json.Marshal(w.out)
		os.WriteFile(os.Getenv("C03_PARTIAL"), b, 0o644)
	}
	w.flush()
	return w.out, nil
}

func (w *worker) flush() {
	w.out.Counters = map[string]int64{}
	for k, v := range w.cnt {
		w.out.Counters[k] = v
	}
	w.out.Sets = map[string][]string{}
	for k, m := range w.sets {
		for v := range m {
			w.out.Sets[k] = append(w.out.Sets[k], v)
		}
	}
}

var (
	kindMu    sync.Mutex
	kindsSeen = map[string]bool{}
)

func run(c *lib.Ctx) {
	c.Rule("case = (generated tree history, configuration): 1-8 versions of up to 300 keys (C01 generator incl. ticket keys; every 10th tree starts with a single leaf) built by the real store under " +
		"plain / prefix / prefix+prune / memtree+memval. Every present key of every version gets its proof verified (completeness). For sampled keys: every single-field change of value, key and root must be rejected " +
		"(strict); key/value boundary shifts, proofs moved to other roots, 14 kinds of structured proof mutations (also combined with a wrong value / another present pair), the empty proof and fuzzed proofs " +
		"(random bytes, truncated/extended/bit-flipped/spliced honest proofs, structured protobuf garbage with huge heights, odd hash lengths, thousands of inner nodes, wrong wire types, over-long varints) " +
		"must never verify a (key,value) the model does not hold at that root. Each call is announced on disk first; panics and child deaths are violations. " +
		"non-trivial = tree with a proof path of >=2 inner nodes, >=1 honest proof verified, >=1 mutation rejected and >=1 fuzz input, measured")
	c.Assume("sha256 second preimages are not found by the generators", "GetKVPairProof is only required to be total on committed roots; crash-freedom is decided for VerifyKVPairProof",
		"a mutated proof that still verifies the unchanged true (key,value,root) is not a violation (ignored proof fields: leafHash/rootHash fields, bytes before the last 32 of a sibling hash, the unused side of an inner node)")
	n := c.N(30, 400)
	fuzz := c.N(420, 420)   // per (tree, cfg): quick 30*4*420 = 50k
	mutKeys := c.N(10, 10) // per version
	var idxs []int
	for i := 0; i < n; i++ {
		if !c.Skip(i) {
			idxs = append(idxs, i)
		}
	}
	nw := 16
	if len(idxs) < nw {
		nw = len(idxs)
	}
	chunks := make([][]int, nw)
	for k, i := range idxs {
		chunks[k%nw] = append(chunks[k%nw], i)
	}
	merge := func(out *workOut) {
		for _, co := range out.Cases {
			c.Case(co.FP, co.Nontrivial, co.Sample)
		}
		for k, v := range out.Counters {
			c.Count(k, v)
		}
		for set, vs := range out.Sets {
			for _, v := range vs {
				c.Seen(set, v)
				if set == "still_verifying_kinds" {
					kindMu.Lock()
					kindsSeen[v] = true
					kindMu.Unlock()
				}
			}
		}
		for _, f := range out.Failures {
			c.Violation(f.Index, f.Shape, f.Witness, "tree %d: %s", f.Index, f.Msg)
		}
	}
	lib.Parallel(nw, 16, func(k int) {
		todo := chunks[k]
		for round := 0; len(todo) > 0 && round < 50; round++ {
			prog := filepath.Join(c.Tmp, fmt.Sprintf("progress-%d-%d", k, round))
			part := filepath.Join(c.Tmp, fmt.Sprintf("partial-%d-%d", k, round))
			res := c.Child("work", workIn{Seed: c.Seed, Tier: c.Tier, Indices: todo, Fuzz: fuzz, MutKeys: mutKeys},
				lib.ChildOpts{Timeout: 30 * time.Minute, Env: []string{"GOGC=200", "C03_PROGRESS=" + prog, "C03_PARTIAL=" + part}})
			if res.TimedOut {
				c.Inconclusive("worker for trees %v hit the watchdog", todo)
				return
			}
			var out workOut
			if !res.Died && json.Unmarshal(res.Out, &out) == nil {
				merge(&out)
				return
			}
			// the worker died: the announced case is the crashing input
			pb, _ := os.ReadFile(prog)
			rec := strings.TrimSpace(string(pb))
			parts := strings.SplitN(rec, "|", 5)
			crashIdx := todo[0]
			if len(parts) == 5 {
				fmt.Sscan(parts[0], &crashIdx)
			}
			if b, err := os.ReadFile(part); err == nil && json.Unmarshal(b, &out) == nil {
				merge(&out)
			}
			c.Count("child_deaths", 1)
			stage := "?"
			if len(parts) == 5 {
				stage = parts[2]
			}
			c.Violation(crashIdx, "crash:process-died:"+stage, map[string]any{"announced_case": rec, "format": "tree|cfg|stage|version-or-counter|hex(first 3000 proof bytes or key)", "exit_code": res.ExitCode, "stderr": res.Stderr},
				"worker process died (exit %d) while executing the announced case %s\n%s", res.ExitCode, rec[:minInt(len(rec), 300)], res.Stderr)
			// continue with the trees after the crashing one
			var rest []int
			after := false
			for _, i := range todo {
				if after {
					rest = append(rest, i)
				}
				if i == crashIdx {
					after = true
				}
			}
			todo = rest
		}
	})
	c.Extra("configs", []string{"plain", "prefix", "prefix+prune", "memtree+memval"})
	kindMu.Lock()
	var kinds []string
	for k := range kindsSeen {
		kinds = append(kinds, k)
	}
	kindMu.Unlock()
	sort.Strings(kinds)
	c.Extra("mutation_kinds_that_still_verified_a_true_fact", kinds)
	c.RequireEvents("honest_proofs_verified", 500)
	c.RequireEvents("mutations_rejected", 1000)
	c.RequireEvents("fuzz_inputs", 1000)
}

func main() {
	lib.RegisterChild("work", workChild)
	lib.Main("C03", "exploration", run)
}

func minInt(a, b int) int {
	if a < b {
		return a
	}
	return b
}
