// C24: the score-ordered queue (common/skiplist Queue over SkipList) keeps order and capacity.
//
// Oracle: a sorted-slice model (score descending, ties in arrival order) including the admission rule
// (full => evict the lowest-ranked item iff the newcomer ranks strictly higher: higher score, or equal
// score and item.Compare says Big), compared with the real queue after EVERY operation through
// Walk/First/Last/Exist/GetItem/Size/GetCacheBytes, plus the structural walker hook
// (VerifCheckStructure, build tag verif) after every operation. A second stream drives the SkipList
// directly (equal scores allowed there) against the same kind of model.
//
// Cases run in child processes, one case at a time per child, with math/rand (the source of the tower
// heights) seeded from the case, so a case is replayable by index.
package main

import (
	"encoding/json"
	"fmt"
	"math"
	"math/rand"
	"sort"

	"github.com/33cn/chain33/common/skiplist"
	"github.com/33cn/chain33/types"
	"verifharness/lib"
)

// ---------------------------------------------------------------------------------------------
// item

type item struct {
	ID    int
	Score int64
	Prio  int
	Size  int64
	H     string
}

func (it *item) GetScore() int64 { return it.Score }
func (it *item) Hash() []byte    { return []byte(it.H) }
func (it *item) ByteSize() int64 { return it.Size }
func (it *item) Compare(o skiplist.Scorer) int {
	p := o.(*item).Prio
	switch {
	case it.Prio > p:
		return skiplist.Big
	case it.Prio == p:
		return skiplist.Equal
	}
	return skiplist.Small
}

// ---------------------------------------------------------------------------------------------
// model of the queue

type qmodel struct {
	cap   int
	items []*item // score desc, arrival asc
	bytes int64
}

func (m *qmodel) find(h string) int {
	for i, it := range m.items {
		if it.H == h {
			return i
		}
	}
	return -1
}

func (m *qmodel) removeAt(i int) {
	m.bytes -= m.items[i].Size
	m.items = append(m.items[:i], m.items[i+1:]...)
}

// push returns the expected error, the evicted item (if any) and whether the newcomer tied with a resident.
func (m *qmodel) push(it *item) (err error, evicted *item, tie bool) {
	if m.find(it.H) >= 0 {
		return types.ErrTxExist, nil, false
	}
	if len(m.items) >= m.cap {
		tail := m.items[len(m.items)-1]
		if it.Score > tail.Score || (it.Score == tail.Score && it.Prio > tail.Prio) {
			evicted = tail
			m.removeAt(len(m.items) - 1)
		} else {
			return types.ErrMemFull, nil, false
		}
	}
	pos := sort.Search(len(m.items), func(i int) bool { return m.items[i].Score < it.Score })
	if pos > 0 && m.items[pos-1].Score == it.Score {
		tie = true
	}
	m.items = append(m.items, nil)
	copy(m.items[pos+1:], m.items[pos:])
	m.items[pos] = it
	m.bytes += it.Size
	return nil, evicted, tie
}

func (m *qmodel) remove(h string) error {
	i := m.find(h)
	if i < 0 {
		return types.ErrNotFound
	}
	m.removeAt(i)
	return nil
}

// ---------------------------------------------------------------------------------------------
// case description / result

type opRec struct {
	Op    string `json:"op"`
	Hash  string `json:"hash,omitempty"`
	Score int64  `json:"score"`
	Prio  int    `json:"prio,omitempty"`
	Size  int64  `json:"size,omitempty"`
}

type caseRes struct {
	Idx        int            `json:"idx"`
	Stream     string         `json:"stream"`
	Params     map[string]any `json:"params"`
	Ops        int            `json:"ops"`
	Counts     map[string]int `json:"counts"`
	MaxLevel   int            `json:"max_level"`
	Nontrivial bool           `json:"nontrivial"`
	Bad        string         `json:"bad,omitempty"`
	Shape      string         `json:"shape,omitempty"`
	FailOp     int            `json:"fail_op,omitempty"`
	Prefix     []opRec        `json:"prefix,omitempty"`
}

type batchIn struct {
	Seed   int64  `json:"seed"`
	Tier   string `json:"tier"`
	Stream string `json:"stream"`
	Idx    []int  `json:"idx"`
}

func errStr(e error) string {
	if e == nil {
		return "nil"
	}
	return e.Error()
}

func scorePool(r *lib.Rng) (kind string, pool []int64) {
	switch r.Intn(6) {
	case 0:
		kind = "few"
		n := r.Range(1, 3)
		for i := 0; i < n; i++ {
			pool = append(pool, int64(r.Range(-2, 3)))
		}
	case 1:
		kind = "around-sentinel"
		pool = []int64{-3, -2, -1, 0, 1}
	case 2:
		kind = "small-range"
		for i := 0; i < 12; i++ {
			pool = append(pool, int64(r.Range(-6, 6)))
		}
	case 3:
		kind = "many"
		for i := 0; i < 400; i++ {
			pool = append(pool, int64(r.Range(-200, 200)))
		}
	case 4:
		kind = "extremes"
		pool = []int64{math.MinInt64, math.MinInt64 + 1, -1, 0, 1, math.MaxInt64 - 1, math.MaxInt64, -1 << 32, 1 << 32}
	default:
		kind = "wide"
		for i := 0; i < 600; i++ {
			pool = append(pool, int64(r.U64()))
		}
	}
	return
}

// runQueueCase executes one generated push/remove history against the real queue and the model.
func runQueueCase(seed int64, tier string, idx int) caseRes {
	c := &lib.Ctx{Prop: "C24", Seed: seed}
	r := c.CaseRng("queue", idx)
	rand.Seed(int64(r.U64() >> 1)) // tower heights of this case
	var capacity int
	if r.Chance(55) {
		capacity = r.Range(1, 5)
	} else {
		capacity = lib.Pick(r, []int{6, 8, 16, 40, 120, 300})
	}
	kind, pool := scorePool(r)
	nOps := r.Range(200, 1500)
	if tier == "thorough" {
		nOps = r.Range(200, 5000)
	}
	nHash := capacity*2 + r.Range(1, 6)
	if r.Chance(30) {
		nHash = capacity + r.Range(0, 2)
	}
	rmPct := r.Range(10, 45)
	prios := r.Range(1, 3)
	res := caseRes{Idx: idx, Stream: "queue", Counts: map[string]int{},
		Params: map[string]any{"capacity": capacity, "scores": kind, "distinct_scores": len(pool), "ops": nOps, "hashes": nHash, "remove_pct": rmPct, "prios": prios}}
	q := skiplist.NewQueue(int64(capacity))
	m := &qmodel{cap: capacity}
	var log []opRec
	fail := func(op int, shape, format string, a ...any) caseRes {
		res.Bad = fmt.Sprintf("op #%d %s: ", op, lib.JSON(log[len(log)-1])) + fmt.Sprintf(format, a...)
		res.Shape = shape
		res.FailOp = op
		if len(log) <= 80 {
			res.Prefix = log
		}
		return res
	}
	nextID := 0
	var walk []*item
	var touched []string
	for op := 0; op < nOps; op++ {
		res.Ops++
		touched = touched[:0]
		if r.Chance(rmPct) {
			var h string
			if len(m.items) > 0 && r.Chance(75) {
				h = lib.Pick(r, m.items).H
			} else {
				h = fmt.Sprintf("h%d", r.Intn(nHash))
			}
			log = append(log, opRec{Op: "remove", Hash: h})
			want := m.remove(h)
			got := q.Remove(h)
			if got != want {
				return fail(op, "remove-result", "Remove returned %s, model says %s", errStr(got), errStr(want))
			}
			if want == nil {
				res.Counts["removes"]++
			} else {
				res.Counts["remove_absent"]++
			}
			touched = append(touched, h)
		} else {
			nextID++
			it := &item{ID: nextID, Score: lib.Pick(r, pool), Prio: r.Intn(prios), Size: int64(r.Range(1, 500)), H: fmt.Sprintf("h%d", r.Intn(nHash))}
			log = append(log, opRec{Op: "push", Hash: it.H, Score: it.Score, Prio: it.Prio, Size: it.Size})
			wasFull := len(m.items) >= m.cap
			want, evicted, tie := m.push(it)
			got := q.Push(it)
			if got != want {
				shape := "push-result"
				if wasFull {
					shape = "admission-decision"
				}
				return fail(op, shape, "Push returned %s, model says %s (queue full=%v, model tail=%s)", errStr(got), errStr(want), wasFull, lib.JSON(tailOf(m, evicted)))
			}
			switch {
			case want == types.ErrTxExist:
				res.Counts["push_duplicate"]++
			case want == types.ErrMemFull:
				res.Counts["push_rejected_full"]++
				if len(m.items) > 0 && m.items[len(m.items)-1].Score == it.Score {
					res.Counts["rejected_equal_score"]++
				}
			default:
				res.Counts["push_admitted"]++
				if evicted != nil {
					res.Counts["evictions"]++
					if evicted.Score == it.Score {
						res.Counts["evictions_equal_score"]++
					}
					touched = append(touched, evicted.H)
				}
				if tie {
					res.Counts["tie_pushes"]++
				}
			}
			touched = append(touched, it.H)
		}
		// ---- compare the observable state after the operation
		if q.Size() != len(m.items) {
			return fail(op, "size", "Size()=%d, model holds %d", q.Size(), len(m.items))
		}
		if int64(q.Size()) > q.MaxSize() {
			return fail(op, "capacity", "Size()=%d exceeds capacity %d", q.Size(), q.MaxSize())
		}
		if q.GetCacheBytes() != m.bytes {
			return fail(op, "bytes", "GetCacheBytes()=%d, contents sum to %d", q.GetCacheBytes(), m.bytes)
		}
		walk = walk[:0]
		q.Walk(0, func(s skiplist.Scorer) bool { walk = append(walk, s.(*item)); return true })
		if len(walk) != len(m.items) {
			return fail(op, "walk-length", "Walk yields %d items, model holds %d", len(walk), len(m.items))
		}
		for i := range walk {
			if walk[i] != m.items[i] {
				shape := "walk-order"
				if walk[i].Score == m.items[i].Score {
					shape = "walk-order-ties"
				}
				return fail(op, shape, "Walk position %d is item %s, expected %s (score desc, ties in arrival order)", i, lib.JSON(walk[i]), lib.JSON(m.items[i]))
			}
		}
		for i := 1; i < len(walk); i++ {
			if walk[i-1].Score < walk[i].Score {
				return fail(op, "walk-order", "Walk not descending at %d", i)
			}
		}
		if len(m.items) == 0 {
			if q.First() != nil || q.Last() != nil {
				return fail(op, "first-last", "First/Last non-nil on an empty queue")
			}
		} else {
			if f, _ := q.First().(*item); f != m.items[0] {
				return fail(op, "first-last", "First()=%s, expected %s", lib.JSON(f), lib.JSON(m.items[0]))
			}
			if l, _ := q.Last().(*item); l != m.items[len(m.items)-1] {
				return fail(op, "first-last", "Last()=%s, expected %s", lib.JSON(l), lib.JSON(m.items[len(m.items)-1]))
			}
		}
		// partial walks
		if len(m.items) > 0 {
			k := r.Range(1, len(m.items)+1)
			n := 0
			q.Walk(k, func(s skiplist.Scorer) bool { n++; return true })
			want := k
			if want > len(m.items) {
				want = len(m.items)
			}
			if n != want {
				return fail(op, "walk-count", "Walk(%d) visited %d items of %d", k, n, len(m.items))
			}
			stop := r.Range(1, len(m.items))
			n = 0
			q.Walk(0, func(s skiplist.Scorer) bool { n++; return n < stop })
			if n != stop {
				return fail(op, "walk-count", "Walk stopped by callback after %d visited %d", stop, n)
			}
		}
		// membership / lookup for the touched hashes and two random ones
		touched = append(touched, fmt.Sprintf("h%d", r.Intn(nHash)), fmt.Sprintf("h%d", r.Intn(nHash)))
		for _, h := range touched {
			i := m.find(h)
			if q.Exist(h) != (i >= 0) {
				return fail(op, "exist", "Exist(%s)=%v, model membership %v", h, q.Exist(h), i >= 0)
			}
			g, err := q.GetItem(h)
			if i >= 0 {
				if err != nil || g.(*item) != m.items[i] {
					return fail(op, "getitem", "GetItem(%s)=(%s,%s), expected %s", h, lib.JSON(g), errStr(err), lib.JSON(m.items[i]))
				}
			} else if err != types.ErrNotFound || g != nil {
				return fail(op, "getitem", "GetItem(%s) of an absent hash = (%s,%s)", h, lib.JSON(g), errStr(err))
			}
		}
		res.Counts["lookups"] += len(touched)
		if bad := q.VerifCheckStructure(); len(bad) > 0 {
			return fail(op, "structure", "structural invariant broken: %v", bad)
		}
		res.Counts["structure_checks"]++
	}
	res.Nontrivial = res.Counts["evictions"] > 0 && res.Counts["push_rejected_full"] > 0 && res.Counts["tie_pushes"] > 0 && res.Counts["removes"] > 0
	return res
}

func tailOf(m *qmodel, evicted *item) *item {
	if evicted != nil {
		return evicted
	}
	if len(m.items) == 0 {
		return nil
	}
	return m.items[len(m.items)-1]
}

// runListCase drives the SkipList directly; equal scores are separate nodes here (FIFO among equals).
func runListCase(seed int64, tier string, idx int) caseRes {
	c := &lib.Ctx{Prop: "C24", Seed: seed}
	r := c.CaseRng("list", idx)
	rand.Seed(int64(r.U64() >> 1))
	kind, pool := scorePool(r)
	nOps := r.Range(100, 1200)
	if tier == "thorough" {
		nOps = r.Range(100, 4000)
	}
	target := lib.Pick(r, []int{3, 10, 40, 150, 400})
	res := caseRes{Idx: idx, Stream: "list", Counts: map[string]int{},
		Params: map[string]any{"scores": kind, "distinct_scores": len(pool), "ops": nOps, "target_len": target}}
	sl := skiplist.NewSkipList(&skiplist.SkipValue{Score: -1})
	var model []*skiplist.SkipValue // score desc, arrival asc
	var log []opRec
	fail := func(op int, shape, format string, a ...any) caseRes {
		res.Bad = fmt.Sprintf("op #%d %s: ", op, lib.JSON(log[len(log)-1])) + fmt.Sprintf(format, a...)
		res.Shape = "list-" + shape
		res.FailOp = op
		if len(log) <= 80 {
			res.Prefix = log
		}
		return res
	}
	firstLE := func(score int64) int { // first position whose score <= score
		return sort.Search(len(model), func(i int) bool { return model[i].Score <= score })
	}
	var now []*skiplist.SkipValue
	for op := 0; op < nOps; op++ {
		res.Ops++
		del := len(model) > 0 && (len(model) >= target && r.Chance(60) || r.Chance(30))
		if del {
			var score int64
			present := r.Chance(85)
			if present {
				score = lib.Pick(r, model).Score
			} else {
				score = lib.Pick(r, pool)
			}
			log = append(log, opRec{Op: "delete", Score: score})
			p := firstLE(score)
			found := p < len(model) && model[p].Score == score
			ret := sl.Delete(&skiplist.SkipValue{Score: score})
			if (ret == 1) != found {
				return fail(op, "delete-result", "Delete(score %d) returned %d, model has such a node: %v", score, ret, found)
			}
			if found {
				res.Counts["deletes"]++
				// exactly one node with that score must be gone; which of the equals is not part of the property
				now = now[:0]
				sl.WalkS(func(v interface{}) bool { now = append(now, v.(*skiplist.SkipValue)); return true })
				gone := -1
				if len(now) == len(model)-1 {
					for i := range model {
						if i >= len(now) || now[i] != model[i] {
							gone = i
							break
						}
					}
				}
				if gone < 0 || model[gone].Score != score {
					return fail(op, "delete-effect", "Delete(score %d) did not remove exactly one node of that score (len %d -> %d)", score, len(model), len(now))
				}
				model = append(model[:gone], model[gone+1:]...)
			} else {
				res.Counts["delete_absent"]++
			}
		} else {
			v := &skiplist.SkipValue{Score: lib.Pick(r, pool), Value: op}
			log = append(log, opRec{Op: "insert", Score: v.Score})
			pos := sort.Search(len(model), func(i int) bool { return model[i].Score < v.Score })
			if pos > 0 && model[pos-1].Score == v.Score {
				res.Counts["tie_inserts"]++
			}
			model = append(model, nil)
			copy(model[pos+1:], model[pos:])
			model[pos] = v
			if ret := sl.Insert(v); ret != 1 {
				return fail(op, "insert-result", "Insert returned %d", ret)
			}
			res.Counts["inserts"]++
		}
		if sl.Len() != len(model) {
			return fail(op, "len", "Len()=%d, model holds %d", sl.Len(), len(model))
		}
		now = now[:0]
		sl.WalkS(func(v interface{}) bool { now = append(now, v.(*skiplist.SkipValue)); return true })
		if len(now) != len(model) {
			return fail(op, "walk-length", "WalkS yields %d nodes, model holds %d", len(now), len(model))
		}
		for i := range now {
			if now[i] != model[i] {
				shape := "walk-order"
				if now[i].Score == model[i].Score {
					shape = "walk-order-ties"
				}
				return fail(op, shape, "position %d holds (score %d, inserted at op %v), expected (score %d, inserted at op %v)", i, now[i].Score, now[i].Value, model[i].Score, model[i].Value)
			}
		}
		// iterator: first / last / backwards walk over prev pointers
		it := sl.GetIterator()
		if len(model) == 0 {
			if it.First() != nil || it.Last() != nil {
				return fail(op, "iterator", "First/Last non-nil on an empty list")
			}
		} else {
			if it.First() != model[0] {
				return fail(op, "iterator", "iterator First() is not the highest-score node")
			}
			if it.Last() != model[len(model)-1] {
				return fail(op, "iterator", "iterator Last() is not the lowest-ranked node")
			}
			for i := len(model) - 2; i >= 0; i-- {
				if it.Prev().Value() != model[i] {
					return fail(op, "iterator-prev", "walking backwards from Last(): position %d differs", i)
				}
			}
			res.Counts["backward_walks"]++
		}
		// find / seek
		for k := 0; k < 3; k++ {
			var s int64
			if len(model) > 0 && r.Chance(60) {
				s = lib.Pick(r, model).Score
			} else {
				s = lib.Pick(r, pool)
			}
			p := firstLE(s)
			var wantSeek, wantFind *skiplist.SkipValue
			if p < len(model) {
				wantSeek = model[p]
				if model[p].Score == s {
					wantFind = model[p]
				}
			}
			probe := &skiplist.SkipValue{Score: s}
			if g := sl.Find(probe); g != wantFind {
				return fail(op, "find", "Find(score %d) = %v, expected %v", s, g, wantFind)
			}
			if g := sl.FindGreaterOrEqual(probe); g != wantSeek {
				return fail(op, "seek", "FindGreaterOrEqual(score %d) = %v, expected %v", s, g, wantSeek)
			}
			if g := sl.GetIterator().Seek(probe); g != wantSeek {
				return fail(op, "seek", "Seek(score %d) = %v, expected %v", s, g, wantSeek)
			}
			res.Counts["lookups"] += 3
		}
		if bad := sl.VerifCheckStructure(); len(bad) > 0 {
			return fail(op, "structure", "structural invariant broken: %v", bad)
		}
		res.Counts["structure_checks"]++
		if sl.Level() > res.MaxLevel {
			res.MaxLevel = sl.Level()
		}
	}
	res.Nontrivial = res.MaxLevel >= 3 && res.Counts["deletes"] > 0 && res.Counts["tie_inserts"] > 0
	return res
}

func init() {
	lib.RegisterChild("batch", func(in []byte) (any, error) {
		var b batchIn
		if err := json.Unmarshal(in, &b); err != nil {
			return nil, err
		}
		var out []caseRes
		for _, i := range b.Idx {
			if b.Stream == "queue" {
				out = append(out, runQueueCase(b.Seed, b.Tier, i))
			} else {
				out = append(out, runListCase(b.Seed, b.Tier, i))
			}
		}
		return out, nil
	})
}

func run(c *lib.Ctx) {
	c.Rule("queue stream: generated push/remove histories (capacities 1-5 and 6-300, score pools: 1-3 scores, around the header sentinel -1, small range, many, int64 extremes, wide random; " +
		"hash pools slightly larger than the capacity so duplicates, re-pushes and evictions are frequent); after EVERY operation the real queue is compared with a sorted-slice model " +
		"(return value incl. the admission/eviction decision, Size<=capacity, GetCacheBytes, full Walk order by item identity, Walk(count)/early stop, First, Last, Exist/GetItem) and the structural walker runs; " +
		"list stream: SkipList Insert/Delete with equal scores as separate nodes, compared by node identity incl. backwards iteration, Find/Seek. " +
		"non-trivial queue case = measured >=1 eviction, >=1 rejection of a full queue, >=1 push into an occupied score bucket and >=1 removal; non-trivial list case = tower level >=3 reached, >=1 delete, >=1 equal-score insert")
	c.Assume("tower heights come from math/rand seeded per case in a child process; items' secondary order (Scorer.Compare) is a generated priority field")
	streams := []struct {
		name string
		n    int
	}{{"queue", c.N(480, 16000)}, {"list", c.N(240, 6400)}}
	type job struct {
		stream string
		idx    []int
	}
	var jobs []job
	base := 0
	for _, s := range streams {
		per := 20
		if !c.Quick() {
			per = 100
		}
		for from := 0; from < s.n; from += per {
			var idx []int
			for i := from; i < from+per && i < s.n; i++ {
				if c.Skip(base + i) {
					continue
				}
				idx = append(idx, i)
			}
			if len(idx) > 0 {
				jobs = append(jobs, job{s.name, idx})
			}
		}
		base += 1000000
	}
	lib.Parallel(len(jobs), 16, func(j int) {
		jb := jobs[j]
		res := c.Child("batch", batchIn{Seed: c.Seed, Tier: c.Tier, Stream: jb.stream, Idx: jb.idx}, lib.ChildOpts{Env: []string{"GOMAXPROCS=2"}})
		off := 0
		if jb.stream == "list" {
			off = 1000000
		}
		if res.TimedOut {
			c.Inconclusive("child for %s cases %d.. timed out", jb.stream, jb.idx[0])
			return
		}
		var out []caseRes
		if res.Died || json.Unmarshal(res.Out, &out) != nil {
			// a crash inside the queue code: find the case by re-running the batch one case at a time
			for _, i := range jb.idx {
				one := c.Child("batch", batchIn{Seed: c.Seed, Tier: c.Tier, Stream: jb.stream, Idx: []int{i}}, lib.ChildOpts{Env: []string{"GOMAXPROCS=2"}})
				if one.Died && !one.TimedOut {
					c.Violation(off+i, jb.stream+"-crash", map[string]any{"stream": jb.stream, "case": i, "stderr": one.Stderr},
						"%s case %d kills the process: %s", jb.stream, i, one.Stderr)
					return
				}
			}
			c.Inconclusive("child for %s cases %d.. died but no single case reproduces it: %s", jb.stream, jb.idx[0], res.Stderr)
			return
		}
		for _, r := range out {
			c.Count("ops_"+r.Stream, int64(r.Ops))
			for k, v := range r.Counts {
				c.Count(r.Stream+"_"+k, int64(v))
			}
			if r.Stream == "list" {
				c.Seen("list_max_level", fmt.Sprint(r.MaxLevel))
			} else {
				c.Seen("queue_param_strata", fmt.Sprintf("cap%v/%v", r.Params["capacity"], r.Params["scores"]))
			}
			fp := lib.Fingerprint(map[string]any{"s": r.Stream, "p": r.Params, "c": r.Counts, "l": r.MaxLevel})
			c.Case(fp, r.Nontrivial, map[string]any{"stream": r.Stream, "case": r.Idx, "params": r.Params, "counts": r.Counts, "max_level": r.MaxLevel})
			if r.Bad != "" {
				c.Violation(off+r.Idx, r.Shape, map[string]any{"stream": r.Stream, "case": r.Idx, "params": r.Params, "fail_op": r.FailOp, "ops_until_failure": r.Prefix}, "%s case %d %s: %s", r.Stream, r.Idx, lib.JSON(r.Params), r.Bad)
			}
		}
	})
	c.RequireEvents("ops_queue", 10000)
	c.RequireEvents("queue_evictions", 100)
	c.RequireEvents("queue_push_rejected_full", 100)
	c.RequireEvents("queue_tie_pushes", 100)
	c.RequireEvents("queue_structure_checks", 10000)
	c.RequireEvents("ops_list", 5000)
}

func main() { lib.Main("C24", "exploration", run) }
