// C04: pending state updates never leak into committed state.
//
// Sequential phase: generated histories of Set / MemSet / Commit / Rollback / abandoned pending updates / empty updates /
// reopen on several parents and competing forks at one height run on the real mavl.Store; a versioned-map model with
// pending versions is the oracle; after EVERY step every committed root is re-read (Store.Get) against the model, a
// freshly committed root is listed completely (IterateRangeByStateHash) and must hold exactly its content, and a fresh
// process finally re-reads every committed root from disk.
// Concurrent phase (-race): the real BaseStore behind a real queue, 8-32 client goroutines (QueueProtocol API) issue
// MemSet/Commit/Rollback/Get/StoreList on a few parents with competing forks at one height; values are unique per
// (writer,counter), roots are content addressed, so any successful read at a committed root must equal that root's
// model content whatever the interleaving. Delay points between tree.Hash() and trees.Store and before Save.
package main

import (
	"bytes"
	"encoding/hex"
	"encoding/json"
	"fmt"
	"os"
	"path/filepath"
	"sort"
	"strings"
	"sync"
	"sync/atomic"
	"time"

	"github.com/33cn/chain33/client"
	clog "github.com/33cn/chain33/common/log"
	"github.com/33cn/chain33/queue"
	drivers "github.com/33cn/chain33/system/store"
	"github.com/33cn/chain33/system/store/mavl"
	mavldb "github.com/33cn/chain33/system/store/mavl/db"
	"github.com/33cn/chain33/types"
	"verifharness/lib"
)

const shapeMemTreePending = "memtree-answers-committed-root-from-never-committed-update-nodes-disk-correct"
const shapeMemTreeDurable = "memtree-committed-root-persisted-with-pointer-into-never-committed-update-record-missing-on-disk"

type Cfg struct {
	Name    string `json:"name"`
	Prefix  bool   `json:"prefix,omitempty"`
	Prune   bool   `json:"prune,omitempty"` // index maintained, interval so large that no prune runs
	MemTree bool   `json:"memtree,omitempty"`
	MemVal  bool   `json:"memval,omitempty"`
}

var cfgs = []Cfg{
	{Name: "plain"},
	{Name: "prefix", Prefix: true},
	{Name: "prefix+prune", Prefix: true, Prune: true},
	{Name: "memtree+memval", MemTree: true, MemVal: true},
	{Name: "prefix+memtree", Prefix: true, MemTree: true},
}

func subCfg(c Cfg) []byte {
	b, _ := json.Marshal(map[string]any{"enableMavlPrefix": c.Prefix, "enableMavlPrune": c.Prune, "pruneHeight": 1000000,
		"enableMemTree": c.MemTree, "enableMemVal": c.MemVal})
	return b
}

func openStore(dir string, c Cfg) *mavl.Store {
	create, err := drivers.Load("mavl")
	if err != nil {
		panic(err)
	}
	return create(&types.Store{Name: "mavl", Driver: "leveldb", DbPath: dir, DbCache: 8}, subCfg(c), nil).(*mavl.Store)
}

func guard(f func()) (p string) {
	defer func() {
		if e := recover(); e != nil {
			p = strings.TrimSpace(fmt.Sprint(e))
		}
	}()
	f()
	return ""
}

func hx(b []byte) string {
	s := hex.EncodeToString(b)
	if len(s) > 12 {
		s = s[:12]
	}
	return s
}

// ---------------------------------------------------------------------------------------------
// sequential phase

type SeqIn struct {
	Idx    int    `json:"idx"`
	Seed   uint64 `json:"seed"`
	Cfg    Cfg    `json:"cfg"`
	Steps  int    `json:"steps"`
	Dir    string `json:"dir"`
	AllKey bool   `json:"all_keys"` // thorough: every key at every root after every step
}

type version struct {
	Root   []byte
	M      map[string]string
	Height int64
}

type pendingV struct {
	version
	Parent []byte
	N      int // identical pending updates computed (same root)
	Empty  bool
}

type Viol struct {
	Shape string `json:"shape"`
	Msg   string `json:"msg"`
	Step  int    `json:"step"`
}

type SeqOut struct {
	Idx             int               `json:"idx"`
	Counters        map[string]int64  `json:"counters"`
	Viols           []Viol            `json:"viols,omitempty"`
	Log             []string          `json:"log"`
	Committed       map[string]mapKV  `json:"committed"`   // hex root -> content (for the fresh-process re-read)
	Uncommit        map[string]mapKV  `json:"uncommitted"` // hex root -> content of rolled back / abandoned updates (not committed under that root)
	Dir             string            `json:"dir"`
	Cfg             Cfg               `json:"cfg"`
	Keys            []string          `json:"keys"`
	Extra           map[string]string `json:"extra,omitempty"`
	UncommitHeights map[int64]int     `json:"uncommitted_heights,omitempty"`
}

type mapKV map[string]string

type seqRunner struct {
	in        *SeqIn
	rng       *lib.Rng
	st        *mavl.Store
	committed map[string]*version
	order     []string // committed roots in commit order
	pending   map[string]*pendingV
	uncommit  map[string]mapKV
	touched   map[string]map[string]bool // root -> keys on which some other (pending / rolled back / sibling) update differs
	keys      []string
	cnt       map[string]int64
	viols     []Viol
	log       []string
	step      int
	uniq      int
	// never-committed (pending, rolled back) updates computed since the last (re)open of the store
	uncommittedSinceRestart int
	uncommittedHeights      map[int64]int // heights of never-committed updates computed since the last (re)open
	everUncommittedHeights  map[int64]int // ... since the start of the history
	lastMissing             [][]byte
}

func (r *seqRunner) violate(shape, format string, a ...any) {
	if len(r.viols) < 5 {
		r.viols = append(r.viols, Viol{Shape: shape, Msg: fmt.Sprintf(format, a...), Step: r.step})
	}
}

func (r *seqRunner) logf(format string, a ...any) {
	r.log = append(r.log, fmt.Sprintf("%d:", r.step)+fmt.Sprintf(format, a...))
}

// readRoot compares Store.Get at a committed root with the model for the given keys.
func (r *seqRunner) readRoot(v *version, keys []string, why string) {
	bk := make([][]byte, len(keys))
	for i, k := range keys {
		bk[i] = []byte(k)
	}
	var vals [][]byte
	if p := guard(func() { vals = r.st.Get(&types.StoreGet{StateHash: v.Root, Keys: bk}) }); p != "" {
		shape, facts := r.shapeOfReadFailure(v, "committed-root-read-panics")
		r.violate(shape, "%s: Get at committed root %s (height %d) panicked: %s [%s]", why, hx(v.Root), v.Height, lib.ShortList(strings.Split(p, "\n"), 1), facts)
		return
	}
	for i, k := range keys {
		r.cnt["reads_compared"]++
		want, has := v.M[k]
		if r.touched[string(v.Root)][k] {
			r.cnt["reads_where_another_update_differs"]++
		}
		if (has && string(vals[i]) != want) || (!has && vals[i] != nil) {
			shape, facts := r.shapeOfReadFailure(v, "committed-root-read-differs")
			r.violate(shape, "%s: Get(root %s height %d, key %q) = %q, model %q (present=%v) [%s]", why, hx(v.Root), v.Height, k, vals[i], want, has, facts)
		}
	}
}

// rawContent walks the persisted node graph of root on the raw DB (no node cache, no memTree).
func (r *seqRunner) rawContent(root []byte) (m map[string]string, missing []string) {
	r.lastMissing = nil
	db := r.st.GetDB()
	m = map[string]string{}
	var rec func(h []byte)
	rec = func(h []byte) {
		v, err := db.Get(h)
		if err != nil || len(v) == 0 {
			missing = append(missing, hx(h))
			r.lastMissing = append(r.lastMissing, append([]byte{}, h...))
			return
		}
		var sn types.StoreNode
		if types.Decode(v, &sn) != nil {
			missing = append(missing, "undecodable:"+hx(h))
			return
		}
		if sn.Height == 0 {
			m[string(sn.Key)] = string(sn.Value)
			return
		}
		rec(sn.LeftHash)
		rec(sn.RightHash)
	}
	rec(root)
	return
}

// shapeOfReadFailure derives the witness shape from measured facts: is memTree on, is the persisted graph of the
// committed root complete and equal to the model on the raw DB (then the store answered from memory, not from
// disk), and were updates computed in this process that never got committed.
func (r *seqRunner) shapeOfReadFailure(v *version, base string) (string, string) {
	m, missing := r.rawContent(v.Root)
	diskOK := len(missing) == 0 && len(m) == len(v.M)
	if diskOK {
		for k, want := range v.M {
			if m[k] != want {
				diskOK = false
			}
		}
	}
	facts := fmt.Sprintf("memTree=%v, persisted graph of the root complete and equal to the model on the raw DB=%v (missing %v), never-committed updates computed since the last restart=%d",
		r.in.Cfg.MemTree, diskOK, missing, r.uncommittedSinceRestart)
	if r.in.Cfg.MemTree && diskOK && r.uncommittedSinceRestart > 0 {
		return shapeMemTreePending, facts
	}
	if r.in.Cfg.MemTree && r.in.Cfg.Prefix && len(missing) > 0 && len(r.lastMissing) > 0 {
		// durable variant: every missing record carries the height prefix of a never-committed update of this history
		all := true
		var hs []int64
		for _, k := range r.lastMissing {
			var h int64 = -1
			if len(k) > 16 && (bytes.HasPrefix(k, []byte("_mb_-")) || bytes.HasPrefix(k, []byte("_mh_-"))) {
				fmt.Sscanf(string(k[5:15]), "%d", &h)
			}
			hs = append(hs, h)
			if h < 0 || r.everUncommittedHeights[h] == 0 {
				all = false
			}
		}
		facts += fmt.Sprintf(", height prefixes of the missing records %v all equal to heights of never-committed updates of this history=%v", hs, all)
		if all {
			return shapeMemTreeDurable, facts
		}
	}
	return base, facts
}

// listRoot: the root must expose exactly its content.
func (r *seqRunner) listRoot(v *version, why string) {
	got := map[string]string{}
	n := 0
	if p := guard(func() {
		r.st.IterateRangeByStateHash(v.Root, nil, nil, true, func(k, val []byte) bool {
			got[string(k)] = string(val)
			n++
			return false
		})
	}); p != "" {
		shape, facts := r.shapeOfReadFailure(v, "committed-root-list-panics")
		r.violate(shape, "%s: listing committed root %s (height %d) panicked: %s [%s]", why, hx(v.Root), v.Height, lib.ShortList(strings.Split(p, "\n"), 1), facts)
		return
	}
	r.cnt["full_listings_compared"]++
	if n != len(v.M) || len(got) != len(v.M) {
		shape, facts := r.shapeOfReadFailure(v, "committed-root-content-differs")
		r.violate(shape, "%s: root %s lists %d entries (%d distinct), model has %d [%s]", why, hx(v.Root), n, len(got), len(v.M), facts)
		return
	}
	for k, want := range v.M {
		if g, ok := got[k]; !ok || g != want {
			shape, facts := r.shapeOfReadFailure(v, "committed-root-content-differs")
			r.violate(shape, "%s: root %s lists %q=%q (present=%v), model %q [%s]", why, hx(v.Root), k, g, ok, want, facts)
			return
		}
	}
}

func (r *seqRunner) checkAll(why string, focus []string) {
	for _, rs := range r.order {
		v := r.committed[rs]
		var keys []string
		if r.in.AllKey {
			keys = r.keys
		} else {
			seen := map[string]bool{}
			for _, k := range focus {
				if !seen[k] {
					seen[k] = true
					keys = append(keys, k)
				}
			}
			for k := range r.touched[rs] {
				if !seen[k] && len(keys) < 14 {
					seen[k] = true
					keys = append(keys, k)
				}
			}
			for len(keys) < 10 {
				k := lib.Pick(r.rng, r.keys)
				if !seen[k] {
					seen[k] = true
					keys = append(keys, k)
				} else if len(seen) >= len(r.keys) {
					break
				}
			}
			sort.Strings(keys)
		}
		r.readRoot(v, keys, why)
	}
}

func (r *seqRunner) genKV(parent *version, siblings []mapKV) ([]*types.KeyValue, map[string]string) {
	n := r.rng.Range(1, 6)
	m := map[string]string{}
	if parent != nil {
		for k, v := range parent.M {
			m[k] = v
		}
	}
	var kvs []*types.KeyValue
	for j := 0; j < n; j++ {
		k := lib.Pick(r.rng, r.keys[:len(r.keys)-2])
		var v string
		switch x := r.rng.Intn(100); {
		case x < 8 && parent != nil && parent.M[k] != "":
			v = parent.M[k] // rewrite the same value (content-identical update)
		case x < 20:
			v = lib.Pick(r.rng, []string{"1", "2"}) // small domain: forks can coincide
		case x < 30 && len(siblings) > 0:
			if sv, ok := lib.Pick(r.rng, siblings)[k]; ok {
				v = sv + "'"
			}
		}
		if v == "" {
			r.uniq++
			v = fmt.Sprintf("v%d.%d", r.in.Idx, r.uniq)
		}
		kvs = append(kvs, &types.KeyValue{Key: []byte(k), Value: []byte(v)})
		m[k] = v
	}
	return kvs, m
}

// noteDiff records, for every committed root, the keys on which update content differs from the root's content:
// a later read of such a key at that root is a read a leak would change.
func (r *seqRunner) noteDiff(m map[string]string, self string) {
	for rs, v := range r.committed {
		if rs == self {
			continue
		}
		for k, val := range m {
			if v.M[k] != val {
				if r.touched[rs] == nil {
					r.touched[rs] = map[string]bool{}
				}
				r.touched[rs][k] = true
			}
		}
	}
}

func (r *seqRunner) commitModel(root []byte, m map[string]string, h int64) *version {
	rs := string(root)
	if old, ok := r.committed[rs]; ok {
		// content-addressed: an equal root must have equal content
		if len(old.M) != len(m) {
			r.violate("harness-model-root-collision", "root %s computed for two different contents", hx(root))
		}
		return old
	}
	v := &version{Root: root, M: m, Height: h}
	r.committed[rs] = v
	r.order = append(r.order, rs)
	delete(r.uncommit, rs)
	return v
}

func (r *seqRunner) run() {
	in := r.in
	nsteps := in.Steps
	for r.step = 0; r.step < nsteps && len(r.viols) == 0; r.step++ {
		x := r.rng.Intn(100)
		var parent *version
		if len(r.order) > 0 {
			// prefer recent roots, but any committed root can be extended (forks)
			if r.rng.Chance(60) {
				lo := len(r.order) - 3
				if lo < 0 {
					lo = 0
				}
				parent = r.committed[r.order[r.rng.Range(lo, len(r.order)-1)]]
			} else {
				parent = r.committed[lib.Pick(r.rng, r.order)]
			}
		}
		pendRoots := make([]string, 0, len(r.pending))
		for k := range r.pending {
			pendRoots = append(pendRoots, k)
		}
		sort.Strings(pendRoots)
		switch {
		case parent == nil || x < 12: // direct Set
			h := int64(1)
			var ph []byte
			if parent != nil {
				h, ph = parent.Height+1, parent.Root
			}
			kvs, m := r.genKV(parent, nil)
			var root []byte
			var err error
			p := guard(func() { root, err = r.st.Set(&types.StoreSet{StateHash: ph, KV: kvs, Height: h}, false) })
			if p != "" || err != nil || root == nil {
				shape, facts := "set-on-committed-parent-failed", ""
				if parent != nil && p != "" {
					// the store itself could not read the committed parent
					shape, facts = r.shapeOfReadFailure(parent, shape)
				}
				r.violate(shape, "Set on committed parent %s failed: %v %s [%s]", hx(ph), err, lib.ShortList(strings.Split(p, "\n"), 1), facts)
				break
			}
			r.cnt["sets"]++
			r.logf("set parent=%s h=%d {%s} -> %s", hx(ph), h, kvStr(kvs), hx(root))
			r.noteDiff(m, string(root))
			v := r.commitModel(root, m, h)
			r.listRoot(v, "after Set")
			r.checkAll("after Set", kvKeys(kvs))
		case x < 50: // MemSet (pending), often a competing fork of an existing pending update
			var sibs []mapKV
			if r.rng.Chance(55) {
				for _, pr := range pendRoots {
					pv := r.pending[pr]
					if !pv.Empty && r.rng.Chance(50) {
						if pp, ok := r.committed[string(pv.Parent)]; ok {
							parent = pp
							sibs = append(sibs, pv.M)
							break
						}
					}
				}
			}
			h := parent.Height + 1
			if r.rng.Chance(10) {
				h = parent.Height + int64(r.rng.Range(2, 3))
			}
			kvs, m := r.genKV(parent, sibs)
			if r.rng.Chance(7) {
				kvs, m = nil, nil // empty update
			}
			var root []byte
			var err error
			p := guard(func() { root, err = r.st.MemSet(&types.StoreSet{StateHash: parent.Root, KV: kvs, Height: h}, false) })
			if p != "" || err != nil || root == nil {
				shape, facts := "memset-on-committed-parent-failed", ""
				if p != "" {
					shape, facts = r.shapeOfReadFailure(parent, shape)
				}
				r.violate(shape, "MemSet on committed parent %s failed: %v %s [%s]", hx(parent.Root), err, lib.ShortList(strings.Split(p, "\n"), 1), facts)
				break
			}
			r.cnt["memsets"]++
			if len(sibs) > 0 {
				r.cnt["memsets_competing_with_pending_sibling"]++
			}
			r.logf("memset parent=%s h=%d {%s} -> %s", hx(parent.Root), h, kvStr(kvs), hx(root))
			if r.rng.Chance(50) {
				// the requester reuses its value buffers once MemSet has replied (requests travel in-process by reference):
				// the pending update must own its content, whatever is committed later is what was handed in
				for _, kv := range kvs {
					for i := range kv.Value {
						kv.Value[i] ^= 0x5a
					}
				}
				r.cnt["memsets_whose_value_buffers_were_overwritten_afterwards"]++
			}
			if kvs == nil {
				r.cnt["memsets_empty"]++
				if !bytes.Equal(root, parent.Root) {
					r.violate("empty-update-root-differs", "MemSet of an empty update on %s returned %s", hx(parent.Root), hx(root))
				}
				pv := r.pending[string(root)]
				if pv == nil || !pv.Empty {
					r.pending[string(root)] = &pendingV{version: version{Root: root, M: parent.M, Height: h}, Parent: parent.Root, N: 1, Empty: true}
				} else {
					pv.N++
				}
			} else {
				if pv, ok := r.pending[string(root)]; ok && !pv.Empty {
					pv.N++
					r.cnt["identical_pending_roots"]++
				} else {
					r.pending[string(root)] = &pendingV{version: version{Root: root, M: m, Height: h}, Parent: parent.Root, N: 1}
				}
				if _, isC := r.committed[string(root)]; isC {
					r.cnt["pending_root_equals_committed_root"]++
				} else {
					r.uncommit[string(root)] = m
				}
				r.noteDiff(m, string(root))
				r.uncommittedSinceRestart++
				r.uncommittedHeights[h]++
				r.everUncommittedHeights[h]++
			}
			r.checkAll("after MemSet", kvKeys(kvs))
		case x < 68 && len(pendRoots) > 0: // Commit
			pr := lib.Pick(r.rng, pendRoots)
			pv := r.pending[pr]
			var root []byte
			var err error
			p := guard(func() { root, err = r.st.Commit(&types.ReqHash{Hash: pv.Root}) })
			r.logf("commit %s -> %s err=%v", hx(pv.Root), hx(root), err)
			if p != "" || err != nil || !bytes.Equal(root, pv.Root) {
				r.violate("commit-of-pending-update-failed", "Commit(%s) of a pending update failed: root=%s err=%v %s", hx(pv.Root), hx(root), err, p)
				break
			}
			r.cnt["commits"]++
			delete(r.pending, pr)
			var v *version
			if pv.Empty {
				r.cnt["commits_of_empty_update"]++
				v = r.committed[pr]
			} else {
				v = r.commitModel(pv.Root, pv.M, pv.Height)
				r.uncommittedSinceRestart -= pv.N
			}
			if v != nil {
				r.listRoot(v, "after Commit")
			}
			ks := make([]string, 0, len(pv.M))
			for k := range pv.M {
				if len(ks) < 8 {
					ks = append(ks, k)
				}
			}
			r.checkAll("after Commit", ks)
		case x < 84 && len(pendRoots) > 0: // Rollback
			pr := lib.Pick(r.rng, pendRoots)
			pv := r.pending[pr]
			var root []byte
			var err error
			p := guard(func() { root, err = r.st.Rollback(&types.ReqHash{Hash: pv.Root}) })
			r.logf("rollback %s err=%v", hx(pv.Root), err)
			if p != "" || err != nil || !bytes.Equal(root, pv.Root) {
				r.violate("rollback-of-pending-update-failed", "Rollback(%s) failed: root=%s err=%v %s", hx(pv.Root), hx(root), err, p)
				break
			}
			r.cnt["rollbacks"]++
			delete(r.pending, pr)
			ks := make([]string, 0, len(pv.M))
			for k := range pv.M {
				if len(ks) < 8 {
					ks = append(ks, k)
				}
			}
			r.checkAll("after Rollback", ks)
		case x < 90: // Commit / Rollback of a root that is not pending: error replies only (evidence)
			h := r.rng.Bytes(32)
			var e1, e2 error
			guard(func() { _, e1 = r.st.Commit(&types.ReqHash{Hash: h}) })
			guard(func() { _, e2 = r.st.Rollback(&types.ReqHash{Hash: h}) })
			if e1 != nil && e2 != nil {
				r.cnt["unknown_root_replies_not_found"]++
			} else {
				r.cnt["unknown_root_replies_ok"]++
			}
			r.checkAll("after Commit/Rollback of an unknown root", nil)
		default: // reopen: every pending update is abandoned
			r.logf("reopen (abandons %d pending)", len(r.pending))
			r.cnt["reopens"]++
			r.cnt["pending_abandoned"] += int64(len(r.pending))
			r.reopen()
			for _, rs := range r.order {
				r.listRoot(r.committed[rs], "after reopen")
			}
			r.probeUncommitted("after reopen")
		}
	}
}

func kvStr(kvs []*types.KeyValue) string {
	var sb strings.Builder
	for i, kv := range kvs {
		if i > 0 {
			sb.WriteByte(' ')
		}
		fmt.Fprintf(&sb, "%q=%q", kv.Key, kv.Value)
	}
	return sb.String()
}

func kvKeys(kvs []*types.KeyValue) []string {
	var ks []string
	for _, kv := range kvs {
		ks = append(ks, string(kv.Key))
	}
	return ks
}

func (r *seqRunner) reopen() {
	r.st.Close()
	mavldb.VerifBResetGlobals()
	r.pending = map[string]*pendingV{}
	r.uncommittedSinceRestart = 0
	r.uncommittedHeights = map[int64]int{}
	r.st = openStore(r.in.Dir, r.in.Cfg)
}

// probeUncommitted: after a restart a rolled back / abandoned update must not be readable from disk under its root.
// This is observed and counted (evidence); the statement of C04 speaks about reads at committed roots only.
func (r *seqRunner) probeUncommitted(why string) {
	for rs, m := range r.uncommit {
		var ks [][]byte
		for k := range m {
			ks = append(ks, []byte(k))
		}
		var vals [][]byte
		guard(func() { vals = r.st.Get(&types.StoreGet{StateHash: []byte(rs), Keys: ks}) })
		r.cnt["uncommitted_roots_probed_after_restart"]++
		for _, v := range vals {
			if v != nil {
				r.cnt["uncommitted_root_readable_after_restart"]++
				break
			}
		}
	}
}

var seqKeys = [][]string{
	{"a", "b", "c", "d", "e", "f", "g", "h", "i", "j", "k", "l", "m", "n", "o", "p", "q", "r", "s", "t"},
	{"k", "k0", "k00", "k01", "k1", "kk", "mavl-acc-1", "mavl-acc-10", "mavl-acc-2", "mavl-coins-x", "z", "z0", "zz", "zzz", "\x01", "x\x00y"},
	{"acc:01", "acc:02", "acc:03", "acc:04", "acc:05", "acc:06", "acc:07", "acc:08", "acc:09", "acc:10", "acc:11", "acc:12", "acc:13", "acc:14", "acc:15", "acc:16",
		"acc:17", "acc:18", "acc:19", "acc:20", "acc:21", "acc:22", "acc:23", "acc:24", "acc:25", "acc:26", "acc:27", "acc:28", "acc:29", "acc:30", "acc:31", "acc:32", "acc:33", "acc:34"},
}

func childSeq(in []byte) (any, error) {
	clog.SetLogLevel("crit")
	var ins []SeqIn
	if err := json.Unmarshal(in, &ins); err != nil {
		return nil, err
	}
	var outs []SeqOut
	for i := range ins {
		si := &ins[i]
		mavldb.VerifBResetGlobals()
		os.RemoveAll(si.Dir)
		rng := lib.NewRng(si.Seed)
		r := &seqRunner{in: si, rng: rng, committed: map[string]*version{}, pending: map[string]*pendingV{}, uncommit: map[string]mapKV{},
			touched: map[string]map[string]bool{}, cnt: map[string]int64{}, uncommittedHeights: map[int64]int{}, everUncommittedHeights: map[int64]int{}}
		r.keys = append(append([]string{}, lib.Pick(rng, seqKeys)...), "~never-written", "")
		r.st = openStore(si.Dir, si.Cfg)
		if p := guard(r.run); p != "" {
			r.violate("harness-panic", "%s", p)
		}
		r.cnt["pending_abandoned"] += int64(len(r.pending))
		guard(func() { r.st.Close() })
		out := SeqOut{Idx: si.Idx, Counters: r.cnt, Viols: r.viols, Log: r.log, Dir: si.Dir, Cfg: si.Cfg, Keys: r.keys,
			Committed: map[string]mapKV{}, Uncommit: map[string]mapKV{}, UncommitHeights: r.everUncommittedHeights}
		for rs, v := range r.committed {
			out.Committed[hex.EncodeToString([]byte(rs))] = v.M
		}
		for rs, m := range r.uncommit {
			out.Uncommit[hex.EncodeToString([]byte(rs))] = m
		}
		outs = append(outs, out)
	}
	return outs, nil
}

// childVerify: a fresh process re-reads every committed root of every history from disk.
func childVerify(in []byte) (any, error) {
	clog.SetLogLevel("crit")
	var outs []SeqOut
	if err := json.Unmarshal(in, &outs); err != nil {
		return nil, err
	}
	var res []SeqOut
	for i := range outs {
		o := &outs[i]
		mavldb.VerifBResetGlobals()
		r := &seqRunner{in: &SeqIn{Idx: o.Idx, Dir: o.Dir, Cfg: o.Cfg, AllKey: true}, rng: lib.NewRng(1), committed: map[string]*version{}, uncommit: map[string]mapKV{},
			touched: map[string]map[string]bool{}, cnt: map[string]int64{}, keys: o.Keys, uncommittedHeights: map[int64]int{}, everUncommittedHeights: o.UncommitHeights}
		if r.everUncommittedHeights == nil {
			r.everUncommittedHeights = map[int64]int{}
		}
		r.step = -1
		r.st = openStore(o.Dir, o.Cfg)
		var roots []string
		for hr := range o.Committed {
			roots = append(roots, hr)
		}
		sort.Strings(roots)
		for _, hr := range roots {
			b, _ := hex.DecodeString(hr)
			v := &version{Root: b, M: o.Committed[hr]}
			r.readRoot(v, o.Keys, "fresh process after restart")
			r.listRoot(v, "fresh process after restart")
			r.cnt["roots_reread_in_fresh_process"]++
		}
		for hr, m := range o.Uncommit {
			b, _ := hex.DecodeString(hr)
			r.uncommit[string(b)] = m
		}
		r.probeUncommitted("fresh process")
		guard(func() { r.st.Close() })
		os.RemoveAll(o.Dir)
		res = append(res, SeqOut{Idx: o.Idx, Counters: r.cnt, Viols: r.viols})
	}
	return res, nil
}

// ---------------------------------------------------------------------------------------------
// concurrent phase

type ConcIn struct {
	Idx     int    `json:"idx"`
	Seed    uint64 `json:"seed"`
	Cfg     Cfg    `json:"cfg"`
	Writers int    `json:"writers"`
	Ops     int    `json:"ops"` // per writer
	Parents int    `json:"parents"`
	DelayUs int    `json:"delay_us"`
	Dir     string `json:"dir"`
}

type ConcOut struct {
	Idx      int              `json:"idx"`
	Counters map[string]int64 `json:"counters"`
	Viols    []Viol           `json:"viols,omitempty"`
	FP       string           `json:"fp"`
	Samples  []string         `json:"samples,omitempty"`
}

type sharedModel struct {
	mu    sync.Mutex
	roots map[string]*version
	order []string
}

func (s *sharedModel) publish(v *version) {
	s.mu.Lock()
	if _, ok := s.roots[string(v.Root)]; !ok {
		s.roots[string(v.Root)] = v
		s.order = append(s.order, string(v.Root))
	}
	s.mu.Unlock()
}

func (s *sharedModel) pick(rng *lib.Rng, recent int) *version {
	s.mu.Lock()
	defer s.mu.Unlock()
	lo := 0
	if recent > 0 && len(s.order) > recent && rng.Chance(70) {
		lo = len(s.order) - recent
	}
	return s.roots[s.order[rng.Range(lo, len(s.order)-1)]]
}

func childConc(in []byte) (any, error) {
	clog.SetLogLevel("crit")
	var ci ConcIn
	if err := json.Unmarshal(in, &ci); err != nil {
		return nil, err
	}
	out := ConcOut{Idx: ci.Idx, Counters: map[string]int64{}}
	var cmu sync.Mutex
	count := func(k string, n int64) { cmu.Lock(); out.Counters[k] += n; cmu.Unlock() }
	violate := func(shape, format string, a ...any) {
		cmu.Lock()
		if len(out.Viols) < 5 {
			out.Viols = append(out.Viols, Viol{Shape: shape, Msg: fmt.Sprintf(format, a...)})
		}
		cmu.Unlock()
	}
	mavldb.VerifBResetGlobals()
	os.RemoveAll(ci.Dir)
	// delay points: pseudo-random sleeps drawn from the case seed and a global event counter
	var evc uint64
	var pointHits [2]int64
	mavl.VerifBSetDelay(func(point string) {
		n := atomic.AddUint64(&evc, 1)
		if point == "memset.hash-store" {
			atomic.AddInt64(&pointHits[0], 1)
		} else {
			atomic.AddInt64(&pointHits[1], 1)
		}
		if ci.DelayUs > 0 {
			d := lib.NewRng(ci.Seed ^ n*0x9e3779b97f4a7c15).Intn(ci.DelayUs)
			if d > ci.DelayUs/3 {
				time.Sleep(time.Duration(d) * time.Microsecond)
			}
		}
	})
	st := openStore(ci.Dir, ci.Cfg)
	q := queue.New("channel")
	st.SetQueueClient(q.Client())
	api0, _ := client.New(q.Client(), nil)

	model := &sharedModel{roots: map[string]*version{}}
	keys := []string{"a", "b", "c", "d", "e", "f", "g", "h", "i", "j", "k", "l", "m", "n", "o", "p"}
	rng0 := lib.NewRng(ci.Seed)
	// genesis + a few committed parents (sequential)
	gm := map[string]string{}
	var gkv []*types.KeyValue
	for _, k := range keys[:10] {
		gm[k] = "g." + k
		gkv = append(gkv, &types.KeyValue{Key: []byte(k), Value: []byte(gm[k])})
	}
	rep, err := api0.StoreSet(&types.StoreSetWithSync{Storeset: &types.StoreSet{KV: gkv, Height: 1}, Sync: false})
	if err != nil {
		return nil, fmt.Errorf("genesis: %v", err)
	}
	model.publish(&version{Root: rep.Hash, M: gm, Height: 1})
	for p := 1; p < ci.Parents; p++ {
		par := model.pick(rng0, 0)
		m := map[string]string{}
		for k, v := range par.M {
			m[k] = v
		}
		k := lib.Pick(rng0, keys)
		m[k] = fmt.Sprintf("p%d", p)
		rep, err := api0.StoreSet(&types.StoreSetWithSync{Storeset: &types.StoreSet{StateHash: par.Root, KV: []*types.KeyValue{{Key: []byte(k), Value: []byte(m[k])}}, Height: par.Height + 1}})
		if err != nil {
			return nil, fmt.Errorf("parent: %v", err)
		}
		model.publish(&version{Root: rep.Hash, M: m, Height: par.Height + 1})
	}

	var stamp int64
	type ev struct {
		t  int64
		w  int
		op byte
	}
	var evmu sync.Mutex
	var evs []ev
	record := func(w int, op byte) {
		t := atomic.AddInt64(&stamp, 1)
		evmu.Lock()
		evs = append(evs, ev{t, w, op})
		evmu.Unlock()
	}
	checkRead := func(api client.QueueProtocolAPI, v *version, rng *lib.Rng, w int) {
		if rng.Chance(30) {
			rep, err := api.StoreList(&types.StoreList{StateHash: v.Root, Count: 10000, Mode: 1})
			record(w, 'L')
			if err != nil {
				count("list_errors", 1)
				return
			}
			count("lists_compared", 1)
			if int(rep.Num) != len(v.M) || len(rep.Keys) != len(v.M) {
				violate("committed-root-content-differs", "writer %d: StoreList(root %s height %d) returned %d entries, model %d", w, hx(v.Root), v.Height, rep.Num, len(v.M))
				return
			}
			for i, k := range rep.Keys {
				if want, ok := v.M[string(k)]; !ok || want != string(rep.Values[i]) {
					violate("committed-root-content-differs", "writer %d: StoreList(root %s) has %q=%q, model %q (present=%v)", w, hx(v.Root), k, rep.Values[i], want, ok)
					return
				}
			}
			return
		}
		bk := make([][]byte, 0, len(keys)+1)
		for _, k := range keys {
			bk = append(bk, []byte(k))
		}
		bk = append(bk, []byte("~never"))
		rep, err := api.StoreGet(&types.StoreGet{StateHash: v.Root, Keys: bk})
		record(w, 'G')
		if err != nil {
			count("get_errors", 1)
			return
		}
		for i, k := range bk {
			count("reads_compared", 1)
			want, has := v.M[string(k)]
			got := rep.Values[i]
			if (has && string(got) != want) || (!has && got != nil) {
				violate("committed-root-read-differs", "writer %d: Get(root %s height %d, key %q) = %q, model %q (present=%v) while %d writers were active", w, hx(v.Root), v.Height, k, got, want, has, ci.Writers)
			}
		}
	}

	var wg sync.WaitGroup
	for w := 0; w < ci.Writers; w++ {
		wg.Add(1)
		go func(w int) {
			defer wg.Done()
			rng := lib.NewRng(ci.Seed + uint64(w)*7919 + 1)
			api, _ := client.New(q.Client(), nil)
			ctr := 0
			for i := 0; i < ci.Ops; i++ {
				par := model.pick(rng, ci.Parents+2)
				if rng.Chance(25) {
					checkRead(api, model.pick(rng, 0), rng, w)
					continue
				}
				m := map[string]string{}
				for k, v := range par.M {
					m[k] = v
				}
				var kvs []*types.KeyValue
				n := rng.Range(1, 4)
				for j := 0; j < n; j++ {
					k := lib.Pick(rng, keys)
					ctr++
					v := fmt.Sprintf("w%d.%d", w, ctr) // unique per (writer,counter)
					m[k] = v
					kvs = append(kvs, &types.KeyValue{Key: []byte(k), Value: []byte(v)})
				}
				h := par.Height + 1 // competing forks at one height
				rep, err := api.StoreMemSet(&types.StoreSetWithSync{Storeset: &types.StoreSet{StateHash: par.Root, KV: kvs, Height: h}})
				record(w, 'M')
				if err != nil {
					violate("memset-on-committed-parent-failed", "writer %d: MemSet on committed root %s failed: %v", w, hx(par.Root), err)
					return
				}
				count("memsets", 1)
				// reads of committed roots while the update is pending
				checkRead(api, par, rng, w)
				switch x := rng.Intn(100); {
				case x < 55:
					rc, err := api.StoreCommit(&types.ReqHash{Hash: rep.Hash})
					record(w, 'C')
					if err != nil || !bytes.Equal(rc.Hash, rep.Hash) {
						violate("commit-of-pending-update-failed", "writer %d: Commit(%s) of its own pending update failed: %v", w, hx(rep.Hash), err)
						return
					}
					count("commits", 1)
					v := &version{Root: rep.Hash, M: m, Height: h}
					model.publish(v)
					checkRead(api, v, rng, w)
				case x < 90:
					_, err := api.StoreRollback(&types.ReqHash{Hash: rep.Hash})
					record(w, 'R')
					if err != nil {
						violate("rollback-of-pending-update-failed", "writer %d: Rollback(%s) of its own pending update failed: %v", w, hx(rep.Hash), err)
						return
					}
					count("rollbacks", 1)
				default:
					count("abandoned", 1)
				}
				checkRead(api, model.pick(rng, 0), rng, w)
			}
		}(w)
	}
	done := make(chan struct{})
	go func() { wg.Wait(); close(done) }()
	select {
	case <-done:
	case <-time.After(4 * time.Minute):
		return nil, fmt.Errorf("watchdog: writers did not finish")
	}
	// quiescent: every committed root in-process, then restart
	final := func(why string, get func(*types.StoreGet) [][]byte) {
		model.mu.Lock()
		defer model.mu.Unlock()
		for _, rs := range model.order {
			v := model.roots[rs]
			bk := make([][]byte, 0, len(keys))
			for _, k := range keys {
				bk = append(bk, []byte(k))
			}
			var vals [][]byte
			if p := guard(func() { vals = get(&types.StoreGet{StateHash: v.Root, Keys: bk}) }); p != "" {
				violate("committed-root-read-panics", "%s: Get at committed root %s panicked: %s", why, hx(v.Root), p)
				continue
			}
			for i, k := range keys {
				count("reads_compared", 1)
				want, has := v.M[k]
				if (has && string(vals[i]) != want) || (!has && vals[i] != nil) {
					violate("committed-root-read-differs", "%s: Get(root %s, key %q) = %q, model %q", why, hx(v.Root), k, vals[i], want)
				}
			}
		}
	}
	final("quiescent after the concurrent phase", st.Get)
	st.Close()
	q.Close()
	mavldb.VerifBResetGlobals()
	mavl.VerifBSetDelay(nil)
	st2 := openStore(ci.Dir, ci.Cfg)
	final("after restart", st2.Get)
	st2.Close()
	os.RemoveAll(ci.Dir)
	out.Counters["committed_roots"] = int64(len(model.order))
	out.Counters["delay_point_memset_hits"] = pointHits[0]
	out.Counters["delay_point_commit_hits"] = pointHits[1]
	// interleaving fingerprint: order of client-boundary completions (writer, op)
	sort.Slice(evs, func(a, b int) bool { return evs[a].t < evs[b].t })
	var sb strings.Builder
	for _, e := range evs {
		fmt.Fprintf(&sb, "%d%c", e.w, e.op)
	}
	out.FP = lib.Fingerprint(sb.String())
	out.Counters["client_events"] = int64(len(evs))
	return out, nil
}

// ---------------------------------------------------------------------------------------------
// parent

var anchored = []string{"system/store/mavl/mavl.go", "system/store/mavl/db/", "system/store/base.go"}

func isAnch(f string) bool {
	for _, a := range anchored {
		if strings.Contains(f, a) && !strings.Contains(f, "_test.go") {
			return true
		}
	}
	return false
}

func run(c *lib.Ctx) {
	c.Rule("sequential case = one generated history (Set, MemSet incl. competing forks of a pending sibling at one height, empty and content-identical updates, Commit, Rollback, " +
		"Commit/Rollback of unknown roots, reopen that abandons all pending updates) on the real mavl.Store in 5 sub-option configurations; after every step every committed root is re-read " +
		"(quick: keys of the step + keys on which any other update differs + random keys; thorough: all keys), a freshly committed root is listed completely and must equal parent+batch exactly, " +
		"and a FRESH PROCESS re-reads all committed roots completely from disk; non-trivial = the monitor compared >=1 read of a key at a committed root for which a pending / rolled back / abandoned / " +
		"sibling update held a different value. concurrent case (-race) = BaseStore on a queue, N client goroutines, unique values per (writer,counter); non-trivial = >=2 writers committed and " +
		">=1 rollback happened while reads of committed roots were compared")
	c.Assume("a rolled back or abandoned update that stays readable under its own (never committed) root is counted in evidence (uncommitted_root_readable_*), not decided: the statement speaks about reads at committed roots",
		"error replies for Commit/Rollback of unknown or already consumed roots are evidence only",
		"parents of pending updates are committed roots (the store loads the parent from the DB)")

	// ---- sequential
	phase := os.Getenv("VERIF_C04_PHASE") // debugging aid: "seq" or "conc" runs one phase only (the run is then inconclusive)
	nSeq := c.N(40, 400)
	if phase == "conc" {
		nSeq = 0
	}
	steps := 70
	if !c.Quick() {
		steps = 140
	}
	seqDir := filepath.Join(c.Tmp, "seq")
	os.MkdirAll(seqDir, 0o755)
	var ins []SeqIn
	for i := 0; i < nSeq; i++ {
		rng := c.CaseRng("seq", i)
		ins = append(ins, SeqIn{Idx: i, Seed: rng.U64(), Cfg: cfgs[i%len(cfgs)], Steps: rng.Range(steps/2, steps), Dir: filepath.Join(seqDir, fmt.Sprintf("h%d", i)), AllKey: !c.Quick()})
	}
	const batch = 5
	tSeq := time.Now()
	var mu sync.Mutex
	nb := (nSeq + batch - 1) / batch
	lib.Parallel(nb, 12, func(b int) {
		lo, hi := b*batch, (b+1)*batch
		if hi > nSeq {
			hi = nSeq
		}
		var my []SeqIn
		for _, in := range ins[lo:hi] {
			if !c.Skip(in.Idx) {
				my = append(my, in)
			}
		}
		if len(my) == 0 {
			return
		}
		res := c.Child("seq", my, lib.ChildOpts{Timeout: 6 * time.Minute})
		var outs []SeqOut
		if res.Died || json.Unmarshal(res.Out, &outs) != nil {
			if res.TimedOut {
				c.Inconclusive("sequential batch %d: watchdog fired", b)
			} else {
				c.Violation(my[0].Idx, "process-died", map[string]any{"batch": my, "stderr": res.Stderr}, "sequential child died (histories %d..%d): %s", my[0].Idx, my[len(my)-1].Idx, lib.ShortList(strings.Split(res.Stderr, "\n"), 8))
			}
			return
		}
		// fresh process re-read
		vres := c.Child("verify", outs, lib.ChildOpts{Timeout: 6 * time.Minute})
		var vouts []SeqOut
		if vres.Died || json.Unmarshal(vres.Out, &vouts) != nil {
			if vres.TimedOut {
				c.Inconclusive("verify batch %d: watchdog fired", b)
			} else {
				c.Violation(my[0].Idx, "process-died-on-restart-read", map[string]any{"batch": my, "stderr": vres.Stderr}, "fresh-process re-read died (histories %d..%d): %s", my[0].Idx, my[len(my)-1].Idx, lib.ShortList(strings.Split(vres.Stderr, "\n"), 8))
			}
		}
		mu.Lock()
		defer mu.Unlock()
		byIdx := map[int]*SeqOut{}
		for i := range vouts {
			byIdx[vouts[i].Idx] = &vouts[i]
		}
		for _, o := range outs {
			for k, v := range o.Counters {
				c.Count("seq_"+k, v)
			}
			viols := o.Viols
			if vo := byIdx[o.Idx]; vo != nil {
				for k, v := range vo.Counters {
					c.Count("restart_"+k, v)
				}
				viols = append(viols, vo.Viols...)
			}
			in := ins[o.Idx]
			nontrivial := o.Counters["reads_where_another_update_differs"] > 0 && o.Counters["rollbacks"]+o.Counters["pending_abandoned"] > 0
			c.Case(lib.Fingerprint(o.Log), nontrivial, map[string]any{"history": in.Idx, "cfg": in.Cfg.Name, "steps": len(o.Log), "log_head": head(o.Log, 12), "counters": o.Counters})
			c.Seen("seq_configs", in.Cfg.Name)
			if in.Cfg.MemTree {
				c.Count("seq_histories_memtree_stratum", 1)
			} else {
				c.Count("seq_histories_clean_stratum", 1)
			}
			for _, v := range viols {
				if !in.Cfg.MemTree && v.Shape == shapeMemTreePending {
					v.Shape = "clean-stratum:" + v.Shape
				}
				c.Violation(in.Idx, v.Shape, map[string]any{"case": in, "step": v.Step, "log": o.Log}, "sequential history %d (%s) step %d: %s", in.Idx, in.Cfg.Name, v.Step, v.Msg)
			}
		}
	})
	os.RemoveAll(seqDir)
	c.Extra("wall_seq_s", time.Since(tSeq).Seconds())

	// ---- concurrent (-race)
	nConc := c.N(6, 12)
	if phase == "seq" {
		nConc = 0
	}
	repeats := 3
	concWorkers := 6
	if !c.Quick() {
		repeats = 5
		concWorkers = 6
	}
	concDir := filepath.Join(c.Tmp, "conc")
	os.MkdirAll(concDir, 0o755)
	type cj struct {
		in  ConcIn
		rep int
	}
	var cjs []cj
	for i := 0; i < nConc; i++ {
		rng := c.CaseRng("conc", i)
		base := ConcIn{Idx: 1000 + i, Cfg: cfgs[i%len(cfgs)], Writers: lib.Pick(rng, []int{8, 12, 16, 24, 32}), Parents: rng.Range(2, 3), DelayUs: lib.Pick(rng, []int{0, 300, 1500})}
		base.Ops = 208 / base.Writers
		if !c.Quick() {
			base.Ops = 640 / base.Writers
		}
		for r := 0; r < repeats; r++ {
			in := base
			in.Seed = rng.U64()
			in.Dir = filepath.Join(concDir, fmt.Sprintf("c%d-%d", i, r))
			cjs = append(cjs, cj{in, r})
		}
	}
	raceDeciding := map[string]string{}
	raceOther := map[string]int{}
	tConc := time.Now()
	lib.Parallel(len(cjs), concWorkers, func(k int) {
		j := cjs[k]
		if c.Skip(j.in.Idx) {
			return
		}
		res := c.Child("conc", j.in, lib.ChildOpts{Race: true, Timeout: 8 * time.Minute})
		reports := lib.ParseRaceLogs(res.RaceLogs)
		mu.Lock()
		defer mu.Unlock()
		c.Count("race_reports_total", int64(len(reports)))
		for _, r := range reports {
			a, b := "?", "?"
			if len(r.Frames[0]) > 0 {
				a = r.Frames[0][0]
			}
			if len(r.Frames[1]) > 0 {
				b = r.Frames[1][0]
			}
			ks := []string{a, b}
			sort.Strings(ks)
			key := ks[0] + " <-> " + ks[1]
			if isAnch(a) && isAnch(b) {
				if _, ok := raceDeciding[key]; !ok {
					raceDeciding[key] = r.Text
					c.Violation(j.in.Idx, "race:"+shortFrames(key), map[string]any{"case": j.in, "report": r.Text}, "data race with both accesses in the anchored store files (config %s, %d writers): %s", j.in.Cfg.Name, j.in.Writers, key)
				}
			} else {
				raceOther[key]++
			}
		}
		os.RemoveAll(res.Dir)
		var out ConcOut
		if res.Died || json.Unmarshal(res.Out, &out) != nil {
			if res.TimedOut || strings.Contains(res.Stderr, "watchdog") {
				c.Inconclusive("concurrent case %d: watchdog fired", j.in.Idx)
			} else {
				c.Violation(j.in.Idx, "process-died", map[string]any{"case": j.in, "stderr": res.Stderr}, "concurrent child died (config %s): %s", j.in.Cfg.Name, lib.ShortList(strings.Split(res.Stderr, "\n"), 10))
			}
			return
		}
		for k, v := range out.Counters {
			c.Count("conc_"+k, v)
		}
		c.Seen("interleaving_fingerprints", out.FP)
		c.Seen("conc_configs", j.in.Cfg.Name)
		nontrivial := out.Counters["commits"] >= 2 && out.Counters["rollbacks"] >= 1 && out.Counters["reads_compared"] > 0
		c.Case("conc:"+out.FP, nontrivial, map[string]any{"case": j.in, "counters": out.Counters, "interleaving": out.FP})
		for _, v := range out.Viols {
			c.Violation(j.in.Idx, v.Shape, map[string]any{"case": j.in}, "concurrent case %d rep %d (%s, %d writers, delay<=%dus): %s", j.in.Idx, j.rep, j.in.Cfg.Name, j.in.Writers, j.in.DelayUs, v.Msg)
		}
	})
	os.RemoveAll(concDir)
	c.Extra("wall_conc_s", time.Since(tConc).Seconds())
	c.Extra("race_reports", map[string]any{"deciding": len(raceDeciding), "non_deciding_distinct": len(raceOther), "non_deciding": raceOther, "anchored_files": anchored})
	if c.Replay == "" {
		c.RequireEvents("seq_reads_compared", 5000)
		c.RequireEvents("seq_reads_where_another_update_differs", 200)
		c.RequireEvents("restart_roots_reread_in_fresh_process", 100)
		c.RequireEvents("conc_reads_compared", 5000)
		c.RequireEvents("conc_delay_point_memset_hits", 100)
		c.RequireEvents("conc_delay_point_commit_hits", 50)
	}
}

func head(xs []string, n int) []string {
	if len(xs) > n {
		return xs[:n]
	}
	return xs
}

func shortFrames(key string) string {
	parts := strings.Split(key, " <-> ")
	for i, p := range parts {
		if j := strings.Index(p, "@"); j >= 0 {
			fn, file := p[:j], p[j+1:]
			if k := strings.LastIndex(fn, "/"); k >= 0 {
				fn = fn[k+1:]
			}
			parts[i] = fn + "@" + filepath.Base(file)
		}
	}
	return strings.Join(parts, "<->")
}

func main() {
	lib.RegisterChild("seq", childSeq)
	lib.RegisterChild("verify", childVerify)
	lib.RegisterChild("conc", childConc)
	lib.Main("C04", "exploration", run)
}
