// C25: best chain converges to the heaviest branch for any delivery order.
package main

import (
	"verifharness/chainenv"
	"verifharness/lib"
)

func run(c *lib.Ctx) {
	c.Rule("block trees (trunk 12-14, 2-4 branches of depth 1-4 forking near the tip, also off other branches, distinct compact difficulties, shared transactions on sibling branches) are built without mining on a builder node; " +
		"each delivery order (all permutations of the post-trunk blocks when <=6 and within budget, else sampled; plus fully shuffled, duplicate-laden, children-first orders; broadcast and sync flavours) runs on a fresh node in a child process; " +
		"the final node is compared with a fresh node fed only the heaviest branch in order (query surface + raw blockchain DB dump). non-trivial = precondition holds and the run saw >=1 orphan or >=1 block removal (reorganisation)")
	c.Assume("blocks are valid by construction (executed by the builder node's real executor/store)", "finalised height is 0 (no finalizer configured) so the margin is height>=12",
		"trees outside the statement's precondition (tie or heaviest tip below the margin) are only checked for 'best chain is one branch of the tree'")
	chainenv.Engine(c, "C25", c.N(2, 10), c.N(1, 6), c.N(48, 720), c.N(32, 400))
	c.RequireEvents("reorg_block_removals", 5)
	c.RequireEvents("orphans_observed", 5)
}

func main() {
	chainenv.RegisterChildren()
	lib.Main("C25", "exploration", run)
}
