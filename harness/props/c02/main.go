// C02: the state root depends only on the prior root and the ordered writes.
//
// Differential monitor. Each generated history (ordered write batches applied to earlier versions, incl. ticket
// keys with closed-ticket values, duplicate keys inside a batch, empty batches) is executed by the REAL mavl.Store
//   - in fresh child processes, under 6 sub-option configurations x {Set, MemSet+Commit}            (clean replays)
//   - in long-lived processes (one store kept open for the whole run, one per configuration and shard) that
//     interleave unrelated pending updates, rollbacks, commits of competing forks and reads, twice per history
//     with complementary Set / MemSet+Commit choices per step                                        (cache-warm)
// and every root of every execution must equal the root the fresh plain Set process computed for that step.
// The canonical roots are also compared with an independent reference (persistent AVL + hand-written record
// encoder + sha256) that never touches the store code.
package main

import (
	"bytes"
	"encoding/hex"
	"encoding/json"
	"fmt"
	"os"
	"path/filepath"
	"sort"
	"strings"
	"sync"
	"time"

	"github.com/33cn/chain33/system/store/mavl"
	mavldb "github.com/33cn/chain33/system/store/mavl/db"
	"github.com/33cn/chain33/types"
	"verifharness/lib"
	mx "verifharness/mavlx"
)

type variant struct {
	Cfg  string `json:"cfg"`
	Mode string `json:"mode"` // "set" | "memset"
}

func (v variant) String() string { return v.Cfg + "/" + v.Mode }

type freshIn struct {
	Seed     int64       `json:"seed"`
	Tier     string      `json:"tier"`
	Idx      int         `json:"idx"`
	Variants []variant   `json:"variants"`
	Probe    bool        `json:"probe"`
	History  *mx.History `json:"history,omitempty"` // explicit history (minimisation); else generated from Idx
}

type runOut struct {
	Idx     int              `json:"idx"`
	Name    string           `json:"name"`
	Roots   []string         `json:"roots"` // hex root after each batch ("" = nil)
	Modes   []string         `json:"modes,omitempty"`
	Err     string           `json:"err,omitempty"`
	ErrStep int              `json:"err_step,omitempty"`
	Noise   map[string]int64 `json:"noise,omitempty"`
}

type probeOut struct {
	Cfg        string `json:"cfg"`
	SetRoot    string `json:"set_root"`
	SetErr     string `json:"set_err,omitempty"`
	MemSetRoot string `json:"memset_root"`
	CommitRoot string `json:"commit_root"`
	MemErr     string `json:"mem_err,omitempty"`
}

// forkProbeOut: two roots committed at the same height, both extended, a third write at that height (re-execution
// after a rollback), then an empty write list applied to each of the two roots through Set and MemSet+Commit.
type forkProbeOut struct {
	Cfg     string   `json:"cfg"`
	Keys    int      `json:"keys_per_root"`
	RootA   string   `json:"root_a"`
	RootB   string   `json:"root_b"`
	SetA    string   `json:"empty_set_on_a"`
	SetB    string   `json:"empty_set_on_b"`
	MemA    string   `json:"empty_memset_commit_on_a"`
	MemB    string   `json:"empty_memset_commit_on_b"`
	Err     string   `json:"err,omitempty"`
	Program []string `json:"program"`
}

type childOut struct {
	Runs     []runOut         `json:"runs"`
	Probes   []probeOut       `json:"probes,omitempty"`
	Forks    []forkProbeOut   `json:"fork_probes,omitempty"`
	Counters map[string]int64 `json:"counters"`
}

func paramsFor(tier string, idx int) mx.GenParams {
	p := mx.GenParams{MinBatches: 8, MaxBatches: 20, MaxBatch: 40, Branch: 20, Tickets: true, EmptyBatches: true}
	if tier == "thorough" {
		p.MaxBatches = 40
		p.MaxBatch = 100
	}
	switch idx % 4 {
	case 0:
		p.Small = true
		p.MinBatches, p.MaxBatches = 15, 30
		if tier == "thorough" {
			p.MaxBatches = 60
		}
	case 3:
		p.Branch = 5
	}
	return p
}

func genHistory(seed int64, tier string, idx int) *mx.History {
	c := &lib.Ctx{Prop: "C02", Seed: seed}
	r := c.CaseRng("hist", idx)
	h := mx.GenHistory(r, paramsFor(tier, idx))
	if idx%4 == 1 { // force the ticket alphabet for a quarter of the histories
		c2 := &lib.Ctx{Prop: "C02", Seed: seed}
		for try := 0; try < 64 && h.Alphabet != "ticket" && h.Alphabet != "mixed"; try++ {
			h = mx.GenHistory(c2.CaseRng("hist-ticket", idx*64+try), paramsFor(tier, idx))
		}
	}
	return h
}

func hx(b []byte) string { return hex.EncodeToString(b) }

// cfgOf extracts the configuration name from an execution name like "warm:prefix+prune/pattern1".
func cfgOf(name string) string {
	if i := strings.IndexByte(name, ':'); i >= 0 {
		name = name[i+1:]
	}
	if i := strings.IndexByte(name, '/'); i >= 0 {
		name = name[:i]
	}
	return name
}

func depth(h *mx.History, vi int) int64 {
	d := int64(0)
	for vi > 0 {
		vi = h.Batches[vi-1].Parent
		d++
	}
	return d
}

// applyStep applies batch i of h on store in the given mode; noise (may be nil) runs at the documented points.
func applyStep(store *mavl.Store, h *mx.History, i int, roots [][]byte, mode string, hbase int64, noise func(point string)) ([]byte, error) {
	b := h.Batches[i]
	set := &types.StoreSet{StateHash: roots[b.Parent], KV: mx.ToKV(b.KV), Height: hbase + depth(h, i+1)}
	if mode == "set" {
		if noise != nil {
			noise("before-set")
		}
		return store.Set(set, b.Sync)
	}
	root, err := store.MemSet(set, b.Sync)
	if err != nil {
		return nil, fmt.Errorf("MemSet: %v", err)
	}
	if noise != nil {
		noise("pending")
	}
	r2, err := store.Commit(&types.ReqHash{Hash: root})
	if err != nil {
		return nil, fmt.Errorf("Commit(%x): %v", root, err)
	}
	if !bytes.Equal(r2, root) {
		return nil, fmt.Errorf("Commit returned %x for the pending root %x", r2, root)
	}
	return root, nil
}

func execClean(h *mx.History, idx int, v variant, dir string) (out runOut) {
	out = runOut{Idx: idx, Name: "fresh:" + v.String()}
	defer func() {
		if r := recover(); r != nil {
			out.Err = fmt.Sprintf("panic: %v", r)
			out.ErrStep = len(out.Roots)
		}
	}()
	os.RemoveAll(dir)
	store := mx.Open(dir, mx.CfgByName(v.Cfg))
	defer func() { store.Close(); os.RemoveAll(dir) }()
	roots := [][]byte{mx.EmptyRoot}
	for i := range h.Batches {
		root, err := applyStep(store, h, i, roots, v.Mode, 0, nil)
		if err != nil {
			out.Err, out.ErrStep = err.Error(), i
			return
		}
		roots = append(roots, root)
		out.Roots = append(out.Roots, hx(root))
	}
	return
}

func freshChild(in []byte) (any, error) {
	mx.Quiet()
	var fi freshIn
	if err := json.Unmarshal(in, &fi); err != nil {
		return nil, err
	}
	h := fi.History
	if h == nil {
		h = genHistory(fi.Seed, fi.Tier, fi.Idx)
	}
	out := &childOut{Counters: map[string]int64{}}
	tmp := os.Getenv("VERIF_TMP")
	for k, v := range fi.Variants {
		if k > 0 {
			mavldb.VerifClearGlobals() // the first variant of a child runs on genuinely fresh process state
		}
		out.Runs = append(out.Runs, execClean(h, fi.Idx, v, filepath.Join(tmp, fmt.Sprintf("f%d", k))))
	}
	if fi.Probe {
		for k, v := range fi.Variants {
			if v.Mode != "set" {
				continue
			}
			mavldb.VerifClearGlobals()
			dir := filepath.Join(tmp, fmt.Sprintf("p%d", k))
			store := mx.Open(dir, mx.CfgByName(v.Cfg))
			po := probeOut{Cfg: v.Cfg}
			r, err := store.Set(&types.StoreSet{StateHash: mx.EmptyRoot, Height: 1}, false)
			po.SetRoot = hx(r)
			if err != nil {
				po.SetErr = err.Error()
			}
			r, err = store.MemSet(&types.StoreSet{StateHash: mx.EmptyRoot, Height: 1}, false)
			po.MemSetRoot = hx(r)
			if err != nil {
				po.MemErr = err.Error()
			} else {
				r2, err := store.Commit(&types.ReqHash{Hash: r})
				po.CommitRoot = hx(r2)
				if err != nil {
					po.MemErr = err.Error()
				}
			}
			store.Close()
			os.RemoveAll(dir)
			out.Probes = append(out.Probes, po)
			for _, n := range []int{5, 8} {
				mavldb.VerifClearGlobals()
				out.Forks = append(out.Forks, forkProbe(mx.CfgByName(v.Cfg), dir, n))
			}
		}
	}
	return out, nil
}

func seqKeys(p string, n int) []mx.KV {
	var kvs []mx.KV
	for i := 0; i < n; i++ {
		kvs = append(kvs, mx.KV{K: []byte(fmt.Sprintf("%s%03d", p, i)), V: []byte("v")})
	}
	return kvs
}

func forkProbe(cfg mx.Cfg, dir string, n int) (fo forkProbeOut) {
	fo = forkProbeOut{Cfg: cfg.Name, Keys: n, Program: []string{
		fmt.Sprintf("A=Set(empty,{a000..a%03d}=v,h=1)", n-1), fmt.Sprintf("B=Set(empty,{b000..b%03d}=v,h=1)", n-1),
		"Set(A,{x000=v},h=2)", "Set(B,{y000=v},h=2)", "Set(empty,{c000=v},h=1)", "Set(A,{},h=2) ?= A", "Set(B,{},h=2) ?= B",
		"Commit(MemSet(A,{},h=2)) ?= A", "Commit(MemSet(B,{},h=2)) ?= B"}}
	defer func() {
		if r := recover(); r != nil {
			fo.Err = fmt.Sprintf("panic: %v", r)
		}
	}()
	os.RemoveAll(dir)
	store := mx.Open(dir, cfg)
	defer func() { store.Close(); os.RemoveAll(dir) }()
	set := func(parent []byte, kv []mx.KV, h int64) []byte {
		r, err := store.Set(&types.StoreSet{StateHash: parent, KV: mx.ToKV(kv), Height: h}, false)
		if err != nil {
			panic(err)
		}
		return r
	}
	mem := func(parent []byte, h int64) []byte {
		r, err := store.MemSet(&types.StoreSet{StateHash: parent, Height: h}, false)
		if err != nil {
			panic(err)
		}
		r2, err := store.Commit(&types.ReqHash{Hash: r})
		if err != nil {
			panic(err)
		}
		return r2
	}
	rA := set(mx.EmptyRoot, seqKeys("a", n), 1)
	rB := set(mx.EmptyRoot, seqKeys("b", n), 1)
	set(rA, seqKeys("x", 1), 2)
	set(rB, seqKeys("y", 1), 2)
	set(mx.EmptyRoot, seqKeys("c", 1), 1)
	fo.RootA, fo.RootB = hx(rA), hx(rB)
	fo.SetA, fo.SetB = hx(set(rA, nil, 2)), hx(set(rB, nil, 2))
	fo.MemA, fo.MemB = hx(mem(rA, 2)), hx(mem(rB, 2))
	return fo
}

// ---------------------------------------------------------------------------------------------
// long-lived, cache-warm process

type warmIn struct {
	Seed    int64  `json:"seed"`
	Tier    string `json:"tier"`
	Cfg     string `json:"cfg"`
	Indices []int  `json:"indices"`
}

type pendingFork struct {
	root []byte
}

func warmChild(in []byte) (any, error) {
	mx.Quiet()
	var wi warmIn
	if err := json.Unmarshal(in, &wi); err != nil {
		return nil, err
	}
	out := &childOut{Counters: map[string]int64{}}
	cnt := out.Counters
	dir := filepath.Join(os.Getenv("VERIF_TMP"), "warm")
	cfg := mx.CfgByName(wi.Cfg)
	store := mx.Open(dir, cfg) // ONE store for the whole life of this process
	defer func() { store.Close(); os.RemoveAll(dir) }()
	ctx := &lib.Ctx{Prop: "C02", Seed: wi.Seed}
	noiseSeq := 0
	hbase := int64(0)
	dbg := os.Getenv("VERIF_DEBUG") != ""
	var committedPool [][]byte // roots committed earlier in this process (any history)
	for _, idx := range wi.Indices {
		h := genHistory(wi.Seed, wi.Tier, idx)
		for pat := 0; pat < 2; pat++ {
			ro := runOut{Idx: idx, Name: fmt.Sprintf("warm:%s/pattern%d", wi.Cfg, pat), Noise: map[string]int64{}}
			rng := ctx.CaseRng("warm-"+wi.Cfg, idx*2+pat)
			modeRng := ctx.CaseRng("modes", idx) // same choices for both patterns, pattern 1 inverts them
			roots := [][]byte{mx.EmptyRoot}
			var forks []pendingFork
			// like a chain, the process moves on to greater heights: every run of a history starts above the previous one
			// (branches inside a history still re-use heights, which is what a rollback + re-execution does)
			func() {
				defer func() {
					if r := recover(); r != nil {
						ro.Err = fmt.Sprintf("panic: %v", r)
						ro.ErrStep = len(ro.Roots)
					}
				}()
				for i := range h.Batches {
					mode := "set"
					if modeRng.Bool() != (pat == 1) {
						mode = "memset"
					}
					step := i
					noise := func(point string) {
						n := rng.Intn(4)
						for k := 0; k < n; k++ {
							noiseSeq++
							switch x := rng.Intn(100); {
							case x < 35: // competing pending update on the same or another committed parent
								parent := roots[h.Batches[step].Parent]
								if rng.Chance(40) {
									parent = lib.Pick(rng, roots)
								}
								kvs := []mx.KV{{K: []byte(fmt.Sprintf("noise-%s-%d", wi.Cfg, noiseSeq)), V: rng.Bytes(rng.Range(1, 20))}}
								if len(h.Batches[step].KV) > 0 && rng.Chance(70) {
									src := h.Batches[step].KV
									kvs = append(kvs, src[:rng.Range(1, len(src))]...) // overlaps the real writes
								}
								r, err := store.MemSet(&types.StoreSet{StateHash: parent, KV: mx.ToKV(kvs), Height: hbase + depth(h, step+1)}, false)
								if dbg {
									fmt.Fprintf(os.Stderr, "DBG   noise memset parent=%x nkv=%d -> %x %v\n", parent[:4], len(kvs), r, err)
								}
								if err == nil {
									forks = append(forks, pendingFork{root: r})
									ro.Noise["pending_updates"]++
								} else {
									ro.Noise["pending_update_errors"]++
								}
							case x < 55 && len(forks) > 0: // roll one back
								k := rng.Intn(len(forks))
								if dbg {
									fmt.Fprintf(os.Stderr, "DBG   noise rollback %x\n", forks[k].root[:4])
								}
								if _, err := store.Rollback(&types.ReqHash{Hash: forks[k].root}); err == nil {
									ro.Noise["rollbacks"]++
								}
								forks = append(forks[:k], forks[k+1:]...)
							case x < 65 && len(forks) > 0: // commit a competing fork
								k := rng.Intn(len(forks))
								if dbg {
									fmt.Fprintf(os.Stderr, "DBG   noise commit %x\n", forks[k].root[:4])
								}
								if _, err := store.Commit(&types.ReqHash{Hash: forks[k].root}); err == nil {
									ro.Noise["fork_commits"]++
									committedPool = append(committedPool, forks[k].root)
								}
								forks = append(forks[:k], forks[k+1:]...)
							case x < 75: // unrelated direct Set on an old root
								parent := lib.Pick(rng, roots)
								kvs := []mx.KV{{K: []byte(fmt.Sprintf("noise-set-%s-%d", wi.Cfg, noiseSeq)), V: rng.Bytes(8)}}
								if dbg {
									fmt.Fprintf(os.Stderr, "DBG   noise set on %x\n", parent[:4])
								}
								if r, err := store.Set(&types.StoreSet{StateHash: parent, KV: mx.ToKV(kvs), Height: hbase + depth(h, step+1)}, false); err == nil {
									ro.Noise["unrelated_sets"]++
									committedPool = append(committedPool, r)
								}
							case x < 92: // reads at committed / pending roots (warm the node caches)
								root := lib.Pick(rng, roots)
								if len(forks) > 0 && rng.Chance(30) {
									root = lib.Pick(rng, forks).root
								} else if len(committedPool) > 0 && rng.Chance(20) {
									root = lib.Pick(rng, committedPool)
								}
								var keys [][]byte
								for q := 0; q < 8; q++ {
									b := h.Batches[rng.Intn(step+1)]
									if len(b.KV) > 0 {
										keys = append(keys, b.KV[rng.Intn(len(b.KV))].K)
									}
								}
								store.Get(&types.StoreGet{StateHash: root, Keys: keys})
								ro.Noise["reads"] += int64(len(keys))
							default:
								root := lib.Pick(rng, roots)
								n := 0
								store.IterateRangeByStateHash(root, nil, nil, rng.Bool(), func(k, v []byte) bool { n++; return n > 50 })
								ro.Noise["range_scans"]++
							}
						}
					}
					if dbg {
						fmt.Fprintf(os.Stderr, "DBG %s idx=%d pat=%d step=%d mode=%s parent=v%d(%x) nkv=%d\n", wi.Cfg, idx, pat, i, mode, h.Batches[i].Parent, roots[h.Batches[i].Parent][:4], len(h.Batches[i].KV))
					}
					root, err := applyStep(store, h, i, roots, mode, hbase, noise)
					if dbg {
						fmt.Fprintf(os.Stderr, "DBG   -> %x err=%v\n", root, err)
					}
					if err != nil {
						ro.Err, ro.ErrStep = err.Error(), i
						return
					}
					if mode == "set" {
						ro.Noise["steps_set"]++
					} else {
						ro.Noise["steps_memset_commit"]++
					}
					roots = append(roots, root)
					ro.Roots = append(ro.Roots, hx(root))
					ro.Modes = append(ro.Modes, mode)
				}
			}()
			// abandon or roll back what is still pending
			for _, f := range forks {
				if rng.Bool() {
					store.Rollback(&types.ReqHash{Hash: f.root})
					ro.Noise["rollbacks"]++
				} else {
					ro.Noise["abandoned_pending"]++
				}
			}
			for _, r := range roots[1:] {
				if len(committedPool) < 4096 {
					committedPool = append(committedPool, r)
				}
			}
			mem, tk := mavldb.VerifGlobalMemLen()
			if int64(mem) > cnt["memtree_len_max"] {
				cnt["memtree_len_max"] = int64(mem)
			}
			if int64(tk) > cnt["tkclosecache_len_max"] {
				cnt["tkclosecache_len_max"] = int64(tk)
			}
			out.Runs = append(out.Runs, ro)
			hbase += int64(len(h.Batches)) + 1
		}
	}
	return out, nil
}

// ---------------------------------------------------------------------------------------------

var allVariants = func() []variant {
	var vs []variant
	for _, c := range mx.ConfigsC02 {
		vs = append(vs, variant{c.Name, "set"}, variant{c.Name, "memset"})
	}
	return vs
}()

func refRoots(h *mx.History) []string {
	trees := []*mx.RNode{nil}
	var out []string
	for _, b := range h.Batches {
		t := trees[b.Parent]
		for _, kv := range b.KV {
			t = mx.RefSet(t, kv.K, kv.V)
		}
		trees = append(trees, t)
		out = append(out, hx(mx.RefRoot(t)))
	}
	return out
}

// ancestors returns the history restricted to the ancestor chain of version vi (what the root may depend on).
func ancestors(h *mx.History, vi int) *mx.History {
	var chain []int
	for v := vi; v > 0; v = h.Batches[v-1].Parent {
		chain = append(chain, v-1)
	}
	sort.Ints(chain)
	n := &mx.History{Alphabet: h.Alphabet}
	for k, bi := range chain {
		b := h.Batches[bi]
		b.Parent = k // linear chain
		n.Batches = append(n.Batches, b)
	}
	return n
}

func run(c *lib.Ctx) {
	c.Rule("case = generated history (8-60 batches of 0-100 ordered writes, 20% extending a non-latest version; alphabets incl. ticket keys with closed-ticket values; duplicate keys in a batch; " +
		"empty batches on non-empty parents). Every step's root is collected from fresh child processes (6 configurations x {Set, MemSet+Commit}; the variant that runs first in a child rotates with the " +
		"history index, the others run after the globals were cleared through a hook; thorough: one fresh child per history x configuration) and from long-lived processes (one open store per configuration/shard, " +
		"both complementary Set/MemSet choices per step, interleaved with competing pending updates, rollbacks, fork commits, unrelated Sets, reads at committed and pending roots) and must equal the " +
		"fresh plain/Set root and the independent reference root. non-trivial = all variants delivered roots for the history AND the warm runs measured >=1 rollback, >=1 committed competing update and >=1 pending update")
	c.Assume("sha256 collisions do not occur", "pruning is enabled without ever starting a pruning run (pruneHeight 0); pruning safety is C05",
		"the reference AVL follows the IAVL split-key convention (inner key = smallest key of the right subtree); its record encoder is hand-written protobuf")
	n := c.N(32, 300)
	var idxs []int
	for i := 0; i < n; i++ {
		if !c.Skip(i) {
			idxs = append(idxs, i)
		}
	}
	var mu sync.Mutex
	runs := map[int][]runOut{}
	var probes []probeOut
	var forkProbes []forkProbeOut
	collect := func(what string, res lib.ChildResult, idxsOf []int) bool {
		if res.TimedOut {
			c.Inconclusive("%s child for histories %v hit the watchdog", what, idxsOf)
			return false
		}
		var out childOut
		if res.Died || json.Unmarshal(res.Out, &out) != nil {
			c.Violation(idxsOf[0], "child-died:"+what, map[string]any{"histories": idxsOf, "stderr": res.Stderr}, "%s child for histories %v died (exit %d): %s", what, idxsOf, res.ExitCode, res.Stderr)
			return false
		}
		mu.Lock()
		for _, r := range out.Runs {
			runs[r.Idx] = append(runs[r.Idx], r)
			for k, v := range r.Noise {
				c.Count("warm_"+k, v)
			}
		}
		probes = append(probes, out.Probes...)
		forkProbes = append(forkProbes, out.Forks...)
		mu.Unlock()
		for k, v := range out.Counters {
			if len(k) > 4 && k[len(k)-4:] == "_max" {
				mu.Lock()
				if v > c.Counter(k) {
					c.Count(k, v-c.Counter(k))
				}
				mu.Unlock()
			} else {
				c.Count(k, v)
			}
		}
		return true
	}
	// job list: fresh children + warm children, run on 16 workers
	type job struct {
		kind string
		fi   freshIn
		wi   warmIn
	}
	var jobs []job
	// warm processes first (they are the long ones)
	shards := 2
	if !c.Quick() {
		shards = 3
	}
	if len(idxs) < shards {
		shards = 1
	}
	for s := 0; s < shards; s++ {
		var part []int
		for k, i := range idxs {
			if k%shards == s {
				part = append(part, i)
			}
		}
		for _, cfg := range mx.ConfigsC02 {
			jobs = append(jobs, job{kind: "warm", wi: warmIn{Seed: c.Seed, Tier: c.Tier, Cfg: cfg.Name, Indices: part}})
		}
	}
	for _, i := range idxs {
		rot := func(vs []variant, k int) []variant {
			k %= len(vs)
			return append(append([]variant{}, vs[k:]...), vs[:k]...)
		}
		if c.Quick() {
			jobs = append(jobs, job{kind: "fresh", fi: freshIn{Seed: c.Seed, Tier: c.Tier, Idx: i, Variants: rot(allVariants, i), Probe: i%12 == 0}})
		} else {
			for k, cfg := range mx.ConfigsC02 {
				vs := []variant{{cfg.Name, "set"}, {cfg.Name, "memset"}}
				jobs = append(jobs, job{kind: "fresh", fi: freshIn{Seed: c.Seed, Tier: c.Tier, Idx: i, Variants: rot(vs, i), Probe: i%50 == 0 && k == i/50%6}})
			}
		}
	}
	lib.Parallel(len(jobs), 16, func(k int) {
		j := jobs[k]
		if j.kind == "warm" {
			res := c.Child("warm", j.wi, lib.ChildOpts{Timeout: 40 * time.Minute, Env: []string{"GOGC=200"}})
			if os.Getenv("VERIF_TIMING") != "" {
				fmt.Fprintf(os.Stderr, "TIMING warm cfg=%s n=%d ms=%d\n", j.wi.Cfg, len(j.wi.Indices), res.WallMs)
			}
			if os.Getenv("VERIF_DEBUG") != "" && j.wi.Cfg == "prefix+prune" {
				fmt.Fprintln(os.Stderr, res.Stderr)
			}
			if collect("warm:"+j.wi.Cfg, res, j.wi.Indices) {
				c.Count("warm_processes", 1)
			}
		} else {
			res := c.Child("fresh", j.fi, lib.ChildOpts{Timeout: 20 * time.Minute, Env: []string{"GOGC=200"}})
			if os.Getenv("VERIF_TIMING") != "" {
				fmt.Fprintf(os.Stderr, "TIMING fresh idx=%d ms=%d\n", j.fi.Idx, res.WallMs)
			}
			if collect("fresh", res, []int{j.fi.Idx}) {
				c.Count("fresh_processes", 1)
				c.Seen("first_variant_in_fresh_process", j.fi.Variants[0].String())
			}
		}
	})

	// ---- decide
	expectRuns := len(allVariants) + 2*len(mx.ConfigsC02)
	for _, i := range idxs {
		h := genHistory(c.Seed, c.Tier, i)
		rs := runs[i]
		var canon *runOut
		for k := range rs {
			if rs[k].Name == "fresh:plain/set" {
				canon = &rs[k]
			}
		}
		if canon == nil {
			continue // child died / timed out: already reported
		}
		st := map[string]int64{}
		for _, b := range h.Batches {
			seen := map[string]bool{}
			for _, kv := range b.KV {
				if seen[string(kv.K)] {
					st["duplicate_keys_in_batch"]++
				}
				seen[string(kv.K)] = true
				if v := kv.V; bytes.HasPrefix(kv.K, []byte("mavl-ticket-")) && len(v) > 3 && v[0] == 0x0a && len(v) >= int(v[1])+4 && v[2+int(v[1])] == 0x10 && v[3+int(v[1])] == 3 {
					st["closed_ticket_writes"]++
				}
			}
			if len(b.KV) == 0 {
				st["empty_batches"]++
			}
			st["writes"] += int64(len(b.KV))
		}
		for k, v := range st {
			c.Count(k, v)
		}
		c.Seen("alphabets", h.Alphabet)
		bad := false
		report := func(r *runOut, step int, shape, msg string) {
			bad = true
			w := map[string]any{"history_index": i, "execution": r.Name, "step": step, "ancestor_chain": ancestors(h, step+1),
				"note": "ancestor_chain is the history restricted to the batches the root of this step may depend on"}
			c.Violation(i, shape, w, "history %d step %d (%s on version %d, %d writes): %s", i, step, h.Batches[step].Op, h.Batches[step].Parent, len(h.Batches[step].KV), msg)
		}
		if canon.Err != "" {
			report(canon, canon.ErrStep, "error:fresh:plain/set", "fresh plain/Set failed: "+canon.Err)
			continue
		}
		// reference
		ref := refRoots(h)
		for s := range ref {
			c.Count("reference_roots_compared", 1)
			if ref[s] != canon.Roots[s] {
				report(canon, s, "ref-diff", fmt.Sprintf("fresh plain/Set computed root %s, the independent reference computes %s", canon.Roots[s], ref[s]))
				break
			}
		}
		var noiseRoll, noiseCommit, noisePend int64
		for k := range rs {
			r := &rs[k]
			noiseRoll += r.Noise["rollbacks"]
			noiseCommit += r.Noise["fork_commits"]
			noisePend += r.Noise["pending_updates"]
			if r == canon {
				continue
			}
			c.Count("executions_compared", 1)
			for s := range canon.Roots {
				if s >= len(r.Roots) {
					break
				}
				c.Count("roots_compared", 1)
				if r.Roots[s] != canon.Roots[s] {
					shape := "root-diff:" + r.Name
					if len(h.Batches[s].KV) == 0 && s < len(r.Modes) && r.Modes[s] == "set" && mx.CfgByName(cfgOf(r.Name)).Prune {
						// minimal form of this witness: see pruneProbe
						shape = "prune-empty-set-returns-other-root:" + r.Name
					}
					report(r, s, shape, fmt.Sprintf("%s computed root %s, fresh plain/Set computed %s for the same parent root and writes", r.Name, r.Roots[s], canon.Roots[s]))
					break
				}
			}
			if r.Err != "" {
				report(r, r.ErrStep, "error:"+r.Name, fmt.Sprintf("%s failed where fresh plain/Set succeeded: %s", r.Name, r.Err))
			}
		}
		distinctRoots := map[string]bool{}
		for _, r := range canon.Roots {
			distinctRoots[r] = true
		}
		c.Count("distinct_roots", int64(len(distinctRoots)))
		nontrivial := !bad && len(rs) == expectRuns && noiseRoll > 0 && noiseCommit > 0 && noisePend > 0
		var sample any
		if i < 2 {
			sample = map[string]any{"history_index": i, "alphabet": h.Alphabet, "batches": len(h.Batches), "writes": st["writes"], "executions_compared": len(rs) - 1,
				"warm_noise": map[string]int64{"pending_updates": noisePend, "rollbacks": noiseRoll, "fork_commits": noiseCommit}, "last_root": canon.Roots[len(canon.Roots)-1]}
		}
		c.Case(lib.Fingerprint(map[string]any{"i": i, "roots": canon.Roots}), nontrivial, sample)
	}
	// empty write list on the empty state: Set vs MemSet+Commit
	for _, p := range probes {
		c.Count("empty_on_empty_probes", 1)
		if p.SetErr != "" || p.MemErr != "" {
			c.Violation(0, "empty-batch-on-empty-root:error", p, "empty write list on the empty root failed under %s: Set err=%q MemSet/Commit err=%q", p.Cfg, p.SetErr, p.MemErr)
			continue
		}
		if p.SetRoot != p.MemSetRoot || p.CommitRoot != p.MemSetRoot {
			c.Violation(0, "empty-batch-on-empty-root:set-vs-memset", p, "empty write list applied to the empty root (32 zero bytes) under %s: Set returns root %q, MemSet returns %q, Commit returns %q",
				p.Cfg, p.SetRoot, p.MemSetRoot, p.CommitRoot)
		}
	}
	// empty write list on two roots of one height after a third write at that height
	refA := map[int]string{}
	for _, f := range forkProbes {
		c.Count("fork_empty_write_probes", 1)
		if _, ok := refA[f.Keys]; !ok {
			t := (*mx.RNode)(nil)
			for _, kv := range seqKeys("a", f.Keys) {
				t = mx.RefSet(t, kv.K, kv.V)
			}
			refA[f.Keys] = hx(mx.RefRoot(t))
		}
		switch {
		case f.Err != "":
			c.Violation(0, "fork-empty-write:error:"+f.Cfg, f, "fork/empty-write program failed under %s: %s", f.Cfg, f.Err)
		case f.RootA != refA[f.Keys]:
			c.Violation(0, "fork-empty-write:ref-diff:"+f.Cfg, f, "root A under %s is %s, reference %s", f.Cfg, f.RootA, refA[f.Keys])
		case f.SetA != f.RootA || f.SetB != f.RootB:
			shape := "fork-empty-write:set-returns-other-root:" + f.Cfg
			if mx.CfgByName(f.Cfg).Prune && (f.SetA == f.RootB || f.SetB == f.RootA) {
				shape = "prune-empty-set-returns-other-root:probe"
			}
			c.Violation(0, shape, f, "under %s, after two roots A=%s B=%s were committed at height 1, both extended at height 2 and one more write committed at height 1, "+
				"Set(A, no writes, height 2) returns %s and Set(B, no writes, height 2) returns %s (each must return its parent root)", f.Cfg, f.RootA, f.RootB, f.SetA, f.SetB)
		case f.MemA != f.RootA || f.MemB != f.RootB:
			c.Violation(0, "fork-empty-write:memset-returns-other-root:"+f.Cfg, f, "under %s MemSet+Commit of no writes on A=%s / B=%s returns %s / %s", f.Cfg, f.RootA, f.RootB, f.MemA, f.MemB)
		}
	}
	c.Extra("configs", []string{"plain", "prefix", "prefix+prune", "memtree", "memtree+memval", "mvcc"})
	c.Extra("variants_per_history", expectRuns)
	c.RequireEvents("roots_compared", 1000)
	c.RequireEvents("reference_roots_compared", 100)
	c.RequireEvents("warm_rollbacks", 10)
	c.RequireEvents("warm_fork_commits", 10)
	c.RequireEvents("memtree_len_max", 1)
}

func main() {
	lib.RegisterChild("fresh", freshChild)
	lib.RegisterChild("warm", warmChild)
	lib.Main("C02", "exploration", run)
}
