// C38: the wallet never appears (or acts) unlocked without a successful unlock.
//
// Children (-race) run concurrent clients against the REAL wallet module and record every request at the
// client boundary (call time, return time, arguments, result). The parent checks every recorded history
// with porcupine against a sequential model {unlocked?, password} and minimises illegal histories.
package main

import (
	"encoding/json"
	"fmt"
	"os"
	"runtime"
	"sort"
	"strings"
	"sync"
	"time"

	"github.com/anishathalye/porcupine"
	"verifharness/lib"
)

type batchIn struct {
	Seed int64  `json:"seed"`
	From int    `json:"from"`
	To   int    `json:"to"`
	Tier string `json:"tier"`
	// TimeoutIdx >= 0: after the concurrent histories the child runs sequential timeout history number TimeoutIdx
	TimeoutIdx int `json:"timeout_idx"`
}

const timeoutBase = 1 << 24 // replay index of timeout history k is timeoutBase+k

// one request as seen by its client
type opRec struct {
	Client int    `json:"c"`
	Kind   string `json:"k"` // unlock | lock | setpasswd | status | dump | sign | getseed
	Via    string `json:"via"`
	P      int    `json:"p"`             // password index (unlock, setpasswd old, getseed); >= poolSize: never-valid password
	New    int    `json:"n,omitempty"`   // setpasswd: new password index, -1 = syntactically invalid new password
	T      int64  `json:"t,omitempty"`   // unlock timeout (s)
	Ticket bool   `json:"tk,omitempty"`  // unlock WalletOrTicket=true
	Call   int64  `json:"call"`
	Ret    int64  `json:"ret"`
	OK     bool   `json:"ok"`            // request succeeded; status: wallet reported unlocked
	Err    string `json:"err,omitempty"` // error text of a failed request
}

type histRec struct {
	Idx      int     `json:"idx"`
	InitPw   int     `json:"init_pw"`
	Clients  int     `json:"clients"`
	DelayUs  int64   `json:"delay_us"`
	Ops      []opRec `json:"ops"`
	FinalPw  int     `json:"final_pw"`
	HookHits int64   `json:"hook_hits"`
	Note     string  `json:"note,omitempty"`
	// sequential timeout histories
	Timeout     bool   `json:"timeout,omitempty"`
	Variant     string `json:"variant,omitempty"`
	SlackNs     int64  `json:"slack_ns,omitempty"`
	CtrlFiredNs int64  `json:"ctrl_fired_ns,omitempty"`
}

type batchOut struct {
	Hists    []histRec `json:"hists"`
	SetupErr string    `json:"setup_err,omitempty"`
}

const poolSize = 4 // passwords that may become the wallet password; indices >= poolSize are never valid

// ---------------------------------------------------------------------------------------------
// sequential model. Only what the property forbids is illegal: an "unlocked" observation / a successful
// key or seed read / a successful unlock or password change that no linearization can justify.
// Failed requests and "locked" observations are always legal and change nothing, so they are removed
// from the history before checking (this cannot change the verdict).

type mstate struct {
	Unlocked bool
	Pw       int
}

func informative(o opRec) bool { return o.OK }

func step(s mstate, o opRec) (bool, mstate) {
	switch o.Kind {
	case "unlock":
		if o.P != s.Pw {
			return false, s
		}
		if !o.Ticket {
			s.Unlocked = true
		}
		return true, s
	case "lock":
		s.Unlocked = false
		return true, s
	case "setpasswd":
		if o.P != s.Pw || o.New < 0 {
			return false, s
		}
		s.Pw = o.New
		return true, s
	case "status", "dump", "sign", "getseed":
		return s.Unlocked, s
	}
	return false, s
}

func model(init mstate) porcupine.Model {
	return porcupine.Model{
		Init: func() interface{} { return init },
		Step: func(state, input, output interface{}) (bool, interface{}) {
			ok, ns := step(state.(mstate), input.(opRec))
			return ok, ns
		},
		Equal: func(a, b interface{}) bool { return a.(mstate) == b.(mstate) },
		DescribeOperation: func(input, output interface{}) string { return describe(input.(opRec)) },
	}
}

func describe(o opRec) string {
	res := "err(" + o.Err + ")"
	if o.OK {
		res = "ok"
	}
	switch o.Kind {
	case "unlock":
		return fmt.Sprintf("c%d Unlock(pw%d,timeout=%d,ticketOnly=%v)->%s [%d,%d]", o.Client, o.P, o.T, o.Ticket, res, o.Call, o.Ret)
	case "lock":
		return fmt.Sprintf("c%d Lock()->%s [%d,%d]", o.Client, res, o.Call, o.Ret)
	case "setpasswd":
		return fmt.Sprintf("c%d SetPasswd(old=pw%d,new=pw%d)->%s [%d,%d]", o.Client, o.P, o.New, res, o.Call, o.Ret)
	case "status":
		r := "locked"
		if o.OK {
			r = "UNLOCKED"
		}
		return fmt.Sprintf("c%d Status(%s)->%s [%d,%d]", o.Client, o.Via, r, o.Call, o.Ret)
	case "getseed":
		return fmt.Sprintf("c%d GetSeed(pw%d)->%s [%d,%d]", o.Client, o.P, res, o.Call, o.Ret)
	}
	return fmt.Sprintf("c%d %s(%s)->%s [%d,%d]", o.Client, o.Kind, o.Via, res, o.Call, o.Ret)
}

func toOps(ops []opRec) []porcupine.Operation {
	out := make([]porcupine.Operation, 0, len(ops))
	for _, o := range ops {
		out = append(out, porcupine.Operation{ClientId: o.Client, Input: o, Output: o.OK, Call: o.Call, Return: o.Ret})
	}
	return out
}

func check(init mstate, ops []opRec, timeout time.Duration) porcupine.CheckResult {
	return porcupine.CheckOperationsTimeout(model(init), toOps(ops), timeout)
}

func overlaps(a, b opRec) bool { return a.Call <= b.Ret && b.Call <= a.Ret }

func isObs(o opRec) bool {
	return o.Kind == "status" || o.Kind == "dump" || o.Kind == "sign" || o.Kind == "getseed"
}

// explain reduces an illegal history to a minimal witness. Removing a state-changing request can itself
// create an illegal history, so only observations are removed: the witness is ONE observation that is
// illegal together with all successful state-changing requests (or, when those alone are inconsistent,
// their shortest illegal prefix). kept = informative requests, all = every recorded request.
func explain(init mstate, kept, all []opRec) (shape string, witness, ctx []string) {
	var stateOps, obs []opRec
	for _, o := range kept {
		if isObs(o) {
			obs = append(obs, o)
		} else {
			stateOps = append(stateOps, o)
		}
	}
	sort.SliceStable(stateOps, func(i, j int) bool { return stateOps[i].Call < stateOps[j].Call })
	sort.SliceStable(obs, func(i, j int) bool { return obs[i].Call < obs[j].Call })
	if check(init, stateOps, 10*time.Second) == porcupine.Illegal {
		for n := 1; n <= len(stateOps); n++ {
			if check(init, stateOps[:n], 10*time.Second) == porcupine.Illegal {
				for _, o := range stateOps[:n] {
					witness = append(witness, describe(o))
				}
				if len(witness) > 12 {
					witness = witness[len(witness)-12:]
				}
				return "inconsistent-results:" + stateOps[n-1].Kind + "-ok", witness, nil
			}
		}
	}
	// every observation that is illegal on its own; prefer the one with the simplest concurrent context
	type cand struct {
		shape   string
		witness []string
		score   int
	}
	var best *cand
	tried := 0
	for _, o := range obs {
		if tried >= 300 {
			break
		}
		if check(init, append(append([]opRec{}, stateOps...), o), 10*time.Second) != porcupine.Illegal {
			continue
		}
		tried++
		var w []string
		// context: the last successful unlock / lock that returned before o was called, and every request overlapping o
		var lastUnlock, lastLock *opRec
		for i := range stateOps {
			s := &stateOps[i]
			if s.Ret < o.Call {
				if s.Kind == "unlock" && !s.Ticket && (lastUnlock == nil || s.Ret > lastUnlock.Ret) {
					lastUnlock = s
				}
				if s.Kind == "lock" && (lastLock == nil || s.Ret > lastLock.Ret) {
					lastLock = s
				}
			}
		}
		if lastUnlock != nil {
			w = append(w, describe(*lastUnlock))
		}
		if lastLock != nil {
			w = append(w, describe(*lastLock))
		}
		failed, succeeded, failedUnlock, others := 0, 0, 0, 0
		for _, x := range all {
			if isObs(x) || !overlaps(x, o) {
				continue
			}
			w = append(w, describe(x)+" (concurrent)")
			switch {
			case x.Kind == "setpasswd" && !x.OK:
				failed++
			case x.Kind == "setpasswd":
				succeeded++
			case x.Kind == "unlock" && !x.OK:
				failedUnlock++
				others++
			default:
				others++
			}
		}
		w = append(w, describe(o))
		during := ""
		switch {
		case failed > 0 && succeeded == 0:
			during = "-during-failed-setpasswd"
		case succeeded > 0 && failed == 0:
			during = "-during-successful-setpasswd"
		case succeeded > 0 && failed > 0:
			during = "-during-setpasswd"
		case failedUnlock > 0:
			during = "-during-failed-unlock"
		case lastUnlock == nil:
			during = "-without-unlock"
		default:
			during = "-after-lock"
		}
		name := o.Kind + "-unlocked"
		if o.Kind != "status" {
			name = o.Kind + "-succeeded"
		}
		score := 10*(failed+succeeded) + others
		if failed > 0 && succeeded > 0 {
			score += 100
		}
		if lastUnlock != nil {
			score++
		}
		if best == nil || score < best.score {
			best = &cand{name + during, w, score}
		}
	}
	if best != nil {
		return best.shape, best.witness, nil
	}
	for i, o := range kept {
		if i < 20 {
			witness = append(witness, describe(o))
		}
	}
	return "illegal-combination", witness, nil
}

func run(c *lib.Ctx) {
	c.Rule("history i: 4-16 concurrent clients (direct wallet calls and requests through the queue API) issue a PRNG-generated mix of Unlock(right/wrong password, timeout 0/1 s, ticket-only), Lock, " +
		"SetPasswd(right/wrong old, valid/invalid new), Status (GetWalletStatus / IsWalletLocked / CheckWalletStatus), DumpPrivkey, SignRawTx, GetSeed, plus status pollers; " +
		"a delay hook (0.1-2 ms, per history) widens ProcWalletSetPasswd and ProcWalletUnLock just before their password checks; the history ends with sequential probes (Lock, Unlock with every pool password). " +
		"Each history (client-boundary call/return timestamps) is checked by porcupine against the model {unlocked, password}; illegal histories are reduced to one unjustifiable observation plus the successful state-changing requests. " +
		"non-trivial = >=1 informative observation (unlocked / successful key, seed or sign request) overlapped a state-changing request (Unlock, Lock, SetPasswd incl. failed); " +
		"fingerprint = order of calls and their results. "+
		"Timeout stratum: every batch child ends with one SEQUENTIAL history (variants: failed unlock with a larger timeout, failed SetPasswd / ticket-only unlock / reads, second successful unlock with a larger timeout, Timeout=0) observed after T+slack")
	c.Assume("failed requests and 'locked' observations are always legal in the model (the property only forbids unjustified unlocked behaviour), so they are dropped before checking",
		"concurrent histories: a lock by timeout is always allowed by the porcupine model (lower bound only); the UPPER bound of the unlock window is decided on the sequential timeout stratum: "+
			"after a successful Unlock(T=1 s) the wallet must be locked once a control timer of the same duration (armed when the unlock returned) has fired plus 3 s slack, unless a later SUCCESSFUL unlock extends the window or Timeout=0",
		"porcupine timeout or child watchdog => inconclusive",
		"race reports decide only when both accesses are in <repo>/wallet/")
	nHist := c.N(150, 5000)
	workers := runtime.NumCPU()
	if workers > 16 {
		workers = 16
	}
	per := 10
	if !c.Quick() {
		per = 40
	}
	type job struct{ from, to, timeout int }
	var jobs []job
	if c.Replay != "" {
		if c.OnlyIdx >= timeoutBase {
			jobs = []job{{0, 0, c.OnlyIdx - timeoutBase}}
		} else {
			jobs = []job{{c.OnlyIdx, c.OnlyIdx + 1, -1}}
		}
	} else {
		// every batch child ends with one sequential timeout history (quick: 15, thorough: 125)
		for f := 0; f < nHist; f += per {
			t := f + per
			if t > nHist {
				t = nHist
			}
			jobs = append(jobs, job{f, t, len(jobs)})
		}
	}
	repo := os.Getenv("VERIF_REPO")
	if repo == "" {
		repo = "/repo"
	}
	var mu sync.Mutex
	raceDeciding := map[string]string{}
	raceOther := map[string]int{}
	lib.Parallel(len(jobs), workers, func(k int) {
		j := jobs[k]
		in := batchIn{Seed: c.Seed, From: j.from, To: j.to, Tier: c.Tier, TimeoutIdx: j.timeout}
		res := c.Child("batch", in, lib.ChildOpts{Race: true, Timeout: 20 * time.Minute})
		reports := lib.ParseRaceLogs(res.RaceLogs)
		dec, oth := lib.RaceVerdict(reports, []string{repo + "/wallet/"})
		mu.Lock()
		c.Count("children", 1)
		c.Count("child_wall_ms", res.WallMs)
		c.Count("race_reports", int64(len(reports)))
		for k, v := range oth {
			raceOther[k] += v
		}
		for k, v := range dec {
			if _, ok := raceDeciding[k]; !ok {
				raceDeciding[k] = v
				c.Violation(j.from, "race:"+raceKeyShape(k), map[string]any{"batch": in, "report": v}, "data race on wallet state (both accesses in wallet/): %s\n%s", k, v)
			}
		}
		mu.Unlock()
		if res.TimedOut {
			c.Inconclusive("batch %d-%d: child watchdog fired", j.from, j.to)
			return
		}
		var out batchOut
		if res.Out == nil || json.Unmarshal(res.Out, &out) != nil || (res.Died && res.ExitCode != 66) {
			c.Violation(j.from, "crash", map[string]any{"batch": in, "stderr": res.Stderr}, "wallet child died (exit %d): %s", res.ExitCode, firstLines(res.Stderr, 15))
			return
		}
		if out.SetupErr != "" {
			c.Inconclusive("batch %d-%d: %s", j.from, j.to, out.SetupErr)
			return
		}
		for _, h := range out.Hists {
			if h.Timeout {
				judgeTimeout(c, h)
			}
			judge(c, h)
		}
	})
	c.Extra("race_reports_deciding", len(raceDeciding))
	oth := 0
	var keys []string
	for k, v := range raceOther {
		oth += v
		keys = append(keys, k)
	}
	sort.Strings(keys)
	c.Extra("race_reports_other", oth)
	if len(keys) > 0 {
		c.Extra("race_reports_other_keys", lib.ShortList(keys, 6))
	}
	c.RequireEvents("histories_checked", 20)
	c.RequireEvents("informative_ops", 500)
	c.RequireEvents("setpasswd_failed", 50)
	c.RequireEvents("setpasswd_ok", 20)
	c.RequireEvents("status_during_setpasswd", 50)
	c.RequireEvents("delay_hook_hits", 50)
	c.RequireEvents("timeout_histories", 8)
	c.RequireEvents("timeout_locked_observations", 20)
	c.RequireEvents("timeout_unlocked_inside_window", 10)
}

// judgeTimeout applies the UPPER bound of the unlock window to a sequential timeout history: an "unlocked"
// observation (or a successful key / seed / sign request) called at time t is justified only by a successful
// wallet unlock u (not ticket-only) with u.call <= t and (u.Timeout == 0 or t <= u.return + u.Timeout + slack)
// and no successful Lock between u and the observation. Failed requests never justify or extend anything.
func judgeTimeout(c *lib.Ctx, h histRec) {
	if h.Note != "" {
		return // reported by judge
	}
	c.Count("timeout_histories", 1)
	c.Seen("timeout_variants", h.Variant)
	if lag := h.CtrlFiredNs; lag > 0 {
		c.Count("timeout_control_timer_fired", 1)
	}
	for i, o := range h.Ops {
		if !isObs(o) || !o.OK {
			if isObs(o) {
				c.Count("timeout_locked_observations", 1)
			}
			continue
		}
		justified, expired := false, false
		var last *opRec
		for j := range h.Ops[:i] {
			u := &h.Ops[j]
			if u.Kind != "unlock" || !u.OK || u.Ticket {
				continue
			}
			locked := false
			for _, l := range h.Ops[j+1 : i] {
				if l.Kind == "lock" && l.OK {
					locked = true
				}
			}
			if locked {
				continue
			}
			last = u
			if u.T == 0 || o.Call <= u.Ret+u.T*int64(time.Second)+h.SlackNs {
				justified = true
			} else {
				expired = true
			}
		}
		if justified {
			c.Count("timeout_unlocked_inside_window", 1)
			continue
		}
		shape := o.Kind + "-unlocked-without-unlock"
		if expired {
			shape = o.Kind + "-unlocked-after-timeout"
		}
		if o.Kind != "status" {
			shape = strings.Replace(shape, "-unlocked-", "-succeeded-", 1)
		}
		var ws []string
		for _, x := range h.Ops[:i+1] {
			ws = append(ws, describe(x))
		}
		late := int64(0)
		if last != nil {
			late = (o.Call - last.Ret - last.T*int64(time.Second)) / int64(time.Millisecond)
		}
		c.Violation(h.Idx, shape, map[string]any{"variant": h.Variant, "history": ws, "slack_ms": h.SlackNs / 1e6, "ms_after_timeout": late, "control_timer_fired_ns": h.CtrlFiredNs},
			"timeout history %d (%s): %s observed %d ms after the unlock timeout expired (slack %d ms) with no successful unlock in between; history: %s",
			h.Idx-timeoutBase, h.Variant, describe(o), late, h.SlackNs/1e6, strings.Join(ws, " ; "))
		return
	}
}

func judge(c *lib.Ctx, h histRec) {
	if h.Note != "" {
		c.Inconclusive("history %d: %s", h.Idx, h.Note)
		return
	}
	var kept []opRec
	stateOps := []opRec{}
	for _, o := range h.Ops {
		c.Count("requests", 1)
		c.Count("req_"+o.Kind, 1)
		switch o.Kind {
		case "unlock", "lock", "setpasswd":
			stateOps = append(stateOps, o)
		}
		if o.Kind == "setpasswd" {
			if o.OK {
				c.Count("setpasswd_ok", 1)
			} else {
				c.Count("setpasswd_failed", 1)
			}
		}
		if informative(o) {
			kept = append(kept, o)
		} else {
			c.Count("uninformative_ops_dropped", 1)
		}
	}
	c.Count("informative_ops", int64(len(kept)))
	c.Count("delay_hook_hits", h.HookHits)
	nontrivial := false
	for _, o := range h.Ops {
		if o.Kind != "status" && o.Kind != "dump" && o.Kind != "sign" && o.Kind != "getseed" {
			continue
		}
		for _, s := range stateOps {
			if overlaps(o, s) {
				if o.OK {
					nontrivial = true
				}
				if s.Kind == "setpasswd" && o.Kind == "status" {
					c.Count("status_during_setpasswd", 1)
				}
				break
			}
		}
	}
	var order []string
	sorted := append([]opRec{}, h.Ops...)
	sort.SliceStable(sorted, func(i, j int) bool { return sorted[i].Call < sorted[j].Call })
	for _, o := range sorted {
		if o.Kind == "status" && !o.OK {
			continue
		}
		order = append(order, fmt.Sprintf("%d%s%v", o.Client, o.Kind[:2], o.OK))
	}
	fp := lib.Fingerprint(order)
	c.Seen("interleavings", fp)
	init := mstate{Unlocked: false, Pw: h.InitPw}
	res := check(init, kept, 30*time.Second)
	c.Count("histories_checked", 1)
	switch res {
	case porcupine.Unknown:
		c.Inconclusive("history %d: porcupine timed out on %d operations", h.Idx, len(kept))
	case porcupine.Illegal:
		shape, ws, ctx := explain(init, kept, h.Ops)
		c.Violation(h.Idx, shape, map[string]any{"initial_state": "locked, password pw" + fmt.Sprint(h.InitPw), "minimal_history": ws, "context": ctx, "delay_us": h.DelayUs, "clients": h.Clients},
			"history %d is not linearizable w.r.t. the lock model; initial state locked/pw%d; minimal illegal sub-history: %s; %s", h.Idx, h.InitPw, strings.Join(ws, " ; "), strings.Join(ctx, " ; "))
	}
	var sample any
	if nontrivial {
		var ws []string
		for i, o := range sorted {
			if i < 40 {
				ws = append(ws, describe(o))
			}
		}
		sample = map[string]any{"history": h.Idx, "clients": h.Clients, "ops": len(h.Ops), "first_ops": ws}
	}
	c.Case(fp, nontrivial, sample)
}

func raceKeyShape(k string) string {
	parts := strings.Split(k, " <-> ")
	for i, p := range parts {
		if j := strings.Index(p, "@"); j >= 0 {
			p = p[:j]
		}
		if j := strings.LastIndex(p, "/"); j >= 0 {
			p = p[j+1:]
		}
		parts[i] = p
	}
	return strings.Join(parts, "~")
}

func firstLines(s string, n int) string {
	ls := strings.Split(s, "\n")
	if len(ls) > n {
		ls = ls[:n]
	}
	return strings.Join(ls, "\n")
}

func main() {
	lib.RegisterChild("batch", batchChild)
	lib.Main("C38", "exploration", run)
}
