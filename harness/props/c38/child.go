package main

import (
	"crypto/sha256"
	"encoding/json"
	"fmt"
	"os"
	"path/filepath"
	"sync"
	"sync/atomic"
	"time"

	"github.com/33cn/chain33/common"
	"github.com/33cn/chain33/types"
	"github.com/33cn/chain33/wallet"
	"verifharness/lib"
	"verifharness/wenv"
)

func caseRng(stream string, seed int64, i int) *lib.Rng {
	h := sha256.Sum256([]byte(fmt.Sprintf("%s|%s|%d|%d", "C38", stream, seed, i)))
	var s uint64
	for k := 0; k < 8; k++ {
		s = s<<8 | uint64(h[k])
	}
	return lib.NewRng(s)
}

// password pool: indices 0..poolSize-1 may become the wallet password, the others never do
var passwords = []string{"verifPw0aaaa1", "Second2passWord", "x3yzxyzxyzxyzxyzxyzxyz", "four4FOUR", "neverValid77", "alsoWrong88x"}

const invalidNew = "short1" // rejected by isValidPassWord

type planOp struct {
	Kind   string
	Via    string
	P      int
	New    int
	T      int64
	Ticket bool
	Addr   int
	Pause  int // microseconds before the request
	Polls  int // pollers: number of status polls
}

type wenvT struct {
	e       *wenv.Env
	addrs   []string
	delayNs int64
	hits    int64
	nonce   int64
}

func (w *wenvT) exec(o planOp) (bool, string) {
	W := w.e.W
	errS := func(err error) (bool, string) {
		if err != nil {
			return false, err.Error()
		}
		return true, ""
	}
	api := o.Via == "api"
	switch o.Kind {
	case "unlock":
		req := &types.WalletUnLock{Passwd: passwords[o.P], Timeout: o.T, WalletOrTicket: o.Ticket}
		if api {
			r, err := w.e.API.ExecWalletFunc("wallet", "WalletUnLock", req)
			if err != nil {
				return false, err.Error()
			}
			rep := r.(*types.Reply)
			return rep.IsOk, string(rep.Msg)
		}
		return errS(W.ProcWalletUnLock(req))
	case "lock":
		if api {
			r, err := w.e.API.ExecWalletFunc("wallet", "WalletLock", &types.ReqNil{})
			if err != nil {
				return false, err.Error()
			}
			rep := r.(*types.Reply)
			return rep.IsOk, string(rep.Msg)
		}
		return errS(W.ProcWalletLock())
	case "setpasswd":
		np := invalidNew
		if o.New >= 0 {
			np = passwords[o.New]
		}
		req := &types.ReqWalletSetPasswd{OldPass: passwords[o.P], NewPass: np}
		if api {
			r, err := w.e.API.ExecWalletFunc("wallet", "WalletSetPasswd", req)
			if err != nil {
				return false, err.Error()
			}
			rep := r.(*types.Reply)
			return rep.IsOk, string(rep.Msg)
		}
		return errS(W.ProcWalletSetPasswd(req))
	case "status":
		switch o.Via {
		case "api":
			r, err := w.e.API.ExecWalletFunc("wallet", "GetWalletStatus", &types.ReqNil{})
			if err != nil {
				return false, err.Error()
			}
			return !r.(*types.WalletStatus).IsWalletLock, ""
		case "flag":
			return !W.IsWalletLocked(), ""
		case "check":
			ok, err := W.CheckWalletStatus()
			if err != nil {
				return false, err.Error()
			}
			return ok, ""
		}
		return !W.GetWalletStatus().IsWalletLock, ""
	case "dump":
		addr := w.addrs[o.Addr%len(w.addrs)]
		if api {
			r, err := w.e.API.ExecWalletFunc("wallet", "DumpPrivkey", &types.ReqString{Data: addr})
			if err != nil {
				return false, err.Error()
			}
			return r.(*types.ReplyString).Data != "", ""
		}
		k, err := W.ProcDumpPrivkey(addr)
		if err != nil {
			return false, err.Error()
		}
		return k != "", ""
	case "sign":
		addr := w.addrs[o.Addr%len(w.addrs)]
		req := &types.ReqSignRawTx{Addr: addr, TxHex: wenv.UnsignedTx(wenv.ExecAddr(), atomic.AddInt64(&w.nonce, 1)), Expire: "300s"}
		if api {
			r, err := w.e.API.ExecWalletFunc("wallet", "SignRawTx", req)
			if err != nil {
				return false, err.Error()
			}
			return r.(*types.ReplySignRawTx).TxHex != "", ""
		}
		s, err := W.ProcSignRawTx(req)
		if err != nil {
			return false, err.Error()
		}
		return s != "", ""
	case "getseed":
		if api {
			r, err := w.e.API.ExecWalletFunc("wallet", "GetSeed", &types.GetSeedByPw{Passwd: passwords[o.P]})
			if err != nil {
				return false, err.Error()
			}
			return r.(*types.ReplySeed).Seed != "", ""
		}
		s, err := W.GetSeed(passwords[o.P])
		if err != nil {
			return false, err.Error()
		}
		return s != "", ""
	}
	return false, "unknown op"
}

func genHistory(rng *lib.Rng, cur int) (clients [][]planOp, delayUs int64) {
	n := rng.Range(4, 16)
	budget := rng.Range(24, 60)
	if rng.Chance(80) {
		delayUs = int64(rng.Range(100, 2000))
	}
	// focused histories (minimal witnesses): pollers + ONE client that only changes the password or only fails to unlock
	if f := rng.Intn(100); f < 32 {
		delayUs = int64(rng.Range(300, 2000))
		for ci := 0; ci < rng.Range(1, 3); ci++ {
			clients = append(clients, []planOp{{Kind: "poll", Via: lib.Pick(rng, []string{"status", "flag", "api"}), Polls: rng.Range(60, 200)}})
		}
		var ops []planOp
		p := cur
		for j := rng.Range(3, 6); j > 0; j-- {
			o := planOp{Kind: "setpasswd", Via: lib.Pick(rng, []string{"direct", "api"}), Pause: rng.Intn(300)}
			if f >= 24 { // unlock attempts with a wrong password
				o.Kind = "unlock"
				o.P = poolSize + rng.Intn(len(passwords)-poolSize)
				if rng.Bool() {
					o.P = (cur + 1 + rng.Intn(poolSize-1)) % poolSize
				}
			} else if f < 14 { // wrong old password (never-valid or a pool password that is not current)
				o.P = poolSize + rng.Intn(len(passwords)-poolSize)
				if rng.Bool() {
					o.P = (cur + 1 + rng.Intn(poolSize-1)) % poolSize
				}
				o.New = rng.Intn(poolSize)
			} else { // chain of successful changes
				o.P = p
				o.New = (p + 1 + rng.Intn(poolSize-1)) % poolSize
				p = o.New
			}
			ops = append(ops, o)
		}
		clients = append(clients, ops)
		return
	}
	pw := func() int {
		// mostly the password the history starts with or another pool password (it may have become current), sometimes a never-valid one
		switch x := rng.Intn(100); {
		case x < 45:
			return cur
		case x < 80:
			return rng.Intn(poolSize)
		}
		return poolSize + rng.Intn(len(passwords)-poolSize)
	}
	via := func() string {
		if rng.Chance(35) {
			return "api"
		}
		return "direct"
	}
	pollers := rng.Range(1, 3)
	for ci := 0; ci < n; ci++ {
		var ops []planOp
		if ci < pollers {
			ops = append(ops, planOp{Kind: "poll", Via: lib.Pick(rng, []string{"status", "flag", "status"}), Polls: rng.Range(60, 200)})
			clients = append(clients, ops)
			continue
		}
		k := budget/(n-pollers) + 1
		for j := 0; j < k; j++ {
			o := planOp{Via: via(), Addr: rng.Intn(8)}
			if rng.Chance(40) {
				o.Pause = rng.Intn(600)
			}
			switch x := rng.Intn(100); {
			case x < 16:
				o.Kind, o.P = "unlock", pw()
				if rng.Chance(12) {
					o.T = 1
				}
				o.Ticket = rng.Chance(10)
			case x < 26:
				o.Kind = "lock"
			case x < 48:
				o.Kind, o.P = "setpasswd", pw()
				o.New = rng.Intn(poolSize)
				if rng.Chance(15) {
					o.New = -1
				}
			case x < 70:
				o.Kind = "status"
				if o.Via == "direct" {
					o.Via = lib.Pick(rng, []string{"status", "flag", "check"})
				}
			case x < 82:
				o.Kind = "dump"
			case x < 91:
				o.Kind = "sign"
			default:
				o.Kind, o.P = "getseed", pw()
			}
			ops = append(ops, o)
		}
		clients = append(clients, ops)
	}
	return
}

const timeoutSlack = 3 * time.Second

// timeoutHistory: one SEQUENTIAL history about the unlock timeout (run after the concurrent histories of the
// batch, on the same wallet). Variants (k%5): 0-2 Unlock(T=1 s) followed by requests that must not extend the
// window (failed unlocks with larger timeouts, failed SetPasswd, ticket-only unlock, status reads);
// 3 a second SUCCESSFUL unlock with a larger timeout (legitimately extends); 4 Timeout=0 (never auto-locks).
// Then wait until a control timer of the same duration, armed when the unlock returned, has fired, plus the
// slack, and observe Status / Dump / GetSeed / Sign. The parent applies the upper-bound rule.
func (w *wenvT) timeoutHistory(seed int64, k int, cur int) histRec {
	rng := caseRng("timeout", seed, k)
	h := histRec{Idx: timeoutBase + k, InitPw: cur, Clients: 1, Timeout: true, SlackNs: int64(timeoutSlack), FinalPw: cur}
	atomic.StoreInt64(&w.delayNs, 0)
	w.e.W.ProcWalletLock()
	start := time.Now()
	now := func() int64 { return int64(time.Since(start)) }
	seq := func(o planOp) bool {
		call := now()
		ok, es := w.exec(o)
		ret := now()
		h.Ops = append(h.Ops, opRec{Client: 0, Kind: o.Kind, Via: o.Via, P: o.P, New: o.New, T: o.T, Ticket: o.Ticket, Call: call, Ret: ret, OK: ok, Err: es})
		return ok
	}
	wrong := func() int {
		if rng.Bool() {
			return (cur + 1 + rng.Intn(poolSize-1)) % poolSize
		}
		return poolSize + rng.Intn(len(passwords)-poolSize)
	}
	via := func() string { return lib.Pick(rng, []string{"direct", "direct", "api"}) }
	variant := k % 5
	h.Variant = []string{"failed-unlock-larger-timeout", "mixed-non-extending", "mixed-non-extending", "second-successful-unlock-extends", "timeout-0"}[variant]
	T := int64(1)
	if variant == 4 {
		T = 0
	}
	if !seq(planOp{Kind: "unlock", Via: via(), P: cur, T: T}) {
		h.Note = "timeout history: the initial unlock with the current password failed"
		return h
	}
	ctrl := time.After(time.Second) // control timer of the same duration, armed after the unlock returned
	seq(planOp{Kind: "status", Via: "flag"})
	nExtra := rng.Range(1, 4)
	for j := 0; j < nExtra; j++ {
		time.Sleep(time.Duration(rng.Range(20, 150)) * time.Millisecond)
		x := rng.Intn(5)
		if variant == 0 && j == 0 {
			x = 0
		}
		switch x {
		case 0:
			seq(planOp{Kind: "unlock", Via: via(), P: wrong(), T: lib.Pick(rng, []int64{5, 30, 100})})
		case 1:
			seq(planOp{Kind: "setpasswd", Via: via(), P: wrong(), New: rng.Intn(poolSize)})
		case 2:
			seq(planOp{Kind: "unlock", Via: via(), P: cur, T: 30, Ticket: true})
		case 3:
			seq(planOp{Kind: "status", Via: lib.Pick(rng, []string{"status", "flag", "check", "api"})})
		default:
			seq(planOp{Kind: "dump", Via: via(), Addr: rng.Intn(8)})
		}
	}
	if variant == 3 {
		seq(planOp{Kind: "unlock", Via: via(), P: cur, T: 12})
	}
	<-ctrl
	h.CtrlFiredNs = now()
	time.Sleep(timeoutSlack + 200*time.Millisecond)
	seq(planOp{Kind: "status", Via: "status"})
	seq(planOp{Kind: "status", Via: "flag"})
	seq(planOp{Kind: "status", Via: "api"})
	seq(planOp{Kind: "dump", Via: via(), Addr: rng.Intn(8)})
	seq(planOp{Kind: "getseed", Via: via(), P: cur})
	seq(planOp{Kind: "sign", Via: via(), Addr: rng.Intn(8)})
	seq(planOp{Kind: "lock", Via: "direct"})
	seq(planOp{Kind: "status", Via: "flag"})
	return h
}

func batchChild(inb []byte) (any, error) {
	var in batchIn
	if err := json.Unmarshal(inb, &in); err != nil {
		return nil, err
	}
	out := &batchOut{}
	dir := filepath.Join(os.Getenv("VERIF_TMP"), "w")
	os.MkdirAll(dir, 0o755)
	cfg := wenv.NewConfig(dir)
	w := &wenvT{e: wenv.Start(cfg)}
	defer w.e.Stop()
	wallet.VerifSetDelayHook(func(point string) {
		atomic.AddInt64(&w.hits, 1)
		if d := atomic.LoadInt64(&w.delayNs); d > 0 {
			time.Sleep(time.Duration(d))
		}
	})
	// setup: seed, three accounts, locked
	setupRng := caseRng("setup", in.Seed, in.From)
	cur := 0
	if ok, err := w.e.W.SaveSeed(passwords[cur], wenv.Mnemonic(setupRng.Bytes(20), 0)); !ok {
		out.SetupErr = fmt.Sprintf("SaveSeed: %v", err)
		return out, nil
	}
	if err := w.e.W.ProcWalletUnLock(&types.WalletUnLock{Passwd: passwords[cur]}); err != nil {
		out.SetupErr = fmt.Sprintf("unlock: %v", err)
		return out, nil
	}
	for i := 0; i < 2; i++ {
		acc, err := w.e.W.ProcCreateNewAccount(&types.ReqNewAccount{Label: fmt.Sprintf("a%d", i)})
		if err != nil {
			out.SetupErr = fmt.Sprintf("create account: %v", err)
			return out, nil
		}
		w.addrs = append(w.addrs, acc.Acc.Addr)
	}
	for try := 0; try < 8 && len(w.addrs) < 3; try++ {
		acc, err := w.e.W.ProcImportPrivKey(&types.ReqWalletImportPrivkey{Privkey: common.ToHex(setupRng.Bytes(32)), Label: fmt.Sprintf("i%d", try)})
		if err == nil {
			w.addrs = append(w.addrs, acc.Acc.Addr)
		}
	}
	w.e.W.ProcWalletLock()

	for idx := in.From; idx < in.To; idx++ {
		rng := caseRng("hist", in.Seed, idx)
		clients, delayUs := genHistory(rng, idx%poolSize)
		h := histRec{Idx: idx, InitPw: cur, Clients: len(clients), DelayUs: delayUs}
		atomic.StoreInt64(&w.delayNs, delayUs*1000)
		hits0 := atomic.LoadInt64(&w.hits)
		// every history starts locked with password idx%poolSize (sequential, before any client runs), so that
		// a history is replayable by its index alone
		if want := idx % poolSize; want != cur {
			if err := w.e.W.ProcWalletSetPasswd(&types.ReqWalletSetPasswd{OldPass: passwords[cur], NewPass: passwords[want]}); err != nil {
				h.Note = fmt.Sprintf("cannot normalise the password before the history: %v", err)
				out.Hists = append(out.Hists, h)
				return out, nil
			}
			cur = want
			h.InitPw = cur
		}
		w.e.W.ProcWalletLock()
		start := time.Now()
		now := func() int64 { return int64(time.Since(start)) }
		var mu sync.Mutex
		record := func(r opRec) { mu.Lock(); h.Ops = append(h.Ops, r); mu.Unlock() }
		var wg sync.WaitGroup
		var workersLeft int32
		for _, ops := range clients {
			if ops[0].Kind != "poll" {
				workersLeft++
			}
		}
		unlockedT1 := int32(0)
		for ci, ops := range clients {
			wg.Add(1)
			go func(ci int, ops []planOp) {
				defer wg.Done()
				if ops[0].Kind == "poll" {
					// status poller: only informative (unlocked) answers are recorded, plus a sample of the others
					for k := 0; k < ops[0].Polls && atomic.LoadInt32(&workersLeft) > 0; k++ {
						o := planOp{Kind: "status", Via: ops[0].Via}
						call := now()
						ok, es := w.exec(o)
						ret := now()
						if ok || k%16 == 0 {
							record(opRec{Client: ci, Kind: "status", Via: o.Via, Call: call, Ret: ret, OK: ok, Err: es})
						}
						if k%4 == 3 {
							time.Sleep(20 * time.Microsecond)
						}
					}
					return
				}
				defer atomic.AddInt32(&workersLeft, -1)
				for _, o := range ops {
					if o.Pause > 0 {
						time.Sleep(time.Duration(o.Pause) * time.Microsecond)
					}
					call := now()
					ok, es := w.exec(o)
					ret := now()
					record(opRec{Client: ci, Kind: o.Kind, Via: o.Via, P: o.P, New: o.New, T: o.T, Ticket: o.Ticket, Call: call, Ret: ret, OK: ok, Err: es})
					if o.Kind == "unlock" && ok && o.T > 0 {
						atomic.StoreInt32(&unlockedT1, 1)
					}
				}
			}(ci, ops)
		}
		done := make(chan struct{})
		go func() { wg.Wait(); close(done) }()
		select {
		case <-done:
		case <-time.After(180 * time.Second):
			h.Note = "clients did not finish within 180 s (watchdog)"
			out.Hists = append(out.Hists, h)
			return out, nil
		}
		probeClient := len(clients)
		seq := func(o planOp) bool {
			call := now()
			ok, es := w.exec(o)
			ret := now()
			record(opRec{Client: probeClient, Kind: o.Kind, Via: o.Via, P: o.P, New: o.New, T: o.T, Call: call, Ret: ret, OK: ok, Err: es})
			return ok
		}
		if atomic.LoadInt32(&unlockedT1) == 1 && rng.Chance(50) {
			// let a pending 1 s unlock timeout fire, then observe (a lock by timeout is always legal in the model)
			time.Sleep(1100 * time.Millisecond)
			seq(planOp{Kind: "status", Via: "status"})
			seq(planOp{Kind: "dump", Via: "direct"})
		}
		// sequential probes: which pool password is current now
		seq(planOp{Kind: "lock", Via: "direct"})
		seq(planOp{Kind: "status", Via: "status"})
		final := -1
		for p := 0; p < len(passwords); p++ {
			if seq(planOp{Kind: "unlock", Via: "direct", P: p}) {
				if final < 0 {
					final = p
				}
				seq(planOp{Kind: "status", Via: "flag"})
				seq(planOp{Kind: "lock", Via: "direct"})
			}
		}
		h.FinalPw = final
		h.HookHits = atomic.LoadInt64(&w.hits) - hits0
		if final < 0 {
			h.Note = "no pool password unlocks the wallet after the history (cannot continue the batch)"
			out.Hists = append(out.Hists, h)
			return out, nil
		}
		cur = final
		out.Hists = append(out.Hists, h)
	}
	if in.TimeoutIdx >= 0 {
		out.Hists = append(out.Hists, w.timeoutHistory(in.Seed, in.TimeoutIdx, cur))
	}
	return out, nil
}
