// C17: transaction groups are tamper-evident.
//
// Every case builds an honest group with the client library (types.CreateTxGroup + per-member signatures),
// requires it to pass Transactions.Check / CheckSign (directly and in the carrier form used by the mempool:
// group.Tx() -> TransactionCache.GetTxGroup/Check/CheckSign), then enumerates structural mutations
// (reorder, drop, truncate, insert, substitute, splice from another group; each raw and "rebuilt" by an attacker
// who re-links headers and re-signs only the members he owns), every protobuf field mutation of every member
// (raw and rebuilt) and the fee rules. Every mutant has to be rejected by Check or by CheckSign.
package main

import (
	"bytes"
	"encoding/hex"
	"fmt"
	"os"
	"runtime"
	"runtime/pprof"
	"sort"
	"strings"
	"sync"

	"github.com/33cn/chain33/common/address"
	clog "github.com/33cn/chain33/common/log"
	_ "github.com/33cn/chain33/system/address"
	_ "github.com/33cn/chain33/system/crypto/init"
	"github.com/33cn/chain33/types"
	"google.golang.org/protobuf/proto"
	"verifharness/lib"
	"verifharness/txmut"
)

const height = int64(100)

type env struct {
	cfg     *types.Chain33Config
	minFee  int64
	maxFee  int64
	drivers []string
}

type member struct {
	tx     *types.Transaction
	signer *txmut.Signer
	ty     int32
}

type caseStats struct {
	n                           int
	mutants                     int64
	byCheck, bySign, byPanic    int64
	perClass                    map[string]int64
	fp                          string
	honestOK                    bool
	feeBoundaryAccepted         int64
	feeCases                    int64
	fieldMutants, structMutants int64
	noTamper, carrier           int64
	panics                      []string
	para                        bool
	drivers                     map[string]bool
}

type viol struct {
	shape, msg string
	witness    any
}

func sizesList() []int { return []int{2, 2, 3, 3, 4, 5, 6, 7, 8, 10, 12, 15, 18, 20} }

func mainExecers() []string { return []string{"coins", "token", "none", "user.write", "manage"} }

func randTx(e *env, r *lib.Rng, execer string) *types.Transaction {
	tx := &types.Transaction{Execer: []byte(execer), Nonce: r.Int63(), ChainID: e.cfg.GetChainID()}
	switch p := r.Intn(100); {
	case p < 8:
	case p < 85:
		tx.Payload = r.Bytes(r.Range(1, 200))
	case p < 97:
		tx.Payload = r.Bytes(r.Range(850, 1250)) // around the 1000-byte fee step
	default:
		tx.Payload = r.Bytes(r.Range(2000, 4000))
	}
	if len(tx.Payload) > 0 {
		tx.Payload[0] = 0xff // never a decodable action (the secp256k1eth driver inspects decodable payloads)
	}
	if r.Chance(85) {
		tx.To = address.PubKeyToAddr(0, r.Bytes(33))
	}
	switch r.Intn(5) {
	case 0:
	case 1:
		tx.Expire = height + int64(r.Range(1, 1000)) // height based
	case 2:
		tx.Expire = 4102444800 + int64(r.Intn(100000)) // block-time based, far future
	case 3:
		tx.Expire = types.TxHeightFlag + height + int64(r.Range(1, 100))
	case 4:
		tx.Expire = int64(r.Range(1, 50)) // already expired by height: Check/CheckSign do not look at it
	}
	if r.Chance(25) {
		tx.Fee = int64(r.Range(1, 3)) * 100000
	}
	return tx
}

func (e *env) build(r *lib.Rng, n int, para string) ([]*member, *types.Transactions, error) {
	nsign := r.Range(1, n)
	var signers []*txmut.Signer
	for i := 0; i < nsign; i++ {
		d := lib.Pick(r, e.drivers)
		if d == "sm2" && r.Chance(60) { // pure-Go sm2 verification is ~20x slower than the rest
			d = lib.Pick(r, e.drivers)
		}
		signers = append(signers, txmut.NewSigner(r, d))
	}
	ms := make([]*member, n)
	txs := make([]*types.Transaction, n)
	for i := range ms {
		ex := lib.Pick(r, mainExecers())
		if para != "" {
			ex = para + lib.Pick(r, []string{"coins", "token", "user.write", "paracross"})
		}
		s := lib.Pick(r, signers)
		ms[i] = &member{tx: randTx(e, r, ex), signer: s, ty: s.Ty(lib.Pick(r, []int32{0, 0, 2}))}
		txs[i] = ms[i].tx
	}
	g, err := types.CreateTxGroup(txs, e.minFee)
	if err != nil {
		return nil, nil, err
	}
	for i := range ms {
		g.SignN(i, ms[i].ty, ms[i].signer.Priv)
	}
	return ms, g, nil
}

func cloneGroup(g *types.Transactions) *types.Transactions {
	return proto.Clone(g).(*types.Transactions)
}

// verdict of the real code for one candidate group
type verdict struct {
	checkErr, carrierErr error
	signOK, carrierSign  bool
	panicked             string
}

func (v verdict) accepted() bool {
	return v.panicked == "" && ((v.checkErr == nil && v.signOK) || (v.carrierErr == nil && v.carrierSign))
}

func (e *env) judge(g *types.Transactions, carrier bool) (v verdict) {
	defer func() {
		if r := recover(); r != nil {
			v.panicked = fmt.Sprint(r)
		}
	}()
	v.checkErr = g.Check(e.cfg, height, e.minFee, e.maxFee)
	if v.checkErr == nil {
		v.signOK = g.CheckSign(height)
	}
	// the form in which a group travels to the mempool / rpc
	v.carrierErr = fmt.Errorf("no carrier")
	if !carrier {
		return
	}
	if c := g.Tx(); c != nil {
		wire := types.Encode(c)
		var c2 types.Transaction
		if err := types.Decode(wire, &c2); err != nil {
			v.carrierErr = err
			return
		}
		cache := types.NewTransactionCache(&c2)
		v.carrierErr = cache.Check(e.cfg, height, e.minFee, e.maxFee)
		if v.carrierErr == nil {
			v.carrierSign = cache.CheckSign(height)
		}
	}
	return
}

func describe(g *types.Transactions) []string {
	var out []string
	for i, tx := range g.Txs {
		if tx == nil {
			out = append(out, fmt.Sprintf("#%d nil", i))
			continue
		}
		out = append(out, fmt.Sprintf("#%d hash=%s execer=%s fee=%d groupCount=%d header=%s next=%s sigTy=%d", i, short(tx.Hash()), tx.Execer, tx.Fee, tx.GroupCount, short(tx.Header), short(tx.Next), tx.GetSignature().GetTy()))
	}
	return out
}

func short(b []byte) string {
	if len(b) > 6 {
		return hex.EncodeToString(b[:6])
	}
	return hex.EncodeToString(b)
}

// rebuild = what an attacker can do after tampering: make the counts consistent, re-link header/next and re-sign
// the members he owns (own[i] != nil)
func rebuild(g *types.Transactions, own map[int]*member) {
	if len(g.Txs) == 0 {
		return
	}
	for _, tx := range g.Txs {
		tx.GroupCount = int32(len(g.Txs))
	}
	g.RebuiltGroup()
	for i, m := range own {
		if i < len(g.Txs) {
			g.Txs[i].Sign(m.ty, m.signer.Priv)
		}
	}
}

func (e *env) runCase(c *lib.Ctx, idx int) (st caseStats, vs []viol) {
	r := c.CaseRng("group", idx)
	st.perClass = map[string]int64{}
	st.drivers = map[string]bool{}
	sizes := sizesList()
	n := sizes[idx%len(sizes)]
	para := ""
	if r.Chance(30) {
		para = "user.p." + lib.Pick(r, []string{"game", "fzm", "x"}) + "."
	}
	st.n, st.para = n, para != ""
	ms, g, err := e.build(r, n, para)
	if err != nil {
		vs = append(vs, viol{"honest-create-failed", fmt.Sprintf("CreateTxGroup failed for %d members: %v", n, err), nil})
		return
	}
	for _, m := range ms {
		st.drivers[m.signer.Name] = true
	}
	var hs []string
	for _, tx := range g.Txs {
		hs = append(hs, hex.EncodeToString(tx.Hash()))
	}
	st.fp = lib.Fingerprint(hs)
	hv := e.judge(g, true)
	carrierSame := false
	if ct := g.Tx(); ct != nil {
		if gg, err := ct.GetTxGroup(); err == nil && gg != nil && proto.Equal(gg, g) {
			carrierSame = true
		}
	}
	if hv.panicked != "" || hv.checkErr != nil || !hv.signOK || hv.carrierErr != nil || !hv.carrierSign || !carrierSame {
		vs = append(vs, viol{"honest-group-rejected", fmt.Sprintf("honest %d-member group (para=%q): Check=%v CheckSign=%v carrier Check=%v CheckSign=%v GetTxGroup-roundtrip=%v panic=%q", n, para, hv.checkErr, hv.signOK, hv.carrierErr, hv.carrierSign, carrierSame, hv.panicked),
			map[string]any{"members": describe(g), "group_hex": hex.EncodeToString(types.Encode(g))}})
		return
	}
	st.honestOK = true

	attacker := txmut.NewSigner(r, lib.Pick(r, e.drivers))
	header := g.Txs[0].Header
	// a second honest group to splice members from (same size, same chain)
	_, g2, _ := e.build(r, n, para)

	try := func(class, desc string, mg *types.Transactions) {
		if proto.Equal(mg, g) { // e.g. a mutated header/next/groupCount that the rebuild step restored: nothing is tampered
			st.noTamper++
			return
		}
		// the carrier form runs the same checks on the re-decoded group: always for structural and fee mutants,
		// for every 4th field mutant
		withCarrier := !strings.HasPrefix(class, "field:") || st.mutants%4 == 0
		v := e.judge(mg, withCarrier)
		if withCarrier {
			st.carrier++
		}
		if v.panicked != "" && len(st.panics) < 3 {
			st.panics = append(st.panics, class+": "+v.panicked)
		}
		st.mutants++
		st.perClass[class]++
		switch {
		case v.panicked != "":
			st.byPanic++
		case v.checkErr != nil:
			st.byCheck++
		default:
			st.bySign++
		}
		if v.accepted() {
			via := "direct"
			if !(v.checkErr == nil && v.signOK) {
				via = "carrier"
			}
			vs = append(vs, viol{"accepted:" + class, fmt.Sprintf("%d-member group, mutation %q is ACCEPTED (%s: Check=nil, CheckSign=true)", n, desc, via),
				map[string]any{"mutation": desc, "class": class, "original": describe(g), "mutant": describe(mg), "mutant_group_hex": hex.EncodeToString(types.Encode(mg))}})
		}
	}
	fitted := func(at int, count int32, next []byte, fee int64) *member {
		ex := string(g.Txs[0].Execer)
		t := randTx(e, r, ex)
		t.GroupCount, t.Header, t.Next, t.Fee = count, header, next, fee
		m := &member{tx: t, signer: attacker, ty: attacker.Ty(0)}
		t.Sign(m.ty, m.signer.Priv)
		return m
	}
	both := func(class, desc string, mg *types.Transactions, own map[int]*member) {
		st.structMutants += 2
		try("struct:"+class+":raw", desc, mg)
		rb := cloneGroup(mg)
		rebuild(rb, own)
		try("struct:"+class+":rebuilt", desc+" + attacker rebuild", rb)
	}

	// ---- reorder: every pair swap, reversal, rotation
	for i := 0; i < n; i++ {
		for j := i + 1; j < n; j++ {
			mg := cloneGroup(g)
			mg.Txs[i], mg.Txs[j] = mg.Txs[j], mg.Txs[i]
			both("reorder", fmt.Sprintf("swap members %d and %d", i, j), mg, nil)
		}
	}
	if n > 2 {
		mg := cloneGroup(g)
		for i, j := 0, n-1; i < j; i, j = i+1, j-1 {
			mg.Txs[i], mg.Txs[j] = mg.Txs[j], mg.Txs[i]
		}
		both("reorder", "reverse", mg, nil)
		mg = cloneGroup(g)
		mg.Txs = append(mg.Txs[1:], mg.Txs[0])
		both("reorder", "rotate left", mg, nil)
	}
	// ---- drop each member / truncate to every length
	for i := 0; i < n; i++ {
		mg := cloneGroup(g)
		mg.Txs = append(mg.Txs[:i:i], mg.Txs[i+1:]...)
		both("drop", fmt.Sprintf("drop member %d", i), mg, nil)
	}
	for k := 1; k < n; k++ {
		mg := cloneGroup(g)
		mg.Txs = mg.Txs[:k]
		both("truncate", fmt.Sprintf("keep the first %d members", k), mg, nil)
		mg = cloneGroup(g)
		mg.Txs = mg.Txs[n-k:]
		both("truncate", fmt.Sprintf("keep the last %d members", k), mg, nil)
	}
	// ---- insert at every position: a duplicate of a member, a fresh attacker tx, a fitted attacker tx
	if n < 20 {
		for p := 0; p <= n; p++ {
			ins := func(t *types.Transaction) *types.Transactions {
				mg := cloneGroup(g)
				mg.Txs = append(mg.Txs[:p:p], append([]*types.Transaction{t}, mg.Txs[p:]...)...)
				return mg
			}
			dup := txmut.CloneTx(g.Txs[r.Intn(n)])
			both("insert-duplicate", fmt.Sprintf("insert a copy of a member at %d", p), ins(dup), nil)
			var next []byte
			if p < n {
				next = g.Txs[p].Hash()
			}
			for _, cnt := range []int32{int32(n), int32(n + 1)} {
				f := fitted(p, cnt, next, 0)
				both("insert-attacker", fmt.Sprintf("insert an attacker-signed tx (groupCount=%d, header and next fitted) at %d", cnt, p), ins(f.tx), map[int]*member{p: f})
			}
		}
	}
	// ---- substitute every member: fitted attacker tx, another member, the same-position member of another group
	for i := 0; i < n; i++ {
		fee := int64(0)
		if i == 0 {
			fee = g.Txs[0].Fee
		}
		f := fitted(i, int32(n), g.Txs[i].Next, fee)
		mg := cloneGroup(g)
		mg.Txs[i] = f.tx
		both("substitute-attacker", fmt.Sprintf("replace member %d by an attacker-signed tx with the same header/next/groupCount/fee", i), mg, map[int]*member{i: f})
		j := (i + 1 + r.Intn(n-1)) % n
		mg = cloneGroup(g)
		mg.Txs[i] = txmut.CloneTx(g.Txs[j])
		both("substitute-member", fmt.Sprintf("replace member %d by a copy of member %d", i, j), mg, nil)
		if g2 != nil {
			mg = cloneGroup(g)
			mg.Txs[i] = txmut.CloneTx(g2.Txs[i])
			both("substitute-other-group", fmt.Sprintf("replace member %d by member %d of another valid group", i, i), mg, nil)
		}
	}
	if g2 != nil && n > 2 {
		k := r.Range(1, n-1)
		mg := cloneGroup(g)
		copy(mg.Txs[k:], cloneGroup(g2).Txs[k:])
		both("splice", fmt.Sprintf("members %d.. taken from another valid group", k), mg, nil)
	}
	// ---- every field of every member (raw and rebuilt; nobody re-signs honest members)
	for i := 0; i < n; i++ {
		muts := txmut.FieldMutations(r, g.Txs[i])
		// plus: the address-format bits of the signature type
		other := types.EncodeSignID(types.ExtractCryptoID(ms[i].ty), 2-types.ExtractAddressID(ms[i].ty))
		for _, mu := range muts {
			mg := cloneGroup(g)
			mg.Txs[i] = mu.Apply(g.Txs[i])
			st.fieldMutants++
			cls := "field:" + mu.Path + ":raw"
			if strings.HasPrefix(mu.Path, "signature.") { // driver-level: name the mutation and the driver
				cls = "field:" + mu.Path + ":" + mu.Kind + ":" + ms[i].signer.Name
			}
			try(cls, fmt.Sprintf("member %d field %s", i, mu), mg)
			if !strings.HasPrefix(mu.Path, "signature") {
				rb := cloneGroup(mg)
				rebuild(rb, nil)
				st.fieldMutants++
				try("field:"+mu.Path+":rebuilt", fmt.Sprintf("member %d field %s + attacker rebuild", i, mu), rb)
			}
		}
		mg := cloneGroup(g)
		mg.Txs[i].Signature.Ty = other
		st.fieldMutants++
		try("field:signature.ty:address-id", fmt.Sprintf("member %d signature.ty %d -> %d (address-format bits only)", i, ms[i].ty, other), mg)
	}
	// ---- fee rules, with every member signing the result honestly
	resign := func(fg *types.Transactions) {
		for i := range fg.Txs {
			fg.Txs[i].GroupCount = int32(n)
		}
		fg.RebuiltGroup()
		for i := range fg.Txs {
			fg.Txs[i].Sign(ms[i].ty, ms[i].signer.Priv)
		}
	}
	required := func(fg *types.Transactions) int64 {
		t := int64(0)
		for _, tx := range fg.Txs {
			t += int64(proto.Size(tx)/1000+1) * e.minFee
		}
		return t
	}
	fg := cloneGroup(g)
	for k := 0; k < 6; k++ {
		fg.Txs[0].Fee = required(fg) - 1
		resign(fg)
		if fg.Txs[0].Fee == required(fg)-1 {
			break
		}
	}
	if fg.Txs[0].Fee < required(fg) {
		st.feeCases++
		try("fee:first-below-required", fmt.Sprintf("first member's fee %d < required %d, all members re-signed", fg.Txs[0].Fee, required(fg)), fg)
		// boundary is tight (informational): exactly the required fee
		eq := cloneGroup(fg)
		for k := 0; k < 6 && eq.Txs[0].Fee != required(eq); k++ {
			eq.Txs[0].Fee = required(eq)
			resign(eq)
		}
		if eq.Txs[0].Fee == required(eq) && e.judge(eq, true).accepted() {
			st.feeBoundaryAccepted++
		}
	}
	if z := cloneGroup(g); true {
		z.Txs[0].Fee = 0
		resign(z)
		st.feeCases++
		try("fee:first-zero", "first member's fee 0, all members re-signed", z)
	}
	for i := 1; i < n; i++ {
		fg := cloneGroup(g)
		fg.Txs[i].Fee = lib.Pick(r, []int64{1, 100000, g.Txs[0].Fee})
		resign(fg)
		st.feeCases++
		try("fee:other-member-carries-fee", fmt.Sprintf("member %d carries fee %d, all members re-signed", i, fg.Txs[i].Fee), fg)
	}
	return
}

func run(c *lib.Ctx) {
	if p := os.Getenv("VERIF_PPROF"); p != "" { // development aid only
		f, _ := os.Create(p)
		pprof.StartCPUProfile(f)
		defer pprof.StopCPUProfile()
	}
	c.Rule("case i = one honest group (size cycles through 2,2,3,3,4,5,6,7,8,10,12,15,18,20; 30% parachain groups; members over 5 executors, payload sizes around the 1000-byte fee step, 5 expiry encodings, 1..n distinct signers over all keyed crypto drivers and two address formats) built by types.CreateTxGroup and signed per member; " +
		"exhaustive mutants per group: all pair swaps/reverse/rotate, drop each, every prefix/suffix, insert (duplicate / attacker tx fitted with groupCount n and n+1) at every position, substitute each member (fitted attacker tx / other member / member of another valid group), splice, every descriptor-enumerated field mutation of every member incl. signature sub-fields, fee rules with honest re-signing; structural and field mutants are also tried after an attacker rebuild (RebuiltGroup + re-sign of attacker-owned members only). " +
		"A mutant is accepted if Check==nil && CheckSign directly OR through the carrier form (group.Tx() encoded, decoded, TransactionCache.Check/CheckSign). " +
		"non-trivial = honest group accepted on both paths and the monitor saw mutants rejected by Check AND mutants that passed Check and were rejected only by CheckSign; fingerprint = member hashes")
	c.Assume("the attacker holds no member key: honest members are never re-signed; algebraic signature malleability (ECDSA s -> n-s) is not in the mutation alphabet",
		"block height 100 of the default 'local' configuration (all forks active), minFee = cfg.GetMinTxFeeRate(), maxFee = cfg.GetMaxTxFee(100)",
		"a panic inside Check/CheckSign on a mutant counts as a rejection (counted separately)")
	stdout := os.Stdout
	if dn, err := os.OpenFile(os.DevNull, os.O_WRONLY, 0); err == nil {
		os.Stdout = dn // the sm2 driver prints to stdout on malformed signatures
		defer func() { os.Stdout = stdout }()
	}
	cfg := types.NewChain33Config(types.GetDefaultCfgstring())
	e := &env{cfg: cfg, minFee: cfg.GetMinTxFeeRate(), maxFee: cfg.GetMaxTxFee(height)}
	for _, d := range txmut.KeyedDrivers() {
		// keep drivers whose honest signature verifies at this height in this configuration
		s := txmut.NewSigner(lib.NewRng(7), d)
		tx := &types.Transaction{Execer: []byte("coins"), Payload: []byte{0xff, 1, 2}, Nonce: 1}
		tx.Sign(s.Ty(0), s.Priv)
		if tx.CheckSign(height) {
			e.drivers = append(e.drivers, d)
		}
	}
	c.Extra("signing_drivers", e.drivers)
	c.Extra("transaction_fields_from_descriptor", txmut.TopLevelFields())
	if len(e.drivers) < 3 {
		c.Inconclusive("only %d usable crypto drivers: %v", len(e.drivers), e.drivers)
		return
	}
	n := c.N(56, 840)
	var mu sync.Mutex
	classes := map[string]int64{}
	lib.Parallel(n, runtime.NumCPU(), func(i int) {
		if c.Skip(i) {
			return
		}
		st, vs := e.runCase(c, i)
		mu.Lock()
		defer mu.Unlock()
		nontrivial := st.honestOK && st.byCheck > 0 && st.bySign > 0
		var sample any
		if i%30 == 0 {
			ds := []string{}
			for d := range st.drivers {
				ds = append(ds, d)
			}
			sort.Strings(ds)
			sample = map[string]any{"members": st.n, "para": st.para, "signer_drivers": ds, "mutants": st.mutants, "rejected_by_Check": st.byCheck, "rejected_only_by_CheckSign": st.bySign}
		}
		c.Case(st.fp, nontrivial, sample)
		c.Count("groups", 1)
		if st.honestOK {
			c.Count("honest_groups_accepted_both_paths", 1)
		}
		if st.para {
			c.Count("parachain_groups", 1)
		}
		c.Count("mutants_evaluated", st.mutants)
		c.Count("mutants_rejected_by_Check", st.byCheck)
		c.Count("mutants_passing_Check_rejected_by_CheckSign", st.bySign)
		c.Count("mutants_rejected_by_panic", st.byPanic)
		c.Count("mutants_also_judged_in_carrier_form", st.carrier)
		for _, p := range st.panics {
			c.Seen("panic_messages", p)
			if os.Getenv("VERIF_DEBUG") != "" {
				fmt.Fprintln(os.Stderr, "panic:", p)
			}
		}
		c.Count("structural_mutants", st.structMutants)
		c.Count("field_mutants", st.fieldMutants)
		c.Count("fee_rule_cases", st.feeCases)
		c.Count("rebuilt_mutants_identical_to_original_skipped", st.noTamper)
		c.Count("fee_exactly_required_accepted", st.feeBoundaryAccepted)
		c.Seen("group_sizes", fmt.Sprint(st.n))
		for d := range st.drivers {
			c.Seen("drivers_used", d)
		}
		for k, v := range st.perClass {
			classes[k] += v
			c.Seen("mutation_classes", k)
		}

		// one violation per shape and case
		seen := map[string]bool{}
		for _, v := range vs {
			if seen[v.shape] {
				c.Count("further_accepted_mutants_of_shapes_already_reported_for_the_group", 1)
				continue
			}
			seen[v.shape] = true
			c.Violation(i, v.shape, v.witness, "%s", v.msg)
		}
	})
	c.Extra("mutants_per_class", classes)
	c.RequireEvents("honest_groups_accepted_both_paths", int64(n)/2)
	c.RequireEvents("mutants_passing_Check_rejected_by_CheckSign", 1000)
	c.RequireEvents("mutants_rejected_by_Check", 1000)
}

func main() {
	clog.SetLogLevel("crit")
	lib.Main("C17", "exploration", run)
}

var _ = bytes.Equal
