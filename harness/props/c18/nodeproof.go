package main

// The real proof producer (blockchain/query_tx.go ProcQueryTxMsg -> getMultiLayerProofs) needs a running
// node: blocks with mixed main-chain / parachain transactions are built, executed and connected on an
// in-process node (child process), then every transaction's proof is fetched and folded back to the
// block's transaction root.

import (
	"bytes"
	"encoding/json"
	"fmt"
	"os"
	"path/filepath"
	"time"

	"github.com/33cn/chain33/common/merkle"
	"github.com/33cn/chain33/types"
	"github.com/33cn/chain33/util"
	"verifharness/lib"
	"verifharness/node"
)

type nodeIn struct {
	Seed   int64 `json:"seed"`
	Rep    int   `json:"rep"`
	Blocks int   `json:"blocks"`
}

type nodeOut struct {
	Blocks      int      `json:"blocks"`
	Txs         int      `json:"txs"`
	TwoLayer    int      `json:"two_layer_proofs"`
	SingleLayer int      `json:"single_layer_proofs"`
	Shapes      []string `json:"shapes"`
	Bad         []string `json:"bad"`
}

func nodeChild(in []byte) (any, error) {
	var ni nodeIn
	if err := json.Unmarshal(in, &ni); err != nil {
		return nil, err
	}
	c := &lib.Ctx{Prop: "C18", Seed: ni.Seed}
	r := c.CaseRng("node", ni.Rep)
	dir := filepath.Join(os.Getenv("VERIF_TMP"), "node")
	n := node.New(node.Options{DataDir: dir})
	defer n.Close()
	cfg := n.Cfg
	out := &nodeOut{}
	titles := []string{"user.p.alpha.", "user.p.beta.", "user.p.zeta."}
	mk := func(exec string) *types.Transaction {
		tx := util.CreateTxWithExecer(cfg, nil, exec)
		if tx == nil {
			panic("cannot create tx for " + exec)
		}
		tx.Nonce = r.Int63()
		tx.Payload = append([]byte("none"), r.Bytes(r.Range(0, 12))...)
		tx.Sign(types.SECP256K1, node.GenesisKey())
		return tx
	}
	parent := n.LastBlock()
	for b := 0; b < ni.Blocks; b++ {
		var txs []*types.Transaction
		kind := lib.Pick(r, []string{"mixed", "mixed", "mixed", "main-only", "one-para", "paras-only"})
		nm, nt := r.Range(1, 9), r.Range(1, len(titles))
		if kind == "one-para" || kind == "paras-only" {
			nm = 0
		}
		if kind == "main-only" {
			nt = 0
		}
		if kind == "one-para" {
			nt = 1
		}
		for i := 0; i < nm; i++ {
			txs = append(txs, mk("none"))
		}
		perm := r.Perm(len(titles))
		for t := 0; t < nt; t++ {
			for i, k := 0, r.Range(1, 7); i < k; i++ {
				txs = append(txs, mk(titles[perm[t]]+"none"))
			}
		}
		sh := make([]*types.Transaction, len(txs))
		for i, j := range r.Perm(len(txs)) {
			sh[i] = txs[j]
		}
		d, err := n.Build(parent, sh, 0x1f00ffff, 0)
		if err != nil {
			return nil, fmt.Errorf("build block %d: %v", b, err)
		}
		if err := n.Deliver(d.Block, false, "verif"); err != nil {
			return nil, fmt.Errorf("deliver block %d: %v", b, err)
		}
		for i := 0; i < 4000 && n.Chain.GetBlockHeight() < d.Block.Height; i++ {
			time.Sleep(5 * time.Millisecond)
		}
		if n.Chain.GetBlockHeight() < d.Block.Height {
			return nil, fmt.Errorf("block %d not connected", d.Block.Height)
		}
		blk := n.Block(d.Block.Height).Block
		out.Blocks++
		root := blk.TxHash
		segs := refSegments(blk.Txs)
		out.Shapes = append(out.Shapes, fmt.Sprintf("%s/%d-chains", kind, len(segs)))
		for i, tx := range blk.Txs {
			out.Txs++
			det, err := n.Chain.ProcQueryTxMsg(tx.Hash())
			if err != nil || det == nil {
				out.Bad = append(out.Bad, fmt.Sprintf("height %d tx %d (%s): ProcQueryTxMsg: %v", blk.Height, i, tx.Execer, err))
				continue
			}
			if len(det.TxProofs) == 0 {
				out.Bad = append(out.Bad, fmt.Sprintf("height %d tx %d (%s) of %d txs in %d child chains: no proof returned", blk.Height, i, tx.Execer, len(blk.Txs), len(segs)))
				continue
			}
			h := tx.FullHash()
			if !bytes.Equal(det.FullHash, h) {
				out.Bad = append(out.Bad, fmt.Sprintf("height %d tx %d: FullHash in the answer differs from the transaction's", blk.Height, i))
			}
			okp := true
			for k, p := range det.TxProofs {
				h = merkle.GetMerkleRootFromBranch(p.Proofs, h, p.Index)
				if len(p.RootHash) > 0 && !bytes.Equal(h, p.RootHash) {
					out.Bad = append(out.Bad, fmt.Sprintf("height %d tx %d (%s): layer %d of the proof folds to %x, stated child root %x", blk.Height, i, tx.Execer, k, h, p.RootHash))
					okp = false
					break
				}
			}
			if okp && !bytes.Equal(h, root) {
				out.Bad = append(out.Bad, fmt.Sprintf("height %d tx %d (%s) of %d txs in %d child chains: %d-layer proof folds to %x, block TxHash %x", blk.Height, i, tx.Execer, len(blk.Txs), len(segs), len(det.TxProofs), h, root))
			}
			if len(det.TxProofs) >= 2 {
				out.TwoLayer++
			} else {
				out.SingleLayer++
			}
		}
		parent = blk
	}
	return out, nil
}

func runNode(c *lib.Ctx, reps, blocks int) {
	lib.Parallel(reps, 4, func(rep int) {
		idx := 5000000 + rep
		if c.Skip(idx) {
			return
		}
		res := c.Child("node", nodeIn{Seed: c.Seed, Rep: rep, Blocks: blocks}, lib.ChildOpts{Timeout: 10 * time.Minute})
		if res.TimedOut {
			c.Inconclusive("node child %d timed out", rep)
			return
		}
		var out nodeOut
		if res.Died || json.Unmarshal(res.Out, &out) != nil {
			c.Inconclusive("node child %d failed: %s", rep, res.Stderr)
			return
		}
		c.Count("node_blocks", int64(out.Blocks))
		c.Count("node_tx_proofs", int64(out.Txs))
		c.Count("node_two_layer_proofs", int64(out.TwoLayer))
		c.Count("node_single_layer_proofs", int64(out.SingleLayer))
		for _, s := range out.Shapes {
			c.Seen("node_block_shapes", s)
		}
		for i, b := range out.Bad {
			if i < 3 {
				c.Violation(idx, "node-proof", map[string]any{"rep": rep, "problem": b}, "proof served by the node does not verify: %s", b)
			}
		}
	})
}

func init() { lib.RegisterChild("node", nodeChild) }
