// C18: the transaction root is consistent (parallel == sequential == reference), provable (every
// index's branch verifies; child-chain roots and proofs verify) and binding (equal roots only for
// identical lists or duplicated-tail relatives, which Computation flags as mutated).
//
// The real functions of common/merkle are executed for every leaf count of the tier and every worker
// count that changes the chunking (hook: merkle.VerifSetWorkers, build tag verif) and compared with an
// independent duplicate-last reference built on crypto/sha256. The chunking actually used is MEASURED from
// the way GetMerkleRoot overwrites the slice it is given (first untouched position = half a chunk).
package main

import (
	"bytes"
	"crypto/sha256"
	"encoding/json"
	"fmt"
	"runtime"
	"sort"
	"sync"
	"time"

	"github.com/33cn/chain33/common/merkle"
	"github.com/33cn/chain33/types"
	"verifharness/lib"
)

// ---------------------------------------------------------------------------------------------
// reference

func dsha(l, r []byte) []byte {
	var b [64]byte
	copy(b[:], l)
	copy(b[32:], r)
	h := sha256.Sum256(b[:])
	h = sha256.Sum256(h[:])
	return h[:]
}

// refRoot: root of the duplicate-last merkle tree.
func refRoot(leaves [][]byte) []byte {
	lvl := append([][]byte(nil), leaves...)
	for len(lvl) > 1 {
		if len(lvl)%2 == 1 {
			lvl = append(lvl, lvl[len(lvl)-1])
		}
		next := make([][]byte, 0, len(lvl)/2)
		for i := 0; i < len(lvl); i += 2 {
			next = append(next, dsha(lvl[i], lvl[i+1]))
		}
		lvl = next
	}
	if len(lvl) == 0 {
		return nil
	}
	return lvl[0]
}

func refDepth(n int) int {
	d := 0
	for n > 1 {
		n = (n + 1) / 2
		d++
	}
	return d
}

func cp(l [][]byte) [][]byte { return append(make([][]byte, 0, len(l)), l...) }

// ---------------------------------------------------------------------------------------------
// leaves

type pool struct{ leaves [][]byte }

func newPool(c *lib.Ctx, n int) *pool {
	p := &pool{leaves: make([][]byte, n)}
	var seed [16]byte
	copy(seed[:], c.CaseRng("pool", 0).Bytes(16))
	for i := range p.leaves {
		h := sha256.Sum256(append(seed[:], byte(i), byte(i>>8), byte(i>>16), byte(i>>24)))
		p.leaves[i] = h[:]
	}
	return p
}

// window returns n distinct leaves (a window of the pool chosen per n).
func (p *pool) window(c *lib.Ctx, n int) [][]byte {
	off := c.CaseRng("window", n).Intn(len(p.leaves) - n + 1)
	return p.leaves[off : off+n : off+n]
}

// measuredStep: GetMerkleRoot overwrites the first half of every chunk it hashes; the first position it
// leaves untouched is half the chunk size (or half the list when the sequential algorithm ran).
func measuredStep(orig, after [][]byte) int {
	for i := range orig {
		if i >= len(after) {
			break
		}
		if &orig[i][0] == &after[i][0] {
			if i == 0 { // nothing was hashed in place (single leaf)
				break
			}
			return 2 * i
		}
	}
	return 2 * len(orig)
}

// candidate worker counts for leaf count n (which of them run is decided per tier)
func boundaryWorkers(n int) map[int]bool {
	m := map[int]bool{}
	for k := 0; k <= 10; k++ {
		for d := -1; d <= 1; d++ {
			if w := (n >> k) + d; w >= 2 {
				m[w] = true
			}
		}
	}
	return m
}

// ---------------------------------------------------------------------------------------------

func runRoots(c *lib.Ctx, p *pool, maxN int) {
	type per struct {
		leaves [][]byte
		ref    []byte
		ws     map[int]bool
	}
	cases := make([]*per, maxN+1)
	cpus := runtime.NumCPU()
	lib.Parallel(maxN, cpus, func(k int) {
		n := k + 1
		if c.Skip(n) {
			return
		}
		pr := &per{leaves: p.window(c, n)}
		pr.ref = refRoot(pr.leaves)
		// constant-space computation and explicit sequential path
		root, mutated, _ := merkle.Computation(cp(pr.leaves), 1, 0)
		if !bytes.Equal(root, pr.ref) {
			c.Violation(n, "root-mismatch/computation", map[string]any{"n": n}, "Computation root for n=%d is %x, reference %x", n, root, pr.ref)
		}
		if mutated {
			c.Violation(n, "mutated-on-distinct-leaves", map[string]any{"n": n}, "Computation flags %d pairwise distinct leaves as mutated", n)
		}
		ws := map[int]bool{1: true, 2: true, 3: true, 16: true, cpus: true}
		if n > 80 {
			for w := range boundaryWorkers(n) {
				ws[w] = true
			}
			r := c.CaseRng("workers", n)
			for i := 0; i < 3; i++ {
				ws[r.Range(2, n)] = true
			}
			if !c.Quick() {
				for w := 1; w <= 384; w++ {
					ws[w] = true
				}
			}
		}
		pr.ws = ws
		cases[n] = pr
	})
	maxW := 0
	for _, pr := range cases {
		if pr == nil {
			continue
		}
		for w := range pr.ws {
			if w > maxW {
				maxW = w
			}
		}
	}
	defer merkle.VerifSetWorkers(0)
	for w := 1; w <= maxW; w++ {
		var todo []int
		for n := 1; n <= maxN; n++ {
			if cases[n] != nil && cases[n].ws[w] {
				todo = append(todo, n)
			}
		}
		if len(todo) == 0 {
			continue
		}
		merkle.VerifSetWorkers(w)
		lib.Parallel(len(todo), cpus, func(k int) {
			n := todo[k]
			pr := cases[n]
			in := cp(pr.leaves)
			got := merkle.GetMerkleRoot(in)
			step := measuredStep(pr.leaves, in)
			c.Count("root_computations", 1)
			parallel := step < n
			if parallel {
				c.Count("parallel_path", 1)
				pad := "full"
				if n%step != 0 {
					pad = "padded"
					c.Count("parallel_padded_last_chunk", 1)
				}
				c.Seen("chunkings", fmt.Sprintf("%d/%d", n, step))
				c.Seen("chunk_sizes", fmt.Sprintf("%d-%s", step, pad))
			}
			c.Case(fmt.Sprintf("n%d/step%d", n, step), parallel, map[string]any{"n": n, "workers": w, "measured_chunk": step, "root": lib.Hex(got)})
			if !bytes.Equal(got, pr.ref) {
				c.Violation(n, "root-mismatch/parallel", map[string]any{"n": n, "workers": w, "measured_chunk": step},
					"GetMerkleRoot with %d workers over %d leaves (measured chunk %d) = %x, sequential/reference root %x", w, n, step, got, pr.ref)
			}
		})
	}
}

// branchIndexes: all positions, or (large n, thorough) the positions next to every odd-sized level plus a sample.
func branchIndexes(c *lib.Ctx, n int, all bool) []int {
	if all {
		idx := make([]int, n)
		for i := range idx {
			idx[i] = i
		}
		return idx
	}
	set := map[int]bool{0: true, 1: true, 2: true, n - 1: true, n - 2: true, n - 3: true, n / 2: true}
	for k, cnt := 0, n; cnt > 1; k, cnt = k+1, (cnt+1)/2 {
		first := (cnt - 1) << k // first leaf under the last node of level k
		for d := -1; d <= 1; d++ {
			set[first+d] = true
		}
	}
	r := c.CaseRng("branchidx", n)
	for i := 0; i < 24; i++ {
		set[r.Intn(n)] = true
	}
	var idx []int
	for i := range set {
		if i >= 0 && i < n {
			idx = append(idx, i)
		}
	}
	sort.Ints(idx)
	return idx
}

func runBranches(c *lib.Ctx, p *pool, maxN, allUpTo int) {
	lib.Parallel(maxN, runtime.NumCPU(), func(k int) {
		n := k + 1
		if c.Skip(1000000 + n) {
			return
		}
		leaves := p.window(c, n)
		ref := refRoot(leaves)
		depth := refDepth(n)
		bad := 0
		for _, i := range branchIndexes(c, n, n <= allUpTo) {
			br := merkle.GetMerkleBranch(cp(leaves), uint32(i))
			got := merkle.GetMerkleRootFromBranch(br, leaves[i], uint32(i))
			c.Count("branches_verified", 1)
			if !bytes.Equal(got, ref) || len(br) != depth {
				if bad++; bad <= 2 {
					c.Violation(1000000+n, "branch-not-verifying", map[string]any{"n": n, "index": i, "branch_len": len(br)},
						"branch of index %d in %d leaves (len %d, tree depth %d) folds to %x, root is %x", i, n, len(br), depth, got, ref)
				}
				continue
			}
			// a different leaf must not verify with the same branch (binding of the proof)
			if n > 1 {
				other := leaves[(i+1)%n]
				if bytes.Equal(merkle.GetMerkleRootFromBranch(br, other, uint32(i)), ref) {
					c.Violation(1000000+n, "branch-accepts-other-leaf", map[string]any{"n": n, "index": i}, "branch of index %d in %d leaves also verifies leaf %d", i, n, (i+1)%n)
				}
			}
			if i == n-1 || i == 0 {
				root2, br2 := merkle.GetMerkleRootAndBranch(cp(leaves), uint32(i))
				if !bytes.Equal(root2, ref) || len(br2) != len(br) {
					c.Violation(1000000+n, "root-and-branch", map[string]any{"n": n, "index": i}, "GetMerkleRootAndBranch(n=%d,i=%d) root %x (reference %x), branch len %d vs %d", n, i, root2, ref, len(br2), len(br))
				}
			}
		}
		c.Seen("branch_leaf_counts", fmt.Sprint(n))
	})
}

// dupTailRelatives: lists with the same root as base, obtained by repeatedly appending a copy of the last
// complete node of a level whose node count is odd (>= 3).
func dupTailRelatives(base [][]byte, r *lib.Rng, max, maxLen int) (out [][][]byte, desc []string) {
	type st struct {
		l [][]byte
		d string
	}
	queue := []st{{base, ""}}
	for len(queue) > 0 && len(out) < max {
		cur := queue[0]
		queue = queue[1:]
		n := len(cur.l)
		var opts []int
		for k, cnt := 0, n; cnt >= 3; k, cnt = k+1, (cnt+1)/2 {
			if cnt%2 == 1 && n%(1<<k) == 0 {
				opts = append(opts, k)
			}
		}
		for _, pi := range r.Perm(len(opts)) {
			k := opts[pi]
			if n+(1<<k) > maxLen {
				continue
			}
			nl := append(cp(cur.l), cur.l[n-(1<<k):]...)
			d := cur.d + fmt.Sprintf("+dup(last %d)", 1<<k)
			out = append(out, nl)
			desc = append(desc, d)
			queue = append(queue, st{nl, d})
			if len(out) >= max {
				break
			}
		}
	}
	return
}

func listID(l [][]byte) string {
	h := sha256.New()
	for _, x := range l {
		h.Write(x)
	}
	return fmt.Sprintf("%d:%x", len(l), h.Sum(nil)[:12])
}

func runBinding(c *lib.Ctx, p *pool, maxN int) {
	var mu sync.Mutex
	roots := map[string]string{} // root -> family id (base list id)
	record := func(idx int, root []byte, family, what string) {
		mu.Lock()
		defer mu.Unlock()
		c.Count("lists_in_collision_table", 1)
		if prev, ok := roots[string(root)]; ok && prev != family {
			c.Violation(idx, "collision", map[string]any{"root": lib.Hex(root), "a": prev, "b": family, "what": what},
				"two unrelated lists share root %x: %s and %s (%s)", root, prev, family, what)
			return
		}
		roots[string(root)] = family
	}
	ws := []int{1, 2, 16, 64, 1024}
	var wmu sync.Mutex // VerifSetWorkers is process-global
	lib.Parallel(maxN, runtime.NumCPU(), func(k int) {
		n := k + 1
		idx := 2000000 + n
		if c.Skip(idx) {
			return
		}
		r := c.CaseRng("binding", n)
		base := p.window(c, n)
		fam := listID(base)
		root, mutated, _ := merkle.Computation(cp(base), 1, 0)
		if mutated {
			c.Violation(idx, "mutated-on-distinct-leaves", map[string]any{"n": n}, "distinct leaves flagged mutated (n=%d)", n)
		}
		record(idx, root, fam, "base")
		rel, desc := dupTailRelatives(base, r, 6, 2*maxN+64)
		for j, l := range rel {
			rr, mut, _ := merkle.Computation(cp(l), 1, 0)
			c.Count("dup_tail_lists", 1)
			if !bytes.Equal(rr, root) {
				c.Violation(idx, "dup-tail-root-differs", map[string]any{"n": n, "pattern": desc[j]}, "duplicated-tail relative %s of %d leaves has root %x, base %x (generator or Computation wrong)", desc[j], n, rr, root)
				continue
			}
			c.Count("dup_tail_collisions_observed", 1)
			if !mut {
				c.Violation(idx, "dup-tail-not-flagged", map[string]any{"n": n, "pattern": desc[j], "len": len(l)},
					"list of %d leaves = %d distinct leaves %s has the base list's root %x but Computation does not flag it as mutated", len(l), n, desc[j], root)
			}
			c.Case("dup:"+fmt.Sprint(n)+desc[j], true, map[string]any{"base_leaves": n, "pattern": desc[j], "len": len(l), "mutated": mut})
			// the parallel calculator must agree on the relative as well
			w := ws[(n+j)%len(ws)]
			wmu.Lock()
			merkle.VerifSetWorkers(w)
			pr := merkle.GetMerkleRoot(cp(l))
			merkle.VerifSetWorkers(0)
			wmu.Unlock()
			if !bytes.Equal(pr, root) {
				c.Violation(idx, "root-mismatch/parallel", map[string]any{"n": len(l), "workers": w, "dup_tail_of": n}, "GetMerkleRoot(%d workers) over the %d-leaf relative %s = %x, Computation %x", w, len(l), desc[j], pr, root)
			}
			record(idx, rr, fam, desc[j])
		}
		// near misses: must NOT collide with the base
		var near [][][]byte
		var what []string
		add := func(l [][]byte, s string) { near = append(near, l); what = append(what, s) }
		add(append(cp(base), base[n-1]), "append-last-leaf")
		if n >= 2 {
			add(append(cp(base), base[n-2], base[n-1]), "append-last-two")
			sw := cp(base)
			i, j := r.Intn(n), r.Intn(n)
			if i != j {
				sw[i], sw[j] = sw[j], sw[i]
				add(sw, fmt.Sprintf("swap(%d,%d)", i, j))
			}
			add(cp(base[:n-1]), "drop-last")
			add(append(cp(base[:n-1]), base[n-2]), "last:=previous")
		}
		ch := cp(base)
		ch[r.Intn(n)] = p.leaves[(r.Intn(len(p.leaves)))]
		add(ch, "one-leaf-replaced")
		add(append(cp(base), base...), "whole-list-twice")
		for j, l := range near {
			rr, mut, _ := merkle.Computation(cp(l), 1, 0)
			canon := canonical(l)
			id := listID(canon)
			if len(canon) != len(l) {
				// the near miss is itself a duplicated-tail relative (of the base or of another list): same root as its
				// canonical form, and flagged
				c.Count("near_miss_is_dup_tail", 1)
				cr, _, _ := merkle.Computation(cp(canon), 1, 0)
				if !bytes.Equal(cr, rr) {
					c.Violation(idx, "dup-tail-root-differs", map[string]any{"n": n, "pattern": what[j]}, "%s of %d leaves: root %x, root of its de-duplicated form (%d leaves) %x", what[j], n, rr, len(canon), cr)
				}
				if !mut {
					c.Violation(idx, "dup-tail-not-flagged", map[string]any{"n": n, "pattern": what[j]}, "%s of %d leaves is a duplicated-tail relative of a %d-leaf list and is not flagged mutated", what[j], n, len(canon))
				}
			} else {
				c.Count("near_miss_lists", 1)
			}
			if id != fam && bytes.Equal(rr, root) {
				c.Violation(idx, "collision", map[string]any{"n": n, "pattern": what[j]}, "%s of %d leaves has the base root %x but is no duplicated-tail relative of the base", what[j], n, root)
				continue
			}
			record(idx, rr, id, what[j])
		}
	})
	c.Extra("collision_table_roots", len(roots))
}

// canonical strips duplicated complete last nodes (a level with an even node count >= 4 whose last two nodes are
// equal) until none is left: all duplicated-tail relatives of a list reduce to the same list.
func canonical(l [][]byte) [][]byte {
	for {
		n := len(l)
		done := false
		for k := 0; (4 << k) <= n; k++ {
			s := 1 << k
			if n%s != 0 || (n/s)%2 != 0 {
				continue
			}
			eq := true
			for i := 0; i < s && eq; i++ {
				eq = bytes.Equal(l[n-s+i], l[n-2*s+i])
			}
			if eq {
				l = l[:n-s]
				done = true
				break
			}
		}
		if !done {
			return l
		}
	}
}

// ---------------------------------------------------------------------------------------------
// multi-layer (main chain + parachain transactions)

type seg struct {
	Title string
	Start int
	Count int
}

// refSegments: a main-chain segment exists only when the first tx is a main-chain tx; every parachain tx whose
// title differs from the current parachain title opens a new segment (main txs after that stay in the open one).
func refSegments(txs []*types.Transaction) []seg {
	var segs []seg
	cur := ""
	for i, tx := range txs {
		title, para := types.GetParaExecTitleName(string(tx.Execer))
		if !para && i == 0 {
			segs = append(segs, seg{Title: types.MainChainName, Start: 0})
		} else if para && title != cur {
			cur = title
			segs = append(segs, seg{Title: title, Start: i})
		}
	}
	for i := range segs {
		end := len(txs)
		if i+1 < len(segs) {
			end = segs[i+1].Start
		}
		segs[i].Count = end - segs[i].Start
	}
	return segs
}

var (
	cfgOnce sync.Once
	cfg     *types.Chain33Config
)

func chainCfg() *types.Chain33Config {
	cfgOnce.Do(func() {
		cfg = types.NewChain33Config(types.GetDefaultCfgstring())
		cfg.SetFork("ForkRootHash", 10)
	})
	return cfg
}

func genTxs(r *lib.Rng) (txs []*types.Transaction, kind string) {
	mk := func(exec string) *types.Transaction {
		tx := &types.Transaction{Execer: []byte(exec), Payload: r.Bytes(r.Range(0, 40)), Fee: int64(r.Intn(1000000)), Nonce: r.Int63(), To: "1" + lib.Hex(r.Bytes(8))}
		if r.Chance(70) {
			tx.Signature = &types.Signature{Ty: 1, Pubkey: r.Bytes(33), Signature: r.Bytes(64)}
		}
		return tx
	}
	titles := []string{"user.p.alpha.", "user.p.beta.", "user.p.a.", "user.p.zeta.", "user.p.game."}
	mainExecs := []string{"coins", "none", "manage", "user.write", "ticket"}
	big := r.Chance(25)
	size := func() int {
		if big {
			return r.Range(60, 260)
		}
		return r.Range(1, 24)
	}
	kind = lib.Pick(r, []string{"sorted-mixed", "sorted-mixed", "sorted-mixed", "main-only", "one-para-only", "paras-only", "para-first-unsorted", "title-recurs", "main-interleaved"})
	var mains, paras []*types.Transaction
	nm := size()
	for i := 0; i < nm; i++ {
		mains = append(mains, mk(lib.Pick(r, mainExecs)))
	}
	nt := r.Range(1, len(titles))
	perm := r.Perm(len(titles))
	var groups [][]*types.Transaction
	for t := 0; t < nt; t++ {
		var g []*types.Transaction
		np := size()
		for i := 0; i < np; i++ {
			g = append(g, mk(titles[perm[t]]+lib.Pick(r, []string{"coins", "none", "token"})))
		}
		groups = append(groups, g)
		paras = append(paras, g...)
	}
	switch kind {
	case "sorted-mixed":
		all := append(append([]*types.Transaction{}, mains...), paras...)
		sh := make([]*types.Transaction, len(all))
		for i, j := range r.Perm(len(all)) {
			sh[i] = all[j]
		}
		txs = types.TransactionSort(sh)
	case "main-only":
		txs = mains
	case "one-para-only":
		txs = groups[0]
	case "paras-only":
		txs = types.TransactionSort(paras)
	case "para-first-unsorted":
		txs = append(append([]*types.Transaction{}, paras...), mains...)
	case "title-recurs":
		txs = append(append(append([]*types.Transaction{}, mains...), paras...), groups[0]...)
		extra := mk(string(groups[0][0].Execer))
		txs = append(txs, extra)
	default: // main txs scattered between parachain groups
		for _, g := range groups {
			txs = append(txs, g...)
			if len(mains) > 0 {
				txs = append(txs, mains[0])
				mains = mains[1:]
			}
		}
		txs = append(mains, txs...)
	}
	return
}

func runMulti(c *lib.Ctx, n int) {
	cfg := chainCfg()
	zero := make([]byte, 32)
	if root := merkle.CalcMerkleRoot(cfg, 20, nil); !bytes.Equal(root, zero) {
		c.Violation(3000000, "multilayer-empty", nil, "CalcMerkleRoot of an empty block = %x", root)
	}
	lib.Parallel(n, runtime.NumCPU(), func(i int) {
		idx := 3000000 + i
		if c.Skip(idx) {
			return
		}
		r := c.CaseRng("multi", i)
		txs, kind := genTxs(r)
		full := make([][]byte, len(txs))
		short := make([][]byte, len(txs))
		for k, tx := range txs {
			full[k] = tx.FullHash()
			short[k] = tx.Hash()
		}
		wit := map[string]any{"kind": kind, "txs": len(txs)}
		execs := make([]string, len(txs))
		for k, tx := range txs {
			execs[k] = string(tx.Execer)
		}
		wit["execers"] = execs
		// before the fork: single layer over the short hashes, no child info
		pre := merkle.CalcMerkleRoot(cfg, 9, txs)
		if want := refRoot(short); !bytes.Equal(pre, want) {
			c.Violation(idx, "prefork-root", wit, "CalcMerkleRoot before ForkRootHash = %x, reference over tx hashes %x", pre, want)
		}
		if cr := merkle.CalcMerkleRootCache(types.TxsToCache(txs)); !bytes.Equal(cr, refRoot(short)) {
			c.Violation(idx, "prefork-root", wit, "CalcMerkleRootCache = %x, reference %x", cr, refRoot(short))
		}
		if rt, ch := merkle.CalcMultiLayerMerkleInfo(cfg, 9, txs); rt != nil || ch != nil {
			c.Violation(idx, "prefork-childinfo", wit, "CalcMultiLayerMerkleInfo before the fork returns data")
		}
		root, children := merkle.CalcMultiLayerMerkleInfo(cfg, 10, txs)
		if r2 := merkle.CalcMerkleRoot(cfg, 10, txs); !bytes.Equal(r2, root) {
			c.Violation(idx, "multilayer-root", wit, "CalcMerkleRoot %x != CalcMultiLayerMerkleInfo root %x", r2, root)
		}
		segs := refSegments(txs)
		c.Count("multilayer_blocks", 1)
		c.Count("multilayer_child_chains", int64(len(children)))
		if len(segs) != len(children) {
			c.Violation(idx, "multilayer-segments", wit, "%d child chains reported, reference segmentation has %d: %s", len(children), len(segs), lib.JSON(segs))
			return
		}
		var childHashes [][]byte
		for k, ch := range children {
			s := segs[k]
			if ch.Title != s.Title || int(ch.StartIndex) != s.Start || int(ch.TxCount) != s.Count {
				c.Violation(idx, "multilayer-segments", wit, "child %d = (%s,start %d,count %d), reference (%s,%d,%d)", k, ch.Title, ch.StartIndex, ch.TxCount, s.Title, s.Start, s.Count)
				return
			}
			if want := refRoot(full[s.Start : s.Start+s.Count]); !bytes.Equal(ch.ChildHash, want) {
				c.Violation(idx, "multilayer-child-root", wit, "child chain %s (txs %d..%d) root %x, reference %x", ch.Title, s.Start, s.Start+s.Count-1, ch.ChildHash, want)
				return
			}
			childHashes = append(childHashes, ch.ChildHash)
		}
		want := childHashes[0]
		if len(childHashes) > 1 {
			want = refRoot(childHashes)
		}
		if !bytes.Equal(root, want) {
			c.Violation(idx, "multilayer-root", wit, "block root %x, reference over %d child roots %x", root, len(childHashes), want)
			return
		}
		// proofs, built the way blockchain/query_tx.go getMultiLayerProofs builds them
		for k, ch := range children {
			s := segs[k]
			leaves := full[s.Start : s.Start+s.Count]
			var childBranch [][]byte
			if len(children) > 1 {
				childBranch = merkle.GetMerkleBranch(cp(childHashes), uint32(k))
				if got := merkle.GetMerkleRootFromBranch(childBranch, ch.ChildHash, uint32(k)); !bytes.Equal(got, root) {
					c.Violation(idx, "multilayer-proof", wit, "child chain %d (%s) proof folds to %x, block root %x", k, ch.Title, got, root)
					return
				}
				c.Count("child_chain_proofs", 1)
			}
			for t := 0; t < s.Count; t++ {
				br := merkle.GetMerkleBranch(cp(leaves), uint32(t))
				got := merkle.GetMerkleRootFromBranch(br, leaves[t], uint32(t))
				if !bytes.Equal(got, ch.ChildHash) {
					c.Violation(idx, "multilayer-proof", wit, "tx %d of child chain %s: branch folds to %x, child root %x", t, ch.Title, got, ch.ChildHash)
					return
				}
				if len(children) > 1 {
					got = merkle.GetMerkleRootFromBranch(childBranch, got, uint32(k))
				}
				if !bytes.Equal(got, root) {
					c.Violation(idx, "multilayer-proof", wit, "tx %d of child chain %s: two-layer proof folds to %x, block root %x", t, ch.Title, got, root)
					return
				}
				c.Count("tx_proofs", 1)
			}
		}
		maxChild := 0
		for _, s := range segs {
			if s.Count > maxChild {
				maxChild = s.Count
			}
		}
		c.Seen("multilayer_shapes", fmt.Sprintf("%s/%d-chains/par=%v", kind, len(children), maxChild > 80))
		c.Case(lib.Fingerprint(execs), len(children) >= 2, map[string]any{"kind": kind, "txs": len(txs), "child_chains": lib.JSON(segs), "root": lib.Hex(root)})
	})
}

// ---------------------------------------------------------------------------------------------
// race child: the parallel paths (chunk goroutines, per-chain goroutines) under the race detector, several callers at once

type raceIn struct {
	Seed int64 `json:"seed"`
	Rep  int   `json:"rep"`
	MaxN int   `json:"max_n"`
}
type raceOut struct {
	Roots      int      `json:"roots"`
	Multi      int      `json:"multi"`
	Mismatches []string `json:"mismatches"`
}

func raceChild(in []byte) (any, error) {
	var ri raceIn
	if err := json.Unmarshal(in, &ri); err != nil {
		return nil, err
	}
	c := &lib.Ctx{Prop: "C18", Seed: ri.Seed}
	p := newPool(c, 2*ri.MaxN)
	out := &raceOut{}
	var mu sync.Mutex
	r := c.CaseRng("race", ri.Rep)
	for _, w := range []int{2, 3, 5, 16, 64, 300} {
		merkle.VerifSetWorkers(w)
		var ns []int
		for i := 0; i < 24; i++ {
			ns = append(ns, r.Range(81, ri.MaxN))
		}
		lib.Parallel(len(ns), 8, func(k int) {
			leaves := p.window(c, ns[k])
			got := merkle.GetMerkleRoot(cp(leaves))
			mu.Lock()
			out.Roots++
			if !bytes.Equal(got, refRoot(leaves)) {
				out.Mismatches = append(out.Mismatches, fmt.Sprintf("n=%d workers=%d", ns[k], w))
			}
			mu.Unlock()
		})
	}
	merkle.VerifSetWorkers(0)
	cfg := chainCfg()
	lib.Parallel(40, 8, func(i int) {
		txs, _ := genTxs(c.CaseRng("race-multi", ri.Rep*1000+i))
		root, ch := merkle.CalcMultiLayerMerkleInfo(cfg, 10, txs)
		var hs [][]byte
		for _, x := range ch {
			hs = append(hs, x.ChildHash)
		}
		want := hs[0]
		if len(hs) > 1 {
			want = refRoot(hs)
		}
		mu.Lock()
		out.Multi++
		if !bytes.Equal(root, want) {
			out.Mismatches = append(out.Mismatches, fmt.Sprintf("multi case %d", i))
		}
		mu.Unlock()
	})
	return out, nil
}

func runRace(c *lib.Ctx, reps, maxN int) {
	for rep := 0; rep < reps; rep++ {
		idx := 4000000 + rep
		if c.Skip(idx) {
			continue
		}
		res := c.Child("race", raceIn{Seed: c.Seed, Rep: rep, MaxN: maxN}, lib.ChildOpts{Race: true, Timeout: 10 * time.Minute})
		if res.TimedOut {
			c.Inconclusive("race child %d timed out", rep)
			continue
		}
		if res.Died {
			c.Violation(idx, "race-child-died", map[string]any{"stderr": res.Stderr}, "parallel merkle workload died under -race: %s", res.Stderr)
			continue
		}
		var out raceOut
		json.Unmarshal(res.Out, &out)
		c.Count("race_root_computations", int64(out.Roots))
		c.Count("race_multilayer_blocks", int64(out.Multi))
		for _, m := range out.Mismatches {
			c.Violation(idx, "root-mismatch/parallel", map[string]any{"where": m}, "under -race: root mismatch %s", m)
		}
		reports := lib.ParseRaceLogs(res.RaceLogs)
		deciding, other := lib.RaceVerdict(reports, []string{"/common/merkle/"})
		c.Count("race_reports_deciding", int64(len(deciding)))
		c.Count("race_reports_elsewhere", int64(len(other)))
		keys := make([]string, 0, len(deciding))
		for k := range deciding {
			keys = append(keys, k)
		}
		sort.Strings(keys)
		for _, k := range keys {
			c.Violation(idx, "race:"+k, map[string]any{"report": deciding[k]}, "data race inside common/merkle: %s\n%s", k, deciding[k])
		}
	}
}

func run(c *lib.Ctx) {
	c.Rule("for every leaf count n of the tier (quick 1..600, thorough 1..4096; pairwise distinct leaves) GetMerkleRoot runs with worker counts 1,2,3,16,NumCPU, every count n>>k (+-1) at which the chunk size changes, " +
		"3 random ones and (thorough) all of 1..384; result compared with Computation and a duplicate-last reference on crypto/sha256; the chunk size in effect is measured from the overwritten prefix of the input slice; " +
		"distinct_nontrivial counts distinct (n, measured chunk) pairs on the parallel path, duplicated-tail relatives that were observed to collide with their base, and multi-chain blocks with >=2 child chains; " +
		"every index's branch (thorough: every index up to n=2048, above that the positions around every odd-sized level + 24 random) is folded back to the root; duplicated-tail relatives up to 3 steps must collide AND be flagged, " +
		"near misses and all other lists must have pairwise different roots; multi-chain blocks: segmentation, child roots, block root, every tx's two-layer proof; the parallel paths also run under -race with 8 concurrent callers; blocks with mixed main/parachain transactions are connected on an in-process node and every transaction's proof from ProcQueryTxMsg is folded to the block's TxHash")
	c.Assume("SHA-256 collisions do not occur (a reported collision between unrelated lists is taken as a defect of the tree construction)",
		"the bulk of the multi-chain proofs is built the way getMultiLayerProofs builds them (GetMerkleBranch over the child's full hashes, then over the child roots) on CalcMultiLayerMerkleInfo's output; the real ProcQueryTxMsg/getMultiLayerProofs path is driven on an in-process node for a smaller number of blocks")
	maxN := 600
	allUpTo := 600
	if !c.Quick() {
		maxN, allUpTo = 4096, 2048
	}
	if s := c.N(100, 100); s != 100 { // VERIF_SCALE shrinks the leaf-count range
		maxN = maxN * s / 100
	}
	p := newPool(c, 2*maxN+200)
	only := c.OnlyIdx
	if only < 0 || only < 1000000 {
		runRoots(c, p, maxN)
	}
	if only < 0 || (only >= 1000000 && only < 2000000) {
		runBranches(c, p, maxN, allUpTo)
	}
	if only < 0 || (only >= 2000000 && only < 3000000) {
		runBinding(c, p, maxN)
	}
	if only < 0 || (only >= 3000000 && only < 4000000) {
		runMulti(c, c.N(600, 20000))
	}
	if only < 0 || (only >= 4000000 && only < 5000000) {
		runRace(c, c.N(2, 6), maxN)
	}
	if only < 0 || (only >= 5000000 && only < 6000000) {
		runNode(c, c.N(2, 12), c.N(6, 12))
	}
	if only < 0 || only >= 6000000 {
		runLargeRoots(c, c.N(40, 600))
	}
	c.RequireEvents("root_computations", 5000)
	c.RequireEvents("parallel_path", 2000)
	c.RequireEvents("parallel_padded_last_chunk", 500)
	c.RequireEvents("branches_verified", 50000)
	c.RequireEvents("dup_tail_collisions_observed", 500)
	c.RequireEvents("tx_proofs", 5000)
	c.RequireEvents("race_root_computations", 100)
	c.RequireEvents("node_two_layer_proofs", 20)
}

// runLargeRoots: leaf counts far above the dense range with FEW workers, where the chunk size hits its cap (256) and the
// chunk level and the chunk size part ways: a sparse PRNG-determined sample, every worker count 1..8 and 16.
func runLargeRoots(c *lib.Ctx, cases int) {
	defer merkle.VerifSetWorkers(0)
	for k := 0; k < cases; k++ {
		idx := 6000000 + k
		if c.Skip(idx) {
			continue
		}
		r := c.CaseRng("large", k)
		n := r.Range(601, 24000)
		if k%4 == 0 {
			n = (r.Range(3, 90) << 8) + r.Range(1, 255) // never a multiple of the chunk cap
		}
		leaves := make([][]byte, n)
		for i := range leaves {
			h := sha256.Sum256([]byte(fmt.Sprintf("large-%d-%d-%d", c.Seed, k, i)))
			leaves[i] = h[:]
		}
		ref := refRoot(leaves)
		for _, w := range []int{1, 2, 3, 4, 5, 6, 7, 8, 16} {
			merkle.VerifSetWorkers(w)
			in := cp(leaves)
			got := merkle.GetMerkleRoot(in)
			step := measuredStep(leaves, in)
			c.Count("root_computations", 1)
			c.Count("large_root_computations", 1)
			if step < n {
				c.Count("parallel_path", 1)
				if n%step != 0 {
					c.Count("parallel_padded_last_chunk", 1)
				}
				c.Seen("chunkings", fmt.Sprintf("%d/%d", n, step))
			}
			c.Case(fmt.Sprintf("n%d/step%d", n, step), step < n, nil)
			if !bytes.Equal(got, ref) {
				c.Violation(idx, "root-mismatch/parallel", map[string]any{"n": n, "workers": w, "measured_chunk": step},
					"GetMerkleRoot with %d workers over %d leaves (measured chunk %d) = %x, sequential/reference root %x", w, n, step, got, ref)
			}
		}
	}
}

func init() { lib.RegisterChild("race", raceChild) }

func main() { lib.Main("C18", "exploration", run) }
