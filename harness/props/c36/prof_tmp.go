package main

import (
	"os"
	"runtime/pprof"
)

func init() {
	if p := os.Getenv("C36_PROF"); p != "" {
		f, _ := os.Create(p)
		pprof.StartCPUProfile(f)
		stopProf = func() { pprof.StopCPUProfile(); f.Close() }
	}
}

var stopProf = func() {}
