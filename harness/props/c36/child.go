package main

import (
	"encoding/json"
	"fmt"
	"os"
	"runtime"
	"sort"
	"strings"
	"sync"
	"sync/atomic"
	"time"

	"github.com/33cn/chain33/queue"
	"verifharness/lib"
)

// ---------------------------------------------------------------------------------------------
// scenario (generated from the case seed; identical for every repetition of a case)

const (
	mSync     = iota // Send(msg,true) [timeout -1] + Wait(msg) [-1]
	mSyncTO          // SendTimeout(msg,true,T>0) + WaitTimeout(msg,T>0)
	mSync0           // SendTimeout(msg,true,0) + Wait(msg)
	mAsync           // Send(msg,false) [timeout -1]
	mAsync0          // SendTimeout(msg,false,0)
	mAsyncTO         // SendTimeout(msg,false,T>0)
	mPipeline        // burst of K Send(msg,true) followed by K Wait
)

var modeName = []string{"sync", "syncTO", "sync0", "async", "async0", "asyncTO", "pipeline"}

type opSpec struct {
	Topic   int   `json:"t"`
	Mode    int   `json:"m"`
	SendUs  int64 `json:"s,omitempty"` // send timeout in microseconds (modes *TO)
	WaitUs  int64 `json:"w,omitempty"`
	Pooled  bool  `json:"p,omitempty"`
	Recycle bool  `json:"r,omitempty"`
	PauseUs int   `json:"z,omitempty"`
	Burst   int   `json:"b,omitempty"`
}

type reqSpec struct {
	Role   string   `json:"role"` // mixed | flood-1 | floodTO | pipe | waiter
	Ops    []opSpec `json:"-"`
	NOps   int      `json:"ops"`
	Repeat int      `json:"repeat,omitempty"` // flooders: Ops[k%len(Ops)] for k < Repeat
}

type subSpec struct {
	Topic      int  `json:"topic"`
	DelayClass int  `json:"delay"` // 0 none, 1 gosched, 2 sleep <=300us, 3 sleep <=2ms
	Stall      bool `json:"stall,omitempty"`
	StallAfter int  `json:"stall_after,omitempty"`
	FreesAsync bool `json:"frees_async,omitempty"`
}

type closeSpec struct {
	AfterOps int64 `json:"after_ops"` // trigger: completed requester operations (flood: channel-full condition instead)
	Queue    bool  `json:"queue,omitempty"`
	Sub      int   `json:"sub"` // subscriber whose client is closed
}

type scenario struct {
	Kind   string      `json:"kind"`
	Topics int         `json:"topics"`
	Subs   []subSpec   `json:"subs"`
	Reqs   []reqSpec   `json:"reqs"`
	Closes []closeSpec `json:"closes"`
}

func genScenario(in caseIn) *scenario {
	rng := lib.NewRng(in.Seed)
	thorough := in.Tier == "thorough"
	sc := &scenario{Kind: in.Kind}
	sc.Topics = rng.Range(1, 6)
	// subscribers: one per topic, plus up to two extra competing subscribers (<= 8 in total)
	for t := 0; t < sc.Topics; t++ {
		sc.Subs = append(sc.Subs, subSpec{Topic: t, DelayClass: rng.Intn(4), FreesAsync: rng.Bool()})
	}
	for k := rng.Intn(3); k > 0 && len(sc.Subs) < 8; k-- {
		sc.Subs = append(sc.Subs, subSpec{Topic: rng.Intn(sc.Topics), DelayClass: rng.Intn(4), FreesAsync: rng.Bool()})
	}
	maxReq := 32
	if thorough {
		maxReq = 64
	}
	nReq := rng.Range(4, maxReq)
	opsPer := rng.Range(30, 120)
	stallTopic := -1
	if in.Kind == "flood" {
		stallTopic = 0
		sc.Subs[0].Stall = true
		sc.Subs[0].StallAfter = rng.Intn(4)
		sc.Subs[0].DelayClass = 0
		// no competing subscriber on the stalled topic (it would drain the channel)
		for i := 1; i < len(sc.Subs); i++ {
			if sc.Subs[i].Topic == 0 {
				if sc.Topics > 1 {
					sc.Subs[i].Topic = 1 + rng.Intn(sc.Topics-1)
				} else {
					sc.Subs = sc.Subs[:i]
					break
				}
			}
		}
		if nReq > 16 {
			nReq = 16
		}
	}
	mkOp := func(topic int) opSpec {
		op := opSpec{Topic: topic, Pooled: rng.Chance(75), PauseUs: 0}
		if rng.Chance(20) {
			op.PauseUs = rng.Intn(200)
		}
		switch x := rng.Intn(100); {
		case x < 40:
			op.Mode = mSync
		case x < 58:
			op.Mode = mSyncTO
			op.SendUs = int64(rng.Range(200, 20000))
			op.WaitUs = lib.Pick(rng, []int64{50, 200, 1000, 5000, 200000})
		case x < 66:
			op.Mode = mSync0
		case x < 80:
			op.Mode = mAsync
		case x < 88:
			op.Mode = mAsync0
		case x < 94:
			op.Mode = mAsyncTO
			op.SendUs = int64(rng.Range(200, 20000))
		default:
			op.Mode = mPipeline
			op.Burst = rng.Range(2, 12)
		}
		op.Recycle = op.Pooled && rng.Chance(80)
		return op
	}
	liveTopic := func() int {
		if stallTopic < 0 {
			return rng.Intn(sc.Topics)
		}
		if sc.Topics == 1 {
			return -1
		}
		return 1 + rng.Intn(sc.Topics-1)
	}
	total := int64(0)
	for r := 0; r < nReq; r++ {
		rs := reqSpec{Role: "mixed"}
		for k := 0; k < opsPer; k++ {
			t := liveTopic()
			if t < 0 {
				break
			}
			rs.Ops = append(rs.Ops, mkOp(t))
		}
		rs.NOps = len(rs.Ops)
		total += int64(rs.NOps)
		if rs.NOps > 0 {
			sc.Reqs = append(sc.Reqs, rs)
		}
	}
	if in.Kind == "flood" {
		// low-priority flooders without timeout (the -1 path), with timeout, a high-priority pipeliner and sync waiters
		nf := rng.Range(1, 3)
		for k := 0; k < nf; k++ {
			rs := reqSpec{Role: "flood-1", Repeat: 42000}
			for n := 0; n < 8; n++ {
				rs.Ops = append(rs.Ops, opSpec{Topic: 0, Mode: mAsync, Pooled: rng.Chance(50)})
			}
			rs.NOps = rs.Repeat
			sc.Reqs = append(sc.Reqs, rs)
		}
		for k := rng.Intn(3); k > 0; k-- {
			to := int64(rng.Range(20000, 300000))
			rs := reqSpec{Role: "floodTO", Repeat: 42000, Ops: []opSpec{{Topic: 0, Mode: mAsyncTO, SendUs: to}}}
			rs.NOps = rs.Repeat
			sc.Reqs = append(sc.Reqs, rs)
		}
		if rng.Chance(70) {
			rs := reqSpec{Role: "pipe", Ops: []opSpec{{Topic: 0, Mode: mPipeline, Burst: rng.Range(80, 120)}}, NOps: 1}
			sc.Reqs = append(sc.Reqs, rs)
		}
		for k := rng.Range(1, 4); k > 0; k-- {
			rs := reqSpec{Role: "waiter", Ops: []opSpec{{Topic: 0, Mode: mSync, Pooled: true}, {Topic: 0, Mode: mSync}, {Topic: 0, Mode: mAsync}}, NOps: 3}
			sc.Reqs = append(sc.Reqs, rs)
		}
		sc.Closes = append(sc.Closes, closeSpec{AfterOps: -1, Queue: rng.Chance(35), Sub: 0})
	}
	// closes at random points of the mixed traffic
	nc := rng.Intn(4)
	if in.Kind == "mixed" && nc == 0 && rng.Chance(70) {
		nc = 1
	}
	for k := 0; k < nc && total > 0; k++ {
		cs := closeSpec{AfterOps: int64(rng.Intn(int(total))), Queue: in.Kind != "flood" && rng.Chance(30)}
		cs.Sub = rng.Intn(len(sc.Subs))
		if stallTopic >= 0 && sc.Subs[cs.Sub].Topic == stallTopic {
			continue
		}
		sc.Closes = append(sc.Closes, cs)
	}
	sort.SliceStable(sc.Closes, func(i, j int) bool {
		a, b := sc.Closes[i].AfterOps, sc.Closes[j].AfterOps
		return a >= 0 && (b < 0 || a < b)
	})
	return sc
}

// ---------------------------------------------------------------------------------------------
// monitor state

type reqPayload struct {
	Client    int
	Counter   int64
	WantReply bool
	Pooled    bool
}

type respPayload struct {
	ReqClient  int
	ReqCounter int64
	Responder  int
	Seq        int64
}

// callRec describes one real queue call. All fields are guarded by the owning caller's mutex (one
// reusable synchronisation object per requester keeps the race detector's bookkeeping small).
type callRec struct {
	Kind      string // Send | Wait
	Requester int
	Role      string
	Topic     int
	WaitReply bool
	Timeout   string // "-1" | "0" | ">0"
	Counter   int64
	done      bool
	reported  bool // already reported as hung
	result    string
}

func (c *callRec) name() string {
	if c.Kind == "Send" {
		wr := "nowait"
		if c.WaitReply {
			wr = "waitreply"
		}
		return fmt.Sprintf("send-%s-timeout%s", wr, c.Timeout)
	}
	return fmt.Sprintf("wait-timeout%s", c.Timeout)
}

type caller struct {
	mu  sync.Mutex
	cur *callRec
}

func (ca *caller) isDone(c *callRec) bool {
	ca.mu.Lock()
	defer ca.mu.Unlock()
	return c.done
}

type env struct {
	in      caseIn
	sc      *scenario
	q       queue.Queue
	topics  []string
	subCl   []queue.Client
	gates   []chan struct{}
	gateOne []sync.Once
	callers []*caller

	topicCloseStarted []int32
	topicClosed       []int32 // set after the Close call returned
	queueCloseStarted int32
	queueClosed       int32

	opsDone       int64
	asyncAccepted []int64 // per topic
	reqDone       int32
	hangs         int32

	mu        sync.Mutex
	viols     []viol
	seen      []map[[2]int64]int
	recvOrder [][]int // per subscriber: requester ids in delivery order (prefix)
	closeOut  map[string]struct{}
	cnt       map[string]*int64
	seq       int64
	bound     time.Duration
}

var counterNames = []string{"requests", "replies_checked", "subscriber_deliveries", "async_delivered", "wait_timeouts", "send_full", "send_timeouts",
	"closed_errors", "recycled_msgs", "closes_client", "closes_queue", "outstanding_at_close", "blocked_nowait_at_close", "returned_after_close",
	"post_close_sends_checked", "pipeline_bursts"}

func (e *env) add(name string, n int64) { atomic.AddInt64(e.cnt[name], n) }

func (e *env) violation(shape, msg string, w any) {
	e.mu.Lock()
	if len(e.viols) < 8 {
		e.viols = append(e.viols, viol{Shape: shape, Msg: msg, Witness: w})
	}
	e.mu.Unlock()
}

func (e *env) topicIsClosed(t int) bool {
	return atomic.LoadInt32(&e.topicClosed[t]) == 1 || atomic.LoadInt32(&e.queueClosed) == 1
}

func toClass(us int64) string {
	switch {
	case us < 0:
		return "-1"
	case us == 0:
		return "0"
	}
	return ">0"
}

func errClass(err error) string {
	if err == nil {
		return "ok"
	}
	return err.Error()
}

// tracked call: registered in the caller's slot for the whole duration of the real queue call.
func (e *env) tracked(ca *caller, rec *callRec, f func() error) error {
	ca.mu.Lock()
	ca.cur = rec
	ca.mu.Unlock()
	err := f()
	ca.mu.Lock()
	rec.result = errClass(err)
	rec.done = true
	ca.cur = nil
	ca.mu.Unlock()
	return err
}

// ---------------------------------------------------------------------------------------------
// subscriber

func (e *env) subscriber(i int, ready, done *sync.WaitGroup) {
	defer done.Done()
	spec := e.sc.Subs[i]
	cl := e.subCl[i]
	cl.Sub(e.topics[spec.Topic])
	ready.Done()
	rng := lib.NewRng(e.in.Seed ^ uint64(0x5b5b0000+i))
	received := 0
	for msg := range cl.Recv() {
		p, ok := msg.Data.(*reqPayload)
		if !ok {
			continue
		}
		key := [2]int64{int64(p.Client), p.Counter}
		e.mu.Lock()
		e.seen[spec.Topic][key]++
		n := e.seen[spec.Topic][key]
		if len(e.recvOrder[i]) < 96 {
			e.recvOrder[i] = append(e.recvOrder[i], p.Client)
		}
		e.mu.Unlock()
		e.add("subscriber_deliveries", 1)
		if n > 1 {
			e.violation("duplicate-delivery", fmt.Sprintf("subscriber %d on topic %d received message (requester %d, counter %d) %d times", i, spec.Topic, p.Client, p.Counter, n),
				map[string]any{"topic": spec.Topic, "requester": p.Client, "counter": p.Counter, "times": n})
		}
		if spec.Stall && received == spec.StallAfter {
			<-e.gates[i]
		}
		received++
		switch spec.DelayClass {
		case 1:
			runtime.Gosched()
		case 2:
			if rng.Chance(30) {
				time.Sleep(time.Duration(rng.Intn(300)) * time.Microsecond)
			}
		case 3:
			if rng.Chance(15) {
				time.Sleep(time.Duration(rng.Intn(2000)) * time.Microsecond)
			}
		}
		if p.WantReply {
			seq := atomic.AddInt64(&e.seq, 1)
			// echo the request id plus the responder's own id; after Reply the request is not touched again
			msg.Reply(cl.NewMessage("", 900002, &respPayload{ReqClient: p.Client, ReqCounter: p.Counter, Responder: i, Seq: seq}))
		} else {
			e.add("async_delivered", 1)
			if p.Pooled && spec.FreesAsync {
				cl.FreeMessage(msg) // the subscriber is the last holder of an asynchronous message
				e.add("recycled_msgs", 1)
			}
		}
	}
}

// ---------------------------------------------------------------------------------------------
// requester

func (e *env) newMsg(cl queue.Client, r int, counter int64, op opSpec, wantReply bool) *queue.Message {
	p := &reqPayload{Client: r, Counter: counter, WantReply: wantReply, Pooled: op.Pooled}
	if op.Pooled {
		return cl.NewMessage(e.topics[op.Topic], 900001, p)
	}
	return queue.NewMessage(int64(r)<<40|counter, e.topics[op.Topic], 900001, p)
}

// doSend performs one real Send/SendTimeout and applies the post-close rule.
func (e *env) doSend(ca *caller, cl queue.Client, r int, role string, counter int64, op opSpec, msg *queue.Message, waitReply bool, timeoutUs int64) error {
	closedBefore := e.topicIsClosed(op.Topic)
	rec := &callRec{Kind: "Send", Requester: r, Role: role, Topic: op.Topic, WaitReply: waitReply, Timeout: toClass(timeoutUs), Counter: counter}
	err := e.tracked(ca, rec, func() error {
		if timeoutUs < 0 {
			return cl.Send(msg, waitReply)
		}
		return cl.SendTimeout(msg, waitReply, time.Duration(timeoutUs)*time.Microsecond)
	})
	e.add("requests", 1)
	if closedBefore {
		e.add("post_close_sends_checked", 1)
		if err == nil {
			e.violation("send-ok-after-close", fmt.Sprintf("%s on topic %d started after Close had returned and reported success", rec.name(), op.Topic),
				map[string]any{"call": rec.name(), "topic": op.Topic, "requester": r})
		}
	}
	switch err {
	case nil:
		if !waitReply {
			atomic.AddInt64(&e.asyncAccepted[op.Topic], 1)
		}
	case queue.ErrQueueChannelFull:
		e.add("send_full", 1)
	case queue.ErrQueueTimeout:
		e.add("send_timeouts", 1)
	default:
		e.add("closed_errors", 1)
	}
	return err
}

func (e *env) doWait(ca *caller, cl queue.Client, r int, role string, counter int64, op opSpec, msg *queue.Message, timeoutUs int64) {
	rec := &callRec{Kind: "Wait", Requester: r, Role: role, Topic: op.Topic, Timeout: toClass(timeoutUs), Counter: counter}
	var resp *queue.Message
	err := e.tracked(ca, rec, func() error {
		var err error
		if timeoutUs < 0 {
			resp, err = cl.Wait(msg)
		} else {
			resp, err = cl.WaitTimeout(msg, time.Duration(timeoutUs)*time.Microsecond)
		}
		return err
	})
	if err != nil {
		if err == queue.ErrQueueTimeout {
			e.add("wait_timeouts", 1) // the request is abandoned: never recycled, a late reply stays in its own channel
		} else {
			e.add("closed_errors", 1)
		}
		return
	}
	rp, ok := resp.Data.(*respPayload)
	if !ok {
		e.violation("foreign-reply", fmt.Sprintf("requester %d counter %d: reply carries %T", r, counter, resp.Data), map[string]any{"requester": r, "counter": counter})
		return
	}
	e.add("replies_checked", 1)
	if rp.ReqClient != r || rp.ReqCounter != counter {
		e.violation("crosstalk", fmt.Sprintf("requester %d waiting for its request #%d on topic %d received the reply produced for request (requester %d, #%d) by responder %d",
			r, counter, op.Topic, rp.ReqClient, rp.ReqCounter, rp.Responder),
			map[string]any{"requester": r, "counter": counter, "topic": op.Topic, "got_requester": rp.ReqClient, "got_counter": rp.ReqCounter, "mode": modeName[op.Mode], "pooled": op.Pooled})
		return
	}
	if op.Recycle {
		cl.FreeMessage(msg, resp) // completed exchange: neither side references the two messages any more
		e.add("recycled_msgs", 2)
	}
}

func (e *env) requester(r int, wg *sync.WaitGroup) {
	defer wg.Done()
	spec := e.sc.Reqs[r]
	ca := e.callers[r]
	cl := e.q.Client()
	var counter int64
	nOps := len(spec.Ops)
	if spec.Repeat > 0 {
		nOps = spec.Repeat
	}
	for k := 0; k < nOps; k++ {
		op := spec.Ops[k%len(spec.Ops)]
		if op.PauseUs > 0 {
			time.Sleep(time.Duration(op.PauseUs) * time.Microsecond)
		}
		switch op.Mode {
		case mSync, mSyncTO, mSync0:
			counter++
			msg := e.newMsg(cl, r, counter, op, true)
			sendTO, waitTO := int64(-1), int64(-1)
			if op.Mode == mSyncTO {
				sendTO, waitTO = op.SendUs, op.WaitUs
			} else if op.Mode == mSync0 {
				sendTO = 0
			}
			if err := e.doSend(ca, cl, r, spec.Role, counter, op, msg, true, sendTO); err == nil {
				e.doWait(ca, cl, r, spec.Role, counter, op, msg, waitTO)
			}
		case mAsync, mAsync0, mAsyncTO:
			counter++
			msg := e.newMsg(cl, r, counter, op, false)
			to := int64(-1)
			if op.Mode == mAsync0 {
				to = 0
			} else if op.Mode == mAsyncTO {
				to = op.SendUs
			}
			err := e.doSend(ca, cl, r, spec.Role, counter, op, msg, false, to)
			if err != nil && spec.Role != "mixed" {
				atomic.AddInt64(&e.opsDone, 1)
				return // a flooder stops at the first error
			}
		case mPipeline:
			e.add("pipeline_bursts", 1)
			type sent struct {
				msg *queue.Message
				n   int64
			}
			var inflight []sent
			for b := 0; b < op.Burst; b++ {
				counter++
				msg := e.newMsg(cl, r, counter, op, true)
				if err := e.doSend(ca, cl, r, spec.Role, counter, op, msg, true, -1); err != nil {
					break
				}
				inflight = append(inflight, sent{msg, counter})
			}
			for _, s := range inflight {
				e.doWait(ca, cl, r, spec.Role, s.n, op, s.msg, -1)
			}
		}
		atomic.AddInt64(&e.opsDone, 1)
	}
}

// ---------------------------------------------------------------------------------------------
// closes and the bounded close clause

func (e *env) openGate(i int) { e.gateOne[i].Do(func() { close(e.gates[i]) }) }

func queueStacks() string {
	buf := make([]byte, 4<<20)
	buf = buf[:runtime.Stack(buf, true)]
	var keep []string
	for _, g := range strings.Split(string(buf), "\n\n") {
		if strings.Contains(g, "chain33/queue.") {
			keep = append(keep, g)
		}
	}
	s := strings.Join(keep, "\n\n")
	if len(s) > 6000 {
		s = s[:6000] + "\n…"
	}
	return s
}

// checkReturn: every call outstanding now (Close has returned) and selected by filter must return within the bound.
func (e *env) checkReturn(desc string, filter func(*callRec) bool) {
	type pending struct {
		ca *caller
		c  *callRec
	}
	var pend []pending
	for _, ca := range e.callers {
		ca.mu.Lock()
		if c := ca.cur; c != nil && !c.done && !c.reported && filter(c) {
			pend = append(pend, pending{ca, c})
		}
		ca.mu.Unlock()
	}
	e.add("outstanding_at_close", int64(len(pend)))
	deadline := time.Now().Add(e.bound)
	hung := map[string]*callRec{}
	for _, p := range pend {
		c := p.c
		if c.Kind == "Send" && !c.WaitReply && c.Timeout == "-1" {
			e.add("blocked_nowait_at_close", 1)
		}
		for !p.ca.isDone(c) && time.Now().Before(deadline) {
			time.Sleep(500 * time.Microsecond)
		}
		if !p.ca.isDone(c) {
			p.ca.mu.Lock()
			c.reported = true
			p.ca.mu.Unlock()
			atomic.AddInt32(&e.hangs, 1)
			if _, ok := hung[c.name()]; !ok {
				hung[c.name()] = c
			}
			continue
		}
		e.add("returned_after_close", 1)
		e.mu.Lock()
		e.closeOut[desc+":"+c.name()+"->"+c.result] = struct{}{}
		e.mu.Unlock()
	}
	if len(hung) > 0 {
		dump := queueStacks()
		for name, c := range hung {
			e.mu.Lock()
			e.closeOut[desc+":"+name+"->HUNG"] = struct{}{}
			e.mu.Unlock()
			e.violation("hang-after-close:"+name,
				fmt.Sprintf("%s on topic %d (requester %d, role %s) was outstanding when %s returned and had not returned %v later; goroutines inside queue:\n%s",
					name, c.Topic, c.Requester, c.Role, desc, e.bound, dump),
				map[string]any{"call": name, "topic": c.Topic, "requester": c.Requester, "close": desc, "goroutines": dump})
		}
	}
}

func (e *env) closeSub(i int) {
	t := e.sc.Subs[i].Topic
	atomic.StoreInt32(&e.topicCloseStarted[t], 1)
	e.openGate(i) // the subscriber keeps draining Recv() (Close waits for the pump)
	e.subCl[i].Close()
	atomic.StoreInt32(&e.topicClosed[t], 1)
	e.add("closes_client", 1)
}

func (e *env) closeQueue() {
	atomic.StoreInt32(&e.queueCloseStarted, 1)
	e.q.Close()
	atomic.StoreInt32(&e.queueClosed, 1)
	e.add("closes_queue", 1)
}

func (e *env) closer(watchdog *string) {
	subClosed := make([]bool, len(e.sc.Subs))
	for _, cs := range e.sc.Closes {
		if cs.AfterOps >= 0 {
			for atomic.LoadInt64(&e.opsDone) < cs.AfterOps && atomic.LoadInt32(&e.reqDone) == 0 {
				time.Sleep(50 * time.Microsecond)
			}
		} else {
			// flood: wait until the low-priority channel of topic 0 is full and the senders stopped making progress
			start := time.Now()
			last, lastT := int64(-1), time.Now()
			for {
				n := atomic.LoadInt64(&e.asyncAccepted[0])
				if n != last {
					last, lastT = n, time.Now()
				}
				if n >= 40960 && time.Since(lastT) > 100*time.Millisecond {
					break
				}
				// watchdog (inconclusive): no progress at all for 30 s, or 4 minutes in total on an overloaded machine
				if (n < 40960 && time.Since(lastT) > 30*time.Second) || time.Since(start) > 240*time.Second {
					*watchdog = fmt.Sprintf("flood never filled the low-priority channel (accepted %d after %v)", n, time.Since(start).Round(time.Second))
					break
				}
				time.Sleep(500 * time.Microsecond)
			}
		}
		if os.Getenv("C36_PHASES") != "" {
			fmt.Fprintf(os.Stderr, "close trigger %+v reached, opsDone=%d\n", cs, atomic.LoadInt64(&e.opsDone))
		}
		if cs.Queue {
			if atomic.LoadInt32(&e.queueClosed) == 1 {
				continue
			}
			e.closeQueue()
			e.checkReturn("queue.Close", func(*callRec) bool { return true })
			continue
		}
		if subClosed[cs.Sub] {
			continue
		}
		subClosed[cs.Sub] = true
		t := e.sc.Subs[cs.Sub].Topic
		e.closeSub(cs.Sub)
		e.checkReturn("client.Close", func(c *callRec) bool { return c.Topic == t })
	}
}

// hangReported fires 2 s after the first call was reported as hung (its goroutine will never finish).
func hangReported(e *env) <-chan time.Time {
	if atomic.LoadInt32(&e.hangs) > 0 {
		return time.After(2 * time.Second)
	}
	return nil
}

// ---------------------------------------------------------------------------------------------

// childRun executes every repetition of one case, one after another, each on a fresh queue.
func childRun(inb []byte) (any, error) {
	var in caseIn
	if err := json.Unmarshal(inb, &in); err != nil {
		return nil, err
	}
	queue.DisableLog()
	var outs []caseOut
	for rep := 0; rep < in.Reps; rep++ {
		in.Rep = rep
		outs = append(outs, runOne(in))
		if n := len(outs[rep].Viols); n > 0 || outs[rep].Watchdog != "" {
			break // stuck goroutines of a failed repetition must not disturb the next one
		}
	}
	return outs, nil
}

func runOne(in caseIn) caseOut {
	t0 := time.Now()
	ph := func(n string) {
		if os.Getenv("C36_PHASES") != "" {
			fmt.Fprintf(os.Stderr, "phase %s at %v\n", n, time.Since(t0))
		}
	}
	sc := genScenario(in)
	ph("gen")
	e := &env{in: in, sc: sc, q: queue.New("c36"), closeOut: map[string]struct{}{}, cnt: map[string]*int64{}, bound: time.Duration(in.Bound) * time.Millisecond}
	for _, n := range counterNames {
		e.cnt[n] = new(int64)
	}
	for t := 0; t < sc.Topics; t++ {
		e.topics = append(e.topics, fmt.Sprintf("topic%d", t))
		e.seen = append(e.seen, map[[2]int64]int{})
	}
	e.topicCloseStarted = make([]int32, sc.Topics)
	e.topicClosed = make([]int32, sc.Topics)
	e.asyncAccepted = make([]int64, sc.Topics)
	e.recvOrder = make([][]int, len(sc.Subs))
	e.gates = make([]chan struct{}, len(sc.Subs))
	e.gateOne = make([]sync.Once, len(sc.Subs))
	var ready, subDone sync.WaitGroup
	for i := range sc.Subs {
		e.gates[i] = make(chan struct{})
		e.subCl = append(e.subCl, e.q.Client())
	}
	for i := range sc.Subs {
		ready.Add(1)
		subDone.Add(1)
		go e.subscriber(i, &ready, &subDone)
	}
	ready.Wait()
	ph("ready")
	var reqWG sync.WaitGroup
	for range sc.Reqs {
		e.callers = append(e.callers, &caller{})
	}
	for r := range sc.Reqs {
		reqWG.Add(1)
		go e.requester(r, &reqWG)
	}
	var watchdog string
	closerDone := make(chan struct{})
	go func() { e.closer(&watchdog); close(closerDone) }()
	reqFinished := make(chan struct{})
	go func() { reqWG.Wait(); atomic.StoreInt32(&e.reqDone, 1); close(reqFinished) }()
	// phase 1: let the generated traffic and closes run (watchdog only; what is still stuck is judged after the final close)
	select {
	case <-closerDone:
	case <-time.After(330 * time.Second):
		watchdog = "closer did not finish within 330 s"
	}
	if watchdog == "" {
		select {
		case <-reqFinished:
		case <-time.After(e.bound + 30*time.Second):
			// fall through: the final closes below decide
		case <-hangReported(e):
			// a call already exceeded the bound: do not wait for its goroutine
		}
	}
	ph("phase1 done")
	// phase 2: close everything that is still open, then every call must return
	if watchdog == "" {
		for i := range sc.Subs {
			e.openGate(i)
		}
		finalDone := make(chan struct{})
		go func() {
			for i := range sc.Subs {
				e.openGate(i)
				e.subCl[i].Close() // no-op when already closed
				atomic.StoreInt32(&e.topicClosed[sc.Subs[i].Topic], 1)
			}
			if atomic.LoadInt32(&e.queueClosed) == 0 {
				e.closeQueue()
			}
			close(finalDone)
		}()
		select {
		case <-finalDone:
			e.checkReturn("final queue.Close", func(*callRec) bool { return true })
			select {
			case <-reqFinished:
			case <-hangReported(e):
			case <-time.After(e.bound):
				// a requester that is not inside a tracked call cannot be stuck in the queue; anything tracked was reported above
			}
			sd := make(chan struct{})
			go func() { subDone.Wait(); close(sd) }()
			select {
			case <-sd:
			case <-time.After(e.bound):
				e.violation("subscriber-stuck-after-close", "a subscriber loop did not end within the bound after its client and the queue were closed:\n"+queueStacks(), nil)
			}
		case <-time.After(e.bound + 20*time.Second):
			e.violation("close-hangs", "client.Close()/queue.Close() did not return within the bound although every subscriber was draining Recv():\n"+queueStacks(), map[string]any{"goroutines": queueStacks()})
		}
	}
	// evidence
	ph("phase2 done")
	out := caseOut{Scenario: sc, Counters: map[string]int64{}, Watchdog: watchdog}
	for n, p := range e.cnt {
		out.Counters[n] = atomic.LoadInt64(p)
	}
	e.mu.Lock()
	out.Viols = e.viols
	for k := range e.closeOut {
		out.CloseShapes = append(out.CloseShapes, k)
	}
	sort.Strings(out.CloseShapes)
	out.Fingerprint = lib.Fingerprint(map[string]any{"order": e.recvOrder, "close": out.CloseShapes})
	e.mu.Unlock()
	return out
}
