// C36: the message bus delivers each reply to its own request, a subscriber sees every message at most
// once, and after a client / the queue is closed every Send and Wait returns instead of blocking.
//
// Parent: fixed PRNG-determined case list; every case is executed REPS times, each time in a fresh child
// process built with -race. Child (child.go): real queue, generated requesters/responders/closers, monitors.
package main

import (
	"encoding/json"
	"fmt"
	"os"
	"runtime"
	"sort"
	"strings"
	"sync"
	"time"

	"verifharness/lib"
)

type caseIn struct {
	Idx   int    `json:"idx"`
	Rep   int    `json:"rep"`
	Reps  int    `json:"reps"`
	Seed  uint64 `json:"seed"`
	Kind  string `json:"kind"` // mixed | flood
	Tier  string `json:"tier"`
	Bound int    `json:"bound_ms"` // close clause bound
}

type viol struct {
	Shape   string `json:"shape"`
	Msg     string `json:"msg"`
	Witness any    `json:"witness"`
}

type caseOut struct {
	Scenario    any              `json:"scenario"`
	Counters    map[string]int64 `json:"counters"`
	Viols       []viol           `json:"viols"`
	Fingerprint string           `json:"fingerprint"`
	CloseShapes []string         `json:"close_shapes"` // "<call>-><result>" of calls outstanding at a Close
	Watchdog    string           `json:"watchdog,omitempty"`
}

func kindOf(rng *lib.Rng, i int) string {
	// every fourth case is a full-channel ("flood") case, the rest mixed traffic with closes at random points
	if i%4 == 3 {
		return "flood"
	}
	_ = rng
	return "mixed"
}

func run(c *lib.Ctx) {
	c.Rule("case i = PRNG-generated scenario (1-6 topics, 1-8 subscribers, 4-64 requesters; sync/async sends with timeouts -1/0/>0, pipelined bursts, " +
		"pooled messages recycled only after a completed exchange, closes of subscriber clients and of the queue after a generated number of completed operations; " +
		"every fourth case stalls a subscriber until the 40960-slot low-priority channel and the 64-slot high-priority channel are full, then closes). " +
		"Each case runs in its own fresh -race child process, REPS times on fresh queues. Monitors: requester-side id check of every reply, subscriber-side duplicate set per topic, " +
		"table of calls outstanding when a Close returns (each must return within the bound), sends started after a Close returned must fail, child death. " +
		"non-trivial = the monitor checked >=1 reply AND >=1 call was outstanding when a Close returned; fingerprint = case x (delivery order, close outcomes) hash")
	c.Assume("close clause restated as bounded: a call outstanding when Close returns must return within 10 s on an otherwise idle child (goroutine dump attached when it does not)",
		"Close() of a client that never subscribed is a documented no-op (client.Close returns early) and is not counted as a close",
		"every topic is subscribed before traffic starts (a topic first touched while queue.Close runs is never closed by it; without a subscriber its Wait has nobody to answer anyway)",
		"each client is closed by one goroutine only and its subscriber keeps draining Recv() until it is closed (the usage pattern of every chain33 module)",
		"race reports decide only when both accesses are in <repo>/queue/")
	nCases := c.N(30, 400)
	reps := 3
	if !c.Quick() {
		reps = 10
	}
	type job struct{ idx int }
	var jobs []job
	for i := 0; i < nCases; i++ {
		if c.Skip(i) {
			continue
		}
		jobs = append(jobs, job{i})
	}
	workers := runtime.NumCPU()
	if workers > 16 {
		workers = 16
	}
	// flood cases allocate ~45k messages under -race: keep a few workers free
	if workers > 12 {
		workers = 12
	}
	var mu sync.Mutex
	raceOther := map[string]int{}
	raceDeciding := map[string]string{}
	caseFP := map[int][]string{}
	caseNontrivial := map[int]bool{}
	caseSample := map[int]any{}
	lib.Parallel(len(jobs), workers, func(k int) {
		j := jobs[k]
		rng := c.CaseRng("case", j.idx)
		in := caseIn{Idx: j.idx, Reps: reps, Seed: rng.U64(), Kind: kindOf(rng, j.idx), Tier: c.Tier, Bound: 10000}
		res := c.Child("run", in, lib.ChildOpts{Race: true, Timeout: 20 * time.Minute})
		reports := lib.ParseRaceLogs(res.RaceLogs)
		dec, oth := lib.RaceVerdict(reports, []string{repoRoot() + "/queue/"})
		mu.Lock()
		defer mu.Unlock()
		c.Count("children", 1)
		c.Count("child_wall_ms_"+in.Kind, res.WallMs)
		c.Count("children_"+in.Kind, 1)
		c.Count("race_reports", int64(len(reports)))
		for k, v := range oth {
			raceOther[k] += v
		}
		for k, v := range dec {
			if _, ok := raceDeciding[k]; !ok {
				raceDeciding[k] = v
				c.Violation(j.idx, "race:"+raceKeyShape(k), map[string]any{"case": in, "report": v}, "data race inside queue (both accesses in /repo/queue/): %s\n%s", k, v)
			}
		}
		if res.TimedOut {
			c.Inconclusive("case %d: child watchdog fired (%d ms)", j.idx, res.WallMs)
			return
		}
		var outs []caseOut
		if res.Out == nil || json.Unmarshal(res.Out, &outs) != nil {
			// the child died before writing its result: a crash inside the bus (panic, fatal error)
			c.Violation(j.idx, "crash", map[string]any{"case": in, "stderr": res.Stderr}, "child process died (exit %d) while exercising the queue: %s", res.ExitCode, firstLines(res.Stderr, 12))
			return
		}
		if res.Died && res.ExitCode != 66 { // 66 = race detector's exit status after a report (handled above)
			c.Violation(j.idx, "crash", map[string]any{"case": in, "stderr": res.Stderr}, "child exited with %d: %s", res.ExitCode, firstLines(res.Stderr, 12))
			return
		}
		for rep, out := range outs {
			c.Count("executions", 1)
			if out.Watchdog != "" {
				c.Inconclusive("case %d rep %d: %s", j.idx, rep, out.Watchdog)
			}
			for k, v := range out.Counters {
				c.Count(k, v)
			}
			for _, s := range out.CloseShapes {
				c.Seen("close_outcomes", s)
			}
			for _, v := range out.Viols {
				c.Violation(j.idx, v.Shape, map[string]any{"case": in, "rep": rep, "scenario": out.Scenario, "witness": v.Witness}, "%s", v.Msg)
			}
			c.Seen("interleavings", out.Fingerprint)
			caseFP[j.idx] = append(caseFP[j.idx], out.Fingerprint)
			if out.Counters["replies_checked"] > 0 && out.Counters["outstanding_at_close"] > 0 {
				caseNontrivial[j.idx] = true
			}
			if _, ok := caseSample[j.idx]; !ok {
				caseSample[j.idx] = map[string]any{"case": in, "scenario": out.Scenario, "counters": out.Counters, "close_outcomes": out.CloseShapes}
			}
		}
	})
	for idx, fps := range caseFP {
		for _, fp := range fps {
			c.Case(fmt.Sprintf("%d:%s", idx, fp), caseNontrivial[idx], caseSample[idx])
		}
	}
	c.Extra("race_reports_deciding", len(raceDeciding))
	oth := 0
	var othKeys []string
	for k, v := range raceOther {
		oth += v
		othKeys = append(othKeys, k)
	}
	sort.Strings(othKeys)
	c.Extra("race_reports_other", oth)
	if len(othKeys) > 0 {
		c.Extra("race_reports_other_keys", lib.ShortList(othKeys, 6))
	}
	c.Extra("repetitions_per_case", reps)
	c.RequireEvents("replies_checked", 1000)
	c.RequireEvents("subscriber_deliveries", 1000)
	c.RequireEvents("outstanding_at_close", 10)
	c.RequireEvents("closes_client", 5)
	c.RequireEvents("closes_queue", 3)
}

func repoRoot() string {
	if r := os.Getenv("VERIF_REPO"); r != "" {
		return r
	}
	return "/repo"
}

func raceKeyShape(k string) string {
	// function names only (drop paths) so the shape is stable
	parts := strings.Split(k, " <-> ")
	for i, p := range parts {
		if j := strings.Index(p, "@"); j >= 0 {
			p = p[:j]
		}
		if j := strings.LastIndex(p, "/"); j >= 0 {
			p = p[j+1:]
		}
		parts[i] = p
	}
	return strings.Join(parts, "~")
}

func firstLines(s string, n int) string {
	ls := strings.Split(s, "\n")
	if len(ls) > n {
		ls = ls[:n]
	}
	return strings.Join(ls, "\n")
}

func main() {
	lib.RegisterChild("run", childRun)
	lib.Main("C36", "exploration", run)
}
