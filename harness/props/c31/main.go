// C31: blacklisted accounts cannot transact.
package main

import (
	"encoding/hex"
	"encoding/json"
	"fmt"
	"os"
	"path/filepath"
	"strings"
	"time"

	"github.com/33cn/chain33/common/address"
	"github.com/33cn/chain33/common/crypto"
	ethaddr "github.com/33cn/chain33/system/address/eth"
	"github.com/33cn/chain33/system/crypto/secp256k1eth"
	"github.com/33cn/chain33/types"
	"github.com/33cn/chain33/util"
	"github.com/decred/base58"
	"verifharness/execenv"
	"verifharness/lib"
	"verifharness/node"
	"verifharness/vexec"
)

const forkH = 6

// independent resolution of an address string to its 20-byte account (the drivers' own accepted shapes)
func rawOf(addr string) ([]byte, bool) {
	s := addr
	if strings.HasPrefix(s, "0x") || strings.HasPrefix(s, "0X") {
		s = s[2:]
	}
	if len(s) == 40 {
		if b, err := hex.DecodeString(s); err == nil {
			return b, true
		}
	}
	d := base58.Decode(addr)
	if len(d) == 25 {
		return d[1:21], true
	}
	return nil, false
}

type gTx struct {
	Kind     string `json:"kind"`   // coins | none | evm-contract | evm-para | group
	Sender   int    `json:"sender"` // key index (4 = blacklisted sender)
	To       string `json:"to"`     // spelling used in tx.To (coins) or in the EVM payload
	Pos      string `json:"pos"`    // which position is blacklisted: none | from | to | evm-contract | evm-para | group-member-N-to | group-from
	Spelling string `json:"spelling"`
	Members  int    `json:"members,omitempty"`
	BadIdx   int    `json:"bad_idx,omitempty"`
}

func spell(r *lib.Rng, raw []byte) (string, string) {
	h := hex.EncodeToString(raw)
	switch r.Intn(6) {
	case 0:
		return "0x" + h, "0x-lower"
	case 1:
		return "0x" + strings.ToUpper(h), "0x-upper"
	case 2:
		b := []byte(h)
		for i := range b {
			if r.Bool() {
				b[i] = strings.ToUpper(string(b[i]))[0]
			}
		}
		return "0x" + string(b), "0x-mixed"
	case 3:
		return "0X" + h, "0X-prefix"
	case 4:
		return h, "no-prefix"
	default:
		return address.PubKeyToAddr(address.DefaultID, nil), "" // placeholder, replaced by caller
	}
}

type batchReq struct {
	Seed uint64 `json:"seed"`
	N    int    `json:"n"`
	Base int    `json:"base"`
}

type txRes struct {
	Index   int     `json:"index"`
	Tx      gTx     `json:"tx"`
	Height  int64   `json:"height"`
	Ty      []int32 `json:"receipt_types"`
	Pool    string  `json:"pool_reply"`
	Problem string  `json:"problem,omitempty"`
}

func runBatch(q batchReq) ([]txRes, error) {
	r := lib.NewRng(q.Seed)
	// blacklist: one base58 account with a key (so it can sign), one base58 account without key, one raw eth-style account
	blKeyAddr, blKey := util.Genaddress()
	blAddr2, _ := util.Genaddress()
	ethRaw := r.Bytes(20)
	restore := types.SetBlockedAccountsForTest([]string{blKeyAddr, blAddr2, "0x" + hex.EncodeToString(ethRaw)})
	defer restore()
	execenv.ExtraRegister = vexec.RegisterEVMStub
	env, err := execenv.New(filepath.Join(os.Getenv("VERIF_TMP"), "n"), func(o *node.Options) {
		o.Cfg = func(c *types.Config) {
			if c.Address.EnableHeight == nil {
				c.Address.EnableHeight = map[string]int64{}
			}
			c.Address.EnableHeight["eth"] = 0
		}
		o.ChainCfg = func(c *types.Chain33Config) { c.SetFork(types.ForkAccountBlacklist, forkH) }
	})
	if err != nil {
		return nil, err
	}
	defer env.Close()
	cfg := env.Cfg
	keys := append([]crypto.PrivKey{}, env.Keys...)
	keys = append(keys, blKey)
	// fund the blacklisted key's account below the fork height would need a block; instead it pays no fee:
	// its transactions must be refused before the fee is looked at when the rule is active.
	blRaw2, _ := rawOf(blAddr2)
	// funded eth-format accounts for proxied transactions (one per proxied tx: each starts at evm nonce 0)
	ethDrv, err := crypto.Load(types.GetSignName("", types.SECP256K1ETH), -1)
	if err != nil {
		return nil, err
	}
	ethTy := types.EncodeSignID(secp256k1eth.ID, ethaddr.ID)
	var ethKeys []crypto.PrivKey
	var fund []*types.Transaction
	for i := 0; i < 40; i++ {
		k, err := ethDrv.PrivKeyFromBytes(r.Bytes(32))
		if err != nil {
			continue
		}
		ethKeys = append(ethKeys, k)
		fund = append(fund, util.CreateCoinsTx(cfg, keys[0], address.PubKeyToAddr(ethaddr.ID, k.PubKey().Bytes()), 100*types.DefaultCoinPrecision))
	}
	fb, err := env.N.Build(env.Tip, fund, 0x1f00ffff, 0)
	if err != nil {
		return nil, fmt.Errorf("eth funding block: %v", err)
	}
	if err := env.N.Deliver(fb.Block, true, "p"); err != nil {
		return nil, fmt.Errorf("eth funding block: %v", err)
	}
	env.Tip = env.N.LastBlock()
	proxyAddr := cfg.GetModuleConfig().Exec.ProxyExecAddress
	nextEth := 0
	mkTo := func(bad bool) (to, spelling string, isEth bool) {
		if !bad {
			if r.Chance(50) {
				a, _ := util.Genaddress()
				return a, "base58", false
			}
			s, sp := spell(r, r.Bytes(20))
			if sp == "" {
				a, _ := util.Genaddress()
				return a, "base58", false
			}
			return s, sp, true
		}
		switch r.Intn(3) {
		case 0:
			return blAddr2, "base58", false
		case 1:
			// the base58 account written as hex of its 20 bytes (same account bytes, eth-style spelling)
			s, sp := spell(r, blRaw2)
			if sp == "" {
				return blAddr2, "base58", false
			}
			return s, "hex-of-base58-account/" + sp, true
		default:
			s, sp := spell(r, ethRaw)
			if sp == "" {
				return "0x" + hex.EncodeToString(ethRaw), "0x-lower", true
			}
			return s, sp, true
		}
	}
	var out []txRes
	for i := 0; i < q.N; i++ {
		g := gTx{Sender: r.Intn(4), Pos: "none"}
		var txs []*types.Transaction
		bad := r.Chance(55)
		k := r.Intn(100)
		if k >= 80 && k < 90 && (nextEth >= len(ethKeys) || proxyAddr == "") {
			k = 0
		}
		delayed := false
		if k >= 90 {
			// delayed transaction: a coins transfer handed to the pool's delay cache (EventAddDelayTx)
			delayed = true
			k = 0
		}
		switch {
		case k >= 80:
			// proxied transaction: eth-signed evm-shaped outer transaction to the proxy address whose payload carries the
			// real (inner) chain33 transaction; the executor swaps in the inner transaction before its checks
			g.Kind = "proxy"
			g.Sender = 5
			ek := ethKeys[nextEth]
			nextEth++
			g.To, g.Spelling, _ = mkTo(bad)
			if bad {
				g.Pos = "proxy-inner-to"
			}
			inner := util.CreateCoinsTx(cfg, nil, g.To, 1e5)
			inner.To = g.To
			act := &types.EVMContractAction4Chain33{Para: types.Encode(inner)}
			outer := &types.Transaction{Execer: []byte("evm"), Payload: types.Encode(act), To: proxyAddr, Nonce: 0, Fee: 2e6, ChainID: cfg.GetChainID()}
			outer.Sign(ethTy, ek)
			txs = []*types.Transaction{outer}
		case k < 35:
			g.Kind = "coins"
			if bad && r.Chance(30) {
				g.Sender, g.Pos = 4, "from"
				g.To, g.Spelling, _ = mkTo(false)
			} else {
				g.To, g.Spelling, _ = mkTo(bad)
				if bad {
					g.Pos = "to"
				}
			}
			tx := util.CreateCoinsTx(cfg, nil, g.To, 1e5)
			tx.To = g.To
			tx.Sign(types.SECP256K1, keys[g.Sender])
			txs = []*types.Transaction{tx}
			if delayed {
				g.Kind = "delay"
			}
		case k < 50:
			g.Kind = "none"
			if bad {
				g.Sender, g.Pos = 4, "from"
			}
			txs = []*types.Transaction{util.CreateNoneTx(cfg, keys[g.Sender])}
		case k < 75:
			// EVM-shaped payload: real target only inside the payload
			act := &types.EVMContractAction4Chain33{Amount: 1}
			if r.Bool() {
				g.Kind = "evm-contract"
				g.To, g.Spelling, _ = mkTo(bad)
				act.ContractAddr = g.To
				if bad {
					g.Pos = "evm-contract"
				}
			} else {
				g.Kind = "evm-para"
				raw := r.Bytes(20)
				if bad {
					raw = lib.Pick(r, [][]byte{ethRaw, blRaw2})
					g.Pos = "evm-para"
				}
				act.Para = raw
				g.To = hex.EncodeToString(raw)
			}
			tx := &types.Transaction{Execer: []byte("evm"), Payload: types.Encode(act), To: address.ExecAddress("evm"), Nonce: int64(r.U64() >> 2), Fee: 1e6, ChainID: cfg.GetChainID()}
			tx.Sign(types.SECP256K1, keys[g.Sender])
			txs = []*types.Transaction{tx}
		default:
			g.Kind = "group"
			g.Members = r.Range(2, 5)
			g.BadIdx = r.Intn(g.Members)
			var raw []*types.Transaction
			for j := 0; j < g.Members; j++ {
				to, sp, _ := mkTo(bad && j == g.BadIdx)
				if bad && j == g.BadIdx {
					g.Pos = fmt.Sprintf("group-member-%d-to", j)
					g.To, g.Spelling = to, sp
				}
				t := util.CreateCoinsTx(cfg, nil, to, 1e5)
				t.To = to
				raw = append(raw, t)
			}
			grp, err := types.CreateTxGroup(raw, cfg.GetMinTxFeeRate())
			if err != nil {
				continue
			}
			for j := range grp.Txs {
				grp.SignN(j, types.SECP256K1, keys[g.Sender])
			}
			txs = grp.GetTxs()
		}
		height := int64(forkH - 2 + r.Intn(5)) // fork-2 .. fork+2
		res := txRes{Index: q.Base + i, Tx: g, Height: height}
		rs, err := env.ExecListAt(txs, env.Tip.StateHash, height, env.Tip.BlockTime+1)
		if err != nil {
			res.Problem = "EventExecTxList failed: " + err.Error()
			out = append(out, res)
			continue
		}
		touchesBlacklist := g.Pos != "none"
		for _, rc := range rs.Receipts {
			res.Ty = append(res.Ty, rc.Ty)
			if touchesBlacklist && height >= forkH && rc.Ty != types.ExecErr {
				res.Problem = fmt.Sprintf("rule active at height %d: transaction touching a blacklisted account (%s) got receipt type %d (would be packed into the block)", height, g.Pos, rc.Ty)
			}
		}
		// pool: rejects at every height
		var sendErr error
		if g.Kind == "delay" {
			_, sendErr = env.N.API.SendDelayTx(&types.DelayTx{Tx: txs[0], EndDelayTime: env.Tip.BlockTime + 1000000 + int64(i)}, true)
		} else if len(txs) == 1 {
			_, sendErr = env.N.API.SendTx(txs[0])
		} else {
			grp := &types.Transactions{Txs: txs}
			_, sendErr = env.N.API.SendTx(grp.Tx())
		}
		if sendErr != nil {
			res.Pool = sendErr.Error()
		} else {
			res.Pool = "accepted"
		}
		if touchesBlacklist && res.Pool == "accepted" {
			res.Problem = fmt.Sprintf("pool accepted a transaction touching a blacklisted account (%s, spelling %s)", g.Pos, g.Spelling)
		}
		out = append(out, res)
	}
	return out, nil
}

func init() {
	lib.RegisterChild("batch", func(in []byte) (any, error) {
		var q batchReq
		if err := json.Unmarshal(in, &q); err != nil {
			return nil, err
		}
		return runBatch(q)
	})
}

func run(c *lib.Ctx) {
	c.Rule("child per batch (the blacklist and the address-driver tables are process globals): blacklist = {base58 account with key, base58 account, raw 20-byte eth-style account}, rule activation height 6; generated coins transfers, none transactions, EVM-shaped payloads (contract address / 20-byte transfer target) and groups " +
		"with the blacklisted account as sender, recipient, EVM target or recipient of member i, written in every spelling the address drivers accept (base58; 0x lower/upper/mixed, 0X prefix, no prefix; the base58 account's bytes in hex); " +
		"each is executed through the real EventExecTxList at heights fork-2..fork+2 and submitted to the real mempool. Oracle from the generator's ground truth: at heights >= fork every receipt of such a transaction (all members of such a group) must be ExecErr; the pool must refuse it at any height. " +
		"non-trivial = transaction touching a blacklisted account; distinct = (kind, position, spelling, height>=fork)")
	c.Assume("main chain only (real-recipient differs from recipient only on parachains)",
		"proxied transactions: eth-signed outer transaction to the configured proxy address carrying an inner coins transfer (the evm executor itself is not part of this repository); delayed transactions: submitted through EventAddDelayTx (the block-embedded none/CommitDelayTx route is not driven)",
		"the evm executor is a plugin outside this repository: the harness registers a stand-in executor under the name evm (interprets nothing) so that evm-shaped and proxied transactions are admissible as on a chain that has the plugin")
	n := c.N(900, 90000)
	per := 150
	nb := (n + per - 1) / per
	lib.Parallel(nb, 12, func(bi int) {
		base := bi * per
		if c.OnlyIdx >= 0 && (c.OnlyIdx < base || c.OnlyIdx >= base+per) {
			return
		}
		cr := c.Child("batch", batchReq{Seed: c.CaseRng("batch", bi).U64(), N: per, Base: base}, lib.ChildOpts{Timeout: 10 * time.Minute})
		if cr.TimedOut || cr.Died {
			c.Inconclusive("batch %d failed: %.300s", bi, cr.Stderr)
			return
		}
		var rs []txRes
		if err := json.Unmarshal(cr.Out, &rs); err != nil {
			c.Inconclusive("batch %d: %v", bi, err)
			return
		}
		for _, r := range rs {
			hit := r.Tx.Pos != "none"
			pos := r.Tx.Pos
			if strings.HasPrefix(pos, "group-member") {
				pos = "group-member-to"
			}
			c.Case(fmt.Sprintf("%s/%s/%s/%v", r.Tx.Kind, pos, r.Tx.Spelling, r.Height >= forkH), hit, map[string]any{"tx": r.Tx, "height": r.Height, "receipt_types": r.Ty, "pool": r.Pool})
			if r.Tx.Kind == "proxy" || r.Tx.Kind == "delay" {
				c.Count(r.Tx.Kind+"_txs", 1)
				if !hit && r.Pool == "accepted" {
					c.Count("clean_"+r.Tx.Kind+"_accepted_by_pool", 1)
				}
				if !hit && r.Tx.Kind == "proxy" {
					for _, t := range r.Ty {
						if t == types.ExecOk {
							c.Count("clean_proxy_executed_ok", 1)
						}
					}
				}
			}
			if hit {
				c.Count("txs_touching_blacklist", 1)
				c.Seen("positions", pos)
				c.Seen("spellings", r.Tx.Spelling)
			} else {
				c.Count("clean_txs", 1)
				if r.Pool == "accepted" {
					c.Count("clean_txs_accepted_by_pool", 1)
				}
				ok := false
				for _, t := range r.Ty {
					if t != types.ExecErr {
						ok = true
					}
				}
				if ok {
					c.Count("clean_txs_executed", 1)
				}
			}
			if r.Problem != "" {
				c.Violation(r.Index, fmt.Sprintf("%s/%s/%s", r.Tx.Kind, pos, r.Tx.Spelling), r, "tx %d: %s", r.Index, r.Problem)
			}
		}
	})
	c.RequireEvents("txs_touching_blacklist", 200)
	c.RequireEvents("clean_txs_executed", 100)
	c.RequireEvents("clean_txs_accepted_by_pool", 50)
	c.RequireEvents("clean_proxy_executed_ok", 5)
	c.RequireEvents("clean_delay_accepted_by_pool", 5)
	c.RequireEvents("clean_proxy_accepted_by_pool", 5)
}

func main() { lib.Main("C31", "exploration", run) }
