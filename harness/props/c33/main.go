// C33: peer input can never crash the node or stop one of its background loops.
//
// Parent = supervisor. Every batch runs in a child process (plain, and a second set under -race: checkptr) holding ONE
// real node (broadcast + download + peer protocols on an in-process libp2p host with real gossipsub, connection gater
// and blacklist, real mempool, harness responders for blockchain/execs), one good peer and a hostile peer. The hostile
// peer (a) opens streams on every /chain33/ protocol id the node registers and writes arbitrary frames, (b) answers
// the node's own requests (block download, peer info, version) with hostile frames, (c) publishes structurally mutated
// messages on every pubsub topic, incl. light blocks whose short hashes resolve to transaction groups that run past
// the end of the block, before and after the block is stored as pending, (d) drives the subscriber path directly.
// Every input is appended to an on-disk log BEFORE it is handed to the node. After the batch one well-formed input
// per receive path / background loop must still be processed (probes.go). Child death or a dead loop = violation; the
// witness is minimised by re-running the last logged scenarios one at a time in fresh children.
package main

import (
	"bufio"
	"encoding/json"
	"fmt"
	"os"
	"path/filepath"
	"regexp"
	"sort"
	"strings"
	"sync"
	"time"

	"verifharness/lib"
)

type logLine struct {
	S    int    `json:"s"`
	Kind string `json:"kind"`
}

func readLog(path string) (lines []string, scen []int, kinds map[int]string) {
	kinds = map[int]string{}
	f, err := os.Open(path)
	if err != nil {
		return
	}
	defer f.Close()
	sc := bufio.NewScanner(f)
	sc.Buffer(make([]byte, 1<<20), 1<<26)
	seen := map[int]bool{}
	for sc.Scan() {
		l := sc.Text()
		lines = append(lines, l)
		var ll logLine
		if json.Unmarshal([]byte(l), &ll) == nil && ll.S >= 0 {
			if !seen[ll.S] {
				seen[ll.S] = true
				scen = append(scen, ll.S)
			}
			if _, ok := kinds[ll.S]; !ok {
				kinds[ll.S] = ll.Kind
			}
		}
	}
	return
}

var (
	numRe  = regexp.MustCompile(`\b(0x[0-9a-f]+|[0-9]+)\b`)
	funcRe = regexp.MustCompile(`^([^\s(][^\s]*)\(`)
)

// crashSignature condenses the child's stderr: reason, innermost chain33 function of the dying goroutine, its root.
func crashSignature(stderr string) (shape, reason string, stack []string) {
	ls := strings.Split(stderr, "\n")
	start := -1
	for i, l := range ls {
		if strings.HasPrefix(l, "panic:") || strings.HasPrefix(l, "fatal error:") || strings.HasPrefix(l, "runtime: out of memory") {
			start = i
			break
		}
	}
	if start < 0 {
		return "unknown-death", "", nil
	}
	reason = strings.TrimSpace(ls[start])
	norm := numRe.ReplaceAllString(reason, "N")
	norm = strings.NewReplacer(" ", "-", ":", "", "[", "", "]", "", ",", "").Replace(norm)
	if len(norm) > 70 {
		norm = norm[:70]
	}
	// first goroutine block after the reason
	var fn, root string
	in := false
	for _, l := range ls[start+1:] {
		if strings.HasPrefix(l, "goroutine ") {
			if in {
				break
			}
			in = true
			continue
		}
		if !in {
			continue
		}
		if strings.TrimSpace(l) == "" {
			break
		}
		if m := funcRe.FindStringSubmatch(l); m != nil {
			name := m[1]
			stack = append(stack, name)
			if fn == "" && strings.Contains(name, "chain33/") && !strings.Contains(name, "verif") {
				fn = name[strings.LastIndex(name, "/")+1:]
			}
		}
		if strings.HasPrefix(l, "created by ") {
			root = strings.Fields(l)[2]
			root = root[strings.LastIndex(root, "/")+1:]
		}
	}
	if len(stack) > 12 {
		stack = stack[:12]
	}
	// a panic raised by harness code itself (no node frame between the fault and the first harness frame)
	for _, name := range stack {
		if strings.HasPrefix(name, "main.") || strings.HasPrefix(name, "verifharness/") {
			return "harness-death", reason, stack
		}
		if strings.Contains(name, "system/p2p/") || strings.Contains(name, "system/mempool") || strings.Contains(name, "chain33/queue") || strings.Contains(name, "chain33/p2p") {
			break
		}
	}
	shape = "crash:" + norm
	if fn != "" {
		shape += ":" + fn
	}
	if root != "" {
		shape += "<-" + root
	}
	return
}

func run(c *lib.Ctx) {
	c.Rule("batch i = PRNG-determined sequence of scenarios against one fresh node per child process: stream frames on the 7 /chain33/ protocol ids (nothing, header only, bad header, empty message, over-long and maximal length prefixes, truncated, absent sub-message, garbage, wrong type, extreme values, byte mutations), " +
		"hostile replies to the node's download / peer-info / version requests, pubsub payloads (not snappy, snappy of garbage, declared length 2^26..30, byte-mutated snappy/protobuf, wrong type) and structure-aware mutations of valid tx / batch / block / light block / peer messages, " +
		"light blocks with count != hash list, negative, 0, 2^14..22, >= 2^45 and (one per batch) 2^36, light blocks whose short hash resolves to a group that runs past the end of the block with the group reaching the pool before or after the block is pending, " +
		"direct subscriber-path injection on all topics, floods of block requests followed by chain growth. Every scenario is logged to disk before execution. " +
		"Oracle: the child survives (also under -race/checkptr) and, after the batch, 13 well-formed probes are processed within the bound: block/tx/batch via pubsub, pending-loop completion and timeout request, block-request loop, four stream protocols, a download task, the peer-info refresh loop, the denied-peer loop. " +
		"Block-topic heights above 2^20 are only sent in the last 15% of a batch (they close the validator's height window, F-C33-4). non-trivial batch = >= 1 injection on each of the stream, pubsub, handler and reply paths and every probe answered (or diagnosed as the known height-window poisoning); fingerprint = batch seed")
	c.Assume("liveness restated as bounded: each probe (retried with fresh messages) must succeed within 90 s; every probed loop ticks at <= 3 s",
		"the blockchain module behind the queue answers every broadcast block (accept, or reject for the denied-peer probe) and holds a block for every height <= its current height",
		"allocation sizes that merely exhaust the machine (several hundred MB per message) are not generated in bulk; a single 2^36-count light block per batch probes the unbounded allocation",
		"data-race reports of the race children are counted, not deciding (the property is about crashes); checkptr faults and fatal errors kill the child and decide")
	nPlain, nRace := c.N(14, 120), c.N(4, 16)
	perPlain, perRace := 400, 60 // scenarios per batch
	if !c.Quick() {
		perPlain, perRace = 1500, 300
	}
	type job struct {
		idx  int
		race bool
		n    int
	}
	var jobs []job
	for i := 0; i < nRace; i++ {
		if !c.Skip(100000 + i) {
			jobs = append(jobs, job{100000 + i, true, perRace})
		}
	}
	for i := 0; i < nPlain; i++ {
		if !c.Skip(i) {
			jobs = append(jobs, job{i, false, perPlain})
		}
	}
	logDir := filepath.Join(c.Tmp, "logs")
	os.MkdirAll(logDir, 0o755)
	var mu sync.Mutex
	raceKeys := map[string]int{}
	allKinds := map[string]bool{}
	mkIn := func(j job) batchIn {
		rng := c.CaseRng("batch", j.idx)
		in := batchIn{Idx: j.idx, Seed: rng.U64(), N: j.n, HugeAt: -1, LogPath: filepath.Join(logDir, fmt.Sprintf("batch-%d.log", j.idx))}
		if rng.Chance(50) {
			in.HugeAt = j.n - 1 - rng.Intn(20)
		}
		if rng.Chance(50) {
			in.VerLimit = "1.60.0"
		}
		in.FutureAt = -1
		if j.idx%4 == 1 { // every fourth batch ends with a block of height 2^63-1 (F-C33-4)
			in.FutureAt = j.n - 21
		}
		return in
	}
	lib.Parallel(len(jobs), 16, func(k int) {
		j := jobs[k]
		in := mkIn(j)
		os.Remove(in.LogPath)
		res := c.Child("batch", in, lib.ChildOpts{Race: j.race, Timeout: 20 * time.Minute})
		mu.Lock()
		c.Count("children", 1)
		if j.race {
			c.Count("children_race", 1)
			reports := lib.ParseRaceLogs(res.RaceLogs)
			c.Count("race_reports", int64(len(reports)))
			for _, r := range reports {
				raceKeys[innerFrame(r.Frames[0])+" <-> "+innerFrame(r.Frames[1])]++
			}
		}
		mu.Unlock()
		if res.TimedOut {
			c.Inconclusive("batch %d: child watchdog fired after %d ms", j.idx, res.WallMs)
			return
		}
		var out batchOut
		parsed := res.Out != nil && json.Unmarshal(res.Out, &out) == nil
		if !parsed || (res.Died && res.ExitCode != 66) {
			reportCrash(c, j.idx, j.race, in, res)
			return
		}
		if out.Fatal != "" {
			c.Inconclusive("batch %d: harness could not set up the node environment: %s", j.idx, out.Fatal)
			return
		}
		mu.Lock()
		defer mu.Unlock()
		for k, v := range out.Counters {
			c.Count(k, v)
		}
		for _, k := range out.Kinds {
			allKinds[k] = true
			c.Seen("input_kinds", k)
		}
		answered := 0
		for _, p := range out.Probes {
			if p.Harness != "" {
				c.Inconclusive("batch %d: probe %s could not be run: %s", j.idx, p.Name, p.Harness)
				continue
			}
			c.Count("probes_sent", 1)
			if p.OK {
				answered++
				c.Count("probes_answered", 1)
				c.Count("probe_ok_"+p.Name, 1)
				continue
			}
			_, scen, _ := readLog(in.LogPath)
			fmt.Fprintf(os.Stderr, "")
			c.Violation(j.idx, "loop-dead:"+p.Name, map[string]any{"batch": in, "probe": p, "scenarios_executed": len(scen), "log_tail": tail(in.LogPath, 6)},
				"batch %d: after %d hostile scenarios the well-formed probe %q was not processed (%d tries over %d ms, bound %v; %s): the receive path / background loop behind it no longer works",
				j.idx, len(scen), p.Name, p.Tries, p.Ms, probeBound, p.Detail)
		}
		cn := out.Counters
		if c.Replay != "" && os.Getenv("VERIF_C33_DEBUG") != "" {
			b, _ := json.MarshalIndent(cn, "", " ")
			fmt.Fprintln(os.Stderr, string(b))
		}
		poisoned := 0
		for _, p := range out.Probes {
			if !p.OK && strings.HasSuffix(p.Name, ":height-window-poisoned") {
				poisoned++
			}
		}
		nontrivial := cn["inj_stream"] > 0 && cn["inj_pubsub"] > 0 && cn["inj_handler"] > 0 && cn["inj_download_reply"] > 0 && answered+poisoned == len(out.Probes) && answered > 0
		c.Case(lib.Fingerprint([]any{in.Seed, j.race}), nontrivial, map[string]any{"batch": j.idx, "race": j.race, "scenarios": in.N, "injections": map[string]int64{
			"stream": cn["inj_stream"], "pubsub": cn["inj_pubsub"], "handler": cn["inj_handler"], "download_reply": cn["inj_download_reply"], "peerinfo_reply": cn["inj_peerinfo_reply"], "version_reply": cn["inj_version_reply"]},
			"probes_answered": answered, "wall_ms": res.WallMs})
		if d := os.Getenv("VERIF_C33_KEEPLOGS"); d != "" {
			os.MkdirAll(d, 0o755)
			os.Rename(in.LogPath, filepath.Join(d, filepath.Base(in.LogPath)))
		}
		os.Remove(in.LogPath)
	})
	c.Extra("race_reports_by_frame_pair", raceKeys)
	if c.Replay == "" {
		c.RequireEvents("inj_stream", 500)
		c.RequireEvents("inj_pubsub", 1000)
		c.RequireEvents("inj_handler", 500)
		c.RequireEvents("inj_download_reply", 50)
		c.RequireEvents("inj_peerinfo_reply", 20)
		c.RequireEvents("probes_answered", 100)
		c.RequireEvents("group_tail_pool_updates", 20)
	}
}

func innerFrame(frames []string) string {
	for _, f := range frames {
		if strings.Contains(f, "chain33") || strings.Contains(f, "/repo/") || strings.Contains(f, "/system/") {
			if i := strings.Index(f, "@"); i > 0 {
				return f[:i]
			}
			return f
		}
	}
	if len(frames) > 0 {
		return frames[0]
	}
	return "?"
}

func tail(path string, n int) []string {
	lines, _, _ := readLog(path)
	if len(lines) > n {
		lines = lines[len(lines)-n:]
	}
	for i, l := range lines {
		if len(l) > 700 {
			lines[i] = l[:700] + "..."
		}
	}
	return lines
}

var crashMu sync.Mutex

// reportCrash turns a dead child into a violation with a minimised witness: the last logged scenarios are re-run
// one at a time (fresh child each) until one reproduces the death on its own.
func reportCrash(c *lib.Ctx, idx int, race bool, in batchIn, res lib.ChildResult) {
	shape, reason, stack := crashSignature(res.Stderr)
	if shape == "harness-death" {
		c.Inconclusive("batch %d: the harness itself panicked: %s (%s)", idx, reason, strings.Join(stack, " <- "))
		return
	}
	lines, scen, kinds := readLog(in.LogPath)
	witness := map[string]any{"batch": in, "race": race, "reason": reason, "stack": stack, "scenarios_executed": len(scen), "log_tail": tail(in.LogPath, 8), "stderr": firstLines(res.Stderr, 40)}
	_ = lines
	// candidates: the last scenarios, newest first
	var cands []int
	for i := len(scen) - 1; i >= 0 && len(cands) < 6; i-- {
		cands = append(cands, scen[i])
	}
	minimal := ""
	crashMu.Lock() // one minimisation at a time (keeps the process count bounded)
	for _, s := range cands {
		in2 := in
		in2.Only = []int{s}
		in2.SkipProbes = true
		in2.LogPath = in.LogPath + fmt.Sprintf(".min-%d", s)
		os.Remove(in2.LogPath)
		r2 := c.Child("batch", in2, lib.ChildOpts{Race: race, Timeout: 5 * time.Minute})
		c.Count("minimisation_children", 1)
		if r2.TimedOut {
			continue
		}
		var o2 batchOut
		if r2.Out == nil || json.Unmarshal(r2.Out, &o2) != nil || (r2.Died && r2.ExitCode != 66) {
			sh2, reason2, stack2 := crashSignature(r2.Stderr)
			if sh2 == shape || shape == "unknown-death" {
				shape = sh2
				minimal = kinds[s]
				witness["minimal_scenario"] = s
				witness["minimal_kind"] = kinds[s]
				witness["minimal_log"] = tail(in2.LogPath, 6)
				witness["reason"], witness["stack"] = reason2, stack2
				witness["replay_input"] = in2
				break
			}
		}
	}
	crashMu.Unlock()
	_ = minimal
	c.Violation(idx, shape, witness, "batch %d (%s): node process died (exit %d) after %d scenarios: %s; dying goroutine: %s; last logged input: %s; minimal reproducer: %v",
		idx, map[bool]string{false: "plain", true: "race/checkptr"}[race], res.ExitCode, len(scen), reason, strings.Join(stack, " <- "), strings.Join(tail(in.LogPath, 1), ""), witness["minimal_kind"])
}

func firstLines(s string, n int) string {
	ls := strings.Split(s, "\n")
	if len(ls) > n {
		ls = ls[:n]
	}
	return strings.Join(ls, "\n")
}

var _ = sort.Strings

func main() {
	lib.RegisterChild("batch", child)
	lib.Main("C33", "exploration", run)
}
