package main

import (
	"encoding/binary"
	"fmt"

	"github.com/33cn/chain33/types"

	"verifharness/lib"
	"verifharness/p2penv"
)

// byte-level mutation of an encoding
func mutateBytes(rng *lib.Rng, b []byte) []byte {
	out := append([]byte(nil), b...)
	if len(out) == 0 {
		return rng.Bytes(rng.Range(1, 16))
	}
	for k := rng.Range(1, 4); k > 0; k-- {
		switch rng.Intn(7) {
		case 0: // flip
			out[rng.Intn(len(out))] ^= byte(1 << uint(rng.Intn(8)))
		case 1: // truncate
			out = out[:rng.Intn(len(out)+1)]
		case 2: // duplicate a slice
			i := rng.Intn(len(out))
			j := i + rng.Intn(len(out)-i+1)
			out = append(out[:j:j], append(append([]byte(nil), out[i:j]...), out[j:]...)...)
		case 3: // overwrite with 0xff (maximal varints / lengths)
			i := rng.Intn(len(out))
			for j := i; j < len(out) && j < i+rng.Range(1, 10); j++ {
				out[j] = 0xff
			}
		case 4: // insert random bytes
			i := rng.Intn(len(out) + 1)
			out = append(out[:i:i], append(rng.Bytes(rng.Range(1, 12)), out[i:]...)...)
		case 5: // zero a range
			i := rng.Intn(len(out))
			for j := i; j < len(out) && j < i+rng.Range(1, 8); j++ {
				out[j] = 0
			}
		case 6: // append a field with a huge declared length
			var l [binary.MaxVarintLen64]byte
			n := binary.PutUvarint(l[:], uint64(1)<<uint(rng.Range(20, 62)))
			out = append(out, byte(rng.Range(1, 15)<<3|2))
			out = append(out, l[:n]...)
		}
		if len(out) == 0 {
			out = []byte{0}
		}
	}
	return out
}

// asciiJunk: printable garbage (string fields must be valid UTF-8 to be encodable at all; invalid UTF-8 reaches the
// node through the byte-level mutations)
func asciiJunk(rng *lib.Rng, n int) string {
	const cs = "abcXYZ019/.:@-_ %\\\"'{}[]<>|~!#$^&*()+=?,;"
	b := make([]byte, n)
	for i := range b {
		b[i] = cs[rng.Intn(len(cs))]
	}
	return string(b)
}

// lateHeights: the batch has reached its last part (see mutateBlock)
var lateHeights bool

var extremeI64 = []int64{0, -1, 1, -1 << 63, 1<<63 - 1, 1 << 31, 1<<31 - 1, -1 << 31, 1 << 20, 255, 256, 257, 1 << 40}

// mutateTx: structure-aware mutation of a valid transaction
func mutateTx(rng *lib.Rng, tx *types.Transaction) (*types.Transaction, string) {
	t := types.CloneTx(tx)
	if tx.Signature != nil {
		t.Signature = &types.Signature{Ty: tx.Signature.Ty, Pubkey: append([]byte(nil), tx.Signature.Pubkey...), Signature: append([]byte(nil), tx.Signature.Signature...)}
	}
	switch k := rng.Intn(14); k {
	case 0:
		t.Signature = nil
		return t, "nil-signature"
	case 1:
		t.Signature.Pubkey = rng.Bytes(rng.Intn(70))
		return t, "garbage-pubkey"
	case 2:
		t.Signature.Ty = int32(lib.Pick(rng, extremeI64))
		return t, "sign-type"
	case 3:
		t.Execer = nil
		return t, "nil-execer"
	case 4:
		t.Execer = rng.Bytes(rng.Range(1, 300))
		return t, "garbage-execer"
	case 5:
		t.Expire = lib.Pick(rng, extremeI64)
		return t, "expire"
	case 6:
		t.Fee = lib.Pick(rng, extremeI64)
		return t, "fee"
	case 7:
		t.GroupCount = int32(lib.Pick(rng, []int64{2, 3, 20, 21, -1, 1, 1 << 30}))
		t.Header = rng.Bytes(rng.Intn(64))
		return t, "groupcount-with-garbage-header"
	case 8:
		t.GroupCount = 2
		t.Header = types.Encode(&types.Transactions{Txs: []*types.Transaction{{}, {}}})
		t.Next = rng.Bytes(32)
		return t, "group-of-empty-txs"
	case 9:
		t.To = asciiJunk(rng, rng.Intn(80))
		return t, "garbage-to"
	case 10:
		t.Payload = rng.Bytes(rng.Intn(2000))
		return t, "payload"
	case 11:
		t.ChainID = int32(lib.Pick(rng, extremeI64))
		return t, "chainid"
	case 12:
		return &types.Transaction{}, "empty-tx"
	default:
		t.Signature.Signature = rng.Bytes(rng.Intn(80))
		return t, "garbage-signature"
	}
}

// mutateBlock: structure-aware mutation of a valid block
func mutateBlock(rng *lib.Rng, b *types.Block) (*types.Block, string) {
	nb := types.Clone(b).(*types.Block)
	switch rng.Intn(12) {
	case 0:
		nb.Txs = nil
		return nb, "no-txs"
	case 1:
		nb.Height = lib.Pick(rng, extremeI64)
		if !lateHeights && nb.Height > b.Height+100 {
			// a huge height on the block topic closes the validator's height window for the rest of the batch (F-C33-4):
			// such blocks are only sent in the last part of a batch so that the block path stays exercised before
			nb.Height = b.Height + 100
		}
		return nb, "height"
	case 2:
		nb.TxHash = rng.Bytes(rng.Intn(40))
		return nb, "txhash"
	case 3:
		nb.ParentHash = nil
		nb.StateHash = nil
		return nb, "nil-hashes"
	case 4:
		nb.BlockTime = lib.Pick(rng, extremeI64)
		return nb, "blocktime"
	case 5:
		nb.Difficulty = uint32(rng.U64())
		return nb, "difficulty"
	case 6:
		nb.Signature = &types.Signature{Ty: int32(rng.Intn(10)), Pubkey: rng.Bytes(rng.Intn(40)), Signature: rng.Bytes(rng.Intn(80))}
		return nb, "signature"
	case 7:
		nb.Txs = append(nb.Txs, &types.Transaction{})
		return nb, "empty-tx-appended"
	case 8:
		if len(nb.Txs) > 0 {
			t, _ := mutateTx(rng, nb.Txs[rng.Intn(len(nb.Txs))])
			nb.Txs[rng.Intn(len(nb.Txs))] = t
		}
		return nb, "mutated-tx-inside"
	case 9:
		nb.Version = lib.Pick(rng, extremeI64)
		nb.MainHeight = lib.Pick(rng, extremeI64)
		nb.MainHash = rng.Bytes(rng.Intn(40))
		return nb, "version-main"
	case 10:
		return &types.Block{}, "empty-block"
	default:
		nb.Height = -nb.Height
		return nb, "negative-height"
	}
}

// ltVariant: hostile light blocks derived from a valid block
func ltVariant(rng *lib.Rng, lt *types.LightBlock) (*types.LightBlock, string) {
	c := types.Clone(lt).(*types.LightBlock)
	n := int64(len(c.STxHashes))
	switch rng.Intn(16) {
	case 0:
		c.Header.TxCount = n + int64(rng.Range(1, 5))
		return c, "count>hashes"
	case 1:
		c.Header.TxCount = n - int64(rng.Range(1, int(n)))
		return c, "count<hashes"
	case 2:
		c.Header.TxCount = 0
		return c, "count=0"
	case 3:
		c.Header.TxCount = -int64(rng.Range(1, 1<<20))
		return c, "count<0"
	case 4:
		c.Header.TxCount = int64(1) << uint(rng.Range(14, 22))
		return c, "count=2^14..22"
	case 5:
		c.Header.TxCount = int64(1) << uint(rng.Range(45, 62))
		return c, "count>=2^45"
	case 6:
		c.MinerTx = nil
		return c, "nil-miner"
	case 7:
		c.Header = nil
		return c, "nil-header"
	case 8:
		c.STxHashes = nil
		return c, "no-hashes"
	case 9:
		c.Header.Hash = nil
		return c, "nil-hash"
	case 10:
		for i := range c.STxHashes {
			c.STxHashes[i] = ""
		}
		return c, "empty-short-hashes"
	case 11:
		if n > 1 {
			c.STxHashes[n-1] = c.STxHashes[1]
		}
		_ = n
		return c, "duplicate-short-hash"
	case 12:
		c.Header.Height = lib.Pick(rng, extremeI64)
		return c, "height"
	case 13:
		c.STxHashes = append(c.STxHashes, c.STxHashes...)
		return c, "hashes-doubled"
	case 14:
		c.Size = lib.Pick(rng, extremeI64)
		c.Header.Signature = &types.Signature{Pubkey: rng.Bytes(10)}
		return c, "size-signature"
	default:
		c.Header.TxCount = 1
		c.STxHashes = c.STxHashes[:1]
		return c, "miner-only"
	}
}

// peerMsgVariant: hostile per-peer messages
func peerMsgVariant(rng *lib.Rng, valid *types.Block) (*types.PeerPubSubMsg, string) {
	switch rng.Intn(10) {
	case 0:
		return &types.PeerPubSubMsg{MsgID: p2penv.BlockReqMsgID, ProtoMsg: types.Encode(&types.ReqInt{Height: lib.Pick(rng, extremeI64)})}, "blockreq-extreme-height"
	case 1:
		return &types.PeerPubSubMsg{MsgID: p2penv.BlockReqMsgID, ProtoMsg: rng.Bytes(rng.Intn(30))}, "blockreq-garbage"
	case 2:
		return &types.PeerPubSubMsg{MsgID: p2penv.BlockReqMsgID}, "blockreq-nil-body"
	case 3:
		return &types.PeerPubSubMsg{MsgID: p2penv.BlockRespMsgID}, "blockresp-nil-body"
	case 4:
		return &types.PeerPubSubMsg{MsgID: p2penv.BlockRespMsgID, ProtoMsg: rng.Bytes(rng.Intn(200))}, "blockresp-garbage"
	case 5:
		b, k := mutateBlock(rng, valid)
		return &types.PeerPubSubMsg{MsgID: p2penv.BlockRespMsgID, ProtoMsg: types.Encode(b)}, "blockresp-" + k
	case 6:
		return &types.PeerPubSubMsg{MsgID: int32(lib.Pick(rng, extremeI64)), ProtoMsg: rng.Bytes(rng.Intn(50))}, "unknown-msgid"
	case 7:
		return &types.PeerPubSubMsg{}, "empty"
	case 8:
		return &types.PeerPubSubMsg{MsgID: p2penv.BlockReqMsgID, ProtoMsg: types.Encode(&types.ReqInt{Height: int64(rng.Range(1, 100000))})}, "blockreq-future-height"
	default:
		return &types.PeerPubSubMsg{MsgID: p2penv.BlockRespMsgID, ProtoMsg: mutateBytes(rng, types.Encode(valid))}, "blockresp-bytes-mutated"
	}
}

// hostilePeerInfo: answers of a hostile peer to the node's peer-info query
func hostilePeerInfo(rng *lib.Rng, name string) ([]byte, string) {
	good := &types.Peer{Addr: "10.1.2.3", Port: 13803, Name: name, MempoolSize: 3, Header: &types.Header{Height: int64(rng.Range(1, 1000))}, Version: "6.8.0@1.68.0", RunningTime: "1.0 minutes"}
	switch rng.Intn(14) {
	case 0:
		good.Header = nil
		return p2penv.Frame(types.Encode(good)), "nil-header"
	case 1:
		good.Name = ""
		return p2penv.Frame(types.Encode(good)), "empty-name"
	case 2:
		good.Name = asciiJunk(rng, rng.Range(1, 60))
		return p2penv.Frame(types.Encode(good)), "garbage-name"
	case 3:
		good.Version = lib.Pick(rng, []string{"", "@", "a@", "@1", "x@1.2", "x@a.b.c", "x@1.2.3.4.5", "x@-1.-1.-1", "x@99999999999999999999.1.1", "1@2@3", "v@..", "v@1..3"})
		return p2penv.Frame(types.Encode(good)), "version-string"
	case 4:
		good.Header.Height = lib.Pick(rng, extremeI64)
		return p2penv.Frame(types.Encode(good)), "extreme-height"
	case 5:
		return p2penv.Frame(nil), "empty-message"
	case 6:
		return p2penv.Frame(rng.Bytes(rng.Range(1, 300))), "garbage"
	case 7:
		body := types.Encode(good)
		return p2penv.FrameLen(uint64(len(body)), body[:len(body)/2]), "truncated"
	case 8:
		return p2penv.FrameLen(uint64(types.MaxBlockSize)+uint64(rng.Range(1, 1000)), []byte("x")), "overlong"
	case 9:
		return nil, "close-without-reply"
	case 10:
		return []byte("\x10/protobuf/yyyyy\n\x00"), "bad-header"
	case 11:
		good.Name = name
		good.Self = true
		good.Finalized = &types.SnowChoice{Height: -1, Hash: rng.Bytes(5)}
		return p2penv.Frame(types.Encode(good)), "self-flag"
	case 12:
		return p2penv.Frame(mutateBytes(rng, types.Encode(good))), "bytes-mutated"
	default:
		return p2penv.Frame(types.Encode(good)), "well-formed"
	}
}

// hostileVersion: answers of a hostile peer to the node's version query
func hostileVersion(rng *lib.Rng) ([]byte, string) {
	addrs := []string{"", "/", "/ip4", "/ip4/8.8.8.8/tcp/abc", "/x/8.8.8.8/y/80", "/ip4/8.8.8.8/tcp/13803", "/ip4/999.1.1.1/tcp/1", "////", "/ip4/8.8.8.8/tcp/99999999999999999999",
		"/ip6/::1/tcp/1", "8.8.8.8", "/ip4/1.1.1.1/udp/53/quic", asciiJunk(rng, 20), "/ip4/114.114.114.114/tcp/-1", "/dns4/example.com/tcp/80"}
	v := &types.P2PVersion{Version: int32(lib.Pick(rng, []int64{0, 0, 0, 1, -1})), AddrFrom: lib.Pick(rng, addrs), AddrRecv: lib.Pick(rng, addrs), Timestamp: lib.Pick(rng, extremeI64)}
	switch rng.Intn(8) {
	case 0:
		return p2penv.Frame(nil), "empty-message"
	case 1:
		return p2penv.Frame(rng.Bytes(rng.Range(1, 100))), "garbage"
	case 2:
		return nil, "close-without-reply"
	case 3:
		return p2penv.FrameLen(0xffffffff, []byte("x")), "overlong"
	default:
		return p2penv.Frame(types.Encode(v)), fmt.Sprintf("addr-from=%q addr-recv=%q", v.AddrFrom, v.AddrRecv)
	}
}

// hostile download replies
func hostileDownloadReply(rng *lib.Rng, h int64) ([]byte, string) {
	item := func(v *types.InvData) []byte {
		return p2penv.Frame(types.Encode(&types.MessageGetBlocksResp{Message: &types.InvDatas{Items: []*types.InvData{v}}}))
	}
	switch rng.Intn(16) {
	case 0:
		return p2penv.Frame(nil), "empty-message"
	case 1:
		return p2penv.Frame(types.Encode(&types.MessageGetBlocksResp{Message: &types.InvDatas{}})), "no-items"
	case 2:
		return item(&types.InvData{Ty: 2}), "item-without-value"
	case 3:
		return item(&types.InvData{Ty: 1, Value: &types.InvData_Tx{Tx: &types.Transaction{}}}), "item-is-tx"
	case 4:
		return item(&types.InvData{Ty: 2, Value: &types.InvData_Block{}}), "nil-block"
	case 5:
		return item(&types.InvData{Ty: 2, Value: &types.InvData_Block{Block: &types.Block{Height: lib.Pick(rng, extremeI64)}}}), "wrong-height"
	case 6:
		return p2penv.Frame(rng.Bytes(rng.Range(1, 400))), "garbage"
	case 7:
		body := types.Encode(&types.MessageGetBlocksResp{Message: &types.InvDatas{Items: []*types.InvData{{Ty: 2, Value: &types.InvData_Block{Block: p2penv.SynthBlock(h)}}}}})
		return p2penv.FrameLen(uint64(len(body)), body[:rng.Intn(len(body))]), "truncated"
	case 8:
		return p2penv.FrameLen(uint64(types.MaxBlockSize)+uint64(rng.Range(1, 1<<20)), []byte("abc")), "overlong"
	case 9:
		return p2penv.FrameLen(lib.Pick(rng, []uint64{0x7fffffff, 0x80000000, 0xffffffff}), nil), "length-2^31..32"
	case 10:
		return nil, "close-without-reply"
	case 11:
		return []byte("\x10/protobuf/zzzzz\n\x02ab"), "bad-header"
	case 12:
		b, k := mutateBlock(rng, p2penv.SynthBlock(h))
		return item(&types.InvData{Ty: 2, Value: &types.InvData_Block{Block: b}}), "block-" + k
	case 13:
		body := types.Encode(&types.MessageGetBlocksResp{Message: &types.InvDatas{Items: []*types.InvData{{Ty: 2, Value: &types.InvData_Block{Block: p2penv.SynthBlock(h)}}}}})
		return p2penv.Frame(mutateBytes(rng, body)), "bytes-mutated"
	case 14:
		var items []*types.InvData
		for i := 0; i < rng.Range(2, 300); i++ {
			items = append(items, &types.InvData{Ty: int32(rng.Intn(4))})
		}
		return p2penv.Frame(types.Encode(&types.MessageGetBlocksResp{Message: &types.InvDatas{Items: items}})), "many-empty-items"
	default:
		return p2penv.MsgHeader, "header-only"
	}
}

// stream frames written by the hostile peer to one of the node's protocol ids
func hostileFrame(rng *lib.Rng, proto string, channel int32) ([]byte, string) {
	var valid types.Message
	var absent types.Message
	switch proto {
	case p2penv.ProtoDownloadOld:
		valid = &types.MessageGetBlocksReq{Message: &types.P2PGetBlocks{StartHeight: 1, EndHeight: 1}}
		absent = &types.MessageGetBlocksReq{}
	case p2penv.ProtoDownload:
		valid = &types.ReqBlocks{Start: 1, End: 1}
		absent = &types.ReqBlocks{}
	case p2penv.ProtoPeerInfoOld:
		valid = &types.MessagePeerInfoReq{}
		absent = &types.MessagePeerInfoReq{}
	case p2penv.ProtoVersionOld:
		valid = &types.MessageP2PVersionReq{Message: &types.P2PVersion{Version: channel, AddrFrom: "/ip4/8.8.8.8/tcp/13803", AddrRecv: "/ip4/9.9.9.9/tcp/13803"}}
		absent = &types.MessageP2PVersionReq{}
	case p2penv.ProtoVersion:
		valid = &types.P2PVersion{Version: channel, AddrFrom: "/ip4/8.8.8.8/tcp/13803", AddrRecv: "/ip4/9.9.9.9/tcp/13803"}
		absent = &types.P2PVersion{}
	default:
		valid = &types.P2PVersion{}
		absent = &types.ReqNil{}
	}
	switch rng.Intn(13) {
	case 0:
		return nil, "nothing"
	case 1:
		return p2penv.MsgHeader, "header-only"
	case 2:
		return rng.Bytes(17), "bad-header"
	case 3:
		return p2penv.Frame(nil), "empty-message"
	case 4:
		return p2penv.FrameLen(uint64(types.MaxBlockSize)+uint64(rng.Range(1, 1<<20)), rng.Bytes(8)), "overlong-prefix"
	case 5:
		return p2penv.FrameLen(lib.Pick(rng, []uint64{0x7fffffff, 0x80000000, 0xffffffff, uint64(types.MaxBlockSize), uint64(types.MaxBlockSize) - 1}), rng.Bytes(rng.Intn(40))), "length-max"
	case 6:
		body := types.Encode(valid)
		return p2penv.FrameLen(uint64(len(body)+rng.Range(1, 1000)), body), "truncated"
	case 7:
		return p2penv.Frame(types.Encode(absent)), "absent-sub-message"
	case 8:
		return p2penv.Frame(rng.Bytes(rng.Range(1, 500))), "garbage"
	case 9:
		return p2penv.Frame(types.Encode(&types.Block{Height: 5, Txs: []*types.Transaction{{Payload: rng.Bytes(30)}}})), "wrong-type"
	case 10:
		var m types.Message
		a, b := lib.Pick(rng, extremeI64), lib.Pick(rng, extremeI64)
		addrs := []string{"/x/8.8.8.8/y/80", "/ip4/8.8.8.8/tcp/abc", "/ip4/8.8.8.8/tcp/1", "", "////", "/ip4/114.114.114.114/tcp/99999999999999999999"}
		switch proto {
		case p2penv.ProtoDownloadOld:
			m = &types.MessageGetBlocksReq{Message: &types.P2PGetBlocks{StartHeight: a, EndHeight: b, Version: int32(a)}}
		case p2penv.ProtoDownload:
			m = &types.ReqBlocks{Start: a, End: b, IsDetail: true, Pid: []string{"x", ""}}
		case p2penv.ProtoVersionOld:
			m = &types.MessageP2PVersionReq{Message: &types.P2PVersion{Version: lib.Pick(rng, []int32{channel, channel, channel + 1}), AddrFrom: lib.Pick(rng, addrs), AddrRecv: lib.Pick(rng, addrs)}}
		case p2penv.ProtoVersion:
			m = &types.P2PVersion{Version: lib.Pick(rng, []int32{channel, channel, channel, channel + 1}), AddrFrom: lib.Pick(rng, addrs), AddrRecv: lib.Pick(rng, addrs)}
		default:
			m = valid
		}
		return p2penv.Frame(types.Encode(m)), "extreme-values"
	case 11:
		return p2penv.Frame(mutateBytes(rng, types.Encode(valid))), "bytes-mutated"
	default:
		return p2penv.Frame(types.Encode(valid)), "well-formed"
	}
}
