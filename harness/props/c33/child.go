package main

import (
	"crypto/sha256"
	"encoding/binary"
	"encoding/hex"
	"encoding/json"
	"fmt"
	"os"
	"sync"
	"sync/atomic"
	"time"

	"github.com/33cn/chain33/system/p2p/dht/protocol"
	"github.com/33cn/chain33/types"
	"github.com/libp2p/go-libp2p/core/network"

	"verifharness/lib"
	"verifharness/p2penv"
)

type batchIn struct {
	Idx      int    `json:"idx"`
	Seed     uint64 `json:"seed"`
	N        int    `json:"n"`              // scenarios 0..N-1
	Only     []int  `json:"only,omitempty"` // minimisation: execute only these scenario indexes
	LogPath  string `json:"log"`
	HugeAt   int    `json:"huge_at"` // scenario index of the single huge-count light block (-1: none)
	FutureAt int    `json:"future_at"` // scenario index of a well-formed block of height 2^63-1 on the block topic (-1: none)
	VerLimit string `json:"ver_limit"`
	SkipProbes bool `json:"skip_probes,omitempty"`
}

type probeRes struct {
	Name   string `json:"name"`
	OK     bool   `json:"ok"`
	Ms     int64  `json:"ms"`
	Tries  int    `json:"tries"`
	Detail string `json:"detail,omitempty"`
	Harness string `json:"harness,omitempty"` // set when the harness itself could not run the probe (=> inconclusive)
}

type batchOut struct {
	Idx      int              `json:"idx"`
	Counters map[string]int64 `json:"counters"`
	Probes   []probeRes       `json:"probes"`
	Fatal    string           `json:"fatal,omitempty"`
	Kinds    []string         `json:"kinds"`
}

// ---------------------------------------------------------------------------------------------

type world struct {
	in   batchIn
	n    *p2penv.Node
	good *p2penv.Peer
	host *p2penv.Peer // current hostile identity
	nHostile int
	mu   sync.Mutex
	cnt  map[string]int64
	kinds map[string]bool
	log  *os.File
	logMu sync.Mutex
	replyRng *lib.Rng
	replyMu  sync.Mutex
	goodAdv  int64 // height the good peer advertises
	curH     int64 // node's current height
	nextH    int64
}

func (w *world) count(k string, v int64) {
	w.mu.Lock()
	w.cnt[k] += v
	w.mu.Unlock()
}

// logLine writes one JSON line to the on-disk log BEFORE the described input is handed to the node.
func (w *world) logLine(s int, kind string, detail map[string]any) {
	if detail == nil {
		detail = map[string]any{}
	}
	detail["s"] = s
	detail["kind"] = kind
	b, _ := json.Marshal(detail)
	w.logMu.Lock()
	w.log.Write(append(b, '\n'))
	w.logMu.Unlock()
	w.mu.Lock()
	w.kinds[kind] = true
	w.mu.Unlock()
}

func hexCap(b []byte) string {
	if len(b) > 3000 {
		return hex.EncodeToString(b[:3000]) + fmt.Sprintf("...(+%d bytes)", len(b)-3000)
	}
	return hex.EncodeToString(b)
}

func scenRng(seed uint64, s int) *lib.Rng {
	var b [16]byte
	binary.LittleEndian.PutUint64(b[:8], seed)
	binary.LittleEndian.PutUint64(b[8:], uint64(s))
	h := sha256.Sum256(b[:])
	return lib.NewRng(binary.LittleEndian.Uint64(h[:8]))
}

func child(in []byte) (any, error) {
	var bi batchIn
	if err := json.Unmarshal(in, &bi); err != nil {
		return nil, err
	}
	out := &batchOut{Idx: bi.Idx, Counters: map[string]int64{}}
	w := &world{in: bi, cnt: out.Counters, kinds: map[string]bool{}, replyRng: lib.NewRng(bi.Seed ^ 0x5eed), curH: 10, nextH: 100}
	var err error
	w.log, err = os.OpenFile(bi.LogPath, os.O_CREATE|os.O_WRONLY|os.O_APPEND, 0o644)
	if err != nil {
		return nil, err
	}
	defer w.log.Close()
	w.n = p2penv.NewNode(p2penv.Opts{LtPendTimeoutMs: 400, WithPeerProto: true, WithGater: true, VerLimit: bi.VerLimit})
	defer w.n.Close()
	w.n.Chain.Synth = true
	w.n.SetCurrentHeight(w.curH)
	w.n.Chain.Verdict = func(pid string, b *types.Block) *types.Reply {
		if b != nil && string(b.StateHash) == "verif-reject" {
			return &types.Reply{IsOk: false, Msg: []byte(types.ErrBlockHashNoMatch.Error())}
		}
		return nil
	}
	if err := w.setupGood(); err != nil {
		out.Fatal = "good peer: " + err.Error()
		return out, nil
	}
	if err := w.newHostile(); err != nil {
		out.Fatal = "hostile peer: " + err.Error()
		return out, nil
	}
	run := func(s int) {
		lateHeights = len(bi.Only) > 0 || s >= bi.N*85/100
		rng := scenRng(bi.Seed, s)
		w.scenario(s, rng)
	}
	if len(bi.Only) > 0 {
		for _, s := range bi.Only {
			run(s)
		}
	} else {
		for s := 0; s < bi.N; s++ {
			run(s)
		}
	}
	// let the background loops chew on what is stored (pending light blocks, block requests, broadcast replies)
	time.Sleep(1500 * time.Millisecond)
	w.count("pending_light_blocks_at_end", int64(w.n.Bc.PendLen()))
	w.count("pending_block_requests_at_end", int64(w.n.Bc.ReqLen()))
	if !bi.SkipProbes {
		t0 := time.Now()
		out.Probes = w.probes()
		w.count("probes_ms", time.Since(t0).Milliseconds())
	}
	w.count("hostile_identities", int64(w.nHostile))
	for k := range w.kinds {
		out.Kinds = append(out.Kinds, k)
	}
	return out, nil
}

// ---------------------------------------------------------------------------------------------
// peers

func goodPeerInfo(p *p2penv.Peer, h int64) *types.Peer {
	return &types.Peer{Addr: "127.0.0.1", Port: 13803, Name: p.ID().Pretty(), Header: &types.Header{Height: h}, Version: "6.8.0@1.68.0", RunningTime: "1.000 minutes", FullNode: true}
}

func (w *world) setupGood() error {
	g := p2penv.NewPeer(w.n.Ctx, fmt.Sprintf("good-%d", w.in.Seed), true)
	w.good = g
	atomic.StoreInt64(&w.goodAdv, 100000)
	g.Host.SetStreamHandler(p2penv.ProtoDownloadOld, func(s network.Stream) {
		defer s.Close()
		var req types.MessageGetBlocksReq
		if protocol.ReadStream(&req, s) != nil || req.Message == nil {
			return
		}
		_ = protocol.WriteStream(&types.MessageGetBlocksResp{Message: &types.InvDatas{Items: []*types.InvData{{Ty: 2, Value: &types.InvData_Block{Block: p2penv.SynthBlock(req.Message.StartHeight)}}}}}, s)
	})
	g.Host.SetStreamHandler(p2penv.ProtoPeerInfo, func(s network.Stream) {
		defer s.Close()
		_ = protocol.WriteStream(goodPeerInfo(g, atomic.LoadInt64(&w.goodAdv)), s)
	})
	g.Host.SetStreamHandler(p2penv.ProtoVersion, func(s network.Stream) {
		defer s.Close()
		var req types.P2PVersion
		if protocol.ReadStream(&req, s) != nil {
			return
		}
		_ = protocol.WriteStream(&types.P2PVersion{Version: req.Version, AddrFrom: "/ip4/127.0.0.1/tcp/13803", AddrRecv: s.Conn().RemoteMultiaddr().String()}, s)
	})
	return w.linkPeer(g)
}

var allTopics = []string{p2penv.TopicTx, p2penv.TopicBatchTx, p2penv.TopicBlock, p2penv.TopicLtBlock}

func (w *world) linkPeer(p *p2penv.Peer) error {
	if p.DHT == nil {
		if err := p.StartDHT(w.n); err != nil {
			return err
		}
	}
	if err := w.n.Connect(p.Host); err != nil {
		return err
	}
	if err := p.ListenOwn(); err != nil {
		return err
	}
	ts := append(append([]string(nil), allTopics...), p2penv.PeerTopic(w.n.Host.ID()))
	if err := p.Join(ts...); err != nil {
		return err
	}
	w.n.AddRouting(p.ID())
	return p2penv.WaitTopicLink(w.n, p, p2penv.PeerTopic(p.ID()), ts, 90*time.Second)
}

func (w *world) nextReplyRng() *lib.Rng {
	w.replyMu.Lock()
	defer w.replyMu.Unlock()
	return w.replyRng.Fork()
}

// newHostile creates a fresh hostile identity (the node blacklists peers e.g. after a version mismatch).
func (w *world) newHostile() error {
	if w.host != nil {
		w.host.Close()
	}
	w.nHostile++
	h := p2penv.NewPeer(w.n.Ctx, fmt.Sprintf("hostile-%d-%d", w.in.Seed, w.nHostile), true)
	h.Host.SetStreamHandler(p2penv.ProtoDownloadOld, func(s network.Stream) {
		defer s.Close()
		var req types.MessageGetBlocksReq
		_ = s.SetDeadline(time.Now().Add(5 * time.Second))
		if protocol.ReadStream(&req, s) != nil {
			return
		}
		rng := w.nextReplyRng()
		raw, mode := hostileDownloadReply(rng, req.GetMessage().GetStartHeight())
		w.logLine(-1, "dlreply/"+mode, map[string]any{"height": req.GetMessage().GetStartHeight(), "reply": hexCap(raw)})
		w.count("inj_download_reply", 1)
		if raw != nil {
			s.Write(raw)
		}
	})
	h.Host.SetStreamHandler(p2penv.ProtoPeerInfo, func(s network.Stream) {
		defer s.Close()
		rng := w.nextReplyRng()
		raw, mode := hostilePeerInfo(rng, h.ID().Pretty())
		w.logLine(-1, "peerinfo-reply/"+mode, map[string]any{"reply": hexCap(raw)})
		w.count("inj_peerinfo_reply", 1)
		if raw != nil {
			s.Write(raw)
		}
	})
	h.Host.SetStreamHandler(p2penv.ProtoVersion, func(s network.Stream) {
		defer s.Close()
		var req types.P2PVersion
		_ = s.SetDeadline(time.Now().Add(5 * time.Second))
		_ = protocol.ReadStream(&req, s)
		rng := w.nextReplyRng()
		raw, mode := hostileVersion(rng)
		w.logLine(-1, "version-reply/"+mode, map[string]any{"reply": hexCap(raw)})
		w.count("inj_version_reply", 1)
		if raw != nil {
			s.Write(raw)
		}
	})
	w.host = h
	if err := w.linkPeer(h); err != nil {
		return err
	}
	w.n.SetPeerHeight(h.ID(), 1<<40)
	return nil
}

// ensureHostile makes sure the hostile peer still has a connection to the node.
func (w *world) ensureHostile() bool {
	if w.host.Host.Network().Connectedness(w.n.Host.ID()) == network.Connected {
		return true
	}
	if err := w.n.Connect(w.host.Host); err == nil {
		time.Sleep(50 * time.Millisecond)
		if w.host.Host.Network().Connectedness(w.n.Host.ID()) == network.Connected {
			return true
		}
	}
	w.count("hostile_rotated_after_disconnect", 1)
	return w.newHostile() == nil
}

// ---------------------------------------------------------------------------------------------
// scenarios

var streamProtos = []string{p2penv.ProtoDownloadOld, p2penv.ProtoDownload, p2penv.ProtoPeerInfoOld, p2penv.ProtoPeerInfo, p2penv.ProtoVersionOld, p2penv.ProtoVersion, p2penv.ProtoStatistical}

func (w *world) gen(s int) *p2penv.TxGen {
	return p2penv.NewTxGen(w.n.Cfg, fmt.Sprintf("c33-%d-%d", w.in.Seed, s))
}

func (w *world) validBlock(g *p2penv.TxGen, rng *lib.Rng, ntx int) *types.Block {
	txs := []*types.Transaction{g.Tx()}
	for i := 0; i < ntx; i++ {
		txs = append(txs, g.Tx())
	}
	w.nextH++
	return p2penv.MakeBlock(w.n.Cfg, w.nextH, rng.Bytes(32), types.Now().Unix(), txs)
}

func (w *world) publish(s int, kind, topic string, raw []byte, extra map[string]any) {
	if extra == nil {
		extra = map[string]any{}
	}
	extra["topic"] = topic
	extra["payload"] = hexCap(raw)
	w.logLine(s, kind, extra)
	if !w.ensureHostile() {
		w.count("inject_failed", 1)
		return
	}
	if err := w.host.Publish(topic, raw); err != nil {
		w.count("publish_errors", 1)
		return
	}
	w.count("inj_pubsub", 1)
	w.count("inj_pubsub_"+topicClass(topic), 1)
}

func topicClass(t string) string {
	switch t {
	case p2penv.TopicTx:
		return "tx"
	case p2penv.TopicBatchTx:
		return "batchtx"
	case p2penv.TopicBlock:
		return "block"
	case p2penv.TopicLtBlock:
		return "ltblock"
	}
	return "peermsg"
}

func (w *world) scenario(s int, rng *lib.Rng) {
	t0 := time.Now()
	class := "lt-huge"
	defer func() { w.count("scenario_ms_"+class, time.Since(t0).Milliseconds()); w.count("scenarios_"+class, 1) }()
	if s == w.in.HugeAt {
		w.scenLtHuge(s, rng)
		return
	}
	if s == w.in.FutureAt {
		class = "block-future-height"
		b := w.validBlock(w.gen(s), rng, 1)
		b.Height = 1<<63 - 1
		w.publish(s, "block/height=2^63-1", p2penv.TopicBlock, p2penv.Snap(b), nil)
		return
	}
	switch k := rng.Intn(100); {
	case k < 22:
		class = "stream"
		w.scenStream(s, rng)
	case k < 30:
		class = "download-from-hostile"
		w.scenDownloadFrom(s, rng)
	case k < 42:
		class = "pubsub-bytes"
		w.scenPubsubBytes(s, rng)
	case k < 62:
		class = "pubsub-struct"
		w.scenPubsubStruct(s, rng)
	case k < 74:
		class = "lt-variant"
		w.scenLtVariant(s, rng)
	case k < 82:
		class = "lt-group-tail"
		w.scenLtGroupTail(s, rng)
	case k < 94:
		class = "handler"
		w.scenHandler(s, rng)
	default:
		class = "blockreq-flood"
		w.scenBlockReqFlood(s, rng)
	}
}

// stream level: arbitrary frames on every protocol id the node registers
func (w *world) scenStream(s int, rng *lib.Rng) {
	proto := lib.Pick(rng, streamProtos)
	raw, mode := hostileFrame(rng, proto, w.n.SubCfg.Channel)
	closeWrite := rng.Chance(80)
	w.logLine(s, "stream/"+mode, map[string]any{"proto": proto, "frame": hexCap(raw), "close_write": closeWrite})
	if !w.ensureHostile() {
		w.count("inject_failed", 1)
		return
	}
	wait := 1500 * time.Millisecond
	if !closeWrite {
		wait = 300 * time.Millisecond
	}
	n, err := w.host.SendRaw(w.n.Host.ID(), proto, raw, closeWrite, wait)
	if err != nil {
		w.count("stream_open_errors", 1)
		return
	}
	w.count("inj_stream", 1)
	w.count("inj_stream_"+proto, 1)
	if n > 0 {
		w.count("stream_replies_received", 1)
	}
}

// the node downloads from the hostile peer: every reply is hostile
func (w *world) scenDownloadFrom(s int, rng *lib.Rng) {
	start := int64(rng.Range(1, 1000))
	end := start + int64(rng.Intn(4))
	w.logLine(s, "download-from-hostile", map[string]any{"start": start, "end": end})
	if !w.ensureHostile() {
		w.count("inject_failed", 1)
		return
	}
	// the node's peer-info loop keeps overwriting what it knows about the hostile peer with the peer's own (hostile)
	// answers; the download needs an advertised height above the requested range
	w.n.SetPeerHeight(w.host.ID(), 1<<40)
	done := make(chan struct{})
	go func() {
		w.n.CallHandler(types.EventFetchBlocks, &types.ReqBlocks{Start: start, End: end, Pid: []string{w.host.ID().Pretty()}})
		close(done)
	}()
	select {
	case <-done:
		w.count("download_tasks_from_hostile", 1)
	case <-time.After(60 * time.Second):
		w.count("download_tasks_still_running", 1)
	}
}

// pubsub: payloads that are not (or barely) protobuf
func (w *world) scenPubsubBytes(s int, rng *lib.Rng) {
	topic := lib.Pick(rng, append(append([]string(nil), allTopics...), p2penv.PeerTopic(w.n.Host.ID())))
	g := w.gen(s)
	var valid types.Message
	switch topic {
	case p2penv.TopicTx:
		valid = g.Tx()
	case p2penv.TopicBatchTx:
		valid = &types.Transactions{Txs: []*types.Transaction{g.Tx(), g.Tx()}}
	case p2penv.TopicBlock:
		valid = w.validBlock(g, rng, 2)
	case p2penv.TopicLtBlock:
		valid = w.n.Bc.BuildLtBlock(w.validBlock(g, rng, 3))
	default:
		valid = &types.PeerPubSubMsg{MsgID: p2penv.BlockRespMsgID, ProtoMsg: types.Encode(w.validBlock(g, rng, 1))}
	}
	var raw []byte
	var mode string
	switch rng.Intn(8) {
	case 0:
		raw, mode = rng.Bytes(rng.Range(1, 300)), "not-snappy"
	case 1:
		raw, mode = []byte{}, "empty-payload"
	case 2:
		raw, mode = p2penv.SnapRaw(rng.Bytes(rng.Range(0, 500))), "snappy-of-garbage"
	case 3:
		raw, mode = mutateBytes(rng, p2penv.Snap(valid)), "snappy-bytes-mutated"
	case 4:
		// a snappy header that declares 64 MB..1 GB of output for a few input bytes (one at a time)
		var l [binary.MaxVarintLen64]byte
		n := binary.PutUvarint(l[:], uint64(1)<<uint(rng.Range(26, 30)))
		raw, mode = append(l[:n:n], rng.Bytes(8)...), "snappy-declared-length-2^26..30"
	case 5:
		raw, mode = p2penv.SnapRaw(types.Encode(&types.Block{Height: 3, Txs: []*types.Transaction{{Payload: rng.Bytes(40)}}})), "valid-message-of-another-type"
	default:
		raw, mode = p2penv.SnapRaw(mutateBytes(rng, types.Encode(valid))), "protobuf-bytes-mutated"
	}
	w.publish(s, "pubsub-bytes/"+mode, topic, raw, nil)
	if mode == "snappy-declared-length-2^26..30" {
		time.Sleep(100 * time.Millisecond)
	}
}

// pubsub: structure-aware mutations of valid messages
func (w *world) scenPubsubStruct(s int, rng *lib.Rng) {
	g := w.gen(s)
	switch rng.Intn(5) {
	case 0:
		tx, k := mutateTx(rng, g.Tx())
		w.publish(s, "tx/"+k, p2penv.TopicTx, p2penv.Snap(tx), nil)
	case 1:
		var txs []*types.Transaction
		var ks []string
		for i := 0; i < rng.Range(1, 6); i++ {
			if rng.Chance(60) {
				t, k := mutateTx(rng, g.Tx())
				txs, ks = append(txs, t), append(ks, k)
			} else {
				txs, ks = append(txs, g.Tx()), append(ks, "valid")
			}
		}
		if rng.Chance(15) {
			txs = nil
		}
		w.publish(s, "batchtx", p2penv.TopicBatchTx, p2penv.Snap(&types.Transactions{Txs: txs}), map[string]any{"members": ks})
	case 2:
		b, k := mutateBlock(rng, w.validBlock(g, rng, rng.Intn(4)))
		w.publish(s, "block/"+k, p2penv.TopicBlock, p2penv.Snap(b), nil)
	case 3:
		m, k := peerMsgVariant(rng, w.validBlock(g, rng, 1))
		w.publish(s, "peermsg/"+k, p2penv.PeerTopic(w.n.Host.ID()), p2penv.Snap(m), nil)
	default:
		// well-formed traffic keeps the filters and caches moving
		if rng.Bool() {
			w.publish(s, "tx/valid", p2penv.TopicTx, p2penv.Snap(g.Tx()), nil)
		} else {
			w.publish(s, "block/valid", p2penv.TopicBlock, p2penv.Snap(w.validBlock(g, rng, 2)), nil)
		}
	}
}

// light blocks whose counts / lists disagree
func (w *world) scenLtVariant(s int, rng *lib.Rng) {
	g := w.gen(s)
	b := w.validBlock(g, rng, rng.Range(1, 6))
	if rng.Chance(50) { // some of its transactions are in the pool
		for _, tx := range b.Txs[1:] {
			if rng.Bool() {
				w.n.SendTx(tx)
			}
		}
	}
	lt, k := ltVariant(rng, w.n.Bc.BuildLtBlock(b))
	w.publish(s, "ltblock/"+k, p2penv.TopicLtBlock, p2penv.Snap(lt), map[string]any{"tx_count": lt.GetHeader().GetTxCount(), "hashes": len(lt.GetSTxHashes())})
}

// F-C33-1 family: a short hash that resolves to a group transaction whose members do not fit behind its position;
// the group reaches the pool before or AFTER the light block (then only the background loop sees it).
func (w *world) scenLtGroupTail(s int, rng *lib.Rng) {
	g := w.gen(s)
	n := rng.Range(2, 6) // txs in the block (incl. miner)
	k := rng.Range(2, 5) // group size
	members, ptx := g.Group(k)
	txs := []*types.Transaction{g.Tx()}
	for i := 1; i < n; i++ {
		txs = append(txs, g.Tx())
	}
	pos := n - 1 - rng.Intn(minInt(k-1, n-1)) // position of the group head: its members run past the end of the block
	txs[pos] = members[0]
	w.nextH++
	b := p2penv.MakeBlock(w.n.Cfg, w.nextH, rng.Bytes(32), types.Now().Unix(), txs)
	lt := w.n.Bc.BuildLtBlock(b)
	order := lib.Pick(rng, []string{"group-after-block", "group-after-block", "group-before-block"})
	others := rng.Bool()
	extra := map[string]any{"txs": n, "group_size": k, "group_head_at": pos, "order": order, "others_in_pool": others, "group_tx": hexCap(types.Encode(ptx))}
	if others {
		for i := 1; i < n; i++ {
			if i != pos {
				w.n.SendTx(txs[i])
			}
		}
	}
	sendGroup := func() {
		// the group travels like any transaction: published on the tx topic by the hostile peer
		w.publish(s, "ltblock-group-tail/group-tx", p2penv.TopicTx, p2penv.Snap(ptx), nil)
	}
	if order == "group-before-block" {
		sendGroup()
		w.waitPool(ptx, 3*time.Second)
	}
	w.publish(s, "ltblock-group-tail/"+order, p2penv.TopicLtBlock, p2penv.Snap(lt), extra)
	if order == "group-after-block" {
		// the light block must be stored as pending first
		hashHex := hex.EncodeToString(b.Hash(w.n.Cfg))
		dl := time.Now().Add(3 * time.Second)
		for !w.n.Bc.BlockSeen(hashHex) && time.Now().Before(dl) {
			time.Sleep(5 * time.Millisecond)
		}
		if w.n.Bc.PendLen() > 0 {
			w.count("group_tail_blocks_stored_pending", 1)
		}
		sendGroup()
		if w.waitPool(ptx, 3*time.Second) {
			w.count("group_tail_pool_updates", 1)
		}
		time.Sleep(450 * time.Millisecond) // two ticks of the pending loop
	}
}

func minInt(a, b int) int {
	if a < b {
		return a
	}
	return b
}

func (w *world) waitPool(tx *types.Transaction, d time.Duration) bool {
	dl := time.Now().Add(d)
	for time.Now().Before(dl) {
		if f := w.n.PoolHas([][]byte{tx.Hash()}); len(f) == 1 && f[0] {
			return true
		}
		time.Sleep(10 * time.Millisecond)
	}
	return false
}

// a single light block announcing 2^36 transactions (hashes for 2)
func (w *world) scenLtHuge(s int, rng *lib.Rng) {
	g := w.gen(s)
	lt := w.n.Bc.BuildLtBlock(w.validBlock(g, rng, 1))
	lt.Header.TxCount = 1 << 36
	w.publish(s, "ltblock/count=2^36", p2penv.TopicLtBlock, p2penv.Snap(lt), map[string]any{"tx_count": lt.Header.TxCount, "hashes": len(lt.STxHashes)})
	time.Sleep(500 * time.Millisecond)
}

// handler level: the subscriber path (decode + handleBroadcastReceive) driven directly, all topics incl. tx/batchtx
func (w *world) scenHandler(s int, rng *lib.Rng) {
	g := w.gen(s)
	for i := 0; i < 8; i++ {
		var topic, kind string
		var raw []byte
		switch rng.Intn(6) {
		case 0:
			tx, k := mutateTx(rng, g.Tx())
			topic, kind, raw = p2penv.TopicTx, "tx/"+k, p2penv.Snap(tx)
		case 1:
			t1, k := mutateTx(rng, g.Tx())
			topic, kind, raw = p2penv.TopicBatchTx, "batchtx/"+k, p2penv.Snap(&types.Transactions{Txs: []*types.Transaction{g.Tx(), t1}})
		case 2:
			b, k := mutateBlock(rng, w.validBlock(g, rng, rng.Intn(3)))
			topic, kind, raw = p2penv.TopicBlock, "block/"+k, p2penv.Snap(b)
		case 3:
			lt, k := ltVariant(rng, w.n.Bc.BuildLtBlock(w.validBlock(g, rng, rng.Range(1, 4))))
			topic, kind, raw = p2penv.TopicLtBlock, "ltblock/"+k, p2penv.Snap(lt)
		case 4:
			m, k := peerMsgVariant(rng, w.validBlock(g, rng, 1))
			topic, kind, raw = p2penv.PeerTopic(w.n.Host.ID()), "peermsg/"+k, p2penv.Snap(m)
		default:
			topic = lib.Pick(rng, allTopics)
			kind, raw = "bytes", p2penv.SnapRaw(rng.Bytes(rng.Intn(200)))
		}
		w.logLine(s, "handler/"+kind, map[string]any{"topic": topic, "payload": hexCap(raw)})
		_ = w.n.Bc.InjectSub(topic, raw, w.host.ID(), w.host.ID())
		w.count("inj_handler", 1)
	}
}

// many block requests for future heights, then the chain reaches them
func (w *world) scenBlockReqFlood(s int, rng *lib.Rng) {
	k := rng.Range(3, 30)
	var hs []int64
	for i := 0; i < k; i++ {
		h := w.curH + int64(rng.Range(1, 6))
		hs = append(hs, h)
		m := &types.PeerPubSubMsg{MsgID: p2penv.BlockReqMsgID, ProtoMsg: types.Encode(&types.ReqInt{Height: h})}
		w.publish(s, "peermsg/blockreq-next-heights", p2penv.PeerTopic(w.n.Host.ID()), p2penv.Snap(m), map[string]any{"height": h})
	}
	time.Sleep(100 * time.Millisecond)
	w.curH += int64(rng.Range(1, 6))
	w.logLine(s, "chain-height", map[string]any{"height": w.curH})
	w.n.SetCurrentHeight(w.curH)
}
