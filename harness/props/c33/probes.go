package main

import (
	"encoding/hex"
	"fmt"
	"sync"
	"sync/atomic"
	"time"

	"github.com/33cn/chain33/types"
	"github.com/libp2p/go-libp2p/core/network"

	"verifharness/p2penv"
)

const probeBound = 90 * time.Second // generous: every probed loop ticks at <= 3 s

// probes: after the batch, one well-formed input per receive path / background loop must still be processed by the
// node (same process, same goroutines). A probe is retried with fresh messages until the bound (pubsub may drop).
func (w *world) probes() []probeRes {
	// the good peer must be linked (the hostile traffic never targets it, but the node may have dropped connections)
	if w.good.Host.Network().Connectedness(w.n.Host.ID()) != network.Connected {
		if err := w.linkPeer(w.good); err != nil {
			return []probeRes{{Name: "link", Harness: "good peer cannot (re)connect: " + err.Error()}}
		}
	}
	ts := append(append([]string(nil), allTopics...), p2penv.PeerTopic(w.n.Host.ID()))
	if err := p2penv.WaitTopicLink(w.n, w.good, p2penv.PeerTopic(w.good.ID()), ts, 60*time.Second); err != nil {
		return []probeRes{{Name: "link", Harness: err.Error()}}
	}
	type pf struct {
		name string
		f    func(try int) (bool, string)
		gap  time.Duration
	}
	g := w.gen(1 << 20)
	var hseq int64 = 5_000_000
	var dlSeq int64
	nextHeight := func() int64 { return atomic.AddInt64(&hseq, 1) }
	mk := func(ntx int, missing int) (*types.Block, []*types.Transaction) {
		txs := []*types.Transaction{g.Tx()}
		var miss []*types.Transaction
		for i := 0; i < ntx; i++ {
			tx := g.Tx()
			txs = append(txs, tx)
			if i < missing {
				miss = append(miss, tx)
			} else {
				w.n.SendTx(tx)
			}
		}
		return p2penv.MakeBlock(w.n.Cfg, nextHeight(), []byte("probe-parent"), types.Now().Unix(), txs), miss
	}
	posted := func(b *types.Block, d time.Duration) bool {
		want := b.Hash(w.n.Cfg)
		return w.n.Chain.WaitPosted(func(p *p2penv.Posted) bool {
			return p.Block != nil && p.Block.Height == b.Height && string(p.Block.Hash(w.n.Cfg)) == string(want)
		}, d) != nil
	}
	probes := []pf{
		{"pubsub-block->blockchain", func(int) (bool, string) {
			b, _ := mk(2, 0)
			if err := w.good.Publish(p2penv.TopicBlock, p2penv.Snap(b)); err != nil {
				return false, err.Error()
			}
			return posted(b, 3*time.Second), ""
		}, 0},
		{"pubsub-tx->mempool", func(int) (bool, string) {
			tx := g.Tx()
			if err := w.good.Publish(p2penv.TopicTx, p2penv.Snap(tx)); err != nil {
				return false, err.Error()
			}
			return w.waitPool(tx, 3*time.Second), ""
		}, 0},
		{"pubsub-batchtx->mempool", func(int) (bool, string) {
			t1, t2 := g.Tx(), g.Tx()
			if err := w.good.Publish(p2penv.TopicBatchTx, p2penv.Snap(&types.Transactions{Txs: []*types.Transaction{t1, t2}})); err != nil {
				return false, err.Error()
			}
			return w.waitPool(t1, 3*time.Second) && w.waitPool(t2, time.Second), ""
		}, 0},
		{"pendBlockLoop-completes-after-arrival", func(int) (bool, string) {
			b, miss := mk(3, 1)
			if err := w.good.Publish(p2penv.TopicLtBlock, p2penv.Snap(w.n.Bc.BuildLtBlock(b))); err != nil {
				return false, err.Error()
			}
			hh := hex.EncodeToString(b.Hash(w.n.Cfg))
			dl := time.Now().Add(3 * time.Second)
			for !w.n.Bc.BlockSeen(hh) {
				if time.Now().After(dl) {
					return false, "light block not delivered"
				}
				time.Sleep(5 * time.Millisecond)
			}
			for _, tx := range miss {
				w.n.SendTx(tx)
			}
			// only the background loop can complete it now
			return posted(b, 3*time.Second), ""
		}, 0},
		{"pendBlockLoop-timeout->block-request", func(int) (bool, string) {
			b, _ := mk(2, 1)
			if err := w.good.Publish(p2penv.TopicLtBlock, p2penv.Snap(w.n.Bc.BuildLtBlock(b))); err != nil {
				return false, err.Error()
			}
			m := w.good.WaitInbox(func(m *p2penv.PeerMsg) bool {
				var r types.ReqInt
				return m.MsgID == p2penv.BlockReqMsgID && types.Decode(m.Body, &r) == nil && r.Height == b.Height
			}, 4*time.Second)
			return m != nil, ""
		}, 0},
		{"blockRequestLoop->block-response", func(int) (bool, string) {
			h := w.curH + 1
			req := &types.PeerPubSubMsg{MsgID: p2penv.BlockReqMsgID, ProtoMsg: types.Encode(&types.ReqInt{Height: h})}
			if err := w.good.Publish(p2penv.PeerTopic(w.n.Host.ID()), p2penv.Snap(req)); err != nil {
				return false, err.Error()
			}
			// the request has to be parked first (height above the chain), then the chain reaches it
			dl := time.Now().Add(2 * time.Second)
			for w.n.Bc.ReqLen() == 0 && time.Now().Before(dl) {
				time.Sleep(5 * time.Millisecond)
			}
			parked := w.n.Bc.ReqLen() > 0
			w.curH = h
			w.n.SetCurrentHeight(h)
			m := w.good.WaitInbox(func(m *p2penv.PeerMsg) bool {
				var b types.Block
				return m.MsgID == p2penv.BlockRespMsgID && types.Decode(m.Body, &b) == nil && b.Height == h
			}, 4*time.Second)
			return m != nil, fmt.Sprintf("parked=%v", parked)
		}, 0},
		{"stream-download-request->block", func(int) (bool, string) {
			var resp types.MessageGetBlocksResp
			err := w.good.Request(w.n.Host.ID(), p2penv.ProtoDownloadOld, &types.MessageGetBlocksReq{Message: &types.P2PGetBlocks{StartHeight: 3, EndHeight: 3}}, &resp, 5*time.Second)
			if err != nil {
				return false, err.Error()
			}
			return len(resp.GetMessage().GetItems()) == 1 && resp.Message.Items[0].GetBlock().GetHeight() == 3, ""
		}, 0},
		{"stream-download-new->block", func(int) (bool, string) {
			var b types.Block
			err := w.good.Request(w.n.Host.ID(), p2penv.ProtoDownload, &types.ReqBlocks{Start: 4, End: 4}, &b, 5*time.Second)
			if err != nil {
				return false, err.Error()
			}
			return b.Height == 4, ""
		}, 0},
		{"stream-peer-info->answer", func(int) (bool, string) {
			var p types.Peer
			err := w.good.Request(w.n.Host.ID(), p2penv.ProtoPeerInfo, nil, &p, 8*time.Second)
			if err != nil {
				return false, err.Error()
			}
			return p.Name == w.n.Host.ID().Pretty() && p.GetHeader().GetHeight() >= 10, fmt.Sprintf("height=%d", p.GetHeader().GetHeight())
		}, 0},
		{"stream-version->answer", func(int) (bool, string) {
			var v types.P2PVersion
			err := w.good.Request(w.n.Host.ID(), p2penv.ProtoVersion, &types.P2PVersion{Version: w.n.SubCfg.Channel, AddrFrom: "/ip4/127.0.0.1/tcp/1", AddrRecv: "/ip4/127.0.0.1/tcp/2"}, &v, 5*time.Second)
			if err != nil {
				return false, err.Error()
			}
			return v.AddrRecv != "", ""
		}, 0},
		{"download-task-from-good-peer", func(int) (bool, string) {
			// three fresh heights below everything the good peer ever advertises (the refresh loop keeps replacing
			// what the node knows about it) and above the range used by the hostile download scenarios
			h := 1500 + 3*atomic.AddInt64(&dlSeq, 1)
			w.n.SetPeerHeight(w.good.ID(), atomic.LoadInt64(&w.goodAdv))
			done := make(chan struct{})
			go func() {
				w.n.CallHandler(types.EventFetchBlocks, &types.ReqBlocks{Start: h, End: h + 2, Pid: []string{w.good.ID().Pretty()}})
				close(done)
			}()
			select {
			case <-done:
			case <-time.After(20 * time.Second):
				return false, "task did not return"
			}
			w.n.Barrier()
			k := 0
			for _, p := range w.n.Chain.Snapshot(0) {
				if p.Ty == types.EventSyncBlock && p.Block != nil && p.Block.Height >= h && p.Block.Height <= h+2 {
					k++
				}
			}
			return k == 3, fmt.Sprintf("delivered=%d", k)
		}, 0},
		{"peer-info-refresh-loop", func(try int) (bool, string) {
			adv := int64(100000 + try)
			atomic.StoreInt64(&w.goodAdv, adv)
			dl := time.Now().Add(6 * time.Second)
			for time.Now().Before(dl) {
				if w.n.Peers.PeerHeight(w.good.ID()) == adv {
					return true, ""
				}
				time.Sleep(50 * time.Millisecond)
			}
			return false, fmt.Sprintf("height known to the node: %d", w.n.Peers.PeerHeight(w.good.ID()))
		}, 0},
		{"denied-peer-loop", func(try int) (bool, string) {
			// a fresh publisher sends a block the blockchain rejects: within two ticks of manageDeniedPeer it is blacklisted
			bad := p2penv.NewPeer(w.n.Ctx, fmt.Sprintf("rejected-%d-%d", w.in.Seed, try), true)
			defer bad.Close()
			if err := w.n.Connect(bad.Host); err != nil {
				return false, "connect: " + err.Error()
			}
			if err := bad.Join(p2penv.TopicBlock); err != nil {
				return false, err.Error()
			}
			if err := p2penv.WaitTopicLink(w.n, bad, "", []string{p2penv.TopicBlock}, 20*time.Second); err != nil {
				return false, err.Error()
			}
			b, _ := mk(1, 0)
			b.Height = 1<<63 - 1 - int64(try) // inside the validator's height window whatever was received before
			b.StateHash = []byte("verif-reject")
			if err := bad.Publish(p2penv.TopicBlock, p2penv.Snap(b)); err != nil {
				return false, err.Error()
			}
			dl := time.Now().Add(8 * time.Second)
			for time.Now().Before(dl) {
				if w.n.Black.Has(bad.ID().Pretty()) {
					return true, ""
				}
				time.Sleep(50 * time.Millisecond)
			}
			return false, "publisher of a rejected block was not blacklisted"
		}, 0},
	}
	res := make([]probeRes, len(probes))
	runOne := func(p pf, bound time.Duration) probeRes {
		t0 := time.Now()
		r := probeRes{Name: p.name}
		for time.Since(t0) < bound {
			r.Tries++
			ok, d := p.f(r.Tries)
			r.Detail = d
			if ok {
				r.OK = true
				break
			}
			time.Sleep(500 * time.Millisecond)
		}
		r.Ms = time.Since(t0).Milliseconds()
		return r
	}
	// the block path first, alone (later probes move the validator's height window). When it does not answer within
	// 15 s the cause is diagnosed by experiment (a well-formed block at the top of the height range); otherwise the
	// probe goes on until the bound.
	res[0] = runOne(probes[0], 15*time.Second)
	if !res[0].OK {
		top := pf{name: "diag", f: func(try int) (bool, string) {
			b, _ := mk(1, 0)
			b.Height = 1<<63 - 1 - int64(try)
			b.TxHash = []byte("diag") // distinct hash
			if err := w.good.Publish(p2penv.TopicBlock, p2penv.Snap(b)); err != nil {
				return false, err.Error()
			}
			return posted(b, 3*time.Second), ""
		}}
		if d := runOne(top, 20*time.Second); d.OK {
			res[0].Detail = "height-window: a well-formed block of height 2^63-1-k IS processed, blocks of ordinary heights are rejected as history"
			res[0].Name += ":height-window-poisoned"
		} else {
			r2 := runOne(probes[0], probeBound-35*time.Second)
			r2.Tries += res[0].Tries
			r2.Ms += res[0].Ms + d.Ms
			res[0] = r2
		}
	}
	var wg sync.WaitGroup
	for i, p := range probes {
		if i == 0 {
			continue
		}
		wg.Add(1)
		go func(i int, p pf) {
			defer wg.Done()
			t0 := time.Now()
			r := probeRes{Name: p.name}
			for time.Since(t0) < probeBound {
				r.Tries++
				ok, d := p.f(r.Tries)
				r.Detail = d
				if ok {
					r.OK = true
					break
				}
				time.Sleep(500 * time.Millisecond)
			}
			r.Ms = time.Since(t0).Milliseconds()
			res[i] = r
		}(i, p)
	}
	wg.Wait()
	return res
}
