// C23: the mempool hands block producers only packable transactions.
//
// Generated pool contents (mixed signature types, eth nonce gaps / stale nonces / duplicates, groups, transactions
// expired by height, block time, TxHeight window or pool age) are built in the REAL mempool (verifharness/mpenv);
// every EventTxList reply is checked against the generator's ground truth: count, duplicates, exclusions, expiry,
// arrival order of non-eth transactions, consecutive nonce order from the current nonce per eth sender.
package main

import (
	"encoding/json"
	"fmt"
	"sort"
	"strings"
	"sync"
	"time"

	"github.com/33cn/chain33/system/mempool"
	"github.com/33cn/chain33/types"
	"verifharness/lib"
	"verifharness/mpenv"
)

const (
	rate = int64(100000)
	t0   = int64(3000000000)
)

func init() { lib.RegisterChild("batch", runBatch) }

type batchIn struct{ Cases []caseIn }
type caseIn struct {
	Idx  int
	Seed uint64
}

type viol struct {
	Shape string
	Msg   string
	Wit   map[string]any
}

type caseOut struct {
	Idx        int
	Queries    int
	Replies    int // non-empty replies
	Events     map[string]int64
	Violations []viol
	Incon      string
	Nontrivial bool
	Fp         string
	Sample     map[string]any
}

// ptx is the ground truth of one pool entry.
type ptx struct {
	Tx      *types.Transaction
	Hash    string
	Arrival int
	Eth     bool
	From    string
	Name    string // sender name
	Nonce   int64
	Expires []int64 // every member's Expire
	Aged    bool
	Class   string
}

type state struct {
	rng    *lib.Rng
	env    *mpenv.Env
	out    *caseOut
	pool   []*ptx // arrival order
	byHash map[string]*ptx
	H, T   int64
	arr    int
	nonce  int64
	norm   []*mpenv.Key
	eth    []*mpenv.Key
	cur    map[string]int64 // eth sender -> current (chain) nonce
}

// expired by the statement: for the next block (height H+1, block time T) or by pool age.
func (s *state) expired(p *ptx) (bool, string) {
	if p.Aged {
		return true, "pool age"
	}
	for _, e := range p.Expires {
		switch {
		case e == 0:
		case e <= types.ExpireBound:
			if e <= s.H+1 {
				return true, fmt.Sprintf("expire height %d <= next height %d", e, s.H+1)
			}
		case e > types.TxHeightFlag:
			h := e - types.TxHeightFlag
			if s.H+1 < h-types.LowAllowPackHeight || s.H+1 > h+types.HighAllowPackHeight {
				return true, fmt.Sprintf("TxHeight %d window [%d,%d] misses next height %d", h, h-types.LowAllowPackHeight, h+types.HighAllowPackHeight, s.H+1)
			}
		default:
			if e <= s.T {
				return true, fmt.Sprintf("expire time %d <= block time %d", e, s.T)
			}
		}
	}
	return false, ""
}

func (s *state) pickExpire() (int64, string) {
	switch s.rng.Intn(14) {
	case 0:
		return s.H + 1 - int64(s.rng.Intn(int(min64(s.H, 4)))), "height-expired"
	case 1, 2:
		return s.H + 2 + int64(s.rng.Intn(6)), "height-valid"
	case 3:
		return s.T - int64(s.rng.Intn(1000)), "time-expired"
	case 4:
		return s.T + 1 + int64(s.rng.Intn(200)), "time-valid"
	case 5:
		h := s.H + 1 + types.LowAllowPackHeight + int64(s.rng.Range(1, 100))
		return types.TxHeightFlag + h, "txheight-early"
	case 6:
		if s.H > 700 {
			h := s.H + 1 - types.HighAllowPackHeight - int64(s.rng.Range(1, 50))
			return types.TxHeightFlag + h, "txheight-late"
		}
	case 7:
		h := s.H + 1 + int64(s.rng.Range(-400, 150))
		if h < 1 {
			h = 1
		}
		return types.TxHeightFlag + h, "txheight-valid"
	}
	return 0, "no-expiry"
}

// add puts one generated transaction into the pool; direct=true uses Mempool.PushTx (state injection, needed for
// contents the admission checks would refuse: already expired, stale or duplicate nonce).
func (s *state) add(tx *types.Transaction, k *mpenv.Key, expires []int64, class string, direct bool) {
	if direct {
		if err := s.env.Mem.PushTx(tx); err != nil {
			s.out.Events["push_refused"]++
			return
		}
		s.out.Events["pushed_directly"]++
	} else {
		ok, _, err := s.env.SendTx(tx)
		if err != nil {
			s.out.Incon = "EventTx: " + err.Error()
			return
		}
		if !ok {
			s.out.Events["submit_refused"]++
			return
		}
		s.out.Events["submitted"]++
	}
	p := &ptx{Tx: tx, Hash: mpenv.H(tx), Arrival: s.arr, Eth: k.Eth, From: k.Addr, Name: k.Name, Nonce: tx.Nonce, Expires: expires, Class: class}
	s.arr++
	s.pool = append(s.pool, p)
	s.byHash[p.Hash] = p
	s.out.Events["class."+class]++
}

func (s *state) fill(n int) {
	// per eth sender: a shuffled bag of nonces around the current nonce (stale, consecutive run, gap, duplicates)
	bags := map[string][]int64{}
	for _, k := range s.eth {
		c := s.cur[k.Addr]
		var bag []int64
		for d := int64(-2); d < 0; d++ {
			if c+d >= 0 && s.rng.Chance(50) {
				bag = append(bag, c+d)
			}
		}
		run := s.rng.Intn(5)
		start := c
		if s.rng.Chance(20) {
			start = c + 1 // the current nonce itself is missing: nothing of this sender is packable
		}
		for i := 0; i < run; i++ {
			bag = append(bag, start+int64(i))
		}
		if s.rng.Chance(50) {
			bag = append(bag, start+int64(run)+1+int64(s.rng.Intn(2))) // behind a gap
		}
		if s.rng.Chance(30) && len(bag) > 0 {
			bag = append(bag, lib.Pick(s.rng, bag)) // same nonce twice
		}
		perm := s.rng.Perm(len(bag))
		sh := make([]int64, len(bag))
		for i, j := range perm {
			sh[i] = bag[j]
		}
		bags[k.Addr] = sh
	}
	for i := 0; i < n && s.out.Incon == ""; i++ {
		s.nonce++
		if s.rng.Chance(35) {
			k := lib.Pick(s.rng, s.eth)
			bag := bags[k.Addr]
			if len(bag) == 0 {
				continue
			}
			nn := bag[0]
			bags[k.Addr] = bag[1:]
			ex, class := s.pickExpire()
			tx := mpenv.Transfer(lib.Pick(s.rng, s.norm).Addr, s.nonce, rate*int64(1+s.rng.Intn(5)), ex, nn)
			k.Sign(tx)
			s.add(tx, k, []int64{ex}, "eth-"+class, true)
			continue
		}
		if s.rng.Chance(12) {
			m := 2 + s.rng.Intn(2)
			var ms []*types.Transaction
			var ks []*mpenv.Key
			var exs []int64
			class := "group"
			for j := 0; j < m; j++ {
				s.nonce++
				ex, c := int64(0), ""
				if s.rng.Chance(30) {
					ex, c = s.pickExpire()
					if strings.HasSuffix(c, "expired") || c == "txheight-early" || c == "txheight-late" {
						class = "group-with-expired-member"
					}
				}
				exs = append(exs, ex)
				ks = append(ks, lib.Pick(s.rng, s.norm))
				ms = append(ms, mpenv.Transfer(lib.Pick(s.rng, s.norm).Addr, s.nonce, 0, ex, s.nonce))
			}
			_, gtx := mpenv.MakeGroup(ms, ks, rate*int64(m)*int64(1+s.rng.Intn(3)))
			s.add(gtx, ks[0], exs, class, true)
			continue
		}
		k := lib.Pick(s.rng, s.norm)
		ex, class := s.pickExpire()
		tx := mpenv.Transfer(lib.Pick(s.rng, s.norm).Addr, s.nonce, rate*int64(1+s.rng.Intn(5)), ex, s.nonce)
		k.Sign(tx)
		direct := s.rng.Bool()
		if p := (&ptx{Expires: []int64{ex}}); true {
			if e, _ := s.expired(p); e {
				direct = true
			}
		}
		s.add(tx, k, []int64{ex}, class, direct)
	}
	// age some entries far beyond the pool-age limit
	for _, p := range s.pool {
		if !p.Aged && s.rng.Chance(8) {
			if s.env.Mem.VerifSetEnterTime(p.Hash, 10*mempool.VerifExpiredInterval()) {
				p.Aged = true
				s.out.Events["aged"]++
			}
		}
	}
}

func (s *state) syncCheck(when string) bool {
	snap := s.env.Mem.VerifSnapshot()
	if len(snap.Queue) != len(s.pool) {
		s.out.Incon = fmt.Sprintf("%s: pool holds %d entries, ground truth %d", when, len(snap.Queue), len(s.pool))
		return false
	}
	for i, it := range snap.Queue {
		if s.pool[i].Hash != it.Hash {
			s.out.Incon = fmt.Sprintf("%s: pool entry %d differs from the ground truth", when, i)
			return false
		}
	}
	if snap.Height != s.H || snap.BlockTime != s.T {
		s.out.Incon = fmt.Sprintf("%s: pool header (%d,%d), ground truth (%d,%d)", when, snap.Height, snap.BlockTime, s.H, s.T)
		return false
	}
	return true
}

func (s *state) describe(p *ptx) string {
	return fmt.Sprintf("#%d(%s nonce=%d %s)", p.Arrival, p.Name, p.Nonce, p.Class)
}

func (s *state) query(qn int) {
	count := int64(1 + s.rng.Intn(len(s.pool)+2))
	var excl [][]byte
	exset := map[string]bool{}
	frac := lib.Pick(s.rng, []int{0, 0, 10, 30, 60})
	for _, p := range s.pool {
		if s.rng.Chance(frac) {
			excl = append(excl, []byte(p.Hash))
			exset[p.Hash] = true
		}
	}
	for k := s.rng.Intn(3); k > 0; k-- {
		excl = append(excl, s.rng.Bytes(32))
	}
	started := time.Now()
	txs, text, err := s.env.TxList(count, excl)
	if err != nil {
		s.out.Incon = "EventTxList: " + err.Error()
		return
	}
	if time.Since(started) > 1500*time.Millisecond {
		// watchdog: the pool waits at most 2 s for the nonce responder and then assumes nonce 0; on an overloaded
		// machine such a reply says nothing about the ordering rules
		s.out.Events["queries_discarded_slow"]++
		return
	}
	s.out.Queries++
	s.out.Events["queries"]++
	if text != "" {
		s.out.Incon = "EventTxList answered an error for a positive count: " + text
		return
	}
	if len(txs) > 0 {
		s.out.Replies++
		s.out.Events["replies_nonempty"]++
	}
	var poolDesc []string
	for _, p := range s.pool {
		d := s.describe(p)
		if e, why := s.expired(p); e {
			d += " EXPIRED:" + why
		}
		if exset[p.Hash] {
			d += " EXCLUDED"
		}
		poolDesc = append(poolDesc, d)
	}
	var replyDesc []string
	for _, tx := range txs {
		if p := s.byHash[mpenv.H(tx)]; p != nil {
			replyDesc = append(replyDesc, s.describe(p))
		} else {
			replyDesc = append(replyDesc, "?"+mpenv.Hex8(mpenv.H(tx)))
		}
	}
	bad := func(shape, f string, a ...interface{}) {
		if len(s.out.Violations) >= 4 {
			return
		}
		cn := map[string]int64{}
		for _, k := range s.eth {
			cn[k.Name] = s.cur[k.Addr]
		}
		s.out.Violations = append(s.out.Violations, viol{Shape: shape, Msg: fmt.Sprintf("case %d query %d (height %d, count %d, %d exclusions): ", s.out.Idx, qn, s.H, count, len(excl)) + fmt.Sprintf(f, a...),
			Wit: map[string]any{"height": s.H, "block_time": s.T, "count": count, "pool_in_arrival_order": poolDesc, "reply": replyDesc, "eth_current_nonces": cn}})
	}
	if int64(len(txs)) > count {
		bad("over-count", "%d transactions returned, %d requested", len(txs), count)
	}
	seen := map[string]bool{}
	lastArr := -1
	ethSeq := map[string][]int64{}
	skippedWork := false
	maxArr := -1
	for _, tx := range txs {
		h := mpenv.H(tx)
		p := s.byHash[h]
		if p == nil {
			bad("phantom", "returned %s which is not in the pool", mpenv.Hex8(h))
			continue
		}
		if seen[h] {
			bad("duplicate", "%s returned twice", s.describe(p))
		}
		seen[h] = true
		if exset[h] {
			bad("excluded-returned", "%s was on the caller's exclusion list", s.describe(p))
		}
		if e, why := s.expired(p); e {
			kind := strings.TrimPrefix(p.Class, "eth-")
			switch {
			case p.Aged:
				kind = "pool-age"
			case strings.HasPrefix(kind, "group"):
				kind = "group-member"
			default:
				kind = strings.Split(kind, "-")[0]
			}
			bad("expired-returned:"+kind, "%s is expired for the next block (%s)", s.describe(p), why)
		}
		if p.Eth {
			ethSeq[p.From] = append(ethSeq[p.From], p.Nonce)
			s.out.Events["eth_returned"]++
		} else {
			if p.Arrival < lastArr {
				bad("arrival-order", "%s returned after a transaction that arrived later (#%d)", s.describe(p), lastArr)
			}
			lastArr = p.Arrival
		}
		if p.Arrival > maxArr {
			maxArr = p.Arrival
		}
	}
	for from, seq := range ethSeq {
		cur := s.cur[from]
		for i, n := range seq {
			if n != cur+int64(i) {
				bad("eth-nonce-order", "eth sender %s: nonces returned %v, expected consecutive from the current nonce %d", s.byName(from), seq, cur)
				break
			}
		}
		if len(seq) > 1 {
			s.out.Events["eth_runs_checked"]++
		}
	}
	for _, p := range s.pool {
		if p.Arrival < maxArr && !seen[p.Hash] {
			if e, _ := s.expired(p); e || exset[p.Hash] {
				skippedWork = true
			}
		}
	}
	if skippedWork {
		s.out.Events["replies_that_skipped_expired_or_excluded"]++
	}
	if len(ethSeq) > 0 && skippedWork {
		s.out.Nontrivial = true
	}
}

func (s *state) byName(addr string) string {
	for _, k := range s.eth {
		if k.Addr == addr {
			return k.Name
		}
	}
	return addr
}

func runCase(in caseIn) *caseOut {
	rng := lib.NewRng(in.Seed)
	out := &caseOut{Idx: in.Idx, Events: map[string]int64{}}
	s := &state{rng: rng, out: out, byHash: map[string]*ptx{}, cur: map[string]int64{}, nonce: int64(in.Idx) * 1000000}
	s.H, s.T = int64(rng.Range(1, 2500)), t0
	s.env = mpenv.New(mpenv.Opts{PoolSize: 400, MaxPerAcc: 100, MaxLast: 5, Queue: "simple", Height: s.H, BlockTime: s.T})
	defer s.env.Close()
	for i := 0; i < 4; i++ {
		s.norm = append(s.norm, mpenv.NewKey("n", i, false))
	}
	for i := 0; i < rng.Range(1, 3); i++ {
		k := mpenv.NewKey("e", i, true)
		s.eth = append(s.eth, k)
		s.cur[k.Addr] = int64(rng.Range(0, 5))
	}
	s.env.Chain.Mu.Lock()
	for a, n := range s.cur {
		s.env.Chain.Nonce[a] = n
	}
	s.env.Chain.Mu.Unlock()
	rounds := 2
	for r := 0; r < rounds && out.Incon == ""; r++ {
		s.fill(rng.Range(4, 40))
		if out.Incon != "" || !s.syncCheck("after fill") {
			break
		}
		nq := rng.Range(3, 5)
		for q := 0; q < nq && out.Incon == ""; q++ {
			s.query(r*100 + q)
		}
		if r == rounds-1 {
			break
		}
		// a new block: some pool transactions are packed, the chain nonces of their eth senders advance, the header
		// moves; the pool sweeps what is expired now
		b := &types.Block{Version: 1, ParentHash: []byte("p"), TxHash: []byte("t"), StateHash: []byte("s"), Height: s.H + int64(rng.Range(1, 3)), BlockTime: s.T + int64(rng.Range(1, 300))}
		packed := map[string]bool{}
		for _, p := range s.pool {
			if rng.Chance(25) && !p.Eth {
				var g types.Transactions
				if p.Tx.GroupCount > 0 && types.Decode(p.Tx.Header, &g) == nil {
					b.Txs = append(b.Txs, g.Txs...)
				} else {
					b.Txs = append(b.Txs, p.Tx)
				}
				packed[p.Hash] = true
			}
		}
		for _, k := range s.eth {
			if rng.Chance(50) {
				s.cur[k.Addr] += int64(rng.Range(1, 2))
			}
		}
		s.env.Chain.Mu.Lock()
		for a, n := range s.cur {
			s.env.Chain.Nonce[a] = n
		}
		s.env.Chain.Mu.Unlock()
		if err := s.env.AddBlock(b, true); err != nil {
			out.Incon = "EventAddBlock: " + err.Error()
			break
		}
		out.Events["blocks"]++
		s.H, s.T = b.Height, b.BlockTime
		var keep []*ptx
		for _, p := range s.pool {
			if e, _ := s.expired(p); e || packed[p.Hash] {
				delete(s.byHash, p.Hash)
				out.Events["left_with_block"]++
				continue
			}
			keep = append(keep, p)
		}
		s.pool = keep
		if !s.syncCheck("after block") {
			break
		}
	}
	ev := out.Events
	out.Fp = lib.Fingerprint(map[string]any{"ev": ev, "h": s.H})
	if in.Idx < 2 {
		out.Sample = map[string]any{"case": in.Idx, "height": s.H, "events": ev}
	}
	return out
}

func min64(a, b int64) int64 {
	if a < b {
		return a
	}
	return b
}

func runBatch(in []byte) (any, error) {
	var b batchIn
	if err := json.Unmarshal(in, &b); err != nil {
		return nil, err
	}
	var outs []*caseOut
	for _, ci := range b.Cases {
		outs = append(outs, runCase(ci))
	}
	return outs, nil
}

func run(c *lib.Ctx) {
	c.Rule("each case = a pool (simple queue) of 4-80 generated entries in a generated arrival order: 4 ordinary senders, 1-3 eth senders with chain nonce 0-5 and nonce bags (stale, consecutive run, missing current nonce, gap, duplicate), " +
		"2-3 member groups, expiry classes {none, height valid/expired, block time valid/expired, TxHeight valid/early/late, pool age via hook}; entries the admission would refuse are injected with Mempool.PushTx; " +
		"3-5 EventTxList queries (count 1..pool+2, exclusion lists of 0-60% of the pool + absent hashes), then a block (packs entries, advances header and eth nonces, pool sweeps) and a second fill + queries. " +
		"Every reply is judged against the ground truth. non-trivial case = measured: >=1 reply contained eth transactions AND >=1 reply had to skip an expired or excluded entry that arrived before a returned one; " +
		"distinct_nontrivial = distinct (event-count vector, height) fingerprints of such cases")
	c.Assume("arrival order is a property of the time-ordered (simple) queue: C23 runs the pool with it",
		"eth-signed parachain transactions (execer user.p.*) are not generated: the main chain cannot know their nonce",
		"pool age is set with VerifSetEnterTime(now-10*limit); time expiries are >= 3e9 s: no oracle reads the clock")
	n := c.N(80, 15000)
	per := 4
	if !c.Quick() {
		per = 50
	}
	var batches []batchIn
	var cur batchIn
	for i := 0; i < n; i++ {
		if c.Skip(i) {
			continue
		}
		cur.Cases = append(cur.Cases, caseIn{Idx: i, Seed: c.CaseRng("case", i).U64()})
		if len(cur.Cases) == per {
			batches = append(batches, cur)
			cur = batchIn{}
		}
	}
	if len(cur.Cases) > 0 {
		batches = append(batches, cur)
	}
	var mu sync.Mutex
	var all []*caseOut
	lib.Parallel(len(batches), 12, func(k int) {
		res := c.Child("batch", batches[k], lib.ChildOpts{Timeout: 10 * time.Minute})
		if res.TimedOut {
			c.Inconclusive("batch %d: watchdog", k)
			return
		}
		if res.Died {
			c.Violation(batches[k].Cases[0].Idx, "crash", map[string]any{"cases": batches[k], "stderr": res.Stderr}, "batch starting at case %d killed the process: %s", batches[k].Cases[0].Idx, firstLines(res.Stderr, 12))
			return
		}
		var outs []*caseOut
		if err := json.Unmarshal(res.Out, &outs); err != nil {
			c.Inconclusive("batch %d: unreadable output", k)
			return
		}
		mu.Lock()
		all = append(all, outs...)
		mu.Unlock()
	})
	sort.Slice(all, func(i, j int) bool { return all[i].Idx < all[j].Idx })
	for _, o := range all {
		if o.Incon != "" {
			c.Inconclusive("case %d: %s", o.Idx, o.Incon)
			continue
		}
		for k, v := range o.Events {
			c.Count(k, v)
		}
		for _, v := range o.Violations {
			c.Violation(o.Idx, v.Shape, v.Wit, "%s", v.Msg)
		}
		c.Case(o.Fp, o.Nontrivial, o.Sample)
	}
	c.RequireEvents("queries", 100)
	c.RequireEvents("replies_nonempty", 50)
	c.RequireEvents("eth_returned", 20)
	c.RequireEvents("replies_that_skipped_expired_or_excluded", 20)
	c.RequireEvents("aged", 5)
}

func firstLines(s string, n int) string {
	ls := strings.Split(s, "\n")
	if len(ls) > n {
		ls = ls[:n]
	}
	return strings.Join(ls, "\n")
}

func main() { lib.Main("C23", "exploration", run) }
