package main

import (
	"bytes"
	"encoding/hex"
	"encoding/json"
	"fmt"
	"os"
	"path/filepath"
	"strings"

	"github.com/33cn/chain33/common"
	"github.com/33cn/chain33/types"
	"github.com/33cn/chain33/wallet"
	wcom "github.com/33cn/chain33/wallet/common"
	"verifharness/lib"
	"verifharness/wenv"
)

type step struct {
	Kind string `json:"kind"`
	Old  string `json:"old,omitempty"`
	New  string `json:"new,omitempty"`
	Pw   string `json:"pw,omitempty"`
	N    int    `json:"n,omitempty"`
}

type plan struct {
	Mnemonic string `json:"mnemonic"`
	SignType string `json:"sign_type"`
	Pw0      string `json:"pw0"`
	Create   int    `json:"create"`
	Import   int    `json:"import"`
	Steps    []step `json:"steps"`
}

const letters = "abcdefghijklmnopqrstuvwxyzABCDEFGHIJKLMNOPQRSTUVWXYZ"
const digits = "0123456789"

func validPassword(rng *lib.Rng) string {
	n := rng.Range(8, 30)
	if rng.Chance(30) {
		n = lib.Pick(rng, []int{8, 9, 29, 30})
	}
	// at least one letter and one digit; length counted in bytes
	b := []byte{letters[rng.Intn(len(letters))], digits[rng.Intn(10)]}
	for len(b) < n {
		if rng.Chance(25) {
			b = append(b, digits[rng.Intn(10)])
		} else if rng.Chance(8) && len(b)+2 <= n {
			b = append(b, "é"...) // a two-byte unicode letter
		} else {
			b = append(b, letters[rng.Intn(len(letters))])
		}
	}
	return string(b)
}

func invalidPassword(rng *lib.Rng) string {
	switch rng.Intn(5) {
	case 0:
		return "a1b2c3" // too short
	case 1:
		return strings.Repeat("a1", 16) // 32 bytes: too long
	case 2:
		return "onlyletters"
	case 3:
		return "1234567890"
	}
	return "abc123!@#xyz"
}

func genPlan(in histIn) *plan {
	rng := lib.NewRng(in.Seed)
	p := &plan{SignType: "secp256k1", Pw0: validPassword(rng), Create: rng.Range(1, 3), Import: rng.Range(1, 4)}
	if rng.Chance(30) {
		p.SignType = "ed25519"
	}
	p.Mnemonic = wenv.Mnemonic(rng.Bytes(20), int32(rng.Intn(2)))
	n := rng.Range(3, 15)
	cur := p.Pw0
	for i := 0; i < n; i++ {
		switch x := rng.Intn(100); {
		case x < 28:
			np := validPassword(rng)
			p.Steps = append(p.Steps, step{Kind: "setpw-ok", Old: cur, New: np})
			cur = np
		case x < 42:
			wrong := validPassword(rng)
			if rng.Chance(30) && len(cur) > 8 {
				wrong = cur[:len(cur)-1] // prefix of the right one
			}
			p.Steps = append(p.Steps, step{Kind: "setpw-wrongold", Old: wrong, New: validPassword(rng)})
		case x < 50:
			p.Steps = append(p.Steps, step{Kind: "setpw-invalidnew", Old: cur, New: invalidPassword(rng)})
		case x < 55:
			p.Steps = append(p.Steps, step{Kind: "setpw-wrongold-invalidnew", Old: validPassword(rng), New: invalidPassword(rng)})
		case x < 67:
			// N=1: no unlock/verification right after the restart, so the next step meets the wallet with no
			// password in memory (password checks go through the stored hash)
			p.Steps = append(p.Steps, step{Kind: "restart", N: rng.Intn(2)})
		case x < 74:
			p.Steps = append(p.Steps, step{Kind: "lock"})
		case x < 79:
			p.Steps = append(p.Steps, step{Kind: "unlock-wrong", Pw: validPassword(rng)})
		case x < 87:
			p.Steps = append(p.Steps, step{Kind: "import"})
		default:
			p.Steps = append(p.Steps, step{Kind: "legacy-storage", N: rng.Intn(4)}) // 0 all keys+seed, 1 seed only, 2 one key, 3 all keys
		}
	}
	return p
}

type hist struct {
	in    histIn
	out   *histOut
	rng   *lib.Rng
	seed  string // model: the mnemonic
	cfg   *types.Chain33Config
	e     *wenv.Env
	cur   string            // model: current password
	keys  map[string][]byte // model: address -> private key bytes
	order []string
	label int
	fp    []string
}

func (h *hist) violation(shape, msg string, w any) {
	if len(h.out.Viols) < 6 {
		h.out.Viols = append(h.out.Viols, viol{Shape: shape, Msg: msg, Witness: w})
	}
}

func (h *hist) tracef(f string, a ...any) {
	if len(h.out.Trace) < 80 {
		h.out.Trace = append(h.out.Trace, fmt.Sprintf(f, a...))
	}
}

func (h *hist) unlock(pw string) error {
	return h.e.W.ProcWalletUnLock(&types.WalletUnLock{Passwd: pw})
}

func (h *hist) randKey() []byte {
	n := 32
	if h.e.W.GetSignType() == types.ED25519 {
		n = 64
	}
	return h.rng.Bytes(n)
}

func (h *hist) importKey() error {
	for try := 0; try < 8; try++ {
		k := h.randKey()
		h.label++
		acc, err := h.e.W.ProcImportPrivKey(&types.ReqWalletImportPrivkey{Privkey: common.ToHex(k), Label: fmt.Sprintf("imp%d", h.label)})
		if err != nil {
			if err == types.ErrPrivkeyToPub {
				continue
			}
			return err
		}
		h.keys[acc.Acc.Addr] = k
		h.order = append(h.order, acc.Acc.Addr)
		h.out.Counters["accounts_imported"]++
		return nil
	}
	return fmt.Errorf("no importable key found")
}

// verify: the wallet's current password is the model's; every key and the seed decrypt to the model values.
func (h *hist) verify(after string) {
	if err := h.unlock(h.cur); err != nil {
		h.violation("unlock-with-current-password-fails:"+after,
			fmt.Sprintf("after step %q the wallet rejects its current password (%q): %v", after, h.cur, err), map[string]any{"after": after, "password": h.cur})
		return
	}
	for _, addr := range h.order {
		want := h.keys[addr]
		got, err := h.e.W.ProcDumpPrivkey(addr)
		h.out.Counters["keys_compared"]++
		if err != nil || !strings.EqualFold(got, common.ToHex(want)) {
			h.violation("key-mismatch:"+after,
				fmt.Sprintf("after step %q ProcDumpPrivkey(%s) = (%s, %v), model %s (current password %q)", after, addr, got, err, common.ToHex(want), h.cur),
				map[string]any{"after": after, "addr": addr, "got": got, "want": common.ToHex(want)})
			continue
		}
		// the stored blob itself, through the codec
		st, err := h.e.W.GetAccountByAddr(addr)
		if err != nil {
			h.violation("account-lost:"+after, fmt.Sprintf("after step %q account %s is not in the store: %v", after, addr, err), nil)
			continue
		}
		blob, _ := common.FromHex(st.Privkey)
		dec := wcom.CBCDecrypterPrivkey([]byte(h.cur), blob)
		h.out.Counters["blobs_compared"]++
		if len(blob) == len(want) {
			h.out.Counters["legacy_key_blobs_read"]++
		}
		if !bytes.Equal(dec, want) {
			h.violation("stored-key-mismatch:"+after,
				fmt.Sprintf("after step %q the stored blob of %s (%d bytes) does not decrypt under the current password to the model key", after, addr, len(blob)),
				map[string]any{"after": after, "addr": addr, "blob": st.Privkey})
		}
	}
	seed, err := h.e.W.GetSeed(h.cur)
	h.out.Counters["seed_compared"]++
	if err != nil || seed != h.seed {
		h.violation("seed-mismatch:"+after, fmt.Sprintf("after step %q GetSeed(current password) = (%q, %v), model %q", after, seed, err, h.seed),
			map[string]any{"after": after, "got": seed, "err": fmt.Sprint(err)})
	}
}

func histChild(inb []byte) (any, error) {
	var in histIn
	if err := json.Unmarshal(inb, &in); err != nil {
		return nil, err
	}
	p := genPlan(in)
	out := &histOut{Plan: p, Counters: map[string]int64{}}
	dir := filepath.Join(os.Getenv("VERIF_TMP"), "w")
	os.MkdirAll(dir, 0o755)
	cfg := wenv.NewConfig(dir)
	cfg.GetModuleConfig().Wallet.SignType = p.SignType
	h := &hist{in: in, out: out, rng: lib.NewRng(in.Seed ^ 0x37373737), cfg: cfg, seed: p.Mnemonic, keys: map[string][]byte{}}
	h.e = wenv.Start(cfg)
	defer func() { h.e.Stop() }()
	// ---- setup
	if ok, err := h.e.W.SaveSeed(p.Pw0, p.Mnemonic); !ok {
		out.SetupErr = fmt.Sprintf("SaveSeed: %v", err)
		return out, nil
	}
	h.cur = p.Pw0
	if err := h.unlock(h.cur); err != nil {
		out.SetupErr = fmt.Sprintf("first unlock: %v", err)
		return out, nil
	}
	for i := 0; i < p.Create; i++ {
		h.label++
		acc, err := h.e.W.ProcCreateNewAccount(&types.ReqNewAccount{Label: fmt.Sprintf("new%d", h.label)})
		if err != nil {
			out.SetupErr = fmt.Sprintf("ProcCreateNewAccount: %v", err)
			return out, nil
		}
		hexkey, err := h.e.W.ProcDumpPrivkey(acc.Acc.Addr)
		if err != nil {
			out.SetupErr = fmt.Sprintf("first dump: %v", err)
			return out, nil
		}
		k, _ := common.FromHex(hexkey)
		h.keys[acc.Acc.Addr] = k // "the same value as before": the key as first delivered
		h.order = append(h.order, acc.Acc.Addr)
		out.Counters["accounts_created"]++
	}
	for i := 0; i < p.Import; i++ {
		if err := h.importKey(); err != nil {
			out.SetupErr = fmt.Sprintf("import: %v", err)
			return out, nil
		}
	}
	h.verify("setup")
	// ---- history
	for si, st := range p.Steps {
		res := "-"
		switch st.Kind {
		case "setpw-ok", "setpw-wrongold", "setpw-invalidnew", "setpw-wrongold-invalidnew":
			lockedBefore := h.e.W.IsWalletLocked()
			if h.e.W.GetPassword() == "" {
				out.Counters["setpasswd_with_no_password_in_memory"]++
			}
			err := h.e.W.ProcWalletSetPasswd(&types.ReqWalletSetPasswd{OldPass: st.Old, NewPass: st.New})
			if err == nil {
				res = "ok"
				out.Counters["setpasswd_ok"]++
				h.cur = st.New // the wallet reported a successful change
				if st.Kind != "setpw-ok" {
					out.Counters["unexpected_setpasswd_result"]++
				}
			} else {
				res = "err:" + err.Error()
				out.Counters["setpasswd_failed"]++
				if st.Kind == "setpw-ok" {
					out.Counters["unexpected_setpasswd_result"]++
				}
			}
			if lockedBefore {
				out.Counters["setpasswd_while_locked"]++
			}
		case "restart":
			h.e.Stop()
			h.e = wenv.Start(h.cfg)
			out.Counters["restarts"]++
		case "lock":
			h.e.W.ProcWalletLock()
		case "unlock-wrong":
			if err := h.unlock(st.Pw); err == nil {
				res = "ok"
			} else {
				res = "err"
			}
		case "import":
			if err := h.unlock(h.cur); err == nil {
				if err := h.importKey(); err != nil {
					res = "err:" + err.Error()
				}
			}
		case "legacy-storage":
			// the database as an older release left it: fixed-IV key blobs, fixed-nonce seed blob (same password)
			n := 0
			for k, addr := range h.order {
				if st.N == 1 || (st.N == 2 && k != si%len(h.order)) {
					continue
				}
				acc, err := h.e.W.GetAccountByAddr(addr)
				if err != nil {
					continue
				}
				acc.Privkey = common.ToHex(legacyCBCEncrypt([]byte(h.cur), h.keys[addr]))
				if err := h.e.W.SetWalletAccount(true, addr, acc); err == nil {
					n++
				}
			}
			if st.N <= 1 {
				if err := h.e.W.GetDBStore().SetSync(wallet.WalletSeed, legacyGCMEncrypt([]byte(h.cur), []byte(h.seed))); err == nil {
					out.Counters["legacy_seed_blobs_written"]++
				}
			}
			out.Counters["legacy_key_blobs_written"] += int64(n)
			res = fmt.Sprintf("%d", n)
		}
		h.tracef("%d %s old=%q new=%q -> %s", si, st.Kind, st.Old+st.Pw, st.New, res)
		r := res
		if strings.HasPrefix(r, "err:") {
			r = "err"
		}
		h.fp = append(h.fp, st.Kind+"="+r)
		if st.Kind == "restart" && st.N == 1 && si+1 < len(p.Steps) {
			out.Counters["restarts_without_unlock"]++
			out.Counters["steps"]++
			continue
		}
		h.verify(fmt.Sprintf("%s", st.Kind))
		out.Counters["steps"]++
	}
	out.Fingerprint = lib.Fingerprint(map[string]any{"sign": p.SignType, "accounts": len(h.order), "steps": h.fp})
	_ = hex.EncodeToString
	return out, nil
}
