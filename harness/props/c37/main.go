// C37: wallet secrets decrypt across formats and password changes.
//
//	(A) codec oracles on the real CBCEncrypterPrivkey/CBCDecrypterPrivkey and AesgcmEncrypter/AesgcmDecrypter:
//	    round trip, and legacy blobs produced by a re-implementation of the OLD encryptors (fixed IV / fixed nonce).
//	(B) wallet-level history model on the REAL wallet module: password changes (right/wrong old password,
//	    invalid new password), lock/unlock, restart, imports, storage rewritten in the legacy formats; after
//	    every step every account key (ProcDumpPrivkey, stored blob) and the seed are compared with the model.
package main

import (
	"crypto/sha256"
	"encoding/json"
	"fmt"
	"runtime"
	"sync"
	"time"

	"verifharness/lib"
)

type codecIn struct {
	Seed int64 `json:"seed"`
	From int   `json:"from"`
	To   int   `json:"to"`
}

type viol struct {
	Index   int    `json:"index"`
	Shape   string `json:"shape"`
	Msg     string `json:"msg"`
	Witness any    `json:"witness"`
}

type codecOut struct {
	Counters map[string]int64 `json:"counters"`
	Strata   []string         `json:"strata"`
	Viols    []viol           `json:"viols"`
}

type histIn struct {
	Seed  uint64 `json:"seed"`
	Idx   int    `json:"idx"`
	Tier  string `json:"tier"`
}

type histOut struct {
	Plan        any              `json:"plan"`
	Counters    map[string]int64 `json:"counters"`
	Viols       []viol           `json:"viols"`
	Fingerprint string           `json:"fingerprint"`
	Trace       []string         `json:"trace"`
	SetupErr    string           `json:"setup_err,omitempty"`
}

const histBase = 1 << 24 // replay index of wallet history i is histBase+i

func run(c *lib.Ctx) {
	c.Rule("(A) codec case i: PRNG password (length 0..64 incl. >32 bytes and pairs sharing a 32-byte prefix), 32/64-byte key, seed text of 1..400 bytes or a real mnemonic; " +
		"round trip through the real encrypt/decrypt pair and decrypt of a legacy blob (fixed IV = key[:16] / fixed nonce = key[:12]) built by the harness' re-implementation of the old encryptors. " +
		"(B) wallet history i: real wallet (secp256k1 or ed25519) with 2-7 accounts, 3-15 generated steps {setpasswd right/wrong old, invalid new, lock, unlock right/wrong, restart, import, " +
		"rewrite stored blobs in legacy format}; after every step Unlock(current model password), ProcDumpPrivkey of every account, the stored blob of every account and GetSeed are compared with the model " +
		"(password changes only on a reported success). non-trivial history = >=1 successful and >=1 failed password change observed and >=1 key compared after each; " +
		"distinct_nontrivial counts distinct history fingerprints (step kinds x results) plus codec strata (password length class x plaintext length class x format)")
	c.Assume("crypto/aes, crypto/cipher of the Go standard library are trusted to build the legacy blobs",
		"the model's current password changes exactly when ProcWalletSetPasswd reports success")
	workers := runtime.NumCPU()
	if workers > 16 {
		workers = 16
	}
	var mu sync.Mutex
	// ---- (A) codec
	nCodec := c.N(2000, 200000)
	if c.Replay == "" || c.OnlyIdx < histBase {
		batches := workers
		if c.Replay != "" {
			batches = 1
		}
		per := (nCodec + batches - 1) / batches
		lib.Parallel(batches, workers, func(b int) {
			in := codecIn{Seed: c.Seed, From: b * per, To: (b + 1) * per}
			if in.To > nCodec {
				in.To = nCodec
			}
			if c.Replay != "" {
				in.From, in.To = c.OnlyIdx, c.OnlyIdx+1
			}
			if in.From >= in.To {
				return
			}
			res := c.Child("codec", in, lib.ChildOpts{Timeout: 10 * time.Minute})
			mu.Lock()
			defer mu.Unlock()
			if res.TimedOut {
				c.Inconclusive("codec batch %d: watchdog fired", b)
				return
			}
			var out codecOut
			if res.Died || json.Unmarshal(res.Out, &out) != nil {
				c.Violation(in.From, "codec-crash", map[string]any{"batch": in, "stderr": res.Stderr}, "codec child died (exit %d): %s", res.ExitCode, head(res.Stderr, 15))
				return
			}
			for k, v := range out.Counters {
				c.Count(k, v)
			}
			for _, s := range out.Strata {
				c.Seen("codec_strata", s)
			}
			for _, v := range out.Viols {
				c.Violation(v.Index, v.Shape, v.Witness, "%s", v.Msg)
			}
		})
	}
	// ---- (B) wallet histories
	nHist := c.N(20, 500)
	var jobs []int
	for i := 0; i < nHist; i++ {
		if c.Replay != "" && c.OnlyIdx != histBase+i {
			continue
		}
		jobs = append(jobs, i)
	}
	lib.Parallel(len(jobs), workers, func(k int) {
		i := jobs[k]
		rng := c.CaseRng("hist", i)
		in := histIn{Seed: rng.U64(), Idx: i, Tier: c.Tier}
		res := c.Child("hist", in, lib.ChildOpts{Timeout: 10 * time.Minute})
		mu.Lock()
		defer mu.Unlock()
		c.Count("history_children", 1)
		if res.TimedOut {
			c.Inconclusive("wallet history %d: watchdog fired", i)
			return
		}
		var out histOut
		if res.Died || json.Unmarshal(res.Out, &out) != nil {
			c.Violation(histBase+i, "wallet-crash", map[string]any{"case": in, "stderr": res.Stderr}, "wallet history child died (exit %d): %s", res.ExitCode, head(res.Stderr, 15))
			return
		}
		if out.SetupErr != "" {
			c.Inconclusive("wallet history %d: setup failed: %s", i, out.SetupErr)
			return
		}
		for k, v := range out.Counters {
			c.Count(k, v)
		}
		for _, v := range out.Viols {
			c.Violation(histBase+i, v.Shape, map[string]any{"case": in, "plan": out.Plan, "trace": out.Trace, "witness": v.Witness}, "%s", v.Msg)
		}
		nontrivial := out.Counters["setpasswd_ok"] > 0 && out.Counters["setpasswd_failed"] > 0 && out.Counters["keys_compared"] > 0
		c.Case("hist:"+out.Fingerprint, nontrivial, map[string]any{"case": in, "trace": out.Trace, "counters": out.Counters})
	})
	if c.Replay == "" {
		c.Bulk(int(c.Counter("codec_cases")), "codec_strata")
		c.RequireEvents("codec_cases", 1000)
		c.RequireEvents("cbc_legacy_decrypts", 500)
		c.RequireEvents("gcm_legacy_decrypts", 500)
		c.RequireEvents("setpasswd_ok", 10)
		c.RequireEvents("setpasswd_failed", 10)
		c.RequireEvents("keys_compared", 200)
		c.RequireEvents("seed_compared", 50)
		c.RequireEvents("restarts", 3)
		c.RequireEvents("setpasswd_with_no_password_in_memory", 2)
	}
}

func head(s string, n int) string {
	out, lines := "", 0
	for _, ch := range s {
		out += string(ch)
		if ch == '\n' {
			lines++
			if lines >= n {
				break
			}
		}
	}
	return out
}

// caseRng: same derivation as lib.Ctx.CaseRng (children recompute it from the run seed).
func caseRng(stream string, seed int64, i int) *lib.Rng {
	h := sha256.Sum256([]byte(fmt.Sprintf("%s|%s|%d|%d", "C37", stream, seed, i)))
	var s uint64
	for k := 0; k < 8; k++ {
		s = s<<8 | uint64(h[k])
	}
	return lib.NewRng(s)
}

func main() {
	lib.RegisterChild("codec", codecChild)
	lib.RegisterChild("hist", histChild)
	lib.Main("C37", "exploration", run)
}
