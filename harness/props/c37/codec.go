package main

import (
	"bytes"
	"crypto/aes"
	"crypto/cipher"
	"encoding/json"
	"fmt"
	"strings"

	"github.com/33cn/chain33/wallet"
	bip39 "github.com/33cn/chain33/wallet/bipwallet/go-bip39"
	wcom "github.com/33cn/chain33/wallet/common"
	"verifharness/lib"
)

// ---------------------------------------------------------------------------------------------
// harness re-implementation of the OLD encryptors, written from the formats the decrypt paths document:
//   key     = password zero-padded / truncated to 32 bytes
//   privkey = AES-256-CBC(key, IV = key[:16]) over the raw key bytes, no IV prefix
//   seed    = AES-256-GCM(key, nonce = key[:12]) Seal(plaintext), no nonce prefix

func legacyKey(password []byte) []byte {
	key := make([]byte, 32)
	if len(password) > 32 {
		copy(key, password[:32])
	} else {
		copy(key, password)
	}
	return key
}

func legacyCBCEncrypt(password, priv []byte) []byte {
	key := legacyKey(password)
	block, err := aes.NewCipher(key)
	if err != nil {
		panic(err)
	}
	out := make([]byte, len(priv))
	cipher.NewCBCEncrypter(block, key[:block.BlockSize()]).CryptBlocks(out, priv)
	return out
}

func legacyGCMEncrypt(password, seed []byte) []byte {
	key := legacyKey(password)
	block, err := aes.NewCipher(key)
	if err != nil {
		panic(err)
	}
	g, err := cipher.NewGCM(block)
	if err != nil {
		panic(err)
	}
	return g.Seal(nil, key[:12], seed, nil)
}

// ---------------------------------------------------------------------------------------------

var pwLens = []int{0, 1, 2, 7, 8, 15, 16, 17, 29, 30, 31, 32, 33, 34, 47, 48, 63, 64}

func lenClass(n int) string {
	switch {
	case n == 0:
		return "0"
	case n < 16:
		return "<16"
	case n < 32:
		return "<32"
	case n == 32:
		return "32"
	}
	return ">32"
}

func genPassword(rng *lib.Rng, prev []byte) []byte {
	n := rng.Range(0, 64)
	if rng.Chance(50) {
		n = lib.Pick(rng, pwLens)
	}
	var p []byte
	switch rng.Intn(4) {
	case 0: // arbitrary bytes
		p = rng.Bytes(n)
	case 1: // wallet-legal alphabet
		const al = "abcdefghijklmnopqrstuvwxyzABCDEFGHIJKLMNOPQRSTUVWXYZ0123456789"
		p = make([]byte, n)
		for i := range p {
			p[i] = al[rng.Intn(len(al))]
		}
	case 2: // shares the first 32 bytes with the previous password, differs afterwards
		if len(prev) >= 32 {
			p = append(append([]byte{}, prev[:32]...), rng.Bytes(rng.Range(1, 32))...)
		} else {
			p = rng.Bytes(rng.Range(33, 64))
		}
	default: // runs of one byte, zero bytes inside
		p = bytes.Repeat([]byte{byte(rng.Intn(3) * 0x7f)}, n)
		if n > 0 {
			p[rng.Intn(n)] = byte(rng.U64())
		}
	}
	return p
}

func genKey(rng *lib.Rng) []byte {
	n := 32
	if rng.Bool() {
		n = 64
	}
	switch rng.Intn(6) {
	case 0:
		return make([]byte, n)
	case 1:
		return bytes.Repeat([]byte{0xff}, n)
	case 2:
		k := rng.Bytes(n)
		copy(k[n-16:], make([]byte, 16)) // zero last block
		return k
	}
	return rng.Bytes(n)
}

func genSeedText(rng *lib.Rng) []byte {
	switch rng.Intn(4) {
	case 0:
		words := lib.Pick(rng, []int{12, 15, 18, 24})
		var w []string
		for i := 0; i < words; i++ {
			w = append(w, bip39.EnglishWordList[rng.Intn(len(bip39.EnglishWordList))])
		}
		return []byte(strings.Join(w, " "))
	case 1:
		words := lib.Pick(rng, []int{12, 15, 18, 24})
		var w []string
		for i := 0; i < words; i++ {
			w = append(w, bip39.ChineseWordList[rng.Intn(len(bip39.ChineseWordList))])
		}
		return []byte(strings.Join(w, " "))
	case 2:
		return rng.Bytes(lib.Pick(rng, []int{1, 2, 11, 12, 13, 15, 16, 17, 28, 31, 32, 33, 64}))
	}
	return rng.Bytes(rng.Range(1, 400))
}

func seedClass(n int) string {
	switch {
	case n <= 12:
		return "<=12"
	case n <= 28:
		return "<=28"
	case n <= 128:
		return "<=128"
	}
	return ">128"
}

func codecChild(inb []byte) (any, error) {
	var in codecIn
	if err := json.Unmarshal(inb, &in); err != nil {
		return nil, err
	}
	wallet.DisableLog()
	out := codecOut{Counters: map[string]int64{}}
	strata := map[string]struct{}{}
	fail := func(i int, shape, msg string, pw, data, got []byte) {
		if len(out.Viols) < 10 {
			out.Viols = append(out.Viols, viol{Index: i, Shape: shape, Msg: msg,
				Witness: map[string]any{"password_hex": lib.Hex(pw), "plaintext_hex": lib.Hex(data), "got_hex": lib.Hex(got)}})
		}
	}
	guard := func(i int, shape string, pw, data []byte, f func()) {
		defer func() {
			if r := recover(); r != nil {
				fail(i, shape+"-panic", fmt.Sprintf("%s panicked: %v (password %d bytes, plaintext %d bytes)", shape, r, len(pw), len(data)), pw, data, nil)
			}
		}()
		f()
	}
	for i := in.From; i < in.To; i++ {
		rng := caseRng("codec", in.Seed, i)
		var prev []byte
		if rng.Chance(30) {
			prev = rng.Bytes(rng.Range(32, 64))
		}
		pw := genPassword(rng, prev)
		key := genKey(rng)
		seed := genSeedText(rng)
		out.Counters["codec_cases"]++
		pc := lenClass(len(pw))
		// CBC round trip
		guard(i, "cbc-roundtrip", pw, key, func() {
			enc := wcom.CBCEncrypterPrivkey(append([]byte{}, pw...), append([]byte{}, key...))
			dec := wcom.CBCDecrypterPrivkey(append([]byte{}, pw...), enc)
			out.Counters["cbc_roundtrips"]++
			if !bytes.Equal(dec, key) {
				fail(i, "cbc-roundtrip", fmt.Sprintf("CBCDecrypterPrivkey(CBCEncrypterPrivkey(key[%d]), password[%d]) != key (blob %d bytes)", len(key), len(pw), len(enc)), pw, key, dec)
			}
			strata[fmt.Sprintf("cbc-new|pw%s|key%d", pc, len(key))] = struct{}{}
		})
		// CBC legacy blob
		guard(i, "cbc-legacy", pw, key, func() {
			blob := legacyCBCEncrypt(pw, key)
			dec := wcom.CBCDecrypterPrivkey(append([]byte{}, pw...), blob)
			out.Counters["cbc_legacy_decrypts"]++
			if !bytes.Equal(dec, key) {
				fail(i, "cbc-legacy", fmt.Sprintf("legacy fixed-IV blob of a %d-byte key (blob %d bytes, password %d bytes) does not decrypt to the key", len(key), len(blob), len(pw)), pw, key, dec)
			}
			strata[fmt.Sprintf("cbc-legacy|pw%s|key%d", pc, len(key))] = struct{}{}
		})
		// with a password sharing the first 32 bytes the derived key is the same: nothing to check beyond the above
		// GCM round trip
		guard(i, "gcm-roundtrip", pw, seed, func() {
			enc, err := wallet.AesgcmEncrypter(append([]byte{}, pw...), append([]byte{}, seed...))
			if err != nil {
				fail(i, "gcm-roundtrip", fmt.Sprintf("AesgcmEncrypter failed: %v", err), pw, seed, nil)
				return
			}
			dec, err := wallet.AesgcmDecrypter(append([]byte{}, pw...), enc)
			out.Counters["gcm_roundtrips"]++
			if err != nil || !bytes.Equal(dec, seed) {
				fail(i, "gcm-roundtrip", fmt.Sprintf("AesgcmDecrypter(AesgcmEncrypter(seed[%d]), password[%d]) = err %v / mismatch", len(seed), len(pw), err), pw, seed, dec)
			}
			strata[fmt.Sprintf("gcm-new|pw%s|seed%s", pc, seedClass(len(seed)))] = struct{}{}
		})
		guard(i, "gcm-legacy", pw, seed, func() {
			blob := legacyGCMEncrypt(pw, seed)
			dec, err := wallet.AesgcmDecrypter(append([]byte{}, pw...), blob)
			out.Counters["gcm_legacy_decrypts"]++
			if err != nil || !bytes.Equal(dec, seed) {
				fail(i, "gcm-legacy", fmt.Sprintf("legacy fixed-nonce blob of a %d-byte seed (password %d bytes) does not decrypt: err %v", len(seed), len(pw), err), pw, seed, dec)
			}
			strata[fmt.Sprintf("gcm-legacy|pw%s|seed%s", pc, seedClass(len(seed)))] = struct{}{}
		})
	}
	for s := range strata {
		out.Strata = append(out.Strata, s)
	}
	return out, nil
}
