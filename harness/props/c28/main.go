// C28: chain holds no replayed, expired or mis-signed transactions.
package main

import (
	"encoding/json"
	"fmt"
	"time"

	"verifharness/chainenv"
	"verifharness/lib"
)

type step struct {
	Step     string `json:"step"`
	Problems []struct {
		Kind, Tx, Class, Detail string
		Height                  int64
	} `json:"problems"`
	Other    []string       `json:"other"`
	Included map[string]int `json:"included"`
	Dropped  map[string]int `json:"dropped"`
	ChainTx  int            `json:"chain_tx"`
	Height   int64          `json:"height"`
}

func run(c *lib.Ctx) {
	c.Rule("each history runs in its own child (height-window limits are process globals, set to low=3/high=5 so the window cache evicts, re-adds on rollback and is rebuilt after a restart within ~25 blocks): " +
		"a builder with the duplicate check disabled crafts self-consistent peer blocks that replay a transaction (same block, old block, parent block, height-bounded tx inside its window); the node under test receives trunk + branch X, the crafted blocks (must not change the chain), " +
		"acts as block producer through the real 'self' path with candidate lists mixing valid, duplicated, replayed, expired (height/time, both edges), height-bounded (both window edges), wrong-chain-id, low-fee and bad-signature transactions, " +
		"is reorganised to branch Y, restarted, and driven past the window. After EVERY step an offline checker scans the whole best chain with an independent predicate (unique hash, expiry, signature, chain id, minimum fee). " +
		"non-trivial = step in which >=1 invalid candidate was offered and dropped and >=1 valid candidate was included; distinct = (history, step)")
	c.Assume("signature verification itself (crypto drivers) is trusted here (C16 covers it)", "fee rule checked for single transactions: fee >= (size/1000+1)*minFeeRate")
	n := c.N(6, 120)
	lib.Parallel(n, 12, func(i int) {
		if c.Skip(i) {
			return
		}
		rng := c.CaseRng("hist", i)
		seed := rng.U64()
		cr := c.Child("c28hist", seed, lib.ChildOpts{Timeout: 10 * time.Minute})
		if cr.TimedOut {
			c.Inconclusive("history %d: watchdog fired", i)
			return
		}
		if cr.Died {
			c.Inconclusive("history %d: child failed (harness or node setup): %.400s", i, cr.Stderr)
			return
		}
		var res struct {
			Steps []step `json:"steps"`
		}
		if err := json.Unmarshal(cr.Out, &res); err != nil {
			c.Inconclusive("history %d: %v", i, err)
			return
		}
		for _, st := range res.Steps {
			badDropped, validIn := 0, 0
			for cls, k := range st.Dropped {
				if cls[0] == 'B' {
					badDropped += k
				} else {
					c.Count("valid_candidates_dropped["+cls+"]", int64(k))
				}
			}
			for cls, k := range st.Included {
				if cls[0] == 'V' {
					validIn += k
					c.Count("valid_candidates_included", int64(k))
				}
				c.Seen("classes_included", cls)
			}
			for cls := range st.Dropped {
				c.Seen("classes_dropped", cls)
			}
			c.Count("invalid_candidates_dropped", int64(badDropped))
			c.Count("chain_scans", 1)
			c.Count("chain_tx_scanned", int64(st.ChainTx))
			c.Case(fmt.Sprintf("%d/%s", i, st.Step), badDropped > 0 && validIn > 0, map[string]any{"history": i, "step": st.Step, "height": st.Height, "included": st.Included, "dropped": st.Dropped})
			for _, p := range st.Problems {
				c.Violation(i, fmt.Sprintf("%s/class=%s", p.Kind, p.Class), map[string]any{"history_seed": seed, "step": st.Step, "problem": p},
					"history %d step %s: transaction %s (offered as %s) at height %d: %s %s", i, st.Step, p.Tx[:10], p.Class, p.Height, p.Kind, p.Detail)
			}
			for _, o := range st.Other {
				c.Violation(i, "other", map[string]any{"history_seed": seed, "step": st.Step}, "history %d step %s: %s", i, st.Step, o)
			}
		}
	})
	c.RequireEvents("invalid_candidates_dropped", 50)
	c.RequireEvents("valid_candidates_included", 50)
}

func main() {
	chainenv.RegisterC28Children()
	lib.Main("C28", "exploration", run)
}
