// C01: the mavl state tree behaves as a persistent versioned map.
//
// Generated histories of write batches (branching parents, overwrites, engineered key alphabets) are applied to
// the REAL mavl.Store (Set / MemSet+Commit / db.DelKVPair) on LevelDB; every committed root is read back (point
// reads through Store.Get and Tree.Get, range reads through Store.IterateRangeByStateHash, Tree.IterateRange and
// Tree.IterateRangeInclusive) and compared with a versioned-map model: after each commit, at the end, after
// close+reopen in the same process and after close+reopen with fresh process globals. A structural monitor
// (hook VerifWalk) walks the persisted nodes of every root and checks the AVL/size/split-key/hash invariants.
package main

import (
	"bytes"
	"encoding/json"
	"fmt"
	"os"
	"path/filepath"
	"runtime/pprof"
	"sort"
	"time"

	"github.com/33cn/chain33/system/store/mavl"
	mavldb "github.com/33cn/chain33/system/store/mavl/db"
	"github.com/33cn/chain33/types"
	"verifharness/lib"
	mx "verifharness/mavlx"
)

type childIn struct {
	Seed    int64  `json:"seed"`
	Tier    string `json:"tier"`
	Indices []int  `json:"indices"`
}

type failure struct {
	Index   int    `json:"index"`
	Cfg     string `json:"cfg"`
	Shape   string `json:"shape"`
	Msg     string `json:"msg"`
	Witness any    `json:"witness"`
}

type caseOut struct {
	Index      int    `json:"index"`
	Cfg        string `json:"cfg"`
	FP         string `json:"fp"`
	Nontrivial bool   `json:"nontrivial"`
	Sample     any    `json:"sample,omitempty"`
}

type childOut struct {
	Cases    []caseOut           `json:"cases"`
	Counters map[string]int64    `json:"counters"`
	Sets     map[string][]string `json:"sets"`
	Failures []failure           `json:"failures"`
}

type stats struct {
	cnt  map[string]int64
	sets map[string]map[string]bool
}

func newStats() *stats { return &stats{cnt: map[string]int64{}, sets: map[string]map[string]bool{}} }
func (s *stats) add(k string, n int64) { s.cnt[k] += n }
func (s *stats) seen(set, v string) {
	if s.sets[set] == nil {
		s.sets[set] = map[string]bool{}
	}
	s.sets[set][v] = true
}

func paramsFor(tier string, idx int) mx.GenParams {
	p := mx.GenParams{MinBatches: 5, MaxBatches: 24, MaxBatch: 300, Branch: 25, Tickets: true}
	if tier == "thorough" {
		p.MaxBatches = 60
	}
	switch idx % 6 {
	case 0:
		p.Small = true
		p.MinBatches, p.MaxBatches = 10, 50
	case 2:
		p.Removes = true
		p.MaxBatch = 60
	case 4:
		p.Removes = true
		p.Small = true
		p.MinBatches, p.MaxBatches = 10, 50
	case 5:
		p.Branch = 5 // long chains: deeper trees
		p.MinBatches = 15
	}
	return p
}

func genHistory(seed int64, tier string, idx int) *mx.History {
	c := &lib.Ctx{Prop: "C01", Seed: seed}
	return mx.GenHistory(c.CaseRng("hist", idx), paramsFor(tier, idx))
}

// ---------------------------------------------------------------------------------------------

type fail struct {
	shape string
	msg   string
	step  int // number of batches executed when the failure was observed
}

type execer struct {
	h       *mx.History
	cfg     mx.Cfg
	dir     string
	st      *stats
	rng     *lib.Rng
	full    bool // check every version completely after every step (minimisation / tiny histories)
	model   []*mx.Version
	roots   [][]byte
	keys    []string // all keys ever mentioned + probes
	capKeys int      // quick tier: at most this many keys per full point-read pass (0 = all)
	staleOK int64    // reads at an old root whose answer differs from the newest version's answer
}

func eq(a, b []byte) bool { return bytes.Equal(a, b) } // nil == empty

func (e *execer) treeCfg() *mavldb.TreeConfig { return e.cfg.TreeCfg() }

// read plans: which keys are point-read at a version
const (
	planAll     = iota // every key ever mentioned in the history + never-written probes
	planPresent        // every key of the version + 48 sampled other keys
	planSample         // 48 sampled keys
	planQuarter        // a quarter of all keys (at least 64)
)

func (e *execer) pickKeys(ver *mx.Version, plan int) []string {
	if e.full || len(e.keys) <= 64 {
		return e.keys
	}
	sample := func(n int) []string {
		ks := make([]string, 0, n)
		for i := 0; i < n; i++ {
			ks = append(ks, lib.Pick(e.rng, e.keys))
		}
		return ks
	}
	if plan == planAll && e.capKeys > 0 && len(e.keys) > e.capKeys {
		return sample(e.capKeys) // the structural walk still compares every persisted leaf of the version with the model
	}
	switch plan {
	case planPresent:
		if e.capKeys > 0 && len(ver.Keys()) > e.capKeys {
			return sample(e.capKeys)
		}
		return append(append([]string{}, ver.Keys()...), sample(48)...)
	case planSample:
		return sample(48)
	case planQuarter:
		n := len(e.keys) / 4
		if n < 64 {
			n = 64
		}
		return sample(n)
	}
	return e.keys
}

// checkVersion compares everything observable at version vi with the model.
func (e *execer) checkVersion(store storeAPI, vi int, phase string, plan int, walk bool, nRanges int) *fail {
	root := e.roots[vi]
	ver := e.model[vi]
	last := e.model[len(e.roots)-1]
	db := store.GetDB()
	keys := e.pickKeys(ver, plan)
	bk := make([][]byte, len(keys))
	for i, k := range keys {
		bk[i] = []byte(k)
	}
	// 1. point reads through the store
	vals := store.Get(&types.StoreGet{StateHash: root, Keys: bk})
	if len(vals) != len(keys) {
		return &fail{shape: "get:result-count", msg: fmt.Sprintf("%s: Store.Get at version %d returned %d values for %d keys", phase, vi, len(vals), len(keys))}
	}
	for i, k := range keys {
		want, ok := ver.M[k]
		e.st.add("store_get_compared", 1)
		if vi != len(e.roots)-1 {
			e.st.add("reads_at_old_roots", 1)
			lw, lok := last.M[k]
			if lok != ok || !eq(lw, want) {
				e.staleOK++
			}
		}
		if !ok {
			e.st.add("absent_key_reads", 1)
		}
		if !eq(vals[i], want) {
			kind := "wrong-value"
			if !ok {
				kind = "phantom"
			} else if len(vals[i]) == 0 {
				kind = "missing"
			}
			return &fail{shape: "get:" + kind + ":" + phaseClass(phase), msg: fmt.Sprintf("%s: Store.Get(root of version %d, key %s) = %s, model says %s (present=%v)",
				phase, vi, mx.Short([]byte(k)), mx.Short(vals[i]), mx.Short(want), ok)}
		}
	}
	// 2. the tree loaded by root hash: Size, Height, Get (exists flag + rank)
	t := mavldb.NewTree(db, true, e.treeCfg())
	if err := t.Load(root); err != nil {
		if len(ver.M) == 0 {
			return nil
		}
		return &fail{shape: "load:" + phaseClass(phase), msg: fmt.Sprintf("%s: Tree.Load(root of version %d) failed: %v", phase, vi, err)}
	}
	if int(t.Size()) != len(ver.M) {
		return &fail{shape: "struct:size", msg: fmt.Sprintf("%s: Tree.Size()=%d at version %d, model has %d keys", phase, t.Size(), vi, len(ver.M))}
	}
	if hmax := mx.MaxAVLHeight(len(ver.M)); int(t.Height()) > hmax {
		return &fail{shape: "struct:height", msg: fmt.Sprintf("%s: Tree.Height()=%d at version %d with %d keys exceeds the AVL bound %d", phase, t.Height(), vi, len(ver.M), hmax)}
	}
	e.st.seen("heights", fmt.Sprint(t.Height()))
	tkeys := keys
	if !e.full && len(tkeys) > 96 {
		// Tree.Get (presence flag + rank): keys with an empty value (Store.Get cannot tell them from absent ones) + a sample
		tkeys = nil
		for _, k := range keys {
			if v, ok := ver.M[k]; ok && len(v) == 0 {
				tkeys = append(tkeys, k)
			}
		}
		for i := 0; i < 64; i++ {
			tkeys = append(tkeys, lib.Pick(e.rng, keys))
		}
	}
	for _, k := range tkeys {
		idx, v, exists := t.Get([]byte(k))
		want, ok := ver.M[k]
		e.st.add("tree_get_compared", 1)
		if exists != ok || (ok && !eq(v, want)) {
			return &fail{shape: "treeget:" + phaseClass(phase), msg: fmt.Sprintf("%s: Tree.Get(version %d, key %s) = (%s, exists=%v), model says (%s, present=%v)",
				phase, vi, mx.Short([]byte(k)), mx.Short(v), exists, mx.Short(want), ok)}
		}
		if r := ver.Rank([]byte(k)); int(idx) != r {
			return &fail{shape: "struct:index", msg: fmt.Sprintf("%s: Tree.Get(version %d, key %s) index=%d, number of smaller keys is %d", phase, vi, mx.Short([]byte(k)), idx, r)}
		}
	}
	// 3. range reads
	for q := 0; q < nRanges; q++ {
		if f := e.rangeQuery(store, t, vi, phase, q); f != nil {
			return f
		}
	}
	// 4. structural monitor over the persisted nodes
	if walk {
		if f := e.walk(store, vi, phase); f != nil {
			return f
		}
	}
	return nil
}

func phaseClass(phase string) string {
	switch {
	case len(phase) >= 6 && phase[:6] == "reopen":
		return "after-reopen"
	case phase == "live-old" || phase == "final":
		return "old-or-final"
	}
	return "live"
}

func (e *execer) bound(ver *mx.Version) []byte {
	r := e.rng
	ks := ver.Keys()
	switch x := r.Intn(100); {
	case x < 18:
		return nil
	case x < 22:
		return []byte{}
	case x < 60 && len(ks) > 0:
		return []byte(lib.Pick(r, ks)) // an existing key of this version
	case x < 85 && len(e.keys) > 0:
		return []byte(lib.Pick(r, e.keys)) // a key of another version / probe
	case x < 92 && len(ks) > 0:
		return append([]byte(lib.Pick(r, ks)), 0x00) // just after an existing key
	default:
		return r.Bytes(r.Range(1, 6))
	}
}

func (e *execer) rangeQuery(store storeAPI, t *mavldb.Tree, vi int, phase string, q int) *fail {
	ver := e.model[vi]
	var start, end []byte
	switch q {
	case 0: // full scan
	default:
		start, end = e.bound(ver), e.bound(ver)
		if e.rng.Chance(10) {
			end = append([]byte{}, start...) // equal bounds
		}
	}
	asc := e.rng.Bool()
	if q == 0 {
		asc = true
	}
	api := e.rng.Intn(3)
	inclusive := api == 2
	want := ver.Range(start, end, asc, inclusive)
	var got []string
	var gotV [][]byte
	cb := func(k, v []byte) bool {
		got = append(got, string(k))
		gotV = append(gotV, append([]byte{}, v...))
		return false
	}
	name := ""
	switch api {
	case 0:
		name = "Store.IterateRangeByStateHash"
		store.IterateRangeByStateHash(e.roots[vi], start, end, asc, cb)
	case 1:
		name = "Tree.IterateRange"
		t.IterateRange(start, end, asc, cb)
	case 2:
		name = "Tree.IterateRangeInclusive"
		t.IterateRangeInclusive(start, end, asc, cb)
	}
	e.st.add("range_queries", 1)
	e.st.add("range_keys_visited", int64(len(got)))
	if start != nil && end != nil && bytes.Compare(start, end) > 0 {
		e.st.add("range_inverted_bounds", 1)
	}
	if len(want) > 0 && len(want) < len(ver.M) {
		e.st.add("range_proper_subsets", 1)
	}
	if !asc {
		e.st.add("range_descending", 1)
	}
	desc := func() string {
		return fmt.Sprintf("%s: %s(version %d, start=%s, end=%s, asc=%v)", phase, name, vi, boundStr(start), boundStr(end), asc)
	}
	if len(got) != len(want) {
		kind := "missing-keys"
		if len(got) > len(want) {
			kind = "extra-keys"
		}
		return &fail{shape: "range:" + kind, msg: fmt.Sprintf("%s visited %d keys, model has %d inside the bounds; got %s want %s", desc(), len(got), len(want), keyList(got), keyList(want))}
	}
	for i := range want {
		if got[i] != want[i] {
			return &fail{shape: "range:order-or-keys", msg: fmt.Sprintf("%s position %d is %s, expected %s; got %s want %s", desc(), i, mx.Short([]byte(got[i])), mx.Short([]byte(want[i])), keyList(got), keyList(want))}
		}
		if !eq(gotV[i], ver.M[want[i]]) {
			return &fail{shape: "range:value", msg: fmt.Sprintf("%s key %s carries value %s, model says %s", desc(), mx.Short([]byte(got[i])), mx.Short(gotV[i]), mx.Short(ver.M[want[i]]))}
		}
	}
	return nil
}

func boundStr(b []byte) string {
	if b == nil {
		return "nil"
	}
	return "0x" + mx.Short(b)
}

func keyList(ks []string) string {
	xs := make([]string, 0, len(ks))
	for _, k := range ks {
		xs = append(xs, mx.Short([]byte(k)))
	}
	return "[" + lib.ShortList(xs, 12) + "]"
}

// walk: AVL / size / split-key / content / hash invariants over the persisted records of version vi.
func (e *execer) walk(store storeAPI, vi int, phase string) *fail {
	ver := e.model[vi]
	root := e.roots[vi]
	if len(ver.M) == 0 {
		return nil
	}
	type info struct {
		h, size  int32
		min, max []byte
		hash     []byte // bare 32-byte hash recomputed from content
	}
	var leaves []string
	var ferr *fail
	nodes := 0
	// recursive descent driven by the pre-order callback: rebuild (height,size,min,max,hash) bottom-up with a stack
	type frame struct {
		n        *mavldb.VerifNode
		children []info
	}
	var stack []*frame
	var rootInfo *info
	complete := func(in info) {
		for {
			if len(stack) == 0 {
				rootInfo = &in
				return
			}
			top := stack[len(stack)-1]
			top.children = append(top.children, in)
			if len(top.children) < 2 {
				return
			}
			stack = stack[:len(stack)-1]
			l, r := top.children[0], top.children[1]
			n := top.n
			wantH := l.h + 1
			if r.h > l.h {
				wantH = r.h + 1
			}
			switch {
			case n.Height != wantH:
				ferr = &fail{shape: "struct:height-field", msg: fmt.Sprintf("%s: version %d inner node key=%s stores height %d, children have heights %d/%d", phase, vi, mx.Short(n.Key), n.Height, l.h, r.h)}
			case n.Size != l.size+r.size:
				ferr = &fail{shape: "struct:size-field", msg: fmt.Sprintf("%s: version %d inner node key=%s stores size %d, children have sizes %d+%d", phase, vi, mx.Short(n.Key), n.Size, l.size, r.size)}
			case l.h-r.h > 1 || r.h-l.h > 1:
				ferr = &fail{shape: "struct:balance", msg: fmt.Sprintf("%s: version %d inner node key=%s is unbalanced: child heights %d/%d", phase, vi, mx.Short(n.Key), l.h, r.h)}
			case !(bytes.Compare(l.max, n.Key) < 0 && bytes.Compare(n.Key, r.min) <= 0):
				ferr = &fail{shape: "struct:split-key", msg: fmt.Sprintf("%s: version %d inner node key=%s does not separate its subtrees (left max %s, right min %s)", phase, vi, mx.Short(n.Key), mx.Short(l.max), mx.Short(r.min))}
			}
			if !bytes.Equal(n.Key, r.min) {
				e.st.add("walk_split_key_not_right_min", 1)
			}
			hash := mx.InnerHash(l.hash, r.hash, n.Height, n.Size)
			if ferr == nil && (len(n.Hash) < 32 || !bytes.Equal(n.Hash[len(n.Hash)-32:], hash)) {
				ferr = &fail{shape: "struct:node-hash", msg: fmt.Sprintf("%s: version %d inner node key=%s is stored under %x but its content hashes to %x", phase, vi, mx.Short(n.Key), n.Hash, hash)}
			}
			in = info{h: n.Height, size: n.Size, min: l.min, max: r.max, hash: hash}
		}
	}
	err := mavldb.VerifWalk(store.GetDB(), root, e.treeCfg(), true, func(n *mavldb.VerifNode) bool {
		nodes++
		if n.Height == 0 {
			if n.Size != 1 {
				ferr = &fail{shape: "struct:leaf-size", msg: fmt.Sprintf("%s: version %d leaf %s has size %d", phase, vi, mx.Short(n.Key), n.Size)}
				return true
			}
			leaves = append(leaves, string(n.Key))
			if want, ok := ver.M[string(n.Key)]; ok && !eq(want, n.Value) {
				ferr = &fail{shape: "struct:leaf-value:" + phaseClass(phase), msg: fmt.Sprintf("%s: version %d persisted leaf %s holds %s, model says %s", phase, vi, mx.Short(n.Key), mx.Short(n.Value), mx.Short(want))}
				return true
			}
			hash := mx.LeafHash(n.Key, n.Value)
			if len(n.Hash) < 32 || !bytes.Equal(n.Hash[len(n.Hash)-32:], hash) {
				ferr = &fail{shape: "struct:node-hash", msg: fmt.Sprintf("%s: version %d leaf key=%s is stored under %x but its content hashes to %x", phase, vi, mx.Short(n.Key), n.Hash, hash)}
				return true
			}
			complete(info{h: 0, size: 1, min: n.Key, max: n.Key, hash: hash})
		} else {
			stack = append(stack, &frame{n: n})
		}
		return ferr != nil
	})
	e.st.add("walk_nodes", int64(nodes))
	e.st.add("walks", 1)
	if ferr != nil {
		return ferr
	}
	if err != nil {
		return &fail{shape: "struct:missing-node:" + phaseClass(phase), msg: fmt.Sprintf("%s: walking the persisted nodes of version %d: %v (after %d nodes)", phase, vi, err, nodes)}
	}
	if rootInfo == nil || len(stack) != 0 {
		return &fail{shape: "struct:incomplete", msg: fmt.Sprintf("%s: version %d walk ended with %d open inner nodes", phase, vi, len(stack))}
	}
	want := ver.Keys()
	if len(leaves) != len(want) {
		return &fail{shape: "struct:leaf-set", msg: fmt.Sprintf("%s: version %d has %d persisted leaves, model has %d keys", phase, vi, len(leaves), len(want))}
	}
	for i := range want {
		if leaves[i] != want[i] {
			return &fail{shape: "struct:leaf-set", msg: fmt.Sprintf("%s: version %d leaf #%d is %s, model says %s", phase, vi, i, mx.Short([]byte(leaves[i])), mx.Short([]byte(want[i])))}
		}
	}
	return nil
}

type storeAPI = *mavl.Store

func open(dir string, cfg mx.Cfg) *mavl.Store { return mx.Open(dir, cfg) }

func (e *execer) heightOf(vi int) int64 {
	h := int64(0)
	for vi > 0 {
		vi = e.h.Batches[vi-1].Parent
		h++
	}
	return h
}

// run executes the history; returns the first failure (nil = all comparisons agreed).
func (e *execer) run() (f *fail) {
	defer func() {
		if r := recover(); r != nil {
			f = &fail{shape: "panic", msg: fmt.Sprintf("store code panicked after %d batches: %v", len(e.roots)-1, r), step: len(e.roots) - 1}
		}
	}()
	os.RemoveAll(e.dir)
	mavldb.VerifClearGlobals()
	e.model = mx.Model(e.h)
	all := mx.AllKeys(e.h)
	e.keys = append(append([]string{}, all...), mx.Probes(e.rng, all, 6+len(all)/8)...)
	sort.Strings(e.keys)
	store := open(e.dir, e.cfg)
	closed := false
	defer func() {
		if !closed {
			store.Close()
		}
		os.RemoveAll(e.dir)
	}()
	e.roots = [][]byte{mx.EmptyRoot}
	rl0, rr0 := mavldb.VerifRotations()
	for i, b := range e.h.Batches {
		parent := e.roots[b.Parent]
		height := e.heightOf(i + 1)
		var root []byte
		var err error
		// the store gets private copies of the caller's buffers; they are overwritten as soon as the call returns
		// (the caller owns them), so any aliasing inside the tree shows up in later reads
		kvs := mx.ToKV(cloneKVs(b.KV))
		scribble := func() {
			for _, kv := range kvs {
				for i := range kv.Key {
					kv.Key[i] = 0xAA
				}
				for i := range kv.Value {
					kv.Value[i] = 0x55
				}
			}
		}
		switch b.Op {
		case "set":
			root, err = store.Set(&types.StoreSet{StateHash: parent, KV: kvs, Height: height}, b.Sync)
			scribble()
			e.st.add("batches_set", 1)
		case "memset":
			root, err = store.MemSet(&types.StoreSet{StateHash: parent, KV: kvs, Height: height}, b.Sync)
			scribble()
			if err == nil {
				var r2 []byte
				r2, err = store.Commit(&types.ReqHash{Hash: root})
				if err == nil && !bytes.Equal(r2, root) {
					return &fail{shape: "commit-root", msg: fmt.Sprintf("batch %d: MemSet returned %x, Commit returned %x", i, root, r2), step: i + 1}
				}
			}
			e.st.add("batches_memset_commit", 1)
		case "del":
			var vals [][]byte
			root, vals, err = mavldb.DelKVPair(store.GetDB(), &types.StoreGet{StateHash: parent, Keys: b.Del}, e.treeCfg())
			e.st.add("batches_del", 1)
			if err == nil {
				// removed values must be the parent's values (first removal of a key wins)
				pm := e.model[b.Parent].M
				gone := map[string]bool{}
				for j, k := range b.Del {
					want, ok := pm[string(k)]
					if gone[string(k)] {
						ok, want = false, nil
					}
					gone[string(k)] = true
					if (ok && !eq(vals[j], want)) || (!ok && len(vals[j]) != 0) {
						return &fail{shape: "del:returned-value", msg: fmt.Sprintf("batch %d: DelKVPair returned %s for key %s, parent version %d holds %s (present=%v)", i, mx.Short(vals[j]), mx.Short(k), b.Parent, mx.Short(want), ok), step: i + 1}
					}
				}
			}
		}
		if err != nil {
			return &fail{shape: "write-error:" + b.Op, msg: fmt.Sprintf("batch %d (%s on version %d) failed: %v", i, b.Op, b.Parent, err), step: i + 1}
		}
		e.st.add("writes", int64(len(b.KV)+len(b.Del)))
		if root == nil {
			root = mx.EmptyRoot // DelKVPair of the last key / empty state
			if len(e.model[i+1].M) != 0 {
				return &fail{shape: "nil-root", msg: fmt.Sprintf("batch %d (%s on version %d) returned a nil root, model has %d keys", i, b.Op, b.Parent, len(e.model[i+1].M)), step: i + 1}
			}
		}
		e.roots = append(e.roots, root)
		e.st.add("roots_committed", 1)
		// the new root: complete check
		if f := e.checkVersion(store, i+1, "live", planPresent, true, 4); f != nil {
			f.step = i + 1
			return f
		}
		// older roots must be unchanged: all of them when e.full, else the parent + one random older version (sampled keys)
		if e.full {
			for vi := 1; vi <= i; vi++ {
				if f := e.checkVersion(store, vi, "live-old", planAll, true, 2); f != nil {
					f.step = i + 1
					return f
				}
			}
		} else if i > 0 {
			olds := []int{b.Parent, e.rng.Intn(i + 1)}
			for _, vi := range olds {
				if vi == 0 {
					continue
				}
				if f := e.checkVersion(store, vi, "live-old", planSample, false, 2); f != nil {
					f.step = i + 1
					return f
				}
			}
		}
	}
	rl1, rr1 := mavldb.VerifRotations()
	e.st.add("rotations_left", rl1-rl0)
	e.st.add("rotations_right", rr1-rr0)
	n := len(e.h.Batches)
	sweep := func(phase string, plan int) *fail {
		for vi := 1; vi <= n; vi++ {
			if f := e.checkVersion(store, vi, phase, plan, true, 3); f != nil {
				f.step = n
				return f
			}
		}
		// the empty state stays empty
		if f := e.checkVersion(store, 0, phase, planSample, false, 1); f != nil {
			f.step = n
			return f
		}
		return nil
	}
	if f := sweep("final", planAll); f != nil {
		return f
	}
	// close + reopen in the same process (global caches keep their content)
	store.Close()
	closed = true
	store = open(e.dir, e.cfg)
	closed = false
	e.st.add("reopens", 1)
	if f := sweep("reopen", planQuarter); f != nil {
		return f
	}
	// close + reopen with the process globals of a fresh process
	store.Close()
	closed = true
	mavldb.VerifClearGlobals()
	store = open(e.dir, e.cfg)
	closed = false
	e.st.add("reopens", 1)
	if f := sweep("reopen-fresh", planAll); f != nil {
		return f
	}
	return nil
}

// ---------------------------------------------------------------------------------------------
// minimisation (greedy, bounded number of re-executions)

func dropBatch(h *mx.History, j int) *mx.History {
	n := &mx.History{Alphabet: h.Alphabet}
	for i, b := range h.Batches {
		if i == j {
			continue
		}
		nb := b
		if i > j {
			switch {
			case b.Parent == j+1:
				nb.Parent = h.Batches[j].Parent
			case b.Parent > j+1:
				nb.Parent = b.Parent - 1
			}
		}
		n.Batches = append(n.Batches, nb)
	}
	return n
}

func class(shape string) string {
	for i := 0; i < len(shape); i++ {
		if shape[i] == ':' {
			return shape[:i]
		}
	}
	return shape
}

func minimise(h *mx.History, cfg mx.Cfg, dir string, first *fail, seed uint64) (*mx.History, *fail, int) {
	budget := 120
	runs := 0
	try := func(c *mx.History) *fail {
		runs++
		e := &execer{h: c, cfg: cfg, dir: dir, st: newStats(), rng: lib.NewRng(seed), full: len(c.Batches) <= 12}
		return e.run()
	}
	cur, curF := h, first
	// 1. cut everything after the failing step
	if first.step > 0 && first.step < len(h.Batches) {
		c := &mx.History{Alphabet: h.Alphabet, Batches: append([]mx.Batch{}, h.Batches[:first.step]...)}
		if f := try(c); f != nil && class(f.shape) == class(first.shape) {
			cur, curF = c, f
		}
	}
	// 2. drop whole batches, last to first, until a fixpoint
	for changed := true; changed && runs < budget; {
		changed = false
		for j := len(cur.Batches) - 1; j >= 0 && runs < budget; j-- {
			if len(cur.Batches) <= 1 {
				break
			}
			c := dropBatch(cur, j)
			if f := try(c); f != nil && class(f.shape) == class(first.shape) {
				cur, curF = c, f
				changed = true
			}
		}
	}
	// 3. drop writes inside batches: halves, then single writes
	for bi := range cur.Batches {
		for chunk := (len(cur.Batches[bi].KV) + 1) / 2; chunk >= 1 && runs < budget; chunk /= 2 {
			for off := 0; off < len(cur.Batches[bi].KV) && runs < budget; {
				kv := cur.Batches[bi].KV
				if len(kv) <= 1 {
					break
				}
				end := off + chunk
				if end > len(kv) {
					end = len(kv)
				}
				c := &mx.History{Alphabet: cur.Alphabet, Batches: append([]mx.Batch{}, cur.Batches...)}
				nb := c.Batches[bi]
				nb.KV = append(append([]mx.KV{}, kv[:off]...), kv[end:]...)
				c.Batches[bi] = nb
				if f := try(c); f != nil && class(f.shape) == class(first.shape) {
					cur, curF = c, f
				} else {
					off += chunk
				}
			}
		}
	}
	return cur, curF, runs
}

// ---------------------------------------------------------------------------------------------

func childMain(in []byte) (any, error) {
	mx.Quiet()
	var ci childIn
	if err := json.Unmarshal(in, &ci); err != nil {
		return nil, err
	}
	out := &childOut{Counters: map[string]int64{}, Sets: map[string][]string{}}
	if pf := os.Getenv("VERIF_PROF"); pf != "" {
		f, _ := os.Create(fmt.Sprintf("%s.%d", pf, os.Getpid()))
		pprof.StartCPUProfile(f)
		defer pprof.StopCPUProfile()
	}
	st := newStats()
	tmp := os.Getenv("VERIF_TMP")
	minimised := false
	for _, idx := range ci.Indices {
		h := genHistory(ci.Seed, ci.Tier, idx)
		nw := 0
		for _, b := range h.Batches {
			nw += len(b.KV) + len(b.Del)
		}
		for ci2, cfg := range mx.ConfigsC01 {
			c := &lib.Ctx{Prop: "C01", Seed: ci.Seed}
			e := &execer{h: h, cfg: cfg, dir: filepath.Join(tmp, fmt.Sprintf("h%d-%d", idx, ci2)), st: st,
				rng: c.CaseRng("check", idx*16+ci2), full: len(h.Batches) <= 8}
			e.capKeys = 300
			if ci.Tier == "thorough" {
				e.capKeys = 1500
			}
			rotBefore := st.cnt["rotations_left"] + st.cnt["rotations_right"]
			t0 := time.Now()
			f := e.run()
			if os.Getenv("VERIF_TIMING") != "" {
				fmt.Fprintf(os.Stderr, "TIMING idx=%d cfg=%s batches=%d writes=%d ms=%d\n", idx, cfg.Name, len(h.Batches), nw, time.Since(t0).Milliseconds())
			}
			rot := st.cnt["rotations_left"] + st.cnt["rotations_right"] - rotBefore
			if e.staleOK > 0 {
				st.add("old_root_reads_differing_from_newest", e.staleOK)
			}
			co := caseOut{Index: idx, Cfg: cfg.Name, Nontrivial: e.staleOK > 0 && rot > 0 && f == nil,
				FP: lib.Fingerprint(map[string]any{"i": idx, "cfg": cfg.Name, "alphabet": h.Alphabet, "batches": len(h.Batches), "writes": nw})}
			if co.Nontrivial && idx < 3 && ci2 == 0 {
				co.Sample = map[string]any{"history_index": idx, "cfg": cfg.Name, "alphabet": h.Alphabet, "batches": len(h.Batches), "writes": nw,
					"versions": len(e.roots), "rotations": rot, "old_root_reads_whose_answer_differs_from_newest_version": e.staleOK,
					"first_batch": trimBatch(h.Batches[0])}
			}
			out.Cases = append(out.Cases, co)
			st.seen("alphabets", h.Alphabet)
			if f != nil {
				wh, wf, runs := h, f, 0
				if !minimised {
					minimised = true
					wh, wf, runs = minimise(h, cfg, filepath.Join(tmp, "min"), f, uint64(idx))
				}
				out.Failures = append(out.Failures, failure{Index: idx, Cfg: cfg.Name, Shape: wf.shape + "@" + cfg.Name, Msg: wf.msg,
					Witness: map[string]any{"cfg": cfg, "history": wh, "original_batches": len(h.Batches), "original_failure": f.msg, "minimiser_runs": runs}})
			}
		}
	}
	for k, v := range st.cnt {
		out.Counters[k] = v
	}
	for k, m := range st.sets {
		for v := range m {
			out.Sets[k] = append(out.Sets[k], v)
		}
	}
	return out, nil
}

func cloneKVs(kvs []mx.KV) []mx.KV {
	out := make([]mx.KV, len(kvs))
	for i, kv := range kvs {
		out[i] = mx.KV{K: append([]byte{}, kv.K...), V: append([]byte{}, kv.V...)}
	}
	return out
}

func trimBatch(b mx.Batch) mx.Batch {
	if len(b.KV) > 3 {
		b.KV = b.KV[:3]
	}
	return b
}

func run(c *lib.Ctx) {
	c.Rule("case = (generated history, store configuration): 5-60 batches of 1-300 writes over engineered key alphabets (ascending, descending, zig-zag, shared prefixes incl. keys that " +
		"are prefixes of others, binary incl. empty key, hashes, ticket keys with closed-ticket values, mixed), 25% of batches extend a non-latest version, a third of the histories also remove keys through db.DelKVPair; " +
		"applied to the real mavl.Store on LevelDB under plain / prefix / prefix+prune / memtree+memval; every version is compared with a versioned-map model after each commit, at the end, " +
		"after reopen and after reopen with fresh globals. non-trivial = the monitor measured >=1 read at a non-latest root whose model answer differs from the newest version AND >=1 AVL rotation")
	c.Assume("goleveldb and the harness' map model are trusted", "Store.Get cannot distinguish an absent key from an empty value: it is compared as bytes, presence is compared through Tree.Get",
		"structural invariants (size, AVL balance, split key, node hash, Tree.Get index) are monitored as part of the DESIGN's oracle and reported under shape struct:*",
		"removal batches use db.DelKVPair (the store's Del is unsupported); they are an extra operation stream of the same model")
	n := c.N(32, 600)
	var idxs []int
	for i := 0; i < n; i++ {
		if c.Skip(i) {
			continue
		}
		idxs = append(idxs, i)
	}
	// 16 worker processes (one store at a time per process), histories dealt round-robin. Long-lived workers keep
	// their heap warm: fresh pages are very expensive on the target box.
	nw := 16
	if len(idxs) < nw {
		nw = len(idxs)
	}
	// longest-processing-time-first assignment on an estimated cost (keys x versions), deterministic
	type wt struct {
		idx  int
		cost int
	}
	var wts []wt
	for _, i := range idxs {
		h := genHistory(c.Seed, c.Tier, i)
		keys := 0
		for _, b := range h.Batches {
			keys += len(b.KV) + len(b.Del)
		}
		wts = append(wts, wt{i, (keys + 50) * (len(h.Batches) + 5)})
	}
	sort.SliceStable(wts, func(a, b int) bool { return wts[a].cost > wts[b].cost })
	chunks := make([][]int, nw)
	load := make([]int, nw)
	for _, w := range wts {
		m := 0
		for k := range load {
			if load[k] < load[m] {
				m = k
			}
		}
		chunks[m] = append(chunks[m], w.idx)
		load[m] += w.cost
	}
	lib.Parallel(len(chunks), 16, func(k int) {
		res := c.Child("hist", childIn{Seed: c.Seed, Tier: c.Tier, Indices: chunks[k]}, lib.ChildOpts{Timeout: 120 * time.Minute, Env: []string{"GOGC=200"}})
		if res.TimedOut {
			c.Inconclusive("child for histories %v hit the watchdog", chunks[k])
			return
		}
		if os.Getenv("VERIF_TIMING") != "" {
			fmt.Fprintf(os.Stderr, "child %v wall=%dms\n%s", chunks[k], res.WallMs, res.Stderr)
		}
		var out childOut
		if res.Died || json.Unmarshal(res.Out, &out) != nil {
			c.Violation(chunks[k][0], "child-died", map[string]any{"histories": chunks[k], "stderr": res.Stderr},
				"child process running histories %v died (exit %d): %s", chunks[k], res.ExitCode, res.Stderr)
			return
		}
		for _, co := range out.Cases {
			c.Case(co.FP, co.Nontrivial, co.Sample)
		}
		for k, v := range out.Counters {
			c.Count(k, v)
		}
		for set, vs := range out.Sets {
			for _, v := range vs {
				c.Seen(set, v)
			}
		}
		for _, f := range out.Failures {
			c.Violation(f.Index, f.Shape, f.Witness, "history %d, cfg %s: %s", f.Index, f.Cfg, f.Msg)
		}
	})
	c.Extra("configs", []string{"plain", "prefix", "prefix+prune", "memtree+memval"})
	c.RequireEvents("store_get_compared", 1000)
	c.RequireEvents("range_queries", 100)
	c.RequireEvents("reads_at_old_roots", 100)
	c.RequireEvents("walk_nodes", 100)
	c.RequireEvents("rotations_left", 1)
	c.RequireEvents("rotations_right", 1)
}

func main() {
	lib.RegisterChild("hist", childMain)
	lib.Main("C01", "exploration", run)
}
