// C10: indexed tables (common/db/table) keep rows and indexes consistent.
//
// Monitor: generated batches of Add/Replace/Update/Del (several operations per primary key between two
// Saves) run against the REAL table code over GoMemDB/GoLevelDB next to a map[pk]row model.
//   - return-value oracle while the batch is buffered (Add fails iff the key is present NOW, Update/Del fail iff absent),
//   - after every Save (KVs applied): GetData of every pk, ListIndex/List of every index value ever used
//     (documented prefix semantics, both directions, paging), primary listing,
//   - structural scan of the raw KV: data and index records <=> (present row, indexed field) pairs.
//
// A second family does the same for a JoinTable (left gameaddr, right game).
package main

import (
	"bytes"
	"encoding/binary"
	"fmt"
	"os"
	"path/filepath"
	"runtime"
	"sort"
	"strings"
	"sync"
	"sync/atomic"
	"time"

	dbm "github.com/33cn/chain33/common/db"
	"github.com/33cn/chain33/common/db/table"
	protodata "github.com/33cn/chain33/common/db/table/proto"
	clog "github.com/33cn/chain33/common/log"
	"github.com/33cn/chain33/types"
	"verifharness/lib"
)

// ---------------------------------------------------------------------------------------------
// row metas (the harness' own, same contract as the ones in table_test.go / join_test.go)

type gaMeta struct{ *protodata.GameAddr }

func (m *gaMeta) CreateRow() *table.Row { return &table.Row{Data: &protodata.GameAddr{}} }
func (m *gaMeta) SetPayload(d types.Message) error {
	if x, ok := d.(*protodata.GameAddr); ok {
		m.GameAddr = x
		return nil
	}
	return types.ErrTypeAsset
}
func (m *gaMeta) Get(key string) ([]byte, error) {
	switch key {
	case "txhash":
		return []byte(m.Txhash), nil
	case "gameID":
		return []byte(m.GameID), nil
	case "addr":
		return []byte(m.Addr), nil
	}
	return nil, types.ErrNotFound
}

type gameMeta struct{ *protodata.Game }

func (m *gameMeta) CreateRow() *table.Row { return &table.Row{Data: &protodata.Game{}} }
func (m *gameMeta) SetPayload(d types.Message) error {
	if x, ok := d.(*protodata.Game); ok {
		m.Game = x
		return nil
	}
	return types.ErrTypeAsset
}
func (m *gameMeta) Get(key string) ([]byte, error) {
	switch key {
	case "gameID":
		return []byte(m.GameID), nil
	case "status":
		return []byte(fmt.Sprint(m.Status)), nil
	}
	return nil, types.ErrNotFound
}

// ---------------------------------------------------------------------------------------------
// program

type op struct {
	Op string `json:"op"` // add | replace | update | del
	PK string `json:"pk"`
	G  string `json:"g,omitempty"` // gameID (indexed)
	A  string `json:"a,omitempty"` // addr (indexed unless the case indexes gameID only)
}

type prog struct {
	Backend   string   `json:"backend"`   // mem | leveldb
	Index     []string `json:"index"`     // ["gameID","addr"] or ["gameID"]
	NewTable  bool     `json:"new_table"` // a fresh Table object per batch (else one object for the whole case)
	ViaQuery  bool     `json:"via_query"` // list through table.GetQuery(kvdb) instead of table.ListIndex
	Values    []string `json:"values"`    // index value pool (mode B: prefixes of each other)
	PKs       []string `json:"pks"`
	Batches   [][]op   `json:"batches"`
	PrefixMod bool     `json:"prefix_mode"`
}

type row struct{ G, A string }

type failure struct {
	Kind   string `json:"kind"`
	PK     string `json:"pk"`
	Batch  int    `json:"batch"`
	OpIdx  int    `json:"op_index"`
	Detail string `json:"detail"`
}

type stats struct {
	ops, opsOK, opsRejected            int64
	saves, gets, lists, listRows, raws int64
	multiOpKeys, idxChanges, paged     int64
	kvWritten                          int64
	delThenMore                        int64 // pk present in the db, deleted in the batch, then touched again in the same batch
}

const (
	tblPrefix = "LODB"
	tblName   = "ga"
)

func msg(pk string, r row) *protodata.GameAddr {
	return &protodata.GameAddr{Txhash: pk, GameID: r.G, Addr: r.A}
}

func indexed(p *prog, name string) bool {
	for _, x := range p.Index {
		if x == name {
			return true
		}
	}
	return false
}

func fieldOf(r row, index string) string {
	if index == "gameID" {
		return r.G
	}
	return r.A
}

func applyKVs(d dbm.DB, kvs []*types.KeyValue) {
	for _, kv := range kvs {
		if kv.Value == nil {
			d.Delete(kv.Key)
		} else if err := d.Set(kv.Key, kv.Value); err != nil {
			panic(err)
		}
	}
}

func rawScan(d dbm.DB, prefix string) map[string][]byte {
	out := map[string][]byte{}
	it := d.Iterator([]byte(prefix), nil, false)
	for it.Rewind(); it.Valid(); it.Next() {
		out[string(it.Key())] = append([]byte(nil), it.Value()...)
	}
	it.Close()
	return out
}

func encodeRow(pk string, m types.Message) []byte {
	b := make([]byte, 8)
	binary.LittleEndian.PutUint64(b, uint64(len(pk)))
	b = append(b, pk...)
	return append(b, types.Encode(m)...)
}

type tenv struct {
	p     *prog
	db    dbm.DB
	kvdb  dbm.KVDB
	tbl   *table.Table
	model map[string]row // committed + buffered (what a map would hold now)
	used  map[string]map[string]bool
	st    *stats
}

func (e *tenv) newTable() {
	t, err := table.NewTable(&gaMeta{GameAddr: &protodata.GameAddr{}}, e.kvdb, &table.Option{
		Prefix: tblPrefix, Name: tblName, Primary: "txhash", Index: append([]string(nil), e.p.Index...)})
	if err != nil {
		panic(err)
	}
	e.tbl = t
}

func sameRow(got *table.Row, pk string, want row) (bool, string) {
	g, ok := got.Data.(*protodata.GameAddr)
	if !ok {
		return false, fmt.Sprintf("row data has type %T", got.Data)
	}
	if string(got.Primary) != pk || g.Txhash != pk || g.GameID != want.G || g.Addr != want.A {
		return false, fmt.Sprintf("{primary:%q txhash:%q gameID:%q addr:%q}", got.Primary, g.Txhash, g.GameID, g.Addr)
	}
	return true, ""
}

// expectedList: rows whose "<value>-<pk>" index key starts with prefix, in index-key order.
func (e *tenv) expectedList(index string, prefix string, from string, count int, asc bool) (pks []string, errWanted bool) {
	type ent struct{ key, pk string }
	var ents []ent
	for pk, r := range e.model {
		k := fieldOf(r, index) + "-" + pk
		if index == "primary" {
			k = pk
		}
		if strings.HasPrefix(k, prefix) {
			ents = append(ents, ent{k, pk})
		}
	}
	sort.Slice(ents, func(i, j int) bool { return ents[i].key < ents[j].key })
	if !asc {
		for i, j := 0, len(ents)-1; i < j; i, j = i+1, j-1 {
			ents[i], ents[j] = ents[j], ents[i]
		}
	}
	if from != "" {
		r, ok := e.model[from]
		if !ok {
			return nil, true
		}
		k0 := fieldOf(r, index) + "-" + from
		var rest []ent
		for _, x := range ents {
			if (asc && x.key > k0) || (!asc && x.key < k0) {
				rest = append(rest, x)
			}
		}
		ents = rest
	}
	if count > 0 && len(ents) > count {
		ents = ents[:count]
	}
	for _, x := range ents {
		pks = append(pks, x.pk)
	}
	return pks, len(pks) == 0
}

func (e *tenv) list(index string, prefix []byte, from []byte, count, dir int32) ([]*table.Row, error) {
	if e.p.ViaQuery {
		return e.tbl.GetQuery(e.kvdb).ListIndex(index, prefix, from, count, dir)
	}
	return e.tbl.ListIndex(index, prefix, from, count, dir)
}

// rawDiff compares the raw records with the model; returns discrepancies (kind, pk, text), sorted.
func (e *tenv) rawDiff() [][3]string {
	var out [][3]string
	raw := rawScan(e.db, tblPrefix+"-"+tblName+"-")
	want := map[string][]byte{}
	owner := map[string]string{}
	for pk, r := range e.model {
		dk := tblPrefix + "-" + tblName + "-d-" + pk
		want[dk] = encodeRow(pk, msg(pk, r))
		owner[dk] = pk
		for _, ix := range e.p.Index {
			ik := tblPrefix + "-" + tblName + "-m-" + ix + "-" + fieldOf(r, ix) + "-" + pk
			want[ik] = []byte(pk)
			owner[ik] = pk
		}
	}
	for k, v := range raw {
		isData := strings.HasPrefix(k, tblPrefix+"-"+tblName+"-d-")
		isIdx := strings.HasPrefix(k, tblPrefix+"-"+tblName+"-m-")
		if !isData && !isIdx {
			continue // autoinc counter etc.
		}
		w, ok := want[k]
		switch {
		case !ok && isIdx:
			out = append(out, [3]string{"raw-stale-index", string(v), fmt.Sprintf("index record %q -> %q has no present row/field behind it", k, v)})
		case !ok && isData:
			out = append(out, [3]string{"raw-stale-data", strings.TrimPrefix(k, tblPrefix+"-"+tblName+"-d-"), fmt.Sprintf("data record %q of an absent row", k)})
		case isIdx && !bytes.Equal(v, w):
			out = append(out, [3]string{"raw-wrong-index", owner[k], fmt.Sprintf("index record %q -> %q, want %q", k, v, w)})
		case isData && !bytes.Equal(v, w):
			out = append(out, [3]string{"raw-wrong-data", owner[k], fmt.Sprintf("data record %q holds %x, want %x", k, v, w)})
		}
	}
	for k := range want {
		if _, ok := raw[k]; !ok {
			kind := "raw-missing-index"
			if strings.HasPrefix(k, tblPrefix+"-"+tblName+"-d-") {
				kind = "raw-missing-data"
			}
			out = append(out, [3]string{kind, owner[k], fmt.Sprintf("record %q is missing (row %q is present: %+v)", k, owner[k], e.model[owner[k]])})
		}
	}
	sort.Slice(out, func(i, j int) bool { return out[i][0]+out[i][1]+out[i][2] < out[j][0]+out[j][1]+out[j][2] })
	return out
}

func (e *tenv) culprit() string {
	if d := e.rawDiff(); len(d) > 0 {
		return d[0][1]
	}
	return ""
}

func (e *tenv) checkAfterSave(bi int) *failure {
	// (a) every pk
	for _, pk := range e.p.PKs {
		got, err := e.tbl.GetData([]byte(pk))
		e.st.gets++
		want, ok := e.model[pk]
		switch {
		case ok && err != nil:
			return &failure{Kind: "get-missing-row", PK: pk, Batch: bi, Detail: fmt.Sprintf("GetData(%q) = %v, model row %+v", pk, err, want)}
		case !ok && err == nil:
			return &failure{Kind: "get-stale-row", PK: pk, Batch: bi, Detail: fmt.Sprintf("GetData(%q) returns a row, model: absent", pk)}
		case !ok && err != types.ErrNotFound:
			return &failure{Kind: "get-wrong-error", PK: pk, Batch: bi, Detail: fmt.Sprintf("GetData(%q) = %v, want ErrNotFound", pk, err)}
		case ok:
			if same, txt := sameRow(got, pk, want); !same {
				return &failure{Kind: "get-wrong-row", PK: pk, Batch: bi, Detail: fmt.Sprintf("GetData(%q) = %s, model row %+v", pk, txt, want)}
			}
		}
	}
	// (b) every index value ever used, both directions; plus prefixes in prefix mode, plus paging
	check := func(index, prefix, from string, count int, asc bool) *failure {
		dir := int32(dbm.ListDESC)
		if asc {
			dir = dbm.ListASC
		}
		var fromB, prefB []byte
		if from != "" {
			fromB = []byte(from)
		}
		if prefix != "" {
			prefB = []byte(prefix)
		}
		rows, err := e.list(index, prefB, fromB, int32(count), dir)
		e.st.lists++
		want, wantErr := e.expectedList(index, prefix, from, count, asc)
		desc := fmt.Sprintf("ListIndex(%q, prefix=%q, from=%q, count=%d, asc=%v)", index, prefix, from, count, asc)
		if err != nil {
			if wantErr && err == types.ErrNotFound {
				return nil
			}
			return &failure{Kind: "list-error", PK: e.culprit(), Batch: bi, Detail: fmt.Sprintf("%s = error %v, model rows %v", desc, err, want)}
		}
		e.st.listRows += int64(len(rows))
		var got []string
		for _, r := range rows {
			got = append(got, string(r.Primary))
		}
		if fmt.Sprint(got) != fmt.Sprint(want) {
			// culprit: first pk in the symmetric difference, else first position that differs
			inWant, inGot := map[string]bool{}, map[string]bool{}
			for _, x := range want {
				inWant[x] = true
			}
			for _, x := range got {
				inGot[x] = true
			}
			c, kind := "", "list-wrong-order"
			for _, x := range got {
				if !inWant[x] {
					c, kind = x, "list-extra-row"
					break
				}
			}
			if c == "" {
				for _, x := range want {
					if !inGot[x] {
						c, kind = x, "list-missing-row"
						break
					}
				}
			}
			return &failure{Kind: kind, PK: c, Batch: bi, Detail: fmt.Sprintf("%s = %v, model %v", desc, got, want)}
		}
		for i, r := range rows {
			if same, txt := sameRow(r, want[i], e.model[want[i]]); !same {
				return &failure{Kind: "list-wrong-row", PK: want[i], Batch: bi, Detail: fmt.Sprintf("%s row %d = %s, model %+v", desc, i, txt, e.model[want[i]])}
			}
		}
		return nil
	}
	for _, ix := range e.p.Index {
		vals := make([]string, 0, len(e.used[ix]))
		for v := range e.used[ix] {
			vals = append(vals, v)
		}
		sort.Strings(vals)
		for _, v := range vals {
			for _, asc := range []bool{false, true} {
				if f := check(ix, v, "", 0, asc); f != nil {
					return f
				}
			}
			if !e.p.PrefixMod {
				// exact lookups: "<value>-" cannot match a longer value
				if f := check(ix, v+"-", "", 0, false); f != nil {
					return f
				}
			}
		}
		if f := check(ix, "", "", 0, true); f != nil { // whole index
			return f
		}
		// paging from every present row
		for _, pk := range e.p.PKs {
			if _, ok := e.model[pk]; !ok {
				continue
			}
			e.st.paged++
			if f := check(ix, "", pk, 0, true); f != nil {
				return f
			}
			if f := check(ix, "", pk, 1, false); f != nil {
				return f
			}
		}
	}
	for _, asc := range []bool{false, true} {
		if f := check("primary", "", "", 0, asc); f != nil {
			return f
		}
	}
	// (c) structure of the raw KV
	e.st.raws++
	if d := e.rawDiff(); len(d) > 0 {
		return &failure{Kind: d[0][0], PK: d[0][1], Batch: bi, Detail: d[0][2]}
	}
	return nil
}

var dirSeq int64

func runProg(p *prog, tmp string, st *stats) (f *failure) {
	e := &tenv{p: p, model: map[string]row{}, used: map[string]map[string]bool{"gameID": {}, "addr": {}}, st: st}
	var closeFn func()
	defer func() {
		if closeFn != nil {
			closeFn()
		}
		if r := recover(); r != nil {
			f = &failure{Kind: "panic", Detail: fmt.Sprintf("panic: %v", r)}
		}
	}()
	if p.Backend == "leveldb" {
		dir := filepath.Join(tmp, fmt.Sprintf("tbl-%d", atomic.AddInt64(&dirSeq, 1)))
		os.MkdirAll(dir, 0o755)
		l, err := dbm.NewGoLevelDB("tbl", dir, 4)
		if err != nil {
			panic(err)
		}
		e.db = l
		closeFn = func() { l.Close(); os.RemoveAll(dir) }
	} else {
		e.db, _ = dbm.NewGoMemDB("", "", 0)
	}
	e.kvdb = dbm.NewKVDB(e.db)
	e.newTable()
	for bi, batch := range p.Batches {
		if p.NewTable && bi > 0 {
			e.newTable()
		}
		committed := map[string]bool{}
		for pk := range e.model {
			committed[pk] = true
		}
		touched := map[string]int{}
		deleted := map[string]bool{}
		for oi, o := range batch {
			st.ops++
			cur, present := e.model[o.PK]
			nr := row{o.G, o.A}
			if deleted[o.PK] {
				st.delThenMore++
			}
			touched[o.PK]++
			if touched[o.PK] == 2 {
				st.multiOpKeys++
			}
			var err error
			var wantErr error
			switch o.Op {
			case "add":
				err = e.tbl.Add(msg(o.PK, nr))
				if present {
					wantErr = table.ErrDupPrimaryKey
				} else {
					e.model[o.PK] = nr
				}
			case "replace":
				err = e.tbl.Replace(msg(o.PK, nr))
				e.model[o.PK] = nr
			case "update":
				err = e.tbl.Update([]byte(o.PK), msg(o.PK, nr))
				if !present {
					wantErr = types.ErrNotFound
				} else {
					e.model[o.PK] = nr
				}
			case "del":
				err = e.tbl.Del([]byte(o.PK))
				if !present {
					wantErr = types.ErrNotFound
				} else {
					delete(e.model, o.PK)
					if committed[o.PK] {
						deleted[o.PK] = true
					}
				}
			}
			if wantErr == nil && o.Op != "del" {
				e.used["gameID"][o.G] = true
				e.used["addr"][o.A] = true
				if present && (cur.G != nr.G || (indexed(p, "addr") && cur.A != nr.A)) {
					st.idxChanges++
				}
			}
			state := "absent"
			if present {
				state = fmt.Sprintf("present %+v", cur)
			}
			switch {
			case wantErr == nil && err != nil:
				return &failure{Kind: "ret-" + o.Op + "-rejected", PK: o.PK, Batch: bi, OpIdx: oi,
					Detail: fmt.Sprintf("batch %d op %d: %s(%q) = %v although the key is %s now", bi, oi, o.Op, o.PK, err, state)}
			case wantErr != nil && err == nil:
				return &failure{Kind: "ret-" + o.Op + "-accepted", PK: o.PK, Batch: bi, OpIdx: oi,
					Detail: fmt.Sprintf("batch %d op %d: %s(%q) = nil although the key is %s now (want %v)", bi, oi, o.Op, o.PK, state, wantErr)}
			case wantErr != nil && err != wantErr:
				return &failure{Kind: "ret-" + o.Op + "-wrong-error", PK: o.PK, Batch: bi, OpIdx: oi,
					Detail: fmt.Sprintf("batch %d op %d: %s(%q) = %v, want %v", bi, oi, o.Op, o.PK, err, wantErr)}
			}
			if err == nil {
				st.opsOK++
			} else {
				st.opsRejected++
			}
		}
		kvs, err := e.tbl.Save()
		st.saves++
		if err != nil {
			return &failure{Kind: "save-error", Batch: bi, Detail: fmt.Sprintf("Save of batch %d = %v", bi, err)}
		}
		st.kvWritten += int64(len(kvs))
		applyKVs(e.db, kvs)
		if f := e.checkAfterSave(bi); f != nil {
			return f
		}
	}
	return nil
}

func runProgT(p *prog, tmp string, st *stats, d time.Duration) (*failure, bool) {
	type res struct {
		f  *failure
		st stats
	}
	ch := make(chan res, 1)
	go func() {
		var s stats
		g := runProg(p, tmp, &s)
		ch <- res{g, s}
	}()
	select {
	case r := <-ch:
		*st = r.st
		return r.f, false
	case <-time.After(d):
		return nil, true
	}
}

// ---------------------------------------------------------------------------------------------
// history facts: trigger predicate + op pattern of one pk in one batch (computed from the history alone)

// walk replays the history on a plain map and calls visit for each op with (batch, op index, present-now, committed-at-batch-start, current row).
func walk(p *prog, visit func(bi, oi int, o op, present, committed bool, cur, stored row)) {
	model := map[string]row{}
	for bi, b := range p.Batches {
		committed := map[string]row{}
		for pk, r := range model {
			committed[pk] = r
		}
		for oi, o := range b {
			cur, present := model[o.PK]
			stored, isCommitted := committed[o.PK]
			visit(bi, oi, o, present, isCommitted, cur, stored)
			switch o.Op {
			case "add":
				if !present {
					model[o.PK] = row{o.G, o.A}
				}
			case "replace":
				model[o.PK] = row{o.G, o.A}
			case "update":
				if present {
					model[o.PK] = row{o.G, o.A}
				}
			case "del":
				delete(model, o.PK)
			}
		}
	}
}

// hasTrigger: some batch deletes a row that is in the database (committed before the batch) and then touches the same pk again.
func hasTrigger(p *prog) bool {
	trig := false
	delIn := map[string]int{}
	walk(p, func(bi, oi int, o op, present, committed bool, cur, stored row) {
		if b, ok := delIn[o.PK]; ok && b == bi {
			trig = true
		}
		if o.Op == "del" && present && committed {
			delIn[o.PK] = bi
		}
	})
	return trig
}

// pattern: the operations on pk in batch bi, abstracted: add, del, replace/update-{new,same,idx,data}; "!" marks
// an operation a map would reject; "-new=stored"/"-new~stored": replace of a key deleted earlier in the batch with
// data equal to / different from the row stored in the database.
func pattern(p *prog, pk string, bi int) (pat string, committedAtStart bool) {
	var items []string
	first := true
	walk(p, func(b, oi int, o op, present, committed bool, cur, stored row) {
		if b != bi || o.PK != pk {
			return
		}
		if first {
			committedAtStart = committed
			first = false
		}
		it := o.Op
		switch o.Op {
		case "add":
			if present {
				it += "!"
			}
		case "del":
			if !present {
				it += "!"
			}
		case "update", "replace":
			nr := row{o.G, o.A}
			switch {
			case !present && o.Op == "update":
				it += "!"
			case !present && committed && nr == stored:
				it += "-new=stored" // the key was deleted earlier in this batch; the new data equals the stored row
			case !present && committed:
				it += "-new~stored"
			case !present:
				it += "-new"
			case nr == cur:
				it += "-same"
			case cur.G != nr.G || (indexed(p, "addr") && cur.A != nr.A):
				it += "-idx"
			default:
				it += "-data"
			}
		}
		items = append(items, it)
	})
	return strings.Join(items, ","), committedAtStart
}

func shapeOf(p *prog, f *failure) string {
	if f.Kind == "panic" || f.Kind == "save-error" {
		return f.Kind
	}
	pat, committed := pattern(p, f.PK, f.Batch)
	dbs := "absent"
	if committed {
		dbs = "present"
	}
	if pat == "" {
		pat = "none-in-failing-batch"
	}
	sh := fmt.Sprintf("%s/db=%s/ops=%s", f.Kind, dbs, pat)
	if p.Backend != "mem" {
		sh += "/backend=" + p.Backend
	}
	return sh
}

// ---------------------------------------------------------------------------------------------
// generator

func genProg(rng *lib.Rng, stratum string) *prog {
	p := &prog{Backend: "mem", Index: []string{"gameID", "addr"}}
	if rng.Chance(10) {
		p.Backend = "leveldb"
	}
	if rng.Chance(25) {
		p.Index = []string{"gameID"}
	}
	p.NewTable = rng.Chance(30)
	p.ViaQuery = rng.Bool()
	if rng.Chance(40) {
		p.PrefixMod = true
		p.Values = []string{"r", "re", "red", "redd", "blue"}
	} else {
		p.Values = []string{"red", "blue", "green", "amber"}[:rng.Range(2, 4)]
	}
	npk := rng.Range(3, 6)
	all := []string{"p1", "p2", "p3", "p4", "p5", "p6"}
	if p.PrefixMod && rng.Bool() {
		all = []string{"p", "p1", "p12", "p2", "q", "q1"}
	}
	p.PKs = all[:npk]
	model := map[string]row{}
	nb := rng.Range(2, 6)
	for b := 0; b < nb; b++ {
		committed := map[string]bool{}
		for pk := range model {
			committed[pk] = true
		}
		var batch []op
		deleted := map[string]bool{}
		// 1..6 operations per chosen key, interleaved
		var plan []string
		for _, pk := range p.PKs {
			if rng.Chance(65) {
				n := 1
				if rng.Chance(60) {
					n = rng.Range(2, 6)
				}
				for i := 0; i < n; i++ {
					plan = append(plan, pk)
				}
			}
		}
		if rng.Chance(50) {
			perm := rng.Perm(len(plan))
			np := make([]string, len(plan))
			for i, j := range perm {
				np[i] = plan[j]
			}
			plan = np
		}
		for _, pk := range plan {
			if stratum == "clean" && deleted[pk] {
				continue
			}
			cur, present := model[pk]
			o := op{PK: pk, G: lib.Pick(rng, p.Values), A: lib.Pick(rng, p.Values)}
			r := rng.Intn(100)
			if stratum == "trigger" && deleted[pk] && rng.Chance(50) {
				// after a delete of a stored row: re-add / replace with the stored data / update / delete again
				r = rng.Intn(100)
			}
			switch {
			case present && r < 30:
				o.Op = "update"
				if rng.Chance(25) {
					o.G, o.A = cur.G, cur.A
				} else if rng.Chance(30) {
					o.G = cur.G
				}
			case present && r < 55:
				o.Op = "del"
				o.G, o.A = "", ""
			case present && r < 80:
				o.Op = "replace"
				if rng.Chance(30) {
					o.G, o.A = cur.G, cur.A
				}
			case present:
				o.Op = "add" // must be rejected
			case r < 55:
				o.Op = "add"
			case r < 80:
				o.Op = "replace"
			case r < 90:
				o.Op = "update" // must be rejected
			default:
				o.Op = "del" // must be rejected
				o.G, o.A = "", ""
			}
			// a replace after a delete with exactly the stored data (needs the data of the committed row)
			batch = append(batch, o)
			switch o.Op {
			case "add":
				if !present {
					model[pk] = row{o.G, o.A}
				}
			case "replace":
				model[pk] = row{o.G, o.A}
			case "update":
				if present {
					model[pk] = row{o.G, o.A}
				}
			case "del":
				if present && committed[pk] {
					deleted[pk] = true
				}
				delete(model, pk)
			}
		}
		p.Batches = append(p.Batches, batch)
	}
	return p
}

// ---------------------------------------------------------------------------------------------
// minimiser (candidates of a clean history must stay clean)

func cloneProg(p *prog) *prog {
	q := *p
	q.Batches = nil
	for _, b := range p.Batches {
		q.Batches = append(q.Batches, append([]op(nil), b...))
	}
	q.PKs = append([]string(nil), p.PKs...)
	q.Index = append([]string(nil), p.Index...)
	q.Values = append([]string(nil), p.Values...)
	return &q
}

func minimise(p *prog, f *failure, tmp string, keepClean bool) (*prog, *failure, int) {
	cur, curF := cloneProg(p), f
	runs := 0
	try := func(q *prog) bool {
		if runs > 3000 || (keepClean && hasTrigger(q)) {
			return false
		}
		runs++
		var st stats
		g, _ := runProgT(cloneProg(q), tmp, &st, 5*time.Second)
		if g != nil && g.Kind == f.Kind {
			cur, curF = q, g
			return true
		}
		return false
	}
	if cur.Backend != "mem" {
		q := cloneProg(cur)
		q.Backend = "mem"
		try(q)
	}
	for changed := true; changed; {
		changed = false
		// drop trailing batches after the failing one, then whole batches, then merge neighbours, then single ops
		for i := len(cur.Batches) - 1; i >= 0; i-- {
			q := cloneProg(cur)
			q.Batches = append(q.Batches[:i], q.Batches[i+1:]...)
			if try(q) {
				changed = true
			}
		}
		for i := len(cur.Batches) - 2; i >= 0; i-- {
			if i+1 >= len(cur.Batches) {
				continue
			}
			q := cloneProg(cur)
			merged := append(append([]op(nil), q.Batches[i]...), q.Batches[i+1]...)
			q.Batches = append(append(q.Batches[:i:i], merged), q.Batches[i+2:]...)
			if try(q) {
				changed = true
			}
		}
		for i := 0; i < len(cur.Batches); i++ {
			for j := len(cur.Batches[i]) - 1; j >= 0; j-- {
				if i >= len(cur.Batches) || j >= len(cur.Batches[i]) {
					continue
				}
				q := cloneProg(cur)
				q.Batches[i] = append(q.Batches[i][:j:j], q.Batches[i][j+1:]...)
				if try(q) {
					changed = true
				}
			}
		}
		for i := len(cur.PKs) - 1; i >= 0; i-- {
			used := false
			for _, b := range cur.Batches {
				for _, o := range b {
					if o.PK == cur.PKs[i] {
						used = true
					}
				}
			}
			if !used {
				q := cloneProg(cur)
				q.PKs = append(q.PKs[:i:i], q.PKs[i+1:]...)
				if try(q) {
					changed = true
				}
			}
		}
		for _, flag := range []string{"newtable", "viaquery", "index"} {
			q := cloneProg(cur)
			switch flag {
			case "newtable":
				if !q.NewTable {
					continue
				}
				q.NewTable = false
			case "viaquery":
				if !q.ViaQuery {
					continue
				}
				q.ViaQuery = false
			case "index":
				if len(q.Index) < 2 {
					continue
				}
				q.Index = q.Index[:1]
			}
			if try(q) {
				changed = true
			}
		}
	}
	return cur, curF, runs
}

// ---------------------------------------------------------------------------------------------

func run(c *lib.Ctx) {
	clog.SetLogLevel("crit")
	c.Rule("case = 2-6 batches over 3-6 primary keys and 2-5 index values (40% of the cases: values/pks that are prefixes of each other); a batch holds 1-6 buffered Add/Replace/Update/Del per chosen key (interleaved), then Save + apply. " +
		"stratum clean: no batch touches a pk again after deleting its stored row; stratum trigger: unrestricted (delete-then-re-add/replace/update/delete of a stored row). " +
		"Return values are compared while buffering; after each Save every pk is read, every used index value is listed in both directions (+prefix, +paging), the primary index is listed, and the raw data/index records are compared with the model. " +
		"non-trivial = the monitor saw >=1 pk with >=2 buffered operations in one batch AND >=1 operation that changed an indexed field of a present row AND >=1 listing that returned rows")
	c.Assume("index values and primary keys never contain the separator '-' (the record format `index-value-pk` is ambiguous otherwise; not part of the statement)",
		"blockchain/blocktable.go only instantiates the table package for headers/bodies; it is covered through the table package itself")
	nClean := c.N(3000, 80000)
	nTrig := c.N(1200, 32000)
	nJoin := c.N(1000, 32000)
	nJoinTrig := c.N(400, 13000)
	type job struct {
		stratum    string
		idx, local int
	}
	var jobs []job
	for i := 0; i < nClean; i++ {
		jobs = append(jobs, job{"clean", len(jobs), i})
	}
	for i := 0; i < nTrig; i++ {
		jobs = append(jobs, job{"trigger", len(jobs), i})
	}
	for i := 0; i < nJoin; i++ {
		jobs = append(jobs, job{"join", len(jobs), i})
	}
	for i := 0; i < nJoinTrig; i++ {
		jobs = append(jobs, job{"join-trigger", len(jobs), i})
	}
	var mu sync.Mutex
	var hung int32
	reported := map[string]int{}
	lib.Parallel(len(jobs), runtime.NumCPU(), func(j int) {
		jb := jobs[j]
		if c.Skip(jb.idx) {
			return
		}
		if atomic.LoadInt32(&hung) >= 3 {
			c.Count("cases_skipped_after_watchdog", 1)
			return
		}
		rng := c.CaseRng("table-"+jb.stratum, jb.local)
		if strings.HasPrefix(jb.stratum, "join") {
			runJoinCase(c, jb.idx, jb.stratum, rng, &mu, reported)
			return
		}
		p := genProg(rng, jb.stratum)
		var st stats
		f, timedOut := runProgT(cloneProg(p), c.Tmp, &st, 60*time.Second)
		if timedOut {
			atomic.AddInt32(&hung, 1)
			c.Inconclusive("watchdog: case %d (%s) did not finish within 60s: %s", jb.idx, jb.stratum, lib.JSON(p))
			return
		}
		trig := hasTrigger(p)
		if jb.stratum == "clean" && trig {
			panic("generator produced a trigger history in the clean stratum")
		}
		c.Count("cases_"+jb.stratum, 1)
		if trig {
			c.Count("cases_with_delete_then_touch_of_stored_row", 1)
		}
		c.Count("backend_"+p.Backend, 1)
		c.Count("ops", st.ops)
		c.Count("ops_accepted", st.opsOK)
		c.Count("ops_rejected_as_expected", st.opsRejected)
		c.Count("saves", st.saves)
		c.Count("kv_written", st.kvWritten)
		c.Count("getdata_reads", st.gets)
		c.Count("listings", st.lists)
		c.Count("listing_rows_returned", st.listRows)
		c.Count("paged_listings_from_rows", st.paged)
		c.Count("raw_structure_scans", st.raws)
		c.Count("keys_with_several_ops_in_one_batch", st.multiOpKeys)
		c.Count("ops_changing_an_indexed_field", st.idxChanges)
		c.Count("ops_after_delete_of_stored_row_same_batch", st.delThenMore)
		nontrivial := st.multiOpKeys > 0 && st.idxChanges > 0 && st.listRows > 0
		var sample any
		if nontrivial {
			sample = map[string]any{"stratum": jb.stratum, "program": p}
		}
		c.Case(lib.Fingerprint(p), nontrivial, sample)
		if f == nil {
			return
		}
		c.Count("failing_cases_"+jb.stratum, 1)
		mp, mf, runs := minimise(p, f, c.Tmp, !trig)
		c.Count("minimiser_runs", int64(runs))
		sh := shapeOf(mp, mf)
		if !hasTrigger(mp) {
			sh = "clean:" + sh // fact of the minimal history: it never touches a pk after deleting its stored row
		}
		c.Seen("violation_shapes", sh)
		mu.Lock()
		reported[sh]++
		n := reported[sh]
		mu.Unlock()
		w := map[string]any{"stratum": jb.stratum, "minimal": mp, "failure": mf}
		if n <= 2 {
			w["original"], w["original_failure"] = p, f
		}
		c.Violation(jb.idx, sh, w, "[%s] %s | minimal history: %s", jb.stratum, mf.Detail, lib.JSON(mp))
	})
	if len(reported) > 0 {
		c.Extra("violation_shapes_of_minimal_witnesses", reported)
	}
	c.RequireEvents("ops", 5000)
	c.RequireEvents("listings", 5000)
	c.RequireEvents("raw_structure_scans", 1000)
	c.RequireEvents("keys_with_several_ops_in_one_batch", 500)
}

func main() { lib.Main("C10", "exploration", run) }
