package main

// Join family of C10: JoinTable(left = gameaddr{txhash pk; gameID, addr}, right = game{gameID pk; status})
// with the join indexes "addr#status" and "#status", against a two-map model. Histories respect the foreign
// key (a left row always references a right row that exists when the batch is saved; a right row is deleted
// only when no left row references it) and never touch a key again after deleting its stored row.

import (
	"fmt"
	"sort"
	"strings"
	"sync"
	"time"

	dbm "github.com/33cn/chain33/common/db"
	"github.com/33cn/chain33/common/db/table"
	protodata "github.com/33cn/chain33/common/db/table/proto"
	"github.com/33cn/chain33/types"
	"verifharness/lib"
)

type jop struct {
	T  string `json:"t"`  // L | R
	Op string `json:"op"` // add | replace | update | del
	PK string `json:"pk"` // txhash (L) or gameID (R)
	G  string `json:"g,omitempty"`
	A  string `json:"a,omitempty"`
	S  int64  `json:"s,omitempty"`
}

type jprog struct {
	Batches [][]jop  `json:"batches"`
	LPKs    []string `json:"left_pks"`
	RPKs    []string `json:"right_pks"`
	Addrs   []string `json:"addrs"`
}

type jstats struct {
	ops, saves, joinGets, joinLists, joinListRows, raws, rightStatusChanges, leftFkChanges, multi int64
}

type jmodel struct {
	left  map[string]row
	right map[string]int64
}

func newJModel() *jmodel { return &jmodel{left: map[string]row{}, right: map[string]int64{}} }

// step applies one operation with map semantics; ok=false when a map rejects it.
func (m *jmodel) step(o jop) (ok bool) {
	if o.T == "L" {
		_, present := m.left[o.PK]
		switch o.Op {
		case "add":
			if present {
				return false
			}
			m.left[o.PK] = row{o.G, o.A}
		case "replace":
			m.left[o.PK] = row{o.G, o.A}
		case "update":
			if !present {
				return false
			}
			m.left[o.PK] = row{o.G, o.A}
		case "del":
			if !present {
				return false
			}
			delete(m.left, o.PK)
		}
		return true
	}
	_, present := m.right[o.PK]
	switch o.Op {
	case "add":
		if present {
			return false
		}
		m.right[o.PK] = o.S
	case "replace":
		m.right[o.PK] = o.S
	case "update":
		if !present {
			return false
		}
		m.right[o.PK] = o.S
	case "del":
		if !present {
			return false
		}
		delete(m.right, o.PK)
	}
	return true
}

// validJoin: foreign key holds at every save, and no key is touched again after its stored row was deleted in the batch.
func validJoin(p *jprog) bool {
	m := newJModel()
	for _, b := range p.Batches {
		stored := map[string]bool{}
		for k := range m.left {
			stored["L"+k] = true
		}
		for k := range m.right {
			stored["R"+k] = true
		}
		deleted := map[string]bool{}
		for _, o := range b {
			if deleted[o.T+o.PK] {
				return false
			}
			var present bool
			if o.T == "L" {
				_, present = m.left[o.PK]
			} else {
				_, present = m.right[o.PK]
			}
			if o.Op == "del" && present && stored[o.T+o.PK] {
				deleted[o.T+o.PK] = true
			}
			m.step(o)
		}
		for _, r := range m.left {
			if _, ok := m.right[r.G]; !ok {
				return false
			}
		}
	}
	return true
}

// joinTrigger (fact of a history): (a) a present left row gets another foreign key (gameID), or (b) a batch deletes a
// stored left row and also changes the status of the right row that stored left row references.
func joinTrigger(p *jprog) bool {
	m := newJModel()
	for _, b := range p.Batches {
		storedG := map[string]string{}
		for k, r := range m.left {
			storedG[k] = r.G
		}
		delRef, chg := map[string]bool{}, map[string]bool{}
		for _, o := range b {
			if o.T == "L" {
				cur, present := m.left[o.PK]
				if present && (o.Op == "update" || o.Op == "replace") && cur.G != o.G {
					return true
				}
				if g, ok := storedG[o.PK]; ok && present && o.Op == "del" {
					delRef[g] = true
				}
			} else {
				cur, present := m.right[o.PK]
				if present && (o.Op == "update" || o.Op == "replace") && cur != o.S {
					chg[o.PK] = true
				}
			}
			m.step(o)
		}
		for g := range delRef {
			if chg[g] {
				return true
			}
		}
	}
	return false
}

const joinName = "gameaddr#game"

func runJoinProg(p *jprog, st *jstats) (f *failure) {
	defer func() {
		if r := recover(); r != nil {
			f = &failure{Kind: "join-panic", Detail: fmt.Sprintf("panic: %v", r)}
		}
	}()
	d, _ := dbm.NewGoMemDB("", "", 0)
	kvdb := dbm.NewKVDB(d)
	mk := func() *table.JoinTable {
		l, err := table.NewTable(&gaMeta{GameAddr: &protodata.GameAddr{}}, kvdb, &table.Option{Prefix: tblPrefix, Name: "gameaddr", Primary: "txhash", Index: []string{"gameID", "addr"}})
		if err != nil {
			panic(err)
		}
		r, err := table.NewTable(&gameMeta{Game: &protodata.Game{}}, kvdb, &table.Option{Prefix: tblPrefix, Name: "game", Primary: "gameID", Index: []string{"status"}})
		if err != nil {
			panic(err)
		}
		j, err := table.NewJoinTable(l, r, []string{"addr#status", "#status"})
		if err != nil {
			panic(err)
		}
		return j
	}
	m := newJModel()
	usedAddr, usedStatus := map[string]bool{}, map[int64]bool{}
	for bi, b := range p.Batches {
		j := mk()
		left, right := j.MustGetTable("gameaddr"), j.MustGetTable("game")
		touched := map[string]int{}
		for oi, o := range b {
			st.ops++
			touched[o.T+o.PK]++
			if touched[o.T+o.PK] == 2 {
				st.multi++
			}
			var err error
			var wantErr error
			if o.T == "L" {
				cur, present := m.left[o.PK]
				data := &protodata.GameAddr{Txhash: o.PK, GameID: o.G, Addr: o.A}
				switch o.Op {
				case "add":
					err = left.Add(data)
					if present {
						wantErr = table.ErrDupPrimaryKey
					}
				case "replace":
					err = left.Replace(data)
				case "update":
					err = left.Update([]byte(o.PK), data)
					if !present {
						wantErr = types.ErrNotFound
					}
				case "del":
					err = left.Del([]byte(o.PK))
					if !present {
						wantErr = types.ErrNotFound
					}
				}
				if present && o.Op != "del" && cur.G != o.G {
					st.leftFkChanges++
				}
				if o.Op != "del" {
					usedAddr[o.A] = true
				}
			} else {
				cur, present := m.right[o.PK]
				data := &protodata.Game{GameID: o.PK, Status: o.S}
				switch o.Op {
				case "add":
					err = right.Add(data)
					if present {
						wantErr = table.ErrDupPrimaryKey
					}
				case "replace":
					err = right.Replace(data)
				case "update":
					err = right.Update([]byte(o.PK), data)
					if !present {
						wantErr = types.ErrNotFound
					}
				case "del":
					err = right.Del([]byte(o.PK))
					if !present {
						wantErr = types.ErrNotFound
					}
				}
				if present && o.Op != "del" && cur != o.S {
					st.rightStatusChanges++
				}
				if o.Op != "del" {
					usedStatus[o.S] = true
				}
			}
			m.step(o)
			if (wantErr == nil) != (err == nil) || (wantErr != nil && err != wantErr) {
				return &failure{Kind: "join-ret-" + o.T + "-" + o.Op, PK: o.T + ":" + o.PK, Batch: bi, OpIdx: oi,
					Detail: fmt.Sprintf("batch %d op %d: %s %s(%q) = %v, a map answers %v", bi, oi, o.T, o.Op, o.PK, err, wantErr)}
			}
		}
		kvs, err := j.Save()
		st.saves++
		if err != nil {
			return &failure{Kind: "join-save-error", Batch: bi, Detail: fmt.Sprintf("JoinTable.Save of batch %d = %v", bi, err)}
		}
		applyKVs(d, kvs)
		// reads go through a fresh join table (no cache)
		j = mk()
		// join rows of the model
		type jr struct {
			pk, a string
			s     int64
		}
		var jrows []jr
		for pk, r := range m.left {
			if s, ok := m.right[r.G]; ok {
				jrows = append(jrows, jr{pk, r.A, s})
			}
		}
		for _, pk := range p.LPKs {
			got, err := j.GetData([]byte(pk))
			st.joinGets++
			lr, ok := m.left[pk]
			switch {
			case ok && err != nil:
				return &failure{Kind: "join-get-missing-row", PK: "L:" + pk, Batch: bi, Detail: fmt.Sprintf("JoinTable.GetData(%q) = %v, model left %+v right status %d", pk, err, lr, m.right[lr.G])}
			case !ok && err == nil:
				return &failure{Kind: "join-get-stale-row", PK: "L:" + pk, Batch: bi, Detail: fmt.Sprintf("JoinTable.GetData(%q) returns a row, model: absent", pk)}
			case ok:
				jd := got.Data.(*table.JoinData)
				l, r := jd.Left.(*protodata.GameAddr), jd.Right.(*protodata.Game)
				if l.Txhash != pk || l.GameID != lr.G || l.Addr != lr.A || r.GameID != lr.G || r.Status != m.right[lr.G] {
					return &failure{Kind: "join-get-wrong-row", PK: "L:" + pk, Batch: bi,
						Detail: fmt.Sprintf("JoinTable.GetData(%q) = left %v right %v, model left %+v right status %d", pk, l, r, lr, m.right[lr.G])}
				}
			}
		}
		// the plain tables
		for gid, s := range m.right {
			got, err := j.MustGetTable("game").GetData([]byte(gid))
			if err != nil || got.Data.(*protodata.Game).Status != s {
				return &failure{Kind: "join-right-get", PK: "R:" + gid, Batch: bi, Detail: fmt.Sprintf("right GetData(%q) = %v %v, model status %d", gid, got, err, s)}
			}
		}
		for _, gid := range p.RPKs {
			if _, ok := m.right[gid]; !ok {
				if _, err := j.MustGetTable("game").GetData([]byte(gid)); err != types.ErrNotFound {
					return &failure{Kind: "join-right-get-stale", PK: "R:" + gid, Batch: bi, Detail: fmt.Sprintf("right GetData(%q) = %v, model: absent", gid, err)}
				}
			}
		}
		listCheck := func(index string, prefix []byte, want []string, desc string) *failure {
			sort.Strings(want)
			for _, dir := range []int32{dbm.ListDESC, dbm.ListASC} {
				rows, err := j.ListIndex(index, prefix, nil, 0, dir)
				st.joinLists++
				if err != nil {
					if len(want) == 0 && err == types.ErrNotFound {
						continue
					}
					return &failure{Kind: "join-list-error", PK: firstJoinCulprit(d, m), Batch: bi, Detail: fmt.Sprintf("%s = error %v, model %v", desc, err, want)}
				}
				st.joinListRows += int64(len(rows))
				var got []string
				for _, r := range rows {
					got = append(got, string(r.Primary))
				}
				ordered := append([]string(nil), got...)
				sort.Strings(got)
				if fmt.Sprint(got) != fmt.Sprint(want) {
					c, kind := "", "join-list-missing-row"
					in := map[string]bool{}
					for _, x := range want {
						in[x] = true
					}
					for _, x := range got {
						if !in[x] {
							c, kind = x, "join-list-extra-row"
						}
						delete(in, x)
					}
					if c == "" {
						for x := range in {
							c = x
						}
					}
					return &failure{Kind: kind, PK: "L:" + c, Batch: bi, Detail: fmt.Sprintf("%s = %v, model %v", desc, ordered, want)}
				}
				for _, r := range rows {
					jd := r.Data.(*table.JoinData)
					l, rr := jd.Left.(*protodata.GameAddr), jd.Right.(*protodata.Game)
					lr := m.left[string(r.Primary)]
					if l.GameID != lr.G || l.Addr != lr.A || rr.Status != m.right[lr.G] {
						return &failure{Kind: "join-list-wrong-row", PK: "L:" + string(r.Primary), Batch: bi, Detail: fmt.Sprintf("%s row %q = left %v right %v, model left %+v status %d", desc, r.Primary, l, rr, lr, m.right[lr.G])}
					}
				}
			}
			return nil
		}
		var statuses []int64
		for s := range usedStatus {
			statuses = append(statuses, s)
		}
		sort.Slice(statuses, func(a, b int) bool { return statuses[a] < statuses[b] })
		var addrs []string
		for a := range usedAddr {
			addrs = append(addrs, a)
		}
		sort.Strings(addrs)
		for _, s := range statuses {
			var want []string
			for _, x := range jrows {
				if x.s == s {
					want = append(want, x.pk)
				}
			}
			if f := listCheck("#status", table.JoinKey(nil, []byte(fmt.Sprint(s))), want, fmt.Sprintf("JoinTable.ListIndex(#status, status=%d)", s)); f != nil {
				return f
			}
			for _, a := range addrs {
				var want []string
				for _, x := range jrows {
					if x.s == s && x.a == a {
						want = append(want, x.pk)
					}
				}
				if f := listCheck("addr#status", table.JoinKey([]byte(a), []byte(fmt.Sprint(s))), want, fmt.Sprintf("JoinTable.ListIndex(addr#status, addr=%q status=%d)", a, s)); f != nil {
					return f
				}
			}
		}
		// left table's own index on gameID (what saveRight relies on)
		for _, gid := range p.RPKs {
			var want []string
			for pk, r := range m.left {
				if r.G == gid {
					want = append(want, pk)
				}
			}
			sort.Strings(want)
			rows, err := j.MustGetTable("gameaddr").ListIndex("gameID", []byte(gid+"-"), nil, 0, dbm.ListASC)
			var got []string
			for _, r := range rows {
				got = append(got, string(r.Primary))
			}
			sort.Strings(got)
			if (err != nil && !(len(want) == 0 && err == types.ErrNotFound)) || fmt.Sprint(got) != fmt.Sprint(want) {
				return &failure{Kind: "join-left-list", PK: "R:" + gid, Batch: bi, Detail: fmt.Sprintf("left ListIndex(gameID=%q) = %v %v, model %v", gid, got, err, want)}
			}
		}
		st.raws++
		if k, pk, txt := joinRawDiff(d, m); k != "" {
			return &failure{Kind: k, PK: pk, Batch: bi, Detail: txt}
		}
	}
	return nil
}

func joinWantRaw(m *jmodel) (map[string]string, map[string]string) {
	want, owner := map[string]string{}, map[string]string{}
	base := tblPrefix + "-" + joinName + "-m-"
	for pk, r := range m.left {
		s, ok := m.right[r.G]
		if !ok {
			continue
		}
		k1 := base + "addr#status-" + string(table.JoinKey([]byte(r.A), []byte(fmt.Sprint(s)))) + "-" + pk
		k2 := base + "#status-" + string(table.JoinKey(nil, []byte(fmt.Sprint(s)))) + "-" + pk
		want[k1], want[k2] = pk, pk
		owner[k1], owner[k2] = pk, pk
	}
	return want, owner
}

func joinRawDiff(d dbm.DB, m *jmodel) (kind, pk, txt string) {
	want, owner := joinWantRaw(m)
	raw := rawScan(d, tblPrefix+"-"+joinName+"-")
	var keys []string
	for k := range raw {
		keys = append(keys, k)
	}
	sort.Strings(keys)
	for _, k := range keys {
		if !strings.HasPrefix(k, tblPrefix+"-"+joinName+"-m-") {
			if strings.HasPrefix(k, tblPrefix+"-"+joinName+"-d-") {
				return "join-raw-data-record", "", fmt.Sprintf("join table wrote a data record %q", k)
			}
			continue
		}
		if w, ok := want[k]; !ok || w != string(raw[k]) {
			return "join-raw-stale-index", "L:" + string(raw[k]), fmt.Sprintf("join index record %q -> %q has no (left row, right row) pair behind it", k, raw[k])
		}
	}
	var wk []string
	for k := range want {
		wk = append(wk, k)
	}
	sort.Strings(wk)
	for _, k := range wk {
		if _, ok := raw[k]; !ok {
			return "join-raw-missing-index", "L:" + owner[k], fmt.Sprintf("join index record %q is missing (left %+v, right status %d)", k, m.left[owner[k]], m.right[m.left[owner[k]].G])
		}
	}
	return "", "", ""
}

func firstJoinCulprit(d dbm.DB, m *jmodel) string {
	_, pk, _ := joinRawDiff(d, m)
	return pk
}

// jpattern: operations of one key ("L:pk" / "R:gid") in batch bi, abstracted like pattern().
func jpattern(p *jprog, key string, bi int) string {
	if len(key) < 2 {
		return "none"
	}
	t, pk := key[:1], key[2:]
	m := newJModel()
	var items []string
	for b, batch := range p.Batches {
		for _, o := range batch {
			if b == bi && o.T == t && o.PK == pk {
				it := o.Op
				if t == "L" {
					cur, present := m.left[pk]
					switch {
					case o.Op == "add" && present, (o.Op == "update" || o.Op == "del") && !present:
						it += "!"
					case (o.Op == "update" || o.Op == "replace") && !present:
						it += "-new"
					case o.Op == "update" || o.Op == "replace":
						switch {
						case cur == (row{o.G, o.A}):
							it += "-same"
						case cur.G != o.G:
							it += "-fk"
						default:
							it += "-addr"
						}
					}
				} else {
					cur, present := m.right[pk]
					switch {
					case o.Op == "add" && present, (o.Op == "update" || o.Op == "del") && !present:
						it += "!"
					case (o.Op == "update" || o.Op == "replace") && !present:
						it += "-new"
					case o.Op == "update" || o.Op == "replace":
						if cur == o.S {
							it += "-same"
						} else {
							it += "-status"
						}
					}
				}
				items = append(items, it)
			}
			m.step(o)
		}
	}
	if len(items) == 0 {
		return "none"
	}
	return strings.Join(items, ",")
}

func jshape(p *jprog, f *failure) string {
	if f.Kind == "join-panic" || f.Kind == "join-save-error" {
		// describe the failing batch as a whole
		var its []string
		if f.Batch < len(p.Batches) {
			for _, o := range p.Batches[f.Batch] {
				its = append(its, o.T+"."+o.Op)
			}
		}
		return f.Kind + "/batch=" + strings.Join(its, ",")
	}
	sh := f.Kind + "/" + f.PK[:1] + "-ops=" + jpattern(p, f.PK, f.Batch)
	if strings.HasPrefix(f.PK, "L:") {
		// the right row the failing left row references: in the model at the end of the failing batch, or (row absent
		// there) the one its stored row referenced when the failing batch began
		m, before := newJModel(), newJModel()
		for b, batch := range p.Batches {
			if b > f.Batch {
				break
			}
			for _, o := range batch {
				m.step(o)
				if b < f.Batch {
					before.step(o)
				}
			}
		}
		if lr, ok := m.left[f.PK[2:]]; ok {
			sh += "/R-ops=" + jpattern(p, "R:"+lr.G, f.Batch)
		} else if lr, ok := before.left[f.PK[2:]]; ok {
			sh += "/stored-R-ops=" + jpattern(p, "R:"+lr.G, f.Batch)
		}
	}
	return sh
}

func genJoin(rng *lib.Rng, clean bool) *jprog {
	p := &jprog{LPKs: []string{"h1", "h2", "h3", "h4"}[:rng.Range(2, 4)], RPKs: []string{"g1", "g2", "g3"}[:rng.Range(1, 3)],
		Addrs: []string{"ax", "ay", "az"}[:rng.Range(2, 3)]}
	m := newJModel()
	nb := rng.Range(2, 6)
	for b := 0; b < nb; b++ {
		var batch []jop
		deleted := map[string]bool{}
		stored := map[string]bool{}
		for k := range m.left {
			stored["L"+k] = true
		}
		for k := range m.right {
			stored["R"+k] = true
		}
		n := rng.Range(1, 7)
		delRef, chg := map[string]bool{}, map[string]bool{}
		storedG := map[string]string{}
		for k, r := range m.left {
			storedG[k] = r.G
		}
		for i := 0; i < n; i++ {
			var o jop
			if rng.Chance(45) || len(m.right) == 0 {
				o.T, o.PK, o.S = "R", lib.Pick(rng, p.RPKs), int64(rng.Range(1, 3))
				_, present := m.right[o.PK]
				refs := 0
				for _, r := range m.left {
					if r.G == o.PK {
						refs++
					}
				}
				switch r := rng.Intn(100); {
				case present && r < 40:
					o.Op = "replace"
				case present && r < 70:
					o.Op = "update"
				case present && r < 85 && refs == 0:
					o.Op = "del"
				case present:
					o.Op = "add" // rejected
				case r < 60:
					o.Op = "add"
				case r < 85:
					o.Op = "replace"
				case r < 93:
					o.Op = "update" // rejected
				default:
					o.Op = "del" // rejected
				}
			} else {
				o.T, o.PK, o.A = "L", lib.Pick(rng, p.LPKs), lib.Pick(rng, p.Addrs)
				var gids []string
				for g := range m.right {
					gids = append(gids, g)
				}
				sort.Strings(gids)
				o.G = lib.Pick(rng, gids)
				cur, present := m.left[o.PK]
				switch r := rng.Intn(100); {
				case present && r < 35:
					o.Op = "update"
					if rng.Chance(50) {
						o.G = cur.G
					}
				case present && r < 60:
					o.Op = "replace"
					if rng.Chance(30) {
						o.G, o.A = cur.G, cur.A
					}
				case present && r < 85:
					o.Op = "del"
				case present:
					o.Op = "add" // rejected
				case r < 60:
					o.Op = "add"
				case r < 85:
					o.Op = "replace"
				case r < 93:
					o.Op = "update" // rejected
				default:
					o.Op = "del" // rejected
				}
			}
			if deleted[o.T+o.PK] {
				continue
			}
			var present bool
			if o.T == "L" {
				var cur row
				cur, present = m.left[o.PK]
				if clean && present && (o.Op == "update" || o.Op == "replace") {
					o.G = cur.G // the foreign key of a present row never changes
				}
				if g, ok := storedG[o.PK]; ok && present && o.Op == "del" {
					if clean && chg[g] {
						continue
					}
					delRef[g] = true
				}
			} else {
				var cur int64
				cur, present = m.right[o.PK]
				if present && (o.Op == "update" || o.Op == "replace") && cur != o.S {
					if clean && delRef[o.PK] {
						continue
					}
					chg[o.PK] = true
				}
			}
			if o.Op == "del" && present && stored[o.T+o.PK] {
				deleted[o.T+o.PK] = true
			}
			m.step(o)
			batch = append(batch, o)
		}
		p.Batches = append(p.Batches, batch)
	}
	return p
}

func cloneJ(p *jprog) *jprog {
	q := *p
	q.Batches = nil
	for _, b := range p.Batches {
		q.Batches = append(q.Batches, append([]jop(nil), b...))
	}
	return &q
}

func runJoinT(p *jprog, st *jstats, d time.Duration) (*failure, bool) {
	type res struct {
		f  *failure
		st jstats
	}
	ch := make(chan res, 1)
	go func() {
		var s jstats
		g := runJoinProg(p, &s)
		ch <- res{g, s}
	}()
	select {
	case r := <-ch:
		*st = r.st
		return r.f, false
	case <-time.After(d):
		return nil, true
	}
}

func minimiseJoin(p *jprog, f *failure, keepClean bool) (*jprog, *failure, int) {
	cur, curF := cloneJ(p), f
	runs := 0
	try := func(q *jprog) bool {
		if runs > 3000 || !validJoin(q) || (keepClean && joinTrigger(q)) {
			return false
		}
		runs++
		var st jstats
		g, _ := runJoinT(cloneJ(q), &st, 5*time.Second)
		if g != nil && g.Kind == f.Kind {
			cur, curF = q, g
			return true
		}
		return false
	}
	for changed := true; changed; {
		changed = false
		for i := len(cur.Batches) - 1; i >= 0; i-- {
			if i >= len(cur.Batches) {
				continue
			}
			q := cloneJ(cur)
			q.Batches = append(q.Batches[:i:i], q.Batches[i+1:]...)
			if try(q) {
				changed = true
			}
		}
		for i := len(cur.Batches) - 2; i >= 0; i-- {
			if i+1 >= len(cur.Batches) {
				continue
			}
			q := cloneJ(cur)
			merged := append(append([]jop(nil), q.Batches[i]...), q.Batches[i+1]...)
			q.Batches = append(append(q.Batches[:i:i], merged), q.Batches[i+2:]...)
			if try(q) {
				changed = true
			}
		}
		for i := 0; i < len(cur.Batches); i++ {
			for j := len(cur.Batches[i]) - 1; j >= 0; j-- {
				if i >= len(cur.Batches) || j >= len(cur.Batches[i]) {
					continue
				}
				q := cloneJ(cur)
				q.Batches[i] = append(q.Batches[i][:j:j], q.Batches[i][j+1:]...)
				if try(q) {
					changed = true
				}
			}
		}
	}
	return cur, curF, runs
}

func runJoinCase(c *lib.Ctx, idx int, stratum string, rng *lib.Rng, mu *sync.Mutex, reported map[string]int) {
	p := genJoin(rng, stratum == "join")
	if !validJoin(p) {
		panic("join generator produced an invalid history")
	}
	trig := joinTrigger(p)
	if stratum == "join" && trig {
		panic("join generator produced a trigger history in the clean join stratum")
	}
	if trig {
		c.Count("join_cases_with_fk_change_or_leftdel_plus_rightupdate", 1)
	}
	var st jstats
	f, timedOut := runJoinT(cloneJ(p), &st, 60*time.Second)
	if timedOut {
		c.Inconclusive("watchdog: join case %d did not finish within 60s: %s", idx, lib.JSON(p))
		return
	}
	c.Count("cases_"+stratum, 1)
	c.Count("join_ops", st.ops)
	c.Count("join_saves", st.saves)
	c.Count("join_getdata_reads", st.joinGets)
	c.Count("join_listings", st.joinLists)
	c.Count("join_listing_rows_returned", st.joinListRows)
	c.Count("join_raw_structure_scans", st.raws)
	c.Count("join_right_status_changes", st.rightStatusChanges)
	c.Count("join_left_foreign_key_changes", st.leftFkChanges)
	c.Count("join_keys_with_several_ops_in_one_batch", st.multi)
	nontrivial := st.rightStatusChanges > 0 && st.joinListRows > 0 && st.multi > 0
	var sample any
	if nontrivial {
		sample = map[string]any{"stratum": stratum, "program": p}
	}
	c.Case(lib.Fingerprint(p), nontrivial, sample)
	if f == nil {
		return
	}
	c.Count("failing_cases_"+stratum, 1)
	mp, mf, runs := minimiseJoin(p, f, !trig)
	c.Count("minimiser_runs", int64(runs))
	sh := jshape(mp, mf)
	if !joinTrigger(mp) {
		sh = "clean:" + sh // fact of the minimal history: no foreign-key change, no left delete next to an update of its right row
	}
	c.Seen("violation_shapes", sh)
	mu.Lock()
	reported[sh]++
	n := reported[sh]
	mu.Unlock()
	w := map[string]any{"stratum": stratum, "minimal": mp, "failure": mf}
	if n <= 2 {
		w["original"], w["original_failure"] = p, f
	}
	c.Violation(idx, sh, w, "[%s] %s | minimal history: %s", stratum, mf.Detail, lib.JSON(mp))
}
