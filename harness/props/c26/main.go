// C26: block sequence log replays to the best chain.
package main

import (
	"verifharness/chainenv"
	"verifharness/lib"
)

func run(c *lib.Ctx) {
	c.Rule("same generated block trees and delivery orders as C25 with sequence recording on; after EVERY delivery the monitor reads LoadBlockLastSequence + all records, checks 0..N without gaps, " +
		"replays add/del records into a stack and compares with hash-by-height for every height; last sequence must never decrease. non-trivial = run whose log contains >=1 delete record (a reorganisation)")
	c.Assume("isRecordBlockSequence=true (default config)")
	chainenv.Engine(c, "C26", c.N(2, 10), c.N(1, 6), c.N(48, 720), c.N(32, 400))
	c.RequireEvents("reorg_block_removals", 5)
	c.RequireEvents("seq_observations", 100)
}

func main() {
	chainenv.RegisterChildren()
	lib.Main("C26", "exploration", run)
}
