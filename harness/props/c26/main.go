// C26: block sequence log replays to the best chain.
package main

import (
	"encoding/json"
	"fmt"
	"time"

	"verifharness/chainenv"
	"verifharness/lib"
)

func run(c *lib.Ctx) {
	c.Rule("same generated block trees and delivery orders as C25 with sequence recording on; after EVERY delivery the monitor reads LoadBlockLastSequence + all records, checks 0..N without gaps, " +
		"replays add/del records into a stack and compares with hash-by-height for every height; last sequence must never decrease. non-trivial = run whose log contains >=1 delete record (a reorganisation)")
	c.Assume("isRecordBlockSequence=true (default config)")
	chainenv.Engine(c, "C26", c.N(2, 10), c.N(1, 6), c.N(48, 720), c.N(32, 400))
	// rejected blocks on the way: the C27 scenarios (one mutated block at the tip or as a heavier side block that starts
	// a reorganisation, then the genuine block and its child), judged here by the sequence-log oracle only
	nInv := c.N(1, 6)
	for ti := 0; ti < nInv; ti++ {
		rng := c.CaseRng("invtree", ti)
		tr := c.Child("invtree", rng.U64(), lib.ChildOpts{Timeout: 5 * time.Minute})
		var tree chainenv.Tree
		if tr.Died || tr.TimedOut || json.Unmarshal(tr.Out, &tree) != nil {
			c.Inconclusive("invalid-block tree %d: builder child failed: %.300s", ti, tr.Stderr)
			continue
		}
		var cases []chainenv.InvCase
		for _, k := range chainenv.MutKinds {
			for _, pos := range []string{"tip", "reorg"} {
				cases = append(cases, chainenv.InvCase{Kind: k, Pos: pos, Broadcast: len(cases)%3 != 0, Seed: rng.U64(), Index: 100000 + ti*1000 + len(cases)})
			}
		}
		workers := 14
		chunks := make([][]chainenv.InvCase, workers)
		for i, cs := range cases {
			if c.Skip(cs.Index) {
				continue
			}
			chunks[i%workers] = append(chunks[i%workers], cs)
		}
		lib.Parallel(workers, workers, func(w int) {
			if len(chunks[w]) == 0 {
				return
			}
			cr := c.Child("invalid", chainenv.InvReq{Tree: &tree, Cases: chunks[w]}, lib.ChildOpts{Timeout: 10 * time.Minute})
			var rs []chainenv.InvRes
			if cr.TimedOut || cr.Died || json.Unmarshal(cr.Out, &rs) != nil {
				c.Inconclusive("invalid-block tree %d chunk %d failed: %.300s", ti, w, cr.Stderr)
				return
			}
			for _, r := range rs {
				if r.Skipped != "" {
					continue
				}
				c.Case(fmt.Sprintf("rejected/%s/%s/%v/%s", r.Case.Kind, r.Case.Pos, r.Case.Broadcast, r.MutantHash[:8]), r.SeqDeletes > 0,
					map[string]any{"rejected_block": r.Case.Kind, "pos": r.Case.Pos, "deliver_err": r.DeliverErr, "tip_after_mutant": r.TipAfter, "delete_records": r.SeqDeletes})
				c.Count("runs_with_rejected_block", 1)
				c.Count("reorg_block_removals", int64(r.SeqDeletes))
				if len(r.SeqProblems) > 0 {
					c.Violation(r.Case.Index, "sequence-log-after-rejected-block", r, "rejected %s block (%s): %s", r.Case.Kind, r.Case.Pos, lib.ShortList(r.SeqProblems, 4))
				}
			}
		})
	}
	c.RequireEvents("runs_with_rejected_block", 10)
	c.RequireEvents("reorg_block_removals", 5)
	c.RequireEvents("seq_observations", 100)
}

func main() {
	chainenv.RegisterChildren()
	chainenv.RegisterInvalidChildren()
	lib.Main("C26", "exploration", run)
}
