// C08: the layered local database (db.NewLocalDB) behaves like a key/value map with an optional
// open transaction.
//
// Generated histories of Begin/Set/Get/List/PrefixCount/Commit/Rollback run against the real
// LocalDB over a pre-populated base DB and against a three-layer map model (base, committed
// overlay, optional open tx; empty value = tombstone). After EVERY operation the monitor lists and
// counts every prefix, point-reads keys, and compares replies with the model and with each other.
package main

import (
	"bytes"
	"fmt"
	"os"
	"path/filepath"
	"runtime/debug"
	"sort"
	"strings"
	"sync"
	"sync/atomic"

	dbm "github.com/33cn/chain33/common/db"
	"github.com/33cn/chain33/common/log/log15"
	"github.com/33cn/chain33/types"
	"verifharness/lib"
)

type Op struct {
	Kind   string `json:"kind"` // begin commit rollback set get list count
	K      []byte `json:"k,omitempty"`
	V      []byte `json:"v,omitempty"`
	VNil   bool   `json:"vnil,omitempty"`
	Prefix []byte `json:"prefix,omitempty"`
	From   int    `json:"from,omitempty"` // list: continue after the From-th live entry (1-based, in listing order), 0 = from the end
	Count  int32  `json:"count,omitempty"`
	Asc    bool   `json:"asc,omitempty"`
	Enc    int32  `json:"enc,omitempty"`
}

type Entry struct {
	K []byte `json:"k"`
	V []byte `json:"v"`
}

type Case struct {
	Backend string  `json:"backend"`
	Base    []Entry `json:"base"`
	Probe   string  `json:"probe"` // monitor point-read policy: eager | lazy | some
	Ops     []Op    `json:"ops"`
}

var prefixes = [][]byte{[]byte("a-"), []byte("a-x"), []byte("b"), []byte("b\xff"), nil}
var suffixes = []string{"", "1", "2", "x", "x1", "xy", "\xff", "\xff1", "0", "z"}

func genKey(r *lib.Rng) []byte {
	p := prefixes[r.Intn(3)] // a- a-x b
	return []byte(string(p) + lib.Pick(r, suffixes))
}

func genCase(r *lib.Rng, maxOps int) *Case {
	c := &Case{Backend: "memdb", Probe: lib.Pick(r, []string{"eager", "lazy", "some"})}
	if r.Chance(15) {
		c.Backend = "goleveldb"
	}
	seen := map[string]bool{}
	nb := r.Range(3, 14)
	for i := 0; i < nb; i++ {
		k := genKey(r)
		if seen[string(k)] {
			continue
		}
		seen[string(k)] = true
		e := Entry{K: k, V: []byte(fmt.Sprintf("base:%x", k))}
		if r.Chance(6) {
			e.V = []byte{} // an empty value stored in the base is hidden like any other empty value
		}
		c.Base = append(c.Base, e)
	}
	n := r.Range(20, maxOps)
	open := false
	var lastGet []byte
	for i := 0; i < n; i++ {
		x := r.Intn(100)
		switch {
		case x < 9:
			if !open {
				c.Ops = append(c.Ops, Op{Kind: "begin"})
				open = true
			} else {
				c.Ops = append(c.Ops, Op{Kind: lib.Pick(r, []string{"commit", "rollback"})})
				open = false
			}
		case x < 14:
			if (open && r.Bool()) || (!open && r.Chance(30)) { // sometimes Commit/Rollback without Begin
				c.Ops = append(c.Ops, Op{Kind: lib.Pick(r, []string{"commit", "rollback"})})
				open = false
			}
		case x < 50:
			k := genKey(r)
			if lastGet != nil && r.Chance(40) { // read-then-write of one key
				k = lastGet
			} else if len(c.Base) > 0 && r.Chance(25) {
				k = c.Base[r.Intn(len(c.Base))].K
			}
			op := Op{Kind: "set", K: k}
			if r.Chance(28) {
				op.VNil = r.Bool()
				if !op.VNil {
					op.V = []byte{}
				}
			} else {
				op.V = []byte(fmt.Sprintf("v%d:%x", i, k))
			}
			c.Ops = append(c.Ops, op)
		case x < 72:
			k := genKey(r)
			if len(c.Base) > 0 && r.Chance(40) {
				k = c.Base[r.Intn(len(c.Base))].K
			}
			lastGet = k
			c.Ops = append(c.Ops, Op{Kind: "get", K: k})
		case x < 92:
			c.Ops = append(c.Ops, Op{Kind: "list", Prefix: lib.Pick(r, prefixes), From: r.Intn(5), Count: int32(r.Range(1, 6)), Asc: r.Bool(),
				Enc: lib.Pick(r, []int32{0, dbm.ListWithKey, dbm.ListKeyOnly})})
		default:
			c.Ops = append(c.Ops, Op{Kind: "count", Prefix: lib.Pick(r, prefixes)})
		}
	}
	return c
}

// ---------------------------------------------------------------------------------------------
// model

type model struct {
	base, overlay, tx map[string][]byte
	open              bool
}

func newModel(base []Entry) *model {
	m := &model{base: map[string][]byte{}, overlay: map[string][]byte{}}
	for _, e := range base {
		m.base[string(e.K)] = e.V
	}
	return m
}

func (m *model) lookup(k string) (v []byte, layer string) {
	if m.open {
		if v, ok := m.tx[k]; ok {
			return v, "tx"
		}
	}
	if v, ok := m.overlay[k]; ok {
		return v, "overlay"
	}
	if v, ok := m.base[k]; ok {
		return v, "base"
	}
	return nil, ""
}

func (m *model) get(k []byte) ([]byte, bool) {
	v, _ := m.lookup(string(k))
	return v, len(v) > 0
}

func (m *model) keys() []string {
	set := map[string]bool{}
	for k := range m.base {
		set[k] = true
	}
	for k := range m.overlay {
		set[k] = true
	}
	if m.open {
		for k := range m.tx {
			set[k] = true
		}
	}
	ks := make([]string, 0, len(set))
	for k := range set {
		ks = append(ks, k)
	}
	sort.Strings(ks)
	return ks
}

type kv struct {
	k string
	v []byte
}

func (m *model) live(prefix []byte) []kv {
	var out []kv
	for _, k := range m.keys() {
		if !bytes.HasPrefix([]byte(k), prefix) {
			continue
		}
		if v, ok := m.get([]byte(k)); ok {
			out = append(out, kv{k, v})
		}
	}
	return out
}

// where a value ever came from, for classifying wrong replies
func (m *model) sourceOf(k string, v []byte, discarded map[string][][]byte) string {
	if len(v) == 0 {
		return "nothing"
	}
	if m.open {
		if x, ok := m.tx[k]; ok && bytes.Equal(x, v) {
			return "tx"
		}
	}
	if x, ok := m.overlay[k]; ok && bytes.Equal(x, v) {
		return "overlay"
	}
	if x, ok := m.base[k]; ok && bytes.Equal(x, v) {
		return "base"
	}
	for _, d := range discarded[k] {
		if bytes.Equal(d, v) {
			return "rolled-back-tx"
		}
	}
	return "overwritten"
}

// ---------------------------------------------------------------------------------------------
// execution + monitor

type viol struct {
	shape string
	msg   string
	at    int // op index
}

type stats struct {
	counters map[string]int64
	shapes   map[string]struct{}
	flags    map[string]bool
}

func newStats() *stats {
	return &stats{counters: map[string]int64{}, shapes: map[string]struct{}{}, flags: map[string]bool{}}
}

var dirSeq int64

func setVal(op *Op) []byte {
	if op.VNil {
		return nil
	}
	if op.V == nil {
		return []byte{}
	}
	return op.V
}

func fmtKVs(xs []kv) string {
	var s []string
	for _, x := range xs {
		s = append(s, fmt.Sprintf("%q=%q", x.k, x.v))
	}
	return "[" + strings.Join(s, " ") + "]"
}

func decodePage(page [][]byte, enc int32, owner map[string]string, view func(string) []byte) ([]kv, string) {
	var out []kv
	for _, raw := range page {
		switch enc {
		case 0:
			k, ok := owner[string(raw)]
			if !ok {
				return out, fmt.Sprintf("value %q was never written", raw)
			}
			out = append(out, kv{k, raw})
		case dbm.ListKeyOnly:
			out = append(out, kv{string(raw), view(string(raw))})
		default:
			var p types.KeyValue
			if err := types.Decode(raw, &p); err != nil {
				return out, "undecodable entry: " + err.Error()
			}
			out = append(out, kv{string(p.Key), p.Value})
		}
	}
	return out, ""
}

func classifyList(got, want []kv, m *model, prefix []byte) string {
	wantSet := map[string][]byte{}
	for _, w := range want {
		wantSet[w.k] = w.v
	}
	seen := map[string]int{}
	for _, g := range got {
		seen[g.k]++
		if !bytes.HasPrefix([]byte(g.k), prefix) {
			return "out-of-prefix"
		}
		wv, ok := wantSet[g.k]
		if !ok {
			if v, layer := m.lookup(g.k); layer != "" && len(v) == 0 {
				return "deleted-entry"
			}
			return "unexpected-entry"
		}
		if !bytes.Equal(wv, g.v) {
			return "wrong-layer-value"
		}
		if seen[g.k] > 1 {
			return "duplicate"
		}
	}
	for _, w := range want {
		if seen[w.k] == 0 {
			return "missing"
		}
	}
	return "out-of-order"
}

func sameKVs(a, b []kv) bool {
	if len(a) != len(b) {
		return false
	}
	for i := range a {
		if a[i].k != b[i].k || !bytes.Equal(a[i].v, b[i].v) {
			return false
		}
	}
	return true
}

// execute runs the case; st may be nil (minimiser). Stops at the first violation.
func execute(c *Case, tmp string, st *stats) (v *viol) {
	dir := ""
	if c.Backend != "memdb" {
		dir = filepath.Join(tmp, fmt.Sprintf("c08-%d", atomic.AddInt64(&dirSeq, 1)))
		os.MkdirAll(dir, 0o755)
		defer os.RemoveAll(dir)
	}
	base := dbm.NewDB("c08", c.Backend, dir, 16)
	defer base.Close()
	for _, e := range c.Base {
		base.Set(e.K, e.V)
	}
	l := dbm.NewLocalDB(base, false)
	m := newModel(c.Base)
	owner := map[string]string{} // value -> key (values are unique)
	for _, e := range c.Base {
		if len(e.V) > 0 {
			owner[string(e.V)] = string(e.K)
		}
	}
	discarded := map[string][][]byte{}
	touched := map[string]bool{}
	readFromBase := map[string]bool{}
	count := func(k string, n int64) {
		if st != nil {
			st.counters[k] += n
		}
	}
	flag := func(k string) {
		if st != nil {
			st.flags[k] = true
		}
	}
	txState := func() string {
		if m.open {
			return "in-tx"
		}
		return "no-tx"
	}
	last := "start"
	fail := func(at int, shape, f string, a ...any) *viol {
		return &viol{shape: shape, msg: fmt.Sprintf("op #%d (%s, %s): ", at, last, txState()) + fmt.Sprintf(f, a...), at: at}
	}
	checkGet := func(at int, k []byte, who string) *viol {
		got, err := l.Get(k)
		count("gets_compared", 1)
		want, found := m.get(k)
		switch {
		case err != nil && err != dbm.ErrNotFoundInDb:
			return fail(at, "get-error", "Get(%q) returned error %v", k, err)
		case err == nil && len(got) == 0:
			return fail(at, "get-empty-without-error", "Get(%q) returned an empty value without ErrNotFound", k)
		case err == nil && !found:
			return fail(at, fmt.Sprintf("get-phantom-from-%s-after-%s-%s", m.sourceOf(string(k), got, discarded), last, txState()),
				"%s Get(%q)=%q, model: not found (hidden or never written)", who, k, got)
		case err != nil && found:
			return fail(at, fmt.Sprintf("get-missing-after-%s-%s", last, txState()), "%s Get(%q): not found, model %q", who, k, want)
		case err == nil && !bytes.Equal(got, want):
			return fail(at, fmt.Sprintf("get-stale-from-%s-after-%s-%s", m.sourceOf(string(k), got, discarded), last, txState()),
				"%s Get(%q)=%q, model %q", who, k, got, want)
		}
		return nil
	}
	view := func(k string) []byte { v, _ := m.lookup(k); return v }
	// full listing + count of one prefix against the model
	checkPrefix := func(at int, p []byte, asc bool, enc int32) *viol {
		want := m.live(p)
		count("prefixcounts_compared", 1)
		if got := l.PrefixCount(p); got != int64(len(want)) {
			what := "over"
			if got < int64(len(want)) {
				what = "under"
			}
			return fail(at, fmt.Sprintf("count-%s-after-%s-%s", what, last, txState()), "PrefixCount(%q)=%d, model has %d live entries %s", p, got, len(want), fmtKVs(want))
		}
		d := enc
		exp := want
		if asc {
			d |= dbm.ListASC
		} else {
			exp = make([]kv, len(want))
			for i := range want {
				exp[len(want)-1-i] = want[i]
			}
		}
		page, err := l.List(p, nil, 1000, d)
		count("full_listings_compared", 1)
		if err != nil {
			return fail(at, "list-error", "List(%q) error %v", p, err)
		}
		got, bad := decodePage(page, enc, owner, view)
		if bad != "" {
			return fail(at, fmt.Sprintf("list-foreign-after-%s-%s", last, txState()), "List(%q): %s", p, bad)
		}
		count("listed_entries_compared", int64(len(got)))
		if !sameKVs(got, exp) {
			return fail(at, fmt.Sprintf("list-%s-after-%s-%s", classifyList(got, want, m, p), last, txState()),
				"List(prefix=%q, all, %s)=%s, model %s", p, map[bool]string{true: "ASC", false: "DESC"}[asc], fmtKVs(got), fmtKVs(exp))
		}
		return nil
	}
	monitor := func(at int, r *lib.Rng) *viol {
		// list and count every prefix (no side effects on the LocalDB)
		for pi, p := range prefixes {
			asc := (at+1+pi)%2 == 0
			enc := []int32{dbm.ListWithKey, 0, dbm.ListKeyOnly}[(at+1+pi)%3]
			if v := checkPrefix(at, p, asc, enc); v != nil {
				return v
			}
		}
		// point reads (they fill LocalDB's read cache, so the policy varies per case)
		if c.Probe != "lazy" {
			ks := make([]string, 0, len(touched))
			for k := range touched {
				ks = append(ks, k)
			}
			sort.Strings(ks)
			for _, k := range ks {
				if c.Probe == "some" && !r.Chance(25) {
					continue
				}
				if v := checkGet(at, []byte(k), "monitor"); v != nil {
					return v
				}
			}
		}
		if st != nil {
			for _, k := range m.keys() {
				sh := ""
				for li, layer := range []map[string][]byte{m.tx, m.overlay, m.base} {
					ch := "-"
					if li == 0 && !m.open {
						ch = "."
					} else if v, ok := layer[k]; ok {
						ch = "L"
						if len(v) == 0 {
							ch = "T"
						}
					}
					sh += ch
				}
				st.shapes[sh] = struct{}{}
			}
		}
		return nil
	}
	mr := lib.NewRng(uint64(len(c.Ops))*7919 + uint64(len(c.Base)))
	if v := monitor(-1, mr); v != nil {
		return v
	}
	for i := range c.Ops {
		op := &c.Ops[i]
		count("ops_"+op.Kind, 1)
		switch op.Kind {
		case "begin":
			l.Begin()
			m.open, m.tx = true, map[string][]byte{}
		case "commit":
			if !m.open {
				count("commit_without_begin", 1)
			} else {
				for k, v := range m.tx {
					if len(v) == 0 {
						if lv, layer := (&model{base: m.base, overlay: m.overlay}).lookup(k); layer != "" && len(lv) > 0 {
							flag("commit_merged_tombstone_over_live")
						}
					}
				}
				if len(m.tx) > 0 {
					count("commits_with_writes", 1)
				}
			}
			if err := l.Commit(); err != nil {
				return fail(i, "commit-error", "Commit returned %v", err)
			}
			if m.open {
				for k, v := range m.tx {
					m.overlay[k] = v
				}
			}
			m.open, m.tx = false, nil
		case "rollback":
			if !m.open {
				count("rollback_without_begin", 1)
			} else {
				for k, v := range m.tx {
					discarded[k] = append(discarded[k], v)
					if lv, layer := (&model{base: m.base, overlay: m.overlay}).lookup(k); layer != "" && len(lv) > 0 {
						flag("rollback_discarded_shadowing_write")
					}
				}
				if len(m.tx) > 0 {
					count("rollbacks_with_writes", 1)
				}
			}
			l.Rollback()
			m.open, m.tx = false, nil
		case "set":
			v := setVal(op)
			if len(v) > 0 {
				owner[string(v)] = string(op.K)
			} else {
				count("sets_empty_value", 1)
				if bv, ok := m.base[string(op.K)]; ok && len(bv) > 0 {
					if _, hidden := m.overlay[string(op.K)]; !hidden {
						flag("delete_of_base_entry")
					}
				}
			}
			if readFromBase[string(op.K)] {
				flag("read_then_write")
				count("writes_after_read_through", 1)
			}
			if !m.open {
				count("sets_outside_tx", 1)
			}
			if err := l.Set(op.K, v); err != nil {
				return fail(i, "set-error", "Set returned %v", err)
			}
			if m.open {
				m.tx[string(op.K)] = v
			} else {
				m.overlay[string(op.K)] = v
			}
			touched[string(op.K)] = true
		case "get":
			if _, layer := m.lookup(string(op.K)); layer == "base" {
				readFromBase[string(op.K)] = true
				count("gets_served_by_base", 1)
			}
			touched[string(op.K)] = true
			last = op.Kind
			if v := checkGet(i, op.K, "generated"); v != nil {
				return v
			}
		case "count":
			last = op.Kind
			want := m.live(op.Prefix)
			if got := l.PrefixCount(op.Prefix); got != int64(len(want)) {
				what := "over"
				if got < int64(len(want)) {
					what = "under"
				}
				return fail(i, fmt.Sprintf("count-%s-after-%s-%s", what, last, txState()), "PrefixCount(%q)=%d, model %d", op.Prefix, got, len(want))
			}
		case "list":
			last = op.Kind
			want := m.live(op.Prefix)
			exp := want
			d := op.Enc
			if op.Asc {
				d |= dbm.ListASC
			} else {
				exp = make([]kv, len(want))
				for j := range want {
					exp[len(want)-1-j] = want[j]
				}
			}
			var from []byte
			if op.From > 0 && len(exp) > 0 {
				j := (op.From - 1) % len(exp)
				from = []byte(exp[j].k)
				exp = exp[j+1:]
			}
			if int(op.Count) < len(exp) {
				exp = exp[:op.Count]
			}
			page, err := l.List(op.Prefix, from, op.Count, d)
			if err != nil {
				return fail(i, "list-error", "List error %v", err)
			}
			got, bad := decodePage(page, op.Enc, owner, view)
			if bad != "" {
				return fail(i, fmt.Sprintf("list-foreign-after-%s-%s", last, txState()), "List(%q,%q,%d): %s", op.Prefix, from, op.Count, bad)
			}
			count("pages_compared", 1)
			if !sameKVs(got, exp) {
				return fail(i, fmt.Sprintf("page-%s-after-%s-%s", classifyList(got, want, m, op.Prefix), last, txState()),
					"List(prefix=%q, key=%q, count=%d, %s)=%s, model %s", op.Prefix, from, op.Count, map[bool]string{true: "ASC", false: "DESC"}[op.Asc], fmtKVs(got), fmtKVs(exp))
			}
		}
		last = op.Kind
		if v := monitor(i, mr); v != nil {
			return v
		}
	}
	// final sweep: every key ever mentioned, also in lazy mode
	for _, k := range m.keys() {
		if v := checkGet(len(c.Ops), []byte(k), "final"); v != nil {
			return v
		}
	}
	return nil
}

func safeExecute(c *Case, tmp string, st *stats) (v *viol) {
	defer func() {
		if e := recover(); e != nil {
			v = &viol{shape: "panic", msg: fmt.Sprintf("panic: %v\n%s", e, debug.Stack()), at: -1}
		}
	}()
	return execute(c, tmp, st)
}

// shape family used while minimising: drop the "-after-<op>-<tx>" context, which legitimately changes when ops are removed
func family(shape string) string {
	if i := strings.Index(shape, "-after-"); i > 0 {
		return shape[:i]
	}
	return shape
}

func wellFormed(ops []Op) bool {
	open := false
	for _, o := range ops {
		switch o.Kind {
		case "begin":
			if open {
				return false
			}
			open = true
		case "commit", "rollback":
			open = false
		}
	}
	return true
}

func minimise(c *Case, tmp string, v *viol) (*Case, *viol) {
	best := *c
	best.Ops = append([]Op{}, c.Ops[:min(len(c.Ops), v.at+1)]...)
	if v.at < 0 {
		best.Ops = nil
	}
	fam := family(v.shape)
	bv := v
	budget := 400
	try := func(t *Case) bool {
		if budget <= 0 || !wellFormed(t.Ops) {
			return false
		}
		budget--
		r := safeExecute(t, tmp, nil)
		if r != nil && family(r.shape) == fam {
			best, bv = *t, r
			return true
		}
		return false
	}
	if c.Backend != "memdb" {
		t := best
		t.Backend = "memdb"
		try(&t)
	}
	if !try(&best) {
		return c, v
	}
	for _, p := range []string{"lazy", "eager"} {
		if best.Probe != p {
			t := best
			t.Probe = p
			if try(&t) {
				break
			}
		}
	}
	for chunk := len(best.Ops) / 2; chunk >= 1; chunk /= 2 {
		for i := 0; i+chunk <= len(best.Ops); {
			t := best
			t.Ops = append(append([]Op{}, best.Ops[:i]...), best.Ops[i+chunk:]...)
			if !try(&t) {
				i += chunk
			}
		}
	}
	for i := 0; i < len(best.Base); {
		t := best
		t.Base = append(append([]Entry{}, best.Base[:i]...), best.Base[i+1:]...)
		if !try(&t) {
			i++
		}
	}
	return &best, bv
}

func witness(c *Case) any {
	var base, ops []string
	for _, e := range c.Base {
		base = append(base, fmt.Sprintf("%q=%q", e.K, e.V))
	}
	for _, o := range c.Ops {
		switch o.Kind {
		case "set":
			v := "nil"
			if !o.VNil {
				v = fmt.Sprintf("%q", o.V)
			}
			ops = append(ops, fmt.Sprintf("Set(%q,%s)", o.K, v))
		case "get":
			ops = append(ops, fmt.Sprintf("Get(%q)", o.K))
		case "list":
			ops = append(ops, fmt.Sprintf("List(prefix=%q, after live entry #%d, count=%d, asc=%v, enc=%d)", o.Prefix, o.From, o.Count, o.Asc, o.Enc))
		case "count":
			ops = append(ops, fmt.Sprintf("PrefixCount(%q)", o.Prefix))
		default:
			ops = append(ops, strings.ToUpper(o.Kind[:1])+o.Kind[1:]+"()")
		}
	}
	return map[string]any{"base_backend": c.Backend, "base": base, "ops": ops, "monitor_point_reads": c.Probe}
}

func run(c *lib.Ctx) {
	log15.Root().SetHandler(log15.DiscardHandler())
	c.Rule("case = pre-populated base DB (memdb, 15% goleveldb; 3..14 keys under prefixes a-, a-x, b with suffixes incl. 0xff; some base values empty) + generated history of 20..N " +
		"Begin/Commit/Rollback (also without Begin)/Set (28% empty or nil value, biased to the key just read and to base keys)/Get/List (page after a live entry, count 1..6, both directions, 3 encodings)/PrefixCount " +
		"on db.NewLocalDB(base,false); nested Begin is never generated. After every operation the monitor compares PrefixCount and a full listing of 5 prefixes (a-, a-x, b, b\\xff, everything) and point reads " +
		"(policy per case: every touched key / 25% of them / none until the final sweep, because Get fills the read-through cache) with a 3-layer map model (base, overlay, open tx; empty = hidden). " +
		"non-trivial (measured on the model) = the history had a Rollback discarding a write that shadowed a live lower entry, a Commit merging a tombstone over a live lower entry, " +
		"a Set of a key previously served from the base by Get, and a delete of a live base entry")
	c.Assume("one LocalDB is driven by one goroutine (the property is about sequential histories)",
		"nested Begin is outside the statement ('an optional open transaction') and is not generated",
		"the blockchain module's EventLocal* handlers are thin pass-throughs to the same LocalDB methods and are not driven here")
	n := c.N(1000, 60000)
	maxOps := 120
	if !c.Quick() {
		maxOps = 200
	}
	var mu sync.Mutex
	minimisedFam := map[string]bool{}
	lib.Parallel(n, 12, func(i int) {
		if c.Skip(i) {
			return
		}
		cs := genCase(c.CaseRng("history", i), maxOps)
		st := newStats()
		v := safeExecute(cs, c.Tmp, st)
		if v != nil {
			mc, mv := cs, v
			mu.Lock()
			doMin := !minimisedFam[family(v.shape)]
			minimisedFam[family(v.shape)] = true
			mu.Unlock()
			if doMin {
				mc, mv = minimise(cs, c.Tmp, v)
			}
			c.Violation(i, mv.shape, witness(mc), "%s", mv.msg)
		}
		for k, x := range st.counters {
			c.Count(k, x)
		}
		for s := range st.shapes {
			c.Seen("layer_shapes(tx,overlay,base)", s)
		}
		for f := range st.flags {
			c.Count("cases_with_"+f, 1)
		}
		c.Count("cases_probe_"+cs.Probe, 1)
		c.Count("cases_base_"+cs.Backend, 1)
		nt := st.flags["rollback_discarded_shadowing_write"] && st.flags["commit_merged_tombstone_over_live"] && st.flags["read_then_write"] && st.flags["delete_of_base_entry"]
		var sample any
		if i < 2 || (nt && i < 400) {
			sample = witness(cs)
		}
		c.Case(lib.Fingerprint(cs), nt, sample)
	})
	c.RequireEvents("full_listings_compared", 5000)
	c.RequireEvents("gets_compared", 5000)
	c.RequireEvents("rollbacks_with_writes", 20)
	c.RequireEvents("commits_with_writes", 20)
}

func main() { lib.Main("C08", "exploration", run) }
