// C05: state pruning never deletes live state.
//
// Monitor: a model of the CURRENT chain (height -> root -> map) is maintained through commits, rollbacks (the chain
// tip moves down, nothing is called on the store, exactly like blockchain.DelBlock), re-commits at used heights,
// heights without state change and jumps; after every operation (and concurrently with the store's own background
// prune) every key of every retained state is read through the real Store.Get and the persisted node graph of every
// retained root is walked on the raw DB (conservation: "pruning only removes data that no such state references").
// A violation is classified from facts measured on the failing history (which index entry made the prune delete the
// lost node, whether the entry that shadowed it is from a dead branch, whether its height was ever re-committed,
// whether the lost record is a root record that an older pruned commit produced as well).
package main

import (
	"crypto/sha256"
	"encoding/hex"
	"encoding/json"
	"fmt"
	"os"
	"path/filepath"
	"runtime/debug"
	"sort"
	"strings"
	"sync"
	"time"

	dbm "github.com/33cn/chain33/common/db"
	clog "github.com/33cn/chain33/common/log"
	"github.com/33cn/chain33/system/store/mavl"
	mavldb "github.com/33cn/chain33/system/store/mavl/db"
	"github.com/33cn/chain33/types"
	"verifharness/lib"
)

// ---------------------------------------------------------------------------------------------
// history description (relative operands: every subsequence of a history is a valid history)

type Cfg struct {
	PH      int  `json:"ph"`
	MemTree bool `json:"memtree,omitempty"`
	MemVal  bool `json:"memval,omitempty"`
	UseSet  bool `json:"use_set,omitempty"` // commit through Store.Set instead of MemSet+Commit
	Bg      bool `json:"bg,omitempty"`      // keep committing while the store's own background prune runs
}

type Op struct {
	T  string      `json:"t"`           // commit | rollback | prune | reopen
	D  int64       `json:"d,omitempty"` // commit: height increment (>=1); rollback: entries to drop; prune: lag of curHeight below the tip
	KV [][2]string `json:"kv,omitempty"`
}

type History struct {
	Idx   int    `json:"idx"`
	Gen   string `json:"gen"`
	Start int64  `json:"start"` // height of the first commit
	Cfg   Cfg    `json:"cfg"`
	Ops   []Op   `json:"ops"`
}

const (
	shapeSharedRoot       = "retained-root-record-equals-pruned-older-root"
	shapeStaleFork        = "stale-index-entry-of-dead-fork-at-never-recommitted-height-shadows-live-version"
	shapeStaleSurvived    = "stale-index-entry-survived-recommit-dead-fork-root-record-rewritten-by-identical-root-at-other-height"
	shapeMemTree          = "memtree-serves-stale-children-of-rewritten-recurring-root-record-after-prune"
	shapeMemTreeRecommit  = "memtree-recommit-replaces-dead-fork-node-under-same-key-stale-index-entry-survives"
	shapeMemTreeBuild     = "memtree-state-built-on-older-incarnation-of-recurring-root-references-superseded-version"
	shapeStaleSecondLevel = "stale-second-level-index-entry-of-dead-fork-not-removed-by-recommit"
)

// ---------------------------------------------------------------------------------------------
// model simulation (no store): strata and generator support

// stratumOf derives the stratum from the history itself: "clean" histories never contain a trigger of a recorded
// finding: (P1) no Save produces a whole-state content that an earlier Save produced; (P2) no prune runs while a
// height at or below its bound (curHeight-PruneHeight) was saved on an abandoned branch and not saved again.
func stratumOf(h *History) string {
	type st struct {
		H     int64
		Saved bool
		M     map[string]string
	}
	var chain []st
	seen := map[string]bool{}
	stale := map[int64]bool{}
	tipH := h.Start - 1
	trigger := false
	for _, op := range h.Ops {
		switch op.T {
		case "commit":
			d := op.D
			if d < 1 {
				d = 1
			}
			H := tipH + d
			m := map[string]string{}
			if len(chain) > 0 {
				for k, v := range chain[len(chain)-1].M {
					m[k] = v
				}
			}
			for _, kv := range op.KV {
				m[kv[0]] = kv[1]
			}
			if len(chain) == 0 && len(op.KV) == 0 {
				continue
			}
			saved := len(op.KV) > 0 || h.Cfg.UseSet
			if len(op.KV) > 0 {
				c := contentHash(m)
				if seen[c] {
					trigger = true
				}
				seen[c] = true
			}
			if saved {
				delete(stale, H)
			}
			chain = append(chain, st{H, saved, m})
			tipH = H
			if saved && autoPrune(h.Cfg.PH, H) && staleEligible(stale, H-int64(h.Cfg.PH)) {
				trigger = true
			}
		case "rollback":
			n := int(op.D)
			for n > 0 && len(chain) > 1 {
				e := chain[len(chain)-1]
				if e.Saved {
					stale[e.H] = true
				}
				chain = chain[:len(chain)-1]
				n--
			}
			if len(chain) > 0 {
				tipH = chain[len(chain)-1].H
			}
		case "prune":
			cur := tipH - op.D
			if len(chain) > 0 && cur < chain[0].H {
				cur = tipH
			}
			if staleEligible(stale, cur-int64(h.Cfg.PH)) {
				trigger = true
			}
		}
	}
	if trigger {
		return "trigger"
	}
	return "clean"
}

// staleEligible: some height saved on an abandoned branch and not saved again lies at or below the prune bound
// (only such index entries are looked at by a prune run).
func staleEligible(stale map[int64]bool, bound int64) bool {
	for h := range stale {
		if h <= bound {
			return true
		}
	}
	return false
}

func contentHash(m map[string]string) string {
	ks := make([]string, 0, len(m))
	for k := range m {
		ks = append(ks, k)
	}
	sort.Strings(ks)
	h := sha256.New()
	for _, k := range ks {
		fmt.Fprintf(h, "%d:%s=%d:%s;", len(k), k, len(m[k]), m[k])
	}
	return hex.EncodeToString(h.Sum(nil)[:12])
}

// autoPrune replicates the trigger condition of Tree.Save (only used to know WHEN the store prunes by itself; a wrong
// replica makes the monitor check fewer or unprunable states, which the walk reports as pre-existing loss).
func autoPrune(ph int, h int64) bool {
	return ph != 0 && h%int64(ph) == 0 && h/int64(ph) > 1
}

// ---------------------------------------------------------------------------------------------
// child: executes histories against the real store

type Viol struct {
	Shape string         `json:"shape"`
	Msg   string         `json:"msg"`
	Op    int            `json:"op"`
	Facts map[string]any `json:"facts,omitempty"`
}

type HistResult struct {
	Idx         int              `json:"idx"`
	Counters    map[string]int64 `json:"counters"`
	Viols       []Viol           `json:"viols,omitempty"`
	Nontrivial  bool             `json:"nontrivial"`
	OpsDone     int              `json:"ops_done"`
	Adjacent    []string         `json:"adjacent,omitempty"`    // failures of the store that are not violations of C05 as stated
	Unexplained []string         `json:"unexplained,omitempty"` // the history could not be executed and the monitor cannot say why
}

type chainEntry struct {
	W     map[string]bool // keys written by this commit
	H     int64
	Root  []byte
	M     map[string]string
	Ev    int
	Saved bool
}

type event struct {
	NoWrites  bool // committed with an empty write list
	Seq       int
	H         int64
	Root      string
	Saved     bool
	Abandoned bool
}

type idxEntry struct {
	DBKey   string
	Key     string
	H       int64
	Hash    string
	Old     bool
	Parents []string
}

type runner struct {
	h      *History
	dir    string
	st     *mavl.Store
	db     dbm.DB
	chain  []chainEntry
	events []event
	floor  int64
	cnt    map[string]int64
	keys   []string
	viols  []Viol
	// last pre-prune snapshot
	kvBefore    map[string][]byte
	idxBefore   []idxEntry
	pruneCur    int64
	lastSaveEv  map[int64]int // height -> seq of the last event whose Save ran at that height
	deletedAny  bool
	adjacent    []string
	unexplained []string
	stop        bool
}

// prune gate: the background prune goroutine started by Tree.Save passes here before it begins
type pruneGate struct {
	mu      sync.Mutex
	ch      chan struct{}
	started int64
}

var gate pruneGate

func (g *pruneGate) fn(cur int64) {
	g.mu.Lock()
	g.started++
	ch := g.ch
	g.mu.Unlock()
	if ch != nil {
		<-ch
	}
}
func (g *pruneGate) arm() { g.mu.Lock(); g.ch = make(chan struct{}); g.mu.Unlock() }
func (g *pruneGate) release() {
	g.mu.Lock()
	if g.ch != nil {
		close(g.ch)
		g.ch = nil
	}
	g.mu.Unlock()
}
func (g *pruneGate) count() int64 { g.mu.Lock(); defer g.mu.Unlock(); return g.started }

func (r *runner) open() {
	sub, _ := json.Marshal(map[string]any{"enableMavlPrefix": true, "enableMavlPrune": true, "pruneHeight": r.h.Cfg.PH,
		"enableMemTree": r.h.Cfg.MemTree, "enableMemVal": r.h.Cfg.MemVal})
	r.st = mavl.New(&types.Store{Name: "mavl", Driver: "leveldb", DbPath: r.dir, DbCache: 8}, sub, nil).(*mavl.Store)
	r.db = r.st.GetDB()
}

func (r *runner) closeStore() {
	mavldb.VerifBWaitPrune()
	r.st.Close()
	mavldb.VerifBResetGlobals() // what a process restart does
}

func guard(f func()) (p string) {
	defer func() {
		if e := recover(); e != nil {
			p = strings.TrimSpace(fmt.Sprint(e))
			if os.Getenv("VERIF_C05_TRACE") != "" {
				fmt.Fprintf(os.Stderr, "PANIC %s\n%s\n", p, debug.Stack())
			}
		}
	}()
	f()
	return ""
}

func (r *runner) snapshot() {
	r.kvBefore = map[string][]byte{}
	it := r.db.Iterator(nil, types.EmptyValue, false)
	for it.Rewind(); it.Valid(); it.Next() {
		r.kvBefore[string(it.Key())] = append([]byte{}, it.Value()...)
	}
	it.Close()
	r.idxBefore = r.readIndex(func(k string) ([]byte, bool) { v, ok := r.kvBefore[k]; return v, ok }, r.kvBefore)
	if os.Getenv("VERIF_C05_TRACE") != "" {
		for _, e := range r.idxBefore {
			fmt.Fprintf(os.Stderr, "  idx %q@%d %s old=%v\n", e.Key, e.H, printable(e.Hash), e.Old)
		}
	}
}

// readIndex decodes the leaf version index (both levels) in DB key order with the package's own parser.
func (r *runner) readIndex(get func(string) ([]byte, bool), all map[string][]byte) []idxEntry {
	p1, p2 := mavldb.VerifBLeafIndexPrefixes()
	var ks []string
	for k := range all {
		if strings.HasPrefix(k, string(p1)) || strings.HasPrefix(k, string(p2)) {
			ks = append(ks, k)
		}
	}
	sort.Strings(ks)
	var out []idxEntry
	for _, k := range ks {
		old := strings.HasPrefix(k, string(p2))
		e, err := mavldb.VerifBParseLeafIndexKey([]byte(k), old)
		if err != nil {
			continue
		}
		ie := idxEntry{DBKey: k, Key: string(e.Key), H: e.Height, Hash: string(e.Hash), Old: old}
		var pd types.PruneData
		if v, ok := get(k); ok && types.Decode(v, &pd) == nil {
			for _, p := range pd.Hashs {
				ie.Parents = append(ie.Parents, string(p))
			}
		}
		out = append(out, ie)
	}
	return out
}

func (r *runner) dbKeys() map[string]struct{} {
	m := map[string]struct{}{}
	it := r.db.Iterator(nil, types.EmptyValue, false)
	for it.Rewind(); it.Valid(); it.Next() {
		m[string(it.Key())] = struct{}{}
	}
	it.Close()
	return m
}

type missNode struct {
	Key    string
	StateH int64
	IsRoot bool
}

// walk visits the persisted node graph of root on the raw DB (no node cache, no memTree). Missing records are
// reported; the walk continues below a missing record with the pre-prune snapshot when it has the record.
func (r *runner) walk(root []byte, stateH int64, get func(string) ([]byte, bool), fallback map[string][]byte, visit map[string]struct{}, miss *[]missNode) {
	var rec func(k string, isRoot bool)
	rec = func(k string, isRoot bool) {
		if _, ok := visit[k]; ok {
			return
		}
		visit[k] = struct{}{}
		v, ok := get(k)
		if !ok || len(v) == 0 {
			if miss != nil {
				*miss = append(*miss, missNode{Key: k, StateH: stateH, IsRoot: isRoot})
			}
			// do not descend below a missing record: an older incarnation of the record (from the snapshot) may
			// point to nodes this state never referenced
			_ = fallback
			return
		}
		var sn types.StoreNode
		if types.Decode(v, &sn) != nil {
			return
		}
		if sn.Height == 0 {
			return
		}
		rec(string(sn.LeftHash), false)
		rec(string(sn.RightHash), false)
	}
	rec(string(root), true)
}

func (r *runner) rawGet(k string) ([]byte, bool) {
	v, err := r.db.Get([]byte(k))
	if err != nil || len(v) == 0 {
		return nil, false
	}
	return v, true
}

// retained returns the chain entries the property protects right now.
func (r *runner) retained() []chainEntry {
	if len(r.chain) == 0 {
		return nil
	}
	tip := r.chain[len(r.chain)-1]
	bound := tip.H - int64(r.h.Cfg.PH)
	if r.floor > bound {
		bound = r.floor
	}
	var out []chainEntry
	// entry in effect at bound = latest entry with H <= bound
	first := 0
	for i, e := range r.chain {
		if e.H <= bound {
			first = i
		}
	}
	for i := first; i < len(r.chain); i++ {
		out = append(out, r.chain[i])
	}
	return out
}

func nodeKind(k string, isRoot bool) string {
	switch {
	case isRoot:
		return "root-record"
	case strings.HasPrefix(k, "_mb_"):
		return "leaf"
	case strings.HasPrefix(k, "_mh_"):
		return "inner"
	}
	return "node"
}

func (r *runner) violate(op int, shape, msg string, facts map[string]any) {
	for _, v := range r.viols {
		if v.Shape == shape {
			return
		}
	}
	r.viols = append(r.viols, Viol{Shape: shape, Msg: msg, Op: op, Facts: facts})
}

// check reads every key of every retained state and walks their node graphs.
func (r *runner) check(op int, where string) {
	ret := r.retained()
	r.cnt["retained_states_checked"] += int64(len(ret))
	var miss []missNode
	visit := map[string]struct{}{}
	seenRoot := map[string]bool{}
	for _, e := range ret {
		if seenRoot[string(e.Root)] {
			continue
		}
		seenRoot[string(e.Root)] = true
		r.walk(e.Root, e.H, r.rawGet, r.kvBefore, visit, &miss)
	}
	r.cnt["nodes_walked"] += int64(len(visit))
	// reads through the real store
	var readFail []string
	failRoots := map[string]bool{}
	for _, e := range ret {
		keys := make([][]byte, len(r.keys))
		for i, k := range r.keys {
			keys[i] = []byte(k)
		}
		var vals [][]byte
		p := guard(func() { vals = r.st.Get(&types.StoreGet{StateHash: e.Root, Keys: keys}) })
		if p != "" {
			r.cnt["read_panics"]++
			failRoots[string(e.Root)] = true
			readFail = append(readFail, fmt.Sprintf("Get at height %d root %s panicked: %s", e.H, hex.EncodeToString(e.Root)[:16], lib.ShortList(strings.Split(p, "\n"), 1)))
			continue
		}
		for i, k := range r.keys {
			r.cnt["reads_compared"]++
			want, has := e.M[k]
			got := vals[i]
			if (has && string(got) != want) || (!has && got != nil) {
				if len(readFail) < 6 {
					readFail = append(readFail, fmt.Sprintf("Get(height %d root %s, key %q) = %q, model %q (present=%v)", e.H, hex.EncodeToString(e.Root)[:16], k, got, want, has))
				}
				r.cnt["read_mismatches"]++
				failRoots[string(e.Root)] = true
			}
		}
	}
	if len(miss) == 0 && len(readFail) == 0 {
		return
	}
	if len(miss) == 0 {
		// a read may have raced with the running background prune: let it finish and walk again
		mavldb.VerifBWaitPrune()
		visit = map[string]struct{}{}
		for _, e := range ret {
			r.walk(e.Root, e.H, r.rawGet, r.kvBefore, visit, &miss)
		}
	}
	r.cnt["lost_live_nodes"] += int64(len(miss))
	if len(miss) == 0 {
		// the persisted graph of every retained state is intact, yet a read failed
		shape := "read-differs-without-lost-node"
		if r.h.Cfg.MemTree && len(failRoots) > 0 {
			all := true
			for root := range failRoots {
				hs := map[int64]bool{}
				for _, ev := range r.events {
					if ev.Root == root && ev.Saved {
						hs[ev.H] = true
					}
				}
				all = all && len(hs) >= 2
			}
			if all {
				shape = shapeMemTree
			}
		}
		r.violate(op, shape, fmt.Sprintf("%s: persisted node graph of all retained states intact (memTree=%v, failing roots produced by Saves at >=2 heights=%v): %s", where, r.h.Cfg.MemTree, shape == shapeMemTree, strings.Join(readFail, "; ")), nil)
		return
	}
	// classify each lost node from measured facts
	shapes := map[string][]string{}
	for _, m := range miss {
		s, why := r.classify(m)
		parts := strings.Split(s, "+")
		all := true
		for _, p := range parts {
			all = all && recordedShapes[p]
		}
		if all {
			for _, p := range parts {
				shapes[p] = append(shapes[p], why)
			}
		} else {
			shapes[s] = append(shapes[s], why)
		}
	}
	for s, whys := range shapes {
		msg := fmt.Sprintf("%s (op %d, prune curHeight=%d, PruneHeight=%d): %d live node record(s) missing: %s; reads: %s", where, op, r.pruneCur, r.h.Cfg.PH,
			len(whys), lib.ShortList(whys, 3), lib.ShortList(readFail, 3))
		r.violate(op, s, msg, map[string]any{"lost": whys, "reads": readFail})
	}
}

func printable(s string) string {
	hx := func(x string) string {
		h := hex.EncodeToString([]byte(x))
		if len(h) > 12 {
			h = h[:12] + "…"
		}
		return h
	}
	if strings.HasPrefix(s, "_m") && len(s) > 16 {
		return s[:16] + hx(s[16:])
	}
	return hx(s)
}

// classify explains why the prune removed a live record, using the index as it was before the prune.
func (r *runner) classify(m missNode) (shape, why string) {
	kind := nodeKind(m.Key, m.IsRoot)
	desc := fmt.Sprintf("%s %s of state@%d", kind, printable(m.Key), m.StateH)
	if _, was := r.kvBefore[m.Key]; !was {
		// the record did not exist when the last prune started (and the walk found every retained state intact after
		// the operations before it): the state was persisted with a dangling pointer. With memTree on and a
		// recurring root hash (of the state or of its parent) this is the F-C05-6 mechanism, the superseded version
		// having been removed by an EARLIER prune run.
		if r.h.Cfg.MemTree {
			saves := func(root string) (n int) {
				for _, ev := range r.events {
					if ev.Saved && ev.Root == root {
						n++
					}
				}
				return
			}
			for i, ce := range r.chain {
				if ce.H != m.StateH {
					continue
				}
				ps := 0
				if i > 0 {
					ps = saves(string(r.chain[i-1].Root))
				}
				if ss := saves(string(ce.Root)); ss >= 2 || ps >= 2 {
					return shapeMemTreeBuild, fmt.Sprintf("%s did not exist when the last prune started: with memTree on the state was built on an older incarnation of a recurring root record (root of the state saved %d times, root of its parent %d times) and persists a pointer to a version an earlier prune run had removed", desc, ss, ps)
				}
			}
		}
		deadFork := false
		for _, ev := range r.events {
			if ev.Abandoned && ev.Saved {
				deadFork = true
			}
		}
		return fmt.Sprintf("record-missing-before-prune:%s/memtree=%v/dead-fork-in-history=%v", kind, r.h.Cfg.MemTree, deadFork), desc + " was not in the DB before the last prune either"
	}
	bound := r.pruneCur - int64(r.h.Cfg.PH)
	// entries of one key the prune considers, newest first (reverse DB order, as the prune iterates); entries at or
	// beyond the second-level threshold are moved to the second-level index and judged there
	group := func(e idxEntry) string {
		if e.Old || r.pruneCur >= e.H+500000 {
			return "\x00old\x00" + e.Key
		}
		return e.Key
	}
	elig := map[string][]idxEntry{}
	for i := len(r.idxBefore) - 1; i >= 0; i-- {
		e := r.idxBefore[i]
		g := group(e)
		if g != e.Key || e.H <= bound {
			elig[g] = append(elig[g], e)
		}
	}
	p1, p2 := mavldb.VerifBLeafIndexPrefixes()
	suffix := func(e idxEntry) string {
		if e.Old {
			return strings.TrimPrefix(e.DBKey, string(p2))
		}
		return strings.TrimPrefix(e.DBKey, string(p1))
	}
	for g := range elig {
		es := elig[g]
		sort.SliceStable(es, func(a, b int) bool { return suffix(es[a]) > suffix(es[b]) })
	}
	var causes []idxEntry
	for _, e := range r.idxBefore {
		hit := e.Hash == m.Key
		for _, p := range e.Parents {
			if p == m.Key {
				hit = true
			}
		}
		if hit {
			causes = append(causes, e)
		}
	}
	if len(causes) == 0 {
		return "deleted-record-not-on-any-index-entry:" + kind, desc + " is on no leaf-index entry"
	}
	// reachable set of the retained states before the prune
	live := map[string]struct{}{}
	for _, e := range r.retained() {
		r.walk(e.Root, e.H, func(k string) ([]byte, bool) { v, ok := r.kvBefore[k]; return v, ok }, nil, live, nil)
	}
	got := map[string]string{}
	var notByRule []string
	for _, c := range causes {
		g := group(c)
		es := elig[g]
		if len(es) == 0 || (g == c.Key && c.H > bound) {
			notByRule = append(notByRule, fmt.Sprintf("(%q@%d) inside the interval (bound %d)", c.Key, c.H, bound))
			continue
		}
		if len(es) > 1 && es[1].H == es[0].H {
			// the prune's same-height guard: nothing of this key is deleted
			notByRule = append(notByRule, fmt.Sprintf("(%q@%d) two newest eligible entries share height %d (guard)", c.Key, c.H, es[0].H))
			continue
		}
		e0 := es[0]
		if e0.DBKey == c.DBKey {
			// the entry the rule keeps: its path can only have been deleted through another entry
			notByRule = append(notByRule, fmt.Sprintf("(%q@%d) newest eligible version", c.Key, c.H))
			continue
		}
		_, e0Live := live[e0.Hash]
		if !r.onChainWrite(e0) {
			// the entry that shadows the deleted version was not written by the current chain: it is a dead fork's
			last, ok := r.lastSaveEv[e0.H]
			recommitted := ok && !r.events[last].Abandoned
			var deadRoots []string
			for _, ev := range r.events {
				if ev.H == e0.H && ev.Saved && ev.Abandoned {
					deadRoots = append(deadRoots, ev.Root)
				}
			}
			switch {
			case len(deadRoots) > 0 && !recommitted:
				got[shapeStaleFork] = fmt.Sprintf("%s deleted through index entry (%q@%d); the newest eligible entry (%q@%d) was saved on an abandoned branch (not a write of the current chain; referenced by a retained state=%v) and height %d was never saved again",
					desc, c.Key, c.H, e0.Key, e0.H, e0Live, e0.H)
			case len(deadRoots) > 0 && recommitted && strings.HasPrefix(g, "\x00old\x00"):
				got[shapeStaleSecondLevel] = fmt.Sprintf("%s deleted through index entry (%q@%d); the newest eligible entry (%q@%d) is a dead fork's that a prune run had moved to the second-level index (curHeight >= height+500000); height %d WAS saved again but DelLeafCountKV only deletes first-level index keys",
					desc, c.Key, c.H, e0.Key, e0.H, e0.H)
			case len(deadRoots) > 0 && recommitted && r.rootRecurs(deadRoots, e0.H):
				got[shapeStaleSurvived] = fmt.Sprintf("%s deleted through index entry (%q@%d); the newest eligible entry (%q@%d) is a dead fork's; height %d WAS saved again but DelLeafCountKV did not remove it: the dead fork's root hash at %d was also produced by a Save at another height, which rewrote the unprefixed root record",
					desc, c.Key, c.H, e0.Key, e0.H, e0.H, e0.H)
			case len(deadRoots) > 0 && recommitted && r.h.Cfg.MemTree && !r.reachableFromRootsAt(e0.H, e0.Hash):
				got[shapeMemTreeRecommit] = fmt.Sprintf("%s deleted through index entry (%q@%d); the newest eligible entry (%q@%d) is a dead fork's; height %d WAS saved again with memTree on, but DelLeafCountKV missed it: the entry's leaf is no longer reachable from any root recorded at height %d (the re-commit's pending nodes, published in memTree / saved under the same height-prefixed content key, replaced the dead fork's node)",
					desc, c.Key, c.H, e0.Key, e0.H, e0.H, e0.H)
			default:
				shape := "stale-index-entry-survived:" + kind
				how := ""
				if recommitted {
					// the height WAS committed again through a call that reaches Tree.Save (non-empty MemSet+Commit, or
					// Store.Set with or without writes): F-C05-2 (height never saved again) does not apply
					shape = "stale-index-entry-survived-recommit-through-save:" + kind
					last := r.events[r.lastSaveEv[e0.H]]
					how = fmt.Sprintf("; the current chain re-committed height %d through Tree.Save (event %d, Store.Set=%v, without writes=%v)", e0.H, last.Seq, r.h.Cfg.UseSet, last.NoWrites)
				}
				got[shape] = fmt.Sprintf("%s deleted through (%q@%d); newest eligible entry (%q@%d) is not a write of the current chain; height re-saved=%v savedOnDeadBranch=%v%s",
					desc, c.Key, c.H, e0.Key, e0.H, recommitted, len(deadRoots) > 0, how)
			}
			continue
		}
		// the rule kept a genuine newer version and removed an older one whose path still carries a live record
		if len(m.Key) == 32 {
			var hs []int64
			atCause := false
			for _, ev := range r.events {
				if ev.Root == m.Key && ev.Saved {
					hs = append(hs, ev.H)
					if ev.H == c.H {
						atCause = true
					}
				}
			}
			distinct := map[int64]bool{}
			for _, x := range hs {
				distinct[x] = true
			}
			if atCause && len(distinct) >= 2 && c.H <= bound {
				got[shapeSharedRoot] = fmt.Sprintf("%s: the same root hash was produced by Saves at heights %v; pruning the superseded (%q@%d) (bound %d) deleted the shared unprefixed root record",
					desc, hs, c.Key, c.H, bound)
				continue
			}
		}
		if r.h.Cfg.MemTree {
			var e0roots []string
			for _, ce := range r.chain {
				if ce.H == e0.H && ce.Saved {
					e0roots = append(e0roots, string(ce.Root))
				}
			}
			// the root of the retained state that references the lost record: produced by more than one Save?
			stateRootSaves := 0
			for _, ce := range r.chain {
				if ce.H == m.StateH {
					for _, ev := range r.events {
						if ev.Saved && ev.Root == string(ce.Root) {
							stateRootSaves++
						}
					}
				}
			}
			if r.rootRecurs(e0roots, e0.H) || stateRootSaves >= 2 {
				got[shapeMemTreeBuild] = fmt.Sprintf("%s deleted through superseded entry (%q@%d); the newest eligible entry (%q@%d) is a write of the current chain; with memTree on a root hash was produced by more than one Save (at the newest version's height: %v; root of the referencing state saved %d times): a later state was built on memTree's older incarnation of that root record and persists pointers to the superseded version",
					desc, c.Key, c.H, e0.Key, e0.H, r.rootRecurs(e0roots, e0.H), stateRootSaves)
				continue
			}
		}
		deadFork := false
		for _, ev := range r.events {
			if ev.Abandoned && ev.Saved {
				deadFork = true
			}
		}
		got[fmt.Sprintf("live-record-on-superseded-version-path:%s/memtree=%v/dead-fork-in-history=%v", kind, r.h.Cfg.MemTree, deadFork)] = fmt.Sprintf("%s deleted through superseded entry (%q@%d) although newest eligible (%q@%d) is a write of the current chain", desc, c.Key, c.H, e0.Key, e0.H)
	}
	if len(got) == 0 {
		return "deleted-though-only-on-entries-the-rule-keeps:" + kind, desc + " is only on index entries the prune rule must keep: " + lib.ShortList(notByRule, 4)
	}
	var ss, ws []string
	for s := range got {
		ss = append(ss, s)
	}
	sort.Strings(ss)
	for _, s := range ss {
		ws = append(ws, got[s])
	}
	// "+"-joined: the caller splits the join again when every part is a recorded shape (a record deleted for two
	// recorded reasons is explained by both); one unexplained part keeps the join, which matches no recorded shape
	return strings.Join(ss, "+"), strings.Join(ws, " | ")
}

var recordedShapes = map[string]bool{shapeSharedRoot: true, shapeStaleFork: true, shapeStaleSurvived: true, shapeMemTree: true, shapeMemTreeRecommit: true,
	shapeMemTreeBuild: true, shapeStaleSecondLevel: true}

// reachableFromRootsAt walks (pre-prune snapshot) every root the DB recorded at height h and reports whether node is reachable.
func (r *runner) reachableFromRootsAt(h int64, node string) bool {
	pre := string(mavldb.VerifBRootHashPrefix(h))
	for k := range r.kvBefore {
		if !strings.HasPrefix(k, pre) {
			continue
		}
		root, err := mavldb.VerifBRootFromKey([]byte(k))
		if err != nil {
			continue
		}
		visit := map[string]struct{}{}
		r.walk(root, h, func(k string) ([]byte, bool) { v, ok := r.kvBefore[k]; return v, ok }, nil, visit, nil)
		if _, ok := visit[node]; ok {
			return true
		}
	}
	return false
}

// onChainWrite: the current chain has a Save at the entry's height that wrote the entry's key with the value whose
// leaf record the entry names (two forks may both have written the key at that height). The leaf record key is
// height prefix + types.LeafNode.Hash of (key, model value); a one-leaf tree's root leaf has no prefix.
func (r *runner) onChainWrite(e idxEntry) bool {
	for _, ce := range r.chain {
		if ce.H == e.H && ce.Saved && ce.W[e.Key] {
			ln := types.LeafNode{Key: []byte(e.Key), Value: []byte(ce.M[e.Key]), Height: 0, Size: 1}
			h := string(ln.Hash())
			if e.Hash == h || e.Hash == fmt.Sprintf("_mb_-%010d-", e.H)+h {
				return true
			}
		}
	}
	return false
}

// rootRecurs: one of the roots was also produced by a Save at a height other than h.
func (r *runner) rootRecurs(roots []string, h int64) bool {
	for _, ev := range r.events {
		if !ev.Saved || ev.H == h {
			continue
		}
		for _, x := range roots {
			if ev.Root == x {
				return true
			}
		}
	}
	return false
}

func (r *runner) tipH() int64 {
	if len(r.chain) == 0 {
		return r.h.Start - 1
	}
	return r.chain[len(r.chain)-1].H
}

func (r *runner) afterPrune(op int, where string) {
	mavldb.VerifBWaitPrune()
	after := r.dbKeys()
	del, delIdx := 0, 0
	p1, p2 := mavldb.VerifBLeafIndexPrefixes()
	for k := range r.kvBefore {
		if _, ok := after[k]; !ok {
			if os.Getenv("VERIF_C05_TRACE") != "" {
				fmt.Fprintf(os.Stderr, "op %d prune cur=%d deleted %q\n", op, r.pruneCur, k)
			}
			if strings.HasPrefix(k, string(p1)) || strings.HasPrefix(k, string(p2)) {
				delIdx++
			} else {
				del++
			}
		}
	}
	r.cnt["node_records_deleted"] += int64(del)
	r.cnt["index_entries_deleted_or_moved"] += int64(delIdx)
	if del > 0 {
		r.deletedAny = true
		r.cnt["prune_runs_that_deleted"]++
	}
	r.check(op, where)
}

func runHistory(h *History, dir string) (res HistResult) {
	r := &runner{h: h, dir: dir, cnt: map[string]int64{}, floor: -1 << 60, lastSaveEv: map[int64]int{}, kvBefore: map[string][]byte{}}
	res.Idx = h.Idx
	ks := map[string]bool{}
	for _, op := range h.Ops {
		for _, kv := range op.KV {
			ks[kv[0]] = true
		}
	}
	for k := range ks {
		r.keys = append(r.keys, k)
	}
	r.keys = append(r.keys, "~never-written", "")
	sort.Strings(r.keys)
	mavldb.VerifBResetGlobals()
	mavldb.VerifBSetPruneGate(gate.fn)
	started0 := gate.count()
	expectedBg := int64(0)
	os.RemoveAll(dir)
	r.open()
	defer func() {
		gate.release()
		if e := recover(); e != nil {
			r.violate(res.OpsDone, "harness-panic", fmt.Sprint(e), nil)
		}
		guard(func() { r.closeStore() })
		os.RemoveAll(dir)
		r.cnt["background_prunes_started_by_store"] = gate.count() - started0
		if gate.count()-started0 != expectedBg && !r.stop && len(r.viols) == 0 {
			r.cnt["autoprune_replica_mismatch"]++
		}
		res.Counters = r.cnt
		res.Viols = r.viols
		res.Adjacent, res.Unexplained = r.adjacent, r.unexplained
		res.Nontrivial = r.deletedAny && r.cnt["reads_compared"] > 0
	}()
	pendingBg := false
	sync := func(op int) {
		if pendingBg {
			r.afterPrune(op, "after the store's background prune")
			pendingBg = false
		}
	}
	for i, op := range h.Ops {
		if len(r.viols) > 0 || r.stop {
			break
		}
		if os.Getenv("VERIF_C05_TRACE") != "" {
			fmt.Fprintf(os.Stderr, "op %d %s d=%d tip=%d floor=%d max=%d\n", i, op.T, op.D, r.tipH(), r.floor, mavldb.VerifBMaxBlockHeight())
			r.snapshot()
		}
		res.OpsDone = i
		switch op.T {
		case "commit":
			d := op.D
			if d < 1 {
				d = 1
			}
			H := r.tipH() + d
			if len(r.chain) == 0 && len(op.KV) == 0 {
				continue
			}
			var parent []byte
			m := map[string]string{}
			if len(r.chain) > 0 {
				tip := r.chain[len(r.chain)-1]
				parent = tip.Root
				for k, v := range tip.M {
					m[k] = v
				}
			}
			set := &types.StoreSet{StateHash: parent, Height: H}
			for _, kv := range op.KV {
				set.KV = append(set.KV, &types.KeyValue{Key: []byte(kv[0]), Value: []byte(kv[1])})
				m[kv[0]] = kv[1]
			}
			saved := len(op.KV) > 0 || h.Cfg.UseSet
			trig := saved && autoPrune(h.Cfg.PH, H)
			if trig || !h.Cfg.Bg {
				sync(i)
			}
			if len(r.viols) > 0 {
				break
			}
			if trig {
				gate.arm()
				expectedBg++
			}
			var root []byte
			var err error
			p := guard(func() {
				if h.Cfg.UseSet {
					root, err = r.st.Set(set, false)
				} else {
					root, err = r.st.MemSet(set, false)
					if err == nil {
						_, err = r.st.Commit(&types.ReqHash{Hash: root})
					}
				}
			})
			if trig {
				// the prune goroutine (if the store started one) waits at the gate: snapshot what it will see
				r.snapshot()
				r.pruneCur = H
				gate.release()
			}
			if p != "" || err != nil || root == nil {
				r.cnt["commit_failures"]++
				r.explainCommitFailure(i, H, fmt.Sprintf("commit at height %d on retained parent@%d failed: panic=%q err=%v", H, r.tipH(), lib.ShortList(strings.Split(p, "\n"), 1), err))
				break
			}
			r.cnt["commits"]++
			if len(op.KV) == 0 {
				r.cnt["commits_without_state_change"]++
				if saved && r.maxEver() >= H {
					r.cnt["recommits_without_writes_through_save"]++
				}
			}
			if d > 1 {
				r.cnt["height_jumps"]++
			}
			if _, used := r.lastSaveEv[H]; used || r.maxEver() >= H {
				r.cnt["recommits_at_used_height"]++
			}
			ev := event{Seq: len(r.events), H: H, Root: string(root), Saved: saved, NoWrites: len(op.KV) == 0}
			r.events = append(r.events, ev)
			if saved {
				r.lastSaveEv[H] = ev.Seq
			}
			w := map[string]bool{}
			for _, kv := range op.KV {
				w[kv[0]] = true
			}
			r.chain = append(r.chain, chainEntry{H: H, Root: root, M: m, Ev: ev.Seq, Saved: saved, W: w})
			if trig {
				r.cnt["prune_runs"]++
				r.cnt["prune_runs_background_trigger"]++
				if H-int64(h.Cfg.PH) > r.floor {
					r.floor = H - int64(h.Cfg.PH)
				}
				if H >= 1000000 {
					r.cnt["prune_runs_second_level"]++
				}
				if h.Cfg.Bg {
					pendingBg = true
					r.cnt["checks_concurrent_with_prune"]++
					r.check(i, "while the store's background prune may be running")
				} else {
					r.afterPrune(i, "after the store's own prune trigger")
				}
			} else {
				if !h.Cfg.Bg {
					mavldb.VerifBWaitPrune()
				}
				r.check(i, "after commit")
			}
		case "rollback":
			sync(i)
			if len(r.viols) > 0 {
				break
			}
			n := int(op.D)
			dropped := 0
			for n > 0 && len(r.chain) > 1 && r.chain[len(r.chain)-1].H > r.floor {
				e := r.chain[len(r.chain)-1]
				r.events[e.Ev].Abandoned = true
				r.chain = r.chain[:len(r.chain)-1]
				n--
				dropped++
			}
			if dropped > 0 {
				r.cnt["rollbacks"]++
				r.cnt["entries_rolled_back"] += int64(dropped)
				r.check(i, "after rollback")
			}
		case "prune":
			sync(i)
			if len(r.viols) > 0 {
				break
			}
			if len(r.chain) == 0 {
				continue
			}
			cur := r.tipH() - op.D
			if cur < r.chain[0].H {
				cur = r.tipH()
			}
			r.snapshot()
			r.pruneCur = cur
			if cur-int64(h.Cfg.PH) > r.floor {
				r.floor = cur - int64(h.Cfg.PH)
			}
			sub := &mavldb.TreeConfig{EnableMavlPrefix: true, EnableMavlPrune: true, PruneHeight: int32(h.Cfg.PH), EnableMemTree: h.Cfg.MemTree, EnableMemVal: h.Cfg.MemVal}
			p := guard(func() { mavldb.PruningTree(r.db, cur, sub) })
			r.cnt["prune_runs"]++
			r.cnt["prune_runs_explicit"]++
			if cur >= 1000000 {
				r.cnt["prune_runs_second_level"]++
			}
			if p != "" {
				r.violate(i, "prune-panic", "PruningTree panicked: "+p, nil)
				break
			}
			r.afterPrune(i, "after PruningTree")
		case "reopen":
			sync(i)
			if len(r.viols) > 0 {
				break
			}
			r.closeStore()
			r.open()
			r.cnt["reopens"]++
			r.check(i, "after reopen")
		}
	}
	if len(r.viols) == 0 && !r.stop {
		res.OpsDone = len(h.Ops)
		sync(len(h.Ops))
		if len(r.viols) == 0 {
			r.closeStore()
			r.open()
			r.cnt["reopens"]++
			r.check(len(h.Ops), "after final reopen")
		}
	}
	return res
}

// explainCommitFailure: a failed commit is not itself a violation of C05 (the property speaks about reads of retained
// states). The retained states are re-checked (loss of live data is reported there); if they are intact the failure is
// explained from the DB: Tree.Save -> DelLeafCountKV walks every root ever recorded at the re-committed height, and a
// dead fork's root whose (unprotected) nodes were pruned makes that walk panic.
func (r *runner) explainCommitFailure(op int, H int64, msg string) {
	mavldb.VerifBWaitPrune()
	r.check(op, "after a failed commit")
	r.stop = true
	if len(r.viols) > 0 {
		return
	}
	// roots of retained states were just checked (intact); every other root recorded at H is unprotected
	onChain := map[string]bool{}
	for _, e := range r.retained() {
		onChain[string(e.Root)] = true
	}
	damaged := 0
	if os.Getenv("VERIF_C05_TRACE") != "" {
		for k := range r.dbKeys() {
			if strings.HasPrefix(k, "_mrhp_") {
				fmt.Fprintf(os.Stderr, "explain: rootrec %q\n", k[:16]+hex.EncodeToString([]byte(k[16:]))[:12])
			}
		}
	}
	it := r.db.Iterator(mavldb.VerifBRootHashPrefix(H), nil, false)
	for it.Rewind(); it.Valid(); it.Next() {
		root, err := mavldb.VerifBRootFromKey(append([]byte{}, it.Key()...))
		if err != nil || onChain[string(root)] {
			continue
		}
		var miss []missNode
		r.walk(root, H, r.rawGet, nil, map[string]struct{}{}, &miss)
		if len(miss) > 0 {
			damaged++
		}
		if os.Getenv("VERIF_C05_TRACE") != "" {
			fmt.Fprintf(os.Stderr, "explain: root at %d %s missing=%d\n", H, printable(string(root)), len(miss))
		}
	}
	it.Close()
	if damaged > 0 && r.maxEver() >= H {
		r.cnt["adjacent_recommit_panics_on_pruned_dead_fork_root"]++
		r.adjacent = append(r.adjacent, fmt.Sprintf("%s; retained states intact; %d unprotected root(s) recorded at height %d (dead fork / state below the retained interval) have pruned nodes (DelLeafCountKV walks them)", msg, damaged, H))
		return
	}
	r.cnt["commit_failures_unexplained"]++
	r.unexplained = append(r.unexplained, msg)
}

func (r *runner) maxEver() int64 {
	m := int64(-1 << 60)
	for _, e := range r.events {
		if e.H > m {
			m = e.H
		}
	}
	return m
}

type batchIn struct {
	Hs []History `json:"hs"`
}

func childHist(in []byte) (any, error) {
	clog.SetLogLevel("crit")
	var b batchIn
	if err := json.Unmarshal(in, &b); err != nil {
		return nil, err
	}
	tmp := os.Getenv("VERIF_TMP")
	var out []HistResult
	for i := range b.Hs {
		out = append(out, runHistory(&b.Hs[i], filepath.Join(tmp, fmt.Sprintf("h%d", b.Hs[i].Idx))))
	}
	return out, nil
}

// multiLeafGenesis: the first commit writes at least two keys (generated histories never contain one-key states;
// the minimiser must not drift into them: a one-leaf tree's root is an unprefixed leaf record, a different mechanism).
func multiLeafGenesis(h *History) bool {
	for _, op := range h.Ops {
		if op.T == "commit" && len(op.KV) > 0 {
			ks := map[string]bool{}
			for _, kv := range op.KV {
				ks[kv[0]] = true
			}
			return len(ks) >= 2
		}
	}
	return false
}

type minIn struct {
	H      History `json:"h"`
	Want   string  `json:"want"`
	Budget int     `json:"budget"`
}

type minOut struct {
	H      History    `json:"h"`
	Reruns int        `json:"reruns"`
	Res    HistResult `json:"res"`
}

// childMin removes operations and key/values (re-running the real code each time) while the set of violation shapes
// and the stratum stay the same.
func childMin(in []byte) (any, error) {
	clog.SetLogLevel("crit")
	var mi minIn
	if err := json.Unmarshal(in, &mi); err != nil {
		return nil, err
	}
	tmp := os.Getenv("VERIF_TMP")
	h := mi.H
	stratum := stratumOf(&h)
	out := minOut{}
	try := func(cand History) bool {
		if out.Reruns >= mi.Budget || stratumOf(&cand) != stratum || !multiLeafGenesis(&cand) {
			return false
		}
		out.Reruns++
		r := runHistory(&cand, filepath.Join(tmp, "min"))
		return shapesOf(r) == mi.Want
	}
	for changed := true; changed; {
		changed = false
		for i := len(h.Ops) - 1; i >= 0; i-- {
			cand := h
			cand.Ops = append(append([]Op{}, h.Ops[:i]...), h.Ops[i+1:]...)
			if try(cand) {
				h = cand
				changed = true
			}
		}
	}
	for i := range h.Ops {
		for j := len(h.Ops[i].KV) - 1; j >= 0 && len(h.Ops[i].KV) > 1; j-- {
			cand := h
			cand.Ops = append([]Op{}, h.Ops...)
			cand.Ops[i].KV = append(append([][2]string{}, h.Ops[i].KV[:j]...), h.Ops[i].KV[j+1:]...)
			if try(cand) {
				h = cand
			}
		}
	}
	out.H = h
	out.Res = runHistory(&h, filepath.Join(tmp, "min"))
	return out, nil
}

// ---------------------------------------------------------------------------------------------
// generators

func fixedWitnesses() []History {
	kv := func(p ...string) [][2]string {
		var o [][2]string
		for i := 0; i+1 < len(p); i += 2 {
			o = append(o, [2]string{p[i], p[i+1]})
		}
		return o
	}
	// F-C05-1 (DESIGN §5): whole-state content returns to an older content; the root record is shared.
	w1 := History{Gen: "witness-F-C05-1", Start: 0, Cfg: Cfg{PH: 2}, Ops: []Op{
		{T: "commit", D: 1, KV: kv("a", "1", "b", "1", "c", "1", "d", "1")},
		{T: "commit", D: 1, KV: kv("b", "2")},
		{T: "commit", D: 1, KV: kv("b", "3")},
		{T: "commit", D: 1, KV: kv("b", "1")},
		{T: "prune"},
	}}
	// F-C05-2 (DESIGN §5): fork A saves k at height 3, branch B has no state change at 3.
	w2 := History{Gen: "witness-F-C05-2", Start: 1, Cfg: Cfg{PH: 2}, Ops: []Op{
		{T: "commit", D: 1, KV: kv("a", "1", "b", "1", "c", "1", "k", "1")},
		{T: "commit", D: 1, KV: kv("a", "2")},
		{T: "commit", D: 1, KV: kv("k", "A")},
		{T: "rollback", D: 1},
		{T: "commit", D: 1},
		{T: "commit", D: 1, KV: kv("b", "u4")},
		{T: "commit", D: 1, KV: kv("b", "u5")},
		{T: "commit", D: 1, KV: kv("b", "u6")},
	}}
	// F-C05-3: fork A produces the same root at heights 1 and 2 (the root record is rewritten at 2); the re-commit of
	// height 1 walks A's "root at 1", finds A@2's leaves and leaves A's index entry k@1 behind.
	w3 := History{Gen: "witness-F-C05-3", Start: 0, Cfg: Cfg{PH: 2}, Ops: []Op{
		{T: "commit", D: 1, KV: kv("z", "1", "k", "2")},
		{T: "commit", D: 1, KV: kv("k", "3")},
		{T: "commit", D: 1, KV: kv("k", "3")},
		{T: "rollback", D: 2},
		{T: "commit", D: 1, KV: kv("x", "u1")},
		{T: "commit", D: 1, KV: kv("y", "u2")},
		{T: "commit", D: 1, KV: kv("x", "u3")},
		{T: "commit", D: 1, KV: kv("x", "u4")},
	}}
	// F-C05-4: memTree keeps the children of an older incarnation of a recurring root record.
	w4 := History{Gen: "witness-F-C05-4", Start: 1, Cfg: Cfg{PH: 2, MemTree: true, UseSet: true}, Ops: []Op{
		{T: "commit", D: 1, KV: kv("k0", "u1", "k00", "u2")},
		{T: "commit", D: 1, KV: kv("k00", "3")},
		{T: "commit", D: 1, KV: kv("k00", "2", "k", "1", "k0", "1")},
		{T: "commit", D: 1, KV: kv("k0", "2")},
		{T: "commit", D: 1, KV: kv("k0", "u3")},
		{T: "commit", D: 1, KV: kv("k00", "2")},
		{T: "commit", D: 3, KV: kv("k0", "1")},
	}}
	// F-C05-5: memTree + re-commit whose path node has the same height-prefixed content key as the dead fork's.
	var w5 History
	if err := json.Unmarshal([]byte(`{"idx": 0, "gen": "witness-F-C05-5", "start": 1, "cfg": {"ph": 2, "memtree": true}, "ops": [{"t": "commit", "d": 1, "kv": [["j", "1"], ["c", "3"]]}, {"t": "commit", "d": 1, "kv": [["a", "2"]]}, {"t": "commit", "d": 1, "kv": [["f", "u5"]]}, {"t": "commit", "d": 1, "kv": [["b", "2"]]}, {"t": "commit", "d": 1, "kv": [["d", "2"]]}, {"t": "commit", "d": 1, "kv": [["f", "2"]]}, {"t": "commit", "d": 1, "kv": [["c", "3"], ["d", "1"]]}, {"t": "rollback", "d": 3}, {"t": "commit", "d": 1, "kv": [["h", "u9"]]}, {"t": "reopen"}, {"t": "commit", "d": 1, "kv": [["b", "u10"]]}, {"t": "commit", "d": 3, "kv": [["i", "1"]]}, {"t": "rollback", "d": 2}, {"t": "commit", "d": 1, "kv": [["g", "1"]]}, {"t": "commit", "d": 1, "kv": [["d", "1"]]}, {"t": "commit", "d": 1, "kv": [["d", "3"]]}, {"t": "commit", "d": 1, "kv": [["c", "3"]]}, {"t": "prune"}]}`), &w5); err != nil {
		panic(err)
	}
	// F-C05-6: memTree + content-identical rewrite (root recurs): the next state is built on the older incarnation.
	w6 := History{Gen: "witness-F-C05-6", Start: 100, Cfg: Cfg{PH: 1, MemTree: true, MemVal: true, UseSet: true}, Ops: []Op{
		{T: "commit", D: 1, KV: kv("k0", "3", "k00", "3")},
		{T: "commit", D: 2, KV: kv("k0", "3")},
		{T: "commit", D: 1, KV: kv("k", "3")},
	}}
	// F-C05-7: a dead fork's index entry that a prune moved to the second level survives the re-commit of its height.
	w7 := History{Gen: "witness-F-C05-7", Start: 499990, Cfg: Cfg{PH: 3}, Ops: []Op{
		{T: "commit", D: 1, KV: kv("p", "1", "q", "1", "r", "1")},
		{T: "commit", D: 6, KV: kv("q", "2")},
		{T: "rollback", D: 1},
		{T: "commit", D: 500006, KV: kv("v", "u1")},
		{T: "rollback", D: 1},
		{T: "commit", D: 6, KV: kv("s", "u2")},
		{T: "commit", D: 500004, KV: kv("x", "u3")},
		{T: "prune"},
	}}
	// guards (clean stratum, must hold): an abandoned height is re-committed WITHOUT writes through Store.Set, which
	// runs Tree.Save and with it the clean-up of the dead fork's index entries (F-C05-2 needs a height that is never
	// saved again; here it is)
	g1 := History{Gen: "guard-recommit-without-writes-through-set", Start: 1, Cfg: Cfg{PH: 2, UseSet: true}, Ops: []Op{
		{T: "commit", D: 1, KV: kv("a", "1", "b", "1", "c", "1", "k", "1")},
		{T: "commit", D: 1, KV: kv("a", "2")},
		{T: "commit", D: 1, KV: kv("k", "A")},
		{T: "rollback", D: 1},
		{T: "commit", D: 1},
		{T: "commit", D: 1, KV: kv("b", "u4")},
		{T: "commit", D: 1, KV: kv("b", "u5")},
		{T: "commit", D: 1, KV: kv("b", "u6")},
		{T: "reopen"},
	}}
	g2 := History{Gen: "guard-recommit-without-writes-through-set-deep", Start: 0, Cfg: Cfg{PH: 3, UseSet: true}, Ops: []Op{
		{T: "commit", D: 1, KV: kv("a", "1", "b", "1", "c", "1", "d", "1", "e", "1")},
		{T: "commit", D: 1, KV: kv("a", "g1")},
		{T: "commit", D: 1, KV: kv("c", "A2", "e", "A2")},
		{T: "commit", D: 1, KV: kv("d", "A3")},
		{T: "rollback", D: 2},
		{T: "commit", D: 1},
		{T: "commit", D: 1},
		{T: "commit", D: 1, KV: kv("b", "g4")},
		{T: "commit", D: 1, KV: kv("b", "g5")},
		{T: "commit", D: 1, KV: kv("a", "g6")},
		{T: "prune"},
		{T: "commit", D: 1, KV: kv("b", "g7")},
		{T: "commit", D: 1, KV: kv("b", "g8")},
		{T: "commit", D: 1, KV: kv("b", "g9")},
		{T: "reopen"},
	}}
	return []History{w1, w2, w3, w4, w5, w6, w7, g1, g2}
}

var keyAlphabets = [][]string{
	{"a", "b", "c", "d", "e", "f", "g", "h", "i", "j", "k", "l", "m", "n", "o", "p", "q", "r", "s", "t", "u", "v", "w", "x"},
	{"k", "k0", "k00", "k0000000001", "k1", "kk", "mavl-a", "mavl-a-", "mavl-a-b", "mavl-b", "z", "z0", "z00", "zz", "zzz", "zzzz"},
	{"acc:1", "acc:2", "acc:3", "acc:10", "acc:11", "tk:1", "tk:2", "..mk..x", "_mb_-y", "é", "\x01", "x\x00y", "x\x7f", "long-key-long-key-long-key-long-key-1", "long-key-long-key-long-key-long-key-2"},
}

func genHistory(rng *lib.Rng, idx int, mode string, large bool) History {
	h := History{Idx: idx, Gen: mode}
	h.Cfg.PH = lib.Pick(rng, []int{1, 2, 2, 3, 3, 5})
	if rng.Chance(25) {
		h.Cfg.MemTree = true
		h.Cfg.MemVal = rng.Bool()
	}
	h.Cfg.UseSet = rng.Chance(25)
	h.Cfg.Bg = rng.Chance(30)
	profile := lib.Pick(rng, []string{"dense", "dense", "dense", "giant"})
	h.Start = int64(lib.Pick(rng, []int{0, 1, 1, 7, 100}))
	if profile == "giant" {
		h.Gen += "/giant"
		h.Start = int64(lib.Pick(rng, []int{1, 499990, 999990}))
	}
	alpha := lib.Pick(rng, keyAlphabets)
	nk := rng.Range(3, len(alpha))
	keys := alpha[:nk]
	if large {
		h.Gen += "/large"
		keys = nil
		n := rng.Range(1050, 1400)
		for i := 0; i < n; i++ {
			keys = append(keys, fmt.Sprintf("key-%05d", i))
		}
		h.Cfg.Bg = false
	}
	nops := rng.Range(10, 45)
	if large {
		nops = rng.Range(12, 16)
	}
	uniq := 0
	// light model for generator decisions
	type ge struct {
		H     int64
		Saved bool
	}
	var chain []ge
	tipH := h.Start - 1
	maxEver := tipH
	outstanding := 0 // abandoned saved heights not yet re-saved (approximation used only to steer the clean stratum)
	floor := int64(-1 << 60)
	val := func() string {
		if mode == "trigger" && rng.Chance(75) {
			return lib.Pick(rng, []string{"1", "2", "3"})
		}
		uniq++
		return fmt.Sprintf("v%d.%d", idx, uniq)
	}
	for len(h.Ops) < nops {
		x := rng.Intn(100)
		switch {
		case len(chain) == 0 || x < 62:
			op := Op{T: "commit", D: 1}
			nkv := rng.Range(1, 4)
			if large {
				nkv = len(keys)
				if len(chain) > 0 {
					nkv = rng.Range(len(keys)/2, len(keys))
				}
			}
			canSkip := mode == "trigger" || (tipH >= maxEver && outstanding == 0)
			recommitting := tipH < maxEver || outstanding > 0
			if len(chain) > 0 && canSkip && rng.Chance(18) {
				nkv = 0
			} else if len(chain) > 0 && h.Cfg.UseSet && recommitting && !large && rng.Chance(40) {
				// Store.Set with an empty write list still runs Tree.Save (leaf-index clean-up of the re-committed
				// height, root record, max height): a no-change re-commit of an abandoned height
				nkv = 0
			}
			if len(chain) > 0 && canSkip && profile == "giant" && rng.Chance(22) {
				op.D = int64(lib.Pick(rng, []int{250000, 499999, 500000, 500001, 750000}))
			} else if len(chain) > 0 && canSkip && rng.Chance(8) {
				op.D = int64(rng.Range(2, 4))
			}
			if len(chain) == 0 {
				nkv = rng.Range(2, nk)
				if large {
					nkv = len(keys)
				}
			}
			perm := rng.Perm(len(keys))
			for j := 0; j < nkv && j < len(perm); j++ {
				op.KV = append(op.KV, [2]string{keys[perm[j]], val()})
			}
			if mode == "clean" && len(op.KV) > 0 {
				// at least one never-seen value keeps whole-state content from recurring
				uniq++
				op.KV[0][1] = fmt.Sprintf("v%d.%d", idx, uniq)
			}
			H := tipH + op.D
			saved := len(op.KV) > 0 || h.Cfg.UseSet
			chain = append(chain, ge{H, saved})
			tipH = H
			if H > maxEver {
				maxEver = H
				outstanding = 0
			}
			if saved && autoPrune(h.Cfg.PH, H) && H-int64(h.Cfg.PH) > floor {
				floor = H - int64(h.Cfg.PH)
			}
			h.Ops = append(h.Ops, op)
		case x < 76:
			if len(chain) < 2 {
				continue
			}
			n := rng.Range(1, 3)
			if mode == "clean" && h.Cfg.PH < n {
				n = h.Cfg.PH
			}
			h.Ops = append(h.Ops, Op{T: "rollback", D: int64(n)})
			for n > 0 && len(chain) > 1 && chain[len(chain)-1].H > floor {
				if chain[len(chain)-1].Saved {
					outstanding++
				}
				chain = chain[:len(chain)-1]
				n--
			}
			tipH = chain[len(chain)-1].H
		case x < 92:
			if mode == "clean" && (tipH < maxEver || outstanding > 0) {
				continue
			}
			op := Op{T: "prune"}
			if rng.Chance(15) {
				op.D = 1
			}
			cur := tipH - op.D
			if cur-int64(h.Cfg.PH) > floor {
				floor = cur - int64(h.Cfg.PH)
			}
			h.Ops = append(h.Ops, op)
		default:
			h.Ops = append(h.Ops, Op{T: "reopen"})
		}
	}
	return h
}

// ---------------------------------------------------------------------------------------------
// parent

func runBatch(c *lib.Ctx, hs []History) []HistResult {
	res := c.Child("hist", batchIn{Hs: hs}, lib.ChildOpts{Timeout: 8 * time.Minute})
	var out []HistResult
	if !res.Died && json.Unmarshal(res.Out, &out) == nil && len(out) == len(hs) {
		return out
	}
	if len(hs) == 1 {
		if res.TimedOut {
			c.Inconclusive("history %d: watchdog fired", hs[0].Idx)
			return nil
		}
		// the process died: a panic outside the monitored calls (e.g. in the background prune goroutine)
		return []HistResult{{Idx: hs[0].Idx, Counters: map[string]int64{"child_deaths": 1},
			Viols: []Viol{{Shape: "process-died", Msg: "child died: " + lib.ShortList(strings.Split(res.Stderr, "\n"), 12)}}}}
	}
	// re-run one by one to attribute the death
	for i := range hs {
		out = append(out, runBatch(c, hs[i:i+1])...)
	}
	return out
}

func shapesOf(r HistResult) string {
	var s []string
	for _, v := range r.Viols {
		s = append(s, v.Shape)
	}
	sort.Strings(s)
	return strings.Join(s, ",")
}

// minimise delegates to one child process that re-runs candidate histories in-process.
func minimise(c *lib.Ctx, h History, want string, budget int) (History, *HistResult) {
	res := c.Child("min", minIn{H: h, Want: want, Budget: budget}, lib.ChildOpts{Timeout: 4 * time.Minute})
	var mo minOut
	if res.Died || json.Unmarshal(res.Out, &mo) != nil || len(mo.H.Ops) == 0 || shapesOf(mo.Res) != want {
		return h, nil
	}
	c.Count("minimisation_reruns", int64(mo.Reruns))
	return mo.H, &mo.Res
}

func run(c *lib.Ctx) {
	c.Rule("each case is one generated commit history (forks = rollback of 1-3 chain entries followed by re-commits at used heights, heights without state change, " +
		"height jumps incl. beyond 500000/1000000/1500000, values returning to earlier values, prune interval 1-5, explicit PruningTree at the tip or one below, the store's own " +
		"background trigger, MemSet+Commit or Set, memTree on/off, reopen) executed on the real mavl.Store over LevelDB; after EVERY operation every key of every retained state " +
		"(tip, chain entries within PruneHeight below the tip, and the entry in effect at that bound; never below max(prune curHeight)-PruneHeight) is read with Store.Get and compared with the model, " +
		"and the persisted node graph of every retained root is walked on the raw DB. non-trivial = at least one prune run of the history deleted node records and reads were compared; " +
		"strata: 'clean' = the history itself (checked by a predicate over the operation list) never re-creates an earlier whole-state content and never prunes while a height saved on an abandoned branch was not saved again; 'trigger' = the rest")
	c.Assume("a state below max over prune runs of (curHeight-PruneHeight) is not required to stay readable after the tip moved down (pruning cannot be undone); rollbacks are generated within that bound",
		"prune curHeight is the tip height or one below (the store itself always passes the height being committed)",
		"reads concurrent with the background prune are checked, rollbacks wait for a running prune (a reorganisation below curHeight-PruneHeight is outside the protected interval anyway)")

	type job struct {
		h       History
		stratum string
	}
	var jobs []job
	idx := 0
	for _, w := range fixedWitnesses() {
		w.Idx = idx
		jobs = append(jobs, job{w, stratumOf(&w)})
		idx++
	}
	nClean, nTrig, nLarge := c.N(110, 2000), c.N(70, 1100), c.N(0, 16)
	if c.Quick() {
		nLarge = 0
	}
	for i := 0; i < nClean+nTrig+nLarge; i++ {
		mode := "clean"
		if i >= nClean && i < nClean+nTrig {
			mode = "trigger"
		}
		large := i >= nClean+nTrig
		if large && i%2 == 1 {
			mode = "trigger"
		}
		rng := c.CaseRng("hist", idx)
		h := genHistory(rng.Fork(), idx, mode, large)
		for try := 0; try < 8 && stratumOf(&h) != mode; try++ {
			h = genHistory(rng.Fork(), idx, mode, large)
		}
		jobs = append(jobs, job{h, stratumOf(&h)})
		idx++
	}
	var run []job
	only := os.Getenv("VERIF_C05_ONLY")
	for _, j := range jobs {
		if only != "" && only != fmt.Sprint(j.h.Idx) {
			continue
		}
		if only != "" {
			fmt.Fprintf(os.Stderr, "HISTORY %s\n", lib.JSON(batchIn{Hs: []History{j.h}}))
		}
		if !c.Skip(j.h.Idx) {
			run = append(run, j)
		}
	}
	t0 := time.Now()
	const batch = 6
	nb := (len(run) + batch - 1) / batch
	results := make([]HistResult, len(jobs))
	have := make([]bool, len(jobs))
	var mu sync.Mutex
	lib.Parallel(nb, 14, func(b int) {
		lo, hi := b*batch, (b+1)*batch
		if hi > len(run) {
			hi = len(run)
		}
		var hs []History
		for _, j := range run[lo:hi] {
			hs = append(hs, j.h)
		}
		for _, r := range runBatch(c, hs) {
			mu.Lock()
			results[r.Idx], have[r.Idx] = r, true
			mu.Unlock()
		}
	})
	c.Extra("wall_histories_s", time.Since(t0).Seconds())
	minimised := map[string]bool{}
	knownSeen := map[string]bool{}
	var adjacentSamples []any
	for _, j := range jobs {
		if !have[j.h.Idx] {
			continue
		}
		r := results[j.h.Idx]
		for k, v := range r.Counters {
			c.Count(k, v)
		}
		c.Count("histories_"+j.stratum, 1)
		c.Count("operations", int64(r.OpsDone))
		c.Case(lib.Fingerprint(j.h), r.Nontrivial, map[string]any{"history": j.h, "stratum": j.stratum, "counters": r.Counters})
		if r.Nontrivial {
			c.Count("nontrivial_"+j.stratum, 1)
		}
		for _, a := range r.Adjacent {
			if c.SeenCount("adjacent_samples") < 2 {
				c.Seen("adjacent_samples", a)
				adjacentSamples = append(adjacentSamples, map[string]any{"history_idx": j.h.Idx, "cfg": j.h.Cfg, "what": a})
			}
		}
		for _, u := range r.Unexplained {
			// a failed commit is not itself a violation of C05 (the statement speaks about reads of retained states, which
			// explainCommitFailure re-checked and found intact before it gave up explaining): the history ends there, the
			// failure is counted and sampled in the evidence as an adjacent observation, and the verdict stays with the
			// retained-state oracle
			c.Count("commit_failures_with_intact_retained_states_not_explained", 1)
			if c.SeenCount("adjacent_samples") < 4 {
				c.Seen("adjacent_samples", u)
				adjacentSamples = append(adjacentSamples, map[string]any{"history_idx": j.h.Idx, "cfg": j.h.Cfg, "what": "commit failed, retained states intact, cause not identified by the monitor: " + u})
			}
		}
		if len(r.Viols) == 0 {
			continue
		}
		c.Count("violating_histories_"+j.stratum, 1)
		want := shapesOf(r)
		wit := j.h
		known := true
		for _, p := range strings.Split(want, ",") {
			known = known && recordedShapes[p]
		}
		if !minimised[want] || !known {
			if !strings.HasPrefix(j.h.Gen, "witness-") && len(minimised) < 12 {
				// the minimised history must stay in its stratum, otherwise removal could manufacture a trigger
				if want != "process-died" {
					if w, mr := minimise(c, j.h, want, 150); mr != nil && stratumOf(&w) == j.stratum {
						wit, r = w, *mr
					}
				}
			}
			minimised[want] = true
		}
		for _, v := range r.Viols {
			shape := v.Shape
			if j.stratum == "clean" {
				shape = "clean-stratum:" + shape
			}
			c.Seen("violation_shapes", shape)
			knownSeen[shape] = true
			c.Violation(j.h.Idx, shape, map[string]any{"history": wit, "original_ops": len(j.h.Ops), "stratum": j.stratum, "op": v.Op, "facts": v.Facts},
				"history %d (%s, stratum %s, cfg %s) %s", j.h.Idx, j.h.Gen, j.stratum, lib.JSON(j.h.Cfg), v.Msg)
		}
	}
	c.Extra("adjacent_failures_not_deciding", adjacentSamples)
	c.Extra("known_witness_reproduced", map[string]bool{"F-C05-1": knownSeen[shapeSharedRoot], "F-C05-2": knownSeen[shapeStaleFork],
		"F-C05-3": knownSeen[shapeStaleSurvived], "F-C05-4": knownSeen[shapeMemTree], "F-C05-5": knownSeen[shapeMemTreeRecommit],
		"F-C05-6": knownSeen[shapeMemTreeBuild], "F-C05-7": knownSeen[shapeStaleSecondLevel]})
	c.RequireEvents("reads_compared", 2000)
	c.RequireEvents("prune_runs_that_deleted", 20)
	c.RequireEvents("recommits_at_used_height", 10)
	c.RequireEvents("recommits_without_writes_through_save", 5)
}

func main() {
	lib.RegisterChild("hist", childHist)
	lib.RegisterChild("min", childMin)
	lib.Main("C05", "exploration", run)
}
