// C34: light blocks are rebuilt exactly or fall back.
//
// Each child process runs ONE real node (broadcast protocol on an in-process libp2p host with real gossipsub, the real
// mempool on the queue, harness responders for blockchain/execs) and two sender peers. A case = a generated block
// (groups at chosen positions), a subset of its pool units (single transactions and whole groups) present in the pool
// when the light block arrives, and an arrival plan for the missing ones (before the pending timeout / only after the
// node asked for the full block). The light block is built by the real sender-side code and travels through pubsub.
// Monitors: every block handed to the blockchain topic (must be byte-identical to the original) and every peer message
// the senders receive (block requests).
package main

import (
	"encoding/json"
	"fmt"
	"os"
	"path/filepath"
	"runtime"
	"sort"
	"strings"
	"sync"
	"time"

	"github.com/33cn/chain33/types"

	"verifharness/lib"
	"verifharness/p2penv"
)

const (
	pendTimeoutMs = 1000 // configured pending timeout (also the repository default)
	tickMs        = 200  // pendBlockLoop period
)

type caseSpec struct {
	Idx     int    `json:"idx"`
	Shape   []int  `json:"shape"` // unit sizes after the miner tx: 1 = single tx, k>=2 = group of k
	Avail   []bool `json:"avail"` // unit present in the pool when the light block arrives
	Mode    string `json:"mode"`  // all | before | after
	DelayMs int    `json:"delay_ms"`
	Late    bool   `json:"late"` // mode after: missing units enter the pool after the request was seen
	Sender  int    `json:"sender"`
}

type childIn struct {
	Seed  uint64     `json:"seed"`
	Cases []caseSpec `json:"cases"`
	Conc  int        `json:"conc"`
}

type caseOut struct {
	Idx        int    `json:"idx"`
	Verdict    string `json:"verdict"` // ok | violation | discarded | inconclusive
	Shape      string `json:"shape,omitempty"`
	Msg        string `json:"msg,omitempty"`
	Posts      int    `json:"posts"`
	Requests   int    `json:"requests"`
	FromPool   int    `json:"from_pool"` // txs the rebuild had to take from the pool
	PendedMs   int64  `json:"pended_ms"` // time between publication and the post / request
	ArrivedMs  int64  `json:"arrived_ms"`
	Fallback   bool   `json:"fallback"`
	WasPending bool   `json:"was_pending"`
}

type childOut struct {
	Cases    []caseOut        `json:"cases"`
	Counters map[string]int64 `json:"counters"`
	Fatal    string           `json:"fatal,omitempty"`
}

func shapeStr(s []int) string {
	var p []string
	for _, k := range s {
		p = append(p, fmt.Sprint(k))
	}
	return strings.Join(p, ".")
}

func availStr(a []bool) string {
	b := make([]byte, len(a))
	for i, v := range a {
		b[i] = '0'
		if v {
			b[i] = '1'
		}
	}
	return string(b)
}

// groupPosClass classifies where groups sit (first after miner / last / middle / none).
func groupPosClass(s []int) string {
	var c []string
	for i, k := range s {
		if k < 2 {
			continue
		}
		switch {
		case i == 0 && i == len(s)-1:
			c = append(c, "only")
		case i == 0:
			c = append(c, "first")
		case i == len(s)-1:
			c = append(c, "last")
		default:
			c = append(c, "mid")
		}
	}
	if len(c) == 0 {
		return "none"
	}
	return strings.Join(c, "+")
}

// ---------------------------------------------------------------------------------------------
// child

type unit struct {
	txs  []*types.Transaction // as in the block
	pool *types.Transaction   // form submitted to the pool
}

func child(in []byte) (any, error) {
	var ci childIn
	if err := json.Unmarshal(in, &ci); err != nil {
		return nil, err
	}
	out := &childOut{Counters: map[string]int64{}}
	n := p2penv.NewNode(p2penv.Opts{LtPendTimeoutMs: pendTimeoutMs})
	defer n.Close()
	if n.Bc.PendTimeoutMs() != pendTimeoutMs {
		out.Fatal = fmt.Sprintf("effective pending timeout %d", n.Bc.PendTimeoutMs())
		return out, nil
	}
	var senders []*p2penv.Peer
	for i := 0; i < 2; i++ {
		p := p2penv.NewPeer(n.Ctx, fmt.Sprintf("sender-%d-%d", ci.Seed, i), true)
		if err := n.Connect(p.Host); err != nil {
			out.Fatal = "connect: " + err.Error()
			return out, nil
		}
		if err := p.ListenOwn(); err != nil {
			out.Fatal = "listen: " + err.Error()
			return out, nil
		}
		if err := p.Join(p2penv.TopicLtBlock); err != nil {
			out.Fatal = "join: " + err.Error()
			return out, nil
		}
		senders = append(senders, p)
	}
	for _, p := range senders {
		if err := p2penv.WaitTopicLink(n, p, p2penv.PeerTopic(p.ID()), []string{p2penv.TopicLtBlock}, 60*time.Second); err != nil {
			out.Fatal = err.Error()
			return out, nil
		}
	}
	gen := p2penv.NewTxGen(n.Cfg, fmt.Sprintf("c34-%d", ci.Seed))
	res := make([]caseOut, len(ci.Cases))
	var mu sync.Mutex
	cnt := func(k string, v int64) { mu.Lock(); out.Counters[k] += v; mu.Unlock() }
	conc := ci.Conc
	if conc < 1 {
		conc = 1
	}
	lib.Parallel(len(ci.Cases), conc, func(k int) {
		res[k] = runCase(n, senders, gen, ci.Cases[k], int64(1000+k), cnt)
	})
	// final scan: a request for a height whose case completed from the pool before the timeout
	out.Cases = res
	return out, nil
}

func runCase(n *p2penv.Node, senders []*p2penv.Peer, gen *p2penv.TxGen, cs caseSpec, height int64, cnt func(string, int64)) caseOut {
	co := caseOut{Idx: cs.Idx, Verdict: "ok"}
	fail := func(shape, f string, a ...any) caseOut {
		co.Verdict, co.Shape, co.Msg = "violation", shape, fmt.Sprintf(f, a...)
		return co
	}
	incon := func(f string, a ...any) caseOut {
		co.Verdict, co.Msg = "inconclusive", fmt.Sprintf(f, a...)
		return co
	}
	// build the block
	txs := []*types.Transaction{gen.Tx()} // miner tx
	var units []unit
	for _, k := range cs.Shape {
		if k < 2 {
			tx := gen.Tx()
			units = append(units, unit{txs: []*types.Transaction{tx}, pool: tx})
			txs = append(txs, tx)
		} else {
			ms, ptx := gen.Group(k)
			units = append(units, unit{txs: ms, pool: ptx})
			txs = append(txs, ms...)
		}
	}
	block := p2penv.MakeBlock(n.Cfg, height, []byte("parent"), types.Now().Unix(), txs)
	hashHex := fmt.Sprintf("%x", block.Hash(n.Cfg))
	var missing []unit
	for i, u := range units {
		if cs.Avail[i] {
			if ok, msg := n.SendTx(u.pool); !ok {
				return incon("pool refused an available unit of case %d: %s", cs.Idx, msg)
			}
			co.FromPool += len(u.txs)
		} else {
			missing = append(missing, u)
		}
	}
	snd, other := senders[cs.Sender%2], senders[(cs.Sender+1)%2]
	lt := n.Bc.BuildLtBlock(block)
	raw := n.Bc.Encode(lt)
	mine := func(p *p2penv.Posted) bool { return p.Block != nil && p.Block.Height == height }
	reqFor := func(m *p2penv.PeerMsg) bool {
		if m.MsgID != p2penv.BlockReqMsgID {
			return false
		}
		var r types.ReqInt
		return types.Decode(m.Body, &r) == nil && r.Height == height
	}
	tPub := time.Now()
	if err := snd.Publish(p2penv.TopicLtBlock, raw); err != nil {
		return incon("publish: %v", err)
	}
	cnt("light_blocks_published", 1)
	// delivery witness: the receive path has put the block hash into the block filter
	seenDeadline := time.Now().Add(30 * time.Second)
	for !n.Bc.BlockSeen(hashHex) {
		if time.Now().After(seenDeadline) {
			return incon("light block of case %d not delivered by pubsub within 30 s", cs.Idx)
		}
		time.Sleep(2 * time.Millisecond)
	}
	bound := time.Duration(pendTimeoutMs*5+5000) * time.Millisecond // generous multiple of the configured timeout
	checkPosts := func() (int, string) {
		k := 0
		for _, p := range n.Chain.Snapshot(0) {
			if !mine(p) {
				continue
			}
			k++
			if same, diff := p2penv.SameBlock(n.Cfg, p.Block, block); !same {
				return k, diff
			}
		}
		return k, ""
	}
	switch cs.Mode {
	case "all":
		p := n.Chain.WaitPosted(mine, bound)
		if p == nil {
			return fail("not-rebuilt/all-available/groups="+groupPosClass(cs.Shape), "every transaction of the light block (shape %s) was in the pool, but no block was handed to the blockchain within %v", shapeStr(cs.Shape), bound)
		}
		co.PendedMs = p.At.Sub(tPub).Milliseconds()
	case "before":
		co.WasPending = n.Bc.PendLen() > 0
		time.Sleep(time.Duration(cs.DelayMs) * time.Millisecond)
		for _, u := range missing {
			if ok, msg := n.SendTx(u.pool); !ok {
				return incon("pool refused a late unit: %s", msg)
			}
		}
		co.ArrivedMs = time.Since(tPub).Milliseconds()
		for _, u := range missing {
			co.FromPool += len(u.txs)
		}
		if co.ArrivedMs > pendTimeoutMs*6/10 {
			co.Verdict = "discarded"
			co.Msg = fmt.Sprintf("arrival took %d ms (> 60%% of the timeout): machine too slow for a before-timeout case", co.ArrivedMs)
			return co
		}
		p := n.Chain.WaitPosted(mine, bound)
		if p == nil {
			return fail("not-completed-after-arrival/groups="+groupPosClass(cs.Shape), "missing units %s of shape %s entered the pool %d ms after the light block (timeout %d ms) but the block was not completed within %v (requests to sender: %d)",
				availStr(cs.Avail), shapeStr(cs.Shape), co.ArrivedMs, pendTimeoutMs, bound, countReq(snd, reqFor)+countReq(other, reqFor))
		}
		co.PendedMs = p.At.Sub(tPub).Milliseconds()
	case "after":
		co.WasPending = n.Bc.PendLen() > 0
		m := snd.WaitInbox(reqFor, bound)
		if m == nil {
			if other.WaitInbox(reqFor, 0) != nil {
				return fail("request-to-wrong-peer", "the full block of height %d was requested from a peer that is not the sender", height)
			}
			if k, _ := checkPosts(); k > 0 {
				return fail("posted-with-missing-txs", "a block was handed to the blockchain although units %s were never in the pool", availStr(cs.Avail))
			}
			return fail("no-request-after-timeout/groups="+groupPosClass(cs.Shape), "units %s of shape %s never arrived; no block request reached the sender within %v (timeout %d ms)", availStr(cs.Avail), shapeStr(cs.Shape), bound, pendTimeoutMs)
		}
		co.PendedMs = m.At.Sub(tPub).Milliseconds()
		if k, _ := checkPosts(); k > 0 {
			return fail("posted-with-missing-txs", "a block was handed to the blockchain before the missing units %s arrived", availStr(cs.Avail))
		}
		if cs.Late {
			for _, u := range missing {
				n.SendTx(u.pool)
			}
		}
		// fall back: the sender answers with the full block
		resp := &types.PeerPubSubMsg{MsgID: p2penv.BlockRespMsgID, ProtoMsg: types.Encode(block)}
		if err := snd.Publish(p2penv.PeerTopic(n.Host.ID()), p2penv.Snap(resp)); err == nil {
			if n.Chain.WaitPosted(mine, 20*time.Second) != nil {
				co.Fallback = true
			}
		}
	}
	// every post of this height must be the original block
	k, diff := checkPosts()
	co.Posts = k
	if diff != "" {
		return fail("rebuilt-differs/groups="+groupPosClass(cs.Shape), "rebuilt block differs from the original: %s (shape %s, available %s, mode %s)", diff, shapeStr(cs.Shape), availStr(cs.Avail), cs.Mode)
	}
	co.Requests = countReq(snd, reqFor) + countReq(other, reqFor)
	if cs.Mode != "after" && co.Requests > 0 {
		return fail("request-before-timeout", "the node requested the full block although every missing unit had arrived %d ms after the light block (timeout %d ms)", co.ArrivedMs, pendTimeoutMs)
	}
	if countReq(other, reqFor) > 0 {
		return fail("request-to-wrong-peer", "the full block of height %d was requested from a peer that is not the sender", height)
	}
	return co
}

func countReq(p *p2penv.Peer, pred func(m *p2penv.PeerMsg) bool) int {
	k := 0
	for _, m := range p.Inbox() {
		if pred(m) {
			k++
		}
	}
	return k
}

// ---------------------------------------------------------------------------------------------
// parent

func subsets(u int) [][]bool {
	var out [][]bool
	for m := 0; m < 1<<u; m++ {
		a := make([]bool, u)
		for i := 0; i < u; i++ {
			a[i] = m>>i&1 == 1
		}
		out = append(out, a)
	}
	return out
}

func allShapes(maxU int, sizes []int) [][]int {
	var out [][]int
	var rec func(cur []int)
	rec = func(cur []int) {
		if len(cur) > 0 {
			out = append(out, append([]int(nil), cur...))
		}
		if len(cur) == maxU {
			return
		}
		for _, s := range sizes {
			rec(append(cur, s))
		}
	}
	rec(nil)
	return out
}

func genCases(c *lib.Ctx) []caseSpec {
	var cases []caseSpec
	rng := c.CaseRng("cases", 0)
	add := func(shape []int, avail []bool, modes ...string) {
		full := true
		for _, a := range avail {
			full = full && a
		}
		if full {
			cases = append(cases, caseSpec{Shape: shape, Avail: avail, Mode: "all", Sender: rng.Intn(2)})
			return
		}
		for _, m := range modes {
			cs := caseSpec{Shape: shape, Avail: avail, Mode: m, Sender: rng.Intn(2)}
			if m == "before" {
				// either immediately, or after at least one tick of the pending loop (but far below the timeout)
				cs.DelayMs = lib.Pick(rng, []int{0, 0, tickMs + 30 + rng.Intn(100)})
			} else {
				cs.Late = rng.Bool()
			}
			cases = append(cases, cs)
		}
	}
	pickMode := func() string { return lib.Pick(rng, []string{"before", "after"}) }
	if c.Quick() {
		// every shape over sizes {1,2,3} with <= 2 units, a fixed set of 3/4-unit shapes covering every group position: all subsets
		shapes := allShapes(2, []int{1, 2, 3})
		shapes = append(shapes, []int{1, 2, 1}, []int{2, 1, 2}, []int{1, 1, 3}, []int{3, 1, 1}, []int{2, 2, 2}, []int{1, 2, 2, 1}, []int{2, 1, 1, 2}, []int{1, 1, 1, 1})
		for _, s := range shapes {
			for _, a := range subsets(len(s)) {
				if len(s) <= 2 {
					add(s, a, "before", "after")
				} else {
					add(s, a, pickMode())
				}
			}
		}
		// one 8-unit shape: every availability subset, alternating mode
		s8 := []int{2, 1, 1, 3, 1, 1, 1, 2}
		for i, a := range subsets(8) {
			if i%4 == int(c.Seed%4) || i == 255 {
				add(s8, a, pickMode())
			}
		}
		// sampled larger blocks (more than 8 units)
		for i := 0; i < 24; i++ {
			u := 9 + rng.Intn(16)
			s := make([]int, u)
			a := make([]bool, u)
			for j := range s {
				s[j] = lib.Pick(rng, []int{1, 1, 1, 2, 3, 5})
				a[j] = rng.Chance(70)
			}
			if rng.Chance(50) {
				s[u-1] = 2 + rng.Intn(3)
			}
			if rng.Chance(50) {
				s[0] = 2 + rng.Intn(3)
			}
			add(s, a, pickMode())
		}
	} else {
		for _, s := range allShapes(5, []int{1, 2, 3}) {
			for _, a := range subsets(len(s)) {
				add(s, a, "before", "after")
			}
		}
		for k := 0; k < 10; k++ {
			s := make([]int, 8)
			for j := range s {
				s[j] = lib.Pick(rng, []int{1, 1, 2, 3})
			}
			if k%2 == 0 {
				s[7] = 2
			} else {
				s[0] = 3
			}
			for _, a := range subsets(8) {
				add(s, a, pickMode())
			}
		}
		for i := 0; i < 4000; i++ {
			u := 5 + rng.Intn(36)
			s := make([]int, u)
			a := make([]bool, u)
			for j := range s {
				s[j] = lib.Pick(rng, []int{1, 1, 1, 2, 3, 5, 20})
				a[j] = rng.Chance(75)
			}
			add(s, a, pickMode())
		}
	}
	for i := range cases {
		cases[i].Idx = i
	}
	return cases
}

func run(c *lib.Ctx) {
	c.Rule("case = (block shape: unit sizes after the miner tx, 1 = single tx, k = group of k; availability subset of the units in the real pool when the light block arrives; arrival plan). " +
		"Quick: every shape over {1,2,3} with <=2 units and 8 fixed 3/4-unit shapes with every availability subset, one 8-unit shape with a quarter of its 256 subsets (chosen by the seed), 24 sampled larger blocks; " +
		"thorough: every shape with <=5 units x every subset x both arrival plans, ten 8-unit shapes x all 256 subsets, 4000 sampled larger blocks (groups up to 20). " +
		"The light block is built by the sender-side buildLtBlock and published through gossipsub by one of two sender peers; missing units enter the pool either before the pending timeout " +
		"(immediately or after >= 1 tick of the pending loop, measured arrival <= 60% of the timeout, else the case is discarded) or only after the block request reached the sender. " +
		"Oracle: every block handed to the blockchain topic for the case's height must be byte-identical to the original (transactions, positions, hash); all available => a post; " +
		"missing + arrival before timeout => a post and no request; missing => no post before arrival and, after the timeout, a block request for that height on the SENDER's peer topic. " +
		"non-trivial = the rebuild took >= 1 transaction from the pool or the node had to ask the sender; fingerprint = (shape, availability, plan)")
	c.Assume(fmt.Sprintf("progress clauses restated as bounded: post / request expected within %d ms (5 x the configured %d ms timeout + 5 s); wall clock is otherwise used only to discard before-timeout cases that the machine executed too slowly", pendTimeoutMs*5+5000, pendTimeoutMs),
		"blocks are well formed: header tx count = number of short hashes = number of transactions, groups are complete and contiguous",
		"a group is available in the pool as one unit (the pool stores a group under its head transaction)")
	cases := genCases(c)
	nChildren := 16
	if runtime.NumCPU() < nChildren {
		nChildren = runtime.NumCPU()
	}
	if c.OnlyIdx >= 0 {
		nChildren = 1
	}
	buckets := make([][]caseSpec, nChildren)
	k := 0
	for _, cs := range cases {
		if c.Skip(cs.Idx) {
			continue
		}
		buckets[k%nChildren] = append(buckets[k%nChildren], cs)
		k++
	}
	var mu sync.Mutex
	byIdx := map[int]caseSpec{}
	for _, cs := range cases {
		byIdx[cs.Idx] = cs
	}
	lib.Parallel(nChildren, nChildren, func(b int) {
		if len(buckets[b]) == 0 {
			return
		}
		in := childIn{Seed: uint64(c.Seed)*1000 + uint64(b), Cases: buckets[b], Conc: 6}
		logCases(c, b, in)
		res := c.Child("node", in, lib.ChildOpts{Timeout: 20 * time.Minute})
		mu.Lock()
		defer mu.Unlock()
		c.Count("children", 1)
		if res.TimedOut {
			c.Inconclusive("child %d: watchdog fired after %d ms", b, res.WallMs)
			return
		}
		var out childOut
		if res.Died || res.Out == nil || json.Unmarshal(res.Out, &out) != nil {
			c.Inconclusive("child %d died (exit %d) outside the oracle: %s", b, res.ExitCode, firstLines(res.Stderr, 15))
			return
		}
		if out.Fatal != "" {
			c.Inconclusive("child %d: %s", b, out.Fatal)
			return
		}
		for k, v := range out.Counters {
			c.Count(k, v)
		}
		for _, co := range out.Cases {
			cs := byIdx[co.Idx]
			fp := lib.Fingerprint([]any{cs.Shape, cs.Avail, cs.Mode, cs.DelayMs > 0, cs.Late})
			switch co.Verdict {
			case "discarded":
				c.Count("cases_discarded_slow_machine", 1)
				continue
			case "inconclusive":
				c.Count("cases_inconclusive", 1)
				c.Inconclusive("case %d: %s", co.Idx, co.Msg)
				continue
			case "violation":
				c.Violation(co.Idx, co.Shape, map[string]any{"case": cs, "observed": co}, "case %d: %s", co.Idx, co.Msg)
			}
			nontrivial := co.FromPool > 0 && co.Posts > 0 || co.Requests > 0
			c.Case(fp, nontrivial, map[string]any{"case": cs, "observed": co})
			c.Count("cases_"+cs.Mode, 1)
			c.Count("blocks_posted", int64(co.Posts))
			c.Count("block_requests_seen_by_sender", int64(co.Requests))
			c.Count("txs_taken_from_pool", int64(co.FromPool))
			if co.Fallback {
				c.Count("fallback_full_block_posted", 1)
			}
			if co.WasPending {
				c.Count("cases_observed_in_pending_list", 1)
			}
			if co.Posts > 0 && cs.Mode != "after" {
				c.Count("rebuilt_blocks_compared", 1)
			}
			c.Seen("group_positions", groupPosClass(cs.Shape))
			c.Seen("shapes", shapeStr(cs.Shape))
			if cs.Mode == "before" && cs.DelayMs > 0 {
				c.Count("before_cases_spanning_a_tick", 1)
			}
		}
	})
	c.Extra("configured_pend_timeout_ms", pendTimeoutMs)
	c.Extra("cases_generated", len(cases))
	if c.Replay == "" {
		c.RequireEvents("rebuilt_blocks_compared", 50)
		c.RequireEvents("block_requests_seen_by_sender", 20)
		if d := c.Counter("cases_discarded_slow_machine"); d*5 > int64(len(cases)) {
			c.Inconclusive("%d of %d cases discarded: machine too slow for the before-timeout plans", d, len(cases))
		}
	}
}

func logCases(c *lib.Ctx, b int, in childIn) {
	dir := filepath.Join(c.Tmp, "cases")
	os.MkdirAll(dir, 0o755)
	bs, _ := json.Marshal(in)
	os.WriteFile(filepath.Join(dir, fmt.Sprintf("child-%d.json", b)), bs, 0o644)
}

func firstLines(s string, n int) string {
	ls := strings.Split(s, "\n")
	if len(ls) > n {
		ls = ls[:n]
	}
	return strings.Join(ls, "\n")
}

var _ = sort.Strings

func main() {
	lib.RegisterChild("node", child)
	lib.Main("C34", "exploration", run)
}
