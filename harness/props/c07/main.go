// C07: paged listing returns every live entry exactly once.
//
// Generated key sets (shared prefixes, tombstones = empty values, prefixes ending in 0xff, keys
// just outside the prefix on both sides) are stored in a plain DB, in a stack of DBs behind
// db.NewMergedIteratorDB, or in the layers of a db.LocalDB (base / committed overlay / open tx).
// Every prefix is listed page by page with every page size 1..m+1, ascending and descending, in all
// three result encodings, each request continuing after the last returned key until an empty page;
// the concatenation must equal the model (sorted live entries under the prefix); PrefixCount must
// equal the number of live entries.
package main

import (
	"bytes"
	"fmt"
	"os"
	"path/filepath"
	"runtime/debug"
	"sort"
	"strings"
	"sync"
	"sync/atomic"

	dbm "github.com/33cn/chain33/common/db"
	"github.com/33cn/chain33/common/log/log15"
	"github.com/33cn/chain33/types"
	"verifharness/lib"
)

// ---------------------------------------------------------------------------------------------
// case description

type Entry struct {
	K []byte `json:"k"`
	V []byte `json:"v"` // empty = tombstone
}

// Layers are listed top (newest) first. Stream "plain": one layer. "merged": 2..3 layers behind
// NewMergedIteratorDB. "local": LocalDB; layers = [tx?, overlay, base].
type Case struct {
	Stream   string    `json:"stream"`
	Backend  string    `json:"backend"` // backend of the bottom layer (memdb | goleveldb); upper layers are memdb
	Layers   [][]Entry `json:"layers"`
	HasTx    bool      `json:"has_tx"`    // local: first layer is an open transaction
	ReadOnly bool      `json:"read_only"` // local: NewLocalDB(base, true), single layer
	Warm     [][]byte  `json:"warm"`      // local: keys read through Get before listing (fills the read cache)
	Finish   string    `json:"finish"`    // local with tx: "commit" | "rollback" -> listed again afterwards
	Prefixes [][]byte  `json:"prefixes"`
}

var prefixPool = [][]byte{[]byte("p"), []byte("ab"), []byte("k/"), []byte("p\xff"), []byte("\xff"), []byte("\xff\xff"), []byte("p\xff\xff"), []byte("\x00"), []byte("T-")}
var suffixPool = []string{"", "\x00", "0", "1", "2", "a", "ab", "b", "\xfe", "\xff", "\xff\xff", "/", "/1", "/2", "z", "zz", "a\x00", "a\xff", "10", "11", "\xff\x00", "~"}

func successor(p []byte) []byte { // smallest key greater than every key with prefix p (nil if none)
	for i := len(p) - 1; i >= 0; i-- {
		if p[i] < 0xff {
			s := append([]byte{}, p[:i+1]...)
			s[i]++
			return s
		}
	}
	return nil
}

func genCase(r *lib.Rng, idx int, maxN int) *Case {
	c := &Case{Stream: []string{"plain", "merged", "local"}[idx%3], Backend: "memdb"}
	if r.Chance(30) {
		c.Backend = "goleveldb"
	}
	P := lib.Pick(r, prefixPool)
	var P2 []byte // a second, unrelated or nested prefix
	if r.Chance(50) {
		P2 = append(append([]byte{}, P...), lib.Pick(r, suffixPool[1:])...)
	} else {
		P2 = lib.Pick(r, prefixPool)
	}
	// candidate keys
	var keys [][]byte
	seen := map[string]bool{}
	add := func(k []byte) {
		if len(k) == 0 || seen[string(k)] {
			return
		}
		seen[string(k)] = true
		keys = append(keys, k)
	}
	n := r.Range(2, maxN)
	for i := 0; i < n; i++ {
		base := P
		if r.Chance(25) {
			base = P2
		}
		k := append(append([]byte{}, base...), lib.Pick(r, suffixPool)...)
		if r.Chance(30) {
			k = append(k, lib.Pick(r, suffixPool)...)
		}
		add(k)
	}
	// neighbours just outside the prefix
	for _, p := range [][]byte{P, P2} {
		if r.Chance(70) {
			if s := successor(p); s != nil {
				add(s)
				if r.Bool() {
					add(append(append([]byte{}, s...), 'a'))
				}
			}
		}
		if r.Chance(70) && len(p) > 0 {
			below := append([]byte{}, p...)
			if below[len(below)-1] > 0 {
				below[len(below)-1]--
				add(append(append([]byte{}, below...), 0xff, 0xff))
				add(below)
			}
			if len(p) > 1 {
				add(append([]byte{}, p[:len(p)-1]...))
			}
		}
	}
	nl := 1
	switch c.Stream {
	case "merged":
		nl = r.Range(2, 3)
	case "local":
		c.ReadOnly = r.Chance(10)
		c.HasTx = !c.ReadOnly && r.Chance(75)
		nl = 2
		if c.HasTx {
			nl = 3
			c.Finish = lib.Pick(r, []string{"commit", "rollback"})
		}
		if c.ReadOnly {
			nl = 1
		}
	}
	c.Layers = make([][]Entry, nl)
	tomb := r.Range(10, 45)
	for _, k := range keys {
		placed := false
		for li := 0; li < nl; li++ {
			p := 45
			if nl == 1 {
				p = 100
			}
			if !r.Chance(p) && !(li == nl-1 && !placed) {
				continue
			}
			placed = true
			e := Entry{K: k}
			if !r.Chance(tomb) {
				e.V = []byte(fmt.Sprintf("V%d:%x", li, k))
			} else if r.Bool() {
				e.V = []byte{}
			}
			c.Layers[li] = append(c.Layers[li], e)
		}
	}
	if c.Stream == "local" && !c.ReadOnly {
		for _, e := range c.Layers[nl-1] {
			if r.Chance(25) {
				c.Warm = append(c.Warm, e.K)
			}
		}
		if r.Chance(30) {
			c.Warm = append(c.Warm, append(append([]byte{}, P...), "absent"...))
		}
	}
	c.Prefixes = [][]byte{P, P2}
	if r.Chance(50) {
		c.Prefixes = append(c.Prefixes, nil) // everything
	}
	if r.Chance(30) {
		c.Prefixes = append(c.Prefixes, append(append([]byte{}, P...), lib.Pick(r, suffixPool[1:])...))
	}
	return c
}

// ---------------------------------------------------------------------------------------------
// model

type kv struct {
	k string
	v []byte
}

// merged view of the layers (top first); returns all keys with their winning value
func mergedView(layers [][]Entry) map[string][]byte {
	m := map[string][]byte{}
	for li := len(layers) - 1; li >= 0; li-- {
		for _, e := range layers[li] {
			m[string(e.K)] = e.V
		}
	}
	return m
}

func liveUnder(view map[string][]byte, prefix []byte) []kv {
	var out []kv
	for k, v := range view {
		if len(v) > 0 && bytes.HasPrefix([]byte(k), prefix) {
			out = append(out, kv{k, v})
		}
	}
	sort.Slice(out, func(i, j int) bool { return out[i].k < out[j].k })
	return out
}

// ---------------------------------------------------------------------------------------------
// system under test

type lister interface {
	page(prefix, key []byte, count, dir int32) [][]byte
	count(prefix []byte) int64
}

type helperLister struct {
	h      *dbm.ListHelper
	direct bool // call IteratorScanFromFirst/FromLast/IteratorScan instead of List
}

func (l helperLister) page(prefix, key []byte, count, dir int32) [][]byte {
	if !l.direct {
		return l.h.List(prefix, key, count, dir)
	}
	if len(key) == 0 {
		if dir&dbm.ListASC != 0 {
			return l.h.IteratorScanFromFirst(prefix, count, dir)
		}
		return l.h.IteratorScanFromLast(prefix, count, dir)
	}
	return l.h.IteratorScan(prefix, key, count, dir)
}
func (l helperLister) count(prefix []byte) int64 { return l.h.PrefixCount(prefix) }

type kvdbLister struct{ d dbm.KVDB } // db.NewKVDB(db) and LocalDB

func (l kvdbLister) page(prefix, key []byte, count, dir int32) [][]byte {
	vals, err := l.d.List(prefix, key, count, dir)
	if err != nil && err != types.ErrNotFound {
		panic("List returned unexpected error: " + err.Error())
	}
	return vals
}
func (l kvdbLister) count(prefix []byte) int64 { return l.d.PrefixCount(prefix) }

var dirSeq int64

type sut struct {
	dbs     []dbm.DB
	dir     string
	listers map[string]lister
	local   dbm.KVDB
}

func (s *sut) close() {
	for _, d := range s.dbs {
		d.Close()
	}
	if s.dir != "" {
		os.RemoveAll(s.dir)
	}
}

func fill(d dbm.DB, es []Entry) {
	for _, e := range es {
		if err := d.Set(e.K, e.V); err != nil {
			panic(err)
		}
	}
}

func newDB(backend, tmp string, s *sut) dbm.DB {
	dir := ""
	if backend != "memdb" {
		dir = filepath.Join(tmp, fmt.Sprintf("c07-%d", atomic.AddInt64(&dirSeq, 1)))
		os.MkdirAll(dir, 0o755)
		s.dir = dir
	}
	d := dbm.NewDB("c07", backend, dir, 16)
	s.dbs = append(s.dbs, d)
	return d
}

// build creates the databases of a case; afterTx = state after c.Finish was applied
func build(c *Case, tmp string) *sut {
	s := &sut{listers: map[string]lister{}}
	nl := len(c.Layers)
	switch c.Stream {
	case "plain":
		d := newDB(c.Backend, tmp, s)
		fill(d, c.Layers[0])
		s.listers["ListHelper.List"] = helperLister{h: dbm.NewListHelper(d)}
		s.listers["ListHelper.IteratorScan*"] = helperLister{h: dbm.NewListHelper(d), direct: true}
		s.listers["KVDB.List"] = kvdbLister{dbm.NewKVDB(d)}
	case "merged":
		var its []dbm.IteratorDB
		for li := 0; li < nl; li++ {
			be := "memdb"
			if li == nl-1 {
				be = c.Backend
			}
			d := newDB(be, tmp, s)
			fill(d, c.Layers[li])
			its = append(its, d)
		}
		m := dbm.NewMergedIteratorDB(its)
		s.listers["Merged.List"] = helperLister{h: dbm.NewListHelper(m)}
		s.listers["Merged.IteratorScan*"] = helperLister{h: dbm.NewListHelper(m), direct: true}
	case "local":
		base := newDB(c.Backend, tmp, s)
		fill(base, c.Layers[nl-1])
		l := dbm.NewLocalDB(base, c.ReadOnly)
		if !c.ReadOnly {
			for _, k := range c.Warm {
				l.Get(k)
			}
			for _, e := range c.Layers[nl-2] {
				l.Set(e.K, e.V)
			}
			if c.HasTx {
				l.Begin()
				for _, e := range c.Layers[0] {
					l.Set(e.K, e.V)
				}
			}
		}
		s.local = l
		s.listers["LocalDB.List"] = kvdbLister{l}
	}
	return s
}

// ---------------------------------------------------------------------------------------------
// oracle

var encNames = map[int32]string{0: "value", dbm.ListWithKey: "keyvalue", dbm.ListKeyOnly: "keyonly"}

type mismatch struct {
	what string
	msg  string
}

// session pages through one prefix and returns the decoded concatenation
func session(l lister, view map[string][]byte, valueOwner map[string]string, prefix []byte, count int32, asc bool, enc int32, pages *int64) (got []kv, mm *mismatch) {
	dir := enc
	if asc {
		dir |= dbm.ListASC
	}
	var key []byte
	limit := len(view) + 4
	seenKeys := map[string]bool{}
	for n := 0; ; n++ {
		if n > limit {
			return got, &mismatch{"no-termination", fmt.Sprintf("more than %d pages", limit)}
		}
		page := l.page(prefix, key, count, dir)
		*pages++
		if len(page) == 0 {
			return got, nil
		}
		for _, raw := range page {
			var e kv
			switch enc {
			case 0:
				if len(raw) == 0 {
					return got, &mismatch{"deleted-entry", "page returned an empty value, i.e. an entry marked deleted"}
				}
				k, ok := valueOwner[string(raw)]
				if !ok {
					return got, &mismatch{"foreign-value", fmt.Sprintf("page returned value %q that no layer holds", raw)}
				}
				e = kv{k, raw}
			case dbm.ListKeyOnly:
				e = kv{string(raw), view[string(raw)]}
			default:
				var p types.KeyValue
				if err := types.Decode(raw, &p); err != nil {
					return got, &mismatch{"undecodable", "page entry is not a types.KeyValue: " + err.Error()}
				}
				e = kv{string(p.Key), p.Value}
			}
			if seenKeys[e.k] {
				got = append(got, e)
				return got, &mismatch{"duplicate", fmt.Sprintf("entry %q returned twice (page %d)", e.k, n+1)}
			}
			seenKeys[e.k] = true
			got = append(got, e)
		}
		key = []byte(got[len(got)-1].k)
	}
}

func compare(got, want []kv, view map[string][]byte, prefix []byte, asc bool) *mismatch {
	exp := want
	if !asc {
		exp = make([]kv, len(want))
		for i := range want {
			exp[len(want)-1-i] = want[i]
		}
	}
	same := len(got) == len(exp)
	if same {
		for i := range got {
			if got[i].k != exp[i].k || !bytes.Equal(got[i].v, exp[i].v) {
				same = false
				break
			}
		}
	}
	if same {
		return nil
	}
	desc := func(xs []kv) string {
		var s []string
		for _, x := range xs {
			s = append(s, fmt.Sprintf("%q", x.k))
		}
		return "[" + strings.Join(s, " ") + "]"
	}
	msg := fmt.Sprintf("got %s, model %s", desc(got), desc(exp))
	seen := map[string]int{}
	wantSet := map[string][]byte{}
	for _, w := range want {
		wantSet[w.k] = w.v
	}
	for _, g := range got {
		seen[g.k]++
		if !bytes.HasPrefix([]byte(g.k), prefix) {
			return &mismatch{"out-of-prefix", fmt.Sprintf("entry %q is outside the prefix; %s", g.k, msg)}
		}
		wv, live := wantSet[g.k]
		if !live {
			if v, ok := view[g.k]; ok && len(v) == 0 {
				return &mismatch{"deleted-entry", fmt.Sprintf("entry %q is marked deleted in the newest layer that holds it; %s", g.k, msg)}
			}
			return &mismatch{"foreign-entry", fmt.Sprintf("entry %q does not exist; %s", g.k, msg)}
		}
		if !bytes.Equal(wv, g.v) {
			return &mismatch{"shadowed-value", fmt.Sprintf("entry %q carries value %q, newest visible value is %q; %s", g.k, g.v, wv, msg)}
		}
		if seen[g.k] > 1 {
			return &mismatch{"duplicate", fmt.Sprintf("entry %q returned twice; %s", g.k, msg)}
		}
	}
	for _, w := range want {
		if seen[w.k] == 0 {
			return &mismatch{"missing", fmt.Sprintf("live entry %q never returned; %s", w.k, msg)}
		}
	}
	return &mismatch{"out-of-order", msg}
}

type check struct {
	api    string
	prefix []byte
	count  int32
	asc    bool
	enc    int32
	isCnt  bool
}

func (k check) shape(stream, what string) string {
	ff := ""
	if len(k.prefix) > 0 && k.prefix[len(k.prefix)-1] == 0xff {
		ff = "-prefix-ff"
	}
	if k.isCnt {
		return fmt.Sprintf("%s-prefixcount-%s%s", stream, what, ff)
	}
	d := "desc"
	if k.asc {
		d = "asc"
	}
	return fmt.Sprintf("%s-%s-%s-%s%s", stream, what, d, encNames[k.enc], ff)
}

type counters struct {
	sessions, pages, counts, entries int64
}

// runChecks executes every listing session of the case at its current state. If only != nil just that check is run.
func runChecks(c *Case, s *sut, layers [][]Entry, only *check, cnt *counters, onFail func(k check, mm *mismatch) bool) {
	view := mergedView(layers)
	owner := map[string]string{}
	for _, es := range layers {
		for _, e := range es {
			if len(e.V) > 0 {
				owner[string(e.V)] = string(e.K)
			}
		}
	}
	apis := make([]string, 0, len(s.listers))
	for a := range s.listers {
		apis = append(apis, a)
	}
	sort.Strings(apis)
	one := func(k check) bool {
		l := s.listers[k.api]
		want := liveUnder(view, k.prefix)
		if k.isCnt {
			cnt.counts++
			if got := l.count(k.prefix); got != int64(len(want)) {
				what := "over"
				if got < int64(len(want)) {
					what = "under"
				}
				return onFail(k, &mismatch{what, fmt.Sprintf("PrefixCount(%q)=%d, live entries %d", k.prefix, got, len(want))})
			}
			return true
		}
		cnt.sessions++
		got, mm := session(l, view, owner, k.prefix, k.count, k.asc, k.enc, &cnt.pages)
		cnt.entries += int64(len(got))
		if mm == nil {
			mm = compare(got, want, view, k.prefix, k.asc)
		}
		if mm != nil {
			mm.msg = fmt.Sprintf("%s prefix=%q page size %d %s %s: %s", k.api, k.prefix, k.count, map[bool]string{true: "ASC", false: "DESC"}[k.asc], encNames[k.enc], mm.msg)
			return onFail(k, mm)
		}
		return true
	}
	if only != nil {
		one(*only)
		return
	}
	for _, api := range apis {
		for _, p := range c.Prefixes {
			m := len(liveUnder(view, p))
			if !one(check{api: api, prefix: p, isCnt: true}) {
				return
			}
			for _, asc := range []bool{true, false} {
				for _, enc := range []int32{0, dbm.ListWithKey, dbm.ListKeyOnly} {
					for cn := 1; cn <= m+1; cn++ {
						if !one(check{api: api, prefix: p, count: int32(cn), asc: asc, enc: enc}) {
							return
						}
					}
				}
			}
		}
	}
}

// layers of a local case after Commit/Rollback
func finishedLayers(c *Case) [][]Entry {
	nl := len(c.Layers)
	if c.Finish == "rollback" {
		return c.Layers[1:]
	}
	// commit: tx entries override the overlay
	merged := map[string]Entry{}
	for _, e := range c.Layers[1] {
		merged[string(e.K)] = e
	}
	for _, e := range c.Layers[0] {
		merged[string(e.K)] = e
	}
	var ov []Entry
	for _, e := range merged {
		ov = append(ov, e)
	}
	sort.Slice(ov, func(i, j int) bool { return bytes.Compare(ov[i].K, ov[j].K) < 0 })
	return [][]Entry{ov, c.Layers[nl-1]}
}

type failure struct {
	k     check
	mm    *mismatch
	phase string
}

// execute runs the whole case; returns the first failure per shape
func execute(c *Case, tmp string, cnt *counters) (fails []failure) {
	s := build(c, tmp)
	defer s.close()
	seen := map[string]bool{}
	collect := func(phase string) func(k check, mm *mismatch) bool {
		return func(k check, mm *mismatch) bool {
			sh := k.shape(c.Stream, mm.what)
			if !seen[sh] {
				seen[sh] = true
				fails = append(fails, failure{k, mm, phase})
			}
			return len(fails) < 6
		}
	}
	runChecks(c, s, c.Layers, nil, cnt, collect("open"))
	if c.Stream == "local" && c.HasTx && len(fails) < 6 {
		if c.Finish == "commit" {
			s.local.Commit()
		} else {
			s.local.Rollback()
		}
		runChecks(c, s, finishedLayers(c), nil, cnt, collect(c.Finish))
	}
	return fails
}

// reproduce one check on a freshly built case; returns the mismatch (nil if it passes)
func reproduce(c *Case, tmp string, f failure) (mm *mismatch) {
	defer func() {
		if e := recover(); e != nil {
			mm = &mismatch{"panic", fmt.Sprint(e)}
		}
	}()
	s := build(c, tmp)
	defer s.close()
	layers := c.Layers
	if f.phase != "open" {
		if c.Finish == "commit" {
			s.local.Commit()
		} else {
			s.local.Rollback()
		}
		layers = finishedLayers(c)
	}
	var cnt counters
	runChecks(c, s, layers, &f.k, &cnt, func(k check, m *mismatch) bool { mm = m; return false })
	return mm
}

func cloneCase(c *Case) *Case {
	n := *c
	n.Layers = make([][]Entry, len(c.Layers))
	for i := range c.Layers {
		n.Layers[i] = append([]Entry{}, c.Layers[i]...)
	}
	n.Warm = append([][]byte{}, c.Warm...)
	return &n
}

// minimise removes entries / warm-up reads while the same kind of mismatch persists
func minimise(c *Case, tmp string, f failure) (*Case, *mismatch) {
	best := cloneCase(c)
	if c.Backend != "memdb" { // try the cheap backend first
		t := cloneCase(best)
		t.Backend = "memdb"
		if mm := reproduce(t, tmp, f); mm != nil && mm.what == f.mm.what {
			best = t
		}
	}
	bm := reproduce(best, tmp, f)
	if bm == nil || bm.what != f.mm.what {
		return c, f.mm
	}
	budget := 150
	for len(best.Warm) > 0 && budget > 0 {
		t := cloneCase(best)
		t.Warm = nil
		budget--
		if mm := reproduce(t, tmp, f); mm != nil && mm.what == f.mm.what {
			best, bm = t, mm
		}
		break
	}
	for li := range best.Layers {
		for i := 0; i < len(best.Layers[li]) && budget > 0; {
			t := cloneCase(best)
			t.Layers[li] = append(append([]Entry{}, best.Layers[li][:i]...), best.Layers[li][i+1:]...)
			budget--
			if mm := reproduce(t, tmp, f); mm != nil && mm.what == f.mm.what {
				best, bm = t, mm
			} else {
				i++
			}
		}
	}
	return best, bm
}

func caseWitness(c *Case, f failure) any {
	var layers []any
	names := []string{"db"}
	switch c.Stream {
	case "merged":
		names = []string{"layer0(top)", "layer1", "layer2"}[:len(c.Layers)]
	case "local":
		names = []string{"overlay(Set outside tx)", "base"}
		if c.HasTx {
			names = []string{"tx(Set after Begin)", "overlay(Set outside tx)", "base"}
		}
		if c.ReadOnly {
			names = []string{"base(read-only LocalDB)"}
		}
	}
	for i, es := range c.Layers {
		var xs []string
		for _, e := range es {
			xs = append(xs, fmt.Sprintf("%q=%q", e.K, e.V))
		}
		layers = append(layers, map[string]any{names[i]: xs})
	}
	var warm []string
	for _, k := range c.Warm {
		warm = append(warm, fmt.Sprintf("%q", k))
	}
	w := map[string]any{"stream": c.Stream, "bottom_backend": c.Backend, "layers_top_first": layers, "api": f.k.api,
		"prefix": fmt.Sprintf("%q", f.k.prefix), "state": f.phase}
	if len(warm) > 0 {
		w["gets_before_listing"] = warm
	}
	if f.k.isCnt {
		w["call"] = "PrefixCount"
	} else {
		w["page_size"] = f.k.count
		w["direction"] = map[bool]string{true: "ListASC", false: "ListDESC"}[f.k.asc]
		w["encoding"] = encNames[f.k.enc]
	}
	return w
}

// ---------------------------------------------------------------------------------------------

// measured non-triviality of a case
func measure(c *Case, st map[string]int64, shapes map[string]struct{}) bool {
	view := mergedView(c.Layers)
	P := c.Prefixes[0]
	live := liveUnder(view, P)
	var keys []string
	for k := range view {
		keys = append(keys, k)
	}
	sort.Strings(keys)
	tombAdj, below, above, shadow := false, false, false, false
	for i, k := range keys {
		in := bytes.HasPrefix([]byte(k), P)
		if !in {
			if len(live) > 0 && k < live[0].k {
				below = true
			}
			if len(live) > 0 && k > live[len(live)-1].k {
				above = true
			}
			continue
		}
		if len(view[k]) == 0 {
			st["tombstones_under_prefix"]++
			if (i > 0 && len(view[keys[i-1]]) > 0) || (i+1 < len(keys) && len(view[keys[i+1]]) > 0) {
				tombAdj = true
			}
		}
	}
	// per-key layer shape
	for _, k := range keys {
		sh := ""
		n := 0
		for _, es := range c.Layers {
			ch := "-"
			for _, e := range es {
				if string(e.K) == k {
					ch = "L"
					if len(e.V) == 0 {
						ch = "T"
					}
					n++
				}
			}
			sh += ch
		}
		if n > 1 {
			shadow = true
			st["keys_in_several_layers"]++
		}
		shapes[fmt.Sprintf("%s/%d:%s", c.Stream, len(c.Layers), sh)] = struct{}{}
	}
	st["live_entries_under_main_prefix"] += int64(len(live))
	nt := len(live) >= 2 && tombAdj && (below || above)
	if len(c.Layers) > 1 {
		nt = nt && shadow
	}
	return nt
}

func run(c *lib.Ctx) {
	log15.Root().SetHandler(log15.DiscardHandler())
	c.Rule("case = generated key set around one of 9 prefixes (plain, nested, ending in 0xff, all-0xff, 0x00) with tombstones (empty/nil values) and neighbours just outside the prefix " +
		"(successor of the prefix, prefix-1 + ffff, the shortened prefix), stored in (plain) one memdb/goleveldb, (merged) 2..3 DBs behind NewMergedIteratorDB, (local) the base/overlay/tx layers of db.NewLocalDB " +
		"(also read-only LocalDB, also listed again after Commit / Rollback); for every prefix of the case (main, nested/unrelated, empty=everything), every API " +
		"(ListHelper.List, IteratorScanFromFirst/FromLast+IteratorScan, NewKVDB(..).List, LocalDB.List), both directions, three encodings and every page size 1..m+1 the prefix is paged to exhaustion, " +
		"each request continuing after the last returned key, and the concatenation is compared with the sorted live entries of the model; PrefixCount is compared with their number. " +
		"non-trivial (measured) = main prefix has >=2 live entries, a tombstone under the prefix adjacent to a live entry, a key outside the prefix next to it, and (layered cases) a key present in several layers")
	c.Assume("the key set does not change while it is paged (the statement is about a fixed set)",
		"values are unique per (layer,key), which lets the value-only encoding be mapped back to the key that the next request continues from",
		"ListHelper.PrefixScan / IteratorCallback / the count==1&&direction==ListSeek special case are not paged listings and are not judged")
	n := c.N(300, 30000)
	maxN := 25
	if !c.Quick() {
		maxN = 60
	}
	var mu sync.Mutex
	minimisedShapes := map[string]bool{}
	lib.Parallel(n, 12, func(i int) {
		if c.Skip(i) {
			return
		}
		cs := genCase(c.CaseRng("keyset", i), i, maxN)
		st := map[string]int64{}
		shapes := map[string]struct{}{}
		nt := measure(cs, st, shapes)
		var cnt counters
		var fails []failure
		func() {
			defer func() {
				if e := recover(); e != nil {
					c.Violation(i, cs.Stream+"-panic", map[string]any{"case": cs, "panic": fmt.Sprint(e)}, "panic while listing case %d: %v\n%s", i, e, debug.Stack())
				}
			}()
			fails = execute(cs, c.Tmp, &cnt)
		}()
		for _, f := range fails {
			sh := f.k.shape(cs.Stream, f.mm.what)
			mc, mm := cs, f.mm
			mu.Lock()
			doMin := !minimisedShapes[sh]
			minimisedShapes[sh] = true
			mu.Unlock()
			if doMin {
				mc, mm = minimise(cs, c.Tmp, f)
				sh = f.k.shape(mc.Stream, mm.what)
			}
			c.Violation(i, sh, caseWitness(mc, f), "%s", mm.msg)
		}
		mu.Lock()
		defer mu.Unlock()
		for k, v := range st {
			c.Count(k, v)
		}
		for s := range shapes {
			c.Seen("layer_shapes", s)
		}
		c.Count("listing_sessions", cnt.sessions)
		c.Count("pages_requested", cnt.pages)
		c.Count("entries_returned", cnt.entries)
		c.Count("prefixcount_calls", cnt.counts)
		c.Count("cases_"+cs.Stream, 1)
		c.Count("cases_bottom_"+cs.Backend, 1)
		for _, p := range cs.Prefixes {
			if len(p) > 0 && p[len(p)-1] == 0xff {
				c.Count("prefixes_ending_in_ff", 1)
			}
			c.Count("prefixes_listed", 1)
		}
		if cs.Stream == "local" {
			switch {
			case cs.ReadOnly:
				c.Count("local_readonly", 1)
			case cs.HasTx:
				c.Count("local_with_open_tx_then_"+cs.Finish, 1)
			default:
				c.Count("local_without_tx", 1)
			}
		}
		var sample any
		if i < 3 {
			sample = caseWitness(cs, failure{k: check{api: "(all)", prefix: cs.Prefixes[0], count: 1, asc: true}, phase: "open"})
		}
		c.Case(lib.Fingerprint(cs), nt, sample)
	})
	c.RequireEvents("listing_sessions", 1000)
	c.RequireEvents("cases_local", 10)
	c.RequireEvents("cases_merged", 10)
}

func main() { lib.Main("C07", "exploration", run) }
