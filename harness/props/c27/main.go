// C27: invalid blocks are rejected without side effects or poisoning.
package main

import (
	"encoding/json"
	"fmt"
	"sort"
	"strings"
	"time"

	"verifharness/chainenv"
	"verifharness/lib"
)

// poisonKinds classifies the clause-(ii) problems of a case (used in the witness shape).
func poisonKinds(ps []string) string {
	m := map[string]bool{}
	for _, p := range ps {
		switch {
		case strings.HasPrefix(p, "after rejection, block-by-hash"):
			m["serves-rejected-body-before-genuine"] = true
		case strings.HasPrefix(p, "genuine block (h="):
			m["genuine-not-accepted"] = true
		case strings.HasPrefix(p, "genuine block not served"):
			m["genuine-not-served"] = true
		case strings.HasPrefix(p, "block-by-hash"):
			m["serves-wrong-body-after-genuine"] = true
		case strings.HasPrefix(p, "persisted body"):
			m["persisted-wrong-body-after-genuine"] = true
		case strings.HasPrefix(p, "after the chain grew"):
			m["wrong-body-after-growth"] = true
		case strings.HasPrefix(p, "child of the genuine"):
			m["child-not-accepted"] = true
		default:
			m["other"] = true
		}
	}
	var l []string
	for k := range m {
		l = append(l, k)
	}
	sort.Strings(l)
	return strings.Join(l, "+")
}

func run(c *lib.Ctx) {
	c.Rule("a valid 14-block trunk plus a heavier 2-block side branch is built without mining; each case starts a fresh real node, feeds a valid prefix, snapshots query surface + raw DB, delivers ONE mutant " +
		"(14 mutation kinds: header fields, dropped/added/reordered/duplicated/altered transactions, altered tx signature, duplicate-tail preserving the tx root, foreign body, on-chain duplicate with recomputed root, garbage block signature) " +
		"as broadcast or sync, at the tip or as a heavier side block that triggers a reorganisation attempt, snapshots again (must be equal except by-hash pre-stored data of the mutant itself), then delivers the genuine block and its child. " +
		"non-trivial = mutant was executed/rejected (error returned or hash equal to the genuine block's); distinct = (kind,position,flavour,target)")
	c.Assume("mutants are invalid by construction under the statement's checks; header mutations that yield another valid block (difficulty, time, version) are not generated",
		"re-execution of a rejected body is observed only through what is served/persisted under the hash (no execution counter)")
	nTrees := c.N(1, 12)
	idx := 0
	for ti := 0; ti < nTrees; ti++ {
		rng := c.CaseRng("tree", ti)
		tr := c.Child("invtree", rng.U64(), lib.ChildOpts{Timeout: 5 * time.Minute})
		var tree chainenv.Tree
		if tr.Died || tr.TimedOut || json.Unmarshal(tr.Out, &tree) != nil {
			c.Inconclusive("tree %d: builder child failed: %.300s", ti, tr.Stderr)
			continue
		}
		var cases []chainenv.InvCase
		for _, k := range chainenv.MutKinds {
			for _, pos := range []string{"tip", "reorg"} {
				for _, bc := range []bool{true, false} {
					cases = append(cases, chainenv.InvCase{Kind: k, Pos: pos, Broadcast: bc, Seed: rng.U64(), Index: idx})
					idx++
				}
				// the fast-download delivery path (pid "download")
				cases = append(cases, chainenv.InvCase{Kind: k, Pos: pos, Download: true, Seed: rng.U64(), Index: idx})
				idx++
			}
		}
		workers := 16
		chunks := make([][]chainenv.InvCase, workers)
		for i, cs := range cases {
			if c.Skip(cs.Index) {
				continue
			}
			chunks[i%workers] = append(chunks[i%workers], cs)
		}
		results := make([][]chainenv.InvRes, workers)
		lib.Parallel(workers, workers, func(w int) {
			if len(chunks[w]) == 0 {
				return
			}
			cr := c.Child("invalid", chainenv.InvReq{Tree: &tree, Cases: chunks[w]}, lib.ChildOpts{Timeout: 10 * time.Minute})
			if cr.TimedOut {
				c.Inconclusive("tree %d chunk %d: watchdog fired", ti, w)
				return
			}
			if cr.Died {
				c.Violation(chunks[w][0].Index, "node-crash", map[string]any{"cases": chunks[w], "stderr": cr.Stderr}, "node process died while handling a mutated block: %.600s", cr.Stderr)
				return
			}
			var rs []chainenv.InvRes
			if err := json.Unmarshal(cr.Out, &rs); err != nil {
				c.Inconclusive("tree %d chunk %d: %v", ti, w, err)
				return
			}
			results[w] = rs
		})
		for _, rs := range results {
			for _, r := range rs {
				if r.Skipped != "" {
					c.Count("skipped_not_applicable", 1)
					continue
				}
				fp := fmt.Sprintf("%s/%s/%v/%v/%s", r.Case.Kind, r.Case.Pos, r.Case.Broadcast, r.Case.Download, r.MutantHash[:8])
				c.Case(fp, r.DeliverErr != "" || r.SameHash, map[string]any{"kind": r.Case.Kind, "pos": r.Case.Pos, "broadcast": r.Case.Broadcast, "download_path": r.Case.Download, "same_hash_as_genuine": r.SameHash, "deliver_err": r.DeliverErr})
				c.Count("mutants_delivered", 1)
				if r.SameHash {
					c.Count("mutants_with_genuine_hash", 1)
				}
				c.Seen("reject_errors", r.DeliverErr)
				if len(r.SideEffects) > 0 {
					c.Violation(r.Case.Index, fmt.Sprintf("side-effect/pos=%s/tip-after=%s", r.Case.Pos, r.TipAfter), r,
						"rejected mutant %s (%s, broadcast=%v, err=%q) changed node state: %s", r.Case.Kind, r.Case.Pos, r.Case.Broadcast, r.DeliverErr, lib.ShortList(r.SideEffects, 4))
				}
				if len(r.Poison) > 0 {
					c.Violation(r.Case.Index, fmt.Sprintf("poison/samehash=%v/download=%v/genuine-err=%s/%s", r.SameHash, r.Case.Download, r.GenuineErr, poisonKinds(r.Poison)), r,
						"mutant %s (%s, broadcast=%v, same hash=%v, err=%q): %s", r.Case.Kind, r.Case.Pos, r.Case.Broadcast, r.SameHash, r.DeliverErr, lib.ShortList(r.Poison, 3))
				}
			}
		}
	}
	c.RequireEvents("mutants_delivered", 20)
	c.RequireEvents("mutants_with_genuine_hash", 4)
}

func main() {
	chainenv.RegisterInvalidChildren()
	lib.Main("C27", "exploration", run)
}
