// C29: block connection is crash-consistent (crash-point enumeration).
package main

import (
	"encoding/json"
	"fmt"
	"os"
	"path/filepath"
	"sort"
	"time"

	"verifharness/chainenv"
	"verifharness/lib"
)

func run(c *lib.Ctx) {
	c.Rule("a counting run of a deterministic delivery script (linear growth / 3-deep reorganisation / orphans then parents then reorganisation) records every durable LevelDB write (Set, SetSync, Delete, DeleteSync, batch Write) " +
		"of the blockchain and state-store databases with database name and call site; for each selected n a child process replays the script on a fresh data directory and exits right before write n; " +
		"a recovery child restarts a real node on that directory and checks index agreement, tx index vs chain, TD, tip state (every touched account vs the builder's state of that block), chain in {reached chains, prefixes}, " +
		"then redelivers everything and compares with the uninterrupted run. quick = stratified crash points incl. first/last occurrence of every distinct (db, site, caller) label; thorough = all. " +
		"non-trivial = crash point at which the recovered tip differs from the final tip (the crash interrupted something); distinct = (script, n)")
	c.Assume("process stop between durable writes only; torn/partial writes inside one LevelDB batch and OS/power failure are out of reach (LevelDB journal)", "blocks valid by construction")
	scripts := chainenv.CrashScripts()
	names := []string{"linear", "reorg3", "orphans+reorg"}
	nTrees := c.N(1, 6)
	caseIdx := 0
	for ti := 0; ti < nTrees; ti++ {
		rng := c.CaseRng("tree", ti)
		tr := c.Child("crashtree", rng.U64(), lib.ChildOpts{Timeout: 5 * time.Minute})
		var ct chainenv.CrashTree
		if tr.Died || tr.TimedOut || json.Unmarshal(tr.Out, &ct) != nil {
			c.Inconclusive("tree %d: builder child failed: %.300s", ti, tr.Stderr)
			continue
		}
		for _, name := range names {
			sc := scripts[name]
			logPath := filepath.Join(c.Tmp, fmt.Sprintf("writes-%d-%s.log", ti, name))
			os.Remove(logPath)
			cr := c.Child("crashrun", chainenv.CrashRunReq{Tree: ct.Tree, Base: sc[0], Script: sc[1], Dir: filepath.Join(c.Tmp, "count"), LogPath: logPath}, lib.ChildOpts{Timeout: 5 * time.Minute})
			var cnt chainenv.CrashRunRes
			if cr.Died || cr.TimedOut || json.Unmarshal(cr.Out, &cnt) != nil {
				c.Inconclusive("counting run %s failed: %.300s", name, cr.Stderr)
				continue
			}
			os.RemoveAll(filepath.Join(c.Tmp, "count"))
			if len(cnt.Errs) > 0 {
				c.Inconclusive("counting run %s: valid blocks rejected: %v", name, cnt.Errs)
				continue
			}
			labels := chainenv.ReadWriteLog(logPath)
			W := int(cnt.Writes)
			c.Count("durable_writes_in_scripts", int64(W))
			for _, l := range labels {
				c.Seen("write_labels", l)
			}
			// allowed tips: every block on a path to a reached tip (and genesis)
			allowed := map[string]int{}
			idxOf := map[string]int{}
			for i, h := range ct.Tree.Hashes {
				idxOf[h] = i
			}
			for _, r := range cnt.Reached {
				i, ok := idxOf[r]
				if !ok {
					continue
				}
				for _, b := range ct.Tree.Spec.Path(i) {
					allowed[ct.Tree.Hashes[b]] = b
				}
			}
			if len(cnt.Final.HashByHeight) > 0 {
				allowed[cnt.Final.HashByHeight[0]] = -1
			}
			// crash point selection
			var points []int
			if c.Quick() && W > 64 {
				sel := map[int]bool{1: true, W: true}
				first, last := map[string]int{}, map[string]int{}
				for i, l := range labels {
					if _, ok := first[l]; !ok {
						first[l] = i + 1
					}
					last[l] = i + 1
				}
				for _, v := range first {
					sel[v] = true
				}
				for _, v := range last {
					sel[v] = true
				}
				budget := c.N(64, 64)
				for len(sel) < budget && len(sel) < W {
					sel[1+rng.Intn(W)] = true
				}
				for p := range sel {
					if p >= 1 && p <= W {
						points = append(points, p)
					}
				}
				sort.Ints(points)
			} else {
				for p := 1; p <= W; p++ {
					points = append(points, p)
				}
				c.Exhaustive(true)
			}
			all := append(append([]int{}, sc[0]...), sc[1]...)
			base := caseIdx
			caseIdx += W + 1
			lib.Parallel(len(points), 16, func(k int) {
				n := points[k]
				idx := base + n
				if c.Skip(idx) {
					return
				}
				dir := filepath.Join(c.Tmp, fmt.Sprintf("crash-%d-%s-%d", ti, name, n))
				r1 := c.Child("crashrun", chainenv.CrashRunReq{Tree: ct.Tree, Base: sc[0], Script: sc[1], Dir: dir, CrashAt: int64(n)}, lib.ChildOpts{Timeout: 5 * time.Minute})
				defer os.RemoveAll(dir)
				if r1.TimedOut {
					c.Inconclusive("crash run %s@%d: watchdog", name, n)
					return
				}
				if r1.ExitCode != 77 {
					c.Inconclusive("crash run %s@%d did not stop at the crash point (exit %d): %.300s", name, n, r1.ExitCode, r1.Stderr)
					return
				}
				r2 := c.Child("recover", chainenv.RecoverReq{Tree: ct.Tree, Dir: dir, All: all, Allowed: allowed, Final: cnt.Final, States: ct.States, GenesisState: ct.Genesis}, lib.ChildOpts{Timeout: 5 * time.Minute})
				label := ""
				if n-1 < len(labels) {
					label = labels[n-1]
				}
				wit := map[string]any{"script": name, "crash_before_write": n, "write": label, "base": sc[0], "armed": sc[1]}
				if r2.TimedOut {
					c.Inconclusive("recovery %s@%d: watchdog", name, n)
					return
				}
				var rr chainenv.RecoverRes
				if r2.Died || json.Unmarshal(r2.Out, &rr) != nil {
					wit["stderr"] = r2.Stderr
					c.Violation(idx, "restart-died", wit, "node died after restart from crash before write %d (%s) of script %s: %.500s", n, label, name, r2.Stderr)
					c.Case(fmt.Sprintf("%d/%s/%d", ti, name, n), true, wit)
					return
				}
				wit["recovered_tip_height"] = rr.TipHeight
				c.Count("crash_points", 1)
				c.Seen("recovered_tips", rr.TipHash)
				c.Case(fmt.Sprintf("%d/%s/%d", ti, name, n), rr.TipHash != cnt.Final.TipHash, wit)
				if len(rr.Problems) > 0 {
					wit["problems"] = rr.Problems
					c.Violation(idx, "inconsistent-after-restart", wit, "script %s crash before write %d (%s): %s", name, n, label, lib.ShortList(rr.Problems, 4))
				}
				if len(rr.Resumed) > 0 {
					wit["resume_problems"] = rr.Resumed
					c.Violation(idx, "resume-diverges", wit, "script %s crash before write %d (%s): continued processing differs from the uninterrupted run: %s", name, n, label, lib.ShortList(rr.Resumed, 4))
				}
			})
		}
	}
	c.RequireEvents("crash_points", 20)
}

func main() {
	chainenv.RegisterCrashChildren()
	lib.Main("C29", "fault_enumeration", run)
}
