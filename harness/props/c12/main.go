// C12: transactions can only write where their executor is allowed.
package main

import (
	"encoding/json"
	"fmt"
	"os"
	"path/filepath"
	"strings"
	"time"

	"github.com/33cn/chain33/common/address"
	"github.com/33cn/chain33/types"
	"verifharness/execenv"
	"verifharness/lib"
	"verifharness/vexec"
)

type wkey struct {
	Key   string `json:"key"`
	Class string `json:"class"`
	Omit  bool   `json:"omit,omitempty"`
	Friend bool  `json:"friend,omitempty"` // friend table entry set for (writer, key)
}

type gTx struct {
	Exec  string `json:"exec"`
	Keys  []wkey `json:"keys"`
	Local []wkey `json:"local,omitempty"`
	Nonce int64  `json:"nonce"`
}

// ---- independent predicate, written from the statement

// stateKeyAllowed: own namespace | own deposit area inside another executor | area the owning executor allows.
func stateKeyAllowed(exec string, k wkey) bool {
	key := k.Key
	if !strings.HasPrefix(key, "mavl-") {
		return false
	}
	rest := key[len("mavl-"):]
	i := strings.IndexByte(rest, '-')
	if i < 0 {
		return false // no executor segment terminated by '-'
	}
	owner := rest[:i]
	if owner == exec {
		return true
	}
	// deposit area: mavl-<owner>-<symbol>-exec-<addr>:...
	parts := strings.SplitN(rest, "-", 4)
	if len(parts) == 4 && parts[2] == "exec" {
		if j := strings.IndexByte(parts[3], ':'); j >= 0 {
			if parts[3][:j] == address.ExecAddress(exec) {
				return true
			}
		}
	}
	// friend approval: only the vfriend executor approves, per the generated table
	if owner == "vfriend" && k.Friend {
		return true
	}
	return false
}

func localKeyAllowed(exec string, key string) bool {
	p := "LODB-" + exec + "-"
	return strings.HasPrefix(key, p) && len(key) > len(p)
}

func expectOK(t *gTx) bool {
	for _, k := range t.Keys {
		if k.Omit || !stateKeyAllowed(t.Exec, k) {
			return false
		}
	}
	return true
}

// ---- generator

func genKey(r *lib.Rng, exec string) wkey {
	other := lib.Pick(r, []string{"vexec", "vexecs", "vfriend", "coins", "nosuchexec", "none"})
	for other == exec {
		other = lib.Pick(r, []string{"vexec", "vexecs", "vfriend", "nosuchexec"})
	}
	name := fmt.Sprintf("n%d", r.Intn(50))
	switch k := r.Intn(100); {
	case k < 40:
		return wkey{Key: "mavl-" + exec + "-" + name, Class: "own"}
	case k < 50:
		return wkey{Key: "mavl-" + other + "-" + name, Class: "foreign-executor"}
	case k < 58:
		return wkey{Key: fmt.Sprintf("mavl-%s-sym-exec-%s:%s", other, address.ExecAddress(exec), name), Class: "own-deposit-area-in-other"}
	case k < 66:
		return wkey{Key: fmt.Sprintf("mavl-%s-sym-exec-%s:%s", other, address.ExecAddress(other), name), Class: "foreign-deposit-area"}
	case k < 72:
		// deposit-shaped key without the symbol segment: not a deposit area
		return wkey{Key: fmt.Sprintf("mavl-%s-exec-%s:%s", other, address.ExecAddress(exec), name), Class: "deposit-shape-missing-symbol"}
	case k < 80:
		return wkey{Key: "mavl-vfriend-area-" + name, Class: "friend-approved", Friend: true}
	case k < 86:
		return wkey{Key: "mavl-vfriend-deny-" + name, Class: "friend-not-approved"}
	case k < 89:
		return wkey{Key: "mavl-", Class: "malformed-empty-executor"}
	case k < 92:
		return wkey{Key: "mavl-" + exec, Class: "malformed-no-separator"}
	case k < 94:
		return wkey{Key: "mavlx-" + exec + "-" + name, Class: "malformed-prefix"}
	case k < 96:
		return wkey{Key: "mavl-" + exec + "x-" + name, Class: "own-name-is-prefix-of-owner"}
	case k < 98:
		return wkey{Key: "mavl-" + exec[:len(exec)-1] + "-" + name, Class: "owner-is-prefix-of-own-name"}
	default:
		return wkey{Key: "mavl-" + exec + "-" + strings.Repeat("L", 300+r.Intn(2000)), Class: "own-very-long"}
	}
}

func genTx(r *lib.Rng) gTx {
	t := gTx{Exec: lib.Pick(r, []string{"vexec", "vexecs"}), Nonce: int64(r.U64() >> 2)}
	n := r.Range(1, 4)
	for i := 0; i < n; i++ {
		k := genKey(r, t.Exec)
		if r.Chance(70) {
			k = wkey{Key: fmt.Sprintf("mavl-%s-n%d", t.Exec, r.Intn(50)), Class: "own"}
		}
		t.Keys = append(t.Keys, k)
	}
	if r.Chance(60) {
		t.Keys[r.Intn(len(t.Keys))] = genKey(r, t.Exec)
	}
	if r.Chance(8) {
		t.Keys[r.Intn(len(t.Keys))].Omit = true
	}
	// duplicate keys would be ambiguous for omit: make keys unique
	seen := map[string]bool{}
	var ks []wkey
	for _, k := range t.Keys {
		if !seen[k.Key] {
			seen[k.Key] = true
			ks = append(ks, k)
		}
	}
	t.Keys = ks
	return t
}

type txRes struct {
	Index   int      `json:"index"`
	Tx      gTx      `json:"tx"`
	Ty      int32    `json:"ty"`
	Want    bool     `json:"want_ok"`
	Problem string   `json:"problem,omitempty"`
	Classes []string `json:"classes"`
}

type batchReq struct {
	Seed  uint64 `json:"seed"`
	N     int    `json:"n"`
	Base  int    `json:"base"`
	Local bool   `json:"local"`
}

func runBatch(q batchReq) ([]txRes, error) {
	env, err := execenv.New(filepath.Join(os.Getenv("VERIF_TMP"), "n"), nil)
	if err != nil {
		return nil, err
	}
	defer env.Close()
	r := lib.NewRng(q.Seed)
	var out []txRes
	for done := 0; done < q.N; {
		m := r.Range(1, 12)
		if done+m > q.N {
			m = q.N - done
		}
		var gts []gTx
		var txs []*types.Transaction
		vexec.ResetFriends()
		groupOf := map[int]int{} // tx position -> group id (members consecutive)
		gid := 0
		for i := 0; i < m; i++ {
			if r.Chance(25) && i+4 < m+4 {
				// a transaction group: a later member may write (and omit, or not own) a key that an earlier
				// member of the same group already wrote
				gid++
				k := r.Range(2, 4)
				var raw []*types.Transaction
				var members []gTx
				for j := 0; j < k; j++ {
					g := genTx(r)
					if j > 0 && r.Chance(60) {
						prev := members[r.Intn(len(members))]
						pk := prev.Keys[r.Intn(len(prev.Keys))]
						nk := wkey{Key: pk.Key, Class: "rewrites-key-of-earlier-group-member", Friend: pk.Friend}
						if r.Chance(50) {
							nk.Omit = true
						}
						g.Keys = append(g.Keys, nk)
						seen := map[string]bool{}
						var ks []wkey
						for x := len(g.Keys) - 1; x >= 0; x-- { // keep the rewritten key, drop an earlier duplicate
							if !seen[g.Keys[x].Key] {
								seen[g.Keys[x].Key] = true
								ks = append([]wkey{g.Keys[x]}, ks...)
							}
						}
						g.Keys = ks
					}
					p := &vexec.Program{Nonce: g.Nonce}
					for _, kk := range g.Keys {
						p.Ops = append(p.Ops, vexec.Op{Op: "sset", K: kk.Key, V: fmt.Sprintf("w%d.%d", done+i, j)})
						if kk.Omit {
							p.Omit = append(p.Omit, kk.Key)
						}
						if kk.Friend {
							vexec.SetFriend(g.Exec, kk.Key, true)
						}
					}
					members = append(members, g)
					raw = append(raw, vexec.NewTx(env.Cfg, g.Exec, p, nil, 3000000))
				}
				grp, err := types.CreateTxGroup(raw, env.Cfg.GetMinTxFeeRate())
				if err != nil {
					continue
				}
				key := env.Keys[r.Intn(4)]
				for j := range grp.Txs {
					grp.SignN(j, types.SECP256K1, key)
				}
				for j, t := range grp.GetTxs() {
					groupOf[len(txs)] = gid
					gts = append(gts, members[j])
					txs = append(txs, t)
				}
				continue
			}
			g := genTx(r)
			p := &vexec.Program{Nonce: g.Nonce}
			for _, k := range g.Keys {
				p.Ops = append(p.Ops, vexec.Op{Op: "sset", K: k.Key, V: fmt.Sprintf("w%d", done+i)})
				if k.Omit {
					p.Omit = append(p.Omit, k.Key)
				}
				if k.Friend {
					vexec.SetFriend(g.Exec, k.Key, true)
				}
			}
			gts = append(gts, g)
			txs = append(txs, vexec.NewTx(env.Cfg, g.Exec, p, env.Keys[r.Intn(4)], 3000000))
		}
		rs, err := env.ExecList(txs)
		if err != nil {
			return nil, fmt.Errorf("EventExecTxList: %v", err)
		}
		// a group succeeds only if every member is allowed
		groupOK := map[int]bool{}
		for i := range gts {
			if id, ok := groupOf[i]; ok {
				if _, seen := groupOK[id]; !seen {
					groupOK[id] = true
				}
				if !expectOK(&gts[i]) {
					groupOK[id] = false
				}
			}
		}
		for i, rc := range rs.Receipts {
			g := gts[i]
			res := txRes{Index: q.Base + done + i, Tx: g, Ty: rc.Ty, Want: expectOK(&g)}
			if id, ok := groupOf[i]; ok {
				res.Want = groupOK[id]
				res.Classes = append(res.Classes, "group-member")
			}
			for _, k := range g.Keys {
				c := k.Class
				if k.Omit {
					c += "+omitted"
				}
				res.Classes = append(res.Classes, c)
			}
			reported := map[string]bool{}
			for _, kv := range rc.KV {
				reported[string(kv.Key)] = true
			}
			switch {
			case rc.Ty == types.ExecOk && !res.Want:
				res.Problem = "transaction succeeded although a written key is not allowed or not reported"
			case rc.Ty == types.ExecOk:
				for _, k := range g.Keys {
					if !reported[k.Key] {
						res.Problem = "successful receipt omits written key " + k.Key
					}
				}
			case rc.Ty != types.ExecOk && res.Want:
				res.Problem = fmt.Sprintf("transaction writing only allowed keys failed (receipt type %d)", rc.Ty)
			default:
				// failed: none of its writes may be reported
				for _, k := range g.Keys {
					if reported[k.Key] {
						res.Problem = "failed transaction's receipt still carries its write " + k.Key
					}
				}
			}
			out = append(out, res)
		}
		done += m
	}
	return out, nil
}

type localRes struct {
	Index   int    `json:"index"`
	Exec    string `json:"exec"`
	Key     string `json:"key"`
	Class   string `json:"class"`
	Want    bool   `json:"want_ok"`
	Outcome string `json:"outcome"`
	Problem string `json:"problem,omitempty"`
}

func runLocal(q batchReq) ([]localRes, error) {
	env, err := execenv.New(filepath.Join(os.Getenv("VERIF_TMP"), "n"), nil)
	if err != nil {
		return nil, err
	}
	defer env.Close()
	r := lib.NewRng(q.Seed)
	var out []localRes
	for i := 0; i < q.N; i++ {
		exec := "vexecs"
		name := fmt.Sprintf("n%d", r.Intn(50))
		var key, class string
		switch k := r.Intn(100); {
		case k < 40:
			key, class = "LODB-vexecs-"+name, "own-prefix"
		case k < 55:
			key, class = "LODB-vexec-"+name, "foreign-prefix-shorter-name"
		case k < 65:
			key, class = "LODB-coins-"+name, "foreign-prefix"
		case k < 73:
			key, class = "LODB-vexecsx-"+name, "own-name-is-prefix"
		case k < 80:
			key, class = "LODB-vexecs-", "own-prefix-empty-name"
		case k < 87:
			key, class = "LODX-vexecs-"+name, "wrong-common-prefix"
		case k < 94:
			key, class = "LODB_vexecs-"+name, "wrong-separator"
		default:
			key, class = "LODB-vexecs_"+name, "wrong-second-separator"
		}
		p := &vexec.Program{Nonce: int64(r.U64() >> 2), Local: []vexec.Op{{Op: "lset", K: key, V: "x"}}}
		tx := vexec.NewTx(env.Cfg, exec, p, env.Keys[r.Intn(4)], 3000000)
		res := localRes{Index: q.Base + i, Exec: exec, Key: key, Class: class, Want: localKeyAllowed(exec, key)}
		rs, err := env.ExecList([]*types.Transaction{tx})
		switch {
		case err != nil:
			res.Outcome = "list-rejected:" + err.Error()
		case rs.Receipts[0].Ty == types.ExecOk:
			res.Outcome = "ok"
		default:
			res.Outcome = fmt.Sprintf("failed(ty=%d)", rs.Receipts[0].Ty)
		}
		if res.Outcome == "ok" && !res.Want {
			res.Problem = "local write with a foreign/malformed prefix was accepted"
		}
		if res.Outcome != "ok" && res.Want {
			res.Problem = "local write with the executor's own prefix was refused: " + res.Outcome
		}
		out = append(out, res)
	}
	return out, nil
}

func init() {
	lib.RegisterChild("batch", func(in []byte) (any, error) {
		var q batchReq
		if err := json.Unmarshal(in, &q); err != nil {
			return nil, err
		}
		if q.Local {
			return runLocal(q)
		}
		return runBatch(q)
	})
}

func run(c *lib.Ctx) {
	c.Rule("synthetic executors (vexec, vexecs) emit generated state keys: own namespace, foreign executor, own/foreign deposit area inside another executor, deposit-shaped keys without the symbol segment, friend-approved / not approved areas of a friend executor, " +
		"malformed keys (empty executor, no separator, wrong prefix, names that are prefixes of each other, very long), optionally omitting a written key from the receipt; every receipt of the real EventExecTxList is judged by a predicate written from the statement " +
		"(both directions: success only if all keys allowed and reported; all-own-keys transactions must succeed); a second stream emits local keys (own / foreign / malformed prefixes). non-trivial = transaction with >=1 key outside its own namespace or an omitted key; distinct = tx fingerprint")
	c.Assume("main-chain executor names only (parachain titles need a parachain node configuration, not generated)", "heights below ForkExecKey (legacy manage/token exceptions) not generated")
	n := c.N(2400, 360000)
	per := 300
	nb := (n + per - 1) / per
	lib.Parallel(nb, 14, func(bi int) {
		base := bi * per
		if c.OnlyIdx >= 0 && (c.OnlyIdx < base || c.OnlyIdx >= base+per) {
			return
		}
		cr := c.Child("batch", batchReq{Seed: c.CaseRng("batch", bi).U64(), N: per, Base: base}, lib.ChildOpts{Timeout: 10 * time.Minute})
		if cr.TimedOut || cr.Died {
			c.Inconclusive("batch %d failed: %.300s", bi, cr.Stderr)
			return
		}
		var rs []txRes
		if err := json.Unmarshal(cr.Out, &rs); err != nil {
			c.Inconclusive("batch %d: %v", bi, err)
			return
		}
		for _, r := range rs {
			nontrivial := false
			for _, cl := range r.Classes {
				if cl != "own" {
					nontrivial = true
				}
				c.Seen("key_classes", cl)
			}
			c.Case(lib.Fingerprint(r.Tx), nontrivial, map[string]any{"exec": r.Tx.Exec, "classes": r.Classes, "receipt_type": r.Ty, "expected_ok": r.Want})
			if r.Ty == types.ExecOk {
				c.Count("successful_txs", 1)
			} else {
				c.Count("failed_txs", 1)
			}
			if r.Problem != "" {
				c.Violation(r.Index, "state-key/"+strings.Join(r.Classes, "+"), r, "tx %d (%s) keys %v: %s", r.Index, r.Tx.Exec, r.Classes, r.Problem)
			}
		}
	})
	nl := c.N(300, 36000)
	perL := 100
	nbl := (nl + perL - 1) / perL
	lib.Parallel(nbl, 14, func(bi int) {
		base := 1000000 + bi*perL
		if c.OnlyIdx >= 0 && (c.OnlyIdx < base || c.OnlyIdx >= base+perL) {
			return
		}
		cr := c.Child("batch", batchReq{Seed: c.CaseRng("local", bi).U64(), N: perL, Base: base, Local: true}, lib.ChildOpts{Timeout: 10 * time.Minute})
		if cr.TimedOut || cr.Died {
			c.Inconclusive("local batch %d failed: %.300s", bi, cr.Stderr)
			return
		}
		var rs []localRes
		if err := json.Unmarshal(cr.Out, &rs); err != nil {
			c.Inconclusive("local batch %d: %v", bi, err)
			return
		}
		for _, r := range rs {
			c.Case("local:"+r.Key, r.Class != "own-prefix", map[string]any{"local_key": r.Key, "class": r.Class, "outcome": r.Outcome})
			c.Seen("local_key_classes", r.Class)
			c.Seen("local_outcomes", strings.SplitN(r.Outcome, ":", 2)[0])
			c.Count("local_txs", 1)
			if r.Problem != "" {
				c.Violation(r.Index, "local-key/"+r.Class, r, "local key %q (%s): %s", r.Key, r.Class, r.Problem)
			}
		}
	})
	c.RequireEvents("successful_txs", 200)
	c.RequireEvents("failed_txs", 200)
	c.RequireEvents("local_txs", 100)
}

func main() { lib.Main("C12", "exploration", run) }
