// C15: assets are conserved and balances never go negative (account.DB).
//
// Workload: PRNG-generated sequences of account.DB operations (coins DB and a token DB on one shared
// in-memory state KV) over base58 addresses, hex addresses in several letter-case spellings, executor
// addresses and boundary amounts. Monitor: an independent ledger model keyed by the NORMALISED address
// plus invariant checks on the real store after every operation (see check()).
package main

import (
	"encoding/json"
	"fmt"
	"os"
	"runtime"
	"runtime/pprof"
	"sort"
	"strings"
	"sync"
	"time"

	"github.com/33cn/chain33/common/address"
	clog "github.com/33cn/chain33/common/log"
	_ "github.com/33cn/chain33/system/address" // register btc + eth address drivers
	"github.com/33cn/chain33/types"
	"verifharness/lib"
)

// ---------------------------------------------------------------------------------------------
// child: sequences under address.defaultDriver="eth" (executor addresses are hex strings there)

type childIn struct {
	Seed    int64  `json:"seed"`
	Thor    bool   `json:"thorough"`
	Indices []int  `json:"indices"`
	Mode    string `json:"mode"`
}

func init() {
	lib.RegisterChild("ethdefault", func(in []byte) (any, error) {
		var ci childIn
		if err := json.Unmarshal(in, &ci); err != nil {
			return nil, err
		}
		address.Init(&address.Config{DefaultDriver: "eth"})
		e := newEnv("eth")
		ctx := &lib.Ctx{Prop: "C15", Seed: ci.Seed}
		out := make([]*seqResult, len(ci.Indices))
		lib.Parallel(len(ci.Indices), runtime.NumCPU(), func(k int) {
			i := ci.Indices[k]
			out[k] = runSequence(e, ctx.CaseRng("seq-eth", i), i+ethBase, seqLen(ctx.CaseRng("len-eth", i), ci.Thor))
		})
		return out, nil
	})
}

const ethBase = 1000000 // case indices >= ethBase are sequences of the eth-default configuration

func seqLen(r *lib.Rng, thorough bool) int {
	if thorough {
		return r.Range(100, 1000)
	}
	return r.Range(100, 400)
}

func run(c *lib.Ctx) {
	if p := os.Getenv("VERIF_PPROF"); p != "" { // development aid only
		f, _ := os.Create(p)
		pprof.StartCPUProfile(f)
		defer pprof.StopCPUProfile()
	}
	c.Rule("each case is one generated sequence (100-400 ops quick, 100-1000 thorough) of the 16 account.DB operations on a fresh coins DB + token DB sharing one state KV; " +
		"addresses: 3 base58 users, 3 '0x' hex users and 1 unprefixed hex user each used through 5 letter-case spellings, 3 executor addresses (one mining executor); " +
		"amounts: 0, +-1, small, the source's whole balance +-1, per-op limit (1e17) -1/0/+1, fill-to-balance-limit -1/0/+1, MaxTokenBalance+-1, int64 extremes. " +
		"After EVERY op the whole real store is decoded and checked (bounds, supply, executor sums, ledger model, all spellings of touched addresses; byte-identical store after an error or panic). " +
		"non-trivial = the monitor saw in that sequence >=10 successful ops of >=5 kinds, >=1 successful op naming an existing hex account by a spelling other than the stored one, and >=1 rejected op verified unchanged; fingerprint = hash of the concrete op list")
	c.Assume("executor addresses are passed in the canonical spelling returned by address.ExecAddress (every in-tree caller validates tx.To by exact match against it); the sub-ledger key embeds execaddr verbatim",
		"executor addresses only appear in the execaddr role and plain Transfer/Mint/Burn/GenesisInit never name them (the coins executor routes such transfers to TransferToExec); raw ExecDeposit/ExecWithdraw/ExecIssueCoins are exercised as the two halves of the composite they implement and the executor-sum invariant is evaluated after the pair",
		"spellings differing other than in letter case (with/without 0x prefix) are different accounts and not covered by the statement",
		"a panic escaping an operation is treated like a returned error (the executor converts it to ErrExecPanic): the store must be unchanged")

	nDef := c.N(300, 18000)
	nEth := c.N(100, 6000)
	var mu sync.Mutex
	var results []*seqResult

	// default configuration (btc default driver): in-process, one goroutine per sequence
	envDef := newEnv("btc")
	lib.Parallel(nDef, runtime.NumCPU(), func(i int) {
		if c.Skip(i) {
			return
		}
		r := runSequence(envDef, c.CaseRng("seq", i), i, seqLen(c.CaseRng("len", i), !c.Quick()))
		mu.Lock()
		results = append(results, r)
		mu.Unlock()
	})
	if os.Getenv("VERIF_C15_SHAPES") != "" {
		fmt.Fprintf(os.Stderr, "parent sequences done\n")
	}
	// eth-default configuration: one child process (address.Init is process-global)
	var idx []int
	for i := 0; i < nEth; i++ {
		if c.Skip(i + ethBase) {
			continue
		}
		idx = append(idx, i)
	}
	if len(idx) > 0 {
		res := c.Child("ethdefault", childIn{Seed: c.Seed, Thor: !c.Quick(), Indices: idx}, lib.ChildOpts{Timeout: 45 * time.Minute})
		var rs []*seqResult
		if res.Died || res.TimedOut || json.Unmarshal(res.Out, &rs) != nil {
			c.Inconclusive("eth-default child failed: exit=%d timeout=%v stderr=%s", res.ExitCode, res.TimedOut, lib.ShortList(strings.Split(res.Stderr, "\n"), 12))
		} else {
			results = append(results, rs...)
			c.Count("sequences_eth_default_driver", int64(len(rs)))
		}
	}
	sort.Slice(results, func(a, b int) bool { return results[a].Index < results[b].Index })

	opKinds := map[string]int64{}
	shapes := map[string]int{}
	for _, r := range results {
		c.Case(r.Fingerprint, r.Nontrivial, r.Sample)
		c.Count("ops_executed", r.Ops)
		c.Count("ops_succeeded", r.OK)
		c.Count("ops_rejected_verified_unchanged", r.Rejected)
		c.Count("ops_panicked", r.Panics)
		c.Count("ok_ops_via_alternative_spelling", r.AltSpellOK)
		c.Count("two_spellings_of_one_account_in_one_op", r.SameAcctTwoSpell)
		c.Count("store_records_checked", r.RecordsChecked)
		c.Count("spelling_loads_checked", r.SpellLoads)
		c.Count("balances_at_or_near_limit_seen", r.NearLimit)
		for k, v := range r.KindOK {
			opKinds["ok:"+k] += v
		}
		for k, v := range r.KindErr {
			opKinds["err:"+k] += v
		}
		for _, e := range r.Errs {
			c.Seen("error_values", e)
		}
		for _, v := range r.Violations {
			shapes[v.Shape]++
			c.Violation(r.Index, v.Shape, v.Witness, "%s", v.Msg)
		}
	}
	if len(shapes) > 0 {
		c.Extra("violation_shapes", shapes)
		if os.Getenv("VERIF_C15_SHAPES") != "" {
			fmt.Fprintf(os.Stderr, "shapes: %s\n", lib.JSON(shapes))
		}
	}
	c.Extra("per_operation", opKinds)
	c.RequireEvents("ops_succeeded", 2000)
	c.RequireEvents("ops_rejected_verified_unchanged", 2000)
	c.RequireEvents("ok_ops_via_alternative_spelling", 100)
	c.RequireEvents("two_spellings_of_one_account_in_one_op", 100)
}

func main() {
	clog.SetLogLevel("crit") // account logs every rejected ExecFrozen at error level
	lib.Main("C15", "exploration", run)
}

// ---------------------------------------------------------------------------------------------
// environment shared by the sequences of one process

type env struct {
	name  string
	cfg   *types.Chain33Config
	execs []string // executor addresses (canonical); execs[0] is a mining executor
}

func newEnv(name string) *env {
	cfg := types.NewChain33Config(types.GetDefaultCfgstring())
	e := &env{name: name, cfg: cfg}
	for _, n := range []string{"ticket", "trade", "paracross"} {
		e.execs = append(e.execs, address.ExecAddress(cfg.ExecName(n)))
	}
	return e
}

