package main

import (
	"bytes"
	"encoding/hex"
	"fmt"
	"math"
	"math/big"
	"math/bits"
	"sort"
	"strings"

	"github.com/33cn/chain33/account"
	"github.com/33cn/chain33/common/address"
	"github.com/33cn/chain33/types"
	ecommon "github.com/ethereum/go-ethereum/common"
	"verifharness/lib"
)

// ---------------------------------------------------------------------------------------------
// state KV owned by the harness (so that the WHOLE real state can be enumerated; every write is logged)

type write struct {
	key      string
	old, new []byte
	existed  bool
}

type memKV struct {
	m   map[string][]byte
	log []write // writes since the last resetLog (one operation)
}

func newKV() *memKV { return &memKV{m: map[string][]byte{}} }
func (k *memKV) Get(key []byte) ([]byte, error) {
	if v, ok := k.m[string(key)]; ok {
		return v, nil
	}
	return nil, types.ErrNotFound
}
func (k *memKV) Set(key, value []byte) error {
	ks := string(key)
	old, ok := k.m[ks]
	nv := append([]byte(nil), value...)
	k.m[ks] = nv
	k.log = append(k.log, write{ks, old, nv, ok})
	return nil
}
func (k *memKV) Begin()        {}
func (k *memKV) Commit() error { return nil }
func (k *memKV) Rollback()     {}
func (k *memKV) resetLog()     { k.log = k.log[:0] }

// changes describes the net effect of the logged writes on the store ("" = byte-identical store)
func (k *memKV) changes() string {
	first := map[string]write{}
	var order []string
	for _, w := range k.log {
		if _, ok := first[w.key]; !ok {
			first[w.key] = w
			order = append(order, w.key)
		}
	}
	var d []string
	for _, key := range order {
		f := first[key]
		cur := k.m[key]
		switch {
		case !f.existed:
			d = append(d, "created "+key+" "+descAcc(cur))
		case !bytes.Equal(f.old, cur):
			d = append(d, "rewritten "+key+" "+descAcc(f.old)+" -> "+descAcc(cur))
		}
	}
	sort.Strings(d)
	return strings.Join(d, "; ")
}

// acc128 is a signed 128-bit accumulator (sums of int64 balances cannot overflow it)
type acc128 struct {
	hi int64
	lo uint64
}

func (a *acc128) add(v int64) {
	var c uint64
	a.lo, c = bits.Add64(a.lo, uint64(v), 0)
	a.hi += (v >> 63) + int64(c)
}
func (a acc128) eq(b acc128) bool { return a == b }
func of64(v int64) acc128         { var a acc128; a.add(v); return a }
func (a acc128) String() string {
	b := new(big.Int).Lsh(big.NewInt(a.hi), 64)
	return b.Add(b, new(big.Int).SetUint64(a.lo)).String()
}

func descAcc(v []byte) string {
	var a types.Account
	if types.Decode(v, &a) != nil {
		return "<undecodable>"
	}
	return fmt.Sprintf("{addr:%s balance:%d frozen:%d}", a.Addr, a.Balance, a.Frozen)
}

// ---------------------------------------------------------------------------------------------
// operations

type op struct {
	Name  string `json:"op"`
	Asset int    `json:"asset"` // 0 = coins DB, 1 = token DB
	A     string `json:"a,omitempty"`
	B     string `json:"b,omitempty"`
	X     string `json:"exec,omitempty"`
	Amt   int64  `json:"amount"`
}

func (o op) String() string {
	as := [2]string{"coins", "token"}[o.Asset]
	switch o.Name {
	case "Transfer", "CheckTransfer":
		return fmt.Sprintf("%s.%s(%s, %s, %d)", as, o.Name, o.A, o.B, o.Amt)
	case "ExecTransfer", "ExecTransferFrozen":
		return fmt.Sprintf("%s.%s(%s, %s, exec=%s, %d)", as, o.Name, o.A, o.B, o.X, o.Amt)
	case "Mint", "Burn", "GenesisInit":
		return fmt.Sprintf("%s.%s(%s, %d)", as, o.Name, o.A, o.Amt)
	case "GenesisInitExec":
		return fmt.Sprintf("%s.%s(%s, %d, exec=%s)", as, o.Name, o.A, o.Amt, o.X)
	}
	return fmt.Sprintf("%s.%s(%s, exec=%s, %d)", as, o.Name, o.A, o.X, o.Amt)
}

// exec runs the real code. A panic is reported separately from an error.
func execOp(dbs [2]*account.DB, o op) (err error, panicked string) {
	defer func() {
		if r := recover(); r != nil {
			panicked = fmt.Sprint(r)
		}
	}()
	d := dbs[o.Asset]
	switch o.Name {
	case "Transfer":
		_, err = d.Transfer(o.A, o.B, o.Amt)
	case "CheckTransfer":
		d.CheckTransfer(o.A, o.B, o.Amt) // read-only; its verdict is not a state change
		err = errReadOnly
	case "TransferToExec":
		_, err = d.TransferToExec(o.A, o.X, o.Amt)
	case "TransferWithdraw":
		_, err = d.TransferWithdraw(o.A, o.X, o.Amt)
	case "ExecFrozen":
		_, err = d.ExecFrozen(o.A, o.X, o.Amt)
	case "ExecActive":
		_, err = d.ExecActive(o.A, o.X, o.Amt)
	case "ExecTransfer":
		_, err = d.ExecTransfer(o.A, o.B, o.X, o.Amt)
	case "ExecTransferFrozen":
		_, err = d.ExecTransferFrozen(o.A, o.B, o.X, o.Amt)
	case "ExecDepositFrozen":
		_, err = d.ExecDepositFrozen(o.A, o.X, o.Amt)
	case "ExecIssueCoins+ExecDeposit":
		if _, err = d.ExecIssueCoins(o.X, o.Amt); err == nil {
			if _, err = d.ExecDeposit(o.A, o.X, o.Amt); err != nil {
				err = fmt.Errorf("second half (ExecDeposit) rejected after ExecIssueCoins succeeded: %w", err)
			}
		}
	case "Transfer+ExecDeposit":
		if _, err = d.Transfer(o.A, o.X, o.Amt); err == nil {
			if _, err = d.ExecDeposit(o.A, o.X, o.Amt); err != nil {
				err = fmt.Errorf("second half (ExecDeposit) rejected after Transfer succeeded: %w", err)
			}
		}
	case "ExecWithdraw+Transfer":
		if _, err = d.ExecWithdraw(o.X, o.A, o.Amt); err == nil {
			if _, err = d.Transfer(o.X, o.A, o.Amt); err != nil {
				err = fmt.Errorf("second half (Transfer) rejected after ExecWithdraw succeeded: %w", err)
			}
		}
	case "ExecDeposit(invalid)":
		_, err = d.ExecDeposit(o.A, o.X, o.Amt)
	case "ExecWithdraw(invalid)":
		_, err = d.ExecWithdraw(o.X, o.A, o.Amt)
	case "Mint":
		_, err = d.Mint(o.A, o.Amt)
	case "Burn":
		_, err = d.Burn(o.A, o.Amt)
	case "GenesisInit":
		_, err = d.GenesisInit(o.A, o.Amt)
	case "GenesisInitExec":
		_, err = d.GenesisInitExec(o.A, o.Amt, o.X)
	default:
		panic("unknown op " + o.Name)
	}
	return
}

var errReadOnly = fmt.Errorf("read-only operation")

// ---------------------------------------------------------------------------------------------
// reference ledger, keyed by the normalised address (independent of address.FormatAddrKey)

func isHexAddr(a string) bool {
	s := a
	if len(s) >= 2 && s[0] == '0' && (s[1] == 'x' || s[1] == 'X') {
		s = s[2:]
	}
	if len(s) != 40 {
		return false
	}
	for i := 0; i < len(s); i++ {
		c := s[i]
		if !(c >= '0' && c <= '9' || c >= 'a' && c <= 'f' || c >= 'A' && c <= 'F') {
			return false
		}
	}
	return true
}

func norm(a string) string {
	if isHexAddr(a) {
		return strings.ToLower(a)
	}
	return a
}

type acct struct {
	Bal, Frz int64
	Addr     string // real store only: the spelling kept in the record
}

type ledger struct {
	main     [2]map[string]*acct
	sub      [2]map[string]map[string]*acct // execaddr -> key -> acct
	supply   [2]acc128
	overflow string
}

func newLedger() *ledger {
	l := &ledger{}
	for i := 0; i < 2; i++ {
		l.main[i] = map[string]*acct{}
		l.sub[i] = map[string]map[string]*acct{}
	}
	return l
}
func (l *ledger) m(as int, a string) *acct {
	k := norm(a)
	if l.main[as][k] == nil {
		l.main[as][k] = &acct{}
	}
	return l.main[as][k]
}
func (l *ledger) s(as int, x, a string) *acct {
	if l.sub[as][x] == nil {
		l.sub[as][x] = map[string]*acct{}
	}
	k := norm(a)
	if l.sub[as][x][k] == nil {
		l.sub[as][x][k] = &acct{}
	}
	return l.sub[as][x][k]
}
func (l *ledger) peekM(as int, a string) acct {
	if p := l.main[as][norm(a)]; p != nil {
		return *p
	}
	return acct{}
}
func (l *ledger) peekS(as int, x, a string) acct {
	if p := l.sub[as][x][norm(a)]; p != nil {
		return *p
	}
	return acct{}
}
func (l *ledger) add(p *int64, d int64, what string) {
	r := of64(*p)
	r.add(d)
	if !r.eq(of64(int64(r.lo))) {
		l.overflow = fmt.Sprintf("%s: %d + %d does not fit int64", what, *p, d)
		if r.hi >= 0 {
			*p = math.MaxInt64
		} else {
			*p = math.MinInt64
		}
		return
	}
	*p = int64(r.lo)
}

// apply: documented effect of a SUCCESSFUL operation, executed sequentially on normalised keys
func (l *ledger) apply(o op) {
	as, n := o.Asset, o.Amt
	sup := func(d int64) { l.supply[as].add(d) }
	switch o.Name {
	case "Transfer":
		l.add(&l.m(as, o.A).Bal, -n, "Transfer from")
		l.add(&l.m(as, o.B).Bal, n, "Transfer to")
	case "TransferToExec", "Transfer+ExecDeposit":
		l.add(&l.m(as, o.A).Bal, -n, "from")
		l.add(&l.m(as, o.X).Bal, n, "exec account")
		l.add(&l.s(as, o.X, o.A).Bal, n, "exec sub-account")
	case "TransferWithdraw", "ExecWithdraw+Transfer":
		l.add(&l.s(as, o.X, o.A).Bal, -n, "exec sub-account")
		l.add(&l.m(as, o.X).Bal, -n, "exec account")
		l.add(&l.m(as, o.A).Bal, n, "recipient")
	case "ExecFrozen":
		l.add(&l.s(as, o.X, o.A).Bal, -n, "sub balance")
		l.add(&l.s(as, o.X, o.A).Frz, n, "sub frozen")
	case "ExecActive":
		l.add(&l.s(as, o.X, o.A).Frz, -n, "sub frozen")
		l.add(&l.s(as, o.X, o.A).Bal, n, "sub balance")
	case "ExecTransfer":
		l.add(&l.s(as, o.X, o.A).Bal, -n, "sub from")
		l.add(&l.s(as, o.X, o.B).Bal, n, "sub to")
	case "ExecTransferFrozen":
		l.add(&l.s(as, o.X, o.A).Frz, -n, "sub from frozen")
		l.add(&l.s(as, o.X, o.B).Bal, n, "sub to")
	case "ExecDepositFrozen":
		l.add(&l.m(as, o.X).Bal, n, "exec account")
		l.add(&l.s(as, o.X, o.A).Frz, n, "sub frozen")
		sup(n)
	case "ExecIssueCoins+ExecDeposit", "GenesisInitExec":
		l.add(&l.m(as, o.X).Bal, n, "exec account")
		l.add(&l.s(as, o.X, o.A).Bal, n, "sub balance")
		sup(n)
	case "ExecDeposit(invalid)":
		l.add(&l.s(as, o.X, o.A).Bal, n, "sub balance")
	case "ExecWithdraw(invalid)":
		l.add(&l.s(as, o.X, o.A).Bal, -n, "sub balance")
	case "Mint", "GenesisInit":
		l.add(&l.m(as, o.A).Bal, n, "balance")
		sup(n)
	case "Burn":
		l.add(&l.m(as, o.A).Bal, -n, "balance")
		sup(-n)
	}
}

// ---------------------------------------------------------------------------------------------
// one sequence

type violation struct {
	Shape   string `json:"shape"`
	Msg     string `json:"msg"`
	Witness any    `json:"witness"`
}

type seqResult struct {
	Index            int              `json:"index"`
	Fingerprint      string           `json:"fp"`
	Nontrivial       bool             `json:"nontrivial"`
	Sample           any              `json:"sample,omitempty"`
	Ops              int64            `json:"ops"`
	OK               int64            `json:"ok"`
	Rejected         int64            `json:"rejected"`
	Panics           int64            `json:"panics"`
	AltSpellOK       int64            `json:"alt"`
	SameAcctTwoSpell int64            `json:"same2"`
	RecordsChecked   int64            `json:"rec"`
	SpellLoads       int64            `json:"spl"`
	NearLimit        int64            `json:"near"`
	KindOK           map[string]int64 `json:"kok"`
	KindErr          map[string]int64 `json:"kerr"`
	Errs             []string         `json:"errs"`
	Violations       []violation      `json:"violations,omitempty"`
}

type world struct {
	e     *env
	kv    *memKV
	rs    *realState
	pfx   [2]string
	nops  int
	dbs   [2]*account.DB
	model *ledger
	users []user
}

type user struct {
	spellings []string // spellings[0] is the all-lower-case (or only) one
	hex       bool
}

func newWorld(e *env) *world {
	w := &world{e: e, kv: newKV(), model: newLedger(), rs: newRealState()}
	w.pfx = [2]string{"mavl-" + e.cfg.GetCoinExec() + "-" + e.cfg.GetCoinSymbol() + "-", "mavl-token-TST-"}
	w.dbs[0] = account.NewCoinsAccount(e.cfg)
	w.dbs[0].SetDB(w.kv)
	tok, err := account.NewAccountDB(e.cfg, "token", "TST", w.kv)
	if err != nil {
		panic(err)
	}
	w.dbs[1] = tok
	return w
}

// realState mirrors the WHOLE real store, decoded; it is refreshed from the write log after every operation
// (every written record is re-decoded from the bytes in the store).
type realState struct {
	main [2]map[string]*acct
	sub  [2]map[string]map[string]*acct
	bad  []string
	n    int
}

func newRealState() *realState {
	rs := &realState{}
	for i := 0; i < 2; i++ {
		rs.main[i] = map[string]*acct{}
		rs.sub[i] = map[string]map[string]*acct{}
	}
	return rs
}

func (w *world) refresh() {
	rs := w.rs
	for _, wr := range w.kv.log {
		k, v := wr.key, w.kv.m[wr.key]
		as := -1
		for i := 0; i < 2; i++ {
			if strings.HasPrefix(k, w.pfx[i]) {
				as = i
			}
		}
		if as < 0 {
			rs.bad = append(rs.bad, "key outside the account prefixes: "+k)
			continue
		}
		var a types.Account
		if err := types.Decode(v, &a); err != nil {
			rs.bad = append(rs.bad, "undecodable record "+k)
			continue
		}
		rest := k[len(w.pfx[as]):]
		rec := &acct{Bal: a.Balance, Frz: a.Frozen, Addr: a.Addr}
		if strings.HasPrefix(rest, "exec-") {
			p := strings.SplitN(rest[5:], ":", 2)
			if len(p) != 2 {
				rs.bad = append(rs.bad, "malformed exec key "+k)
				continue
			}
			if rs.sub[as][p[0]] == nil {
				rs.sub[as][p[0]] = map[string]*acct{}
			}
			if rs.sub[as][p[0]][p[1]] == nil {
				rs.n++
			}
			rs.sub[as][p[0]][p[1]] = rec
		} else {
			if rs.main[as][rest] == nil {
				rs.n++
			}
			rs.main[as][rest] = rec
		}
	}
	if rs.n != len(w.kv.m) {
		rs.bad = append(rs.bad, fmt.Sprintf("store holds %d keys but %d decoded records are tracked", len(w.kv.m), rs.n))
	}
}

type finding struct {
	kind string
	msg  string
}

var maxBal = types.MaxTokenBalance

// check evaluates every clause of the property on the real store after an operation.
func (w *world) check(o op, rs *realState, res *seqResult, full bool) []finding {
	var f []finding
	add := func(kind, format string, a ...any) { f = append(f, finding{kind, fmt.Sprintf(format, a...)}) }
	for _, b := range rs.bad {
		add("store", "%s", b)
	}
	asn := [2]string{"coins", "token"}
	for as := 0; as < 2; as++ {
		// (1) bounds
		bound := func(where string, r *acct) {
			if r.Bal < 0 || r.Frz < 0 {
				add("negative", "%s %s: balance=%d frozen=%d", asn[as], where, r.Bal, r.Frz)
			}
			if r.Bal > maxBal || r.Frz > maxBal {
				add("over-limit", "%s %s: balance=%d frozen=%d exceeds the balance limit %d", asn[as], where, r.Bal, r.Frz, maxBal)
			}
			if r.Bal >= maxBal-100000000*100000000*10 {
				res.NearLimit++
			}
		}
		var total acc128
		for k, r := range rs.main[as] {
			bound("account "+k, r)
			total.add(r.Bal)
			total.add(r.Frz)
		}
		for x, m := range rs.sub[as] {
			for k, r := range m {
				bound("sub-account "+k+" under "+x, r)
			}
		}
		// (2) supply
		if !total.eq(w.model.supply[as]) {
			add("supply", "%s: sum of account balances is %s, but minted+issued+granted-burned is %s", asn[as], total, w.model.supply[as])
		}
		// (3) executor sums
		xs := append([]string(nil), w.e.execs...)
		for x := range rs.sub[as] {
			known := false
			for _, y := range w.e.execs {
				known = known || x == y
			}
			if !known {
				xs = append(xs, x)
			}
		}
		for _, x := range xs {
			var sum acc128
			for _, r := range rs.sub[as][x] {
				sum.add(r.Bal)
				sum.add(r.Frz)
			}
			own := int64(0)
			if r := rs.main[as][norm(x)]; r != nil {
				own = r.Bal
			}
			if !sum.eq(of64(own)) {
				add("exec-sum", "%s: executor %s holds %d but the accounts under it sum to %s", asn[as], x, own, sum)
			}
		}
		// (4) ledger model (both directions)
		for k, r := range rs.main[as] {
			mm := w.model.main[as][k]
			if mm == nil {
				mm = &acct{}
			}
			if mm.Bal != r.Bal || mm.Frz != r.Frz {
				add("ledger-diff", "%s account %s: real {balance:%d frozen:%d}, ledger model {balance:%d frozen:%d}", asn[as], k, r.Bal, r.Frz, mm.Bal, mm.Frz)
			}
		}
		for k, mm := range w.model.main[as] {
			if rs.main[as][k] == nil && (mm.Bal != 0 || mm.Frz != 0) {
				add("ledger-diff", "%s account %s: no record, ledger model {balance:%d frozen:%d}", asn[as], k, mm.Bal, mm.Frz)
			}
		}
		for x, m := range rs.sub[as] {
			for k, r := range m {
				mm := w.model.sub[as][x][k]
				if mm == nil {
					mm = &acct{}
				}
				if mm.Bal != r.Bal || mm.Frz != r.Frz {
					add("ledger-diff", "%s sub-account %s under %s: real {balance:%d frozen:%d}, ledger model {balance:%d frozen:%d}", asn[as], k, x, r.Bal, r.Frz, mm.Bal, mm.Frz)
				}
			}
		}
		for x, m := range w.model.sub[as] {
			for k, mm := range m {
				if (rs.sub[as][x] == nil || rs.sub[as][x][k] == nil) && (mm.Bal != 0 || mm.Frz != 0) {
					add("ledger-diff", "%s sub-account %s under %s: no record, ledger model {balance:%d frozen:%d}", asn[as], k, x, mm.Bal, mm.Frz)
				}
			}
		}
	}
	if w.model.overflow != "" {
		add("overflow", "%s", w.model.overflow)
	}
	res.RecordsChecked += int64(rs.n)
	// (5) every spelling of a hex account resolves to the same account: after each op for the addresses it names
	// (its asset; main account + sub-account under its executor), and a full sweep (all hex users, both assets,
	// all executors) every 25th op and at the end of the sequence
	spell := func(as int, a string, execs []string) {
		u := w.userOf(a)
		if u == nil {
			return
		}
		want := w.model.peekM(as, a)
		for _, sp := range u.spellings {
			got := w.dbs[as].LoadAccount(sp)
			res.SpellLoads++
			if got.Balance != want.Bal || got.Frozen != want.Frz {
				add("spelling", "%s LoadAccount(%s) = {balance:%d frozen:%d} but the account %s holds {balance:%d frozen:%d}", asn[as], sp, got.Balance, got.Frozen, norm(a), want.Bal, want.Frz)
			}
			for _, x := range execs {
				ws := w.model.peekS(as, x, a)
				g := w.dbs[as].LoadExecAccount(sp, x)
				res.SpellLoads++
				if g.Balance != ws.Bal || g.Frozen != ws.Frz {
					add("spelling", "%s LoadExecAccount(%s, %s) = {balance:%d frozen:%d} but the sub-account %s holds {balance:%d frozen:%d}", asn[as], sp, x, g.Balance, g.Frozen, norm(a), ws.Bal, ws.Frz)
				}
			}
		}
	}
	if full {
		for _, u := range w.users {
			if u.hex {
				spell(0, u.spellings[0], w.e.execs)
				spell(1, u.spellings[0], w.e.execs)
			}
		}
	} else {
		var xs []string
		if o.X != "" {
			xs = []string{o.X}
		}
		for _, a := range []string{o.A, o.B} {
			if a != "" && isHexAddr(a) {
				spell(o.Asset, a, xs)
			}
		}
	}
	return f
}

func (w *world) userOf(a string) *user {
	k := norm(a)
	for i := range w.users {
		if norm(w.users[i].spellings[0]) == k {
			return &w.users[i]
		}
	}
	return nil
}

// step executes one op with full monitoring. Returns findings (empty = fine) and the outcome.
func (w *world) step(o op, res *seqResult) (fs []finding, outcome string) {
	measure := res != nil
	if res == nil {
		res = &seqResult{}
	}
	// facts about the pre-state needed for the coverage counters
	stored := [2]string{}
	if measure {
		for i, a := range []string{o.A, o.B} {
			if a == "" || !isHexAddr(a) {
				continue
			}
			if r := w.rs.main[o.Asset][norm(a)]; r != nil {
				stored[i] = r.Addr
			}
			if o.X != "" {
				if r := w.rs.sub[o.Asset][o.X][norm(a)]; r != nil {
					stored[i] = r.Addr
				}
			}
		}
	}
	w.kv.resetLog()
	err, pan := execOp(w.dbs, o)
	switch {
	case pan != "":
		outcome = "panic"
		res.Panics++
		if d := w.kv.changes(); d != "" {
			fs = append(fs, finding{"panic-changed-state", fmt.Sprintf("%s panicked (%s) and left the store changed: %s", o, pan, d)})
		}
	case err != nil:
		outcome = "rejected"
		if d := w.kv.changes(); d != "" {
			fs = append(fs, finding{"error-changed-state", fmt.Sprintf("%s returned %q but changed the store: %s", o, err, d)})
		} else if err != errReadOnly {
			res.Rejected++
		}
	default:
		outcome = "ok"
		w.model.apply(o)
	}
	w.refresh()
	w.nops++
	for _, f := range w.check(o, w.rs, res, w.nops%25 == 0) {
		f.msg = fmt.Sprintf("after %s [%s]: %s", o, outcome, f.msg)
		fs = append(fs, f)
	}
	// measured coverage facts
	if outcome == "ok" && measure {
		for i, a := range []string{o.A, o.B} {
			if a != "" && stored[i] != "" && stored[i] != a {
				res.AltSpellOK++
				break
			}
		}
	}
	if measure && o.B != "" && o.A != o.B && norm(o.A) == norm(o.B) {
		res.SameAcctTwoSpell++
	}
	if err != nil && err != errReadOnly {
		if len(res.Errs) < 64 {
			res.Errs = append(res.Errs, rootErr(err))
		}
	}
	if res.KindOK != nil {
		if outcome == "ok" {
			res.KindOK[o.Name]++
		} else {
			res.KindErr[o.Name]++
		}
	}
	return fs, outcome
}

// finalSweep re-checks everything including all spellings at the end of a sequence
func (w *world) finalSweep(res *seqResult) []finding {
	return w.check(op{}, w.rs, res, true)
}

func rootErr(err error) string {
	s := err.Error()
	if i := strings.LastIndex(s, ": "); i >= 0 {
		s = s[i+2:]
	}
	return s
}

// ---------------------------------------------------------------------------------------------
// generation

const perOpLimit = int64(1e17) // MaxCoin * coin precision: amounts must be in (0, perOpLimit)

func hasLetter(h string) bool { return strings.ContainsAny(h, "abcdef") }

func mixCase(r *lib.Rng, s string) string {
	b := []byte(s)
	for i := range b {
		if b[i] >= 'a' && b[i] <= 'f' && r.Bool() {
			b[i] -= 32
		}
	}
	return string(b)
}

func (w *world) makeUsers(r *lib.Rng) {
	for i := 0; i < 3; i++ {
		w.users = append(w.users, user{spellings: []string{address.PubKeyToAddr(0, r.Bytes(33))}})
	}
	for i := 0; i < 4; i++ {
		var h string
		for {
			h = hex.EncodeToString(r.Bytes(20))
			if hasLetter(h) {
				break
			}
		}
		up := strings.ToUpper(h)
		ck := ecommon.HexToAddress(h).Hex()[2:]
		var sp []string
		if i < 3 {
			sp = []string{"0x" + h, "0x" + up, "0X" + up, "0x" + ck, "0x" + mixCase(r, h)}
		} else { // unprefixed
			sp = []string{h, up, ck, mixCase(r, h), mixCase(r, h)}
		}
		w.users = append(w.users, user{spellings: sp, hex: true})
	}
}

func (w *world) pickUser(r *lib.Rng) (int, string) {
	i := r.Intn(len(w.users))
	if r.Chance(25) {
		i = 3 + r.Intn(4) // favour hex accounts
	}
	u := w.users[i]
	return i, lib.Pick(r, u.spellings)
}

func (w *world) pickOther(r *lib.Rng, i int, a string) string {
	u := w.users[i]
	switch {
	case u.hex && r.Chance(30): // the same account under another spelling
		for k := 0; k < 8; k++ {
			if s := lib.Pick(r, u.spellings); s != a {
				return s
			}
		}
		return a
	case r.Chance(4):
		return a // identical string
	}
	for {
		j, s := w.pickUser(r)
		if j != i {
			return s
		}
	}
}

func clampPos(v int64) int64 {
	if v < 1 {
		return 1
	}
	return v
}

// amount chooses around the source's balance src and the destination's balance dst
func amount(r *lib.Rng, src, dst int64) int64 {
	p := r.Intn(100)
	switch {
	case p < 50:
		if src > 0 {
			return 1 + int64(r.U64()%uint64(src))
		}
		return int64(r.Range(1, 1000))
	case p < 57:
		return src
	case p < 61:
		return src + 1
	case p < 64:
		return src - 1
	case p < 67:
		return 0
	case p < 69:
		return -1
	case p < 71:
		return lib.Pick(r, []int64{math.MinInt64, math.MaxInt64, -src, math.MinInt64 + 1})
	case p < 75:
		return 1
	case p < 80:
		return perOpLimit + int64(r.Range(-1, 1))
	case p < 87:
		return maxBal - dst + int64(r.Range(-1, 1))
	case p < 93:
		return clampPos(src / 2)
	}
	return int64(r.Range(1, 100000))
}

func genesisAmount(r *lib.Rng, cur int64) int64 {
	p := r.Intn(100)
	switch {
	case p < 35:
		return 1 + int64(r.U64()%uint64(1e16))
	case p < 50:
		return maxBal - cur - int64(r.U64()%uint64(2e17))
	case p < 58:
		return maxBal - cur + int64(r.Range(-1, 1))
	case p < 62:
		return maxBal + int64(r.Range(-1, 1))
	case p < 67:
		return 0
	case p < 72:
		return -1
	case p < 76:
		return lib.Pick(r, []int64{math.MinInt64, math.MaxInt64, -cur, -cur - 1, math.MinInt64 + 1})
	case p < 82:
		return perOpLimit + int64(r.Range(-1, 1))
	}
	return 1 + int64(r.U64()%uint64(3e17))
}

func (w *world) srcBalance(name string) func(as int, x, a string) int64 {
	M := w.model
	switch name {
	case "Transfer", "TransferToExec", "Transfer+ExecDeposit", "Burn":
		return func(as int, x, a string) int64 { return M.peekM(as, a).Bal }
	case "TransferWithdraw", "ExecWithdraw+Transfer", "ExecFrozen", "ExecTransfer":
		return func(as int, x, a string) int64 { return M.peekS(as, x, a).Bal }
	case "ExecActive", "ExecTransferFrozen":
		return func(as int, x, a string) int64 { return M.peekS(as, x, a).Frz }
	}
	return nil
}

var opTable = []struct {
	name string
	w    int
}{
	{"Transfer", 12}, {"TransferToExec", 13}, {"TransferWithdraw", 9}, {"ExecFrozen", 8}, {"ExecActive", 6},
	{"ExecTransfer", 11}, {"ExecTransferFrozen", 8}, {"ExecDepositFrozen", 4}, {"ExecIssueCoins+ExecDeposit", 3},
	{"Transfer+ExecDeposit", 2}, {"ExecWithdraw+Transfer", 2}, {"ExecDeposit(invalid)", 2}, {"ExecWithdraw(invalid)", 2},
	{"Mint", 5}, {"Burn", 5}, {"GenesisInit", 5}, {"GenesisInitExec", 4}, {"CheckTransfer", 2},
}

func (w *world) genOp(r *lib.Rng, n int) op {
	o := op{}
	if r.Chance(35) {
		o.Asset = 1
	}
	as := o.Asset
	// the first operations fund accounts so that later ones have something to move
	switch {
	case n < 6:
		o.Name = "GenesisInit"
	case n < 9:
		o.Name = "GenesisInitExec"
	default:
		tot := 0
		for _, t := range opTable {
			tot += t.w
		}
		k := r.Intn(tot)
		for _, t := range opTable {
			if k < t.w {
				o.Name = t.name
				break
			}
			k -= t.w
		}
	}
	i, a := w.pickUser(r)
	x := lib.Pick(r, w.e.execs)
	if r.Chance(40) {
		x = w.e.execs[0]
	}
	M := w.model
	// mostly pick a source that has something to move for this operation
	if src := w.srcBalance(o.Name); src != nil && r.Chance(75) {
		for k := 0; k < 8 && src(as, x, a) <= 0; k++ {
			i, a = w.pickUser(r)
			if k%3 == 2 {
				x = lib.Pick(r, w.e.execs)
			}
		}
	}
	o.A = a
	switch o.Name {
	case "Transfer", "CheckTransfer":
		o.B = w.pickOther(r, i, a)
		o.Amt = amount(r, M.peekM(as, a).Bal, M.peekM(as, o.B).Bal)
	case "TransferToExec", "Transfer+ExecDeposit":
		o.X = x
		o.Amt = amount(r, M.peekM(as, a).Bal, M.peekM(as, x).Bal)
	case "TransferWithdraw":
		o.X = x
		o.Amt = amount(r, M.peekS(as, x, a).Bal, M.peekM(as, a).Bal)
	case "ExecWithdraw+Transfer":
		o.X = x
		o.Amt = amount(r, M.peekS(as, x, a).Bal, M.peekM(as, a).Bal)
		// the harness-made composite must not be half-applied by construction: a recipient that would pass
		// the balance limit is the business of TransferWithdraw (which has to refuse it as a whole)
		if s := new(big.Int).Add(big.NewInt(M.peekM(as, a).Bal), big.NewInt(o.Amt)); s.Cmp(big.NewInt(maxBal)) > 0 {
			o.Name = "TransferWithdraw"
		}
	case "ExecFrozen":
		o.X = x
		o.Amt = amount(r, M.peekS(as, x, a).Bal, M.peekS(as, x, a).Frz)
	case "ExecActive":
		o.X = x
		o.Amt = amount(r, M.peekS(as, x, a).Frz, M.peekS(as, x, a).Bal)
	case "ExecTransfer":
		o.X = x
		o.B = w.pickOther(r, i, a)
		o.Amt = amount(r, M.peekS(as, x, a).Bal, M.peekS(as, x, o.B).Bal)
	case "ExecTransferFrozen":
		o.X = x
		o.B = w.pickOther(r, i, a)
		o.Amt = amount(r, M.peekS(as, x, a).Frz, M.peekS(as, x, o.B).Bal)
	case "ExecDepositFrozen", "ExecIssueCoins+ExecDeposit":
		o.X = x
		o.Amt = amount(r, int64(r.U64()%uint64(1e16)), M.peekM(as, x).Bal)
	case "ExecDeposit(invalid)":
		o.X = x
		o.Amt = lib.Pick(r, []int64{0, -1, perOpLimit, perOpLimit + 1, math.MinInt64, math.MaxInt64})
		if r.Chance(25) {
			o.A, o.Amt = x, int64(r.Range(1, 1000)) // addr == execaddr
		}
	case "ExecWithdraw(invalid)":
		o.X = x
		o.Amt = lib.Pick(r, []int64{0, -1, perOpLimit, perOpLimit + 1, math.MinInt64, M.peekS(as, x, a).Bal + 1})
		if o.Amt <= 0 && r.Chance(25) {
			o.A, o.Amt = x, int64(r.Range(1, 1000))
		}
	case "Mint":
		o.Amt = amount(r, int64(r.U64()%uint64(1e16)), M.peekM(as, a).Bal)
	case "Burn":
		o.Amt = amount(r, M.peekM(as, a).Bal, 0)
	case "GenesisInit":
		o.Amt = genesisAmount(r, M.peekM(as, a).Bal)
		if n < 6 && r.Chance(70) {
			o.Amt = 1 + int64(r.U64()%uint64(1e16))
		}
	case "GenesisInitExec":
		o.X = x
		o.Amt = genesisAmount(r, M.peekM(as, x).Bal)
		if (n < 9 && r.Chance(80)) || r.Chance(40) {
			o.Amt = 1 + int64(r.U64()%uint64(1e16))
		}
		if r.Chance(3) {
			o.A = x
		}
	}
	return o
}

// ---------------------------------------------------------------------------------------------

func runSequence(e *env, r *lib.Rng, index, length int) *seqResult {
	res := &seqResult{Index: index, KindOK: map[string]int64{}, KindErr: map[string]int64{}}
	w := newWorld(e)
	w.makeUsers(r.Fork())
	var ops []op
	var bad []finding
	for n := 0; n < length; n++ {
		o := w.genOp(r, n)
		ops = append(ops, o)
		fs, out := w.step(o, res)
		res.Ops++
		if out == "ok" {
			res.OK++
		}
		if len(fs) > 0 {
			bad = fs
			break
		}
	}
	if len(bad) == 0 {
		for _, f := range w.finalSweep(res) {
			f.msg = "final sweep: " + f.msg
			bad = append(bad, f)
		}
	}
	res.Fingerprint = lib.Fingerprint(ops)
	kinds := 0
	for range res.KindOK {
		kinds++
	}
	res.Nontrivial = res.OK >= 10 && kinds >= 5 && res.AltSpellOK >= 1 && res.Rejected >= 1
	if res.Nontrivial && index%50 == 0 && len(ops) > 6 {
		k := len(ops)
		if k > 12 {
			k = 12
		}
		var s []string
		for _, o := range ops[6:k] {
			s = append(s, o.String())
		}
		res.Sample = map[string]any{"config": e.name, "ops_total": len(ops), "succeeded": res.OK, "rejected": res.Rejected, "ops_7_to_12": s}
	}
	res.Errs = uniq(res.Errs)
	if len(bad) > 0 {
		min := minimise(e, w.users, ops, bad[0].kind)
		// findings of the minimal witness
		fs, outs := replay(e, w.users, min)
		if len(fs) == 0 { // cannot happen (minimise only keeps failing lists)
			fs, min = bad, ops
		}
		var msgs, kinds []string
		seen := map[string]bool{}
		for _, f := range fs {
			msgs = append(msgs, f.msg)
			if !seen[f.kind] {
				seen[f.kind] = true
				kinds = append(kinds, f.kind)
			}
		}
		last := min[len(min)-1]
		var wit []string
		for i, o := range min {
			wit = append(wit, fmt.Sprintf("%s => %s", o, outs[i]))
		}
		res.Violations = append(res.Violations, violation{
			Shape:   fs[0].kind + "/" + last.Name + "/" + relation(last),
			Msg:     fmt.Sprintf("[%s config] minimal history (%d of %d ops): %s || %s", e.name, len(min), len(ops), strings.Join(wit, " ; "), lib.ShortList(msgs, 3)),
			Witness: map[string]any{"config": e.name, "ops": min, "findings": msgs, "kinds": kinds},
		})
	}
	return res
}

func uniq(xs []string) []string {
	m := map[string]bool{}
	var out []string
	for _, x := range xs {
		if !m[x] {
			m[x] = true
			out = append(out, x)
		}
	}
	sort.Strings(out)
	return out
}

// relation classifies the last operation of a minimal witness (part of the shape).
func relation(o op) string {
	var p []string
	switch {
	case o.B != "" && o.A == o.B:
		p = append(p, "from==to")
	case o.B != "" && norm(o.A) == norm(o.B):
		p = append(p, "same-account-other-spelling")
	}
	if o.X != "" && o.A == o.X {
		p = append(p, "addr==exec")
	}
	switch {
	case o.Amt < 0:
		p = append(p, "amount<0")
	case o.Amt == 0:
		p = append(p, "amount=0")
	case o.Amt >= perOpLimit:
		p = append(p, "amount>=limit")
	default:
		p = append(p, "amount-in-range")
	}
	return strings.Join(p, ",")
}

// replay runs a concrete op list on a fresh store and returns the findings of the first failing op.
func replay(e *env, users []user, ops []op) ([]finding, []string) {
	w := newWorld(e)
	w.users = users
	var outs []string
	for i, o := range ops {
		fs, out := w.step(o, nil)
		outs = append(outs, out)
		if len(fs) > 0 {
			if i == len(ops)-1 {
				return fs, outs
			}
			return nil, outs // fails earlier: not the witness we are shrinking
		}
	}
	return w.finalSweep(&seqResult{}), outs
}

// minimise: delta debugging over the prefix; the last (failing) op is always kept, the result must fail
// at its last op with the same first finding kind.
func minimise(e *env, users []user, ops []op, kind string) []op {
	fails := func(cand []op) bool {
		fs, _ := replay(e, users, cand)
		return len(fs) > 0 && fs[0].kind == kind
	}
	cur := append([]op(nil), ops...)
	if !fails(cur) {
		return cur
	}
	for chunk := (len(cur) - 1) / 2; chunk >= 1; {
		removed := false
		for start := 0; start+chunk <= len(cur)-1; {
			cand := append(append([]op(nil), cur[:start]...), cur[start+chunk:]...)
			if fails(cand) {
				cur = cand
				removed = true
			} else {
				start += chunk
			}
		}
		if chunk == 1 && !removed {
			break
		}
		if chunk > 1 {
			chunk /= 2
		}
	}
	return cur
}
